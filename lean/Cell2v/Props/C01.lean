import Cell2v.Lemmas.Service
import Cell2v.Lemmas.ServiceLive
import Cell2v.Lemmas.ServiceRestart
/-!
C01 — a service request completes exactly once: reply, remote error, or timeout.

Model: `Cell2v/Model/Service.lean` (`doRequestEx`, `handleResponse`,
`checkExpired`, the allocator, the expiry timer flag).  All statements are about
`run (init M n0) ops` for **every** op list `ops` — any number of outstanding
requests, any interleaving of replies / error replies / duplicates / late and
unknown replies / expiry scans / clock advances / other issues, any behaviour
of the completion callbacks (the `issue … ret` ops between a `cb` event and its
`ret`, or `panic` instead of `ret` inside an expiry scan), any map-iteration
order of the scan (`tick order`), any wrap bound `M` and allocator start `n0`.

Id guard.  Ids wrap at `M`, so "that very request" is only well defined while
an id is not re-allocated during the life of the entry stored under it.  The
model raises the ghost flag `collided` when that happens; the theorems assume
the flag is down at the end (it is monotone: `run_collided`).
`guard_implies_not_collided` shows the flag stays down when the decidable guard
"the allocated id is not currently pending" holds at every issue, and
`id_guard_by_counting` derives that guard from "every pending entry has seen
fewer than `M - 1` allocations since it was stored" (a request lives ≈ 31 s,
`M` ≈ 2^31).

The log is newest-first.  `cbCount log i` = number of callback invocations of
instance `i` (instances number the issues; never reused).

Upper bound: `cb_at_most_once`, `cb_is_right_reply`, `timeout_only_after_deadline`, ….
Lower bound: `response_completes` (a processed reply does complete), `request_never_lost`
(registered-or-completed-once at every later moment), `exactly_once_eventually` /
`exactly_once_despite_panics` (with the expiry scans that fairness of the 1 s timer provides
written into the op list, the count is exactly 1).  Node-level entry points without a route
(`Op.noroute`) and `ResponseEx`'s decision (`respondsTo`): last section.  What is excluded by
assumption — a restart of the actor — has a witness at the end.
-/
namespace Cell2v.Props.C01
open Cell2v.Service

/-- **at most once**: whatever happens, the callback of an issue instance is
invoked at most one time (reply, remote error, decode error, serialisation
error and timeout all count). -/
theorem cb_at_most_once (M n0 : Nat) (ops : List Op)
    (hg : (run (init M n0) ops).collided = false) (i : Nat) :
    cbCount (run (init M n0) ops).log i ≤ 1 :=
  (run_WF ops _ (init_WF M n0) hg).b.cbOnce i

/-- **the right reply**: a completion that is not a timeout and not one of the two
synchronous errors reported by the issuing call itself (serialisation failure, no route:
`noservice_only_from_noroute`) is added only by `handleResponse` processing a
response that carries the id under which *this* instance is registered right
now; it passes the decoded content of that very response; the instance had not
been completed before (so it is the first response processed for it and no
timeout preceded); and the request really was issued under that id. -/
theorem cb_is_right_reply (M n0 : Nat) (ops : List Op)
    (hg : (run (init M n0) ops).collided = false) (op : Op) (i id : Nat) (o : Outcome) (t : Nat)
    (hin : Ev.cb i id o t ∈ (step (run (init M n0) ops) op).log)
    (hnew : Ev.cb i id o t ∉ (run (init M n0) ops).log)
    (h1 : o ≠ .timeout) (h2 : o ≠ .serErr) (h3 : o ≠ .noService) :
    ∃ p w, op = .response id p ∧ o = decode p ∧ free (run (init M n0) ops) = true ∧
      (id, w) ∈ (run (init M n0) ops).pending ∧ w.inst = i ∧ w.hasCb = true ∧
      t = (run (init M n0) ops).now ∧ cbCount (run (init M n0) ops).log i = 0 ∧
      ∃ t0, Ev.issued i id t0 ∈ (run (init M n0) ops).log := by
  have hwf := run_WF ops _ (init_WF M n0) hg
  rcases step_new_cb hin hnew with (⟨e, _⟩ | ⟨_, e, _⟩) | ⟨e, _⟩ | ⟨p, w, hop, ho, hfree, hf, hi, hcb, ht⟩ | ⟨e, _⟩
  · exact absurd e h1
  · exact absurd e h1
  · exact absurd e h2
  rotate_left
  · exact absurd e h3
  · subst hop ho hi ht
    have hm := find_some_mem hf
    obtain ⟨_, hb⟩ := free_iff.1 hfree
    have h0 := hwf.idle hb
    obtain ⟨t0, _, hiss⟩ := h0.c.issuedP id w hm
    exact ⟨p, w, rfl, rfl, hfree, hm, rfl, hcb, rfl, h0.b.cbPend id w hm, t0, hiss⟩

/-- **timeout only after the deadline**: every timeout completion in the history
belongs to a request issued (under that id) more than 30000 ms earlier, and it is
that instance's only completion — no response was processed for it before. -/
theorem timeout_only_after_deadline (M n0 : Nat) (ops : List Op)
    (hg : (run (init M n0) ops).collided = false) (i id t : Nat)
    (h : Ev.cb i id .timeout t ∈ (run (init M n0) ops).log) :
    (∃ t0, Ev.issued i id t0 ∈ (run (init M n0) ops).log ∧ t0 + reqTimeout < t) ∧
    cbCount (run (init M n0) ops).log i = 1 := by
  have hwf := run_WF ops _ (init_WF M n0) hg
  obtain ⟨t0, h1, h2⟩ := hwf.c.cbEv i id .timeout t h
  have := hwf.b.cbOnce i
  have := cb_mem_count h
  exact ⟨⟨t0, h1, h2 rfl⟩, by omega⟩

/-- the timeout callback is added by the expiry scan only (`tick`, or the scan
continuing after the previous callback returned), stamped with the current time -/
theorem timeout_only_from_scan (s : State) (op : Op) (i id t : Nat)
    (hin : Ev.cb i id .timeout t ∈ (step s op).log) (hnew : Ev.cb i id .timeout t ∉ s.log) :
    t = s.now ∧ ((∃ order, op = .tick order) ∨ op = .ret) := by
  rcases step_new_cb hin hnew with (⟨_, e, o, h⟩ | ⟨h, _, e⟩) | ⟨e, _⟩ | ⟨p, w, _, e, _⟩ | ⟨e, _⟩
  · exact ⟨e, Or.inl ⟨o, h⟩⟩
  · exact ⟨e, Or.inr h⟩
  · cases e
  · exact absurd e.symm (decode_ne_timeout p)
  · cases e

/-- **late, duplicate, unknown**: a response whose id is not in the table is
discarded — one "miss" log line, no callback, and the state is otherwise
untouched (no entry appears, the timer is not touched). -/
theorem late_dup_unknown_dropped (s : State) (id : Nat) (p : Payload) (hfree : free s = true)
    (hmiss : ∀ w, (id, w) ∉ s.pending) :
    step s (.response id p) = { s with log := .dropped id :: s.log } :=
  response_miss hfree (find_none_iff.2 hmiss) p

/-- … and an instance whose callback has been invoked — normally or panicking — is
not in the table any more, at any moment (the entry is removed *before* the
callback runs): a later or duplicate response under its id is a miss, or — only
after a wrap — meets a different, newer instance; the expiry scan cannot meet it again. -/
theorem completed_not_pending (M n0 : Nat) (ops : List Op)
    (hg : (run (init M n0) ops).collided = false)
    (i id : Nat) (o : Outcome) (t : Nat) (h : Ev.cb i id o t ∈ (run (init M n0) ops).log) :
    (∀ id' w, (id', w) ∈ (run (init M n0) ops).pending → w.inst ≠ i) ∧
    Ev.done i id ∈ (run (init M n0) ops).log := by
  have hwf := run_WF ops _ (init_WF M n0) hg
  have hc := cb_mem_count h
  refine ⟨?_, hwf.f.cbDone i id o t h⟩
  intro id' w hm e
  have := hwf.b.cbPend id' w hm
  rw [e] at this
  omega

/-- **no residue**: at any time the table holds exactly the instances that were
issued as requests and not removed since. -/
theorem no_residue (M n0 : Nat) (ops : List Op) (hg : (run (init M n0) ops).collided = false) (i : Nat) :
    (∃ id w, (id, w) ∈ (run (init M n0) ops).pending ∧ w.inst = i) ↔
    ((∃ id t, Ev.issued i id t ∈ (run (init M n0) ops).log) ∧
     ∀ id, Ev.done i id ∉ (run (init M n0) ops).log) := by
  have hwf := run_WF ops _ (init_WF M n0) hg
  constructor
  · rintro ⟨id, w, hm, rfl⟩
    obtain ⟨t0, _, hiss⟩ := hwf.c.issuedP id w hm
    exact ⟨⟨id, t0, hiss⟩, hwf.d.notDone id w hm⟩
  · rintro ⟨⟨id, t, hiss⟩, hnd⟩
    rcases hwf.d.tracked i id t hiss with ⟨w, hw, hi⟩ | hd
    · exact ⟨id, w, hw, hi⟩
    · exact absurd hd (hnd id)

/-- a notification never touches the table, the allocator or the timer -/
theorem notify_never_registers (s : State) (serOk hasCb : Bool) :
    (step s (.issue false serOk hasCb)).pending = s.pending ∧
    (step s (.issue false serOk hasCb)).armed = s.armed ∧
    (step s (.issue false serOk hasCb)).nextId = s.nextId := by
  simp only [step]; rw [issue_notify]; cases serOk <;> exact ⟨rfl, rfl, rfl⟩

/-- a request whose message cannot be serialised leaves nothing behind, sends
nothing, does not arm the timer, and — if it has a callback — completes it at
once with the error (the repaired D10) -/
theorem serialize_failure_leaves_nothing (s : State) (hasCb : Bool)
    (hguard : ∀ w, (allocId s.M s.nextId, w) ∉ s.pending) :
    (step s (.issue true false hasCb)).pending = s.pending ∧
    (step s (.issue true false hasCb)).armed = s.armed ∧
    (∀ i id, Ev.sent i id ∈ (step s (.issue true false hasCb)).log → Ev.sent i id ∈ s.log) ∧
    (hasCb = true → Ev.cb s.ninst (allocId s.M s.nextId) .serErr s.now ∈ (step s (.issue true false hasCb)).log) := by
  simp only [step]; rw [issue_req_fail s hasCb hguard]
  refine ⟨rfl, rfl, ?_, ?_⟩
  · intro i id h
    cases hasCb <;> simpa using h
  · intro h; subst h; simp

/-- **the timer runs while anything is pending** (no collision hypothesis needed
for this direction of the bookkeeping) -/
theorem armed_while_pending (M n0 : Nat) (ops : List Op) (hg : (run (init M n0) ops).collided = false) :
    (run (init M n0) ops).pending ≠ [] → (run (init M n0) ops).armed = true :=
  (run_WF ops _ (init_WF M n0) hg).a.armedP

/-- **a scan completes what is due**: in a reachable state at rest (the timer is then
armed: `armed_while_pending`, no hypothesis needed), take any entry whose deadline has passed.  Run the scan (`tick`, any map
order) and then anything at all in which no callback panics (`more`: whatever the
callbacks do and return).  As soon as the goroutine is at rest again, that entry's
callback has been invoked with the timeout (no callback: nothing to call), the
entry has been removed and is gone.  With `armed_while_pending` and the fairness
of the 1 s timer (C14 / runtime, assumed) this is the lower bound of "exactly once". -/
theorem tick_completes_due (M n0 : Nat) (ops : List Op)
    (hg : (run (init M n0) ops).collided = false)
    (hfree : free (run (init M n0) ops) = true)
    (id : Nat) (w : Wait) (hm : (id, w) ∈ (run (init M n0) ops).pending)
    (hdue : w.deadline < (run (init M n0) ops).now)
    (order : List Nat) (more : List Op) (hnp : ∀ op, op ∈ more → op ≠ .panic)
    (hg' : (run (init M n0) (ops ++ .tick order :: more)).collided = false)
    (hrest : free (run (init M n0) (ops ++ .tick order :: more)) = true) :
    (w.hasCb = true → ∃ t, Ev.cb w.inst id .timeout t ∈ (run (init M n0) (ops ++ .tick order :: more)).log) ∧
    Ev.done w.inst id ∈ (run (init M n0) (ops ++ .tick order :: more)).log ∧
    ∀ id' w', (id', w') ∈ (run (init M n0) (ops ++ .tick order :: more)).pending → w'.inst ≠ w.inst := by
  have hwf := run_WF ops _ (init_WF M n0) hg
  have harm : (run (init M n0) ops).armed = true := hwf.a.armedP (by intro e; rw [e] at hm; cases hm)
  rw [run_append, run_cons] at hg' hrest ⊢
  have hc1 := not_collided_of_run hg'
  have hp := tick_progress hwf hfree harm hm hdue order hc1
  have hwf1 := step_WF hwf (.tick order) hc1
  have hfin := run_progress more _ id w hwf1 hnp hp hg'
  have hwf2 := run_WF more _ hwf1 hg'
  obtain ⟨_, hb⟩ := free_iff.1 hrest
  rcases hfin with hh | ⟨cur, rest, hb', _⟩
  · refine ⟨hh.1, hh.2, ?_⟩
    intro id' w' hm' e
    exact hwf2.d.notDone id' w' hm' id (e ▸ hh.2)
  · rw [hb] at hb'; cases hb'

/-- **the timer is left behind no longer than one period**: the first scan that starts at a free
moment and finds the table empty cancels the timer (nothing else changes), and the next request
that is sent arms it again — so "armed" is not a residue either (`armed_while_pending` is the
other direction). -/
theorem idle_scan_frees_timer (s : State) (hfree : free s = true) (harm : s.armed = true) (hemp : s.pending = [])
    (order : List Nat) (hasCb : Bool) :
    step s (.tick order) = { s with armed := false, log := .freed :: s.log } ∧
    (step (step s (.tick order)) (.issue true true hasCb)).armed = true := by
  have h1 : step s (.tick order) = { s with armed := false, log := .freed :: s.log } := by
    simp [step, tick, hfree, harm, hemp]
  refine ⟨h1, ?_⟩
  rw [h1]
  cases hasCb <;> simp [step, issue]

/-- **a panicking timeout callback** (recovered by the timer manager) aborts the
scan: nothing else changes — in particular the ids the scan had not reached yet
stay in the table with their (passed) deadlines and the timer stays armed, so the
hypotheses of `tick_completes_due` hold for them again at the next scan; the
panicking instance itself is already gone (`completed_not_pending`) and counts as
completed once (`cb_at_most_once`). -/
theorem panic_aborts_scan_only (s : State) (i : Nat) (rest : List Nat) (hb : s.base = .inTick i rest) :
    step s .panic = { s with base := .idle, nest := 0 } ∧ free (step s .panic) = true := by
  simp [step, panicScan, hb, free]

/-- … and every scan that finds something due removes at least one entry before any
callback can panic, so `k` overdue entries are gone after at most `k` scans (as a theorem over
whole histories, with the requests issued in between accounted for: `exactly_once_despite_panics`). -/
theorem scan_removes_one (M n0 : Nat) (ops : List Op) (hg : (run (init M n0) ops).collided = false)
    (hfree : free (run (init M n0) ops) = true)
    (id : Nat) (w : Wait) (hm : (id, w) ∈ (run (init M n0) ops).pending)
    (hdue : w.deadline < (run (init M n0) ops).now) (order : List Nat) :
    (step (run (init M n0) ops) (.tick order)).pending.length < (run (init M n0) ops).pending.length := by
  have hwf := run_WF ops _ (init_WF M n0) hg
  have harm : (run (init M n0) ops).armed = true := hwf.a.armedP (by intro e; rw [e] at hm; cases hm)
  obtain ⟨_, hb⟩ := free_iff.1 hfree
  have h0 := hwf.idle hb
  have hne : (run (init M n0) ops).pending.isEmpty = false := by
    cases hp : (run (init M n0) ops).pending with
    | nil => rw [hp] at hm; cases hm
    | cons _ _ => rfl
  have hin : id ∈ pickOrder order (dueIds (run (init M n0) ops).now (run (init M n0) ops).pending) :=
    (pickOrder_perm _ _).mem_iff.2 (mem_dueIds.2 ⟨w, hm, hdue⟩)
  have hperm := pickOrder_perm order (dueIds (run (init M n0) ops).now (run (init M n0) ops).pending)
  have : step (run (init M n0) ops) (.tick order) = tickLoop (run (init M n0) ops)
      (pickOrder order (dueIds (run (init M n0) ops).now (run (init M n0) ops).pending)) := by
    simp [step, tick, hfree, harm, hne]
  rw [this]
  cases hl : pickOrder order (dueIds (run (init M n0) ops).now (run (init M n0) ops).pending) with
  | nil => rw [hl] at hin; cases hin
  | cons r rest =>
    have hr : r ∈ dueIds (run (init M n0) ops).now (run (init M n0) ops).pending :=
      hperm.mem_iff.1 (by rw [hl]; exact List.mem_cons_self ..)
    obtain ⟨w', hw', _⟩ := mem_dueIds.1 hr
    exact tickLoop_cons_length_lt (find_some_of_mem h0.a.nodup hw')

/-- the explicit id guard, issue by issue, keeps the `collided` flag down … -/
theorem guard_implies_not_collided (M n0 : Nat) (ops : List Op) (h : Guarded (init M n0) ops) :
    (run (init M n0) ops).collided = false :=
  guarded_not_collided ops _ (init_WF M n0) rfl h

/-- … and the guard follows from counting: if every pending entry has seen fewer
than `M - 1` id allocations since it was stored, the id allocated next is not in
the table (for every reachable state, collisions or not). -/
theorem id_guard_by_counting (M n0 : Nat) (hM : 1 ≤ M) (ops : List Op)
    (hfew : ∀ id w, (id, w) ∈ (run (init M n0) ops).pending →
        (run (init M n0) ops).nalloc - w.allocNo + 1 < M) (serOk hasCb : Bool) :
    GuardOk (run (init M n0) ops) (.issue true serOk hasCb) := by
  have hq : AllocInv (init M n0) := by
    refine ⟨?_, ?_, ?_⟩ <;> (intro _ _ h; cases h)
  obtain ⟨h1, h2⟩ := run_AllocInv ops (init M n0) hM hq
  have h2' : (run (init M n0) ops).M = M := h2
  have := Qe.fresh h1 (by rw [h2']; exact hM) (by intro id w hm; rw [h2']; exact hfew id w hm)
  simp only [GuardOk, guardOkB, Bool.not_eq_eq_eq_not, Bool.not_true]
  exact hasKey_false.2 this

/-! ### the lower bound: a request is never lost, and is completed -/

/-- **a reply completes** (lower bound for replies): when `handleResponse` processes — at a
moment the goroutine is free, as every mailbox message is — a response whose id is
registered with a callback, that callback IS invoked, with the decoded content of this
response, stamped now; it is then that instance's one and only invocation, the entry is
gone and nothing else in the table is touched. -/
theorem response_completes (M n0 : Nat) (ops : List Op)
    (hg : (run (init M n0) ops).collided = false) (hfree : free (run (init M n0) ops) = true)
    (id : Nat) (w : Wait) (hm : (id, w) ∈ (run (init M n0) ops).pending) (hcb : w.hasCb = true) (p : Payload) :
    Ev.cb w.inst id (decode p) (run (init M n0) ops).now ∈ (step (run (init M n0) ops) (.response id p)).log ∧
    cbCount (step (run (init M n0) ops) (.response id p)).log w.inst = 1 ∧
    (step (run (init M n0) ops) (.response id p)).pending = del id (run (init M n0) ops).pending ∧
    (∀ id' w', (id', w') ∈ (step (run (init M n0) ops) (.response id p)).pending → w'.inst ≠ w.inst) ∧
    (step (run (init M n0) ops) (.response id p)).collided = false := by
  have hwf := run_WF ops _ (init_WF M n0) hg
  have hf := find_some_of_mem hwf.a.nodup hm
  have hcol : (step (run (init M n0) ops) (.response id p)).collided = false := by
    simp only [step]; rw [response_cb hfree hf hcb]; exact hg
  have hwf' := step_WF hwf (.response id p) hcol
  have hin : Ev.cb w.inst id (decode p) (run (init M n0) ops).now ∈ (step (run (init M n0) ops) (.response id p)).log := by
    simp only [step]; rw [response_cb hfree hf hcb]; exact List.mem_cons_self ..
  have h1 := cb_mem_count hin
  have h2 := hwf'.b.cbOnce w.inst
  refine ⟨hin, by omega, ?_, ?_, hcol⟩
  · simp only [step]; rw [response_cb hfree hf hcb]
  · intro id' w' hm' e
    have := hwf'.b.cbPend id' w' hm'
    rw [e] at this; omega

/-- … for ever: at every later moment of every continuation that reply stays the instance's one and only completion -/
theorem reply_completes_for_ever (M n0 : Nat) (ops : List Op) (hfree : free (run (init M n0) ops) = true)
    (id : Nat) (w : Wait) (hm : (id, w) ∈ (run (init M n0) ops).pending) (hcb : w.hasCb = true) (p : Payload)
    (more : List Op) (hg : (run (init M n0) (ops ++ .response id p :: more)).collided = false) :
    Ev.cb w.inst id (decode p) (run (init M n0) ops).now ∈ (run (init M n0) (ops ++ .response id p :: more)).log ∧
    cbCount (run (init M n0) (ops ++ .response id p :: more)).log w.inst = 1 := by
  rw [run_append, run_cons] at hg ⊢
  have hc1 := not_collided_of_run hg
  have hc0 : (run (init M n0) ops).collided = false := by
    cases h : (run (init M n0) ops).collided with
    | false => rfl
    | true => have := step_collided (.response id p) h; rw [this] at hc1; cases hc1
  obtain ⟨h1, h2, _⟩ := response_completes M n0 ops hc0 hfree id w hm hcb p
  have hwf1 := step_WF (run_WF ops _ (init_WF M n0) hc0) (.response id p) hc1
  exact ⟨run_log_mono more _ _ h1, run_count_one more _ _ hwf1 hg h2⟩

/-- **an undecodable reply completes, too** (the repaired D22): a response with success code
whose type name nobody registered — `remote.Deserialize` panics on it, `deserializeReply`
recovers — completes the request it answers exactly once, with the decode error, and removes
the entry, like every other response; the requester goes on (its state is the one of
`response_completes`, no crash, no restart). -/
theorem undecodable_reply_completes (M n0 : Nat) (ops : List Op)
    (hg : (run (init M n0) ops).collided = false) (hfree : free (run (init M n0) ops) = true)
    (id : Nat) (w : Wait) (hm : (id, w) ∈ (run (init M n0) ops).pending) (hcb : w.hasCb = true) :
    Ev.cb w.inst id .decodeErr (run (init M n0) ops).now ∈ (step (run (init M n0) ops) (.response id .badType)).log ∧
    cbCount (step (run (init M n0) ops) (.response id .badType)).log w.inst = 1 ∧
    (step (run (init M n0) ops) (.response id .badType)).pending = del id (run (init M n0) ops).pending ∧
    (∀ id' w', (id', w') ∈ (step (run (init M n0) ops) (.response id .badType)).pending → w'.inst ≠ w.inst) := by
  obtain ⟨h1, h2, h3, h4, _⟩ := response_completes M n0 ops hg hfree id w hm hcb .badType
  exact ⟨h1, h2, h3, h4⟩

/-- **never lost**: from the moment `doRequestEx` has been called for a request with a
callback (instance number = the issue counter at that moment, at time `t0`), at every later
moment of every continuation — whatever is issued, answered, scanned, whatever callbacks do,
return or panic — that request is either still registered, with its callback and the
deadline `t0 + 30000`, or its callback has been invoked exactly once.  (Unserialisable
message: invoked once before `doRequestEx` returns.)  There is no third state: the model
never forgets a request silently. -/
theorem request_never_lost (M n0 : Nat) (ops : List Op) (serOk : Bool) (more : List Op)
    (hg : (run (init M n0) (ops ++ .issue true serOk true :: more)).collided = false) :
    (∃ id w, (id, w) ∈ (run (init M n0) (ops ++ .issue true serOk true :: more)).pending ∧
        w.inst = (run (init M n0) ops).ninst ∧ w.hasCb = true ∧
        w.deadline = (run (init M n0) ops).now + reqTimeout) ∨
    cbCount (run (init M n0) (ops ++ .issue true serOk true :: more)).log (run (init M n0) ops).ninst = 1 := by
  rw [run_append, run_cons] at hg ⊢
  have hc1 := not_collided_of_run hg
  have hc0 : (run (init M n0) ops).collided = false := by
    cases h : (run (init M n0) ops).collided with
    | false => rfl
    | true => have := step_collided (.issue true serOk true) h; rw [this] at hc1; cases hc1
  have hwf := run_WF ops _ (init_WF M n0) hc0
  have hwf1 := step_WF hwf (.issue true serOk true) hc1
  apply run_Live more _ _ _ hwf1 hg
  cases serOk with
  | true => exact issue_Live hc1
  | false => exact Or.inr (issue_fail_count hwf hc1)

/-- **exactly once, eventually** — the full lower bound under an explicit fairness hypothesis
on the op list: a request with a callback is issued; later, at a moment the goroutine is free
and the clock is past the deadline, the expiry timer fires once (`tick`, any map order —
that it does fire is `armed_while_pending` + the fairness of the 1 s timer, C14); no callback
panics afterwards; then, as soon as the goroutine is at rest again, the callback of that
request has been invoked EXACTLY once — by the reply, the remote error, the serialisation
error or the timeout, whichever history `mid` / `more` chose. -/
theorem exactly_once_eventually (M n0 : Nat) (ops : List Op) (serOk : Bool) (mid : List Op)
    (order : List Nat) (more : List Op)
    (hfree : free (run (init M n0) (ops ++ .issue true serOk true :: mid)) = true)
    (hlate : (run (init M n0) ops).now + reqTimeout < (run (init M n0) (ops ++ .issue true serOk true :: mid)).now)
    (hnp : ∀ op, op ∈ more → op ≠ .panic)
    (hg' : (run (init M n0) ((ops ++ .issue true serOk true :: mid) ++ .tick order :: more)).collided = false)
    (hrest : free (run (init M n0) ((ops ++ .issue true serOk true :: mid) ++ .tick order :: more)) = true) :
    cbCount (run (init M n0) ((ops ++ .issue true serOk true :: mid) ++ .tick order :: more)).log
      (run (init M n0) ops).ninst = 1 := by
  have hg1 : (run (init M n0) (ops ++ .issue true serOk true :: mid)).collided = false := by
    rw [run_append] at hg'; exact not_collided_of_run hg'
  have hwf1 := run_WF _ _ (init_WF M n0) hg1
  rcases request_never_lost M n0 ops serOk mid hg1 with ⟨id, w, hm, hi, hcb, hd⟩ | h1
  · obtain ⟨hcbEv, _, _⟩ := tick_completes_due M n0 _ hg1 hfree id w hm (by omega) order more hnp hg' hrest
    obtain ⟨t, ht⟩ := hcbEv hcb
    have h1 := cb_mem_count ht
    have h2 := (run_WF _ _ (init_WF M n0) hg').b.cbOnce w.inst
    rw [← hi]; omega
  · rw [run_append] at hg' ⊢
    exact run_count_one _ _ _ hwf1 hg' h1

/-- **exactly once, eventually — callbacks may panic**: no hypothesis on what the callbacks do
(`more` may contain `panic`s, recovered by the timer manager, each aborting a scan) and none
on where the history stops.  Fairness is a count: once the deadline has passed, more expiry
scans start at moments the goroutine is free (`freeScans`) than there were entries in the
table plus requests issued since (`reqIssues`) — every such scan removes at least one entry
before any callback can run (`scan_removes_one`), so the overdue request cannot survive them.
Then its callback has been invoked EXACTLY once. -/
theorem exactly_once_despite_panics (M n0 : Nat) (ops : List Op) (serOk : Bool) (mid more : List Op)
    (hlate : (run (init M n0) ops).now + reqTimeout < (run (init M n0) (ops ++ .issue true serOk true :: mid)).now)
    (hg' : (run (init M n0) ((ops ++ .issue true serOk true :: mid) ++ more)).collided = false)
    (hscans : (run (init M n0) (ops ++ .issue true serOk true :: mid)).pending.length + reqIssues more <
        freeScans (run (init M n0) (ops ++ .issue true serOk true :: mid)) more) :
    cbCount (run (init M n0) ((ops ++ .issue true serOk true :: mid) ++ more)).log (run (init M n0) ops).ninst = 1 := by
  have hg1 : (run (init M n0) (ops ++ .issue true serOk true :: mid)).collided = false := by
    rw [run_append] at hg'; exact not_collided_of_run hg'
  have hwf1 := run_WF _ _ (init_WF M n0) hg1
  have hl : Live (run (init M n0) (ops ++ .issue true serOk true :: mid)) (run (init M n0) ops).ninst
      ((run (init M n0) ops).now + reqTimeout) := request_never_lost M n0 ops serOk mid hg1
  rw [run_append] at hg' ⊢
  rcases run_scans more _ _ _ hwf1 hg' hl hlate with h | h
  · exact h
  · omega

/-- its hypotheses are satisfiable with a panic in the history: two requests overdue, the scan
takes instance 0 first, its callback panics, the next scan completes instance 1 -/
example : (run (init 100 0) [.issue true true true]).now + reqTimeout <
      (run (init 100 0) ([.issue true true true] ++ .issue true true true :: [.advance 30001])).now ∧
    (run (init 100 0) (([.issue true true true] ++ .issue true true true :: [.advance 30001]) ++
      [.tick [1], .panic, .tick [], .ret, .tick []])).collided = false ∧
    (run (init 100 0) ([.issue true true true] ++ .issue true true true :: [.advance 30001])).pending.length +
      reqIssues [.tick [1], .panic, .tick [], .ret, .tick []] <
      freeScans (run (init 100 0) ([.issue true true true] ++ .issue true true true :: [.advance 30001]))
        [.tick [1], .panic, .tick [], .ret, .tick []] := by decide

/-- hypotheses of `exactly_once_eventually` / `response_completes` are satisfiable (a silent peer; a replying one) -/
example : free (run (init 100 0) ([] ++ .issue true true true :: [.advance 30001])) = true ∧
    (run (init 100 0) []).now + reqTimeout < (run (init 100 0) ([] ++ .issue true true true :: [.advance 30001])).now ∧
    (run (init 100 0) (([] ++ .issue true true true :: [.advance 30001]) ++ .tick [] :: [.ret])).collided = false ∧
    free (run (init 100 0) (([] ++ .issue true true true :: [.advance 30001]) ++ .tick [] :: [.ret])) = true ∧
    (run (init 100 0) (([] ++ .issue true true true :: [.advance 30001]) ++ .tick [] :: [.ret])).log.reverse =
      [.issued 0 1 0, .sent 0 1, .armed, .done 0 1, .cb 0 1 .timeout 30001] := by decide
example : free (run (init 100 0) [.issue true true true]) = true ∧
    (keys (run (init 100 0) [.issue true true true]).pending) = [1] ∧
    (step (run (init 100 0) [.issue true true true]) (.response 1 (.err 9))).log.reverse =
      [.issued 0 1 0, .sent 0 1, .armed, .done 0 1, .cb 0 1 (.remoteErr 9) 0] := by decide

/-! ### the node-level entry points (`node/app/serviceutils.go`) and the answering side -/

/-- **no route**: `app.Request` whose route finds no target (likewise `QuerySession` / `Kick`
towards an unknown front) completes its callback at once, exactly once, with `ErrorNoService`
— and nothing reaches the request core: no id is allocated, nothing is stored, sent or armed.
(With a target the call is `RequestEx`, i.e. `Op.issue`: all theorems above.) -/
theorem noroute_completes_once (M n0 : Nat) (ops : List Op) (hg : (run (init M n0) ops).collided = false) :
    Ev.cb (run (init M n0) ops).ninst 0 .noService (run (init M n0) ops).now ∈
      (step (run (init M n0) ops) (.noroute true true)).log ∧
    cbCount (step (run (init M n0) ops) (.noroute true true)).log (run (init M n0) ops).ninst = 1 ∧
    (step (run (init M n0) ops) (.noroute true true)).pending = (run (init M n0) ops).pending ∧
    (step (run (init M n0) ops) (.noroute true true)).armed = (run (init M n0) ops).armed ∧
    (step (run (init M n0) ops) (.noroute true true)).nextId = (run (init M n0) ops).nextId ∧
    (∀ i id, Ev.sent i id ∈ (step (run (init M n0) ops) (.noroute true true)).log → Ev.sent i id ∈ (run (init M n0) ops).log) := by
  have hwf := run_WF ops _ (init_WF M n0) hg
  have hwf' := step_WF hwf (.noroute true true) (by simp only [step]; rw [noroute_collided]; exact hg)
  have hin : Ev.cb (run (init M n0) ops).ninst 0 .noService (run (init M n0) ops).now ∈
      (step (run (init M n0) ops) (.noroute true true)).log := by
    simp only [step]; rw [noroute_cb]; exact List.mem_cons_self ..
  have h1 := cb_mem_count hin
  have h2 := hwf'.b.cbOnce (run (init M n0) ops).ninst
  refine ⟨hin, by omega, rfl, rfl, rfl, ?_⟩
  intro i id h
  simp only [step] at h; rw [noroute_cb] at h
  simpa using h

/-- … and that stays its only invocation for ever: at every later moment of every continuation -/
theorem noroute_once_for_ever (M n0 : Nat) (ops more : List Op)
    (hg : (run (init M n0) (ops ++ .noroute true true :: more)).collided = false) :
    cbCount (run (init M n0) (ops ++ .noroute true true :: more)).log (run (init M n0) ops).ninst = 1 := by
  rw [run_append, run_cons] at hg ⊢
  have hc1 := not_collided_of_run hg
  have hc0 : (run (init M n0) ops).collided = false := by
    simp only [step] at hc1; rw [noroute_collided] at hc1; exact hc1
  have hwf1 := step_WF (run_WF ops _ (init_WF M n0) hc0) (.noroute true true) hc1
  exact run_count_one more _ _ hwf1 hg (noroute_completes_once M n0 ops hc0).2.1

/-- a `ErrorNoService` completion is added only by such a call, for the instance the call creates, stamped now -/
theorem noservice_only_from_noroute (s : State) (op : Op) (i id t : Nat)
    (hin : Ev.cb i id .noService t ∈ (step s op).log) (hnew : Ev.cb i id .noService t ∉ s.log) :
    op = .noroute true true ∧ i = s.ninst ∧ id = 0 ∧ t = s.now := by
  rcases step_new_cb hin hnew with (⟨e, _⟩ | ⟨_, e, _⟩) | ⟨e, _⟩ | ⟨p, w, _, e, _⟩ | ⟨_, e1, e2, e3, e4⟩
  · cases e
  · cases e
  · cases e
  · cases p <;> cases e
  · exact ⟨e4, e1, e2, e3⟩

/-- an unroutable `app.Notify`, and an unroutable `app.Request` without callback, do nothing at all -/
theorem noroute_never_registers (s : State) (isReq hasCb : Bool) :
    (step s (.noroute isReq hasCb)).pending = s.pending ∧
    (step s (.noroute isReq hasCb)).armed = s.armed ∧
    (step s (.noroute isReq hasCb)).nextId = s.nextId ∧
    ((isReq && hasCb) = false → (step s (.noroute isReq hasCb)).log = s.log) := by
  simp only [step]
  refine ⟨noroute_pending s _ _, ?_, ?_, ?_⟩
  · unfold noroute; split <;> rfl
  · unfold noroute; split <;> rfl
  · intro h; rw [noroute_nocb s _ _ h]

/-- **the answering side** (`ResponseEx`): a response is produced exactly for messages that carry a
request id and a sender; every id `AllocReqId` hands out is such an id (never the notification
id 0), whatever the allocator state and the wrap bound — so a request is always answerable and a
notification never answered. -/
theorem responds_exactly_to_requests (M n : Nat) (hM : 1 ≤ M) (hasSender : Bool) :
    respondsTo (allocId M n) hasSender = hasSender ∧ respondsTo 0 hasSender = false ∧
    ∀ id, respondsTo id false = false := by
  have := (allocId_range (n := n) hM).1
  refine ⟨?_, ?_, ?_⟩
  · have hne : allocId M n ≠ 0 := by omega
    simp [respondsTo, hne]
  · simp [respondsTo]
  · intro id; simp [respondsTo]

example : (run (init 100 0) [.issue true true true, .noroute true true, .ret, .noroute false false, .noroute true false]).log.reverse =
    [.issued 0 1 0, .sent 0 1, .armed, .issued 1 0 0, .done 1 0, .cb 1 0 .noService 0] ∧
    free (run (init 100 0) [.issue true true true, .noroute true true, .ret, .noroute false false, .noroute true false]) = true := by decide

/-! ### outside the id guard: a restart of the actor (reproduced on the Go code, see `assumptions`)

The theorems above are about ONE incarnation of the service (`init`).  When the actor is
restarted by its supervisor (a user callback panicking under `handleResponse`; before the D22
repair also protoactor's `Deserialize` on an unknown type name) the producer builds a new
`Service`: empty table, allocator at 0 — a second `init` on the same wire.  The counting
argument behind the id guard is per incarnation and does not exclude what follows. -/

/-- the old incarnation has request instance 0 outstanding under id 1; the new incarnation
allocates id 1 again for its own first request, and the peer's reply to the OLD request
completes the NEW one — with no id wrap and the `collided` flag down. -/
theorem restart_id_reuse_witness :
    keys (run (init 2147483632 0) [.issue true true true]).pending = [1] ∧
    (run (init 2147483632 0) [.issue true true true, .response 1 (.ok (some 5))]).log.head? =
      some (.cb 0 1 (.reply (some 5)) 0) ∧
    (run (init 2147483632 0) [.issue true true true, .response 1 (.ok (some 5))]).collided = false := by decide

/-! ### the restart itself, as a model (`Model/ServiceLife.lean`): the live incarnation and the orphaned ones

`Life` = the `Service` object that receives the actor's messages now + the objects earlier restarts left
behind (their 1 s expiry timers still run on the shared run service).  `LOp.crash` is a panic on the service
goroutine: recovered by the timer manager inside an expiry scan, a supervisor restart anywhere else.
Tied to the Go code on every run by the harness op `restart` (a real panicking callback under
`handleResponse`, the real supervisor, the real producer). -/

/-- **every incarnation is one `Service` object's history**: whatever the live and the orphaned objects do,
however often the actor crashes, each incarnation — live or orphaned — is in a state that a history of the
one-object model reaches from `init M 0`.  Hence every theorem above about `run (init M 0) ops` holds for
each incarnation separately (next theorem: at most once). -/
theorem every_incarnation_is_a_run (M : Nat) (lops : List LOp) :
    (∃ M' ops, (lrun (Life.start M) lops).cur = run (init M' 0) ops) ∧
    ∀ s, s ∈ (lrun (Life.start M) lops).old → ∃ M' ops, s = run (init M' 0) ops :=
  let h := lrun_LReach lops _ (start_LReach M)
  ⟨h.cur, h.old⟩

/-- **at most once across restarts**: in every incarnation of the actor, at every moment, no instance's
callback has been invoked twice (per incarnation id guard, as before). -/
theorem cb_at_most_once_across_restarts (M : Nat) (lops : List LOp) (s : State)
    (hs : s = (lrun (Life.start M) lops).cur ∨ s ∈ (lrun (Life.start M) lops).old)
    (hg : s.collided = false) (i : Nat) : cbCount s.log i ≤ 1 := by
  have h := lrun_LReach lops _ (start_LReach M)
  have hr : OneLife s := by
    rcases hs with rfl | hs
    · exact h.cur
    · exact h.old s hs
  obtain ⟨M', ops, rfl⟩ := hr
  exact cb_at_most_once M' 0 ops hg i

/-- **what a restart does** (a panic outside an expiry scan): the live object is a new one — empty table,
allocator at 0, no timer, the shared clock — and the old object joins the orphans exactly as it was (table,
armed timer, log, allocator), with nothing running on it any more: it is at rest, so `tick_completes_due` /
`exactly_once_despite_panics` apply to it and its pending requests are still timed out by its own scans. -/
theorem restart_orphans_the_table (l : Life) (hb : ∀ i rest, l.cur.base ≠ .inTick i rest) :
    (lstep l .crash).cur = fresh l.cur.M l.cur.now ∧
    (lstep l .crash).cur.pending = [] ∧ (lstep l .crash).cur.nextId = 0 ∧ (lstep l .crash).cur.armed = false ∧
    (lstep l .crash).cur.now = l.cur.now ∧
    (lstep l .crash).old = unwound l.cur :: l.old ∧
    free (unwound l.cur) = true ∧ (unwound l.cur).pending = l.cur.pending ∧
    (unwound l.cur).armed = l.cur.armed ∧ (unwound l.cur).log = l.cur.log := by
  have h := crash_restart hb
  rw [h]
  exact ⟨rfl, rfl, rfl, rfl, by simp [fresh, step, init], rfl, rfl, rfl, rfl, rfl⟩

/-- … whereas inside an expiry scan the panic is recovered (`timer.Mgr.do`): same object, no orphan -/
theorem scan_panic_does_not_restart (l : Life) (i : Nat) (rest : List Nat) (hb : l.cur.base = .inTick i rest) :
    lstep l .crash = { l with cur := step l.cur .panic } := by
  simp [lstep, crash, hb, step]

/-- **messages reach the live object only**: a `ServiceResponse` is handled by the live incarnation and
leaves every orphan untouched, whichever request it answers … -/
theorem response_reaches_live_only (l : Life) (id : Nat) (p : Payload) (k : Nat) :
    (lstep l (.live (.response id p))).old = l.old ∧
    (lstep l (.live (.response id p))).cur = step l.cur (.response id p) ∧
    lstep l (.orphan k (.response id p)) = l := ⟨rfl, rfl, rfl⟩

/-- … so an orphaned request is never completed by its reply: whatever an orphan still does (its timer,
its callbacks), a completion it adds is the timeout (or the synchronous error of a call its own callbacks
make) — never a reply, a remote error or a decode error. -/
theorem orphan_completes_only_by_timeout (s : State) (op : Op) (hop : orphanOp op = true)
    (i id : Nat) (o : Outcome) (t : Nat)
    (hin : Ev.cb i id o t ∈ (step s op).log) (hnew : Ev.cb i id o t ∉ s.log) :
    o = .timeout ∨ o = .serErr ∨ o = .noService := by
  rcases step_new_cb hin hnew with (⟨e, _⟩ | ⟨_, e, _⟩) | ⟨e, _⟩ | ⟨p, w, e, _⟩ | ⟨e, _⟩
  · exact Or.inl e
  · exact Or.inl e
  · exact Or.inr (Or.inl e)
  · subst e; simp [orphanOp] at hop
  · exact Or.inr (Or.inr e)

/-- **never lost across restarts** (the lower bound for the orphans — what the spec monitor demands of the
`restart` op): let the actor, after any life `lops` (crashes included), hold a request with a callback —
instance `i` of the live object, deadline `d`: still registered, or already called back once — and crash outside an
expiry scan.  Then at every later moment of every continuation `more` (whatever the new objects and the orphans do,
however often the actor crashes again) that very object — the orphan with exactly the orphans of `lops` behind it —
is still a one-object history, and unless its OWN id guard failed the request is still registered in its table, with its
callback and deadline, or its callback has been invoked exactly once.  A restart never forgets a request silently:
the orphan's timer (`exactly_once_despite_panics`, per incarnation) is what completes it. -/
theorem orphan_request_never_lost (M : Nat) (lops : List LOp) (i d : Nat)
    (hb : ∀ j rest, (lrun (Life.start M) lops).cur.base ≠ .inTick j rest)
    (hl : (∃ id w, (id, w) ∈ (lrun (Life.start M) lops).cur.pending ∧ w.inst = i ∧ w.hasCb = true ∧ w.deadline = d) ∨
      cbCount (lrun (Life.start M) lops).cur.log i = 1)
    (more : List LOp) :
    ∃ pre s post, (lrun (Life.start M) (lops ++ .crash :: more)).old = pre ++ s :: post ∧
      post.length = (lrun (Life.start M) lops).old.length ∧
      (∃ M' ops, s = run (init M' 0) ops) ∧
      (s.collided = false →
        (∃ id w, (id, w) ∈ s.pending ∧ w.inst = i ∧ w.hasCb = true ∧ w.deadline = d) ∨ cbCount s.log i = 1) := by
  have hr := lrun_LReach lops _ (start_LReach M)
  have e : lrun (Life.start M) (lops ++ .crash :: more) = lrun (lstep (lrun (Life.start M) lops) .crash) more := by
    simp [lrun, List.foldl_append]
  rw [e, crash_restart hb]
  exact lrun_Tracked more _ ⟨[], unwound _, _, rfl, rfl, unwound_Reach hr.cur hb, fun _ => hl⟩

/-- its hypotheses are satisfiable and the conclusion is the expected fact: request 0 (id 1, deadline 30000) is pending when
the callback of request 1 crashes the actor; 31 s later the orphan's scan has called it back once and its table is empty -/
example :
    (lrun (Life.start 100) [.live (.issue true true true), .live (.issue true true true), .live (.response 2 (.ok (some 1)))]).cur.base = .inResp 1 ∧
    (lrun (Life.start 100) [.live (.issue true true true), .live (.issue true true true), .live (.response 2 (.ok (some 1)))]).cur.pending.map
      (fun e => (e.1, e.2.inst, e.2.hasCb, e.2.deadline)) = [(1, 0, true, 30000)] ∧
    ((lrun (Life.start 100) ([.live (.issue true true true), .live (.issue true true true), .live (.response 2 (.ok (some 1)))] ++
        .crash :: [.live (.advance 31000), .orphan 0 (.tick []), .orphan 0 .ret])).old.map
      (fun s => (cbCount s.log 0, s.pending.length))) = [(1, 0)] := by decide

/-! ### a stopped actor

`ActorSystem.Root.Stop(pid)` (or `Poison`) delivers `*actor.Stopping` / `*actor.Stopped` to `Service.Receive`, which has
no case for them — its `case *actor.Stop` never matches, `Stop` being a system message the actor context consumes — so
`onStop` is unreachable and the run service is NOT stopped: the `Service` object lives on like an orphan whose mailbox
is gone.  Every `ServiceResponse` is a dead letter from then on; the expiry timer, the callbacks and whatever they
issue go on.  In the model that is a history without `response` ops (harness op `stop`, generated). -/

/-- **a stopped actor completes only by the timeout**: in a continuation without `response` ops every completion
that is new is the timeout — or the synchronous serialisation / no-route error of a call made after the stop (a
fresh instance number).  No reply, remote error or decode error can complete anything any more. -/
theorem stopped_completes_only_by_timeout (s : State) (more : List Op)
    (hno : ∀ id p, Op.response id p ∉ more) (i id : Nat) (o : Outcome) (t : Nat)
    (hin : Ev.cb i id o t ∈ (run s more).log) (hnew : Ev.cb i id o t ∉ s.log) :
    o = .timeout ∨ ((o = .serErr ∨ o = .noService) ∧ s.ninst ≤ i) :=
  run_new_cb_no_response more s hno i id o t hin hnew

/-- **… and it still completes what was pending, exactly once, with the timeout**: a request registered with a
callback when the actor is stopped (after any history `ops`); no response is processed afterwards (`mid`, `more`);
once its deadline has passed (`mid`), more expiry scans start at free moments than there are table entries plus
requests issued since (the fairness count of `exactly_once_despite_panics`; callbacks may panic).  Then its callback
has been invoked exactly once, and every completion of that instance in the log is the timeout. -/
theorem stopped_request_times_out (M n0 : Nat) (ops mid more : List Op) (id : Nat) (w : Wait)
    (hm : (id, w) ∈ (run (init M n0) ops).pending) (hcb : w.hasCb = true)
    (hno : ∀ id p, Op.response id p ∉ mid ++ more)
    (hlate : w.deadline < (run (init M n0) (ops ++ mid)).now)
    (hg' : (run (init M n0) ((ops ++ mid) ++ more)).collided = false)
    (hscans : (run (init M n0) (ops ++ mid)).pending.length + reqIssues more <
        freeScans (run (init M n0) (ops ++ mid)) more) :
    cbCount (run (init M n0) ((ops ++ mid) ++ more)).log w.inst = 1 ∧
    ∀ id' o t, Ev.cb w.inst id' o t ∈ (run (init M n0) ((ops ++ mid) ++ more)).log → o = .timeout := by
  have hg1 : (run (init M n0) (ops ++ mid)).collided = false := by
    rw [run_append] at hg'; exact not_collided_of_run hg'
  have hg0 : (run (init M n0) ops).collided = false := by
    rw [run_append] at hg1; exact not_collided_of_run hg1
  have hwf0 := run_WF ops _ (init_WF M n0) hg0
  have hwf1 := run_WF _ _ (init_WF M n0) hg1
  have hl0 : Live (run (init M n0) ops) w.inst w.deadline := Or.inl ⟨id, w, hm, rfl, hcb, rfl⟩
  have hl1 : Live (run (init M n0) (ops ++ mid)) w.inst w.deadline := by
    rw [run_append] at hg1 ⊢
    exact run_Live mid _ _ _ hwf0 hg1 hl0
  refine ⟨?_, ?_⟩
  · rw [run_append] at hg' ⊢
    rcases run_scans more _ _ _ hwf1 hg' hl1 hlate with h | h
    · exact h
    · omega
  · intro id' o t hin
    have h0 : cbCount (run (init M n0) ops).log w.inst = 0 := hwf0.b.cbPend id w hm
    have hnew : Ev.cb w.inst id' o t ∉ (run (init M n0) ops).log := by
      intro h; have := cb_mem_count h; omega
    have hlt := hwf0.b.instLt id w hm
    rw [List.append_assoc, run_append] at hin
    rcases run_new_cb_no_response (mid ++ more) _ hno _ _ _ _ hin hnew with h | ⟨_, h⟩
    · exact h
    · omega

/-- their hypotheses are satisfiable and the conclusion is the expected fact: request 0 pending at the stop, the reply never
processed, two scans after the deadline (the first one completes it, its callback retries), one completion: the timeout -/
example :
    ((run (init 100 0) [.issue true true true]).pending.map (fun e => (e.1, e.2.inst, e.2.hasCb, e.2.deadline))) = [(1, 0, true, 30000)] ∧
    30000 < (run (init 100 0) ([.issue true true true] ++ [.advance 31000])).now ∧
    (run (init 100 0) (([.issue true true true] ++ [.advance 31000]) ++ [.tick [], .issue true true true, .ret, .tick [], .tick []])).collided = false ∧
    (run (init 100 0) ([.issue true true true] ++ [.advance 31000])).pending.length + reqIssues [.tick [], .issue true true true, .ret, .tick [], .tick []] <
      freeScans (run (init 100 0) ([.issue true true true] ++ [.advance 31000])) [.tick [], .issue true true true, .ret, .tick [], .tick []] ∧
    (run (init 100 0) (([.issue true true true] ++ [.advance 31000]) ++ [.tick [], .issue true true true, .ret, .tick [], .tick []])).log.filter
      (fun e => match e with | .cb .. => true | _ => false) = [.cb 0 1 .timeout 31000] := by decide

/-- **a reply crosses the restart** (the hazard, for EVERY history — the `decide`d witness below is one
instance): let the old object, after any history `ops`, have a request registered under id 1 and crash
outside a scan.  The first request the new object issues gets id 1 again (whatever `M`), and the reply
addressed to the OLD request — any payload — completes the NEW object's instance 0 with its decoded content,
while the old request stays registered in the orphan, uncompleted by it (left to the orphan's timer).
"The response that answers that very request" fails without any id wrap: the id guard is per object. -/
theorem reply_crosses_restart (M : Nat) (ops : List Op) (olds : List State) (w : Wait) (p : Payload)
    (hb : ∀ i rest, (run (init M 0) ops).base ≠ .inTick i rest)
    (hm : (1, w) ∈ (run (init M 0) ops).pending) :
    let l := lrun ⟨run (init M 0) ops, olds⟩ [.crash, .live (.issue true true true), .live (.response 1 p)]
    l.cur.log.head? = some (.cb 0 1 (decode p) (run (init M 0) ops).now) ∧
    cbCount l.cur.log 0 = 1 ∧
    l.old.head? = some (unwound (run (init M 0) ops)) ∧
    (1, w) ∈ (unwound (run (init M 0) ops)).pending ∧
    (unwound (run (init M 0) ops)).log = (run (init M 0) ops).log := by
  intro l
  have e : lstep ⟨run (init M 0) ops, olds⟩ .crash =
      ⟨fresh (run (init M 0) ops).M (run (init M 0) ops).now, unwound (run (init M 0) ops) :: olds⟩ :=
    crash_restart (l := ⟨run (init M 0) ops, olds⟩) hb
  have hc : l = ⟨step (step (fresh (run (init M 0) ops).M (run (init M 0) ops).now) (.issue true true true)) (.response 1 p),
      unwound (run (init M 0) ops) :: olds⟩ := by
    simp only [l, lrun, List.foldl]
    rw [e]; rfl
  have hid : ∀ m : Nat, allocId m 0 = 1 := by intro m; unfold allocId; split <;> rfl
  rw [hc]
  refine ⟨?_, ?_, rfl, hm, rfl⟩
  · simp [fresh, step, init, issue, hid, response, free, find, finish, del, hasKey]
  · simp [fresh, step, init, issue, hid, response, free, find, finish, del, hasKey, cbCount, isCbOf]

/-- the Go witness (`TestRestartWitness`, and the harness op `restart a=1 b=1`) as a history of the model:
request 0 held by the peer, request 1 answered and its callback panics -> restart; the new object's first
request (its instance 0, id 1) is completed by the reply to the OLD request 0 (id 1); the old request 0 is
timed out by the orphan's scan at +31 s; both tables end empty. -/
example :
    let l := lrun (Life.start 2147483632)
      [.live (.issue true true true), .live (.issue true true true), .live (.response 2 (.ok (some 1))), .crash,
       .live (.issue true true true), .live (.response 1 (.ok (some 5))), .live .ret,
       .live (.advance 31000), .orphan 0 (.tick []), .orphan 0 .ret]
    l.cur.log.reverse = [.issued 0 1 0, .sent 0 1, .armed, .done 0 1, .cb 0 1 (.reply (some 5)) 0] ∧
    (l.old.map (fun s => s.log.reverse)) =
      [[.issued 0 1 0, .sent 0 1, .armed, .issued 1 2 0, .sent 1 2, .done 1 2, .cb 1 2 (.reply (some 1)) 0,
        .done 0 1, .cb 0 1 .timeout 31000]] ∧
    l.cur.pending = [] ∧ (l.old.map (·.pending)) = [[]] := by decide

/-- hypotheses of `reply_crosses_restart` are satisfiable (the crash happens inside a reply callback) -/
example : (∀ i rest, (run (init 100 0) [.issue true true true, .issue true true true, .response 2 .bad]).base ≠ .inTick i rest) ∧
    (run (init 100 0) [.issue true true true, .issue true true true, .response 2 .bad]).base = .inResp 1 ∧
    keys (run (init 100 0) [.issue true true true, .issue true true true, .response 2 .bad]).pending = [1] := by
  refine ⟨?_, by decide, by decide⟩
  intro i rest h
  have : (run (init 100 0) [.issue true true true, .issue true true true, .response 2 .bad]).base = .inResp 1 := by decide
  rw [this] at h; cases h

/-! ### non-vacuity: a concrete history with three outstanding requests, a reply,
a duplicate of it, an error reply, an expiry, a late reply; the hypotheses of the
theorems hold on it and the conclusions are the expected concrete facts -/

def demo : List Op :=
  [.issue true true true, .issue true true true, .issue true true true, .issue false true false,
   .response 2 (.ok (some 7)), .ret, .response 2 (.ok (some 8)),
   .response 3 (.err 5), .issue true true true, .ret,
   .advance 31000, .tick [1, 4], .panic, .advance 1000, .tick [], .ret, .response 1 .bad, .tick []]

example : (run (init 100 0) demo).collided = false := by decide
example : Guarded (init 100 0) demo := by decide
example : (run (init 100 0) demo).log.reverse =
    [.issued 0 1 0, .sent 0 1, .armed, .issued 1 2 0, .sent 1 2, .issued 2 3 0, .sent 2 3, .sent 3 0,
     .done 1 2, .cb 1 2 (.reply (some 7)) 0, .dropped 2,
     .done 2 3, .cb 2 3 (.remoteErr 5) 0, .issued 4 4 0, .sent 4 4,
     .done 0 1, .cb 0 1 .timeout 31000, .done 4 4, .cb 4 4 .timeout 32000, .dropped 1, .freed] := by decide
example : free (run (init 100 0) demo) = true ∧ (run (init 100 0) demo).pending = [] := by decide
/-- hypotheses of `tick_completes_due` / `scan_removes_one` are satisfiable: after the first 11 ops two entries are due -/
example : free (run (init 100 0) (demo.take 11)) = true ∧ (run (init 100 0) (demo.take 11)).armed = true ∧
    (keys (run (init 100 0) (demo.take 11)).pending) = [4, 1] ∧
    ∀ e ∈ (run (init 100 0) (demo.take 11)).pending, e.2.deadline < (run (init 100 0) (demo.take 11)).now := by decide
/-- after the panic of instance 0's callback the other due entry is still there, the scan is over, the timer armed -/
example : (keys (run (init 100 0) (demo.take 13)).pending) = [4] ∧ free (run (init 100 0) (demo.take 13)) = true ∧
    (run (init 100 0) (demo.take 13)).armed = true := by decide
/-- the wrap: with `M = 3` the fourth allocation re-uses id 1; harmless when 1 is free … -/
example : (run (init 3 0) [.issue true true false, .response 1 (.ok none), .issue true true true,
    .issue true true true, .issue true true true]).collided = false := by decide
/-- … and flagged when it is still pending (the case the guard excludes) -/
example : (run (init 3 0) [.issue true true true, .issue true true true, .issue true true true,
    .issue true true true]).collided = true := by decide

/-! ### D10 (repaired): the previous `doRequestEx` on a non-serialisable request -/

/-- the entry stayed in the table, the timer was not armed (so nothing would ever
expire it) and the callback was not called: `armed_while_pending`, `no_residue`
and exactly-once all failed on the one-op history `[issue request, ser = fail]` -/
theorem d10_witness :
    (issueD10 (init 2147483632 0) true false true).pending ≠ [] ∧
    (issueD10 (init 2147483632 0) true false true).armed = false ∧
    cbCount (issueD10 (init 2147483632 0) true false true).log 0 = 0 := by decide

/-- the repaired code on the same input -/
theorem d10_fixed :
    (issue (init 2147483632 0) true false true).pending = [] ∧
    cbCount (issue (init 2147483632 0) true false true).log 0 = 1 := by decide

/-! ### D22 (repaired): the previous `handleResponse` let `remote.Deserialize` panic -/

/-- a reply with an unregistered type name for the outstanding request: the callback was not
invoked and the entry stayed registered in an incarnation that was then replaced (actor
restart) — never completed by its reply; `response_completes` failed on
`[issue request, response 1 badType]` -/
theorem d22_witness :
    cbCount (responseD22 (issue (init 2147483632 0) true true true) 1 .badType).log 0 = 0 ∧
    keys (responseD22 (issue (init 2147483632 0) true true true) 1 .badType).pending = [1] := by decide

/-- the repaired code on the same input: one completion, with the decode error, nothing left -/
theorem d22_fixed :
    (response (issue (init 2147483632 0) true true true) 1 .badType).log.head? = some (.cb 0 1 .decodeErr 0) ∧
    cbCount (response (issue (init 2147483632 0) true true true) 1 .badType).log 0 = 1 ∧
    (response (issue (init 2147483632 0) true true true) 1 .badType).pending = [] := by decide

/-! ### D18 (repaired): the previous `checkExpired` deleted the entry only after the
callback had returned -/

/-- a timeout callback that panics was invoked again by the next scan (and every
second from then on), the entry still in the table: at-most-once failed on
`[issue, advance 31000, tick, panic, advance 1000, tick]` -/
theorem d18_witness :
    let s1 := step (step (init 2147483632 0) (.issue true true true)) (.advance 31000)
    let s2 := panicScan (tickD18 s1 [])
    let s3 := tickD18 (step s2 (.advance 1000)) []
    cbCount s3.log 0 = 2 ∧ s3.pending ≠ [] := by decide

/-- the repaired code on the same history: one invocation, nothing left, timer freed by the next scan -/
theorem d18_fixed :
    (run (init 2147483632 0) [.issue true true true, .advance 31000, .tick [], .panic, .advance 1000, .tick []]).pending = [] ∧
    cbCount (run (init 2147483632 0) [.issue true true true, .advance 31000, .tick [], .panic, .advance 1000, .tick []]).log 0 = 1 ∧
    (run (init 2147483632 0) [.issue true true true, .advance 31000, .tick [], .panic, .advance 1000, .tick []]).armed = false := by decide

end Cell2v.Props.C01
