import Cell2v.Lemmas.Center
/-!
C18 — property theorems (MMO centre: no double character load; account transactions never
overlap).  Only property statements, non-vacuity examples and a mutant witness live here.

`run ops` executes an arbitrary history of entry-point calls, ticks and clock advances on the
model of `PlayerMgr` (every choice the Go runtime makes is a parameter of the operation, so
"all histories" includes all of them); `Spec.check` is the property monitor of `Spec/C18.lean`
run over the *observable* trace (operations, return values, acknowledgements).
-/
namespace Cell2v.Props.C18
open Cell2v.Center Cell2v.Center.Spec

/-- the monitor state after a history -/
def ledgerAfter (ops : List Op) : Mon := (monRun {} (run ops).2).1

/-- **Master theorem** — for every history the monitor raises nothing on the model's trace, and
the centre's records stay in step with the monitor's ledgers (refinement). -/
theorem history_accepted (ops : List Op) :
    check (run ops).2 = [] ∧ GRel (run ops).1 (ledgerAfter ops) := by
  have := runFrom_sim ops {} {} init_grel
  exact ⟨this.2, this.1⟩

/-! ### what each verdict of the monitor means (so that the corollaries below can be read) -/

/-- `doubleLoad` is reported exactly for a fresh authorisation given while the account's load is live -/
theorem doubleLoad_meaning (now : Nat) (l : Ledger) (id n : Nat) (c : Code) :
    Viol.doubleLoad ∈ (ackStep now l id n c).2 ↔ c = .ok ∧ l.entry.live = true := by
  cases c <;> simp [ackStep] <;> (try split) <;> simp_all

/-- `reconnectWrongState` is reported exactly for a reconnect authorisation given to an account that is
not logged-in or whose connection was not reported closed -/
theorem reconnectWrongState_meaning (now : Nat) (l : Ledger) (id n : Nat) (c : Code) :
    Viol.reconnectWrongState ∈ (ackStep now l id n c).2 ↔
      (∃ lg, c = .re lg) ∧ ¬ (l.entry = .open .inGame ∧ l.closedRep = true) := by
  cases c <;> simp [ackStep] <;> (try split) <;> simp_all

/-- `answeredTwice` is reported exactly when the acknowledged request was acknowledged before -/
theorem answeredTwice_meaning (now : Nat) (l : Ledger) (id n : Nat) (c : Code) :
    Viol.answeredTwice ∈ (ackStep now l id n c).2 ↔ id ∈ l.answered := by
  cases c <;> simp [ackStep] <;> (try split) <;> simp_all

/-- `txOverlap` on an acknowledgement: an authorisation (fresh or reconnect) while a transaction holds the account -/
theorem txOverlap_meaning_ack (now : Nat) (l : Ledger) (id n : Nat) (c : Code) :
    Viol.txOverlap ∈ (ackStep now l id n c).2 ↔ (c = .ok ∨ ∃ lg, c = .re lg) ∧ held l now = true := by
  have e : ∀ xs, held { l with answered := xs } now = held l now := fun _ => rfl
  cases c <;> simp only [ackStep, e] <;> by_cases hh : held l now = true <;> simp [hh] <;> (repeat' split) <;> simp

/-- `txOverlap` on a request: a logout / line-switch request accepted while a transaction holds the account -/
theorem txOverlap_meaning_req (now u : Nat) (l : Ledger) (ret : Option Bool) (h : l.entry ≠ .none) :
    (Viol.txOverlap ∈ (opStep now l (.logoutReq u) ret).2 ↔ ret = some true ∧ held l now = true) ∧
    (Viol.txOverlap ∈ (opStep now l (.swBegin u) ret).2 ↔ ret = some true ∧ held l now = true) := by
  constructor <;> simp only [opStep, h, ↓reduceIte] <;> split <;> simp_all <;> split <;> simp_all

/-! ### the clauses of the property -/

/-- **No double load**: in no history is a fresh character load authorised while an earlier
authorised load of the account is still live (not reported logged out / abnormally logged out / expired). -/
theorem fresh_load_exclusive (ops : List Op) : Viol.doubleLoad ∉ check (run ops).2 := by
  rw [(history_accepted ops).1]; simp

/-- the invariant behind it: a live load always has its record at the centre … -/
theorem live_load_has_record (ops : List Op) (u : Nat)
    (h : ((ledgerAfter ops).led u).entry.live = true) : ((run ops).1.accts u).player ≠ none := by
  have hr := ((history_accepted ops).2.2 u).p
  intro hn
  unfold RelP at hr; rw [hn] at hr
  rw [hr.1] at h; simp [Entry.live] at h

/-- … and `ReqLogin` answers with a fresh authorisation only when there is no record -/
theorem fresh_ack_only_without_record (now : Nat) (a : Acct) (id f n : Nat) (k : Bool) (id' n' : Nat)
    (h : Ev.ack id' n' .ok ∈ (reqLogin now a id f n k).2) : a.player = none := by
  unfold reqLogin at h
  split at h
  · rename_i p hp
    simp only [doReconnect, addTask] at h
    repeat' split at h
    all_goals simp at h
  · assumption

/-- **Reconnect**: a reconnect is authorised only for a logged-in character whose previous
connection was reported closed. -/
theorem reconnect_only_logined_and_closed (ops : List Op) : Viol.reconnectWrongState ∉ check (run ops).2 := by
  rw [(history_accepted ops).1]; simp

/-- **No overlap**: no login / reconnect / logout / line-switch transaction is ever accepted while
another one holds the account within its time limit. -/
theorem transactions_never_overlap (ops : List Op) : Viol.txOverlap ∉ check (run ops).2 := by
  rw [(history_accepted ops).1]; simp

/-- **Refused while held**, stated on the centre itself: after any history, if a transaction holds
account `u` (open and within its time limit), then a logout request and a line-switch request are
refused and a login request is answered, if at all, only with AlreadyOnline / SystemBusy. -/
theorem refused_while_held (ops : List Op) (u : Nat)
    (h : held ((ledgerAfter ops).led u) (ledgerAfter ops).now = true) :
    (step (run ops).1 (.logoutReq u)).2.ret = some false ∧
    (step (run ops).1 (.swBegin u)).2.ret = some false ∧
    ∀ f n k id' n' c, Ev.ack id' n' c ∈ (step (run ops).1 (.login u f n k)).2.evs → c = .already ∨ c = .busy := by
  obtain ⟨_, hnow, hrel⟩ := history_accepted ops
  have hp := (hrel u).p
  generalize (run ops).1 = s at *
  generalize ledgerAfter ops = m at *
  rw [← hnow] at h
  unfold RelP at hp
  cases hpl : (s.accts u).player with
  | none => rw [hpl] at hp; simp [held, hp.2, heldTx] at h
  | some p =>
    rw [hpl] at hp
    obtain ⟨he, hc, ht⟩ := hp
    have hl : ∀ r d, p.lock.tryLock s.now r d = none := by
      intro r d; rw [tryLock_none, ← ht]; exact h
    refine ⟨?_, ?_, ?_⟩
    · simp [step, logoutReqOp, hpl, hl]
    · simp only [step, swBeginOp, hpl, hl]; split <;> rfl
    · intro f n k id' n' c hm
      simp only [step, loginOp, reqLogin, hpl, doReconnect, hl, addTask] at hm
      repeat' split at hm
      all_goals simp at hm
      all_goals (first | (obtain ⟨_, _, rfl⟩ := hm; simp) | (rcases hm with hm | hm <;> (try cases hm) <;> simp_all))

/-- **Answered at most once**: in every history the login requests of an account are each
acknowledged at most once — parked, replaced, re-run, cancelled and expired requests included. -/
theorem login_answered_at_most_once (ops : List Op) (u : Nat) : (ackIds u (run ops).2).Nodup := by
  have h := ((history_accepted ops).2.2 u).i.ans_nodup
  have := monRun_answered u (run ops).2 {}
  simp only [ledgerAfter] at h
  rw [this] at h
  simp only [List.append_nil] at h
  exact nodup_of_reverse h

theorem login_never_answered_twice (ops : List Op) : Viol.answeredTwice ∉ check (run ops).2 := by
  rw [(history_accepted ops).1]; simp

/-- **Time limits release**: after any history, if the account has a record and no transaction holds
it any more (none open, or the open one is past its time limit), a logout request is accepted. -/
theorem timeouts_release (ops : List Op) (u : Nat)
    (hrec : ((ledgerAfter ops).led u).entry ≠ .none)
    (h : held ((ledgerAfter ops).led u) (ledgerAfter ops).now = false) :
    (step (run ops).1 (.logoutReq u)).2.ret = some true := by
  obtain ⟨_, hnow, hrel⟩ := history_accepted ops
  have hp := (hrel u).p
  generalize (run ops).1 = s at *
  generalize ledgerAfter ops = m at *
  rw [← hnow] at h
  unfold RelP at hp
  cases hpl : (s.accts u).player with
  | none => rw [hpl] at hp; exact absurd hp.1 hrec
  | some p =>
    rw [hpl] at hp
    obtain ⟨he, hc, ht⟩ := hp
    have hl : p.lock.tryLock s.now .logout LockTimeout = some ⟨true, .logout, s.now + LockTimeout⟩ := by
      rw [tryLock_some, ← ht]; exact ⟨h, rfl⟩
    simp [step, logoutReqOp, hpl, hl]

/-- … and the monitor never sees a logout request refused without a holder -/
theorem never_refused_without_holder (ops : List Op) : Viol.refusedNoHolder ∉ check (run ops).2 := by
  rw [(history_accepted ops).1]; simp

/-- **Expiry frees the account**: a load authorised at `t0` and never reported logged-in is dropped by
the first tick at or after `t0 + 2 min`, and the next login request gets a fresh authorisation. -/
theorem expired_login_is_released (ops : List Op) (u t0 f n : Nat) (k : Bool)
    (h : ((ledgerAfter ops).led u).entry = .open (.auth t0))
    (hexp : (ledgerAfter ops).now ≥ t0 + LoginTimeout) :
    ∃ id, (step (step (run ops).1 .tick).1 (.login u f n k)).2.evs = [.ack id n .ok] := by
  obtain ⟨_, hnow, hrel⟩ := history_accepted ops
  have hp := (hrel u).p
  generalize (run ops).1 = s at *
  generalize ledgerAfter ops = m at *
  rw [← hnow] at hexp
  unfold RelP at hp
  cases hpl : (s.accts u).player with
  | none => rw [hpl] at hp; rw [hp.1] at h; cases h
  | some p =>
    rw [hpl] at hp
    obtain ⟨he, hc, ht⟩ := hp
    obtain ⟨fr, nt, lg, st, stt, lk⟩ := p
    rw [h] at he
    cases st <;> simp [entryOK] at he
    obtain ⟨he1, he2⟩ := he
    have e1 : stt ≤ s.now := by unfold LoginTimeout at *; omega
    have e2 : 0 < stt := by unfold LoginTimeout at *; omega
    refine ⟨(s.accts u).nextId + 1, ?_⟩
    simp [step, tickAcct, hpl, e1, e2, loginOp, reqLogin, setAcct]

/-- … and likewise a logout accepted at `t1` that never completed is dropped by the first tick at or
after `t1 + 30 min`. -/
theorem expired_logout_is_released (ops : List Op) (u t1 f n : Nat) (k : Bool)
    (h : ((ledgerAfter ops).led u).entry = .open (.out t1))
    (hexp : (ledgerAfter ops).now ≥ t1 + LogoutTimeout) :
    ∃ id, (step (step (run ops).1 .tick).1 (.login u f n k)).2.evs = [.ack id n .ok] := by
  obtain ⟨_, hnow, hrel⟩ := history_accepted ops
  have hp := (hrel u).p
  generalize (run ops).1 = s at *
  generalize ledgerAfter ops = m at *
  rw [← hnow] at hexp
  unfold RelP at hp
  cases hpl : (s.accts u).player with
  | none => rw [hpl] at hp; rw [hp.1] at h; cases h
  | some p =>
    rw [hpl] at hp
    obtain ⟨he, hc, ht⟩ := hp
    obtain ⟨fr, nt, lg, st, stt, lk⟩ := p
    rw [h] at he
    cases st <;> simp [entryOK] at he
    obtain ⟨he1, he2⟩ := he
    have e1 : stt ≤ s.now := by unfold LogoutTimeout at *; omega
    have e2 : 0 < stt := by unfold LogoutTimeout at *; omega
    refine ⟨(s.accts u).nextId + 1, ?_⟩
    simp [step, tickAcct, hpl, e1, e2, loginOp, reqLogin, setAcct]

/-! ### non-vacuity: the hypotheses above are met by concrete histories -/

/-- a held transaction exists (login transaction right after a fresh authorisation) -/
example : held ((ledgerAfter [.login 1 1 1 true]).led 1) (ledgerAfter [.login 1 1 1 true]).now = true := by decide

/-- a record without a holder exists (after the logic server reported the login complete) -/
example : ((ledgerAfter [.login 1 1 1 true, .logined 1 true none]).led 1).entry ≠ .none ∧
    held ((ledgerAfter [.login 1 1 1 true, .logined 1 true none]).led 1) 0 = false := by decide

/-- an expired, never logged-in load exists -/
example : ((ledgerAfter [.login 1 1 1 true, .adv 120000]).led 1).entry = .open (.auth 0) ∧
    (ledgerAfter [.login 1 1 1 true, .adv 120000]).now ≥ 0 + LoginTimeout := by decide

/-- an expired, never completed logout exists -/
example : ((ledgerAfter [.login 1 1 1 true, .logined 1 true none, .logoutReq 1, .adv 1800000]).led 1).entry = .open (.out 0) ∧
    (ledgerAfter [.login 1 1 1 true, .logined 1 true none, .logoutReq 1, .adv 1800000]).now ≥ 0 + LogoutTimeout := by decide

/-- a live load exists (so `live_load_has_record` is not vacuous) -/
example : ((ledgerAfter [.login 1 1 1 true]).led 1).entry.live = true := by decide

/-- the full happy path with a kick-wait login: fresh login, logged-in, second connection parks, the
first is reported closed, the logic server answers the offline request, the parked login reconnects —
three acknowledgements for three distinct requests -/
example : ackIds 1 (run [.login 1 1 1 true, .logined 1 true none, .login 1 2 2 true, .login 1 1 3 true,
    .closed 1 none, .offReply 1 none]).2 = [1, 2, 3] := by decide

/-! ### a mutant: `ReqLogin` that reconnects without looking at the player's state -/

/-- the record of an account whose login was authorised at 0 over connection (1,1), then reported closed -/
def mutA : Acct := { player := some ⟨0, 0, none, .logining, 120000, ⟨true, .login, 300000⟩⟩, nextId := 1 }
def mutL : Ledger := { entry := .open (.auth 0), closedRep := true, tx := some (.login, 300000), answered := [1] }

/-- Dropping the `state == Logined` test lets a second login reconnect to a character that never finished
logging in (here once the login transaction's 5 minutes are over and no tick has run): the monitor reports it. -/
theorem mutant_reconnects_wrong_state :
    Rel mutA mutL ∧
    Viol.reconnectWrongState ∈ (evsStep 300000 mutL (reqLoginNoStateCheck 300000 mutA 2 2 2 true).2).2 ∧
    (evsStep 300000 mutL (reqLogin 300000 mutA 2 2 2 true).2).2 = [] := by
  refine ⟨⟨?_, ⟨?_, ?_, ?_⟩⟩, by decide, by decide⟩
  · simp [RelP, mutA, mutL, entryOK, LoginTimeout]
  · intro x hx; simp [mutL] at hx; subst hx; simp [mutA]
  · simp [mutL]
  · intro t ht; simp [mutA] at ht

end Cell2v.Props.C18
