import Cell2v.Lemmas.Center
import Cell2v.Model.CenterRemote
/-!
C18 — property theorems (MMO centre: no double character load; account transactions never
overlap).  Only property statements, non-vacuity examples and a mutant witness live here.

`run ops` executes an arbitrary history of entry-point calls, ticks and clock advances on the
model of `PlayerMgr` (every choice the Go runtime makes is a parameter of the operation, so
"all histories" includes all of them); `Spec.check` is the property monitor of `Spec/C18.lean`
run over the *observable* trace (operations, return values, acknowledgements).
-/
namespace Cell2v.Props.C18
open Cell2v.Center Cell2v.Center.Spec

/-- the monitor state after a history -/
def ledgerAfter (ops : List Op) : Mon := (monRun {} (run ops).2).1

/-- **Master theorem** — for every history the monitor raises nothing on the model's trace, and
the centre's records stay in step with the monitor's ledgers (refinement). -/
theorem history_accepted (ops : List Op) :
    check (run ops).2 = [] ∧ GRel (run ops).1 (ledgerAfter ops) := by
  have := runFrom_sim ops {} {} init_grel
  exact ⟨this.2, this.1⟩

/-! ### what each verdict of the monitor means (so that the corollaries below can be read) -/

/-- `doubleLoad` is reported exactly for a fresh authorisation given while the account's load is live -/
theorem doubleLoad_meaning (now : Nat) (l : Ledger) (id n : Nat) (c : Code) :
    Viol.doubleLoad ∈ (ackStep now l id n c).2 ↔ c = .ok ∧ l.entry.live = true := by
  cases c <;> simp [ackStep] <;> (try split) <;> simp_all

/-- `reconnectWrongState` is reported exactly for a reconnect authorisation given to an account that is
not logged-in or whose connection was not reported closed -/
theorem reconnectWrongState_meaning (now : Nat) (l : Ledger) (id n : Nat) (c : Code) :
    Viol.reconnectWrongState ∈ (ackStep now l id n c).2 ↔
      (∃ lg, c = .re lg) ∧ ¬ (l.entry = .open .inGame ∧ l.closedRep = true) := by
  cases c <;> simp [ackStep] <;> (try split) <;> simp_all

/-- `answeredTwice` is reported exactly when the acknowledged request was acknowledged before -/
theorem answeredTwice_meaning (now : Nat) (l : Ledger) (id n : Nat) (c : Code) :
    Viol.answeredTwice ∈ (ackStep now l id n c).2 ↔ id ∈ l.answered := by
  cases c <;> simp [ackStep] <;> (try split) <;> simp_all

/-- `txOverlap` on an acknowledgement: an authorisation (fresh or reconnect) while a transaction holds the account -/
theorem txOverlap_meaning_ack (now : Nat) (l : Ledger) (id n : Nat) (c : Code) :
    Viol.txOverlap ∈ (ackStep now l id n c).2 ↔ (c = .ok ∨ ∃ lg, c = .re lg) ∧ held l now = true := by
  have e : ∀ xs, held { l with answered := xs } now = held l now := fun _ => rfl
  cases c <;> simp only [ackStep, e] <;> by_cases hh : held l now = true <;> simp [hh] <;> (repeat' split) <;> simp

/-- `txOverlap` on a request: a logout / line-switch request accepted while a transaction holds the account -/
theorem txOverlap_meaning_req (now u : Nat) (l : Ledger) (ret : Option Bool) (h : l.entry ≠ .none) :
    (Viol.txOverlap ∈ (opStep now l (.logoutReq u) ret).2 ↔ ret = some true ∧ held l now = true) ∧
    (Viol.txOverlap ∈ (opStep now l (.swBegin u) ret).2 ↔ ret = some true ∧ held l now = true) := by
  constructor <;> simp only [opStep, h, ↓reduceIte] <;> split <;> simp_all <;> split <;> simp_all

/-- `refusedNoHolder` on an acknowledgement: a login answered AlreadyOnline / SystemBusy although the centre has
nothing on the account (no load, no lingering record) -/
theorem refusedNoHolder_meaning_ack (now : Nat) (l : Ledger) (id n : Nat) (c : Code) :
    Viol.refusedNoHolder ∈ (ackStep now l id n c).2 ↔ (c = .already ∨ c = .busy) ∧ l.entry = .none := by
  cases c <;> simp [ackStep] <;> (repeat' split) <;> simp_all

/-- `refusedNoHolder` on a request: a logout request on an existing record refused although nothing holds the account -/
theorem refusedNoHolder_meaning_req (now u : Nat) (l : Ledger) (ret : Option Bool) (h : l.entry ≠ .none) :
    Viol.refusedNoHolder ∈ (opStep now l (.logoutReq u) ret).2 ↔ ret ≠ some true ∧ held l now = false := by
  simp only [opStep, h, ↓reduceIte]
  split <;> simp_all <;> split <;> simp_all

/-- … or a line-switch request refused for a logged-in account that is not in a line switch and that nothing holds -/
theorem refusedNoHolder_meaning_switch (now u : Nat) (l : Ledger) (ret : Option Bool) :
    Viol.refusedNoHolder ∈ (opStep now l (.swBegin u) ret).2 ↔
      ret ≠ some true ∧ l.entry = .open .inGame ∧ held l now = false ∧ inSwitchTx l.tx = false := by
  simp only [opStep]
  repeat' split
  all_goals simp_all

/-! ### the clauses of the property -/

/-- **No double load**: in no history is a fresh character load authorised while an earlier
authorised load of the account is still live (not reported logged out / abnormally logged out / expired). -/
theorem fresh_load_exclusive (ops : List Op) : Viol.doubleLoad ∉ check (run ops).2 := by
  rw [(history_accepted ops).1]; simp

/-- the invariant behind it: a live load always has its record at the centre … -/
theorem live_load_has_record (ops : List Op) (u : Nat)
    (h : ((ledgerAfter ops).led u).entry.live = true) : ((run ops).1.accts u).player ≠ none := by
  have hr := ((history_accepted ops).2.2 u).p
  intro hn
  unfold RelP at hr; rw [hn] at hr
  rw [hr.1] at h; simp [Entry.live] at h

/-- … and `ReqLogin` answers with a fresh authorisation only when there is no record -/
theorem fresh_ack_only_without_record (now : Nat) (a : Acct) (id f n : Nat) (k : Bool) (id' n' : Nat)
    (h : Ev.ack id' n' .ok ∈ (reqLogin now a id f n k).2) : a.player = none := by
  unfold reqLogin at h
  split at h
  · rename_i p hp
    simp only [doReconnect, addTask] at h
    repeat' split at h
    all_goals simp at h
  · assumption

/-- **Reconnect**: a reconnect is authorised only for a logged-in character whose previous
connection was reported closed. -/
theorem reconnect_only_logined_and_closed (ops : List Op) : Viol.reconnectWrongState ∉ check (run ops).2 := by
  rw [(history_accepted ops).1]; simp

/-- **No overlap**: no login / reconnect / logout / line-switch transaction is ever accepted while
another one holds the account within its time limit. -/
theorem transactions_never_overlap (ops : List Op) : Viol.txOverlap ∉ check (run ops).2 := by
  rw [(history_accepted ops).1]; simp

/-- **Refused while held**, stated on the centre itself: after any history, if a transaction holds
account `u` (open and within its time limit), then a logout request and a line-switch request are
refused and a login request is answered, if at all, only with AlreadyOnline / SystemBusy. -/
theorem refused_while_held (ops : List Op) (u : Nat)
    (h : held ((ledgerAfter ops).led u) (ledgerAfter ops).now = true) :
    (step (run ops).1 (.logoutReq u)).2.ret = some false ∧
    (step (run ops).1 (.swBegin u)).2.ret = some false ∧
    ∀ f n k id' n' c, Ev.ack id' n' c ∈ (step (run ops).1 (.login u f n k)).2.evs → c = .already ∨ c = .busy := by
  obtain ⟨_, hnow, hrel⟩ := history_accepted ops
  have hp := (hrel u).p
  generalize (run ops).1 = s at *
  generalize ledgerAfter ops = m at *
  rw [← hnow] at h
  unfold RelP at hp
  cases hpl : (s.accts u).player with
  | none => rw [hpl] at hp; simp [held, hp.2, heldTx] at h
  | some p =>
    rw [hpl] at hp
    obtain ⟨he, hc, ht⟩ := hp
    have hl : ∀ r d, p.lock.tryLock s.now r d = none := by
      intro r d; rw [tryLock_none, ← ht]; exact h
    refine ⟨?_, ?_, ?_⟩
    · simp [step, logoutReqOp, hpl, hl]
    · simp only [step, swBeginOp, hpl, hl]; split <;> rfl
    · intro f n k id' n' c hm
      simp only [step, loginOp, reqLogin, hpl, doReconnect, hl, addTask] at hm
      repeat' split at hm
      all_goals simp at hm
      all_goals (first | (obtain ⟨_, _, rfl⟩ := hm; simp) | (rcases hm with hm | hm <;> (try cases hm) <;> simp_all))

/-- **Answered at most once**: in every history the login requests of an account are each
acknowledged at most once — parked, replaced, re-run, cancelled and expired requests included. -/
theorem login_answered_at_most_once (ops : List Op) (u : Nat) : (ackIds u (run ops).2).Nodup := by
  have h := ((history_accepted ops).2.2 u).i.ans_nodup
  have := monRun_answered u (run ops).2 {}
  simp only [ledgerAfter] at h
  rw [this] at h
  simp only [List.append_nil] at h
  exact nodup_of_reverse h

theorem login_never_answered_twice (ops : List Op) : Viol.answeredTwice ∉ check (run ops).2 := by
  rw [(history_accepted ops).1]; simp

/-- **Time limits release**: after any history, if the account has a record and no transaction holds
it any more (none open, or the open one is past its time limit), a logout request is accepted. -/
theorem timeouts_release (ops : List Op) (u : Nat)
    (hrec : ((ledgerAfter ops).led u).entry ≠ .none)
    (h : held ((ledgerAfter ops).led u) (ledgerAfter ops).now = false) :
    (step (run ops).1 (.logoutReq u)).2.ret = some true := by
  obtain ⟨_, hnow, hrel⟩ := history_accepted ops
  have hp := (hrel u).p
  generalize (run ops).1 = s at *
  generalize ledgerAfter ops = m at *
  rw [← hnow] at h
  unfold RelP at hp
  cases hpl : (s.accts u).player with
  | none => rw [hpl] at hp; exact absurd hp.1 hrec
  | some p =>
    rw [hpl] at hp
    obtain ⟨he, hc, ht⟩ := hp
    have hl : p.lock.tryLock s.now .logout LockTimeout = some ⟨true, .logout, s.now + LockTimeout⟩ := by
      rw [tryLock_some, ← ht]; exact ⟨h, rfl⟩
    simp [step, logoutReqOp, hpl, hl]

/-- … and the monitor never sees a logout request refused without a holder -/
theorem never_refused_without_holder (ops : List Op) : Viol.refusedNoHolder ∉ check (run ops).2 := by
  rw [(history_accepted ops).1]; simp

/-- **Expiry frees the account**: a load authorised at `t0` and never reported logged-in is dropped by
the first tick at or after `t0 + 2 min`, and the next login request gets a fresh authorisation. -/
theorem expired_login_is_released (ops : List Op) (u t0 f n : Nat) (k : Bool)
    (h : ((ledgerAfter ops).led u).entry = .open (.auth t0))
    (hexp : (ledgerAfter ops).now ≥ t0 + LoginTimeout) :
    ∃ id, (step (step (run ops).1 .tick).1 (.login u f n k)).2.evs = [.ack id n .ok] := by
  obtain ⟨_, hnow, hrel⟩ := history_accepted ops
  have hp := (hrel u).p
  generalize (run ops).1 = s at *
  generalize ledgerAfter ops = m at *
  rw [← hnow] at hexp
  unfold RelP at hp
  cases hpl : (s.accts u).player with
  | none => rw [hpl] at hp; rw [hp.1] at h; cases h
  | some p =>
    rw [hpl] at hp
    obtain ⟨he, hc, ht⟩ := hp
    obtain ⟨fr, nt, lg, st, stt, lk⟩ := p
    rw [h] at he
    cases st <;> simp [entryOK] at he
    obtain ⟨he1, he2⟩ := he
    have e1 : stt ≤ s.now := by unfold LoginTimeout at *; omega
    have e2 : 0 < stt := by unfold LoginTimeout at *; omega
    refine ⟨(s.accts u).nextId + 1, ?_⟩
    simp [step, tickAcct, hpl, e1, e2, loginOp, reqLogin, setAcct]

/-- … and likewise a logout accepted at `t1` that never completed is dropped by the first tick at or
after `t1 + 30 min`. -/
theorem expired_logout_is_released (ops : List Op) (u t1 f n : Nat) (k : Bool)
    (h : ((ledgerAfter ops).led u).entry = .open (.out t1))
    (hexp : (ledgerAfter ops).now ≥ t1 + LogoutTimeout) :
    ∃ id, (step (step (run ops).1 .tick).1 (.login u f n k)).2.evs = [.ack id n .ok] := by
  obtain ⟨_, hnow, hrel⟩ := history_accepted ops
  have hp := (hrel u).p
  generalize (run ops).1 = s at *
  generalize ledgerAfter ops = m at *
  rw [← hnow] at hexp
  unfold RelP at hp
  cases hpl : (s.accts u).player with
  | none => rw [hpl] at hp; rw [hp.1] at h; cases h
  | some p =>
    rw [hpl] at hp
    obtain ⟨he, hc, ht⟩ := hp
    obtain ⟨fr, nt, lg, st, stt, lk⟩ := p
    rw [h] at he
    cases st <;> simp [entryOK] at he
    obtain ⟨he1, he2⟩ := he
    have e1 : stt ≤ s.now := by unfold LogoutTimeout at *; omega
    have e2 : 0 < stt := by unfold LogoutTimeout at *; omega
    refine ⟨(s.accts u).nextId + 1, ?_⟩
    simp [step, tickAcct, hpl, e1, e2, loginOp, reqLogin, setAcct]

/-! ### the other side of "answered at most once": no login request disappears silently, except by the
30 s expiry of a parked login (review finding 4) -/

/-- **Every login request is accounted for**: after any history, each of the login requests issued so far
for an account has been acknowledged, or is the parked (kick-wait) one, or was parked and forgotten by the
expiry scan of the kick-wait manager — nothing else loses a request. -/
theorem login_answered_parked_or_expired (ops : List Op) (u x : Nat)
    (h1 : 1 ≤ x) (h2 : x ≤ ((run ops).1.accts u).nextId) :
    x ∈ ackIds u (run ops).2 ∨ (∃ t, ((run ops).1.accts u).task = some t ∧ t.id = x) ∨
      x ∈ ((run ops).1.accts u).dropped := by
  have h := ((history_accepted ops).2.2 u).i.all x h1 h2
  have := monRun_answered u (run ops).2 {}
  simp only [ledgerAfter] at h
  rw [this] at h
  simpa using h

/-- … the request ids are exactly `1 … number of login operations of the account` -/
theorem login_ids_issued (ops : List Op) (u : Nat) :
    ((run ops).1.accts u).nextId = (ops.filter fun o => match o with | .login v .. => v == u | _ => false).length := by
  have key : ∀ (ops : List Op) (s : State), ((runFrom s ops).1.accts u).nextId =
      (s.accts u).nextId + (ops.filter fun o => match o with | .login v .. => v == u | _ => false).length := by
    intro ops
    induction ops with
    | nil => intro s; simp [runFrom]
    | cons op ops ih =>
      intro s
      simp only [runFrom]
      rw [ih, step_nextId]
      cases op <;> simp [List.filter_cons, stepIssues] <;> split <;> simp_all <;> omega
  simpa [run] using key ops {}

/-- … and the scan forgets a parked login only when it has been parked for more than 30 s -/
theorem forgotten_only_when_expired (now : Nat) (a : Acct) :
    (dropExpired now a).dropped = a.dropped ∨
      ∃ t, a.task = some t ∧ now > t.start + TaskExpiry ∧ (dropExpired now a).dropped = t.id :: a.dropped := by
  unfold dropExpired
  split
  · rename_i t ht
    by_cases he : t.expired now = true
    · right; exact ⟨t, ht, by simpa [Task.expired] using he, by simp [he]⟩
    · left; simp [he]
  · left; rfl

/-- a parked login is answered when it is run (`KickWaitTask.Do`): the only unanswered end is the scan -/
theorem parked_login_answered_when_run (now : Nat) (a : Acct) (t : Task) (h : a.task = some t) :
    (∃ n c, Ev.ack t.id n c ∈ (runTask now a).2) ∧ (runTask now a).1.task = none := by
  constructor
  · unfold runTask
    simp only [h]
    unfold reqLogin doReconnect addTask
    simp only [h]
    repeat' split
    all_goals simp
  · unfold runTask
    simp [h]

/-! ### what a passed time limit releases, and what it does not (review finding 2) -/

/-- after any history, a logged-in account that no transaction holds any more accepts a line switch … -/
theorem timeouts_release_switch (ops : List Op) (u : Nat) (p : Player)
    (hp : ((run ops).1.accts u).player = some p) (hst : p.state = .logined)
    (h : held ((ledgerAfter ops).led u) (ledgerAfter ops).now = false) :
    (step (run ops).1 (.swBegin u)).2.ret = some true := by
  obtain ⟨_, hnow, hrel⟩ := history_accepted ops
  have hr := (hrel u).p
  generalize (run ops).1 = s at *
  generalize ledgerAfter ops = m at *
  rw [← hnow] at h
  unfold RelP at hr
  rw [hp] at hr
  obtain ⟨he, hc, ht⟩ := hr
  have hl : p.lock.tryLock s.now .switchLine LockTimeout = some ⟨true, .switchLine, s.now + LockTimeout⟩ := by
    rw [tryLock_some, ← ht]; exact ⟨h, rfl⟩
  simp [step, swBeginOp, hp, hst, hl]

/-- … and, when its connection was reported closed, a reconnect -/
theorem timeouts_release_reconnect (ops : List Op) (u f n : Nat) (k : Bool) (p : Player)
    (hp : ((run ops).1.accts u).player = some p) (hst : p.state = .logined) (hn : p.net = 0)
    (h : held ((ledgerAfter ops).led u) (ledgerAfter ops).now = false) :
    ∃ id, (step (run ops).1 (.login u f n k)).2.evs = [.ack id n (.re p.logic)] := by
  obtain ⟨_, hnow, hrel⟩ := history_accepted ops
  have hr := (hrel u).p
  generalize (run ops).1 = s at *
  generalize ledgerAfter ops = m at *
  rw [← hnow] at h
  unfold RelP at hr
  rw [hp] at hr
  obtain ⟨he, hc, ht⟩ := hr
  have hl : p.lock.tryLock s.now .reonline LockTimeout = some ⟨true, .reonline, s.now + LockTimeout⟩ := by
    rw [tryLock_some, ← ht]; exact ⟨h, rfl⟩
  exact ⟨(s.accts u).nextId + 1, by simp [step, loginOp, reqLogin, hp, hst, hn, doReconnect, hl]⟩

/-- **A line switch that never ends blocks the account for good** (suspected defect of the code, mirrored
by the model: `SetState(SwitchLine, 0)` carries no state time limit).  Once the account is in a line switch,
whatever happens afterwards — any clock advances (past the 3 min transaction limit, past anything), ticks,
logins, closed reports, re-online, offline replies, operations on other accounts — short of a switch-end, a
logout request / report or a logined report for that account: a line-switch request is refused and every
login request is answered AlreadyOnline.  So for login and line-switch "refused until … its time limit
passes" holds only in the direction proved by `refused_while_held`; the time limit frees the account for a
logout request only (`timeouts_release`). -/
theorem unfinished_switch_blocks_account (pre post : List Op) (u : Nat)
    (h : InSwitch ((run pre).1.accts u)) (hpost : ∀ op ∈ post, op.endsSwitch u = false) :
    (step (run (pre ++ post)).1 (.swBegin u)).2.ret = some false ∧
    ∀ f n k, (∃ id, Ev.ack id n .already ∈ (step (run (pre ++ post)).1 (.login u f n k)).2.evs) ∧
      ∀ id' n' c, Ev.ack id' n' c ∈ (step (run (pre ++ post)).1 (.login u f n k)).2.evs → c = .already := by
  have hs : InSwitch ((run (pre ++ post)).1.accts u) := by
    unfold run; rw [runFrom_append]; exact runFrom_inSwitch post u hpost _ h
  generalize (run (pre ++ post)).1 = s at hs
  refine ⟨?_, ?_⟩
  · simp [step, (swBeginOp_inSwitch s.now _ hs).2]
  · intro f n k
    have hs' : InSwitch { s.accts u with nextId := (s.accts u).nextId + 1 } := inSwitch_congr rfl hs
    refine ⟨⟨(s.accts u).nextId + 1, ?_⟩, ?_⟩
    · simp only [step, loginOp]; exact reqLogin_inSwitch_acks _ _ _ _ _ _ hs'
    · intro id' n' c hm
      simp only [step, loginOp] at hm
      rcases (reqLogin_inSwitch _ _ _ _ _ k hs').2 _ hm with e | ⟨f', n'', e⟩
      · cases e; rfl
      · cases e

/-- the state the theorem starts from is reached by the ordinary protocol (login, logged-in, switch begins);
e.g. `post := [.adv 180000, .tick, .adv 1800000, .tick]` is allowed -/
example : InSwitch ((run [.login 1 1 1 true, .logined 1 true none, .swBegin 1]).1.accts 1) := ⟨_, rfl, rfl⟩
example : ∀ op ∈ [Op.adv 180000, .tick, .closed 1 none, .adv 1800000, .tick, .login 1 2 2 true],
    op.endsSwitch 1 = false := by decide

/-! ### what the theorems do NOT say: two environment assumptions made explicit by witnesses
(review findings 1 and 3) -/

/-- a logined report for an account the centre keeps no record of is ignored (and still answered Succ by the
handler): nothing is recorded, nothing is emitted -/
theorem logined_without_record_ignored (s : State) (u : Nat) (lg : Bool) (pick : Option Nat)
    (h : (s.accts u).player = none) :
    ((step s (.logined u lg pick)).1.accts u).player = none ∧ (step s (.logined u lg pick)).2.evs = [] := by
  simp [step, loginedOp, h, fire, setAcct]

/-- **Late logined** (review finding 1): the load authorised at 0 expires at the centre (tick at 2 min), the
logic server's logined report arrives afterwards and is ignored, and a second fresh load is authorised —
accepted by the monitor, because the property counts an *expired* load as over.  That "two game-logic
instances never coexist" follows only under the environment assumption that a logic instance whose login
was not confirmed within 2 min (whose logout did not complete within 30 min) has discarded itself; the
centre does nothing to enforce it (`assumptions` of the check). -/
theorem late_logined_then_second_load :
    (run [.login 1 1 1 true, .adv 120000, .tick, .logined 1 true none, .login 1 2 2 true]).2.map (·.out.evs) =
      [[.ack 1 1 .ok], [], [], [], [.ack 2 2 .ok]] ∧
    check (run [.login 1 1 1 true, .adv 120000, .tick, .logined 1 true none, .login 1 2 2 true]).2 = [] := by
  decide

/-- **Stale closed report** (review finding 3): `OnClientSessionClosed(uid)` carries no connection identity.
After a reconnect over connection (2,2), a second closed report for the account (e.g. a duplicate for the
old connection (1,1)) unbinds (2,2), and a third connection is given a reconnect although (2,2) was never
closed.  The monitor's clause "previous connection reported closed" is per account: it relies on the
front-ends reporting only the connection currently bound to the account. -/
theorem stale_closed_report_unbinds_current_connection :
    (run [.login 1 1 1 true, .logined 1 true none, .closed 1 none, .offReply 1 none, .login 1 2 2 true,
          .reonline 1, .closed 1 none, .offReply 1 none, .login 1 1 3 true]).2.map (·.out.evs) =
      [[.ack 1 1 .ok], [], [.off], [], [.ack 2 2 (.re (some true))], [], [.off], [], [.ack 3 3 (.re (some true))]] := by
  decide

/-! ### the periodic update is driven by the 1 s timer of `PlayerMgr.Start` (`Op.advT`): no explicit tick needed -/

/-- **Expiry frees the account, by the timer**: with the timer running, once the 2 min of an authorised, never
confirmed load are over, any further advance of at least one timer period removes the record and the next
login request gets a fresh authorisation. -/
theorem timer_releases_expired_login (ops : List Op) (u t0 f n ms : Nat) (k : Bool)
    (h : ((ledgerAfter ops).led u).entry = .open (.auth t0))
    (hexp : (ledgerAfter ops).now ≥ t0 + LoginTimeout) (hms : ms ≥ TimerPeriod) :
    ∃ id, (step (step (run ops).1 (.advT ms)).1 (.login u f n k)).2.evs = [.ack id n .ok] := by
  obtain ⟨_, hnow, hrel⟩ := history_accepted ops
  have hp := (hrel u).p
  generalize (run ops).1 = s at *
  generalize ledgerAfter ops = m at *
  rw [← hnow] at hexp
  unfold RelP at hp
  cases hpl : (s.accts u).player with
  | none => rw [hpl] at hp; rw [hp.1] at h; cases h
  | some p =>
    rw [hpl] at hp
    obtain ⟨he, hc, ht⟩ := hp
    have hst : p.state = .logining := by
      rw [h] at he; unfold entryOK at he; split at he <;> simp_all
    have he' := he
    rw [h] at he'; simp [entryOK, hst] at he'
    have hgone := advT_removes s u ms p hpl (.inl hst) (by unfold LoginTimeout at *; omega)
      (by unfold LoginTimeout at *; omega) hms
    refine ⟨((step s (.advT ms)).1.accts u).nextId + 1, ?_⟩
    simp [step, loginOp, reqLogin] at hgone ⊢
    simp [hgone]

/-- … and likewise 30 min after an accepted logout request that never completed -/
theorem timer_releases_expired_logout (ops : List Op) (u t1 f n ms : Nat) (k : Bool)
    (h : ((ledgerAfter ops).led u).entry = .open (.out t1))
    (hexp : (ledgerAfter ops).now ≥ t1 + LogoutTimeout) (hms : ms ≥ TimerPeriod) :
    ∃ id, (step (step (run ops).1 (.advT ms)).1 (.login u f n k)).2.evs = [.ack id n .ok] := by
  obtain ⟨_, hnow, hrel⟩ := history_accepted ops
  have hp := (hrel u).p
  generalize (run ops).1 = s at *
  generalize ledgerAfter ops = m at *
  rw [← hnow] at hexp
  unfold RelP at hp
  cases hpl : (s.accts u).player with
  | none => rw [hpl] at hp; rw [hp.1] at h; cases h
  | some p =>
    rw [hpl] at hp
    obtain ⟨he, hc, ht⟩ := hp
    have hst : p.state = .logouting := by
      rw [h] at he; unfold entryOK at he; split at he <;> simp_all
    have he' := he
    rw [h] at he'; simp [entryOK, hst] at he'
    have hgone := advT_removes s u ms p hpl (.inr hst) (by unfold LogoutTimeout at *; omega)
      (by unfold LogoutTimeout at *; omega) hms
    refine ⟨((step s (.advT ms)).1.accts u).nextId + 1, ?_⟩
    simp [step, loginOp, reqLogin] at hgone ⊢
    simp [hgone]

/-- the timer fires at the multiples of its period that the advance passes, and only there -/
theorem timer_firings (a b t : Nat) : t ∈ firings a b ↔ a < t ∧ t ≤ b ∧ t % TimerPeriod = 0 := by
  constructor
  · intro h
    refine ⟨(firings_bounds a b t h).1, (firings_bounds a b t h).2, ?_⟩
    unfold firings TimerPeriod at h
    simp only [List.mem_map, List.mem_range] at h
    obtain ⟨i, _, rfl⟩ := h
    simp [TimerPeriod]
  · rintro ⟨h1, h2, h3⟩
    unfold firings TimerPeriod at *
    simp only [List.mem_map, List.mem_range]
    exact ⟨t / 1000 - a / 1000 - 1, by omega, by omega⟩

/-! ### non-vacuity: the hypotheses above are met by concrete histories -/

/-- a held transaction exists (login transaction right after a fresh authorisation) -/
example : held ((ledgerAfter [.login 1 1 1 true]).led 1) (ledgerAfter [.login 1 1 1 true]).now = true := by decide

/-- a record without a holder exists (after the logic server reported the login complete) -/
example : ((ledgerAfter [.login 1 1 1 true, .logined 1 true none]).led 1).entry ≠ .none ∧
    held ((ledgerAfter [.login 1 1 1 true, .logined 1 true none]).led 1) 0 = false := by decide

/-- an expired, never logged-in load exists -/
example : ((ledgerAfter [.login 1 1 1 true, .adv 120000]).led 1).entry = .open (.auth 0) ∧
    (ledgerAfter [.login 1 1 1 true, .adv 120000]).now ≥ 0 + LoginTimeout := by decide

/-- an expired, never completed logout exists -/
example : ((ledgerAfter [.login 1 1 1 true, .logined 1 true none, .logoutReq 1, .adv 1800000]).led 1).entry = .open (.out 0) ∧
    (ledgerAfter [.login 1 1 1 true, .logined 1 true none, .logoutReq 1, .adv 1800000]).now ≥ 0 + LogoutTimeout := by decide

/-- the timer at work: the firing at 120 000 ms removes the unconfirmed load; an advance that stops 1 ms short
of that firing does not -/
example : (run [.login 1 1 1 true, .adv 119000, .advT 1000, .login 1 2 2 true]).2.map (·.out.evs) =
      [[.ack 1 1 .ok], [], [], [.ack 2 2 .ok]] ∧
    (run [.login 1 1 1 true, .adv 119000, .advT 999, .login 1 2 2 true]).2.map (·.out.evs) =
      [[.ack 1 1 .ok], [], [], [.kick 1 1, .ack 2 2 .already]] := by decide

/-- a live load exists (so `live_load_has_record` is not vacuous) -/
example : ((ledgerAfter [.login 1 1 1 true]).led 1).entry.live = true := by decide

/-- an issued request exists; a forgotten one exists (parked at 0, scanned after 30 s) -/
example : ((run [.login 1 1 1 true]).1.accts 1).nextId = 1 := by decide
example : ((run [.login 1 1 1 true, .logined 1 true none, .login 1 2 2 true, .adv 30001, .closed 1 none,
    .offReply 1 (some 1)]).1.accts 1).dropped = [2] := by
  decide

/-- a logged-in, unheld record with a closed connection exists (`timeouts_release_switch` / `_reconnect`) -/
example : ∃ p, ((run [.login 1 1 1 true, .logined 1 true none, .closed 1 none]).1.accts 1).player = some p ∧
    p.state = .logined ∧ p.net = 0 ∧
    held ((ledgerAfter [.login 1 1 1 true, .logined 1 true none, .closed 1 none]).led 1) 0 = false :=
  ⟨_, rfl, rfl, rfl, by decide⟩

/-- the full happy path with a kick-wait login: fresh login, logged-in, second connection parks, the
first is reported closed, the logic server answers the offline request, the parked login reconnects —
three acknowledgements for three distinct requests -/
example : ackIds 1 (run [.login 1 1 1 true, .logined 1 true none, .login 1 2 2 true, .login 1 1 3 true,
    .closed 1 none, .offReply 1 none]).2 = [1, 2, 3] := by decide

/-! ### the remote API (`center_remote.go`): what the callers are told -/
section Remote
open Cell2v.Center.Remote

/-- The remote API grants (`NormalAck{Succ}`) exactly the logout / line-switch requests the manager accepted,
and answers `ErrFaild` to exactly those it refused: the caller's view of its transaction is the manager's. -/
theorem remote_grants_iff_accepted (s : State) (op : Op) (h : Op.isRequest op = true) :
    (reply op (step s op).2 = .normal .succ ↔ (step s op).2.ret = some true) ∧
    (reply op (step s op).2 = .normal .faild ↔ (step s op).2.ret = some false) := by
  cases op <;> simp [Op.isRequest] at h <;> simp only [reply, codeOf, step]
  · rename_i u; by_cases hb : (logoutReqOp s.now (s.accts u)).2 = true <;> simp [hb]
  · rename_i u; by_cases hb : (swBeginOp s.now (s.accts u)).2 = true <;> simp [hb]
  · rename_i u; by_cases hb : (swEndOp (s.accts u)).2 = true <;> simp [hb]

/-- **Refused while held, as told to the caller**: after any history, if a transaction holds account `u` (open and
within its time limit), the remote API answers a logout request and a line-switch request with `ErrFaild`. -/
theorem remote_refuses_while_held (ops : List Op) (u : Nat)
    (h : held ((ledgerAfter ops).led u) (ledgerAfter ops).now = true) :
    reply (.logoutReq u) (step (run ops).1 (.logoutReq u)).2 = .normal .faild ∧
    reply (.swBegin u) (step (run ops).1 (.swBegin u)).2 = .normal .faild := by
  obtain ⟨h1, h2, _⟩ := refused_while_held ops u h
  exact ⟨((remote_grants_iff_accepted _ (.logoutReq u) rfl).2).2 h1, ((remote_grants_iff_accepted _ (.swBegin u) rfl).2).2 h2⟩

/-- non-vacuity: the reconnect transaction holds the account, the logout request is answered `ErrFaild` -/
example : held ((ledgerAfter [.login 1 1 1 true, .logined 1 true none, .closed 1 none, .login 1 1 2 true]).led 1)
      (ledgerAfter [.login 1 1 1 true, .logined 1 true none, .closed 1 none, .login 1 1 2 true]).now = true ∧
    reply (.logoutReq 1) (step (run [.login 1 1 1 true, .logined 1 true none, .closed 1 none, .login 1 1 2 true]).1 (.logoutReq 1)).2
      = .normal .faild := by decide

/-- A granted request took the account: the remote API answers `Succ` to a logout / line-switch request only
when, afterwards, the account's lock is held by that very transaction until `now + 3 min`. -/
theorem remote_grant_takes_lock (s : State) (u : Nat) :
    (reply (.logoutReq u) (step s (.logoutReq u)).2 = .normal .succ →
      ∃ p, ((step s (.logoutReq u)).1.accts u).player = some p ∧ p.lock = ⟨true, .logout, s.now + LockTimeout⟩) ∧
    (reply (.swBegin u) (step s (.swBegin u)).2 = .normal .succ →
      ∃ p, ((step s (.swBegin u)).1.accts u).player = some p ∧ p.lock = ⟨true, .switchLine, s.now + LockTimeout⟩) := by
  constructor
  · intro h
    rw [(remote_grants_iff_accepted s (.logoutReq u) rfl).1] at h
    simp only [step, logoutReqOp] at h ⊢
    cases hp : (s.accts u).player with
    | none => simp [hp] at h
    | some p =>
      simp only [hp] at h ⊢
      cases hl : p.lock.tryLock s.now .logout LockTimeout with
      | none => simp [hl] at h
      | some l =>
        simp only [Lock.tryLock] at hl
        split at hl <;> simp at hl
        simp [setAcct, upd, ← hl]
  · intro h
    rw [(remote_grants_iff_accepted s (.swBegin u) rfl).1] at h
    simp only [step, swBeginOp] at h ⊢
    cases hp : (s.accts u).player with
    | none => simp [hp] at h
    | some p =>
      simp only [hp] at h ⊢
      by_cases hs : p.state = .logined
      · cases hl : p.lock.tryLock s.now .switchLine LockTimeout with
        | none => simp [hs, hl] at h
        | some l =>
          simp only [Lock.tryLock] at hl
          split at hl <;> simp at hl
          simp [hs, setAcct, upd, ← hl]
      · simp [hs] at h

/-- notifications (logined, re-online, logout done, abnormal logout) are acknowledged `Succ` whatever the manager did
with them; the close report is acknowledged without a body; a login is answered through its callback only -/
theorem remote_notifications_acknowledged (op : Op) (out : Out) (h : Op.isRequest op = false) :
    reply op out = .normal .succ ∨ reply op out = .empty ∨ reply op out = .later ∨ reply op out = .notRemote := by
  cases op <;> simp [Op.isRequest] at h <;> simp [reply]

end Remote

/-! ### a mutant: `ReqLogin` that reconnects without looking at the player's state -/

/-- the record of an account whose login was authorised at 0 over connection (1,1), then reported closed -/
def mutA : Acct := { player := some ⟨0, 0, none, .logining, 120000, ⟨true, .login, 300000⟩⟩, nextId := 1 }
def mutL : Ledger := { entry := .open (.auth 0), closedRep := true, tx := some (.login, 300000), answered := [1] }

/-- Dropping the `state == Logined` test lets a second login reconnect to a character that never finished
logging in (here once the login transaction's 5 minutes are over and no tick has run): the monitor reports it. -/
theorem mutant_reconnects_wrong_state :
    Rel mutA mutL ∧
    Viol.reconnectWrongState ∈ (evsStep 300000 mutL (reqLoginNoStateCheck 300000 mutA 2 2 2 true).2).2 ∧
    (evsStep 300000 mutL (reqLogin 300000 mutA 2 2 2 true).2).2 = [] := by
  refine ⟨⟨?_, ⟨?_, ?_, ?_, ?_⟩⟩, by decide, by decide⟩
  · simp [RelP, mutA, mutL, entryOK, LoginTimeout]
  · intro x hx; simp [mutL] at hx; subst hx; simp [mutA]
  · simp [mutL]
  · intro t ht; simp [mutA] at ht
  · intro x h1 h2; simp [mutA] at h2; left; simp [mutL]; omega

end Cell2v.Props.C18
