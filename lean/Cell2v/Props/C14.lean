import Cell2v.Lemmas.Timer
import Cell2v.Lemmas.TimerLive
import Cell2v.Lemmas.TimerSvc
import Cell2v.Lemmas.TimerFair
import Cell2v.Lemmas.TimerGap
/-!
C14 — timers fire on the owner, never early, as often as asked, never after cancel.

All statements are about `run ops`, the state and the chronological event trace
after an *arbitrary* history `ops : List Op` of primitive steps from the initial
manager (any number of timers, any durations, any interleaving of creation,
cancellation, passing of time, expiry goroutines, consumer receives, single
callback actions — including cancel from inside the own callback, cancel while
the expiry is queued, panics, creation of timers inside callbacks, `Stop`).
`expire id` is the `time.AfterFunc` goroutine: enabled only when `now ≥ exp`.
-/
namespace Cell2v.Props.C14
open Cell2v.Timer

/-! ### never after cancel -/

/-- Once `Cancel(id)` was called for an existing timer — from the owner between
callbacks or from inside any callback (its own included), before the expiry,
while the expiry sits in the queue, or during the callback — no callback of `id`
is entered any more, whatever happens afterwards. -/
theorem no_callback_after_cancel (ops : List Op) (pre post : List Event) (id t : Nat)
    (h : (run ops).2 = pre ++ Event.cancel id t :: post) : ∀ t' a, Event.cb id t' a ∉ post :=
  (inv_run ops).good.noCbAfterCancel pre post id t h

/-- the `cancel` event is not optional: every `Cancel` of an existing timer records it
(owner between callbacks; the three script forms inside a callback) -/
theorem cancel_is_recorded (s : State) (id : Nat) (hl : (s.tm id).live = true) :
    (s.cur = none → (step s (.cancel id)).2 = [Event.cancel id s.now]) ∧
    (∀ c rest, s.cur = some (c, Act.cancel id :: rest) → (step s .cbStep).2 = [Event.cancel id s.now]) ∧
    (∀ rest, s.cur = some (id, Act.cancelSelf :: rest) → (step s .cbStep).2 = [Event.cancel id s.now]) ∧
    (∀ c rest, s.nextId = id → s.cur = some (c, Act.cancelNewest :: rest) → (step s .cbStep).2 = [Event.cancel id s.now]) := by
  refine ⟨?_, ?_, ?_, ?_⟩
  · intro h; simp [step, h, cancelTm, hl]
  · intro c rest h; simp [step, cbStep, h, cancelTm, hl]
  · intro rest h; simp [step, cbStep, h, cancelTm, hl]
  · intro c rest hn h; subst hn; simp [step, cbStep, h, cancelTm, hl]

/-- cancel while the expiry is already queued, then drain: the trace has the shape the theorem speaks about -/
example : ∃ pre post, (run [.add 5 0 [7], .advance 5, .expire 2, .cancel 2, .doNext 0, .advance 9]).2
    = pre ++ Event.cancel 2 5 :: post ∧ (run [.add 5 0 [7], .advance 5, .expire 2]).1.queue = [2] :=
  ⟨[Event.created 2 0 5 5 [7]], [], by decide, by decide⟩

/-! ### one-shot: at most once, exactly once when drained -/

/-- A timer created by `After` (or by `AddTimer` with a non-positive duration) — i.e. created
with period 0 — has its callback entered at most once in any history. -/
theorem oneshot_at_most_once (ops : List Op) (id t0 dl : Nat) (a : List Nat)
    (h : createdOf (run ops).2 id = some (t0, dl, 0, a)) : cbCount (run ops).2 id ≤ 1 := by
  have I := inv_run ops
  have hx := I.hist id
  cases hl : ((run ops).1.tm id).live with
  | false => rw [(hx.createdDead hl).1] at h; cases h
  | true =>
    obtain ⟨t0', dl', hc⟩ := hx.createdLive hl
    rw [hc] at h; simp at h
    exact (hx.once h.2.2.1).1

/-- … and exactly once, if it was never cancelled, the manager was not stopped, its
runtime timer has gone off (`time.AfterFunc` runs the function once the duration has
elapsed) and the owner has taken it out of the queue.  No assumption about panics. -/
theorem oneshot_exactly_once_if_drained (ops : List Op) (id t0 dl : Nat) (a : List Nat)
    (h : createdOf (run ops).2 id = some (t0, dl, 0, a))
    (hnc : cancelledIn (run ops).2 id = false) (hr : (run ops).1.running = true)
    (hfired : ((run ops).1.tm id).armed = false) (hdrained : id ∉ (run ops).1.queue) :
    cbCount (run ops).2 id = 1 := by
  have I := inv_run ops
  have hx := I.hist id
  have hle := oneshot_at_most_once ops id t0 dl a h
  cases hl : ((run ops).1.tm id).live with
  | false => rw [(hx.createdDead hl).1] at h; cases h
  | true =>
    have hcc : ((run ops).1.tm id).cancelled = false := by
      cases hc : ((run ops).1.tm id).cancelled with
      | false => rfl
      | true => have := hx.cancelComplete hc; simp_all
    rcases hx.alive hl hcc hr with h1 | h1 | h1 | h1
    · simp_all
    · exact absurd h1 hdrained
    · have := hx.curCount h1; omega
    · omega

example : let ops := [Op.after 3 0 [1], .advance 3, .expire 2, .doNext 0, .cbStep]
    createdOf (run ops).2 2 = some (0, 3, 0, [1]) ∧ cancelledIn (run ops).2 2 = false ∧
    (run ops).1.running = true ∧ ((run ops).1.tm 2).armed = false ∧ 2 ∉ (run ops).1.queue ∧
    cbCount (run ops).2 2 = 1 := by decide

/-! ### repeating: re-armed after every firing -/

/-- A repeating timer (`AddTimer` with a positive duration) that was never cancelled, on a
manager that was not stopped, is always either waiting for its runtime timer, or queued for
the owner, or running its callback: it can never get lost, whatever its callbacks do
(panic included). -/
theorem repeating_rearms (ops : List Op) (id t0 dl p : Nat) (a : List Nat)
    (h : createdOf (run ops).2 id = some (t0, dl, p, a)) (hp : 0 < p)
    (hnc : cancelledIn (run ops).2 id = false) (hr : (run ops).1.running = true) :
    ((run ops).1.tm id).armed = true ∨ id ∈ (run ops).1.queue ∨ (run ops).1.curId = some id := by
  have I := inv_run ops
  have hx := I.hist id
  cases hl : ((run ops).1.tm id).live with
  | false => rw [(hx.createdDead hl).1] at h; cases h
  | true =>
    obtain ⟨t0', dl', hc⟩ := hx.createdLive hl
    rw [hc] at h; simp at h
    have hcc : ((run ops).1.tm id).cancelled = false := by
      cases hc : ((run ops).1.tm id).cancelled with
      | false => rfl
      | true => have := hx.cancelComplete hc; simp_all
    rcases hx.alive hl hcc hr with h1 | h1 | h1 | h1
    · exact Or.inl h1
    · exact Or.inr (Or.inl h1)
    · exact Or.inr (Or.inr h1)
    · omega

/-- the re-arming itself: when the callback of a repeating, not cancelled timer is over,
`Do` arms it again for `now + period` -/
theorem rearm_step (s : State) (id : Nat) (hc : s.cur = some (id, [])) (hnc : (s.tm id).cancelled = false)
    (hp : 0 < (s.tm id).period) :
    (step s .cbStep).2 = [Event.rearm id s.now (s.tm id).period] ∧
    ((step s .cbStep).1.tm id).armed = true ∧ ((step s .cbStep).1.tm id).exp = s.now + (s.tm id).period := by
  simp [step, cbStep, hc, finish, hnc, hp]

/-- "again and again": whenever no callback is in progress, a repeating, never cancelled timer
on a running manager can be brought to fire once more just by waiting and draining (and by
`repeating_rearms` it is then armed/queued/running again, so this can be repeated forever) -/
theorem repeating_fires_again (ops : List Op) (id t0 dl p : Nat) (a : List Nat)
    (h : createdOf (run ops).2 id = some (t0, dl, p, a)) (hp : 0 < p)
    (hnc : cancelledIn (run ops).2 id = false) (hr : (run ops).1.running = true) (hcur : (run ops).1.cur = none) :
    ∃ ops', cbCount (run (ops ++ ops')).2 id = cbCount (run ops).2 id + 1 := by
  have I := inv_run ops
  have hcc : ((run ops).1.tm id).cancelled = false := by
    cases hc : ((run ops).1.tm id).cancelled with
    | false => rfl
    | true => have := (I.hist id).cancelComplete hc; simp_all
  rcases repeating_rearms ops id t0 dl p a h hp hnc hr with h1 | h1 | h1
  · exact ⟨_, by unfold run; rw [runFrom_append]; exact can_fire_armed I.wf id h1 hr hcur⟩
  · exact ⟨_, by unfold run; rw [runFrom_append]; exact can_fire_queued id h1 hcc hcur⟩
  · simp [State.curId, hcur] at h1

example : let ops := [Op.add 2 0 [], .advance 2, .expire 2, .doNext 0, .cbStep, .advance 2, .expire 2, .doNext 0, .cbStep]
    createdOf (run ops).2 2 = some (0, 2, 2, []) ∧ cancelledIn (run ops).2 2 = false ∧
    ((run ops).1.tm 2).armed = true ∧ cbCount (run ops).2 2 = 2 := by decide

/-! ### "again and again" with the consumer a Go channel allows: FIFO receives only -/

/-- the step of the expiry goroutine: a timer whose runtime timer is pending and due, not
cancelled, on a running manager, is appended to the queue (behind everything already there) -/
theorem expiry_enqueues (s : State) (id : Nat) (ha : (s.tm id).armed = true) (hd : (s.tm id).exp ≤ s.now)
    (hc : (s.tm id).cancelled = false) (hr : s.running = true) :
    (step s (.expire id)).1.queue = s.queue ++ [id] ∧ (step s (.expire id)).2 = [] := by
  simp [step, expire, ha, hd, hc, hr]

/-- Bounded wait, every schedule: after an arbitrary history let the object of `id` sit at
position `k` of the queue.  In EVERY continuation in which the consumer receives in channel
order (`doNext 0` only; all other steps — expiries, owner calls, callbacks of the objects
ahead incl. panics, time, `Stop` — arbitrary), as soon as the consumer has taken more than
`k` elements the callback of `id` has been entered or `id` has been cancelled.  Together with
`repeating_rearms` (always armed / queued / running) and `expiry_enqueues` this is the finite
form of: under a consumer that keeps receiving, a repeating timer fires again and again. -/
theorem fifo_bounded_wait (ops ops' : List Op) (id : Nat) (hf : FifoSched ops')
    (hq : id ∈ (run ops).1.queue) (hn : (run ops).1.queue.idxOf id < recvs (run ops).1 ops') :
    cbCount (run ops).2 id < cbCount (run (ops ++ ops')).2 id ∨ cancelledIn (run (ops ++ ops')).2 id = true := by
  unfold run; rw [runFrom_append]
  exact bounded_wait (inv_run ops) id ops' hf hq hn

/-- two timers due together, `3` queued behind `2`: two receives in channel order reach it -/
example : let ops := [Op.add 2 0 [], .add 2 0 [], .advance 2, .expire 2, .expire 3]
    let ops' := [Op.doNext 0, .cbStep, .doNext 0]
    FifoSched ops' ∧ 3 ∈ (run ops).1.queue ∧ (run ops).1.queue.idxOf 3 = 1 ∧ recvs (run ops).1 ops' = 2 ∧
    cbCount (run ops).2 3 = 0 ∧ cbCount (run (ops ++ ops')).2 3 = 1 := by
  refine ⟨?_, by decide, by decide, by decide, by decide, by decide⟩
  intro o ho; simp at ho; rcases ho with rfl | rfl | rfl <;> rfl

/-- … and when the object ahead cancels it, the other disjunct is the one that holds -/
example : let ops := [Op.defScript 1 [.cancel 3], .add 2 1 [], .add 2 0 [], .advance 2, .expire 2, .expire 3]
    let ops' := [Op.doNext 0, .cbStep, .cbStep, .doNext 0]
    recvs (run ops).1 ops' = 2 ∧ cbCount (run (ops ++ ops')).2 3 = 0 ∧ cancelledIn (run (ops ++ ops')).2 3 = true := by
  decide

/-- "again and again" without out-of-order receives: whenever no callback is in progress, a
repeating, never cancelled timer on a running manager has a continuation — time passes, its
expiry goroutine runs, the consumer takes the queue head by head and lets every callback
finish — after which it has fired once more, or one of the callbacks ahead of it in the queue
has cancelled it. -/
theorem repeating_fires_again_fifo (ops : List Op) (id t0 dl p : Nat) (a : List Nat)
    (h : createdOf (run ops).2 id = some (t0, dl, p, a)) (hp : 0 < p)
    (hnc : cancelledIn (run ops).2 id = false) (hr : (run ops).1.running = true) (hcur : (run ops).1.cur = none) :
    ∃ ops', FifoSched ops' ∧
      (cbCount (run ops).2 id < cbCount (run (ops ++ ops')).2 id ∨ cancelledIn (run (ops ++ ops')).2 id = true) := by
  have I := inv_run ops
  rcases repeating_rearms ops id t0 dl p a h hp hnc hr with h1 | h1 | h1
  · obtain ⟨ops', hf, hres⟩ := alive_can_fire_fifo I id hr hcur (Or.inl h1)
    exact ⟨ops', hf, by unfold run; rw [runFrom_append]; exact hres⟩
  · obtain ⟨ops', hf, hres⟩ := alive_can_fire_fifo I id hr hcur (Or.inr h1)
    exact ⟨ops', hf, by unfold run; rw [runFrom_append]; exact hres⟩
  · simp [State.curId, hcur] at h1

/-- a one-shot that has not fired yet, was not cancelled, manager running: it CAN fire (the
lower half of "exactly once" does not presuppose that it went off and was drained), with a
consumer that receives in channel order; it then has fired exactly once -/
theorem oneshot_fires_fifo (ops : List Op) (id t0 dl : Nat) (a : List Nat)
    (h : createdOf (run ops).2 id = some (t0, dl, 0, a)) (h0 : cbCount (run ops).2 id = 0)
    (hnc : cancelledIn (run ops).2 id = false) (hr : (run ops).1.running = true) (hcur : (run ops).1.cur = none) :
    ∃ ops', FifoSched ops' ∧
      (cbCount (run (ops ++ ops')).2 id = 1 ∨ cancelledIn (run (ops ++ ops')).2 id = true) := by
  have I := inv_run ops
  have hx := I.hist id
  cases hl : ((run ops).1.tm id).live with
  | false => rw [(hx.createdDead hl).1] at h; cases h
  | true =>
    have hcc : ((run ops).1.tm id).cancelled = false := by
      cases hc : ((run ops).1.tm id).cancelled with
      | false => rfl
      | true => have := hx.cancelComplete hc; simp_all
    have hs : ((run ops).1.tm id).armed = true ∨ id ∈ (run ops).1.queue := by
      rcases hx.alive hl hcc hr with h1 | h1 | h1 | h1
      · exact Or.inl h1
      · exact Or.inr h1
      · simp [State.curId, hcur] at h1
      · omega
    obtain ⟨ops', hf, hres⟩ := alive_can_fire_fifo I id hr hcur hs
    refine ⟨ops', hf, ?_⟩
    rcases hres with h1 | h1
    · left
      have hc' : createdOf (run (ops ++ ops')).2 id = some (t0, dl, 0, a) := by
        unfold run; rw [runFrom_append]
        obtain ⟨ev, he⟩ := runFrom_trace (runFrom init [] ops).1 (runFrom init [] ops).2 ops'
        rw [he]; exact createdOf_append_some _ _ _ _ h
      have hle := oneshot_at_most_once (ops ++ ops') id t0 dl a hc'
      have : cbCount (run ops).2 id < cbCount (run (ops ++ ops')).2 id := by
        unfold run; rw [runFrom_append]; exact h1
      omega
    · right; unfold run; rw [runFrom_append]; exact h1

example : let ops := [Op.after 3 0 [1], .add 1 0 [], .advance 1, .expire 3]
    createdOf (run ops).2 2 = some (0, 3, 0, [1]) ∧ cbCount (run ops).2 2 = 0 ∧ cancelledIn (run ops).2 2 = false ∧
    (run ops).1.running = true ∧ (run ops).1.cur = none := by decide

/-! ### "again and again" as inevitability: every fair schedule -/

/-- An infinite schedule `σ : Nat → Op` (`runN σ n`: state and trace after its first `n`
steps, a finite history — `runN_eq_run`).  If `σ` is fair — the consumer receives in channel
order and keeps getting turns, a callback in progress keeps executing, time keeps passing —
and the timer `id` is steady in it — created with a period `p > 0`, never cancelled, its
manager never stopped, its expiry goroutine eventually gets a turn — then after EVERY point of
the schedule the callback of `id` is entered once more: it fires infinitely often.  No
assumption on what the other timers' callbacks do (they may panic, create, cancel others). -/
theorem repeating_fires_infinitely_often (σ : Nat → Op) (hf : Fair σ) (id n0 p : Nat)
    (h : Steady σ id n0 p) (n : Nat) :
    ∃ m, n < m ∧ cbCount (runN σ n).2 id < cbCount (runN σ m).2 id :=
  fires_infinitely_often hf h n

/-- "exactly once" as inevitability: in every fair schedule a one-shot timer that is never
cancelled, on a manager that is never stopped, has fired exactly once from some point on -/
theorem oneshot_fires_exactly_once_eventually (σ : Nat → Op) (hf : Fair σ) (id n0 : Nat)
    (h : Undisturbed σ id n0 0) : ∃ m, ∀ m', m ≤ m' → cbCount (runN σ m').2 id = 1 := by
  obtain ⟨m, hm, h1⟩ := fires_eventually hf h
  refine ⟨m, fun m' hm' => ?_⟩
  obtain ⟨t0, dl, a, hc⟩ := h.created
  have hc' := createdOf_runN_mono σ id (show n0 ≤ m' by omega) _ hc
  rw [runN_eq_run] at hc'
  have hle := oneshot_at_most_once _ id t0 dl a hc'
  rw [← runN_eq_run] at hle
  have := cbCount_runN_mono σ id hm'
  omega

/-- the prefixes of a schedule are the finite histories all other theorems speak about -/
theorem schedule_prefix_is_history (σ : Nat → Op) (n : Nat) : runN σ n = run ((List.range n).map σ) :=
  runN_eq_run σ n

/-- the hypotheses are satisfiable: `AddTimer(2)`, then for ever (time passes, the expiry
goroutine gets a turn, the consumer receives, the callback runs) is fair and its timer steady -/
example : Fair demoSched ∧ Steady demoSched 2 1 2 ∧ cbCount (runN demoSched 1).2 2 = 0 ∧
    cbCount (runN demoSched 12).2 2 = 1 := ⟨demoSched_fair, demo_steady, by decide, by decide⟩

/-- … and with `After(2)` first it is fair and its one-shot undisturbed -/
example : Fair demoOnce ∧ Undisturbed demoOnce 2 1 0 ∧ cbCount (runN demoOnce 12).2 2 = 1 :=
  ⟨demoOnce_fair, demoOnce_undisturbed, by decide⟩

/-! ### the `Stop` exception -/

/-- `Mgr.Stop` (also the first thing `StandardRunService.Stop` does) is permanent, and from then
on a timer whose object is neither queued nor running never has its callback entered again —
one-shot or repeating, in every continuation: the "exactly once" / "again and again" clauses
hold for running managers only (hypothesis `running = true` of the theorems above). -/
theorem nothing_new_after_stop (ops ops' : List Op) (id : Nat) (hr : (run ops).1.running = false)
    (hq : id ∉ (run ops).1.queue) (hc : (run ops).1.curId ≠ some id) :
    cbCount (run (ops ++ ops')).2 id = cbCount (run ops).2 id := by
  unfold run; rw [runFrom_append]
  exact silent_after_stop ⟨hr, hq, hc⟩ ops'

/-- what already sits in the queue at `Stop` is still delivered by a consumer that goes on -/
example : let ops := [Op.add 2 0 [], .add 3 0 [], .advance 2, .expire 2, .stop]
    (run ops).1.running = false ∧ 3 ∉ (run ops).1.queue ∧ (run ops).1.curId ≠ some 3 ∧
    cbCount (run (ops ++ [.advance 5, .expire 3, .doNext 0])).2 2 = 1 ∧
    cbCount (run (ops ++ [.advance 5, .expire 3, .doNext 0, .cbStep, .doNext 0])).2 3 = 0 := by decide

/-! ### `After/AddTimer` are two statements (`doLater`, then `timers.Store`) -/

/-- The model's `create` is atomic; in Go the expiry goroutine of a timer created with no delay
can run between `doLater` and `timers.Store` (the owner itself cannot do anything in between).
`create` is exactly "arm, then store", and letting the expiry goroutine run in the gap gives
the same state and events as letting it run right after the atomic `create`: with one owner
the atomic step loses no behaviour. -/
theorem create_gap_harmless (s : State) (d : Int) (r : Bool) (k : Nat) (a : List Nat) :
    (create s d r k a).1 = createStore (createArm s d r k a) (s.nextId + 1) ∧
    createStore (expire (createArm s d r k a) (s.nextId + 1)).1 (s.nextId + 1) = (expire (create s d r k a).1 (s.nextId + 1)).1 ∧
    (expire (createArm s d r k a) (s.nextId + 1)).2 = (expire (create s d r k a).1 (s.nextId + 1)).2 :=
  ⟨create_eq_arm_store s d r k a, (create_store_expire_commute s d r k a).1, (create_store_expire_commute s d r k a).2⟩

/-- … but only with one owner.  A creator on a FOREIGN goroutine (not the consumer): between its
`doLater` and its `timers.Store` the expiry goroutine, the consumer's `Do`, the callback and
`Do`'s `timers.Delete` can all happen; the late `Store` then leaves a finished one-shot in
`Mgr.timers` for ever (`inMap` although it is neither armed, queued nor running — a state no
single-owner history reaches: `WF.gone`).  No clause of the property is violated (the callback
ran exactly once), the entry leaks.  Reproduced on the real code: harness/c14/foreign_creator_test.go. -/
theorem foreign_creator_leaks_entry :
    let s0 := createArm init 0 false 0 []
    let r := runFrom s0 [] [.expire 2, .doNext 0, .cbStep]
    let s2 := createStore r.1 2
    cbCount r.2 2 = 1 ∧ (s2.tm 2).inMap = true ∧ (s2.tm 2).armed = false ∧ 2 ∉ s2.queue ∧ s2.cur = none ∧
    (s2.tm 2).period = 0 ∧ (s2.tm 2).cancelled = false := by decide

/-! ### the expiry closure of `doLater` is three statements of another goroutine -/

/-- `expire` (one atomic step of the model) is "read `Canceled`, read `running`, then send".  In
Go the send may come arbitrarily later (the goroutine sits blocked on the full 999-slot
channel) and the owner goes on meanwhile.  For EVERY stretch `ops` of owner-side steps between
the checks and the send — `Cancel` of that very timer or of others, `Stop`, creations, actions
and ends of callbacks, time passing — the state and the events are those of the history in which
the atomic `expire` happened first and the same steps afterwards.  So the interleavings
"checked not-cancelled → Cancel → push" and "checked running → Stop → push" are histories
of atomic steps, the ones every theorem of this file quantifies over. -/
theorem expire_gap_harmless (s : State) (id : Nat) (tr : List Event) (ops : List Op)
    (hown : ∀ op ∈ ops, op.ownerSide = true) :
    ((expireCheck s id).2 = true →
      expire s id = (expireSend (expireCheck s id).1 id, []) ∧
      (expireSend (runFrom (expireCheck s id).1 tr ops).1 id, (runFrom (expireCheck s id).1 tr ops).2)
        = runFrom (expire s id).1 tr ops) ∧
    ((expireCheck s id).2 = false → expire s id = ((expireCheck s id).1, [])) := by
  constructor
  · intro hp
    have h1 : expire s id = (expireSend (expireCheck s id).1 id, []) := by
      rw [expire_eq_check_send]; simp [hp]
    refine ⟨h1, ?_⟩
    rw [h1]
    exact (send_commutes_run (expireCheck s id).1 id tr ops hown).symm
  · intro hp; rw [expire_eq_check_send]; simp [hp]

/-- the same for a receive that happens in the gap (the consumer takes an element that was
already in the channel), and for the expiry goroutine of another timer running between the
checks: the checks commute with it (which of the two objects is queued first is decided by
the sends alone — the order of simultaneous expiries the acceptance run reads off the code) -/
theorem expire_gap_receive_and_other_expiry (s : State) (id : Nat) :
    (∀ i, i < s.queue.length →
      step (expireSend s id) (.doNext i) = (expireSend (step s (.doNext i)).1 id, (step s (.doNext i)).2)) ∧
    (∀ y, y ≠ id → (expireCheck (expire s y).1 id).1 = (expire (expireCheck s id).1 y).1 ∧
      (expireCheck (expire s y).1 id).2 = (expireCheck s id).2) :=
  ⟨fun i hi => send_commutes_recv s id i hi, fun y hy => check_commutes_other_expiry s id y hy⟩

/-- the gap is real: the checks pass, the owner cancels, the send still happens — the object
sits in the queue, cancelled, and `Do` skips it (no callback after the cancel) -/
example : let s := (run [.add 2 0 [], .advance 2]).1
    let s1 := (expireCheck s 2).1
    let r := runFrom s1 [] [.cancel 2]
    (expireCheck s 2).2 = true ∧ Op.ownerSide (.cancel 2) = true ∧ (expireSend r.1 2).queue = [2] ∧ r.2 = [Event.cancel 2 2] ∧
    (runFrom (expireSend r.1 2) r.2 [.doNext 0]).2 = [Event.cancel 2 2] ∧
    (expireCheck (run [.add 2 0 [], .advance 2, .cancel 2]).1 2).2 = false := by decide

/-! ### never early, with the arguments given at creation -/

/-- Whenever a callback of `id` is entered at time `t` with arguments `a`: the timer was created
before, with exactly these arguments; the first firing is no earlier than creation time +
requested delay; every later firing is no earlier than the previous firing + the period. -/
theorem never_early (ops : List Op) (pre post : List Event) (id t : Nat) (a : List Nat)
    (h : (run ops).2 = pre ++ Event.cb id t a :: post) :
    ∃ t0 dl p, createdOf pre id = some (t0, dl, p, a) ∧ (lastCb pre id = none → t0 + dl ≤ t) ∧
      (∀ t1, lastCb pre id = some t1 → t1 + p ≤ t) :=
  (inv_run ops).good.cbJustified pre post id t a h

theorem args_preserved (ops : List Op) (pre post : List Event) (id t : Nat) (a : List Nat)
    (h : (run ops).2 = pre ++ Event.cb id t a :: post) :
    ∃ t0 dl p, createdOf pre id = some (t0, dl, p, a) := by
  obtain ⟨t0, dl, p, h1, _⟩ := never_early ops pre post id t a h
  exact ⟨t0, dl, p, h1⟩

/-- what `created` records is what was asked: `After(d)` → delay `d`, no period;
`AddTimer(d)` → delay `d`, period `d` (a non-positive `d` counts as 0: immediate, one-shot) -/
theorem created_reflects_request (s : State) (d : Int) (k : Nat) (a : List Nat) (h : s.cur = none) :
    (step s (.after d k a)).2 = [Event.created (s.nextId + 1) s.now d.toNat 0 a] ∧
    (step s (.add d k a)).2 = [Event.created (s.nextId + 1) s.now d.toNat d.toNat a] := by
  simp [step, h, create]

example : let ops := [Op.add 2 0 [4], .advance 2, .expire 2, .doNext 0, .cbStep, .advance 3, .expire 2, .doNext 0]
    (run ops).2 = [Event.created 2 0 2 2 [4], .cb 2 2 [4], .rearm 2 2 2] ++ Event.cb 2 5 [4] :: [] := by decide

/-! ### callbacks only from `Do`, on whoever drains the queue -/

/-- A callback is entered only by the consumer step `doNext` (receive from the queue + `Do`),
only for the very object taken from the queue, only if that object is not cancelled, and
only when no other callback is running.  The expiry goroutine, `After/AddTimer/Cancel/Stop`
and the passing of time never run user code. -/
theorem callbacks_only_from_do (s : State) (op : Op) (id t : Nat) (a : List Nat)
    (h : Event.cb id t a ∈ (step s op).2) :
    ∃ i, op = .doNext i ∧ s.cur = none ∧ s.queue[i]? = some id ∧ (s.tm id).cancelled = false ∧
      t = s.now ∧ a = (s.tm id).args :=
  cb_of_step h

/-- each primitive step produces at most one event (so: one callback per `Do`) -/
theorem one_event_per_step (s : State) (op : Op) : (step s op).2 = [] ∨ ∃ e, (step s op).2 = [e] :=
  step_events_le_one s op

example : Event.cb 2 3 [1] ∈ (step (run [Op.after 3 0 [1], .advance 3, .expire 2]).1 (.doNext 0)).2 := by decide

/-! ### a panicking callback changes nothing else -/

/-- A panic inside a callback only ends that callback: the state is the one in which the
script simply stopped there — no other timer is touched — and the next thing `Do` does is
its normal tail (`finish`: re-check `Canceled`, re-arm or forget).  None of the theorems
above assumes the absence of panics. -/
theorem panic_isolated (s : State) (id : Nat) (rest : List Act) (h : s.cur = some (id, Act.panic :: rest)) :
    step s .cbStep = (s.setCur (some (id, [])), [Event.panic id]) ∧
    step (s.setCur (some (id, []))) .cbStep = finish (s.setCur none) id := by
  constructor
  · simp [step, cbStep, h]
  · simp [step, cbStep, State.setCur]

/-- hence: the history continues exactly as if the script had ended where it panicked -/
theorem panic_same_future (s : State) (tr : List Event) (id : Nat) (rest : List Act)
    (h : s.cur = some (id, Act.panic :: rest)) (ops : List Op) :
    runFrom s tr (.cbStep :: ops) = runFrom (s.setCur (some (id, []))) (tr ++ [Event.panic id]) ops := by
  simp [runFrom, (panic_isolated s id rest h).1]

example : let ops := [Op.defScript 1 [.panic, .cancelSelf], .add 2 1 [], .advance 2, .expire 2, .doNext 0, .cbStep, .cbStep]
    (run ops).2 = [Event.created 2 0 2 2 [], .cb 2 2 [], .panic 2, .rearm 2 2 2] ∧ ((run ops).1.tm 2).armed = true := by
  decide

/-- what the panic clause says, over the two steps "panic, tail of `Do`", for every state and
every rest of the script: no other timer object, not the queue, the clock, the id allocator or
the `running` flag is touched; a repeating timer that was not cancelled is re-armed for
`now + period` exactly as after a normal return, a one-shot is forgotten.  (In the model the
value thrown plays no role: Go's `recover()` takes every value and the handler of `Mgr.do` only
prints it; the acceptance run lets callbacks panic with a string, an error value, a runtime
error and a struct value.) -/
theorem panic_leaves_rest_alone (s : State) (id : Nat) (rest : List Act) (h : s.cur = some (id, Act.panic :: rest)) :
    let r := runFrom s [] [.cbStep, .cbStep]
    r.1.cur = none ∧ r.1.queue = s.queue ∧ r.1.running = s.running ∧ r.1.now = s.now ∧ r.1.nextId = s.nextId ∧
    (∀ j, j ≠ id → r.1.tm j = s.tm j) ∧
    ((s.tm id).cancelled = false → 0 < (s.tm id).period →
      (r.1.tm id).armed = true ∧ (r.1.tm id).exp = s.now + (s.tm id).period ∧
      r.2 = [Event.panic id, Event.rearm id s.now (s.tm id).period]) ∧
    ((s.tm id).cancelled = false → (s.tm id).period = 0 → (r.1.tm id).inMap = false ∧ r.2 = [Event.panic id]) ∧
    ((s.tm id).cancelled = true → r.1.tm id = s.tm id ∧ r.2 = [Event.panic id]) := by
  simp only [runFrom, step, cbStep, h, State.setCur, finish]
  cases hc : (s.tm id).cancelled
  · by_cases hp : 0 < (s.tm id).period
    · have hp' : (s.tm id).period ≠ 0 := by omega
      simp [hp, hp', State.setTm, upd]
      intro j hj; simp [hj]
    · have hp' : (s.tm id).period = 0 := by omega
      simp [hp', State.setTm, upd]
      intro j hj; simp [hj]
  · simp

/-! ### sensitivity: the `Canceled` test at the head of `Do` is what the first theorem rests on -/

/-- `Do` without its first `if t.Canceled { return }` -/
def doNextNoCheck (s : State) (i : Nat) : State × List Event :=
  if s.cur.isSome then (s, []) else
  match s.queue[i]? with
  | none => (s, [])
  | some id => ((s.pop i).setCur (some (id, s.scripts (s.tm id).script)), [.cb id s.now (s.tm id).args])

/-- cancel while the expiry is queued, then drain: with that variant the callback runs after the cancel -/
theorem head_check_needed :
    let s := (run [.add 5 0 [7], .advance 5, .expire 2, .cancel 2]).1
    (run [.add 5 0 [7], .advance 5, .expire 2, .cancel 2]).2 = [Event.created 2 0 5 5 [7], .cancel 2 5] ∧
    (doNextNoCheck s 0).2 = [Event.cb 2 5 [7]] ∧ (doNext s 0).2 = [] := by decide

/-! ### service level: `Service.tryStartCheckTimer / checkExpired / freeTimer`

`svcRun sops` is the service model (`Model/TimerSvc.lean`) after an arbitrary history of
requests issued, responses arriving, time passing, expiry goroutines and loop receives. -/

section svc
open Cell2v.TimerSvc

/-- A service history is a history of the timer manager model: same manager state, same event
trace.  Every theorem above therefore holds for the manager of a service, for the callback
`checkExpired` (whose `freeTimer` is a `Cancel` from inside the timer's own callback). -/
theorem svc_refines_timer (sops : List SOp) :
    ∃ ops, (run ops).1 = (svcRun sops).1.t ∧ (run ops).2 = (svcRun sops).2 :=
  svc_refines sops

/-- the manager of a service never holds a timer other than the one the service believes it
owns (`timerCheckExpired`): no check timer leaks, whatever the sequence of busy and idle periods -/
theorem svc_holds_only_owned_timer (sops : List SOp) (id : Nat)
    (h : ((svcRun sops).1.t.tm id).inMap = true) : id = (svcRun sops).1.own ∧ (svcRun sops).1.own ≠ 0 :=
  (sinv_run sops).1.only id h

/-- an outstanding request always has its check timer: owned, held by the manager, repeating
with the 1 s period, not cancelled, and waiting for its runtime timer or queued for the loop —
so (by `repeating_fires_again_fifo` / `fifo_bounded_wait`) the request will be looked at -/
theorem svc_request_keeps_check_timer (sops : List SOp) (hp : (svcRun sops).1.pending ≠ []) :
    (svcRun sops).1.own ≠ 0 ∧ ((svcRun sops).1.t.tm (svcRun sops).1.own).inMap = true ∧
    ((svcRun sops).1.t.tm (svcRun sops).1.own).period = checkPeriod ∧
    ((svcRun sops).1.t.tm (svcRun sops).1.own).cancelled = false ∧
    (((svcRun sops).1.t.tm (svcRun sops).1.own).armed = true ∨ (svcRun sops).1.own ∈ (svcRun sops).1.t.queue) := by
  obtain ⟨hs, hi⟩ := sinv_run sops
  have hn0 := hs.busy hp
  obtain ⟨om, op, oc, ol, _⟩ := hs.owned hn0
  refine ⟨hn0, om, op, oc, ?_⟩
  rcases (hi.hist _).alive ol oc hs.running with h1 | h1 | h1 | h1
  · exact Or.inl h1
  · exact Or.inr h1
  · simp [State.curId, hs.idle] at h1
  · rw [op] at h1; simp [checkPeriod] at h1

/-- the idle tick: the request table is empty and the loop receives the owned timer —
`checkExpired` frees it: cancelled from inside its own callback, forgotten by the service,
and the manager holds nothing any more -/
theorem svc_idle_tick_frees (sops : List SOp) (tl : List Nat) (hp : (svcRun sops).1.pending = [])
    (hn0 : (svcRun sops).1.own ≠ 0) (hq : (svcRun sops).1.t.queue = (svcRun sops).1.own :: tl) :
    (svcStep (svcRun sops).1 .tick).1.own = 0 ∧
    (∀ id, ((svcStep (svcRun sops).1 .tick).1.t.tm id).inMap = false) ∧
    (svcStep (svcRun sops).1 .tick).2 =
      [Event.cb (svcRun sops).1.own (svcRun sops).1.t.now ((svcRun sops).1.t.tm (svcRun sops).1.own).args,
       Event.cancel (svcRun sops).1.own (svcRun sops).1.t.now] := by
  obtain ⟨hs, hi⟩ := sinv_run sops
  obtain ⟨om, op, oc, ol, os⟩ := hs.owned hn0
  have hpe : (svcRun sops).1.pending.isEmpty = true := by simp [hp]
  have he : entered (svcRun sops).1 = true := by simp [entered, hq, oc, hs.idle]
  have hs' := sinv_step hs hi.wf .tick
  have hown : (svcStep (svcRun sops).1 .tick).1.own = 0 := by
    simp only [svcStep, he, hpe, if_true]
  refine ⟨hown, ?_, ?_⟩
  · intro id
    cases hm : ((svcStep (svcRun sops).1 .tick).1.t.tm id).inMap with
    | false => rfl
    | true => exact absurd hown (hs'.only id hm).2
  · simp only [svcStep, he, hpe, if_true, tick_free hs.idle hq oc os om ol hpe]

/-- a check timer the service gave up never fires again -/
theorem svc_freed_timer_never_fires (sops : List SOp) (pre post : List Event) (id t : Nat)
    (h : (svcRun sops).2 = pre ++ Event.cancel id t :: post) : ∀ t' a, Event.cb id t' a ∉ post :=
  (sinv_run sops).2.good.noCbAfterCancel pre post id t h

/-- user code inside `checkExpired`: no tick of a service ever creates a timer.  Its events are
nothing at all, or the owned timer's callback followed by its cancellation (idle) or by its
re-arming (busy) — also when completion callbacks of timed-out requests issue follow-up
requests from inside the callback (`tryStartCheckTimer` finds the timer it is running in). -/
theorem svc_tick_creates_no_timer (sops : List SOp) :
    ∀ e ∈ (svcStep (svcRun sops).1 .tick).2, ∀ i t dl p a, e ≠ Event.created i t dl p a := by
  obtain ⟨hs, hi⟩ := sinv_run sops
  intro e he i t dl p a heq
  subst heq
  rcases tick_events hs hi.wf with h | h | h <;> rw [h] at he <;> simp at he

/-- the retry idiom: a request that times out and whose completion callback issues a follow-up
request.  At the busy tick that finds it expired the entry is dropped, the follow-up is in the
table (so, by `svc_request_keeps_check_timer`, it has its check timer), and that timer is the
one already owned: re-armed by `Do` for one second later, nothing new armed. -/
theorem svc_followup_request_is_covered (sops : List SOp) (k dl : Nat)
    (hk : (k, dl) ∈ (svcRun sops).1.pending) (hdl : dl < (svcRun sops).1.t.now)
    (hag : k ∈ (svcRun sops).1.again) (he : entered (svcRun sops).1 = true) :
    (k + followOffset, (svcRun sops).1.t.now + reqTimeout) ∈ (svcStep (svcRun sops).1 .tick).1.pending ∧
    (k, dl) ∉ (svcStep (svcRun sops).1 .tick).1.pending ∧
    (svcStep (svcRun sops).1 .tick).1.own = (svcRun sops).1.own ∧ (svcRun sops).1.own ≠ 0 ∧
    ((svcStep (svcRun sops).1 .tick).1.t.tm (svcRun sops).1.own).armed = true ∧
    ((svcStep (svcRun sops).1 .tick).1.t.tm (svcRun sops).1.own).exp = (svcRun sops).1.t.now + checkPeriod := by
  obtain ⟨hs, hi⟩ := sinv_run sops
  have hp : (svcRun sops).1.pending.isEmpty = false := by
    cases hpe : (svcRun sops).1.pending with
    | nil => rw [hpe] at hk; cases hk
    | cons x xs => rfl
  obtain ⟨h1, h2, h3, _, h5, h6⟩ := tick_busy hs hi.wf he hp
  refine ⟨?_, ?_, h1, h2, h5, h6⟩
  · rw [h3]
    apply List.mem_append_right
    simp only [followUps, expiredAt, List.mem_map, List.mem_filter]
    exact ⟨(k, dl), ⟨⟨hk, by simpa using hdl⟩, by simpa using hag⟩, rfl⟩
  · rw [h3]
    simp only [List.mem_append, List.mem_filter, followUps, expiredAt, List.mem_map, not_or]
    constructor
    · intro ⟨_, hx⟩; simp at hx; omega
    · rintro ⟨⟨k', dl'⟩, ⟨⟨hm, hx⟩, _⟩, heq⟩
      simp only [Prod.mk.injEq] at heq
      -- the follow-up's deadline is in the future, `dl` is in the past
      have : reqTimeout = 30000 := rfl
      omega

/-- "again and again", at the service level, with a bound: while a request is outstanding the runtime
timer of the owned check timer is never set for an instant more than one period (1 s) ahead — `exp` is
written by `AddTimer` and by the tail of `Do` only, both `now + 1 s`, and time only moves forward — so
once a full period has passed and the expiry goroutine has had its turn the timer's object sits in the
queue of the loop, whatever the history before (it is this bound the spec monitor evaluates on the real
service: a request outstanding, a second passes, no tick ⇒ `C14/check-timer-stopped`). -/
theorem svc_check_timer_due_within_period (sops : List SOp) (hp : (svcRun sops).1.pending ≠ []) :
    ((svcRun sops).1.t.tm (svcRun sops).1.own).exp ≤ (svcRun sops).1.t.now + checkPeriod ∧
    (svcRun sops).1.own ∈
      (svcRunFrom (svcRun sops).1 [] [.advance checkPeriod, .expire (svcRun sops).1.own]).1.t.queue := by
  obtain ⟨hn0, _, _, oc, hor⟩ := svc_request_keeps_check_timer sops hp
  have hdue := due_run sops hn0
  obtain ⟨hs, _⟩ := sinv_run sops
  refine ⟨hdue, ?_⟩
  generalize (svcRun sops).1 = v at *
  simp only [svcRunFrom, svcStep, opsOf, runFrom, step]
  unfold expire
  rcases hor with ha | hq
  · have hd' : (v.t.tm v.own).exp ≤ v.t.now + checkPeriod := hdue
    simp [State.tick, ha, hd', oc, hs.running, State.push, State.setTm]
  · split
    · split
      · simp_all [State.tick]
      · split
        · simp_all [State.tick]
        · simp [State.tick, State.push, State.setTm]
    · simpa [State.tick] using hq

/-- non-vacuity, and the bound is reached: right after the request the timer is exactly one period away -/
example : (svcRun [SOp.req 1]).1.pending ≠ [] ∧
    ((svcRun [SOp.req 1]).1.t.tm 2).exp = (svcRun [SOp.req 1]).1.t.now + checkPeriod ∧
    (svcRunFrom (svcRun [SOp.req 1]).1 [] [.advance checkPeriod, .expire 2]).1.t.queue = [2] := by decide

/-- a request with a retrying callback times out at +30 s: the tick after the deadline replaces
it by the follow-up `1001`, the service goes on owning timer 2 -/
example : let sops := [SOp.reqAgain 1, .advance 30001, .expire 2]
    (1, 30000) ∈ (svcRun sops).1.pending ∧ 1 ∈ (svcRun sops).1.again ∧ entered (svcRun sops).1 = true ∧
    (svcStep (svcRun sops).1 .tick).1.pending = [(1001, 60001)] ∧ (svcStep (svcRun sops).1 .tick).1.own = 2 := by decide

/-- request, answer, one second later the tick finds the table empty: timer 2 freed; the next
request arms timer 3 -/
example : let sops := [SOp.req 1, .resp 1, .advance 1000, .expire 2, .tick]
    (svcRun [SOp.req 1]).1.own = 2 ∧ (svcRun [SOp.req 1]).1.pending ≠ [] ∧
    (svcRun [SOp.req 1, .resp 1, .advance 1000, .expire 2]).1.t.queue = [2] ∧
    (svcRun sops).1.own = 0 ∧ (svcRun sops).2 = [Event.created 2 0 1000 1000 [], .cb 2 1000 [], .cancel 2 1000] ∧
    (svcRun (sops ++ [.req 2])).1.own = 3 := by decide

end svc

/-! ### sensitivity: "the owner cancels" — a `Cancel` from a foreign goroutine is not covered -/

/-- `Do` as a goroutine other than the consumer sees it: the `Canceled` test at its head … -/
def doHead (s : State) (i : Nat) : Option Nat :=
  match s.queue[i]? with
  | some id => if (s.tm id).cancelled then none else some id
  | none => none

/-- … and the entry into the callback are two steps -/
def doEnter (s : State) (i id : Nat) : State × List Event :=
  ((s.pop i).setCur (some (id, s.scripts (s.tm id).script)), [.cb id s.now (s.tm id).args])

/-- the model's `doNext` is exactly these two steps with nothing in between (one owner) -/
theorem doNext_is_head_then_enter (s : State) (i id : Nat) (hc : s.cur = none) (h : doHead s i = some id) :
    doNext s i = doEnter s i id := by
  unfold doHead at h
  split at h
  next x hx =>
    split at h
    · cases h
    next hcc => cases h; simp [doNext, hc, hx, hcc, doEnter]
  · cases h

/-- if another goroutine's `Cancel` lands in between, the callback is entered after `Cancel`
returned: the single-owner assumption is needed, the theorems above do not cover that use -/
theorem owner_assumption_needed :
    let s := (run [.add 5 0 [7], .advance 5, .expire 2]).1
    doHead s 0 = some 2 ∧ (cancelTm s 2).2 = [Event.cancel 2 5] ∧
    (doEnter (cancelTm s 2).1 0 2).2 = [Event.cb 2 5 [7]] := by decide

end Cell2v.Props.C14
