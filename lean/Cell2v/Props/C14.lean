import Cell2v.Lemmas.Timer
/-!
C14 — timers fire on the owner, never early, as often as asked, never after cancel.

All statements are about `run ops`, the state and the chronological event trace
after an *arbitrary* history `ops : List Op` of primitive steps from the initial
manager (any number of timers, any durations, any interleaving of creation,
cancellation, passing of time, expiry goroutines, consumer receives, single
callback actions — including cancel from inside the own callback, cancel while
the expiry is queued, panics, creation of timers inside callbacks, `Stop`).
`expire id` is the `time.AfterFunc` goroutine: enabled only when `now ≥ exp`.
-/
namespace Cell2v.Props.C14
open Cell2v.Timer

/-! ### never after cancel -/

/-- Once `Cancel(id)` was called for an existing timer — from the owner between
callbacks or from inside any callback (its own included), before the expiry,
while the expiry sits in the queue, or during the callback — no callback of `id`
is entered any more, whatever happens afterwards. -/
theorem no_callback_after_cancel (ops : List Op) (pre post : List Event) (id t : Nat)
    (h : (run ops).2 = pre ++ Event.cancel id t :: post) : ∀ t' a, Event.cb id t' a ∉ post :=
  (inv_run ops).good.noCbAfterCancel pre post id t h

/-- the `cancel` event is not optional: every `Cancel` of an existing timer records it
(owner between callbacks; the three script forms inside a callback) -/
theorem cancel_is_recorded (s : State) (id : Nat) (hl : (s.tm id).live = true) :
    (s.cur = none → (step s (.cancel id)).2 = [Event.cancel id s.now]) ∧
    (∀ c rest, s.cur = some (c, Act.cancel id :: rest) → (step s .cbStep).2 = [Event.cancel id s.now]) ∧
    (∀ rest, s.cur = some (id, Act.cancelSelf :: rest) → (step s .cbStep).2 = [Event.cancel id s.now]) ∧
    (∀ c rest, s.nextId = id → s.cur = some (c, Act.cancelNewest :: rest) → (step s .cbStep).2 = [Event.cancel id s.now]) := by
  refine ⟨?_, ?_, ?_, ?_⟩
  · intro h; simp [step, h, cancelTm, hl]
  · intro c rest h; simp [step, cbStep, h, cancelTm, hl]
  · intro rest h; simp [step, cbStep, h, cancelTm, hl]
  · intro c rest hn h; subst hn; simp [step, cbStep, h, cancelTm, hl]

/-- cancel while the expiry is already queued, then drain: the trace has the shape the theorem speaks about -/
example : ∃ pre post, (run [.add 5 0 [7], .advance 5, .expire 2, .cancel 2, .doNext 0, .advance 9]).2
    = pre ++ Event.cancel 2 5 :: post ∧ (run [.add 5 0 [7], .advance 5, .expire 2]).1.queue = [2] :=
  ⟨[Event.created 2 0 5 5 [7]], [], by decide, by decide⟩

/-! ### one-shot: at most once, exactly once when drained -/

/-- A timer created by `After` (or by `AddTimer` with a non-positive duration) — i.e. created
with period 0 — has its callback entered at most once in any history. -/
theorem oneshot_at_most_once (ops : List Op) (id t0 dl : Nat) (a : List Nat)
    (h : createdOf (run ops).2 id = some (t0, dl, 0, a)) : cbCount (run ops).2 id ≤ 1 := by
  have I := inv_run ops
  have hx := I.hist id
  cases hl : ((run ops).1.tm id).live with
  | false => rw [(hx.createdDead hl).1] at h; cases h
  | true =>
    obtain ⟨t0', dl', hc⟩ := hx.createdLive hl
    rw [hc] at h; simp at h
    exact (hx.once h.2.2.1).1

/-- … and exactly once, if it was never cancelled, the manager was not stopped, its
runtime timer has gone off (`time.AfterFunc` runs the function once the duration has
elapsed) and the owner has taken it out of the queue.  No assumption about panics. -/
theorem oneshot_exactly_once_if_drained (ops : List Op) (id t0 dl : Nat) (a : List Nat)
    (h : createdOf (run ops).2 id = some (t0, dl, 0, a))
    (hnc : cancelledIn (run ops).2 id = false) (hr : (run ops).1.running = true)
    (hfired : ((run ops).1.tm id).armed = false) (hdrained : id ∉ (run ops).1.queue) :
    cbCount (run ops).2 id = 1 := by
  have I := inv_run ops
  have hx := I.hist id
  have hle := oneshot_at_most_once ops id t0 dl a h
  cases hl : ((run ops).1.tm id).live with
  | false => rw [(hx.createdDead hl).1] at h; cases h
  | true =>
    have hcc : ((run ops).1.tm id).cancelled = false := by
      cases hc : ((run ops).1.tm id).cancelled with
      | false => rfl
      | true => have := hx.cancelComplete hc; simp_all
    rcases hx.alive hl hcc hr with h1 | h1 | h1 | h1
    · simp_all
    · exact absurd h1 hdrained
    · have := hx.curCount h1; omega
    · omega

example : let ops := [Op.after 3 0 [1], .advance 3, .expire 2, .doNext 0, .cbStep]
    createdOf (run ops).2 2 = some (0, 3, 0, [1]) ∧ cancelledIn (run ops).2 2 = false ∧
    (run ops).1.running = true ∧ ((run ops).1.tm 2).armed = false ∧ 2 ∉ (run ops).1.queue ∧
    cbCount (run ops).2 2 = 1 := by decide

/-! ### repeating: re-armed after every firing -/

/-- A repeating timer (`AddTimer` with a positive duration) that was never cancelled, on a
manager that was not stopped, is always either waiting for its runtime timer, or queued for
the owner, or running its callback: it can never get lost, whatever its callbacks do
(panic included). -/
theorem repeating_rearms (ops : List Op) (id t0 dl p : Nat) (a : List Nat)
    (h : createdOf (run ops).2 id = some (t0, dl, p, a)) (hp : 0 < p)
    (hnc : cancelledIn (run ops).2 id = false) (hr : (run ops).1.running = true) :
    ((run ops).1.tm id).armed = true ∨ id ∈ (run ops).1.queue ∨ (run ops).1.curId = some id := by
  have I := inv_run ops
  have hx := I.hist id
  cases hl : ((run ops).1.tm id).live with
  | false => rw [(hx.createdDead hl).1] at h; cases h
  | true =>
    obtain ⟨t0', dl', hc⟩ := hx.createdLive hl
    rw [hc] at h; simp at h
    have hcc : ((run ops).1.tm id).cancelled = false := by
      cases hc : ((run ops).1.tm id).cancelled with
      | false => rfl
      | true => have := hx.cancelComplete hc; simp_all
    rcases hx.alive hl hcc hr with h1 | h1 | h1 | h1
    · exact Or.inl h1
    · exact Or.inr (Or.inl h1)
    · exact Or.inr (Or.inr h1)
    · omega

/-- the re-arming itself: when the callback of a repeating, not cancelled timer is over,
`Do` arms it again for `now + period` -/
theorem rearm_step (s : State) (id : Nat) (hc : s.cur = some (id, [])) (hnc : (s.tm id).cancelled = false)
    (hp : 0 < (s.tm id).period) :
    (step s .cbStep).2 = [Event.rearm id s.now (s.tm id).period] ∧
    ((step s .cbStep).1.tm id).armed = true ∧ ((step s .cbStep).1.tm id).exp = s.now + (s.tm id).period := by
  simp [step, cbStep, hc, finish, hnc, hp]

/-- "again and again": whenever no callback is in progress, a repeating, never cancelled timer
on a running manager can be brought to fire once more just by waiting and draining (and by
`repeating_rearms` it is then armed/queued/running again, so this can be repeated forever) -/
theorem repeating_fires_again (ops : List Op) (id t0 dl p : Nat) (a : List Nat)
    (h : createdOf (run ops).2 id = some (t0, dl, p, a)) (hp : 0 < p)
    (hnc : cancelledIn (run ops).2 id = false) (hr : (run ops).1.running = true) (hcur : (run ops).1.cur = none) :
    ∃ ops', cbCount (run (ops ++ ops')).2 id = cbCount (run ops).2 id + 1 := by
  have I := inv_run ops
  have hcc : ((run ops).1.tm id).cancelled = false := by
    cases hc : ((run ops).1.tm id).cancelled with
    | false => rfl
    | true => have := (I.hist id).cancelComplete hc; simp_all
  rcases repeating_rearms ops id t0 dl p a h hp hnc hr with h1 | h1 | h1
  · exact ⟨_, by unfold run; rw [runFrom_append]; exact can_fire_armed I.wf id h1 hr hcur⟩
  · exact ⟨_, by unfold run; rw [runFrom_append]; exact can_fire_queued id h1 hcc hcur⟩
  · simp [State.curId, hcur] at h1

example : let ops := [Op.add 2 0 [], .advance 2, .expire 2, .doNext 0, .cbStep, .advance 2, .expire 2, .doNext 0, .cbStep]
    createdOf (run ops).2 2 = some (0, 2, 2, []) ∧ cancelledIn (run ops).2 2 = false ∧
    ((run ops).1.tm 2).armed = true ∧ cbCount (run ops).2 2 = 2 := by decide

/-! ### never early, with the arguments given at creation -/

/-- Whenever a callback of `id` is entered at time `t` with arguments `a`: the timer was created
before, with exactly these arguments; the first firing is no earlier than creation time +
requested delay; every later firing is no earlier than the previous firing + the period. -/
theorem never_early (ops : List Op) (pre post : List Event) (id t : Nat) (a : List Nat)
    (h : (run ops).2 = pre ++ Event.cb id t a :: post) :
    ∃ t0 dl p, createdOf pre id = some (t0, dl, p, a) ∧ (lastCb pre id = none → t0 + dl ≤ t) ∧
      (∀ t1, lastCb pre id = some t1 → t1 + p ≤ t) :=
  (inv_run ops).good.cbJustified pre post id t a h

theorem args_preserved (ops : List Op) (pre post : List Event) (id t : Nat) (a : List Nat)
    (h : (run ops).2 = pre ++ Event.cb id t a :: post) :
    ∃ t0 dl p, createdOf pre id = some (t0, dl, p, a) := by
  obtain ⟨t0, dl, p, h1, _⟩ := never_early ops pre post id t a h
  exact ⟨t0, dl, p, h1⟩

/-- what `created` records is what was asked: `After(d)` → delay `d`, no period;
`AddTimer(d)` → delay `d`, period `d` (a non-positive `d` counts as 0: immediate, one-shot) -/
theorem created_reflects_request (s : State) (d : Int) (k : Nat) (a : List Nat) (h : s.cur = none) :
    (step s (.after d k a)).2 = [Event.created (s.nextId + 1) s.now d.toNat 0 a] ∧
    (step s (.add d k a)).2 = [Event.created (s.nextId + 1) s.now d.toNat d.toNat a] := by
  simp [step, h, create]

example : let ops := [Op.add 2 0 [4], .advance 2, .expire 2, .doNext 0, .cbStep, .advance 3, .expire 2, .doNext 0]
    (run ops).2 = [Event.created 2 0 2 2 [4], .cb 2 2 [4], .rearm 2 2 2] ++ Event.cb 2 5 [4] :: [] := by decide

/-! ### callbacks only from `Do`, on whoever drains the queue -/

/-- A callback is entered only by the consumer step `doNext` (receive from the queue + `Do`),
only for the very object taken from the queue, only if that object is not cancelled, and
only when no other callback is running.  The expiry goroutine, `After/AddTimer/Cancel/Stop`
and the passing of time never run user code. -/
theorem callbacks_only_from_do (s : State) (op : Op) (id t : Nat) (a : List Nat)
    (h : Event.cb id t a ∈ (step s op).2) :
    ∃ i, op = .doNext i ∧ s.cur = none ∧ s.queue[i]? = some id ∧ (s.tm id).cancelled = false ∧
      t = s.now ∧ a = (s.tm id).args :=
  cb_of_step h

/-- each primitive step produces at most one event (so: one callback per `Do`) -/
theorem one_event_per_step (s : State) (op : Op) : (step s op).2 = [] ∨ ∃ e, (step s op).2 = [e] :=
  step_events_le_one s op

example : Event.cb 2 3 [1] ∈ (step (run [Op.after 3 0 [1], .advance 3, .expire 2]).1 (.doNext 0)).2 := by decide

/-! ### a panicking callback changes nothing else -/

/-- A panic inside a callback only ends that callback: the state is the one in which the
script simply stopped there — no other timer is touched — and the next thing `Do` does is
its normal tail (`finish`: re-check `Canceled`, re-arm or forget).  None of the theorems
above assumes the absence of panics. -/
theorem panic_isolated (s : State) (id : Nat) (rest : List Act) (h : s.cur = some (id, Act.panic :: rest)) :
    step s .cbStep = (s.setCur (some (id, [])), [Event.panic id]) ∧
    step (s.setCur (some (id, []))) .cbStep = finish (s.setCur none) id := by
  constructor
  · simp [step, cbStep, h]
  · simp [step, cbStep, State.setCur]

/-- hence: the history continues exactly as if the script had ended where it panicked -/
theorem panic_same_future (s : State) (tr : List Event) (id : Nat) (rest : List Act)
    (h : s.cur = some (id, Act.panic :: rest)) (ops : List Op) :
    runFrom s tr (.cbStep :: ops) = runFrom (s.setCur (some (id, []))) (tr ++ [Event.panic id]) ops := by
  simp [runFrom, (panic_isolated s id rest h).1]

example : let ops := [Op.defScript 1 [.panic, .cancelSelf], .add 2 1 [], .advance 2, .expire 2, .doNext 0, .cbStep, .cbStep]
    (run ops).2 = [Event.created 2 0 2 2 [], .cb 2 2 [], .panic 2, .rearm 2 2 2] ∧ ((run ops).1.tm 2).armed = true := by
  decide

/-! ### sensitivity: the `Canceled` test at the head of `Do` is what the first theorem rests on -/

/-- `Do` without its first `if t.Canceled { return }` -/
def doNextNoCheck (s : State) (i : Nat) : State × List Event :=
  if s.cur.isSome then (s, []) else
  match s.queue[i]? with
  | none => (s, [])
  | some id => ((s.pop i).setCur (some (id, s.scripts (s.tm id).script)), [.cb id s.now (s.tm id).args])

/-- cancel while the expiry is queued, then drain: with that variant the callback runs after the cancel -/
theorem head_check_needed :
    let s := (run [.add 5 0 [7], .advance 5, .expire 2, .cancel 2]).1
    (run [.add 5 0 [7], .advance 5, .expire 2, .cancel 2]).2 = [Event.created 2 0 5 5 [7], .cancel 2 5] ∧
    (doNextNoCheck s 0).2 = [Event.cb 2 5 [7]] ∧ (doNext s 0).2 = [] := by decide

end Cell2v.Props.C14
