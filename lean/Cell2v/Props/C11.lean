import Cell2v.Lemmas.Modules
import Cell2v.Lemmas.ModulesChain
import Cell2v.Gen.C11Modules
/-!
C11 — property theorems: modules start in order, stop in reverse; each phase
completes exactly once.

`run n fwd cs` is the observable log of one `ModList.Filter` invocation over `n`
modules (`fwd = true`: Start, registration order; `fwd = false`: Stop) driven by an
arbitrary chronological sequence `cs` of completion events `(w, b)` = "module `w`
invoked `next(b)`", synchronously or later, from any goroutine.  The hypothesis on
the modules is a predicate on the log alone: `Disciplined` = every completion is
made by a module that has been entered and has not completed before (at most
once); `Complete` = every entered module has completed (with `Disciplined`:
exactly once).  Only property statements, non-vacuity examples and defect
witnesses live here.
-/
namespace Cell2v.Props.C11
open Cell2v.Modules

/-! ## the module list (`ModList.Filter`) -/

/-- The log of a disciplined phase is *canonical*: modules are entered one at a
time in the visiting order, each directly after its predecessor's `next(true)`; a
`next(false)` is followed by `finish(false)` and nothing else; after the last
success exactly `finish(true)`.  (`canonB` is also the predicate the check
evaluates on the logs recorded from the real `ModList`.) -/
theorem disciplined_log_canonical (n : Nat) (fwd : Bool) (cs : List (Nat × Bool))
    (hd : Disciplined (run n fwd cs)) : canonB (ord n fwd) (run n fwd cs) = true := by
  rw [run_eq_arun] at hd ⊢
  exact (shape_of_disciplined _ cs hd).canon

/-- **start order**: the modules entered by `Start` are a prefix of the registration order. -/
theorem start_order (n : Nat) (cs : List (Nat × Bool)) (hd : Disciplined (run n true cs)) :
    enters (run n true cs) <+: List.range n := by
  rw [run_eq_arun] at hd ⊢
  simpa [ord] using (shape_of_disciplined _ cs hd).enters_prefix

/-- **stop order**: the modules entered by `Stop` are a prefix of the reversed registration order. -/
theorem stop_reverse (n : Nat) (cs : List (Nat × Bool)) (hd : Disciplined (run n false cs)) :
    enters (run n false cs) <+: (List.range n).reverse := by
  rw [run_eq_arun] at hd ⊢
  simpa [ord] using (shape_of_disciplined _ cs hd).enters_prefix

/-- **one at a time, only after success**: at the moment any module `m` is entered,
every module entered earlier has already completed, each with success, in the order
they were entered; and `m` is the next one in the visiting order. -/
theorem one_at_a_time (n : Nat) (fwd : Bool) (cs : List (Nat × Bool)) (hd : Disciplined (run n fwd cs))
    (p : List Ev) (m : Nat) (q : List Ev) (heq : run n fwd cs = p ++ Ev.enter m :: q) :
    calls p = (enters p).map (fun i => (i, true)) ∧ (enters p ++ [m]) <+: ord n fwd := by
  rw [run_eq_arun] at hd heq
  have hs := shape_of_disciplined _ cs hd
  obtain ⟨l1, rfl⟩ := hs.before_enter p m q heq
  refine ⟨by simp, ?_⟩
  have hp := hs.enters_prefix
  rw [heq] at hp
  simp only [enters_append, enters_okPart, enters] at hp ⊢
  obtain ⟨r, hr⟩ := hp
  exact ⟨enters q ++ r, by simpa using hr⟩

/-- **first failure ends the phase**: whatever follows a `next(false)` in the log is
exactly `finish(false)` — no later module is entered, nothing else is reported. -/
theorem first_failure_stops (n : Nat) (fwd : Bool) (cs : List (Nat × Bool)) (hd : Disciplined (run n fwd cs))
    (p : List Ev) (w : Nat) (q : List Ev) (heq : run n fwd cs = p ++ Ev.call w false :: q) :
    q = [Ev.finish false] := by
  rw [run_eq_arun] at hd heq
  exact (shape_of_disciplined _ cs hd).after_failure p w q heq

/-- **at most once**: if every started module completes at most once (some may never
complete, e.g. a module that panicked before calling `next`), `finish` is invoked at most once. -/
theorem finish_at_most_once (n : Nat) (fwd : Bool) (cs : List (Nat × Bool)) (hd : Disciplined (run n fwd cs)) :
    (finishes (run n fwd cs)).length ≤ 1 := by
  rw [run_eq_arun] at hd ⊢
  exact (shape_of_disciplined _ cs hd).finishes_le

/-- **exactly once, with the overall outcome**: if every started module completes
exactly once, `finish` is invoked exactly once, it is the last event, and it reports
success iff all `n` modules were entered and every one reported success. -/
theorem finish_exactly_once (n : Nat) (fwd : Bool) (cs : List (Nat × Bool))
    (hd : Disciplined (run n fwd cs)) (hc : Complete (run n fwd cs)) :
    ∃ b, finishes (run n fwd cs) = [b] ∧ (run n fwd cs).getLast? = some (Ev.finish b) ∧
      (b = true ↔ (enters (run n fwd cs) = ord n fwd ∧ ∀ w b', Ev.call w b' ∈ run n fwd cs → b' = true)) := by
  rw [run_eq_arun] at hd hc ⊢
  exact (shape_of_disciplined _ cs hd).complete (ord_nodup n fwd) hc

/-- Whatever the modules do (complete twice, late, never): no module is entered out of
order or twice — the entered modules are a subsequence of the visiting order. -/
theorem order_unconditional (n : Nat) (fwd : Bool) (cs : List (Nat × Bool)) :
    (enters (run n fwd cs)).Sublist (ord n fwd) := by
  rw [run_eq_arun]; exact enters_sublist_arun _ cs

/-- Whatever the modules do, `m.mods[index]` is never out of range (no Go panic inside `doNow`). -/
theorem index_in_range (n : Nat) (fwd : Bool) (cs : List (Nat × Bool)) : Ev.oob ∉ run n fwd cs := by
  rw [run_eq_arun]; exact no_oob_arun _ cs

/-- the executable checks used by the monitor are the hypotheses of the theorems -/
theorem hypotheses_decidable (tr : List Ev) :
    (disciplinedB tr = true ↔ Disciplined tr) ∧ (completeB tr = true ↔ Complete tr) :=
  ⟨disciplinedB_iff tr, completeB_iff tr⟩

/-! non-vacuity: disciplined and complete logs exist (all succeed / failure in the middle / stop phase),
and a disciplined log that is not complete (module 1 never completes) -/
example : Disciplined (run 3 true [(0, true), (1, true), (2, true)]) ∧ Complete (run 3 true [(0, true), (1, true), (2, true)]) :=
  ⟨(disciplinedB_iff _).mp (by decide), (completeB_iff _).mp (by decide)⟩
example : Disciplined (run 3 true [(0, true), (1, false)]) ∧ Complete (run 3 true [(0, true), (1, false)]) :=
  ⟨(disciplinedB_iff _).mp (by decide), (completeB_iff _).mp (by decide)⟩
example : Disciplined (run 4 false [(3, true), (2, true)]) ∧ ¬ Complete (run 4 false [(3, true), (2, true)]) :=
  ⟨(disciplinedB_iff _).mp (by decide), fun h => absurd ((completeB_iff _).mpr h) (by decide)⟩
example : run 3 false [(2, true), (1, true), (0, true)] =
    [.enter 2, .call 2 true, .enter 1, .call 1 true, .enter 0, .call 0 true, .finish true] := by decide

/-- The discipline is necessary (this is what D2 did to the node's start-up before the
`fix:` commit): module 1 reporting `next(false)` and then `next(true)` makes `ModList`
report failure, then start module 2 anyway and finally report success as well. -/
theorem double_completion_witness :
    run 3 true [(0, true), (1, false), (1, true), (2, true)] =
      [.enter 0, .call 0 true, .enter 1, .call 1 false, .finish false, .call 1 true, .enter 2, .call 2 true, .finish true] ∧
    ¬ Disciplined (run 3 true [(0, true), (1, false), (1, true), (2, true)]) :=
  ⟨by decide, fun h => absurd ((disciplinedB_iff _).mpr h) (by decide)⟩

/-! ## `ModList.Start` / `ModList.Stop`: the wrapper around each module's callback (D21)

`wrun n fwd acts` is the log of one `ModList.Start` / `ModList.Stop` driven by a chronological
sequence of *module actions* — `report w b` (module `w` invokes the callback it was handed) and
`panic w` (its Start/Stop panics and is recovered).  The wrapper turns them into the `next` calls
`wcalls acts` that reach `Filter`, so `wrun n fwd acts = run n fwd (wcalls acts)` and every theorem
above applies once the discipline is carried over (`modlist_phase_disciplined`). -/

/-- The discipline at the level of the modules' actions (each action by an entered module, at most
one report and at most one panic per module) gives the discipline of the `next` calls — a report
after the module's own panic and a panic after its own report do not reach `Filter`. -/
theorem modlist_phase_disciplined (n : Nat) (fwd : Bool) (acts : List MAct) (hd : MDisciplined n fwd acts) :
    Disciplined (wrun n fwd acts) ∧ canonB (ord n fwd) (wrun n fwd acts) = true ∧
      (finishes (wrun n fwd acts)).length ≤ 1 := by
  have h := wrapped_disciplined n fwd acts hd
  exact ⟨h, disciplined_log_canonical n fwd _ h, finish_at_most_once n fwd _ h⟩

/-- **a module that panics before reporting has failed** (the D21 guarantee): whatever happened
before (`p`) and whatever the modules do afterwards (`q`: late reports of the panicked module,
panics of modules that have reported, …), the phase log is the log up to the panic followed by
exactly the wrapper's `next(false)` and `finish(false)`: the completion callback is invoked, with
`false`, exactly once; no later module is entered; nothing that arrives later has any effect. -/
theorem panic_before_report_fails_phase (n : Nat) (fwd : Bool) (acts : List MAct) (hd : MDisciplined n fwd acts)
    (p : List MAct) (w : Nat) (q : List MAct) (heq : acts = p ++ MAct.panic w :: q)
    (hnr : ∀ b, MAct.report w b ∉ p) :
    wrun n fwd acts = wrun n fwd p ++ [Ev.call w false, Ev.finish false] ∧
      finishes (wrun n fwd acts) = finishes (wrun n fwd p) ++ [false] ∧
      enters (wrun n fwd acts) = enters (wrun n fwd p) := by
  have hdis := wrapped_disciplined n fwd acts hd
  have hnrep : w ∉ (wstate {} p).reported := by
    intro h
    rcases wstate_reported_src p {} w h with h0 | ⟨b, hb⟩
    · simp at h0
    · exact hnr b hb
  have hcalls : wcalls acts = wcalls p ++ (w, false) :: wcallsFrom ((wstate {} p).step (.panic w)).1 q := by
    subst heq
    simp [wcalls, wcallsFrom_append, wcallsFrom, Wrap.step, hnrep]
  have hlog : ∃ rest, wrun n fwd acts = wrun n fwd p ++ Ev.call w false :: Ev.finish false :: rest := by
    simp only [wrun, run, hcalls, runFrom_append, runFrom, ML.next, Bool.not_false, ↓reduceIte]
    obtain ⟨rest, hr⟩ := runFrom_prefix (wcallsFrom ((wstate {} p).step (.panic w)).1 q)
      (runFrom (filter n fwd).1 (filter n fwd).2 (wcalls p)).1
      ((runFrom (filter n fwd).1 (filter n fwd).2 (wcalls p)).2 ++ [Ev.call w false, Ev.finish false])
    exact ⟨rest, by rw [hr]; simp⟩
  obtain ⟨rest, hr⟩ := hlog
  have hq := first_failure_stops n fwd (wcalls acts) hdis (wrun n fwd p) w (Ev.finish false :: rest) hr
  simp only [List.cons.injEq, true_and] at hq
  subst hq
  rw [hr]
  simp [finishes, enters]

/-- non-vacuity, and what it looks like: module 1 of three stashes its callback and panics; module 0
panics after it reported (only logged); module 1 reports `true` much later (dropped) -/
example : MDisciplined 3 true [.report 0 true, .panic 1, .panic 0, .report 1 true] ∧
    wrun 3 true [.report 0 true, .panic 1, .panic 0, .report 1 true] =
      [.enter 0, .call 0 true, .enter 1, .call 1 false, .finish false] := by
  refine ⟨?_, by decide⟩
  intro p a q heq
  have hlen : p.length ≤ 3 := by
    have := congrArg List.length heq
    simp at this; omega
  match p, hlen with
  | [], _ => simp at heq; obtain ⟨rfl, _⟩ := heq; exact ⟨by decide, by simp, by simp⟩
  | [a0], _ => simp at heq; obtain ⟨rfl, rfl, _⟩ := heq; exact ⟨by decide, by simp, by simp⟩
  | [a0, a1], _ => simp at heq; obtain ⟨rfl, rfl, rfl, _⟩ := heq; exact ⟨by decide, by simp, by simp⟩
  | [a0, a1, a2], _ => simp at heq; obtain ⟨rfl, rfl, rfl, rfl, _⟩ := heq; exact ⟨by decide, by simp, by simp⟩

/-- **exactly once, panics included**: if every entered module reports at most once and every
entered module either reports or panics, `finish` is invoked exactly once, last, and with `true`
iff all `n` modules were entered and every `next` call that reached `Filter` was a success (in
particular: no module panicked before reporting). -/
theorem modlist_phase_completes (n : Nat) (fwd : Bool) (acts : List MAct)
    (hd : MDisciplined n fwd acts) (hc : MComplete n fwd acts) :
    ∃ b, finishes (wrun n fwd acts) = [b] ∧ (wrun n fwd acts).getLast? = some (Ev.finish b) ∧
      (b = true ↔ (enters (wrun n fwd acts) = ord n fwd ∧ ∀ w b', Ev.call w b' ∈ wrun n fwd acts → b' = true)) :=
  finish_exactly_once n fwd (wcalls acts) (wrapped_disciplined n fwd acts hd) (wrapped_complete n fwd acts hc)

/-- a report that arrives after the module's own panic-before-report never reaches `Filter`
(unconditionally: whatever else happened in between) -/
theorem late_report_ignored (p q : List MAct) (w : Nat) (b : Bool) (hnr : ∀ b', MAct.report w b' ∉ p) :
    wcalls (p ++ MAct.panic w :: q ++ [MAct.report w b]) = wcalls (p ++ MAct.panic w :: q) := by
  have hnrep : w ∉ (wstate {} p).reported := by
    intro h
    rcases wstate_reported_src p {} w h with h0 | ⟨b', hb⟩
    · simp at h0
    · exact hnr b' hb
  have hdead : w ∈ (wstate {} (p ++ MAct.panic w :: q)).dead := by
    rw [wstate_append]
    simp only [wstate]
    apply wstate_dead_mono
    simp [Wrap.step, hnrep]
  have := wcalls_snoc (p ++ MAct.panic w :: q) (.report w b)
  simp only [List.append_assoc, List.cons_append] at this ⊢
  rw [this]
  simp [Wrap.step, hdead]

/-- **D21** (what `ModList.Start/Stop` did before /repo b70026f): a module that panicked before
calling `next` was recovered and nothing else happened — every entered module has acted, yet the
phase never reports (the App stays in Starting); and a report of that module arriving later went
on with the phase.  With the wrapper the same histories end in exactly `finish(false)`. -/
theorem d21_witness :
    wrunOld 3 true [.report 0 true, .panic 1] = [.enter 0, .call 0 true, .enter 1] ∧
    wrunOld 3 true [.report 0 true, .panic 1, .report 1 true] =
      [.enter 0, .call 0 true, .enter 1, .call 1 true, .enter 2] ∧
    wrun 3 true [.report 0 true, .panic 1] = [.enter 0, .call 0 true, .enter 1, .call 1 false, .finish false] ∧
    wrun 3 true [.report 0 true, .panic 1, .report 1 true] =
      [.enter 0, .call 0 true, .enter 1, .call 1 false, .finish false] ∧
    MComplete 3 true [.report 0 true, .panic 1] := by
  refine ⟨by decide, by decide, by decide, by decide, ?_⟩
  intro m hm
  have h : wrun 3 true [.report 0 true, .panic 1] = [.enter 0, .call 0 true, .enter 1, .call 1 false, .finish false] := by decide
  rw [h] at hm
  simp at hm
  rcases hm with rfl | rfl
  · exact .inl ⟨true, by simp⟩
  · exact .inr (by simp)

/-! ## nested Start/Stop calls and a completion callback that panics (`Chain`)

The theorems above treat one action of a module as atomic.  In Go a module that reports inside its
Start/Stop runs the rest of the phase — the successors' Start/Stop and finally `finish`, the caller's
completion callback — *inside that call*, under as many deferred `recover()`s as there are active
`doFunc`s.  `Chain` keeps that stack; `fp` = "the completion callback panics" (user code: the closure
of `App.Start`, of `StartNode` — a service creator that panics —, the caller's `fin`). -/

/-- Whatever the modules do (report inside Start/Stop or later, panic before or after reporting,
return) and whether or not the completion callback panics: the log of the chain is the log of the
action-level wrapper model on the actions the wrappers have seen — so every theorem about `wrun`
(`modlist_phase_disciplined`, `panic_before_report_fails_phase`, `modlist_phase_completes`, …)
holds for it — and the flags are those of that model. -/
theorem chain_refines_wrapper (fp : Bool) (n : Nat) (fwd : Bool) (ops : List COp) :
    (Chain.run fp n fwd ops).log = wrun n fwd (Chain.run fp n fwd ops).acts ∧
      (Chain.run fp n fwd ops).ws = wstate {} (Chain.run fp n fwd ops).acts := by
  have h := ChainRef_runFrom (n := n) (fwd := fwd) fp ops _ (ChainRef_init fp n fwd)
  exact ⟨h.2.2, h.1⟩

/-- The stack discipline: every module whose Start/Stop is active, except the innermost one, is inside
its own report — its `reported` flag is set (the flag is set *before* `next` runs). -/
theorem chain_stack_reported (fp : Bool) (n : Nat) (fwd : Bool) (ops : List COp) :
    ∀ x ∈ (Chain.run fp n fwd ops).stack.tail, x ∈ (Chain.run fp n fwd ops).ws.reported :=
  StackOK_runFrom fp ops _ (StackOK_init fp n fwd)

/-- **a panicking completion callback changes nothing but the Go stack**: from every reachable state,
for every next move, the log (in particular: how often `finish` is invoked, which modules are
entered), the wrappers' flags and `Filter`'s index are the same whether the callback returns or
panics; the panic only cuts active Start/Stop calls short (the stack afterwards is a suffix).  The
wrapper that recovers it belongs to a module that has already reported, so it calls nothing. -/
theorem callback_panic_only_unwinds (fp0 : Bool) (n : Nat) (fwd : Bool) (ops : List COp) (op : COp) :
    ((Chain.run fp0 n fwd ops).step true op).log = ((Chain.run fp0 n fwd ops).step false op).log ∧
      ((Chain.run fp0 n fwd ops).step true op).ws = ((Chain.run fp0 n fwd ops).step false op).ws ∧
      ((Chain.run fp0 n fwd ops).step true op).ml = ((Chain.run fp0 n fwd ops).step false op).ml ∧
      ((Chain.run fp0 n fwd ops).step true op).stack <:+ ((Chain.run fp0 n fwd ops).step false op).stack :=
  step_fp_indep _ (StackOK_runFrom fp0 ops _ (StackOK_init fp0 n fwd)) op

/-- … hence, with modules that keep the discipline, the phase log is canonical and `finish` is invoked
at most once — also when it panics each time it is invoked. -/
theorem chain_disciplined_canonical (fp : Bool) (n : Nat) (fwd : Bool) (ops : List COp)
    (hd : Disciplined (Chain.run fp n fwd ops).log) :
    canonB (ord n fwd) (Chain.run fp n fwd ops).log = true ∧ (finishes (Chain.run fp n fwd ops).log).length ≤ 1 := by
  rw [(chain_refines_wrapper fp n fwd ops).1] at hd ⊢
  exact ⟨disciplined_log_canonical n fwd _ hd, finish_at_most_once n fwd _ hd⟩

/-- **a Start/Stop call is unwound by at most one panic** — a structural fact of the Go stack, proved for the
chain instead of assumed: every panic a wrapper sees (the module's own, or the completion callback's
travelling through) is of a module that has been entered and that no panic has unwound before. -/
theorem chain_panics_disciplined (fp : Bool) (n : Nat) (fwd : Bool) (ops : List COp) (p : List MAct) (w : Nat) (q : List MAct)
    (heq : (Chain.run fp n fwd ops).acts = p ++ MAct.panic w :: q) :
    Ev.enter w ∈ wrun n fwd p ∧ MAct.panic w ∉ p :=
  (ChainOK_runFrom fp ops _ (ChainRef_init fp n fwd) (ChainOK_init fp n fwd)).2.2 p w q heq

/-- … so the only thing left to ask of the modules is about their *reports*: if every report is made
by a module that has been entered and has not reported before, the actions are disciplined
(`MDisciplined`, the hypothesis of `modlist_phase_disciplined` / `panic_before_report_fails_phase` /
`modlist_phase_completes`), the log is canonical and the completion callback is invoked at most once —
whether it returns or panics. -/
theorem chain_mdisciplined (fp : Bool) (n : Nat) (fwd : Bool) (ops : List COp)
    (hrep : ∀ p w b q, (Chain.run fp n fwd ops).acts = p ++ MAct.report w b :: q →
      Ev.enter w ∈ wrun n fwd p ∧ ∀ b', MAct.report w b' ∉ p) :
    MDisciplined n fwd (Chain.run fp n fwd ops).acts ∧
      canonB (ord n fwd) (Chain.run fp n fwd ops).log = true ∧ (finishes (Chain.run fp n fwd ops).log).length ≤ 1 := by
  have hm : MDisciplined n fwd (Chain.run fp n fwd ops).acts := by
    intro p a q heq
    cases a with
    | report w b =>
      obtain ⟨h1, h2⟩ := hrep p w b q heq
      exact ⟨h1, fun w' b' he b'' => (by cases he; exact h2 b''), fun w' he => (by cases he)⟩
    | panic w =>
      obtain ⟨h1, h2⟩ := chain_panics_disciplined fp n fwd ops p w q heq
      exact ⟨h1, fun w' b' he => (by cases he), fun w' he => (by cases he; exact h2)⟩
  have h := modlist_phase_disciplined n fwd _ hm
  rw [(chain_refines_wrapper fp n fwd ops).1]
  exact ⟨hm, h.2.1, h.2.2⟩

/-- non-vacuity of `chain_mdisciplined` (the callback panics; module 1 panics before reporting) -/
example : ∀ p w b q, (Chain.run true 2 true [.report true, .panic]).acts = p ++ MAct.report w b :: q →
    Ev.enter w ∈ wrun 2 true p ∧ ∀ b', MAct.report w b' ∉ p := by
  have ha : (Chain.run true 2 true [.report true, .panic]).acts = [.report 0 true, .panic 1, .panic 0] := by decide
  intro p w b q heq
  rw [ha] at heq
  match p with
  | [] => simp at heq; obtain ⟨⟨rfl, rfl⟩, _⟩ := heq; exact ⟨by decide, by simp⟩
  | [_] => simp at heq
  | [_, _] => simp at heq
  | _ :: _ :: _ :: r => simp at heq

/-- non-vacuity / what it looks like (the callback panics): two modules report inside Start — the panic
of `finish(true)` is recovered by module 1's wrapper, module 0's Start goes on; module 1 panics before
reporting — the wrapper's `finish(false)` panics inside the deferred handler, leaves module 1's `doFunc`
and is recovered by module 0's wrapper (only logged); a single module panics — the callback's panic
reaches the caller of `Start`; a delayed report on its own goroutine — it reaches the caller of `next`. -/
example :
    (Chain.run true 2 true [.report true, .report true]).log =
        [.enter 0, .call 0 true, .enter 1, .call 1 true, .finish true] ∧
      (Chain.run true 2 true [.report true, .report true]).stack = [0] ∧
      (Chain.run true 2 true [.report true, .report true]).escaped = false ∧
    (Chain.run true 2 true [.report true, .panic]).log =
        [.enter 0, .call 0 true, .enter 1, .call 1 false, .finish false] ∧
      (Chain.run true 2 true [.report true, .panic]).stack = [] ∧
      (Chain.run true 2 true [.report true, .panic]).escaped = false ∧
    (Chain.run true 1 true [.panic]).log = [.enter 0, .call 0 false, .finish false] ∧
      (Chain.run true 1 true [.panic]).escaped = true ∧
    (Chain.run true 1 true [.ret, .late 0 true]).log = [.enter 0, .call 0 true, .finish true] ∧
      (Chain.run true 1 true [.ret, .late 0 true]).escaped = true ∧
    Disciplined (Chain.run true 2 true [.report true, .report true]).log := by
  refine ⟨by decide, by decide, by decide, by decide, by decide, by decide, by decide, by decide, by decide, by decide, ?_⟩
  exact (disciplinedB_iff _).mp (by decide)

/-- **why `reported = true` stands before `next(succ)`** (seeded change C11-ind7-m1): with the two
statements swapped the flag is still unset while `finish` runs, the wrapper takes the callback's panic
for a failure of its module and calls `next(false)`: the completion callback is invoked a second time. -/
theorem reported_flag_order_witness :
    finishes (Chain.reportBySwapped true (Chain.init true 1 true) 0 true).log = [true, false] ∧
    finishes (Chain.reportBy true (Chain.init true 1 true) 0 true).log = [true] := by
  decide

/-! ## a module list that grows while the phase runs (`AddModule` between completions) -/

/-- `doNow` reads `len(m.mods)` live: for any interleaving of completions and `AddModule` calls
that keeps the discipline, the start log is canonical over `range n'` for a length `n'` between
the length at `Filter` time and the final one (so every earlier theorem applies with `n'`). -/
theorem growing_list_canonical (n : Nat) (cmds : List Cmd) (hd : Disciplined (grun n true cmds).2) :
    ∃ n', n ≤ n' ∧ n' ≤ (grun n true cmds).1.n ∧ canonB (List.range n') (grun n true cmds).2 = true ∧
      enters (grun n true cmds).2 <+: List.range n' ∧ (finishes (grun n true cmds).2).length ≤ 1 := by
  obtain ⟨n', h1, h2, hs⟩ := GInv_shape (GInv_grunFrom n cmds _ _ (GInv_init n) hd)
  exact ⟨n', h1, h2, hs.canon, hs.enters_prefix, hs.finishes_le⟩

/-- **late modules are started**: when a completion makes the start phase report success, every
module registered *at that moment* — including the ones added while the phase was running — has
been entered, in registration order. -/
theorem late_modules_started (n : Nat) (cmds : List Cmd) (w : Nat) (b : Bool)
    (hd : Disciplined (grun n true (cmds ++ [.call w b])).2)
    (hfin : (grun n true (cmds ++ [.call w b])).2.getLast? = some (Ev.finish true)) :
    enters (grun n true (cmds ++ [.call w b])).2 = List.range (grun n true (cmds ++ [.call w b])).1.n := by
  simp only [grun, grunFrom_snoc_call] at hd hfin ⊢
  have hpre : Disciplined (grunFrom (filter n true).1 (filter n true).2 cmds).2 := by
    intro p w' b' q heq
    exact hd p w' b' (q ++ Ev.call w b :: ((grunFrom (filter n true).1 (filter n true).2 cmds).1.next b).2)
      (by rw [heq]; simp)
  have hinv := GInv_grunFrom n cmds _ _ (GInv_init n) hpre
  have hl := hd (grunFrom (filter n true).1 (filter n true).2 cmds).2 w b _ rfl
  obtain ⟨_, pos, hp⟩ := GInv_call hinv w b hl
  generalize (grunFrom (filter n true).1 (filter n true).2 cmds).1 = s at hp hfin ⊢
  generalize (grunFrom (filter n true).1 (filter n true).2 cmds).2 = tr at hp hfin ⊢
  have hn : (s.next b).1.n = s.n := by cases b <;> simp [ML.next]
  rw [hn]
  rcases hp with ⟨m, _, htr⟩ | ⟨k, m, _, htr⟩ | htr
  · rw [htr] at hfin; simp at hfin
  · rw [htr] at hfin; simp at hfin
  · rw [htr]; simp [enters]

/-- the stop direction never looks at the live length: modules added while a stop phase runs are
not visited by it -/
theorem stop_ignores_growth (n : Nat) (cmds : List Cmd) :
    (grun n false cmds).2 = run n false (cmdCalls cmds) := by
  by_cases h0 : n = 0
  · subst h0
    simp only [grun, run, filter, ↓reduceIte]
    exact grunFrom_bwd cmds _ _ _ rfl rfl rfl (by simp) (by simp)
  · simp only [grun, run, filter, h0, ↓reduceIte]
    exact grunFrom_bwd cmds _ _ _ rfl rfl rfl (by simp; omega) (by simp; omega)

/-- non-vacuity / what the live length means: module 1 registers a third module right before it
completes; the new module is started and only then success is reported (the mutation that takes
the length once at the top reports `finish true` right after module 1) -/
example : (grun 2 true [.call 0 true, .add, .call 1 true, .call 2 true]).2 =
    [.enter 0, .call 0 true, .enter 1, .call 1 true, .enter 2, .call 2 true, .finish true] := by decide
example : Disciplined (grun 2 true [.call 0 true, .add, .call 1 true, .call 2 true]).2 :=
  (disciplinedB_iff _).mp (by decide)

/-- a module registered after start-up has succeeded is visited by the next Stop — first, since Stop
starts at the live `len-1` — although it was never started (the App-level theorems are for a fixed
list; `App.AddModule` is not guarded by the state) -/
theorem stop_visits_unstarted_module_witness :
    ((App.run 1 [.start, .call true 0 true]).1.addModule.step .stop).2 =
      [.begin false, .ev false (.enter 1)] := by decide

/-! ## baseapp.App: the state guard -/

/-- **state guard**: `App.Start` does nothing unless the state is Prepared; `App.Stop`
does nothing unless the state is Normal. -/
theorem app_state_guard (a : App) :
    (a.st ≠ .prepared → a.step .start = (a, [])) ∧ (a.st ≠ .normal → a.step .stop = (a, [])) := by
  constructor <;> intro h <;> simp [App.step, h]

/-- **the start-completion callback sees a started application**: `App.Start`'s wrapper
sets the state *before* it invokes the caller's `finish` (a step's `finish` is its last event and
the step's resulting state is the state the callback observes — the driver runs scripted callbacks
exactly there, and the differential run compares this with the real `App`).  So whenever a
start-phase step reports success, the state is Normal and a `Stop` issued at that point is accepted:
it begins the stop phase.  "At that point" is: by the callback itself when the reporting completion
arrived after `ModList.Filter` had returned (`op = .call ..` made outside Filter), or by anybody once
the step is over.  `Filter` holds the list's non-reentrant lock while its synchronous chain —
including `finish` — runs: a `Stop` (or `AddModule`) issued *by the callback itself* while still
inside that chain (`op = .start` with an all-synchronous list, or a completion nested in it) blocks on
that lock forever in the Go code; the lock is not part of this model (reported as a defect of /repo,
not generated by the harness). -/
theorem start_callback_sees_normal (a : App) (op : AOp)
    (h : AEv.ev true (Ev.finish true) ∈ (a.step op).2) :
    (a.step op).1.st = .normal ∧ AEv.begin false ∈ ((a.step op).1.step .stop).2 := by
  have key : (a.step op).1.st = .normal := by
    cases op with
    | start =>
      by_cases hp : a.st = .prepared
      · simp only [App.step, hp, ne_eq, not_true_eq_false, ↓reduceIte] at h ⊢
        have hm : Ev.finish true ∈ (filter a.n true).2 := by simpa using h
        rw [onEvents_finish true _ _ hm]; rfl
      · simp [App.step, hp] at h
    | stop =>
      by_cases hn : a.st = .normal
      · simp [App.step, hn] at h
      · simp [App.step, hn] at h
    | call ph w b =>
      simp only [App.step] at h ⊢
      cases hml : (if ph = true then a.startML else a.stopML) with
      | none => rw [hml] at h; simp at h
      | some ml =>
        rw [hml] at h
        simp only at h ⊢
        cases ph with
        | false => simp at h
        | true =>
          have hm : Ev.finish true ∈ (ml.next b).2 := by simpa using h
          simp only [↓reduceIte]
          rw [onEvents_finish true _ _ hm]; rfl
  refine ⟨key, ?_⟩
  generalize (a.step op).1 = a' at key
  simp [App.step, key]

/-- non-vacuity: the last module's delayed success is such a step -/
example : AEv.ev true (Ev.finish true) ∈ ((App.run 1 [.start]).1.step (.call true 0 true)).2 := by decide

private theorem st_after_events (a : App) (ph : Bool) (es : List Ev) :
    (App.onEvents a ph es).st = a.st ∨ (App.onEvents a ph es).st = (if ph then .normal else .stopped) := by
  rcases onEvents_cases ph es a with ⟨_, h⟩ | ⟨_, h⟩ <;> rw [h] <;> simp

/-- For every history of Start / Stop calls and module completions (disciplined or not)
after one `Prepare`, the start phase is begun at most once. -/
theorem app_start_once (n : Nat) (ops : List AOp) : begins true (App.run n ops).2 ≤ 1 := by
  have h := App.run_induction n
    (fun a tr _ => (a.st = .prepared ∧ begins true tr = 0) ∨ (a.st ≠ .prepared ∧ begins true tr ≤ 1))
    (.inl ⟨rfl, rfl⟩)
    (by
      intro a tr done op ih
      cases op with
      | start =>
        by_cases hp : a.st = .prepared
        · right
          have hb : begins true tr = 0 := by rcases ih with ⟨_, h⟩ | ⟨h, _⟩; exact h; exact absurd hp h
          simp only [App.step, hp, ne_eq, not_true_eq_false, ↓reduceIte]
          constructor
          · rcases st_after_events { a with st := .starting, startML := some (filter a.n true).1 } true (filter a.n true).2 with h | h <;>
              rw [h] <;> simp
          · rw [begins_append, hb]
            have : begins true (AEv.begin true :: (filter a.n true).2.map (AEv.ev true)) =
                1 + begins true ((filter a.n true).2.map (AEv.ev true)) := by
              simp [begins, Nat.add_comm]
            rw [this, begins_evs]; omega
        · simpa [App.step, hp] using ih
      | stop =>
        by_cases hn : a.st = .normal
        · right
          have hnp : a.st ≠ .prepared := by rw [hn]; simp
          have hb : begins true tr ≤ 1 := by rcases ih with ⟨h, _⟩ | ⟨_, h⟩; exact absurd h hnp; exact h
          simp only [App.step, hn, ne_eq, not_true_eq_false, ↓reduceIte]
          constructor
          · rcases st_after_events { a with st := .stoping, stopML := some (filter a.n false).1 } false (filter a.n false).2 with h | h <;>
              rw [h] <;> simp
          · rw [begins_append]
            have : begins true (AEv.begin false :: (filter a.n false).2.map (AEv.ev false)) =
                begins true ((filter a.n false).2.map (AEv.ev false)) := by
              simp [begins]
            rw [this, begins_evs]; exact hb
        · simpa [App.step, hn] using ih
      | call ph w b =>
        simp only [App.step]
        cases hml : (if ph = true then a.startML else a.stopML) with
        | none => simpa using ih
        | some ml =>
          simp only
          have hcnt : begins true (tr ++ AEv.ev ph (Ev.call w b) :: (ml.next b).2.map (AEv.ev ph)) = begins true tr := by
            rw [begins_append]
            have : begins true (AEv.ev ph (Ev.call w b) :: (ml.next b).2.map (AEv.ev ph)) =
                begins true ((ml.next b).2.map (AEv.ev ph)) := by simp [begins]
            rw [this, begins_evs]; rfl
          rw [hcnt]
          generalize hA : (if ph = true then { a with startML := some (ml.next b).1 } else { a with stopML := some (ml.next b).1 }) = a'
          have hst : a'.st = a.st := by subst hA; cases ph <;> simp
          rcases st_after_events a' ph (ml.next b).2 with h | h
          · rw [h, hst]; exact ih
          · right
            refine ⟨by rw [h]; cases ph <;> simp, ?_⟩
            rcases ih with ⟨_, h0⟩ | ⟨_, h1⟩
            · omega
            · exact h1)
    ops
  rcases h with ⟨_, h⟩ | ⟨_, h⟩ <;> omega

private theorem begin_stop_step (a : App) (op : AOp) (h : AEv.begin false ∈ (a.step op).2) : a.st = .normal := by
  cases op with
  | start =>
    by_cases hp : a.st = .prepared <;> simp [App.step, hp] at h
  | stop =>
    by_cases hn : a.st = .normal
    · exact hn
    · simp [App.step, hn] at h
  | call ph w b =>
    simp only [App.step] at h
    cases hml : (if ph = true then a.startML else a.stopML) with
    | none => rw [hml] at h; simp at h
    | some ml => rw [hml] at h; simp at h

private theorem start_success_step (a : App) (op : AOp) :
    (((a.step op).1.st = .normal ∨ (a.step op).1.st = .stoping ∨ (a.step op).1.st = .stopped) →
      (a.st = .normal ∨ a.st = .stoping ∨ a.st = .stopped) ∨ a.stopML ≠ none ∨
        AEv.ev true (Ev.finish true) ∈ (a.step op).2) ∧
    ((a.step op).1.stopML ≠ none → a.stopML ≠ none ∨ a.st = .normal) := by
  cases op with
  | start =>
    by_cases hp : a.st = .prepared
    · simp only [App.step, hp, ne_eq, not_true_eq_false, ↓reduceIte]
      rcases onEvents_cases true (filter a.n true).2 { a with st := .starting, startML := some (filter a.n true).1 } with ⟨_, h⟩ | ⟨hm, h⟩
      · rw [h]; simp
      · rw [h]; refine ⟨fun _ => .inr (.inr ?_), by simp⟩
        simp [hm]
    · simp only [App.step, hp, ne_eq, not_false_eq_true, ↓reduceIte]
      exact ⟨fun h => .inl h, fun h => .inl h⟩
  | stop =>
    by_cases hn : a.st = .normal
    · exact ⟨fun _ => .inl (.inl hn), fun _ => .inr hn⟩
    · simp only [App.step, hn, ne_eq, not_false_eq_true, ↓reduceIte]
      exact ⟨fun h => .inl h, fun h => .inl h⟩
  | call ph w b =>
    simp only [App.step]
    cases hml : (if ph = true then a.startML else a.stopML) with
    | none => exact ⟨fun h => .inl h, fun h => .inl h⟩
    | some ml =>
      simp only
      cases ph with
      | true =>
        simp only [↓reduceIte]
        rcases onEvents_cases true (ml.next b).2 { a with startML := some (ml.next b).1 } with ⟨_, h⟩ | ⟨hm, h⟩
        · rw [h]; exact ⟨fun h => .inl h, fun h => .inl h⟩
        · rw [h]; refine ⟨fun _ => .inr (.inr ?_), fun h => .inl h⟩
          simp [hm]
      | false =>
        have hs : a.stopML ≠ none := by simp at hml; rw [hml]; simp
        exact ⟨fun _ => .inr (.inl hs), fun _ => .inl hs⟩

/-- For every history: the application reaches Normal (and Stoping/Stopped) only after the
start phase reported success, and a stop phase is begun only *after* that report. -/
theorem app_stop_only_after_start_success (n : Nat) (ops : List AOp) :
    (((App.run n ops).1.st = .normal ∨ (App.run n ops).1.st = .stoping ∨ (App.run n ops).1.st = .stopped) →
      AEv.ev true (Ev.finish true) ∈ (App.run n ops).2) ∧
    (∀ p q, (App.run n ops).2 = p ++ AEv.begin false :: q → AEv.ev true (Ev.finish true) ∈ p) := by
  have h := App.run_induction n
    (fun a tr _ =>
      ((a.st = .normal ∨ a.st = .stoping ∨ a.st = .stopped) → AEv.ev true (Ev.finish true) ∈ tr) ∧
      (a.stopML ≠ none → AEv.ev true (Ev.finish true) ∈ tr) ∧
      (∀ p q, tr = p ++ AEv.begin false :: q → AEv.ev true (Ev.finish true) ∈ p))
    (by simp [App.init])
    (by
      intro a tr done op ⟨ih1, ih2, ih3⟩
      obtain ⟨s1, s2⟩ := start_success_step a op
      refine ⟨?_, ?_, ?_⟩
      · intro hst
        rcases s1 hst with h | h | h
        · exact List.mem_append_left _ (ih1 h)
        · exact List.mem_append_left _ (ih2 h)
        · exact List.mem_append_right _ h
      · intro hml
        rcases s2 hml with h | h
        · exact List.mem_append_left _ (ih2 h)
        · exact List.mem_append_left _ (ih1 (.inl h))
      · intro p q heq
        rcases List.append_eq_append_iff.mp heq with ⟨a', hp, hevs⟩ | ⟨c', htr, hc⟩
        · have : AEv.begin false ∈ (a.step op).2 := by rw [hevs]; simp
          rw [hp]
          exact List.mem_append_left _ (ih1 (.inl (begin_stop_step a op this)))
        · cases c' with
          | nil =>
            simp at hc htr
            have : AEv.begin false ∈ (a.step op).2 := by rw [← hc]; simp
            rw [← htr]
            exact ih1 (.inl (begin_stop_step a op this))
          | cons x c' =>
            simp at hc
            exact ih3 p c' (by rw [htr, hc.1]))
    ops
  exact ⟨h.1, h.2.2⟩

/-- The start phase of the application *is* one `Filter` run: for every history, its
events are `run n true cs` for a subsequence `cs` of the start-phase completions that were
issued — so every theorem above applies to `App.Start` (and `finish` is forwarded unchanged). -/
theorem app_start_phase_is_filter (n : Nat) (ops : List AOp) :
    phaseEvs true (App.run n ops).2 = [] ∨
    ∃ cs, cs.Sublist (opCalls true ops) ∧ phaseEvs true (App.run n ops).2 = run n true cs := by
  have h := App.run_induction n
    (fun a tr done => a.n = n ∧
      ((a.st = .prepared ∧ a.startML = none ∧ a.stopML = none ∧ phaseEvs true tr = []) ∨
       (a.st ≠ .prepared ∧ ∃ cs s, a.startML = some s ∧ cs.Sublist (opCalls true done) ∧
          runFrom (filter n true).1 (filter n true).2 cs = (s, phaseEvs true tr))))
    ⟨rfl, .inl ⟨rfl, rfl, rfl, rfl⟩⟩
    (by
      intro a tr done op ⟨hn, ih⟩
      cases op with
      | start =>
        by_cases hp : a.st = .prepared
        · rcases ih with ⟨_, _, _, hev⟩ | ⟨h, _⟩
          · simp only [App.step, hp, ne_eq, not_true_eq_false, ↓reduceIte]
            rcases onEvents_cases true (filter a.n true).2 { a with st := .starting, startML := some (filter a.n true).1 } with ⟨_, h⟩ | ⟨_, h⟩ <;>
            · rw [h]
              refine ⟨hn, .inr ⟨by simp, [], (filter n true).1, by simp [hn], List.nil_sublist _, ?_⟩⟩
              rw [phaseEvs_append, hev]
              simp [phaseEvs, phaseEvs_evs_same, runFrom, hn]
          · exact absurd hp h
        · simp only [App.step, hp, ne_eq, not_false_eq_true, ↓reduceIte, List.append_nil]
          refine ⟨hn, ?_⟩
          rcases ih with ⟨h, _⟩ | ⟨h, cs, s, h1, h2, h3⟩
          · exact absurd h hp
          · exact .inr ⟨(by first | trivial | assumption), cs, s, h1, by rw [opCalls_append]; simpa [opCalls] using h2, h3⟩
      | stop =>
        by_cases hnm : a.st = .normal
        · rcases ih with ⟨h, _⟩ | ⟨h, cs, s, h1, h2, h3⟩
          · rw [hnm] at h; cases h
          · simp only [App.step, hnm, ne_eq, not_true_eq_false, ↓reduceIte]
            rcases onEvents_cases false (filter a.n false).2 { a with st := .stoping, stopML := some (filter a.n false).1 } with ⟨_, h'⟩ | ⟨_, h'⟩ <;>
            · rw [h']
              refine ⟨hn, .inr ⟨by simp, cs, s, h1, by rw [opCalls_append]; simpa [opCalls] using h2, ?_⟩⟩
              rw [phaseEvs_append]
              simp [phaseEvs, phaseEvs_evs_other, h3]
        · simp only [App.step, hnm, ne_eq, not_false_eq_true, ↓reduceIte, List.append_nil]
          refine ⟨hn, ?_⟩
          rcases ih with h | ⟨h, cs, s, h1, h2, h3⟩
          · exact .inl h
          · exact .inr ⟨h, cs, s, h1, by rw [opCalls_append]; simpa [opCalls] using h2, h3⟩
      | call ph w b =>
        cases ph with
        | true =>
          rcases ih with ⟨h0, h1, h2, h3⟩ | ⟨h, cs, s, h1, h2, h3⟩
          · simp only [App.step, ↓reduceIte, h1, List.append_nil]
            exact ⟨hn, .inl ⟨(by first | trivial | assumption), (by first | trivial | assumption), (by first | trivial | assumption), (by first | trivial | assumption)⟩⟩
          · simp only [App.step, ↓reduceIte, h1]
            have hsub : (cs ++ [(w, b)]).Sublist (opCalls true (done ++ [AOp.call true w b])) := by
              rw [opCalls_append]; simp only [opCalls, ↓reduceIte]
              exact List.Sublist.append h2 (List.Sublist.refl _)
            have hrun : runFrom (filter n true).1 (filter n true).2 (cs ++ [(w, b)]) =
                ((s.next b).1, phaseEvs true (tr ++ AEv.ev true (Ev.call w b) :: (s.next b).2.map (AEv.ev true))) := by
              rw [runFrom_snoc, h3, phaseEvs_append]
              simp [phaseEvs, phaseEvs_evs_same]
            rcases onEvents_cases true (s.next b).2 { a with startML := some (s.next b).1 } with ⟨_, h'⟩ | ⟨_, h'⟩ <;>
            · rw [h']
              exact ⟨hn, .inr ⟨by simp [h], cs ++ [(w, b)], (s.next b).1, rfl, hsub, hrun⟩⟩
        | false =>
          rcases ih with ⟨h0, h1, h2, h3⟩ | ⟨h, cs, s, h1, h2, h3⟩
          · simp only [App.step, Bool.false_eq_true, ↓reduceIte, h2, List.append_nil]
            exact ⟨hn, .inl ⟨(by first | trivial | assumption), (by first | trivial | assumption), (by first | trivial | assumption), (by first | trivial | assumption)⟩⟩
          · simp only [App.step, Bool.false_eq_true, ↓reduceIte]
            have hsub : cs.Sublist (opCalls true (done ++ [AOp.call false w b])) := by
              rw [opCalls_append]; simpa [opCalls] using h2
            cases hml : a.stopML with
            | none => simp only [List.append_nil]; exact ⟨hn, .inr ⟨h, cs, s, h1, hsub, h3⟩⟩
            | some ml =>
              simp only
              have hev : phaseEvs true (tr ++ AEv.ev false (Ev.call w b) :: (ml.next b).2.map (AEv.ev false)) = phaseEvs true tr := by
                rw [phaseEvs_append]; simp [phaseEvs, phaseEvs_evs_other]
              rcases onEvents_cases false (ml.next b).2 { a with stopML := some (ml.next b).1 } with ⟨_, h'⟩ | ⟨_, h'⟩ <;>
              · rw [h', hev]
                exact ⟨hn, .inr ⟨by simp [h], cs, s, h1, hsub, h3⟩⟩)
    ops
  rcases h.2 with ⟨_, _, _, h⟩ | ⟨_, cs, s, _, h2, h3⟩
  · exact .inl h
  · exact .inr ⟨cs, h2, by simp [run, h3]⟩

/-- The same for `App.Stop`: as long as the stop phase was begun at most once (always the
case when the modules keep the discipline: only a second success report of the start phase can
re-open the guard), its events are one `Filter` run in reverse order. -/
theorem app_stop_phase_is_filter (n : Nat) (ops : List AOp) (h1 : begins false (App.run n ops).2 ≤ 1) :
    phaseEvs false (App.run n ops).2 = [] ∨
    ∃ cs, cs.Sublist (opCalls false ops) ∧ phaseEvs false (App.run n ops).2 = run n false cs := by
  have h := App.run_induction n
    (fun a tr done => a.n = n ∧
      ((begins false tr = 0 ∧ a.stopML = none ∧ phaseEvs false tr = []) ∨
       (begins false tr = 1 ∧ ∃ cs s, a.stopML = some s ∧ cs.Sublist (opCalls false done) ∧
          runFrom (filter n false).1 (filter n false).2 cs = (s, phaseEvs false tr)) ∨
       2 ≤ begins false tr))
    ⟨rfl, .inl ⟨rfl, rfl, rfl⟩⟩
    (by
      intro a tr done op ⟨hn, ih⟩
      have hmono : ∀ evs, 2 ≤ begins false tr → 2 ≤ begins false (tr ++ evs) := by
        intro evs h; rw [begins_append]; omega
      cases op with
      | stop =>
        by_cases hnm : a.st = .normal
        · simp only [App.step, hnm, ne_eq, not_true_eq_false, ↓reduceIte]
          have hb : begins false (tr ++ AEv.begin false :: (filter a.n false).2.map (AEv.ev false)) = begins false tr + 1 := by
            rw [begins_append]
            have : begins false (AEv.begin false :: (filter a.n false).2.map (AEv.ev false)) =
                1 + begins false ((filter a.n false).2.map (AEv.ev false)) := by simp [begins, Nat.add_comm]
            rw [this, begins_evs]
          rcases onEvents_cases false (filter a.n false).2 { a with st := .stoping, stopML := some (filter a.n false).1 } with ⟨_, h'⟩ | ⟨_, h'⟩ <;>
          · rw [h', hb]
            refine ⟨hn, ?_⟩
            rcases ih with ⟨h0, _, hev⟩ | ⟨h1', _⟩ | h2
            · refine .inr (.inl ⟨by omega, [], (filter n false).1, by simp [hn], List.nil_sublist _, ?_⟩)
              rw [phaseEvs_append, hev]
              simp [phaseEvs, phaseEvs_evs_same, runFrom, hn]
            · exact .inr (.inr (by omega))
            · exact .inr (.inr (by omega))
        · simp only [App.step, hnm, ne_eq, not_false_eq_true, ↓reduceIte, List.append_nil]
          refine ⟨hn, ?_⟩
          rcases ih with h | ⟨h, cs, s, h1', h2, h3⟩ | h
          · exact .inl h
          · exact .inr (.inl ⟨h, cs, s, h1', by rw [opCalls_append]; simpa [opCalls] using h2, h3⟩)
          · exact .inr (.inr h)
      | start =>
        by_cases hp : a.st = .prepared
        · simp only [App.step, hp, ne_eq, not_true_eq_false, ↓reduceIte]
          have hb : begins false (tr ++ AEv.begin true :: (filter a.n true).2.map (AEv.ev true)) = begins false tr := by
            rw [begins_append]
            have : begins false (AEv.begin true :: (filter a.n true).2.map (AEv.ev true)) =
                begins false ((filter a.n true).2.map (AEv.ev true)) := by simp [begins]
            rw [this, begins_evs]; rfl
          have hev : phaseEvs false (tr ++ AEv.begin true :: (filter a.n true).2.map (AEv.ev true)) = phaseEvs false tr := by
            rw [phaseEvs_append]; simp [phaseEvs, phaseEvs_evs_other]
          rcases onEvents_cases true (filter a.n true).2 { a with st := .starting, startML := some (filter a.n true).1 } with ⟨_, h'⟩ | ⟨_, h'⟩ <;>
          · rw [h', hb, hev]
            refine ⟨hn, ?_⟩
            rcases ih with h | ⟨h, cs, s, h1', h2, h3⟩ | h
            · exact .inl h
            · exact .inr (.inl ⟨h, cs, s, h1', by rw [opCalls_append]; simpa [opCalls] using h2, h3⟩)
            · exact .inr (.inr h)
        · simp only [App.step, hp, ne_eq, not_false_eq_true, ↓reduceIte, List.append_nil]
          refine ⟨hn, ?_⟩
          rcases ih with h | ⟨h, cs, s, h1', h2, h3⟩ | h
          · exact .inl h
          · exact .inr (.inl ⟨h, cs, s, h1', by rw [opCalls_append]; simpa [opCalls] using h2, h3⟩)
          · exact .inr (.inr h)
      | call ph w b =>
        cases ph with
        | false =>
          rcases ih with ⟨h0, h1', h3⟩ | ⟨h, cs, s, h1', h2, h3⟩ | h
          · simp only [App.step, Bool.false_eq_true, ↓reduceIte, h1', List.append_nil]
            exact ⟨hn, .inl ⟨h0, (by first | trivial | assumption), h3⟩⟩
          · simp only [App.step, Bool.false_eq_true, ↓reduceIte, h1']
            have hsub : (cs ++ [(w, b)]).Sublist (opCalls false (done ++ [AOp.call false w b])) := by
              rw [opCalls_append]; simp only [opCalls, ↓reduceIte]
              exact List.Sublist.append h2 (List.Sublist.refl _)
            have hrun : runFrom (filter n false).1 (filter n false).2 (cs ++ [(w, b)]) =
                ((s.next b).1, phaseEvs false (tr ++ AEv.ev false (Ev.call w b) :: (s.next b).2.map (AEv.ev false))) := by
              rw [runFrom_snoc, h3, phaseEvs_append]
              simp [phaseEvs, phaseEvs_evs_same]
            have hb : begins false (tr ++ AEv.ev false (Ev.call w b) :: (s.next b).2.map (AEv.ev false)) = begins false tr := by
              rw [begins_append]
              have : begins false (AEv.ev false (Ev.call w b) :: (s.next b).2.map (AEv.ev false)) =
                  begins false ((s.next b).2.map (AEv.ev false)) := by simp [begins]
              rw [this, begins_evs]; rfl
            rcases onEvents_cases false (s.next b).2 { a with stopML := some (s.next b).1 } with ⟨_, h'⟩ | ⟨_, h'⟩ <;>
            · rw [h', hb]
              exact ⟨hn, .inr (.inl ⟨h, cs ++ [(w, b)], (s.next b).1, rfl, hsub, hrun⟩)⟩
          · simp only [App.step, Bool.false_eq_true, ↓reduceIte]
            cases hml : a.stopML with
            | none => simp only [List.append_nil]; exact ⟨hn, .inr (.inr h)⟩
            | some ml =>
              simp only
              rcases onEvents_cases false (ml.next b).2 { a with stopML := some (ml.next b).1 } with ⟨_, h'⟩ | ⟨_, h'⟩ <;>
              · rw [h']; exact ⟨hn, .inr (.inr (hmono _ h))⟩
        | true =>
          simp only [App.step, ↓reduceIte]
          cases hml : a.startML with
          | none =>
            simp only [List.append_nil]
            refine ⟨hn, ?_⟩
            rcases ih with h | ⟨h, cs, s, h1', h2, h3⟩ | h
            · exact .inl h
            · exact .inr (.inl ⟨h, cs, s, h1', by rw [opCalls_append]; simpa [opCalls] using h2, h3⟩)
            · exact .inr (.inr h)
          | some ml =>
            simp only
            have hb : begins false (tr ++ AEv.ev true (Ev.call w b) :: (ml.next b).2.map (AEv.ev true)) = begins false tr := by
              rw [begins_append]
              have : begins false (AEv.ev true (Ev.call w b) :: (ml.next b).2.map (AEv.ev true)) =
                  begins false ((ml.next b).2.map (AEv.ev true)) := by simp [begins]
              rw [this, begins_evs]; rfl
            have hev : phaseEvs false (tr ++ AEv.ev true (Ev.call w b) :: (ml.next b).2.map (AEv.ev true)) = phaseEvs false tr := by
              rw [phaseEvs_append]; simp [phaseEvs, phaseEvs_evs_other]
            rcases onEvents_cases true (ml.next b).2 { a with startML := some (ml.next b).1 } with ⟨_, h'⟩ | ⟨_, h'⟩ <;>
            · rw [h', hb, hev]
              refine ⟨hn, ?_⟩
              rcases ih with h | ⟨h, cs, s, h1', h2, h3⟩ | h
              · exact .inl h
              · exact .inr (.inl ⟨h, cs, s, h1', by rw [opCalls_append]; simpa [opCalls] using h2, h3⟩)
              · exact .inr (.inr h))
    ops
  rcases h.2 with ⟨_, _, h⟩ | ⟨_, cs, s, _, h2, h3⟩ | h
  · exact .inl h
  · exact .inr ⟨cs, h2, by simp [run, h3]⟩
  · omega

/-- invariant behind `app_stop_once`: every begun stop phase has used up one report of the start phase -/
private theorem stop_begins_le_start_reports (n : Nat) (ops : List AOp) :
    begins false (App.run n ops).2 ≤ (finishes (phaseEvs true (App.run n ops).2)).length := by
  have h := App.run_induction n
    (fun a tr _ => begins false tr ≤ (finishes (phaseEvs true tr)).length ∧
      (a.st = .normal → begins false tr < (finishes (phaseEvs true tr)).length))
    (by simp [App.init, begins, phaseEvs, finishes])
    (by
      intro a tr done op ⟨ih1, ih2⟩
      have hmem : ∀ es : List Ev, Ev.finish true ∈ es → 1 ≤ (finishes es).length := by
        intro es hm
        have : true ∈ finishes es := by
          induction es with
          | nil => simp at hm
          | cons e es ih =>
            cases e with
            | finish b =>
              simp only [List.mem_cons, Ev.finish.injEq] at hm
              rcases hm with h | h
              · simp [finishes, ← h]
              · simp [finishes, ih h]
            | enter i => simp only [List.mem_cons, reduceCtorEq, false_or] at hm; simpa [finishes] using ih hm
            | call w b => simp only [List.mem_cons, reduceCtorEq, false_or] at hm; simpa [finishes] using ih hm
            | oob => simp only [List.mem_cons, reduceCtorEq, false_or] at hm; simpa [finishes] using ih hm
        exact List.length_pos_of_mem this
      cases op with
      | start =>
        by_cases hp : a.st = .prepared
        · simp only [App.step, hp, ne_eq, not_true_eq_false, ↓reduceIte]
          have hb : begins false (tr ++ AEv.begin true :: (filter a.n true).2.map (AEv.ev true)) = begins false tr := by
            rw [begins_append]
            have : begins false (AEv.begin true :: (filter a.n true).2.map (AEv.ev true)) =
                begins false ((filter a.n true).2.map (AEv.ev true)) := by simp [begins]
            rw [this, begins_evs]; rfl
          have hf : finishes (phaseEvs true (tr ++ AEv.begin true :: (filter a.n true).2.map (AEv.ev true))) =
              finishes (phaseEvs true tr) ++ finishes (filter a.n true).2 := by
            rw [phaseEvs_append]; simp [phaseEvs, phaseEvs_evs_same]
          rw [hb, hf, List.length_append]
          rcases onEvents_cases true (filter a.n true).2 { a with st := .starting, startML := some (filter a.n true).1 } with ⟨_, h'⟩ | ⟨hm, h'⟩
          · rw [h']; exact ⟨by omega, by simp⟩
          · rw [h']; have := hmem _ hm; exact ⟨by omega, fun _ => by omega⟩
        · simpa [App.step, hp] using And.intro ih1 ih2
      | stop =>
        by_cases hn : a.st = .normal
        · simp only [App.step, hn, ne_eq, not_true_eq_false, ↓reduceIte]
          have hb : begins false (tr ++ AEv.begin false :: (filter a.n false).2.map (AEv.ev false)) = begins false tr + 1 := by
            rw [begins_append]
            have : begins false (AEv.begin false :: (filter a.n false).2.map (AEv.ev false)) =
                1 + begins false ((filter a.n false).2.map (AEv.ev false)) := by simp [begins, Nat.add_comm]
            rw [this, begins_evs]
          have hf : finishes (phaseEvs true (tr ++ AEv.begin false :: (filter a.n false).2.map (AEv.ev false))) =
              finishes (phaseEvs true tr) := by
            rw [phaseEvs_append]; simp [phaseEvs, phaseEvs_evs_other]
          rw [hb, hf]
          have := ih2 hn
          rcases onEvents_cases false (filter a.n false).2 { a with st := .stoping, stopML := some (filter a.n false).1 } with ⟨_, h'⟩ | ⟨_, h'⟩ <;>
          · rw [h']; exact ⟨by omega, by simp⟩
        · simpa [App.step, hn] using And.intro ih1 ih2
      | call ph w b =>
        simp only [App.step]
        cases hml : (if ph = true then a.startML else a.stopML) with
        | none => simpa using And.intro ih1 ih2
        | some ml =>
          simp only
          have hb : begins false (tr ++ AEv.ev ph (Ev.call w b) :: (ml.next b).2.map (AEv.ev ph)) = begins false tr := by
            rw [begins_append]
            have : begins false (AEv.ev ph (Ev.call w b) :: (ml.next b).2.map (AEv.ev ph)) =
                begins false ((ml.next b).2.map (AEv.ev ph)) := by simp [begins]
            rw [this, begins_evs]; rfl
          rw [hb]
          generalize hA : (if ph = true then { a with startML := some (ml.next b).1 } else { a with stopML := some (ml.next b).1 }) = a'
          have hst : a'.st = a.st := by subst hA; cases ph <;> simp
          cases ph with
          | true =>
            have hf : finishes (phaseEvs true (tr ++ AEv.ev true (Ev.call w b) :: (ml.next b).2.map (AEv.ev true))) =
                finishes (phaseEvs true tr) ++ finishes (ml.next b).2 := by
              rw [phaseEvs_append]; simp [phaseEvs, phaseEvs_evs_same, finishes]
            rw [hf, List.length_append]
            rcases onEvents_cases true (ml.next b).2 a' with ⟨_, h'⟩ | ⟨hm, h'⟩
            · rw [h', hst]; exact ⟨by omega, fun hn => by have := ih2 hn; omega⟩
            · rw [h']; have := hmem _ hm; exact ⟨by omega, fun _ => by omega⟩
          | false =>
            have hf : finishes (phaseEvs true (tr ++ AEv.ev false (Ev.call w b) :: (ml.next b).2.map (AEv.ev false))) =
                finishes (phaseEvs true tr) := by
              rw [phaseEvs_append]; simp [phaseEvs, phaseEvs_evs_other]
            rw [hf]
            rcases onEvents_cases false (ml.next b).2 a' with ⟨_, h'⟩ | ⟨_, h'⟩
            · rw [h', hst]; exact ⟨ih1, ih2⟩
            · rw [h']; exact ⟨ih1, by simp⟩)
    ops
  exact h.1

/-- **the stop phase is begun at most once** when the start phase's modules keep the discipline (the
side condition of `app_stop_phase_is_filter`, discharged): `App.Stop` is accepted only in state
Normal, and only a report of the start phase puts the application (back) into Normal — a
disciplined start phase reports at most once. -/
theorem app_stop_once (n : Nat) (ops : List AOp) (hd : Disciplined (phaseEvs true (App.run n ops).2)) :
    begins false (App.run n ops).2 ≤ 1 := by
  have h := stop_begins_le_start_reports n ops
  rcases app_start_phase_is_filter n ops with h0 | ⟨cs, _, hrun⟩
  · rw [h0] at h; simp only [finishes, List.length_nil] at h; omega
  · rw [hrun] at h hd
    have := finish_at_most_once n true cs hd
    omega

/-- `App.Stop`'s phase is one `Filter` run in reverse order whenever the start phase's modules kept
the discipline (no side condition left). -/
theorem app_stop_phase_is_filter_disciplined (n : Nat) (ops : List AOp)
    (hd : Disciplined (phaseEvs true (App.run n ops).2)) :
    phaseEvs false (App.run n ops).2 = [] ∨
    ∃ cs, cs.Sublist (opCalls false ops) ∧ phaseEvs false (App.run n ops).2 = run n false cs :=
  app_stop_phase_is_filter n ops (app_stop_once n ops hd)

/-- the discipline is needed: a second success report of the start phase re-opens the guard and a
second stop phase is begun -/
example : begins false (App.run 1 [.start, .call true 0 true, .stop, .call true 0 true, .stop]).2 = 2 := by decide

/-! non-vacuity for the App theorems: a complete life cycle (both phases begun exactly once, final
state Stopped), and a Stop that is refused because start-up failed -/
example :
    let r := App.run 2 [.stop, .start, .start, .call true 0 true, .call true 1 true, .stop,
                         .call false 1 true, .call false 0 true, .stop]
    r.1.st = .stopped ∧ begins true r.2 = 1 ∧ begins false r.2 = 1 ∧
    phaseEvs true r.2 = run 2 true [(0, true), (1, true)] ∧ phaseEvs false r.2 = run 2 false [(1, true), (0, true)] := by
  decide
example : (App.run 2 [.start, .call true 0 false, .stop]).1.st = .starting ∧
    begins false (App.run 2 [.start, .call true 0 false, .stop]).2 = 0 := by decide

/-! ## node/app.App: StartNode / StopNode (baseapp.LaunchApp in between) -/

/-- **what StartNode does when it cannot start**: without a nodes table, with an unknown node id, or
when `LaunchApp` finds neither the named launch mode nor a default one, nothing happens at all — no
module is registered or entered and the caller's callback is never invoked (the three silent
`return`s of node/app/app.go and baseapp/launch.go; the statement's "exactly once" is about accepted
calls). -/
theorem node_refusals_silent (s : Node) (known : Bool) (adds : Nat)
    (h : s.env.nodesLoaded = false ∨ known = false ∨ s.env.resolves = false) :
    s.step (.startNode known adds) = (s, []) := by
  rcases h with h | h | h <;> simp [Node.step, h]

/-- **the node's callbacks are the App's reports**: for every history of node operations, the caller's
start callback is invoked exactly when the embedded App's start phase reports, with the same value, and
the stop callback likewise (nothing is added, dropped or changed by StartNode / StopNode). -/
theorem node_callbacks_are_app_reports (e : NodeEnv) (ops : List NOp) :
    fins (Node.run e ops).2 = finishes (phaseEvs true (appEvs (Node.run e ops).2)) ∧
    finXs (Node.run e ops).2 = finishes (phaseEvs false (appEvs (Node.run e ops).2)) := by
  have gen : ∀ (ops : List NOp) (s : Node) (tr : List NEv),
      (fins tr = finishes (phaseEvs true (appEvs tr)) ∧ finXs tr = finishes (phaseEvs false (appEvs tr))) →
      fins (Node.runFrom s tr ops).2 = finishes (phaseEvs true (appEvs (Node.runFrom s tr ops).2)) ∧
      finXs (Node.runFrom s tr ops).2 = finishes (phaseEvs false (appEvs (Node.runFrom s tr ops).2)) := by
    intro ops
    induction ops with
    | nil => intro s tr h; exact h
    | cons op ops ih =>
      intro s tr ⟨h1, h2⟩
      apply ih
      have hstep : fins (s.step op).2 = finishes (phaseEvs true (appEvs (s.step op).2)) ∧
          finXs (s.step op).2 = finishes (phaseEvs false (appEvs (s.step op).2)) := by
        cases op with
        | startNode known adds =>
          simp only [Node.step]
          split
          · exact ⟨rfl, rfl⟩
          · simp [fins, finXs, appEvs, fins_nodeLog, finXs_nodeLog, appEvs_nodeLog]
        | stopNode => simp [Node.step, fins_nodeLog, finXs_nodeLog, appEvs_nodeLog]
        | call ph w b => simp [Node.step, fins_nodeLog, finXs_nodeLog, appEvs_nodeLog]
      simp only [fins_append, finXs_append, appEvs_append, phaseEvs_append, finishes_append, h1, h2, hstep.1, hstep.2, and_self]
  exact gen ops (Node.init e) [] ⟨rfl, rfl⟩

/-- **services are started inside the completion closure, whatever the outcome**: each report
`finish(b)` of the App's start phase is followed directly by `StartServices` (the configured
services in order, unconfigured ones skipped), `StartNodeCtrl` and then the caller's `fin(b)` — also
for `b = false` (a node whose modules failed to start still starts its services). -/
theorem node_services_then_fin (svc : List Bool) (p q : List AEv) (b : Bool) :
    nodeLog svc (p ++ AEv.ev true (Ev.finish b) :: q) =
      nodeLog svc p ++ NEv.app (AEv.ev true (Ev.finish b)) :: (startedServices svc ++ NEv.nodeCtrl :: NEv.fin b :: nodeLog svc q) := by
  rw [nodeLog_append]; rfl

/-- **an accepted StartNode is `App.Start` over the modules the launch mode registers**: after it,
for every further history (Stop, completions, refused StartNodes, StartNodes whose launch mode
registers nothing more — anything but a second StartNode that registers modules again), what the
embedded App does is `App.run` over that fixed list, so every App / ModList theorem above applies to
the node. -/
theorem node_start_is_app_start (e : NodeEnv) (n : Nat) (ops : List NOp)
    (hok : e.nodesLoaded = true ∧ e.resolves = true) (hno : ∀ op ∈ ops, ∀ k, op = NOp.startNode true k → k = 0) :
    appEvs (Node.run e (.startNode true n :: ops)).2 = (App.run n (.start :: ops.map NOp.toAOp)).2 := by
  have hstep : (Node.init e).step (.startNode true n) =
      ({ env := e, app := ((App.init n).step .start).1 }, NEv.prepare :: nodeLog e.svc ((App.init n).step .start).2) := by
    have := addModules_init n 0
    simp only [Nat.zero_add] at this
    simp [Node.step, Node.init, hok.1, hok.2, this]
  simp only [Node.run, Node.runFrom, App.run, App.runFrom, List.map_cons, NOp.toAOp, hstep, List.nil_append]
  have hst : ((App.init n).step .start).1.st ≠ .prepared := start_step_not_prepared _ rfl
  have := (node_runFrom_app ops { env := e, app := ((App.init n).step .start).1 }
    (NEv.prepare :: nodeLog e.svc ((App.init n).step .start).2) hst hno).2
  simpa [appEvs, appEvs_nodeLog] using this

/-- **StartNode reports exactly once**: an accepted StartNode over modules that keep the discipline
and all complete invokes the caller's callback exactly once (after starting the services), with the
outcome of the module list. -/
theorem node_start_reports_exactly_once (e : NodeEnv) (n : Nat) (ops : List NOp)
    (hok : e.nodesLoaded = true ∧ e.resolves = true) (hno : ∀ op ∈ ops, ∀ k, op = NOp.startNode true k → k = 0)
    (hd : Disciplined (phaseEvs true (App.run n (.start :: ops.map NOp.toAOp)).2))
    (hc : Complete (phaseEvs true (App.run n (.start :: ops.map NOp.toAOp)).2)) :
    ∃ b, fins (Node.run e (.startNode true n :: ops)).2 = [b] ∧
      finishes (phaseEvs true (App.run n (.start :: ops.map NOp.toAOp)).2) = [b] := by
  rw [(node_callbacks_are_app_reports e _).1, node_start_is_app_start e n ops hok hno]
  rcases app_start_phase_is_filter n (.start :: ops.map NOp.toAOp) with h0 | ⟨cs, _, hrun⟩
  · -- impossible: the accepted Start has produced events
    exfalso
    have hne : (filter n true).2 ≠ [] := by
      simp only [filter, ML.doNow]
      (repeat' split) <;> simp
    obtain ⟨rest, hr⟩ := App.runFrom_prefix (ops.map NOp.toAOp) ((App.init n).step .start).1
      ([] ++ ((App.init n).step .start).2)
    simp only [App.run, App.runFrom] at h0
    rw [hr] at h0
    simp [App.step, App.init, phaseEvs_append, phaseEvs, phaseEvs_evs_same, hne] at h0
  · rw [hrun] at hd hc ⊢
    obtain ⟨b, hb, _⟩ := finish_exactly_once n true cs hd hc
    exact ⟨b, hb, hb⟩

/-- non-vacuity: a node whose launch mode registers two modules, one service configured, one not -/
example :
    let e : NodeEnv := { svc := [true, false] }
    (Node.run e [.startNode false 2, .startNode true 2, .call true 0 true, .call true 1 true, .stopNode, .startNode true 0,
                 .call false 1 true, .call false 0 true]).2 =
      [.prepare, .app (.begin true), .app (.ev true (.enter 0)),
       .app (.ev true (.call 0 true)), .app (.ev true (.enter 1)),
       .app (.ev true (.call 1 true)), .app (.ev true (.finish true)), .service 0, .nodeCtrl, .fin true,
       .app (.begin false), .app (.ev false (.enter 1)), .prepare,
       .app (.ev false (.call 1 true)), .app (.ev false (.enter 0)),
       .app (.ev false (.call 0 true)), .app (.ev false (.finish true)), .finX true] := by decide

/-- **a second accepted StartNode registers the launch mode's modules again** (`PrepareModules` runs
before `App.Start`'s guard, which then refuses): nothing is started, but the list has grown, and the
next Stop visits modules that were never started — why "StartNode is called once per node" is a
precondition of the property at node level. -/
theorem second_startnode_witness :
    let e : NodeEnv := {}
    (Node.run e [.startNode true 1, .call true 0 true, .startNode true 1, .stopNode]).2 =
      [.prepare, .app (.begin true), .app (.ev true (.enter 0)), .app (.ev true (.call 0 true)),
       .app (.ev true (.finish true)), .nodeCtrl, .fin true,
       .prepare,
       .app (.begin false), .app (.ev false (.enter 1))] := by decide

/-! ## the modules shipped with the framework (translated from node/modules/** on every run) -/

/-! ### the App composed with ModList's wrapper -/

private theorem app_calls_run : ∀ (cs : List (Nat × Bool)) (a : App) (tr : List AEv) (s : ML),
    a.startML = some s → (a.st = .starting ∨ a.st = .normal) → (a.st = .normal ↔ Ev.finish true ∈ phaseEvs true tr) →
    phaseEvs true (App.runFrom a tr (cs.map fun c => AOp.call true c.1 c.2)).2 = (runFrom s (phaseEvs true tr) cs).2 ∧
    ((App.runFrom a tr (cs.map fun c => AOp.call true c.1 c.2)).1.st = .normal ↔
      Ev.finish true ∈ (runFrom s (phaseEvs true tr) cs).2) ∧
    ((App.runFrom a tr (cs.map fun c => AOp.call true c.1 c.2)).1.st = .starting ∨
      (App.runFrom a tr (cs.map fun c => AOp.call true c.1 c.2)).1.st = .normal) := by
  intro cs
  induction cs with
  | nil => intro a tr s _ hst hiff; exact ⟨rfl, hiff, hst⟩
  | cons c cs ih =>
    intro a tr s hs hst hiff
    obtain ⟨w, b⟩ := c
    have hstep : a.step (.call true w b) =
        (App.onEvents { a with startML := some (s.next b).1 } true (s.next b).2,
         AEv.ev true (Ev.call w b) :: (s.next b).2.map (AEv.ev true)) := by
      simp [App.step, hs]
    have hph : phaseEvs true (tr ++ (AEv.ev true (Ev.call w b) :: (s.next b).2.map (AEv.ev true))) =
        phaseEvs true tr ++ Ev.call w b :: (s.next b).2 := by
      rw [phaseEvs_append]; simp [phaseEvs, phaseEvs_evs_same]
    simp only [List.map_cons, App.runFrom, runFrom, hstep]
    have := ih (App.onEvents { a with startML := some (s.next b).1 } true (s.next b).2)
      (tr ++ (AEv.ev true (Ev.call w b) :: (s.next b).2.map (AEv.ev true))) (s.next b).1
    rw [hph] at this
    apply this
    · rcases onEvents_cases true (s.next b).2 { a with startML := some (s.next b).1 } with ⟨_, h⟩ | ⟨_, h⟩ <;> rw [h]
    · rcases onEvents_cases true (s.next b).2 { a with startML := some (s.next b).1 } with ⟨_, h⟩ | ⟨_, h⟩ <;> rw [h]
      · exact hst
      · exact .inr rfl
    · rcases onEvents_cases true (s.next b).2 { a with startML := some (s.next b).1 } with ⟨hn, h⟩ | ⟨hm, h⟩ <;> rw [h]
      · simp only [List.mem_append, List.mem_cons, reduceCtorEq, hn, or_false]; exact hiff
      · simp only [List.mem_append, List.mem_cons, reduceCtorEq, hm, or_true, iff_true]; rfl

/-- **App.Start over ModList's wrapper** (the composition that was left to the level of `next` calls): start the App and
let the modules do anything at all (`acts`: reports and panics, by any module, in any order); the wrapper of
ModList.Start turns them into `next` calls (`wcalls`).  Then the App's start-phase log is exactly the wrapper model's
log `wrun n true acts` - every ModList / wrapper theorem above applies to `App.Start` as it stands - and the App is in
state Normal afterwards iff that log contains `finish(true)` (else it is still Starting). -/
theorem app_start_is_wrapper_run (n : Nat) (acts : List MAct) :
    phaseEvs true (App.run n (.start :: (wcalls acts).map fun c => AOp.call true c.1 c.2)).2 = wrun n true acts ∧
    ((App.run n (.start :: (wcalls acts).map fun c => AOp.call true c.1 c.2)).1.st = .normal ↔
      Ev.finish true ∈ wrun n true acts) ∧
    ((App.run n (.start :: (wcalls acts).map fun c => AOp.call true c.1 c.2)).1.st = .starting ∨
      (App.run n (.start :: (wcalls acts).map fun c => AOp.call true c.1 c.2)).1.st = .normal) := by
  have hstep : (App.init n).step .start =
      (App.onEvents { App.init n with st := .starting, startML := some (filter n true).1 } true (filter n true).2,
       AEv.begin true :: (filter n true).2.map (AEv.ev true)) := by
    simp [App.step, App.init]
  have hph : phaseEvs true ([] ++ (AEv.begin true :: (filter n true).2.map (AEv.ev true))) = (filter n true).2 := by
    simp [phaseEvs, phaseEvs_evs_same]
  have := app_calls_run (wcalls acts)
    (App.onEvents { App.init n with st := .starting, startML := some (filter n true).1 } true (filter n true).2)
    ([] ++ (AEv.begin true :: (filter n true).2.map (AEv.ev true))) (filter n true).1
  rw [hph] at this
  simp only [App.run, App.runFrom, hstep, wrun, run]
  apply this
  · rcases onEvents_cases true (filter n true).2 { App.init n with st := .starting, startML := some (filter n true).1 } with ⟨_, h⟩ | ⟨_, h⟩ <;> rw [h]
  · rcases onEvents_cases true (filter n true).2 { App.init n with st := .starting, startML := some (filter n true).1 } with ⟨_, h⟩ | ⟨_, h⟩ <;> rw [h]
    · exact .inl rfl
    · exact .inr rfl
  · rcases onEvents_cases true (filter n true).2 { App.init n with st := .starting, startML := some (filter n true).1 } with ⟨hn, h⟩ | ⟨hm, h⟩ <;> rw [h]
    · simp [hn]
    · simp [hm]

/-- **App.Start completes exactly once, panics included**: when every entered module reports at most once and reports
or panics (`MDisciplined`, `MComplete`: hypotheses on the modules only), the App's start phase invokes its `finish`
exactly once, last, with `b`, and the App ends in Normal iff `b = true` - in Starting otherwise, where Stop is refused. -/
theorem app_start_completes_exactly_once (n : Nat) (acts : List MAct)
    (hd : MDisciplined n true acts) (hc : MComplete n true acts) :
    ∃ b, finishes (phaseEvs true (App.run n (.start :: (wcalls acts).map fun c => AOp.call true c.1 c.2)).2) = [b] ∧
      ((App.run n (.start :: (wcalls acts).map fun c => AOp.call true c.1 c.2)).1.st = .normal ↔ b = true) := by
  obtain ⟨h1, h2, _⟩ := app_start_is_wrapper_run n acts
  obtain ⟨b, hb, _, _⟩ := modlist_phase_completes n true acts hd hc
  refine ⟨b, by rw [h1, hb], ?_⟩
  rw [h2]
  have hmem : ∀ (l : List Ev) (x : Bool), Ev.finish x ∈ l ↔ x ∈ finishes l := by
    intro l x
    induction l with
    | nil => simp [finishes]
    | cons e r ih => cases e <;> simp [finishes, ih]
  rw [hmem, hb]; simp [eq_comm]

example : MDisciplined 2 true [.report 0 true, .panic 1] ∧ MComplete 2 true [.report 0 true, .panic 1] ∧
    (App.run 2 (.start :: (wcalls [.report 0 true, .panic 1]).map fun c => AOp.call true c.1 c.2)).1.st = .starting := by
  refine ⟨?_, ?_, by decide⟩
  · intro p a q heq
    have hlen : p.length ≤ 1 := by
      have := congrArg List.length heq
      simp at this; omega
    match p, hlen with
    | [], _ => simp at heq; obtain ⟨rfl, _⟩ := heq; exact ⟨by decide, by simp, by simp⟩
    | [a0], _ => simp at heq; obtain ⟨rfl, rfl, _⟩ := heq; exact ⟨by decide, by simp, by simp⟩
  · intro m hm
    have : m = 0 ∨ m = 1 := by
      have h : wrun 2 true [.report 0 true, .panic 1] = [.enter 0, .call 0 true, .enter 1, .call 1 false, .finish false] := by decide
      rw [h] at hm; simp at hm; exact hm
    rcases this with rfl | rfl
    · exact .inl ⟨true, by decide⟩
    · exact .inr (by decide)

/-! ### optional completion callbacks (`if finish != nil`)

App.Start / App.Stop set the state first and invoke the caller's callback - if there is one - afterwards; StopNode
likewise.  In the model the App's transitions (`App.step`, `App.onEvents`) never look at the caller's callback: it exists
only in the caller-level log (`plainLog` / `nodeLog`), from which `dropAbsent` removes the invocations of an absent one. -/

/-- **a plain App's callbacks are the App's reports**: the caller's start / stop callback is invoked exactly when the
phase's `finish` runs, with the same value, and the App-level log is untouched (the plain-App analogue of
`node_callbacks_are_app_reports`). -/
theorem plain_callbacks_are_app_reports (evs : List AEv) :
    appEvs (plainLog evs) = evs ∧ fins (plainLog evs) = finishes (phaseEvs true evs) ∧
    finXs (plainLog evs) = finishes (phaseEvs false evs) := by
  induction evs with
  | nil => exact ⟨rfl, rfl, rfl⟩
  | cons e r ih =>
    obtain ⟨h1, h2, h3⟩ := ih
    cases e with
    | begin ph => simp [plainLog, appEvs, fins, finXs, phaseEvs, h1, h2, h3]
    | ev ph x =>
      cases x <;> cases ph <;> simp [plainLog, appEvs, fins, finXs, phaseEvs, finishes, h1, h2, h3]

/-- **an absent callback takes nothing else away**: whatever callbacks are left out, the App-level events - every
module entered, every report, every `finish` of a phase, hence every state change (`App.step` is a function of the App
and the operation alone) - are exactly those of the run with both callbacks. -/
theorem absent_callback_same_app (hasS hasX : Bool) (l : List NEv) :
    appEvs (dropAbsent hasS hasX l) = appEvs l ∧
    (dropAbsent hasS hasX l).filter (fun e => match e with | .fin _ => false | .finX _ => false | _ => true) =
      l.filter (fun e => match e with | .fin _ => false | .finX _ => false | _ => true) := by
  induction l with
  | nil => exact ⟨rfl, rfl⟩
  | cons e r ih =>
    obtain ⟨h1, h2⟩ := ih
    cases e <;> cases hasS <;> cases hasX <;> simp [dropAbsent, appEvs, h1, h2]

/-- **an absent callback is never invoked, a present one exactly as before** -/
theorem absent_callback_never_invoked (hasS hasX : Bool) (l : List NEv) :
    fins (dropAbsent false hasX l) = [] ∧ finXs (dropAbsent hasS false l) = [] ∧
    fins (dropAbsent true hasX l) = fins l ∧ finXs (dropAbsent hasS true l) = finXs l ∧ dropAbsent true true l = l := by
  induction l with
  | nil => exact ⟨rfl, rfl, rfl, rfl, rfl⟩
  | cons e r ih =>
    obtain ⟨h1, h2, h3, h4, h5⟩ := ih
    cases e <;> cases hasS <;> cases hasX <;> simp [dropAbsent, fins, finXs, h1, h2, h3, h4, h5]

/-- **Start without a callback still opens Stop**: for every App and every operation whose events contain the
start phase's `finish(true)`, a Stop issued afterwards is accepted - and what the caller sees of it with the start
callback left out differs from the full log by that callback's invocations only (non-vacuous: `start_callback_sees_normal`
and the example below). -/
theorem start_without_callback_stop_accepted (a : App) (op : AOp) (hasX : Bool)
    (h : AEv.ev true (Ev.finish true) ∈ (a.step op).2) :
    NEv.app (AEv.begin false) ∈ dropAbsent false hasX (plainLog ((a.step op).1.step .stop).2) := by
  have hb := (start_callback_sees_normal a op h).2
  have key : ∀ (l : List AEv), AEv.begin false ∈ l → NEv.app (AEv.begin false) ∈ dropAbsent false hasX (plainLog l) := by
    intro l
    induction l with
    | nil => intro h; cases h
    | cons e r ih =>
      intro hm
      cases e with
      | begin ph =>
        rcases List.mem_cons.mp hm with h | h
        · cases h; simp [plainLog, dropAbsent]
        · simp [plainLog, dropAbsent, ih h]
      | ev ph x =>
        rcases List.mem_cons.mp hm with h | h
        · cases h
        · cases x <;> cases ph <;> cases hasX <;> simp [plainLog, dropAbsent, ih h]
  exact key _ hb

example : dropAbsent false true (plainLog ((App.run 1 [.start, .call true 0 true]).1.step .stop).2) =
    [.app (.begin false), .app (.ev false (.enter 0))] := by decide

/-- **shipped modules complete exactly once**: the body of every `Start`/`Stop` under
`node/modules` (as translated into `Gen.C11.shipped` from the working tree on this run)
contains no construct the translator could not interpret, and under every assignment of
its (opaque, independent) branch conditions it invokes the completion callback exactly once. -/
theorem shipped_modules_complete_once :
    ∀ m ∈ Cell2v.Gen.C11.shipped, m.body.clean = true ∧ ∀ σ : Nat → Bool, (m.body.exec σ).count = 1 := by
  have h : (Cell2v.Gen.C11.shipped.all fun m => m.body.onceB) = true := by decide
  intro m hm
  exact Stmt.onceB_sound m.body (List.all_eq_true.mp h m hm)

/-- the translator found the modules (the obligation above is not vacuous) -/
theorem shipped_modules_found : Cell2v.Gen.C11.shipped ≠ [] := by decide

/-- … and it found *all* of them: the Start and the Stop of each of the three modules shipped under
node/modules (a module the translator silently skipped — an alias, a promoted method — would make the
obligation above say nothing about it). -/
theorem shipped_modules_named :
    ∀ nm ∈ ["actormodule.ActorSystemModule.Start", "actormodule.ActorSystemModule.Stop",
            "clustermodule.ClusterModule.Start", "clustermodule.ClusterModule.Stop",
            "welcomemodule.WelcomeModule.Start", "welcomemodule.WelcomeModule.Stop"],
      ∃ m ∈ Cell2v.Gen.C11.shipped, m.name = nm := by decide

/-! ### from the shipped bodies to the phase (the composition) -/

/-- **a shipped module under the wrapper, panics included**: module `w` executes a shipped body along
any path (`bs`: the values it reports, as many as the path has `next` calls) and any of its statements
may panic at any point (`pa = some k`: after `k` reports; the translator's "opaque statements do not
panic" is not needed for this) — `ModList`'s wrapper calls `next` for it exactly once. -/
theorem shipped_module_one_next :
    ∀ m ∈ Cell2v.Gen.C11.shipped, ∀ (σ : Nat → Bool) (w : Nat) (bs : List Bool) (pa : Option Nat),
      bs.length = (m.body.exec σ).count →
      ∃ b, wcalls (bodyActs w bs pa) = [(w, b)] := by
  intro m hm σ w bs pa hlen
  rw [(shipped_modules_complete_once m hm).2 σ] at hlen
  match bs, hlen with
  | [b], _ =>
    match pa with
    | none => exact ⟨b, by simp [bodyActs, wcalls, wcallsFrom, Wrap.step]⟩
    | some 0 => exact ⟨false, by simp [bodyActs, wcalls, wcallsFrom, Wrap.step]⟩
    | some (k + 1) => exact ⟨b, by simp [bodyActs, wcalls, wcallsFrom, Wrap.step]⟩

private theorem filter_len_two {acts p q : List MAct} {a x : MAct} (P : MAct → Bool)
    (heq : acts = p ++ a :: q) (hx : x ∈ p) (hpx : P x = true) (hpa : P a = true) : 2 ≤ (acts.filter P).length := by
  subst heq
  have h1 : 1 ≤ (p.filter P).length := List.length_pos_of_mem (List.mem_filter.mpr ⟨hx, hpx⟩)
  simp only [List.filter_append, List.length_append, List.filter_cons, hpa, ↓reduceIte, List.length_cons]
  omega

private theorem body_counts (w : Nat) (b : Bool) (pa : Option Nat) :
    ((bodyActs w [b] pa).filter (MAct.isReportOf w)).length ≤ 1 ∧ ((bodyActs w [b] pa).filter (MAct.isPanicOf w)).length ≤ 1 := by
  match pa with
  | none => simp [bodyActs, MAct.isReportOf, MAct.isPanicOf]
  | some 0 => simp [bodyActs, MAct.isReportOf, MAct.isPanicOf]
  | some (k + 1) => simp [bodyActs, MAct.isReportOf, MAct.isPanicOf]

/-- **from "each module's body completes once" to "the phase completes once"**: if every action is
made by an entered module, the actions of each module are those of a body that reports exactly once
on its path — possibly cut short by a panic — and every entered module's Start/Stop does act
(terminates), then the modules keep the discipline, the phase is complete, and `finish` is invoked
exactly once, last, with the overall outcome.  With `shipped_modules_complete_once` (every shipped
body reports exactly once on every path) this is the property for any list built from the shipped
modules, and from any other module whose bodies pass the same check. -/
theorem once_modules_phase_completes (n : Nat) (fwd : Bool) (acts : List MAct)
    (hent : ∀ p a q, acts = p ++ a :: q → Ev.enter a.who ∈ wrun n fwd p)
    (hbody : ∀ w, acts.filter (fun a => a.who == w) = [] ∨ ∃ b pa, acts.filter (fun a => a.who == w) = bodyActs w [b] pa)
    (hterm : ∀ m, Ev.enter m ∈ wrun n fwd acts → acts.filter (fun a => a.who == m) ≠ []) :
    MDisciplined n fwd acts ∧ MComplete n fwd acts ∧
    ∃ b, finishes (wrun n fwd acts) = [b] ∧ (wrun n fwd acts).getLast? = some (Ev.finish b) := by
  have hcounts : ∀ w, (acts.filter (MAct.isReportOf w)).length ≤ 1 ∧ (acts.filter (MAct.isPanicOf w)).length ≤ 1 := by
    intro w
    have e1 : acts.filter (MAct.isReportOf w) = (acts.filter (fun a => a.who == w)).filter (MAct.isReportOf w) := by
      rw [List.filter_filter]; congr 1; funext a; cases a <;> simp [MAct.isReportOf, MAct.who]
    have e2 : acts.filter (MAct.isPanicOf w) = (acts.filter (fun a => a.who == w)).filter (MAct.isPanicOf w) := by
      rw [List.filter_filter]; congr 1; funext a; cases a <;> simp [MAct.isPanicOf, MAct.who]
    rw [e1, e2]
    rcases hbody w with h | ⟨b, pa, h⟩
    · rw [h]; simp
    · rw [h]; exact body_counts w b pa
  have hd : MDisciplined n fwd acts := by
    intro p a q heq
    refine ⟨hent p a q heq, ?_, ?_⟩
    · intro w b ha b' hmem
      have := filter_len_two (MAct.isReportOf w) heq hmem (by simp [MAct.isReportOf]) (by simp [ha, MAct.isReportOf])
      have := (hcounts w).1
      omega
    · intro w ha hmem
      have := filter_len_two (MAct.isPanicOf w) heq hmem (by simp [MAct.isPanicOf]) (by simp [ha, MAct.isPanicOf])
      have := (hcounts w).2
      omega
  have hc : MComplete n fwd acts := by
    intro m hm
    have hne := hterm m hm
    obtain ⟨a, ha⟩ := List.exists_mem_of_ne_nil _ hne
    obtain ⟨hin, hw⟩ := List.mem_filter.mp ha
    cases a with
    | report w b =>
      simp only [MAct.who, beq_iff_eq] at hw
      exact .inl ⟨b, hw ▸ hin⟩
    | panic w =>
      simp only [MAct.who, beq_iff_eq] at hw
      exact .inr (hw ▸ hin)
  obtain ⟨b, h1, h2, _⟩ := modlist_phase_completes n fwd acts hd hc
  exact ⟨hd, hc, b, h1, h2⟩

/-- non-vacuity: the hypotheses are satisfiable — three modules with once-bodies, module 0 reports
success, module 1's Start panics before reporting (module 2 is never entered) -/
example :
    (∀ p a q, [MAct.report 0 true, .panic 1] = p ++ a :: q → Ev.enter a.who ∈ wrun 3 true p) ∧
    (∀ w, [MAct.report 0 true, .panic 1].filter (fun a => a.who == w) = [] ∨
      ∃ b pa, [MAct.report 0 true, .panic 1].filter (fun a => a.who == w) = bodyActs w [b] pa) ∧
    (∀ m, Ev.enter m ∈ wrun 3 true [.report 0 true, .panic 1] →
      [MAct.report 0 true, .panic 1].filter (fun a => a.who == m) ≠ []) := by
  refine ⟨?_, ?_, ?_⟩
  · intro p a q heq
    match p with
    | [] => simp at heq; obtain ⟨rfl, _⟩ := heq; decide
    | [x] => simp at heq; obtain ⟨rfl, rfl, _⟩ := heq; decide
    | _ :: _ :: _ :: _ => simp at heq
    | [_, _] => simp at heq
  · intro w
    match w with
    | 0 => exact .inr ⟨true, none, by decide⟩
    | 1 => exact .inr ⟨true, some 0, by decide⟩
    | k + 2 => exact .inl (by simp [MAct.who])
  · intro m hm
    have h : wrun 3 true [.report 0 true, .panic 1] = [.enter 0, .call 0 true, .enter 1, .call 1 false, .finish false] := by decide
    rw [h] at hm
    simp at hm
    rcases hm with rfl | rfl <;> decide

/-- D2, as translated before the `fix:` commit (`return` missing after `next(false)` in
`ClusterModule.Start`): the branch "StartMember failed" calls `next` twice. -/
def d2Body : Stmt :=
  .seq (.ite 0 (.seq (.callNext (some true)) .ret) .skip)
    (.seq (.ite 1 (.seq (.callNext (some false)) .ret) .skip)
      (.seq (.ite 2 (.callNext (some false)) .skip) (.callNext (some true))))

theorem d2_completes_twice : d2Body.onceB = false ∧ (d2Body.exec fun c => c == 2).count = 2 := by decide

end Cell2v.Props.C11
