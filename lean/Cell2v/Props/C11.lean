import Cell2v.Lemmas.Modules
import Cell2v.Gen.C11Modules
/-!
C11 — property theorems: modules start in order, stop in reverse; each phase
completes exactly once.

`run n fwd cs` is the observable log of one `ModList.Filter` invocation over `n`
modules (`fwd = true`: Start, registration order; `fwd = false`: Stop) driven by an
arbitrary chronological sequence `cs` of completion events `(w, b)` = "module `w`
invoked `next(b)`", synchronously or later, from any goroutine.  The hypothesis on
the modules is a predicate on the log alone: `Disciplined` = every completion is
made by a module that has been entered and has not completed before (at most
once); `Complete` = every entered module has completed (with `Disciplined`:
exactly once).  Only property statements, non-vacuity examples and defect
witnesses live here.
-/
namespace Cell2v.Props.C11
open Cell2v.Modules

/-! ## the module list (`ModList.Filter`) -/

/-- The log of a disciplined phase is *canonical*: modules are entered one at a
time in the visiting order, each directly after its predecessor's `next(true)`; a
`next(false)` is followed by `finish(false)` and nothing else; after the last
success exactly `finish(true)`.  (`canonB` is also the predicate the check
evaluates on the logs recorded from the real `ModList`.) -/
theorem disciplined_log_canonical (n : Nat) (fwd : Bool) (cs : List (Nat × Bool))
    (hd : Disciplined (run n fwd cs)) : canonB (ord n fwd) (run n fwd cs) = true := by
  rw [run_eq_arun] at hd ⊢
  exact (shape_of_disciplined _ cs hd).canon

/-- **start order**: the modules entered by `Start` are a prefix of the registration order. -/
theorem start_order (n : Nat) (cs : List (Nat × Bool)) (hd : Disciplined (run n true cs)) :
    enters (run n true cs) <+: List.range n := by
  rw [run_eq_arun] at hd ⊢
  simpa [ord] using (shape_of_disciplined _ cs hd).enters_prefix

/-- **stop order**: the modules entered by `Stop` are a prefix of the reversed registration order. -/
theorem stop_reverse (n : Nat) (cs : List (Nat × Bool)) (hd : Disciplined (run n false cs)) :
    enters (run n false cs) <+: (List.range n).reverse := by
  rw [run_eq_arun] at hd ⊢
  simpa [ord] using (shape_of_disciplined _ cs hd).enters_prefix

/-- **one at a time, only after success**: at the moment any module `m` is entered,
every module entered earlier has already completed, each with success, in the order
they were entered; and `m` is the next one in the visiting order. -/
theorem one_at_a_time (n : Nat) (fwd : Bool) (cs : List (Nat × Bool)) (hd : Disciplined (run n fwd cs))
    (p : List Ev) (m : Nat) (q : List Ev) (heq : run n fwd cs = p ++ Ev.enter m :: q) :
    calls p = (enters p).map (fun i => (i, true)) ∧ (enters p ++ [m]) <+: ord n fwd := by
  rw [run_eq_arun] at hd heq
  have hs := shape_of_disciplined _ cs hd
  obtain ⟨l1, rfl⟩ := hs.before_enter p m q heq
  refine ⟨by simp, ?_⟩
  have hp := hs.enters_prefix
  rw [heq] at hp
  simp only [enters_append, enters_okPart, enters] at hp ⊢
  obtain ⟨r, hr⟩ := hp
  exact ⟨enters q ++ r, by simpa using hr⟩

/-- **first failure ends the phase**: whatever follows a `next(false)` in the log is
exactly `finish(false)` — no later module is entered, nothing else is reported. -/
theorem first_failure_stops (n : Nat) (fwd : Bool) (cs : List (Nat × Bool)) (hd : Disciplined (run n fwd cs))
    (p : List Ev) (w : Nat) (q : List Ev) (heq : run n fwd cs = p ++ Ev.call w false :: q) :
    q = [Ev.finish false] := by
  rw [run_eq_arun] at hd heq
  exact (shape_of_disciplined _ cs hd).after_failure p w q heq

/-- **at most once**: if every started module completes at most once (some may never
complete, e.g. a module that panicked before calling `next`), `finish` is invoked at most once. -/
theorem finish_at_most_once (n : Nat) (fwd : Bool) (cs : List (Nat × Bool)) (hd : Disciplined (run n fwd cs)) :
    (finishes (run n fwd cs)).length ≤ 1 := by
  rw [run_eq_arun] at hd ⊢
  exact (shape_of_disciplined _ cs hd).finishes_le

/-- **exactly once, with the overall outcome**: if every started module completes
exactly once, `finish` is invoked exactly once, it is the last event, and it reports
success iff all `n` modules were entered and every one reported success. -/
theorem finish_exactly_once (n : Nat) (fwd : Bool) (cs : List (Nat × Bool))
    (hd : Disciplined (run n fwd cs)) (hc : Complete (run n fwd cs)) :
    ∃ b, finishes (run n fwd cs) = [b] ∧ (run n fwd cs).getLast? = some (Ev.finish b) ∧
      (b = true ↔ (enters (run n fwd cs) = ord n fwd ∧ ∀ w b', Ev.call w b' ∈ run n fwd cs → b' = true)) := by
  rw [run_eq_arun] at hd hc ⊢
  exact (shape_of_disciplined _ cs hd).complete (ord_nodup n fwd) hc

/-- Whatever the modules do (complete twice, late, never): no module is entered out of
order or twice — the entered modules are a subsequence of the visiting order. -/
theorem order_unconditional (n : Nat) (fwd : Bool) (cs : List (Nat × Bool)) :
    (enters (run n fwd cs)).Sublist (ord n fwd) := by
  rw [run_eq_arun]; exact enters_sublist_arun _ cs

/-- Whatever the modules do, `m.mods[index]` is never out of range (no Go panic inside `doNow`). -/
theorem index_in_range (n : Nat) (fwd : Bool) (cs : List (Nat × Bool)) : Ev.oob ∉ run n fwd cs := by
  rw [run_eq_arun]; exact no_oob_arun _ cs

/-- the executable checks used by the monitor are the hypotheses of the theorems -/
theorem hypotheses_decidable (tr : List Ev) :
    (disciplinedB tr = true ↔ Disciplined tr) ∧ (completeB tr = true ↔ Complete tr) :=
  ⟨disciplinedB_iff tr, completeB_iff tr⟩

/-! non-vacuity: disciplined and complete logs exist (all succeed / failure in the middle / stop phase),
and a disciplined log that is not complete (module 1 never completes) -/
example : Disciplined (run 3 true [(0, true), (1, true), (2, true)]) ∧ Complete (run 3 true [(0, true), (1, true), (2, true)]) :=
  ⟨(disciplinedB_iff _).mp (by decide), (completeB_iff _).mp (by decide)⟩
example : Disciplined (run 3 true [(0, true), (1, false)]) ∧ Complete (run 3 true [(0, true), (1, false)]) :=
  ⟨(disciplinedB_iff _).mp (by decide), (completeB_iff _).mp (by decide)⟩
example : Disciplined (run 4 false [(3, true), (2, true)]) ∧ ¬ Complete (run 4 false [(3, true), (2, true)]) :=
  ⟨(disciplinedB_iff _).mp (by decide), fun h => absurd ((completeB_iff _).mpr h) (by decide)⟩
example : run 3 false [(2, true), (1, true), (0, true)] =
    [.enter 2, .call 2 true, .enter 1, .call 1 true, .enter 0, .call 0 true, .finish true] := by decide

/-- The discipline is necessary (this is what D2 did to the node's start-up before the
`fix:` commit): module 1 reporting `next(false)` and then `next(true)` makes `ModList`
report failure, then start module 2 anyway and finally report success as well. -/
theorem double_completion_witness :
    run 3 true [(0, true), (1, false), (1, true), (2, true)] =
      [.enter 0, .call 0 true, .enter 1, .call 1 false, .finish false, .call 1 true, .enter 2, .call 2 true, .finish true] ∧
    ¬ Disciplined (run 3 true [(0, true), (1, false), (1, true), (2, true)]) :=
  ⟨by decide, fun h => absurd ((disciplinedB_iff _).mpr h) (by decide)⟩

/-! ## a module list that grows while the phase runs (`AddModule` between completions) -/

/-- `doNow` reads `len(m.mods)` live: for any interleaving of completions and `AddModule` calls
that keeps the discipline, the start log is canonical over `range n'` for a length `n'` between
the length at `Filter` time and the final one (so every earlier theorem applies with `n'`). -/
theorem growing_list_canonical (n : Nat) (cmds : List Cmd) (hd : Disciplined (grun n true cmds).2) :
    ∃ n', n ≤ n' ∧ n' ≤ (grun n true cmds).1.n ∧ canonB (List.range n') (grun n true cmds).2 = true ∧
      enters (grun n true cmds).2 <+: List.range n' ∧ (finishes (grun n true cmds).2).length ≤ 1 := by
  obtain ⟨n', h1, h2, hs⟩ := GInv_shape (GInv_grunFrom n cmds _ _ (GInv_init n) hd)
  exact ⟨n', h1, h2, hs.canon, hs.enters_prefix, hs.finishes_le⟩

/-- **late modules are started**: when a completion makes the start phase report success, every
module registered *at that moment* — including the ones added while the phase was running — has
been entered, in registration order. -/
theorem late_modules_started (n : Nat) (cmds : List Cmd) (w : Nat) (b : Bool)
    (hd : Disciplined (grun n true (cmds ++ [.call w b])).2)
    (hfin : (grun n true (cmds ++ [.call w b])).2.getLast? = some (Ev.finish true)) :
    enters (grun n true (cmds ++ [.call w b])).2 = List.range (grun n true (cmds ++ [.call w b])).1.n := by
  simp only [grun, grunFrom_snoc_call] at hd hfin ⊢
  have hpre : Disciplined (grunFrom (filter n true).1 (filter n true).2 cmds).2 := by
    intro p w' b' q heq
    exact hd p w' b' (q ++ Ev.call w b :: ((grunFrom (filter n true).1 (filter n true).2 cmds).1.next b).2)
      (by rw [heq]; simp)
  have hinv := GInv_grunFrom n cmds _ _ (GInv_init n) hpre
  have hl := hd (grunFrom (filter n true).1 (filter n true).2 cmds).2 w b _ rfl
  obtain ⟨_, pos, hp⟩ := GInv_call hinv w b hl
  generalize (grunFrom (filter n true).1 (filter n true).2 cmds).1 = s at hp hfin ⊢
  generalize (grunFrom (filter n true).1 (filter n true).2 cmds).2 = tr at hp hfin ⊢
  have hn : (s.next b).1.n = s.n := by cases b <;> simp [ML.next]
  rw [hn]
  rcases hp with ⟨m, _, htr⟩ | ⟨k, m, _, htr⟩ | htr
  · rw [htr] at hfin; simp at hfin
  · rw [htr] at hfin; simp at hfin
  · rw [htr]; simp [enters]

/-- the stop direction never looks at the live length: modules added while a stop phase runs are
not visited by it -/
theorem stop_ignores_growth (n : Nat) (cmds : List Cmd) :
    (grun n false cmds).2 = run n false (cmdCalls cmds) := by
  by_cases h0 : n = 0
  · subst h0
    simp only [grun, run, filter, ↓reduceIte]
    exact grunFrom_bwd cmds _ _ _ rfl rfl rfl (by simp) (by simp)
  · simp only [grun, run, filter, h0, ↓reduceIte]
    exact grunFrom_bwd cmds _ _ _ rfl rfl rfl (by simp; omega) (by simp; omega)

/-- non-vacuity / what the live length means: module 1 registers a third module right before it
completes; the new module is started and only then success is reported (the mutation that takes
the length once at the top reports `finish true` right after module 1) -/
example : (grun 2 true [.call 0 true, .add, .call 1 true, .call 2 true]).2 =
    [.enter 0, .call 0 true, .enter 1, .call 1 true, .enter 2, .call 2 true, .finish true] := by decide
example : Disciplined (grun 2 true [.call 0 true, .add, .call 1 true, .call 2 true]).2 :=
  (disciplinedB_iff _).mp (by decide)

/-! ## baseapp.App: the state guard -/

/-- **state guard**: `App.Start` does nothing unless the state is Prepared; `App.Stop`
does nothing unless the state is Normal. -/
theorem app_state_guard (a : App) :
    (a.st ≠ .prepared → a.step .start = (a, [])) ∧ (a.st ≠ .normal → a.step .stop = (a, [])) := by
  constructor <;> intro h <;> simp [App.step, h]

/-- **the start-completion callback sees a started application**: `App.Start`'s wrapper
sets the state *before* it invokes the caller's `finish` (a step's `finish` is its last event and
the step's resulting state is the state the callback observes — the driver runs scripted callbacks
exactly there, and the differential run compares this with the real `App`).  So whenever a
start-phase step reports success, the state is Normal and a `Stop` issued at that point — from
inside the callback, or by a goroutine it woke up — is accepted: it begins the stop phase. -/
theorem start_callback_sees_normal (a : App) (op : AOp)
    (h : AEv.ev true (Ev.finish true) ∈ (a.step op).2) :
    (a.step op).1.st = .normal ∧ AEv.begin false ∈ ((a.step op).1.step .stop).2 := by
  have key : (a.step op).1.st = .normal := by
    cases op with
    | start =>
      by_cases hp : a.st = .prepared
      · simp only [App.step, hp, ne_eq, not_true_eq_false, ↓reduceIte] at h ⊢
        have hm : Ev.finish true ∈ (filter a.n true).2 := by simpa using h
        rw [onEvents_finish true _ _ hm]; rfl
      · simp [App.step, hp] at h
    | stop =>
      by_cases hn : a.st = .normal
      · simp [App.step, hn] at h
      · simp [App.step, hn] at h
    | call ph w b =>
      simp only [App.step] at h ⊢
      cases hml : (if ph = true then a.startML else a.stopML) with
      | none => rw [hml] at h; simp at h
      | some ml =>
        rw [hml] at h
        simp only at h ⊢
        cases ph with
        | false => simp at h
        | true =>
          have hm : Ev.finish true ∈ (ml.next b).2 := by simpa using h
          simp only [↓reduceIte]
          rw [onEvents_finish true _ _ hm]; rfl
  refine ⟨key, ?_⟩
  generalize (a.step op).1 = a' at key
  simp [App.step, key]

/-- non-vacuity: the last module's delayed success is such a step -/
example : AEv.ev true (Ev.finish true) ∈ ((App.run 1 [.start]).1.step (.call true 0 true)).2 := by decide

private theorem st_after_events (a : App) (ph : Bool) (es : List Ev) :
    (App.onEvents a ph es).st = a.st ∨ (App.onEvents a ph es).st = (if ph then .normal else .stopped) := by
  rcases onEvents_cases ph es a with ⟨_, h⟩ | ⟨_, h⟩ <;> rw [h] <;> simp

/-- For every history of Start / Stop calls and module completions (disciplined or not)
after one `Prepare`, the start phase is begun at most once. -/
theorem app_start_once (n : Nat) (ops : List AOp) : begins true (App.run n ops).2 ≤ 1 := by
  have h := App.run_induction n
    (fun a tr _ => (a.st = .prepared ∧ begins true tr = 0) ∨ (a.st ≠ .prepared ∧ begins true tr ≤ 1))
    (.inl ⟨rfl, rfl⟩)
    (by
      intro a tr done op ih
      cases op with
      | start =>
        by_cases hp : a.st = .prepared
        · right
          have hb : begins true tr = 0 := by rcases ih with ⟨_, h⟩ | ⟨h, _⟩; exact h; exact absurd hp h
          simp only [App.step, hp, ne_eq, not_true_eq_false, ↓reduceIte]
          constructor
          · rcases st_after_events { a with st := .starting, startML := some (filter a.n true).1 } true (filter a.n true).2 with h | h <;>
              rw [h] <;> simp
          · rw [begins_append, hb]
            have : begins true (AEv.begin true :: (filter a.n true).2.map (AEv.ev true)) =
                1 + begins true ((filter a.n true).2.map (AEv.ev true)) := by
              simp [begins, Nat.add_comm]
            rw [this, begins_evs]; omega
        · simpa [App.step, hp] using ih
      | stop =>
        by_cases hn : a.st = .normal
        · right
          have hnp : a.st ≠ .prepared := by rw [hn]; simp
          have hb : begins true tr ≤ 1 := by rcases ih with ⟨h, _⟩ | ⟨_, h⟩; exact absurd h hnp; exact h
          simp only [App.step, hn, ne_eq, not_true_eq_false, ↓reduceIte]
          constructor
          · rcases st_after_events { a with st := .stoping, stopML := some (filter a.n false).1 } false (filter a.n false).2 with h | h <;>
              rw [h] <;> simp
          · rw [begins_append]
            have : begins true (AEv.begin false :: (filter a.n false).2.map (AEv.ev false)) =
                begins true ((filter a.n false).2.map (AEv.ev false)) := by
              simp [begins]
            rw [this, begins_evs]; exact hb
        · simpa [App.step, hn] using ih
      | call ph w b =>
        simp only [App.step]
        cases hml : (if ph = true then a.startML else a.stopML) with
        | none => simpa using ih
        | some ml =>
          simp only
          have hcnt : begins true (tr ++ AEv.ev ph (Ev.call w b) :: (ml.next b).2.map (AEv.ev ph)) = begins true tr := by
            rw [begins_append]
            have : begins true (AEv.ev ph (Ev.call w b) :: (ml.next b).2.map (AEv.ev ph)) =
                begins true ((ml.next b).2.map (AEv.ev ph)) := by simp [begins]
            rw [this, begins_evs]; rfl
          rw [hcnt]
          generalize hA : (if ph = true then { a with startML := some (ml.next b).1 } else { a with stopML := some (ml.next b).1 }) = a'
          have hst : a'.st = a.st := by subst hA; cases ph <;> simp
          rcases st_after_events a' ph (ml.next b).2 with h | h
          · rw [h, hst]; exact ih
          · right
            refine ⟨by rw [h]; cases ph <;> simp, ?_⟩
            rcases ih with ⟨_, h0⟩ | ⟨_, h1⟩
            · omega
            · exact h1)
    ops
  rcases h with ⟨_, h⟩ | ⟨_, h⟩ <;> omega

private theorem begin_stop_step (a : App) (op : AOp) (h : AEv.begin false ∈ (a.step op).2) : a.st = .normal := by
  cases op with
  | start =>
    by_cases hp : a.st = .prepared <;> simp [App.step, hp] at h
  | stop =>
    by_cases hn : a.st = .normal
    · exact hn
    · simp [App.step, hn] at h
  | call ph w b =>
    simp only [App.step] at h
    cases hml : (if ph = true then a.startML else a.stopML) with
    | none => rw [hml] at h; simp at h
    | some ml => rw [hml] at h; simp at h

private theorem start_success_step (a : App) (op : AOp) :
    (((a.step op).1.st = .normal ∨ (a.step op).1.st = .stoping ∨ (a.step op).1.st = .stopped) →
      (a.st = .normal ∨ a.st = .stoping ∨ a.st = .stopped) ∨ a.stopML ≠ none ∨
        AEv.ev true (Ev.finish true) ∈ (a.step op).2) ∧
    ((a.step op).1.stopML ≠ none → a.stopML ≠ none ∨ a.st = .normal) := by
  cases op with
  | start =>
    by_cases hp : a.st = .prepared
    · simp only [App.step, hp, ne_eq, not_true_eq_false, ↓reduceIte]
      rcases onEvents_cases true (filter a.n true).2 { a with st := .starting, startML := some (filter a.n true).1 } with ⟨_, h⟩ | ⟨hm, h⟩
      · rw [h]; simp
      · rw [h]; refine ⟨fun _ => .inr (.inr ?_), by simp⟩
        simp [hm]
    · simp only [App.step, hp, ne_eq, not_false_eq_true, ↓reduceIte]
      exact ⟨fun h => .inl h, fun h => .inl h⟩
  | stop =>
    by_cases hn : a.st = .normal
    · exact ⟨fun _ => .inl (.inl hn), fun _ => .inr hn⟩
    · simp only [App.step, hn, ne_eq, not_false_eq_true, ↓reduceIte]
      exact ⟨fun h => .inl h, fun h => .inl h⟩
  | call ph w b =>
    simp only [App.step]
    cases hml : (if ph = true then a.startML else a.stopML) with
    | none => exact ⟨fun h => .inl h, fun h => .inl h⟩
    | some ml =>
      simp only
      cases ph with
      | true =>
        simp only [↓reduceIte]
        rcases onEvents_cases true (ml.next b).2 { a with startML := some (ml.next b).1 } with ⟨_, h⟩ | ⟨hm, h⟩
        · rw [h]; exact ⟨fun h => .inl h, fun h => .inl h⟩
        · rw [h]; refine ⟨fun _ => .inr (.inr ?_), fun h => .inl h⟩
          simp [hm]
      | false =>
        have hs : a.stopML ≠ none := by simp at hml; rw [hml]; simp
        exact ⟨fun _ => .inr (.inl hs), fun _ => .inl hs⟩

/-- For every history: the application reaches Normal (and Stoping/Stopped) only after the
start phase reported success, and a stop phase is begun only *after* that report. -/
theorem app_stop_only_after_start_success (n : Nat) (ops : List AOp) :
    (((App.run n ops).1.st = .normal ∨ (App.run n ops).1.st = .stoping ∨ (App.run n ops).1.st = .stopped) →
      AEv.ev true (Ev.finish true) ∈ (App.run n ops).2) ∧
    (∀ p q, (App.run n ops).2 = p ++ AEv.begin false :: q → AEv.ev true (Ev.finish true) ∈ p) := by
  have h := App.run_induction n
    (fun a tr _ =>
      ((a.st = .normal ∨ a.st = .stoping ∨ a.st = .stopped) → AEv.ev true (Ev.finish true) ∈ tr) ∧
      (a.stopML ≠ none → AEv.ev true (Ev.finish true) ∈ tr) ∧
      (∀ p q, tr = p ++ AEv.begin false :: q → AEv.ev true (Ev.finish true) ∈ p))
    (by simp [App.init])
    (by
      intro a tr done op ⟨ih1, ih2, ih3⟩
      obtain ⟨s1, s2⟩ := start_success_step a op
      refine ⟨?_, ?_, ?_⟩
      · intro hst
        rcases s1 hst with h | h | h
        · exact List.mem_append_left _ (ih1 h)
        · exact List.mem_append_left _ (ih2 h)
        · exact List.mem_append_right _ h
      · intro hml
        rcases s2 hml with h | h
        · exact List.mem_append_left _ (ih2 h)
        · exact List.mem_append_left _ (ih1 (.inl h))
      · intro p q heq
        rcases List.append_eq_append_iff.mp heq with ⟨a', hp, hevs⟩ | ⟨c', htr, hc⟩
        · have : AEv.begin false ∈ (a.step op).2 := by rw [hevs]; simp
          rw [hp]
          exact List.mem_append_left _ (ih1 (.inl (begin_stop_step a op this)))
        · cases c' with
          | nil =>
            simp at hc htr
            have : AEv.begin false ∈ (a.step op).2 := by rw [← hc]; simp
            rw [← htr]
            exact ih1 (.inl (begin_stop_step a op this))
          | cons x c' =>
            simp at hc
            exact ih3 p c' (by rw [htr, hc.1]))
    ops
  exact ⟨h.1, h.2.2⟩

/-- The start phase of the application *is* one `Filter` run: for every history, its
events are `run n true cs` for a subsequence `cs` of the start-phase completions that were
issued — so every theorem above applies to `App.Start` (and `finish` is forwarded unchanged). -/
theorem app_start_phase_is_filter (n : Nat) (ops : List AOp) :
    phaseEvs true (App.run n ops).2 = [] ∨
    ∃ cs, cs.Sublist (opCalls true ops) ∧ phaseEvs true (App.run n ops).2 = run n true cs := by
  have h := App.run_induction n
    (fun a tr done => a.n = n ∧
      ((a.st = .prepared ∧ a.startML = none ∧ a.stopML = none ∧ phaseEvs true tr = []) ∨
       (a.st ≠ .prepared ∧ ∃ cs s, a.startML = some s ∧ cs.Sublist (opCalls true done) ∧
          runFrom (filter n true).1 (filter n true).2 cs = (s, phaseEvs true tr))))
    ⟨rfl, .inl ⟨rfl, rfl, rfl, rfl⟩⟩
    (by
      intro a tr done op ⟨hn, ih⟩
      cases op with
      | start =>
        by_cases hp : a.st = .prepared
        · rcases ih with ⟨_, _, _, hev⟩ | ⟨h, _⟩
          · simp only [App.step, hp, ne_eq, not_true_eq_false, ↓reduceIte]
            rcases onEvents_cases true (filter a.n true).2 { a with st := .starting, startML := some (filter a.n true).1 } with ⟨_, h⟩ | ⟨_, h⟩ <;>
            · rw [h]
              refine ⟨hn, .inr ⟨by simp, [], (filter n true).1, by simp [hn], List.nil_sublist _, ?_⟩⟩
              rw [phaseEvs_append, hev]
              simp [phaseEvs, phaseEvs_evs_same, runFrom, hn]
          · exact absurd hp h
        · simp only [App.step, hp, ne_eq, not_false_eq_true, ↓reduceIte, List.append_nil]
          refine ⟨hn, ?_⟩
          rcases ih with ⟨h, _⟩ | ⟨h, cs, s, h1, h2, h3⟩
          · exact absurd h hp
          · exact .inr ⟨(by first | trivial | assumption), cs, s, h1, by rw [opCalls_append]; simpa [opCalls] using h2, h3⟩
      | stop =>
        by_cases hnm : a.st = .normal
        · rcases ih with ⟨h, _⟩ | ⟨h, cs, s, h1, h2, h3⟩
          · rw [hnm] at h; cases h
          · simp only [App.step, hnm, ne_eq, not_true_eq_false, ↓reduceIte]
            rcases onEvents_cases false (filter a.n false).2 { a with st := .stoping, stopML := some (filter a.n false).1 } with ⟨_, h'⟩ | ⟨_, h'⟩ <;>
            · rw [h']
              refine ⟨hn, .inr ⟨by simp, cs, s, h1, by rw [opCalls_append]; simpa [opCalls] using h2, ?_⟩⟩
              rw [phaseEvs_append]
              simp [phaseEvs, phaseEvs_evs_other, h3]
        · simp only [App.step, hnm, ne_eq, not_false_eq_true, ↓reduceIte, List.append_nil]
          refine ⟨hn, ?_⟩
          rcases ih with h | ⟨h, cs, s, h1, h2, h3⟩
          · exact .inl h
          · exact .inr ⟨h, cs, s, h1, by rw [opCalls_append]; simpa [opCalls] using h2, h3⟩
      | call ph w b =>
        cases ph with
        | true =>
          rcases ih with ⟨h0, h1, h2, h3⟩ | ⟨h, cs, s, h1, h2, h3⟩
          · simp only [App.step, ↓reduceIte, h1, List.append_nil]
            exact ⟨hn, .inl ⟨(by first | trivial | assumption), (by first | trivial | assumption), (by first | trivial | assumption), (by first | trivial | assumption)⟩⟩
          · simp only [App.step, ↓reduceIte, h1]
            have hsub : (cs ++ [(w, b)]).Sublist (opCalls true (done ++ [AOp.call true w b])) := by
              rw [opCalls_append]; simp only [opCalls, ↓reduceIte]
              exact List.Sublist.append h2 (List.Sublist.refl _)
            have hrun : runFrom (filter n true).1 (filter n true).2 (cs ++ [(w, b)]) =
                ((s.next b).1, phaseEvs true (tr ++ AEv.ev true (Ev.call w b) :: (s.next b).2.map (AEv.ev true))) := by
              rw [runFrom_snoc, h3, phaseEvs_append]
              simp [phaseEvs, phaseEvs_evs_same]
            rcases onEvents_cases true (s.next b).2 { a with startML := some (s.next b).1 } with ⟨_, h'⟩ | ⟨_, h'⟩ <;>
            · rw [h']
              exact ⟨hn, .inr ⟨by simp [h], cs ++ [(w, b)], (s.next b).1, rfl, hsub, hrun⟩⟩
        | false =>
          rcases ih with ⟨h0, h1, h2, h3⟩ | ⟨h, cs, s, h1, h2, h3⟩
          · simp only [App.step, Bool.false_eq_true, ↓reduceIte, h2, List.append_nil]
            exact ⟨hn, .inl ⟨(by first | trivial | assumption), (by first | trivial | assumption), (by first | trivial | assumption), (by first | trivial | assumption)⟩⟩
          · simp only [App.step, Bool.false_eq_true, ↓reduceIte]
            have hsub : cs.Sublist (opCalls true (done ++ [AOp.call false w b])) := by
              rw [opCalls_append]; simpa [opCalls] using h2
            cases hml : a.stopML with
            | none => simp only [List.append_nil]; exact ⟨hn, .inr ⟨h, cs, s, h1, hsub, h3⟩⟩
            | some ml =>
              simp only
              have hev : phaseEvs true (tr ++ AEv.ev false (Ev.call w b) :: (ml.next b).2.map (AEv.ev false)) = phaseEvs true tr := by
                rw [phaseEvs_append]; simp [phaseEvs, phaseEvs_evs_other]
              rcases onEvents_cases false (ml.next b).2 { a with stopML := some (ml.next b).1 } with ⟨_, h'⟩ | ⟨_, h'⟩ <;>
              · rw [h', hev]
                exact ⟨hn, .inr ⟨by simp [h], cs, s, h1, hsub, h3⟩⟩)
    ops
  rcases h.2 with ⟨_, _, _, h⟩ | ⟨_, cs, s, _, h2, h3⟩
  · exact .inl h
  · exact .inr ⟨cs, h2, by simp [run, h3]⟩

/-- The same for `App.Stop`: as long as the stop phase was begun at most once (always the
case when the modules keep the discipline: only a second success report of the start phase can
re-open the guard), its events are one `Filter` run in reverse order. -/
theorem app_stop_phase_is_filter (n : Nat) (ops : List AOp) (h1 : begins false (App.run n ops).2 ≤ 1) :
    phaseEvs false (App.run n ops).2 = [] ∨
    ∃ cs, cs.Sublist (opCalls false ops) ∧ phaseEvs false (App.run n ops).2 = run n false cs := by
  have h := App.run_induction n
    (fun a tr done => a.n = n ∧
      ((begins false tr = 0 ∧ a.stopML = none ∧ phaseEvs false tr = []) ∨
       (begins false tr = 1 ∧ ∃ cs s, a.stopML = some s ∧ cs.Sublist (opCalls false done) ∧
          runFrom (filter n false).1 (filter n false).2 cs = (s, phaseEvs false tr)) ∨
       2 ≤ begins false tr))
    ⟨rfl, .inl ⟨rfl, rfl, rfl⟩⟩
    (by
      intro a tr done op ⟨hn, ih⟩
      have hmono : ∀ evs, 2 ≤ begins false tr → 2 ≤ begins false (tr ++ evs) := by
        intro evs h; rw [begins_append]; omega
      cases op with
      | stop =>
        by_cases hnm : a.st = .normal
        · simp only [App.step, hnm, ne_eq, not_true_eq_false, ↓reduceIte]
          have hb : begins false (tr ++ AEv.begin false :: (filter a.n false).2.map (AEv.ev false)) = begins false tr + 1 := by
            rw [begins_append]
            have : begins false (AEv.begin false :: (filter a.n false).2.map (AEv.ev false)) =
                1 + begins false ((filter a.n false).2.map (AEv.ev false)) := by simp [begins, Nat.add_comm]
            rw [this, begins_evs]
          rcases onEvents_cases false (filter a.n false).2 { a with st := .stoping, stopML := some (filter a.n false).1 } with ⟨_, h'⟩ | ⟨_, h'⟩ <;>
          · rw [h', hb]
            refine ⟨hn, ?_⟩
            rcases ih with ⟨h0, _, hev⟩ | ⟨h1', _⟩ | h2
            · refine .inr (.inl ⟨by omega, [], (filter n false).1, by simp [hn], List.nil_sublist _, ?_⟩)
              rw [phaseEvs_append, hev]
              simp [phaseEvs, phaseEvs_evs_same, runFrom, hn]
            · exact .inr (.inr (by omega))
            · exact .inr (.inr (by omega))
        · simp only [App.step, hnm, ne_eq, not_false_eq_true, ↓reduceIte, List.append_nil]
          refine ⟨hn, ?_⟩
          rcases ih with h | ⟨h, cs, s, h1', h2, h3⟩ | h
          · exact .inl h
          · exact .inr (.inl ⟨h, cs, s, h1', by rw [opCalls_append]; simpa [opCalls] using h2, h3⟩)
          · exact .inr (.inr h)
      | start =>
        by_cases hp : a.st = .prepared
        · simp only [App.step, hp, ne_eq, not_true_eq_false, ↓reduceIte]
          have hb : begins false (tr ++ AEv.begin true :: (filter a.n true).2.map (AEv.ev true)) = begins false tr := by
            rw [begins_append]
            have : begins false (AEv.begin true :: (filter a.n true).2.map (AEv.ev true)) =
                begins false ((filter a.n true).2.map (AEv.ev true)) := by simp [begins]
            rw [this, begins_evs]; rfl
          have hev : phaseEvs false (tr ++ AEv.begin true :: (filter a.n true).2.map (AEv.ev true)) = phaseEvs false tr := by
            rw [phaseEvs_append]; simp [phaseEvs, phaseEvs_evs_other]
          rcases onEvents_cases true (filter a.n true).2 { a with st := .starting, startML := some (filter a.n true).1 } with ⟨_, h'⟩ | ⟨_, h'⟩ <;>
          · rw [h', hb, hev]
            refine ⟨hn, ?_⟩
            rcases ih with h | ⟨h, cs, s, h1', h2, h3⟩ | h
            · exact .inl h
            · exact .inr (.inl ⟨h, cs, s, h1', by rw [opCalls_append]; simpa [opCalls] using h2, h3⟩)
            · exact .inr (.inr h)
        · simp only [App.step, hp, ne_eq, not_false_eq_true, ↓reduceIte, List.append_nil]
          refine ⟨hn, ?_⟩
          rcases ih with h | ⟨h, cs, s, h1', h2, h3⟩ | h
          · exact .inl h
          · exact .inr (.inl ⟨h, cs, s, h1', by rw [opCalls_append]; simpa [opCalls] using h2, h3⟩)
          · exact .inr (.inr h)
      | call ph w b =>
        cases ph with
        | false =>
          rcases ih with ⟨h0, h1', h3⟩ | ⟨h, cs, s, h1', h2, h3⟩ | h
          · simp only [App.step, Bool.false_eq_true, ↓reduceIte, h1', List.append_nil]
            exact ⟨hn, .inl ⟨h0, (by first | trivial | assumption), h3⟩⟩
          · simp only [App.step, Bool.false_eq_true, ↓reduceIte, h1']
            have hsub : (cs ++ [(w, b)]).Sublist (opCalls false (done ++ [AOp.call false w b])) := by
              rw [opCalls_append]; simp only [opCalls, ↓reduceIte]
              exact List.Sublist.append h2 (List.Sublist.refl _)
            have hrun : runFrom (filter n false).1 (filter n false).2 (cs ++ [(w, b)]) =
                ((s.next b).1, phaseEvs false (tr ++ AEv.ev false (Ev.call w b) :: (s.next b).2.map (AEv.ev false))) := by
              rw [runFrom_snoc, h3, phaseEvs_append]
              simp [phaseEvs, phaseEvs_evs_same]
            have hb : begins false (tr ++ AEv.ev false (Ev.call w b) :: (s.next b).2.map (AEv.ev false)) = begins false tr := by
              rw [begins_append]
              have : begins false (AEv.ev false (Ev.call w b) :: (s.next b).2.map (AEv.ev false)) =
                  begins false ((s.next b).2.map (AEv.ev false)) := by simp [begins]
              rw [this, begins_evs]; rfl
            rcases onEvents_cases false (s.next b).2 { a with stopML := some (s.next b).1 } with ⟨_, h'⟩ | ⟨_, h'⟩ <;>
            · rw [h', hb]
              exact ⟨hn, .inr (.inl ⟨h, cs ++ [(w, b)], (s.next b).1, rfl, hsub, hrun⟩)⟩
          · simp only [App.step, Bool.false_eq_true, ↓reduceIte]
            cases hml : a.stopML with
            | none => simp only [List.append_nil]; exact ⟨hn, .inr (.inr h)⟩
            | some ml =>
              simp only
              rcases onEvents_cases false (ml.next b).2 { a with stopML := some (ml.next b).1 } with ⟨_, h'⟩ | ⟨_, h'⟩ <;>
              · rw [h']; exact ⟨hn, .inr (.inr (hmono _ h))⟩
        | true =>
          simp only [App.step, ↓reduceIte]
          cases hml : a.startML with
          | none =>
            simp only [List.append_nil]
            refine ⟨hn, ?_⟩
            rcases ih with h | ⟨h, cs, s, h1', h2, h3⟩ | h
            · exact .inl h
            · exact .inr (.inl ⟨h, cs, s, h1', by rw [opCalls_append]; simpa [opCalls] using h2, h3⟩)
            · exact .inr (.inr h)
          | some ml =>
            simp only
            have hb : begins false (tr ++ AEv.ev true (Ev.call w b) :: (ml.next b).2.map (AEv.ev true)) = begins false tr := by
              rw [begins_append]
              have : begins false (AEv.ev true (Ev.call w b) :: (ml.next b).2.map (AEv.ev true)) =
                  begins false ((ml.next b).2.map (AEv.ev true)) := by simp [begins]
              rw [this, begins_evs]; rfl
            have hev : phaseEvs false (tr ++ AEv.ev true (Ev.call w b) :: (ml.next b).2.map (AEv.ev true)) = phaseEvs false tr := by
              rw [phaseEvs_append]; simp [phaseEvs, phaseEvs_evs_other]
            rcases onEvents_cases true (ml.next b).2 { a with startML := some (ml.next b).1 } with ⟨_, h'⟩ | ⟨_, h'⟩ <;>
            · rw [h', hb, hev]
              refine ⟨hn, ?_⟩
              rcases ih with h | ⟨h, cs, s, h1', h2, h3⟩ | h
              · exact .inl h
              · exact .inr (.inl ⟨h, cs, s, h1', by rw [opCalls_append]; simpa [opCalls] using h2, h3⟩)
              · exact .inr (.inr h))
    ops
  rcases h.2 with ⟨_, _, h⟩ | ⟨_, cs, s, _, h2, h3⟩ | h
  · exact .inl h
  · exact .inr ⟨cs, h2, by simp [run, h3]⟩
  · omega

/-! non-vacuity for the App theorems: a complete life cycle (both phases begun exactly once, final
state Stopped), and a Stop that is refused because start-up failed -/
example :
    let r := App.run 2 [.stop, .start, .start, .call true 0 true, .call true 1 true, .stop,
                         .call false 1 true, .call false 0 true, .stop]
    r.1.st = .stopped ∧ begins true r.2 = 1 ∧ begins false r.2 = 1 ∧
    phaseEvs true r.2 = run 2 true [(0, true), (1, true)] ∧ phaseEvs false r.2 = run 2 false [(1, true), (0, true)] := by
  decide
example : (App.run 2 [.start, .call true 0 false, .stop]).1.st = .starting ∧
    begins false (App.run 2 [.start, .call true 0 false, .stop]).2 = 0 := by decide

/-! ## the modules shipped with the framework (translated from node/modules/** on every run) -/

/-- **shipped modules complete exactly once**: the body of every `Start`/`Stop` under
`node/modules` (as translated into `Gen.C11.shipped` from the working tree on this run)
contains no construct the translator could not interpret, and under every assignment of
its (opaque, independent) branch conditions it invokes the completion callback exactly once. -/
theorem shipped_modules_complete_once :
    ∀ m ∈ Cell2v.Gen.C11.shipped, m.body.clean = true ∧ ∀ σ : Nat → Bool, (m.body.exec σ).count = 1 := by
  have h : (Cell2v.Gen.C11.shipped.all fun m => m.body.onceB) = true := by decide
  intro m hm
  exact Stmt.onceB_sound m.body (List.all_eq_true.mp h m hm)

/-- the translator found the modules (the obligation above is not vacuous) -/
theorem shipped_modules_found : Cell2v.Gen.C11.shipped ≠ [] := by decide

/-- D2, as translated before the `fix:` commit (`return` missing after `next(false)` in
`ClusterModule.Start`): the branch "StartMember failed" calls `next` twice. -/
def d2Body : Stmt :=
  .seq (.ite 0 (.seq (.callNext (some true)) .ret) .skip)
    (.seq (.ite 1 (.seq (.callNext (some false)) .ret) .skip)
      (.seq (.ite 2 (.callNext (some false)) .skip) (.callNext (some true))))

theorem d2_completes_twice : d2Body.onceB = false ∧ (d2Body.exec fun c => c == 2).count = 2 := by decide

end Cell2v.Props.C11
