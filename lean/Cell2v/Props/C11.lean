import Cell2v.Lemmas.Modules
import Cell2v.Gen.C11Modules
/-!
C11 — property theorems: modules start in order, stop in reverse; each phase
completes exactly once.

`run n fwd cs` is the observable log of one `ModList.Filter` invocation over `n`
modules (`fwd = true`: Start, registration order; `fwd = false`: Stop) driven by an
arbitrary chronological sequence `cs` of completion events `(w, b)` = "module `w`
invoked `next(b)`", synchronously or later, from any goroutine.  The hypothesis on
the modules is a predicate on the log alone: `Disciplined` = every completion is
made by a module that has been entered and has not completed before (at most
once); `Complete` = every entered module has completed (with `Disciplined`:
exactly once).  Only property statements, non-vacuity examples and defect
witnesses live here.
-/
namespace Cell2v.Props.C11
open Cell2v.Modules

/-! ## the module list (`ModList.Filter`) -/

/-- The log of a disciplined phase is *canonical*: modules are entered one at a
time in the visiting order, each directly after its predecessor's `next(true)`; a
`next(false)` is followed by `finish(false)` and nothing else; after the last
success exactly `finish(true)`.  (`canonB` is also the predicate the check
evaluates on the logs recorded from the real `ModList`.) -/
theorem disciplined_log_canonical (n : Nat) (fwd : Bool) (cs : List (Nat × Bool))
    (hd : Disciplined (run n fwd cs)) : canonB (ord n fwd) (run n fwd cs) = true := by
  rw [run_eq_arun] at hd ⊢
  exact (shape_of_disciplined _ cs hd).canon

/-- **start order**: the modules entered by `Start` are a prefix of the registration order. -/
theorem start_order (n : Nat) (cs : List (Nat × Bool)) (hd : Disciplined (run n true cs)) :
    enters (run n true cs) <+: List.range n := by
  rw [run_eq_arun] at hd ⊢
  simpa [ord] using (shape_of_disciplined _ cs hd).enters_prefix

/-- **stop order**: the modules entered by `Stop` are a prefix of the reversed registration order. -/
theorem stop_reverse (n : Nat) (cs : List (Nat × Bool)) (hd : Disciplined (run n false cs)) :
    enters (run n false cs) <+: (List.range n).reverse := by
  rw [run_eq_arun] at hd ⊢
  simpa [ord] using (shape_of_disciplined _ cs hd).enters_prefix

/-- **one at a time, only after success**: at the moment any module `m` is entered,
every module entered earlier has already completed, each with success, in the order
they were entered; and `m` is the next one in the visiting order. -/
theorem one_at_a_time (n : Nat) (fwd : Bool) (cs : List (Nat × Bool)) (hd : Disciplined (run n fwd cs))
    (p : List Ev) (m : Nat) (q : List Ev) (heq : run n fwd cs = p ++ Ev.enter m :: q) :
    calls p = (enters p).map (fun i => (i, true)) ∧ (enters p ++ [m]) <+: ord n fwd := by
  rw [run_eq_arun] at hd heq
  have hs := shape_of_disciplined _ cs hd
  obtain ⟨l1, rfl⟩ := hs.before_enter p m q heq
  refine ⟨by simp, ?_⟩
  have hp := hs.enters_prefix
  rw [heq] at hp
  simp only [enters_append, enters_okPart, enters] at hp ⊢
  obtain ⟨r, hr⟩ := hp
  exact ⟨enters q ++ r, by simpa using hr⟩

/-- **first failure ends the phase**: whatever follows a `next(false)` in the log is
exactly `finish(false)` — no later module is entered, nothing else is reported. -/
theorem first_failure_stops (n : Nat) (fwd : Bool) (cs : List (Nat × Bool)) (hd : Disciplined (run n fwd cs))
    (p : List Ev) (w : Nat) (q : List Ev) (heq : run n fwd cs = p ++ Ev.call w false :: q) :
    q = [Ev.finish false] := by
  rw [run_eq_arun] at hd heq
  exact (shape_of_disciplined _ cs hd).after_failure p w q heq

/-- **at most once**: if every started module completes at most once (some may never
complete, e.g. a module that panicked before calling `next`), `finish` is invoked at most once. -/
theorem finish_at_most_once (n : Nat) (fwd : Bool) (cs : List (Nat × Bool)) (hd : Disciplined (run n fwd cs)) :
    (finishes (run n fwd cs)).length ≤ 1 := by
  rw [run_eq_arun] at hd ⊢
  exact (shape_of_disciplined _ cs hd).finishes_le

/-- **exactly once, with the overall outcome**: if every started module completes
exactly once, `finish` is invoked exactly once, it is the last event, and it reports
success iff all `n` modules were entered and every one reported success. -/
theorem finish_exactly_once (n : Nat) (fwd : Bool) (cs : List (Nat × Bool))
    (hd : Disciplined (run n fwd cs)) (hc : Complete (run n fwd cs)) :
    ∃ b, finishes (run n fwd cs) = [b] ∧ (run n fwd cs).getLast? = some (Ev.finish b) ∧
      (b = true ↔ (enters (run n fwd cs) = ord n fwd ∧ ∀ w b', Ev.call w b' ∈ run n fwd cs → b' = true)) := by
  rw [run_eq_arun] at hd hc ⊢
  exact (shape_of_disciplined _ cs hd).complete (ord_nodup n fwd) hc

/-- Whatever the modules do (complete twice, late, never): no module is entered out of
order or twice — the entered modules are a subsequence of the visiting order. -/
theorem order_unconditional (n : Nat) (fwd : Bool) (cs : List (Nat × Bool)) :
    (enters (run n fwd cs)).Sublist (ord n fwd) := by
  rw [run_eq_arun]; exact enters_sublist_arun _ cs

/-- Whatever the modules do, `m.mods[index]` is never out of range (no Go panic inside `doNow`). -/
theorem index_in_range (n : Nat) (fwd : Bool) (cs : List (Nat × Bool)) : Ev.oob ∉ run n fwd cs := by
  rw [run_eq_arun]; exact no_oob_arun _ cs

/-- the executable checks used by the monitor are the hypotheses of the theorems -/
theorem hypotheses_decidable (tr : List Ev) :
    (disciplinedB tr = true ↔ Disciplined tr) ∧ (completeB tr = true ↔ Complete tr) :=
  ⟨disciplinedB_iff tr, completeB_iff tr⟩

/-! non-vacuity: disciplined and complete logs exist (all succeed / failure in the middle / stop phase),
and a disciplined log that is not complete (module 1 never completes) -/
example : Disciplined (run 3 true [(0, true), (1, true), (2, true)]) ∧ Complete (run 3 true [(0, true), (1, true), (2, true)]) :=
  ⟨(disciplinedB_iff _).mp (by decide), (completeB_iff _).mp (by decide)⟩
example : Disciplined (run 3 true [(0, true), (1, false)]) ∧ Complete (run 3 true [(0, true), (1, false)]) :=
  ⟨(disciplinedB_iff _).mp (by decide), (completeB_iff _).mp (by decide)⟩
example : Disciplined (run 4 false [(3, true), (2, true)]) ∧ ¬ Complete (run 4 false [(3, true), (2, true)]) :=
  ⟨(disciplinedB_iff _).mp (by decide), fun h => absurd ((completeB_iff _).mpr h) (by decide)⟩
example : run 3 false [(2, true), (1, true), (0, true)] =
    [.enter 2, .call 2 true, .enter 1, .call 1 true, .enter 0, .call 0 true, .finish true] := by decide

/-- The discipline is necessary (this is what D2 did to the node's start-up before the
`fix:` commit): module 1 reporting `next(false)` and then `next(true)` makes `ModList`
report failure, then start module 2 anyway and finally report success as well. -/
theorem double_completion_witness :
    run 3 true [(0, true), (1, false), (1, true), (2, true)] =
      [.enter 0, .call 0 true, .enter 1, .call 1 false, .finish false, .call 1 true, .enter 2, .call 2 true, .finish true] ∧
    ¬ Disciplined (run 3 true [(0, true), (1, false), (1, true), (2, true)]) :=
  ⟨by decide, fun h => absurd ((disciplinedB_iff _).mpr h) (by decide)⟩

/-! ## baseapp.App: the state guard -/

/-- **state guard**: `App.Start` does nothing unless the state is Prepared; `App.Stop`
does nothing unless the state is Normal. -/
theorem app_state_guard (a : App) :
    (a.st ≠ .prepared → a.step .start = (a, [])) ∧ (a.st ≠ .normal → a.step .stop = (a, [])) := by
  constructor <;> intro h <;> simp [App.step, h]

private theorem st_after_events (a : App) (ph : Bool) (es : List Ev) :
    (App.onEvents a ph es).st = a.st ∨ (App.onEvents a ph es).st = (if ph then .normal else .stopped) := by
  rcases onEvents_cases ph es a with ⟨_, h⟩ | ⟨_, h⟩ <;> rw [h] <;> simp

/-- For every history of Start / Stop calls and module completions (disciplined or not)
after one `Prepare`, the start phase is begun at most once. -/
theorem app_start_once (n : Nat) (ops : List AOp) : begins true (App.run n ops).2 ≤ 1 := by
  have h := App.run_induction n
    (fun a tr _ => (a.st = .prepared ∧ begins true tr = 0) ∨ (a.st ≠ .prepared ∧ begins true tr ≤ 1))
    (.inl ⟨rfl, rfl⟩)
    (by
      intro a tr done op ih
      cases op with
      | start =>
        by_cases hp : a.st = .prepared
        · right
          have hb : begins true tr = 0 := by rcases ih with ⟨_, h⟩ | ⟨h, _⟩; exact h; exact absurd hp h
          simp only [App.step, hp, ne_eq, not_true_eq_false, ↓reduceIte]
          constructor
          · rcases st_after_events { a with st := .starting, startML := some (filter a.n true).1 } true (filter a.n true).2 with h | h <;>
              rw [h] <;> simp
          · rw [begins_append, hb]
            have : begins true (AEv.begin true :: (filter a.n true).2.map (AEv.ev true)) =
                1 + begins true ((filter a.n true).2.map (AEv.ev true)) := by
              simp [begins, Nat.add_comm]
            rw [this, begins_evs]; omega
        · simpa [App.step, hp] using ih
      | stop =>
        by_cases hn : a.st = .normal
        · right
          have hnp : a.st ≠ .prepared := by rw [hn]; simp
          have hb : begins true tr ≤ 1 := by rcases ih with ⟨h, _⟩ | ⟨_, h⟩; exact absurd h hnp; exact h
          simp only [App.step, hn, ne_eq, not_true_eq_false, ↓reduceIte]
          constructor
          · rcases st_after_events { a with st := .stoping, stopML := some (filter a.n false).1 } false (filter a.n false).2 with h | h <;>
              rw [h] <;> simp
          · rw [begins_append]
            have : begins true (AEv.begin false :: (filter a.n false).2.map (AEv.ev false)) =
                begins true ((filter a.n false).2.map (AEv.ev false)) := by
              simp [begins]
            rw [this, begins_evs]; exact hb
        · simpa [App.step, hn] using ih
      | call ph w b =>
        simp only [App.step]
        cases hml : (if ph = true then a.startML else a.stopML) with
        | none => simpa using ih
        | some ml =>
          simp only
          have hcnt : begins true (tr ++ AEv.ev ph (Ev.call w b) :: (ml.next b).2.map (AEv.ev ph)) = begins true tr := by
            rw [begins_append]
            have : begins true (AEv.ev ph (Ev.call w b) :: (ml.next b).2.map (AEv.ev ph)) =
                begins true ((ml.next b).2.map (AEv.ev ph)) := by simp [begins]
            rw [this, begins_evs]; rfl
          rw [hcnt]
          generalize hA : (if ph = true then { a with startML := some (ml.next b).1 } else { a with stopML := some (ml.next b).1 }) = a'
          have hst : a'.st = a.st := by subst hA; cases ph <;> simp
          rcases st_after_events a' ph (ml.next b).2 with h | h
          · rw [h, hst]; exact ih
          · right
            refine ⟨by rw [h]; cases ph <;> simp, ?_⟩
            rcases ih with ⟨_, h0⟩ | ⟨_, h1⟩
            · omega
            · exact h1)
    ops
  rcases h with ⟨_, h⟩ | ⟨_, h⟩ <;> omega

end Cell2v.Props.C11
