import Cell2v.Lemmas.Space
import Cell2v.Lemmas.SpaceSimple
/-!
C20 — MMO spatial index: range queries return exactly the entities within range.
Only property statements, non-vacuity examples and the defect witness live here.

All statements are over exact arithmetic (coordinates / radii / geometry are
integers counting quarter units); `g.Ok` (positive zone size, at least one zone
per axis) is what `ZoneSpace.Init` guarantees (`init_geometry_ok`).
Histories are arbitrary lists of `add / mov / del` with arbitrary ids and positions.
-/
namespace Cell2v.Props.C20
open Cell2v.Space

/-- `Init(beginX, beginZ, endX, endZ, zoneSize)` with `begin ≤ end` and a positive
zone size yields a geometry with at least one zone per axis. -/
theorem init_geometry_ok (bx bz ex ez step : Int) (hs : 0 < step) (hx : bx ≤ ex) (hz : bz ≤ ez) :
    (Geo.init bx bz ex ez step).Ok := by
  have h1 : 0 ≤ Int.tdiv (ex - bx) step := Int.tdiv_nonneg (by omega) (by omega)
  have h2 : 0 ≤ Int.tdiv (ez - bz) step := Int.tdiv_nonneg (by omega) (by omega)
  refine ⟨hs, ?_, ?_⟩ <;> simp only [Geo.init] <;> omega

/-- the repaired `nToZoneN` (clamp in the float domain, then truncate) is
`clamp(floor((n-begin)/step), 0, max-1)` -/
theorem zone_clamp_trunc_eq_floor_clamp (n b step : Int) (mx : Nat) (hs : 0 < step) (hm : 1 ≤ mx) :
    (zoneN n b step mx : Int) = clampI ((n - b) / step) 0 ((mx : Int) - 1) :=
  zoneN_eq_floor_clamp n b step mx hs hm

/-- the coordinate-to-zone function is monotone -/
theorem zone_mono (n n' b step : Int) (mx : Nat) (hs : 0 < step) (hm : 1 ≤ mx) (h : n ≤ n') :
    zoneN n b step mx ≤ zoneN n' b step mx :=
  zoneN_mono n n' b step mx hs hm h

/-- every position, inside or outside the map, maps to an existing zone slice -/
theorem zone_index_in_bounds (g : Geo) (hg : g.Ok) (x z : Int) : g.index x z < g.w * g.h :=
  g.index_lt hg x z

/-- inside the int64 range the pre-fix `nToZoneN` (truncate, then clamp the
integer) computes the same zone: the D12 repair changes nothing there -/
theorem zone_fix_conservative (n b step : Int) (mx : Nat) (hs : 0 < step) (hm : 1 ≤ mx)
    (hlo : -(2 ^ 63) * step < n - b) (hhi : n - b < 2 ^ 63 * step) :
    zoneNOld n b step mx = zoneN n b step mx :=
  zoneNOld_eq_zoneN n b step mx hs hm hlo hhi

/-- no history reaches `panic("unexpect")` in `UpdateEntityPos` -/
theorem history_never_panics (g : Geo) (hg : g.Ok) (ops : List Op) : (Space.init g).run ops ≠ none := by
  obtain ⟨s, hs, _⟩ := (WF.init g hg).run ops
  rw [hs]; exact Option.some_ne_none s

/-- the id ↦ position content of the zoned space is the plain map semantics of the
history (`add` of a live id is a no-op, `mov`/`del` of an unknown id are no-ops) -/
theorem positions_refine (g : Geo) (ops : List Op) (s : Space) (h : (Space.init g).run ops = some s) :
    s.positions = Ref.run [] ops :=
  positions_run h

/-- **Index invariant**: after any history, a zone slice has no duplicates, holds an
id iff that id is live and the zone of its *current* position is this slice (hence
every live entity sits in exactly one slice, once, and nothing else sits anywhere),
only existing slices are populated, and a live id has exactly one current position. -/
theorem index_agrees_with_position (g : Geo) (hg : g.Ok) (ops : List Op) :
    ∃ s, (Space.init g).run ops = some s ∧
      ((Ref.run [] ops).map (·.1)).Nodup ∧
      ∀ i id, (s.zoneIds i).Nodup ∧
        (id ∈ s.zoneIds i ↔ ∃ p, (id, p) ∈ Ref.run [] ops ∧ g.index p.x p.z = i) ∧
        (id ∈ s.zoneIds i → i < g.w * g.h) := by
  obtain ⟨s, hs, wf⟩ := (WF.init g hg).run ops
  have hgeo : s.geo = g := geo_run hs
  have hpos : s.positions = Ref.run [] ops := positions_run hs
  refine ⟨s, hs, ?_, ?_⟩
  · rw [← hpos, positions_ids]; exact wf.ids
  · intro i id
    have key : id ∈ s.zoneIds i ↔ ∃ p, (id, p) ∈ Ref.run [] ops ∧ g.index p.x p.z = i := by
      rw [mem_zoneIds, wf.sm, ← hpos]
      constructor
      · rintro ⟨e, he, hz⟩
        refine ⟨e.pos, (mem_positions wf id e.pos).mpr ⟨e, he, rfl⟩, ?_⟩
        rw [← hgeo, ← wf.zi id e he, hz]
      · rintro ⟨p, hp, hi⟩
        obtain ⟨e, he, rfl⟩ := (mem_positions wf id p).mp hp
        refine ⟨e, he, ?_⟩
        rw [wf.zi id e he, hgeo, hi]
    refine ⟨zoneIds_nodup wf i, key, ?_⟩
    intro hmem
    obtain ⟨p, _, hi⟩ := key.mp hmem
    rw [← hi]
    exact g.index_lt hg p.x p.z

/-- **Zoned query = brute-force scan**: after any history, for every query point and
every radius (negative, zero, huge, outside the map …), the zoned query reports a
permutation of what a scan over all current positions reports, and reports no id
twice; every slice it touches exists. -/
theorem search_eq_bruteforce (g : Geo) (hg : g.Ok) (ops : List Op) (q : Pos) (r : Int) :
    ∃ s, (Space.init g).run ops = some s ∧
      (s.search q r).Perm ((Ref.run [] ops).brute q r) ∧
      (s.search q r).Nodup ∧
      ∀ i ∈ visited g q r, i < g.w * g.h := by
  obtain ⟨s, hs, wf⟩ := (WF.init g hg).run ops
  have hgeo : s.geo = g := geo_run hs
  refine ⟨s, hs, ?_, search_nodup wf q r, ?_⟩
  · have hp : s.positions = Ref.run [] ops := positions_run hs
    rw [← hp]; exact search_perm_brute wf q r
  · rw [← hgeo]; exact search_in_bounds wf q r

/-- membership form: an id is reported iff it is live and its current position is
within the radius (`0 ≤ r` and squared distance `≤ r²`) -/
theorem search_reports_exactly_within (g : Geo) (hg : g.Ok) (ops : List Op) (q : Pos) (r : Int) (id : Nat) :
    ∃ s, (Space.init g).run ops = some s ∧
      (id ∈ s.search q r ↔ ∃ p, (id, p) ∈ Ref.run [] ops ∧ 0 ≤ r ∧ sqDist q p ≤ r * r) := by
  obtain ⟨s, hs, wf⟩ := (WF.init g hg).run ops
  refine ⟨s, hs, ?_⟩
  have hp : s.positions = Ref.run [] ops := positions_run hs
  rw [mem_search wf, ← hp]
  constructor
  · rintro ⟨e, he, hw⟩
    refine ⟨e.pos, (mem_positions wf id e.pos).mpr ⟨e, he, rfl⟩, ?_⟩
    simpa [within] using hw
  · rintro ⟨p, hp, hr, hd⟩
    obtain ⟨e, he, rfl⟩ := (mem_positions wf id p).mp hp
    exact ⟨e, he, by simp [within, hr, hd]⟩

/-- a negative radius reports nothing (`dist > radius` holds for every entity), in any state -/
theorem search_negative_radius (s : Space) (q : Pos) (r : Int) (hr : r < 0) : s.search q r = [] :=
  search_neg s q r hr

/-- **Removed entities are never reported**: after `del id`, whatever happened before
and whatever happens afterwards short of adding that id again, no query reports it. -/
theorem removed_never_reported (g : Geo) (hg : g.Ok) (before after : List Op) (id : Nat)
    (hafter : ∀ p, Op.add id p ∉ after) (q : Pos) (r : Int) :
    ∃ s, (Space.init g).run (before ++ [Op.del id] ++ after) = some s ∧ id ∉ s.search q r := by
  obtain ⟨s, hs, perm, _, _⟩ := search_eq_bruteforce g hg (before ++ [Op.del id] ++ after) q r
  refine ⟨s, hs, ?_⟩
  intro hmem
  have hb := perm.mem_iff.mp hmem
  refine not_mem_brute_of_absent _ id q r ?_ hb
  rw [Ref.run_append, Ref.run_append]
  apply Ref.run_absent _ _ _ hafter
  exact Ref.del_absent _ id

/-- an id that is not live (never added, or deleted and not re-added) is never reported -/
theorem absent_never_reported (g : Geo) (hg : g.Ok) (ops : List Op) (id : Nat)
    (habs : (Ref.run [] ops).has id = false) (q : Pos) (r : Int) :
    ∃ s, (Space.init g).run ops = some s ∧ id ∉ s.search q r := by
  obtain ⟨s, hs, perm, _, _⟩ := search_eq_bruteforce g hg ops q r
  exact ⟨s, hs, fun hmem => not_mem_brute_of_absent _ id q r habs (perm.mem_iff.mp hmem)⟩

/-! ### non-vacuity and the D12 witness -/

/-- the factory geometry: `Init(-30, -30, 30, 30, 5)` in quarter units (13 × 13 zones) -/
def g0 : Geo := Geo.init (-120) (-120) 120 120 20

/-- the precondition of `Init` holds at its only call site in the repository (the factory):
13 × 13 zones, positive zone size -/
theorem factory_geometry_ok : Geo.factory.Ok ∧ Geo.factory.w = 13 ∧ Geo.factory.h = 13 ∧ g0 = Geo.factory := by decide

example : g0.Ok := init_geometry_ok _ _ _ _ _ (by decide) (by decide) (by decide)
example : g0.w = 13 ∧ g0.h = 13 := by decide

/-- a history with a re-add of a live id (ignored), a move across zones, a move to an
out-of-bounds position, a removal and a re-add -/
def ops0 : List Op :=
  [.add 1 ⟨0, 0, 0⟩, .add 2 ⟨12, 0, 16⟩, .add 1 ⟨400, 0, 400⟩, .add 3 ⟨-120, 4, 120⟩, .mov 2 ⟨-500, 0, 0⟩,
   .mov 3 ⟨12, 0, -16⟩, .del 1, .add 4 ⟨0, 0, 20⟩, .add 1 ⟨0, 0, -20⟩]

/-- the hypotheses of the theorems are met by a concrete history, and the query is not
trivially empty: ids 3 (exactly at the radius, 3-4-5 triangle), 4 and 1 (on the circle) are
reported, the out-of-bounds entity 2 is reported by a big circle -/
example : ((Space.init g0).run ops0).map (fun s => (s.search ⟨0, 0, 0⟩ 20, s.search ⟨0, 0, 0⟩ 19, s.search ⟨-400, 0, 0⟩ 100))
    = some ([3, 1, 4], [], [2]) := by decide

example : ∃ s, (Space.init g0).run ops0 = some s ∧ (s.search ⟨0, 0, 0⟩ 20).Perm ((Ref.run [] ops0).brute ⟨0, 0, 0⟩ 20) := by
  obtain ⟨s, hs, hp, _⟩ := search_eq_bruteforce g0 (by decide) ops0 ⟨0, 0, 0⟩ 20
  exact ⟨s, hs, hp⟩

/-- non-vacuity of `removed_never_reported`: entity 3 is deleted, moved (ignored) and queried;
its last position was exactly on the circle -/
example : ∃ s, (Space.init g0).run (ops0 ++ [Op.del 3] ++ [Op.mov 3 ⟨0, 0, 0⟩, Op.add 7 ⟨1, 1, 1⟩]) = some s ∧
    3 ∉ s.search ⟨0, 0, 0⟩ 20 :=
  removed_never_reported g0 (by decide) ops0 [Op.mov 3 ⟨0, 0, 0⟩, Op.add 7 ⟨1, 1, 1⟩] 3 (by intro p; simp) ⟨0, 0, 0⟩ 20

/-- non-vacuity of `zone_fix_conservative`: a coordinate far outside the map, still inside the int64 range -/
example : zoneNOld (4 * 10 ^ 18) (-120) 20 13 = zoneN (4 * 10 ^ 18) (-120) 20 13 :=
  zone_fix_conservative _ _ _ _ (by decide) (by decide) (by decide) (by decide)


/-! ### the brute-force implementation `SimpleSpace` (simple.go) and the searcher -/

/-- **SimpleSpace is a scan of its own contract**: after any history the model of simple.go
(map `entities` + slice `values`, `AddEntity` of a live id MOVES it, `RemoveEntity` deletes from
both) holds exactly the plain upsert-map of the history, in insertion order; its query is
literally the scan of that map and reports no id twice. No hypothesis. -/
theorem simplespace_search_exact (ops : List Op) (q : Pos) (r : Int) :
    (Simple.run {} ops).values = Ref.runS [] ops ∧
    (Simple.run {} ops).search q r = (Ref.runS [] ops).brute q r ∧
    ((Simple.run {} ops).search q r).Nodup := by
  obtain ⟨wf, hv⟩ := SWF.init.run ops
  have hv' : (Simple.run {} ops).values = Ref.runS [] ops := hv
  refine ⟨hv', ?_, ?_⟩
  · rw [simple_search_eq_brute, hv']
  · rw [simple_search_eq_brute]
    have hn : ((Simple.run {} ops).values.map (·.1)).Nodup := wf.keys ▸ wf.nodup
    exact hn.sublist (List.Sublist.map _ List.filter_sublist)

/-- **Zoned index = SimpleSpace** (the property's "same set a brute-force scan yields", with the
brute-force IMPLEMENTATION): after any history, for every query, `ZoneSpace` reports a permutation
of what `SimpleSpace` reports when it is handed the same operations except the adds of ids that
are live at that moment (`dropLiveAdds` — exactly what the correspondence harness hands it). -/
theorem zoned_eq_simplespace (g : Geo) (hg : g.Ok) (ops : List Op) (q : Pos) (r : Int) :
    ∃ s, (Space.init g).run ops = some s ∧
      (s.search q r).Perm ((Simple.run {} (dropLiveAdds [] ops)).search q r) := by
  obtain ⟨s, hs, hp, _, _⟩ := search_eq_bruteforce g hg ops q r
  refine ⟨s, hs, ?_⟩
  rw [(simplespace_search_exact (dropLiveAdds [] ops) q r).2.1, runS_dropLiveAdds]
  exact hp

/-- the two implementations of `ISpace` disagree on `AddEntity` of a live id (zoned: ignored,
simple: moved): same two operations, different answers; with the live add dropped they agree. -/
theorem add_live_id_diverges :
    let ops := [Op.add 1 ⟨0, 0, 0⟩, Op.add 1 ⟨400, 0, 400⟩]
    ((Space.init g0).run ops).map (fun s => s.search ⟨0, 0, 0⟩ 4) = some [1] ∧
    (Simple.run {} ops).search ⟨0, 0, 0⟩ 4 = [] ∧
    dropLiveAdds [] ops = [Op.add 1 ⟨0, 0, 0⟩] ∧
    (Simple.run {} (dropLiveAdds [] ops)).search ⟨0, 0, 0⟩ 4 = [1] := by decide

/-- **Searcher with a `Validate` predicate** (`Zone.SearchCircleTargets` asks `searcher.Validate`
for every entity within the radius and collects the accepted ones): after any history, for every
query and EVERY predicate `v`, the zoned query reports a duplicate-free permutation of the scan's
within-range ids that `v` accepts. -/
theorem search_with_validator (g : Geo) (hg : g.Ok) (ops : List Op) (q : Pos) (r : Int) (v : Nat → Bool) :
    ∃ s, (Space.init g).run ops = some s ∧
      (s.searchV q r v).Perm (((Ref.run [] ops).brute q r).filter v) ∧
      (s.searchV q r v).Nodup := by
  obtain ⟨s, hs, hp, hn, _⟩ := search_eq_bruteforce g hg ops q r
  refine ⟨s, hs, ?_, ?_⟩
  · rw [searchV_eq_filter]; exact hp.filter v
  · rw [searchV_eq_filter]; exact hn.sublist List.filter_sublist

/-- the same for `SimpleSpace.SearchCircleTargets` -/
theorem simplespace_with_validator (ops : List Op) (q : Pos) (r : Int) (v : Nat → Bool) :
    (Simple.run {} ops).searchV q r v = ((Ref.runS [] ops).brute q r).filter v := by
  rw [simple_searchV_eq_filter, (simplespace_search_exact ops q r).2.1]

/-- a searcher object that starts empty (`NewFindPlayers`: `tars = []`) returns exactly the query's result -/
theorem fresh_searcher_exact (s : Space) (q : Pos) (r : Int) (v : Nat → Bool) :
    s.searchAcc [] q r v = s.searchV q r v := List.nil_append _

/-- `FindPlayers.tars` is never reset: a searcher object that is REUSED for a second query returns
the first query's ids again — here entity 3 twice, and entity 1 although it was removed in between.
(Callers must create a searcher per query; `search_with_validator` is about a fresh one.) -/
theorem searcher_reuse_witness :
    ((Space.init g0).run ops0).map (fun s =>
      let first := s.searchAcc [] ⟨0, 0, 0⟩ 20 (fun _ => true)
      let s' := s.del 1
      (first, s'.searchAcc first ⟨0, 0, 0⟩ 20 (fun _ => true), s'.searchV ⟨0, 0, 0⟩ 20 (fun _ => true)))
    = some ([3, 1, 4], [3, 1, 4, 3, 4], [3, 4]) := by decide

/-- non-vacuity of `search_with_validator` / `zoned_eq_simplespace`: the owner (id 1) is rejected, 3 and 4 stay -/
example : ((Space.init g0).run ops0).map (fun s => s.searchV ⟨0, 0, 0⟩ 20 (fun id => id != 1)) = some [3, 4] := by decide
example : (Simple.run {} (dropLiveAdds [] ops0)).searchV ⟨0, 0, 0⟩ 20 (fun id => id != 1) = [3, 4] := by decide
example : (Simple.run {} ops0).search ⟨0, 0, 0⟩ 20 = [3, 4, 1] := by decide

/-- **A long-lived space** (op `qn` of the correspondence run): a query reads the index and leaves nothing
behind, so after any history every one of `n` consecutive repetitions of a query — for EVERY `n`, 65536 and
beyond — reports a duplicate-free permutation of the accepted within-range ids of the scan, and what the
driver prints for `qn` (`searchRepeat`: first answer, number of answers equal to it) is the single answer
and `n`, for the zoned index and for `SimpleSpace` alike. -/
theorem repeated_query_stable (g : Geo) (hg : g.Ok) (ops : List Op) (q : Pos) (r : Int) (v : Nat → Bool) (n : Nat) :
    ∃ s, (Space.init g).run ops = some s ∧
      (∀ a ∈ repeatAnswers (fun s : Space => (s, s.searchV q r v)) s n,
          a.Perm (((Ref.run [] ops).brute q r).filter v) ∧ a.Nodup) ∧
      (0 < n → s.searchRepeat q r v n = (s.searchV q r v, n)) ∧
      (0 < n → (Simple.run {} ops).searchRepeat q r v n = ((Simple.run {} ops).searchV q r v, n)) := by
  obtain ⟨s, hs, hp, hn⟩ := search_with_validator g hg ops q r v
  refine ⟨s, hs, ?_, ?_, ?_⟩
  · intro a ha
    rw [repeatAnswers_readonly (fun s : Space => s.searchV q r v)] at ha
    rw [List.eq_of_mem_replicate ha]; exact ⟨hp, hn⟩
  · intro h
    rw [Space.searchRepeat_eq_fast]; simp [Space.searchRepeatFast, Nat.ne_of_gt h]
  · intro h
    rw [Simple.searchRepeat_eq_fast]; simp [Simple.searchRepeatFast, Nat.ne_of_gt h]

/-- non-vacuity: 70000 repetitions (beyond a 16-bit counter) on the sample history -/
example : ((Space.init g0).run ops0).map (fun s => s.searchRepeat ⟨0, 0, 0⟩ 20 (fun id => id != 1) 70000) = some ([3, 4], 70000) := by
  obtain ⟨s, hs, -, h, -⟩ := repeated_query_stable g0 (by decide) ops0 ⟨0, 0, 0⟩ 20 (fun id => id != 1) 70000
  have h3 : ((Space.init g0).run ops0).map (fun s => s.searchV ⟨0, 0, 0⟩ 20 (fun id => id != 1)) = some [3, 4] := by decide
  rw [hs] at h3 ⊢
  simp only [Option.map_some, Option.some.injEq] at h3 ⊢
  rw [h (by decide), h3]

/-- **Queries through `searchers.FindPlayers`** (model `findPlayersValidate`, mirrored from findplayers.go and tied by
the ops `unit` / `q … fp=`): after any history, in ANY scene world `w` and for any owner, the zoned query reports — once
each — exactly the ids whose current position is within the radius and that are not the owner, are known to the
world, alive and player avatars; `SimpleSpace` reports the same ids filtered from its own scan. -/
theorem findplayers_reports_exactly (g : Geo) (hg : g.Ok) (ops : List Op) (q : Pos) (r : Int) (w : World) (owner : Nat) :
    ∃ s, (Space.init g).run ops = some s ∧
      (s.searchV q r (findPlayersValidate w owner)).Nodup ∧
      (∀ id, id ∈ s.searchV q r (findPlayersValidate w owner) ↔
        (id ∈ (Ref.run [] ops).brute q r ∧ id ≠ owner ∧
          (w.info id).gone = false ∧ (w.info id).dead = false ∧ (w.info id).kind = unitAvatar)) ∧
      (Simple.run {} ops).searchV q r (findPlayersValidate w owner) =
        ((Ref.runS [] ops).brute q r).filter (findPlayersValidate w owner) := by
  obtain ⟨s, hs, hp, hn⟩ := search_with_validator g hg ops q r (findPlayersValidate w owner)
  refine ⟨s, hs, hn, ?_, simplespace_with_validator ops q r _⟩
  intro id
  rw [hp.mem_iff, List.mem_filter]
  refine and_congr_right fun _ => ?_
  unfold findPlayersValidate
  by_cases ho : id = owner
  · simp [ho]
  · cases hg' : (w.info id).gone <;> cases hd : (w.info id).dead <;> simp [ho, hg', hd]

/-- non-vacuity: entity 1 is the owner, 3 is dead, 4 a live avatar (default) — only 4 is reported; a monster is not -/
example : ((Space.init g0).run ops0).map (fun s =>
    (s.searchV ⟨0, 0, 0⟩ 20 (findPlayersValidate [(3, { dead := true })] 1),
     s.searchV ⟨0, 0, 0⟩ 20 (findPlayersValidate [(4, { kind := 4 }), (3, { gone := true })] 9))) = some ([4], [1]) := by decide

/-- **D12** (repaired by the `fix:` commit): with the pre-fix zone function a query at the
origin with radius 10²⁰ (4·10²⁰ quarter units; `(r+30)/5 ≥ 2⁶³`) converts to `MinInt64`,
clamps to column/row 0 and reports nothing, while both entities are within range and
the repaired code reports them. -/
def s0 : Space := ((Space.init g0).add 1 ⟨0, 0, 0⟩).add 2 ⟨4, 0, -4⟩

theorem d12_witness :
    zoneNOld (4 * 10 ^ 20) (-120) 20 13 = 0 ∧ zoneN (4 * 10 ^ 20) (-120) 20 13 = 12 ∧
    s0.searchOld ⟨0, 0, 0⟩ (4 * 10 ^ 20) = [] ∧ s0.search ⟨0, 0, 0⟩ (4 * 10 ^ 20) = [2, 1] ∧
    s0.positions.brute ⟨0, 0, 0⟩ (4 * 10 ^ 20) = [1, 2] := by decide

end Cell2v.Props.C20
