import Cell2v.Lemmas.SchedDisp
/-!
C09 — several mailboxes on ONE dispatcher (`actorex/disp/schedisp.go`: a 9-slot
channel drained by the run service's single loop goroutine).

`Model/SchedDisp.lean`: foreign goroutines post to any number of mailboxes while
a handler keeps the loop goroutine busy; the channel fills, further posters block
in `Schedule`; when the handler returns the loop drains everything.  In the model
a mailbox run is executed ONLY by the loop (`post` on an idle loop, `release`);
a poster that finds the channel full is parked in `blocked` and runs nothing.
The statements quantify over every sequence of posts (any mailboxes, any number,
any position of gated handlers), releases, and posts made BY THE HANDLER that occupies
the loop goroutine (`selfPost`: a service sending to a sibling on its own dispatcher).
That last kind is the one way this arrangement can stall for good: `Schedule` is a
blocking send whose only receiver is the loop goroutine, so a handler that has to hand a
sibling's run to the dispatcher while all 9 slots are taken blocks the loop on itself
(`stuck`).  `sched_loop_blocks_only_when_full`, `sched_loop_block_is_forever` and
`sched_few_mailboxes_never_block` say exactly when; `sched_idle_all_delivered` and
`sched_release_delivers_all` are the "never stalls" statements outside that state.

Tie to the code: harness/c09/sched_test.go drives the real scheDisp + run service
with real mailboxes through the same op lines; the implementation additionally
reports the goroutine of every handler invocation and the number of handlers in
flight (the property predicate in `Driver/C09Sched.lean` demands loop goroutine
only, never two at a time).
-/
namespace Cell2v.Props.C09
open Cell2v.SchedDisp

/-- a dispatcher state reachable by some sequence of posts and releases -/
def SReachable (s : St) : Prop := ∃ ops, s = runOps init ops

theorem sched_invariant (s : St) (h : SReachable s) : Inv s := by
  obtain ⟨ops, rfl⟩ := h
  exact inv_run ops init inv_init

/-- the task channel never holds more than its 9 slots -/
theorem sched_channel_bounded (s : St) (h : SReachable s) : s.queue.length ≤ 9 := by
  have hi := sched_invariant s h
  obtain ⟨ops, rfl⟩ := h
  have := run_cap ops init
  have h2 := hi.2.1
  rw [this] at h2
  exact h2

/-- a poster sits blocked inside `Schedule` only while all 9 slots are taken (nobody waits at a channel with room) -/
theorem sched_blocked_only_when_full (s : St) (h : SReachable s) (hb : s.blocked ≠ []) : s.queue.length = 9 := by
  have hle := sched_channel_bounded s h
  obtain ⟨ops, rfl⟩ := h
  have hf := full_run ops init inv_init (by simp [Full, init]) hb
  rw [run_cap ops init] at hf
  have : init.cap = 9 := rfl
  omega

/-- **exactly once, in per-mailbox post order**: for every mailbox, what its invoker has
received followed by what is still pending is exactly what was posted to it, in order —
whatever mixture of buffered, blocked and immediately executed runs produced it -/
theorem sched_exactly_once_in_order (s : St) (h : SReachable s) (mb : Nat) :
    s.ran.filter (fun p => p.1 == mb) ++ s.mq.filter (fun p => p.1 == mb) = s.posted.filter (fun p => p.1 == mb) :=
  (sched_invariant s h).2.2.2 mb

/-- **never stalls**: whenever the loop goroutine is idle, nothing posted is undelivered
(no message waits for a further post to wake its mailbox), nothing is buffered and no
poster is blocked -/
theorem sched_idle_all_delivered (s : St) (h : SReachable s) (hidle : s.gateMb = none) :
    s.mq = [] ∧ s.queue = [] ∧ s.blocked = [] := by
  obtain ⟨h1, _, h3, _⟩ := sched_invariant s h
  obtain ⟨hq, hb⟩ := h1 hidle
  refine ⟨?_, hq, hb⟩
  cases hm : s.mq with
  | nil => rfl
  | cons p rest =>
    have := h3 p (by simp [hm])
    rw [scheduled_iff] at this
    simp [hq, hb, hidle] at this

/-- ... hence at idle every mailbox has received exactly its posts, in order -/
theorem sched_idle_delivered_eq_posted (s : St) (h : SReachable s) (hidle : s.gateMb = none) (mb : Nat) :
    s.ran.filter (fun p => p.1 == mb) = s.posted.filter (fun p => p.1 == mb) := by
  have := sched_exactly_once_in_order s h mb
  rw [(sched_idle_all_delivered s h hidle).1] at this
  simpa using this

/-- every undelivered message belongs to a mailbox whose run is buffered, blocked in
`Schedule`, or the one being executed: the wake-up is never lost between mailbox and dispatcher -/
theorem sched_pending_has_run (s : St) (h : SReachable s) (p : Nat × Nat) (hp : p ∈ s.mq) :
    p.1 ∈ s.queue ∨ p.1 ∈ s.blocked ∨ s.gateMb = some p.1 :=
  (scheduled_iff s p.1).1 ((sched_invariant s h).2.2.1 p hp)

/-- non-vacuity: a gated handler, eleven posts to distinct mailboxes (nine buffered, two posters
blocked), nothing delivered meanwhile; after the release all twelve messages arrived in order -/
example :
    let ops := Op.post 0 1 true :: (List.range 11).map (fun i => Op.post (3 + i) ((3 + i) * 100 + 1) false)
    (runOps init ops).queue.length = 9 ∧ (runOps init ops).blocked = [12, 13] ∧ (runOps init ops).ran = [(0, 1)] ∧
    ((runOps init (ops ++ [Op.release])).ran.map (·.2)) = [1, 301, 401, 501, 601, 701, 801, 901, 1001, 1101, 1201, 1301] ∧
    (runOps init (ops ++ [Op.release])).gateMb = none := by
  decide

/-- the loop goroutine blocks inside `Schedule` (on its own channel) only while a handler is executing and all 9 slots
are taken -/
theorem sched_loop_blocks_only_when_full (s : St) (h : SReachable s) (hs : s.stuck = true) :
    s.gateMb ≠ none ∧ s.queue.length = 9 := by
  have hle := sched_channel_bounded s h
  obtain ⟨ops, rfl⟩ := h
  obtain ⟨h1, h2⟩ := stuckinv_run ops init inv_init stuckinv_init hs
  rw [run_cap ops init] at h2
  have : init.cap = 9 := rfl
  exact ⟨h1, by omega⟩

/-- **the stall** (several mailboxes on one scheDisp): once the loop goroutine is blocked on its own channel, no
sequence of further posts, handler posts and releases delivers anything — every mailbox of the dispatcher is dead -/
theorem sched_loop_block_is_forever (s : St) (h : SReachable s) (hs : s.stuck = true) (ops : List Op) :
    (runOps s ops).stuck = true ∧ (runOps s ops).ran = s.ran :=
  stuck_run ops s hs (sched_loop_blocks_only_when_full s h hs).1

/-- **it cannot happen with at most 9 mailboxes on the dispatcher**: if every post (foreign or by a handler) addresses
one of `n ≤ 9` mailboxes, the loop goroutine never blocks in `Schedule` and no poster ever does either (each mailbox has
at most one run in the channel, the executing one has none) -/
theorem sched_few_mailboxes_never_block (n : Nat) (hn : n ≤ 9) (ops : List Op) (hb : OpsBelow n ops) :
    (runOps init ops).stuck = false ∧ (runOps init ops).blocked = [] := by
  have := small_run n ops init (by simpa [init] using hn) hb (small_init n)
  exact ⟨this.2.2.2.2.2, this.2.2.2.2.1⟩

theorem runOps_append (s : St) (a b : List Op) : runOps s (a ++ b) = runOps (runOps s a) b := by
  simp [runOps, List.foldl_append]

/-- **never stalls, as long as the loop goroutine is not blocked on itself**: when the executing handler returns, the
loop drains everything — afterwards nothing posted is undelivered, whatever was buffered or blocked -/
theorem sched_release_delivers_all (s : St) (h : SReachable s) (hs : s.stuck = false) :
    (release s).mq = [] ∧ (release s).queue = [] ∧ (release s).blocked = [] ∧ (release s).gateMb = none := by
  have hr : SReachable (release s) := by
    obtain ⟨ops, rfl⟩ := h
    exact ⟨ops ++ [Op.release], by rw [runOps_append]; rfl⟩
  have hg : (release s).gateMb = none := by
    unfold release
    rw [if_neg (by simp [hs])]
    cases hgm : s.gateMb with
    | none => simpa using hgm
    | some g => exact (foldl_runMb_fields _ _).2.2.2.1
  obtain ⟨a, b, c⟩ := sched_idle_all_delivered _ hr hg
  exact ⟨a, b, c, hg⟩

/-- `Schedule` has no deadline: any amount of clock time, in any number of pieces, changes nothing at all -/
theorem sched_wait_inert (s : St) (l : List Nat) : runOps s (l.map Op.wait) = s := by
  induction l with
  | nil => rfl
  | cons a l ih =>
    show runOps (step s (Op.wait a)) (l.map Op.wait) = s
    exact ih

/-- **a long handler loses nothing**: however long the executing handler keeps the loop goroutine (waits interleaved with
any posts are covered by `SReachable`), the runs buffered in the channel and the posters parked inside `Schedule` are all
still there, and when the handler returns every one of them is served -/
theorem sched_long_handler_loses_nothing (s : St) (h : SReachable s) (hs : s.stuck = false) (l : List Nat) :
    (runOps s (l.map Op.wait)).queue = s.queue ∧ (runOps s (l.map Op.wait)).blocked = s.blocked ∧
    (runOps s (l.map Op.wait)).mq = s.mq ∧ (release (runOps s (l.map Op.wait))).mq = [] := by
  rw [sched_wait_inert]
  exact ⟨rfl, rfl, rfl, (sched_release_delivers_all s h hs).1⟩

/-- non-vacuity: a gated handler, 11 foreign posts (2 posters parked in `Schedule`), an hour passes, release: all 12 delivered -/
example :
    let ops := Op.post 0 1 true :: (List.range 11).map (fun i => Op.post (3 + i) ((3 + i) * 100 + 1) false) ++ [Op.wait 3600000]
    (runOps init ops).blocked.length = 2 ∧ (runOps init ops).stuck = false ∧
    (runOps init (ops ++ [Op.release])).ran.length = 12 := by
  decide

/-- defect witness (reproduced on the real scheDisp: one handler posting to 10 idle siblings never returns): a gated
handler, nine foreign posts fill the channel, the handler posts to a tenth idle mailbox — the loop goroutine is stuck;
the release and a later post deliver nothing -/
example :
    let ops := Op.post 0 1 true :: (List.range 9).map (fun i => Op.post (3 + i) ((3 + i) * 100 + 1) false) ++ [Op.selfPost 20 2001]
    (runOps init ops).stuck = true ∧ (runOps init ops).queue.length = 9 ∧
    (runOps init (ops ++ [Op.release, Op.post 30 3001 false])).ran = [(0, 1)] := by
  decide
/-- non-vacuity of `sched_few_mailboxes_never_block`: 9 mailboxes, the handler posts to all the others and to itself -/
example : OpsBelow 9 (Op.post 0 1 true :: (List.range 9).map (fun i => Op.selfPost i (i * 100 + 2))) := by
  intro o ho mb hmb
  simp only [List.mem_cons, List.mem_map, List.mem_range] at ho
  rcases ho with rfl | ⟨i, hi, rfl⟩
  · simp [opMb] at hmb; omega
  · simp [opMb] at hmb; omega

end Cell2v.Props.C09
