import Cell2v.Lemmas.SchedDisp
/-!
C09 — several mailboxes on ONE dispatcher (`actorex/disp/schedisp.go`: a 9-slot
channel drained by the run service's single loop goroutine).

`Model/SchedDisp.lean`: foreign goroutines post to any number of mailboxes while
a handler keeps the loop goroutine busy; the channel fills, further posters block
in `Schedule`; when the handler returns the loop drains everything.  In the model
a mailbox run is executed ONLY by the loop (`post` on an idle loop, `release`);
a poster that finds the channel full is parked in `blocked` and runs nothing.
The statements quantify over every sequence of posts (any mailboxes, any number,
any position of gated handlers) and releases.

Tie to the code: harness/c09/sched_test.go drives the real scheDisp + run service
with real mailboxes through the same op lines; the implementation additionally
reports the goroutine of every handler invocation and the number of handlers in
flight (the property predicate in `Driver/C09Sched.lean` demands loop goroutine
only, never two at a time).
-/
namespace Cell2v.Props.C09
open Cell2v.SchedDisp

/-- a dispatcher state reachable by some sequence of posts and releases -/
def SReachable (s : St) : Prop := ∃ ops, s = runOps init ops

theorem sched_invariant (s : St) (h : SReachable s) : Inv s := by
  obtain ⟨ops, rfl⟩ := h
  exact inv_run ops init inv_init

/-- the task channel never holds more than its 9 slots -/
theorem sched_channel_bounded (s : St) (h : SReachable s) : s.queue.length ≤ 9 := by
  have hi := sched_invariant s h
  obtain ⟨ops, rfl⟩ := h
  have := run_cap ops init
  have h2 := hi.2.1
  rw [this] at h2
  exact h2

/-- a poster sits blocked inside `Schedule` only while all 9 slots are taken (nobody waits at a channel with room) -/
theorem sched_blocked_only_when_full (s : St) (h : SReachable s) (hb : s.blocked ≠ []) : s.queue.length = 9 := by
  have hle := sched_channel_bounded s h
  obtain ⟨ops, rfl⟩ := h
  have hf := full_run ops init inv_init (by simp [Full, init]) hb
  rw [run_cap ops init] at hf
  have : init.cap = 9 := rfl
  omega

/-- **exactly once, in per-mailbox post order**: for every mailbox, what its invoker has
received followed by what is still pending is exactly what was posted to it, in order —
whatever mixture of buffered, blocked and immediately executed runs produced it -/
theorem sched_exactly_once_in_order (s : St) (h : SReachable s) (mb : Nat) :
    s.ran.filter (fun p => p.1 == mb) ++ s.mq.filter (fun p => p.1 == mb) = s.posted.filter (fun p => p.1 == mb) :=
  (sched_invariant s h).2.2.2 mb

/-- **never stalls**: whenever the loop goroutine is idle, nothing posted is undelivered
(no message waits for a further post to wake its mailbox), nothing is buffered and no
poster is blocked -/
theorem sched_idle_all_delivered (s : St) (h : SReachable s) (hidle : s.gateMb = none) :
    s.mq = [] ∧ s.queue = [] ∧ s.blocked = [] := by
  obtain ⟨h1, _, h3, _⟩ := sched_invariant s h
  obtain ⟨hq, hb⟩ := h1 hidle
  refine ⟨?_, hq, hb⟩
  cases hm : s.mq with
  | nil => rfl
  | cons p rest =>
    have := h3 p (by simp [hm])
    rw [scheduled_iff] at this
    simp [hq, hb, hidle] at this

/-- ... hence at idle every mailbox has received exactly its posts, in order -/
theorem sched_idle_delivered_eq_posted (s : St) (h : SReachable s) (hidle : s.gateMb = none) (mb : Nat) :
    s.ran.filter (fun p => p.1 == mb) = s.posted.filter (fun p => p.1 == mb) := by
  have := sched_exactly_once_in_order s h mb
  rw [(sched_idle_all_delivered s h hidle).1] at this
  simpa using this

/-- every undelivered message belongs to a mailbox whose run is buffered, blocked in
`Schedule`, or the one being executed: the wake-up is never lost between mailbox and dispatcher -/
theorem sched_pending_has_run (s : St) (h : SReachable s) (p : Nat × Nat) (hp : p ∈ s.mq) :
    p.1 ∈ s.queue ∨ p.1 ∈ s.blocked ∨ s.gateMb = some p.1 :=
  (scheduled_iff s p.1).1 ((sched_invariant s h).2.2.1 p hp)

/-- non-vacuity: a gated handler, eleven posts to distinct mailboxes (nine buffered, two posters
blocked), nothing delivered meanwhile; after the release all twelve messages arrived in order -/
example :
    let ops := Op.post 0 1 true :: (List.range 11).map (fun i => Op.post (3 + i) ((3 + i) * 100 + 1) false)
    (runOps init ops).queue.length = 9 ∧ (runOps init ops).blocked = [12, 13] ∧ (runOps init ops).ran = [(0, 1)] ∧
    ((runOps init (ops ++ [Op.release])).ran.map (·.2)) = [1, 301, 401, 501, 601, 701, 801, 901, 1001, 1101, 1201, 1301] ∧
    (runOps init (ops ++ [Op.release])).gateMb = none := by
  decide

end Cell2v.Props.C09
