import Cell2v.Lemmas.ApiMap
import Cell2v.Lemmas.ApiMapExec
import Cell2v.Gen.C13Registry
/-!
C13 — property theorems (API mapping: routes hit exactly handler-shaped
methods; calls always complete).  Only property statements, non-vacuity
examples and the D11 witness live here.

Reading guide (statement clause → theorem):
* "exposes exactly its exported methods of handler shape … and nothing else"
    → `shape_predicate_exact`, `route_table_eq_spec`, `exposed_iff_handler_shaped`
* "under the route group.method with the configured naming applied"
    → `naming_applied`, `route_addresses_group_method`
* "decodes the payload into that method's declared message type and invokes that method once with it"
    → `decodes_into_declared_type`
* "for every route and payload … a call made with a completion function completes it exactly once with an error"
    → `call_with_cb_completes_once_partial` (+ the clause-by-clause `malformed_route_error`, `unknown_route_error`,
      `undecodable_payload_error`, `nil_serializer_error`, `reflect_mismatch_recovered`, `panicking_handler_error`),
      the full statement `CallWithCbCompletesOnce` is FALSE today (D11): `call_with_cb_completes_once_full_fails`,
      and `never_completed_iff_notify_shaped` shows D11 is the only way of not completing
* "a handler that panics … completes it exactly once" (D23, fixed in /repo 7b326e6: `CallMethod`'s `handlerCB` / `panicCB`
  around the variable `completed`) → `exec_panic_completion_iff_not_completed` (every handler behaviour, every completion
  function), `exec_complete_then_panic_completes_once`, `exec_choking_callback_still_gets_error`,
  `exec_completes_exactly_once_any_callback`, `panicking_handler_completes_once`; the code before the fix:
  `prefix_panicking_handler_completions`, `prefix_complete_then_panic_completed_twice`
* "nothing escapes as a panic" → `no_escaping_panic`
* notify semantics → `call_without_cb_never_completes`
* service dispatcher (actorex/service/api.go) → `dispatch_*`
-/
namespace Cell2v.Props.C13
open Cell2v.ApiMap

/-! ## exposure -/

/-- the code's predicate (`IsValidMethod`) accepts exactly the handler-shaped methods -/
theorem shape_predicate_exact (m : Method) : isValidMethod m = true ↔ HandlerShaped m :=
  isValid_iff_handlerShaped m

/-- **route table = its declarative description**, for every list of registered
entries (any types, any options, duplicates, rejected ones) and every group/method name -/
theorem route_table_eq_spec (fmtOK : Bool) (es : List Entry) (g m : Bytes) :
    lookupRoute (build fmtOK es) g m = specHandler fmtOK es g m :=
  lookupRoute_build fmtOK es g m

/-- **exposed ⇔ handler-shaped** (and nothing else): `g.m` is in the table iff the
entry owning group `g` has, in its method set, an exported handler-shaped method
whose renamed name is `m` -/
theorem exposed_iff_handler_shaped (es : List Entry) (g m : Bytes) :
    (∃ h, lookupRoute (build true es) g m = some h) ↔
      ∃ e, owner true es g = some e ∧ ∃ x ∈ methodSet e, HandlerShaped x ∧ applyNF e.nameFunc x.name = m := by
  rw [route_table_eq_spec]
  unfold specHandler
  constructor
  · rintro ⟨h, hh⟩
    cases ho : owner true es g with
    | none => simp [ho] at hh
    | some e =>
      simp only [ho, Option.bind_some] at hh
      cases hl : lastSuch (fun x => handlerShapedB x && applyNF e.nameFunc x.name == m) (methodSet e) with
      | none => simp [hl] at hh
      | some x =>
        have := lastSuch_some hl
        simp only [Bool.and_eq_true, beq_iff_eq] at this
        exact ⟨e, rfl, x, this.1, (handlerShapedB_iff x).1 this.2.1, this.2.2⟩
  · rintro ⟨e, ho, x, hx, hs, hn⟩
    simp only [ho, Option.bind_some]
    cases hl : lastSuch (fun x => handlerShapedB x && applyNF e.nameFunc x.name == m) (methodSet e) with
    | some y => exact ⟨_, rfl⟩
    | none =>
      have := lastSuch_none.1 hl x hx
      simp [(handlerShapedB_iff x).2 hs, hn] at this

/-- the exposed handler is a method of the owning entry: its declared context and
message types are the method's parameters 1 and 2, request iff it takes a completion function -/
theorem exposed_handler_is_owners_method {fmtOK : Bool} {es : List Entry} {route : Bytes} {h : Handler}
    (hh : getHandler (build fmtOK es) route = some h) :
    ∃ g m e x, splitRoute route = some (g, m) ∧ owner fmtOK es g = some e ∧ x ∈ methodSet e ∧
      HandlerShaped x ∧ applyNF e.nameFunc x.name = m ∧ h = mkHandler e.eid x := by
  obtain ⟨g, m, e, x, h1, h2, h3, h4, h5, h6⟩ := getHandler_build hh
  exact ⟨g, m, e, x, h1, h2, h3, (isValid_iff_handlerShaped x).1 h4, h5, h6⟩

/-- **naming**: the group is the configured group name, else the renamed type
name; every key of the container is the renamed name of a valid method of that entry -/
theorem naming_applied (fmtOK : Bool) (es : List Entry) (g : Bytes) (c : Container)
    (hc : findC (build fmtOK es) g = some c) :
    c.name = g ∧ ∃ e ∈ es, g = (if e.group ≠ [] then e.group else applyNF e.nameFunc e.typeName) ∧
      ∀ k h, (k, h) ∈ c.handlers →
        ∃ x ∈ methodSet e, isValidMethod x = true ∧ k = applyNF e.nameFunc x.name ∧ h = mkHandler e.eid x := by
  rw [findC_build] at hc
  cases ho : owner fmtOK es g with
  | none => simp [ho] at hc
  | some e =>
    simp only [ho, Option.bind_some] at hc
    obtain ⟨hmem, hname, _⟩ := owner_some ho
    obtain ⟨hn, hh⟩ := extractHandler_some hc
    refine ⟨hn.trans hname, e, hmem, hname.symm, ?_⟩
    intro k h hk
    rw [hh, suitable] at hk
    rcases mem_suitableAux hk with h0 | ⟨x, hx, _, hv, h1, h2⟩
    · cases h0
    · exact ⟨x, hx, hv, h1, h2⟩

/-- `group.method` (no dots inside the names) addresses exactly that pair; a dot-less route the inner group "_" -/
theorem route_addresses_group_method (g m : Bytes) (hg : 46 ∉ g) (hm : 46 ∉ m) :
    splitRoute (g ++ 46 :: m) = some (g, m) ∧ splitRoute m = some ([95], m) :=
  ⟨splitRoute_group_method hg hm, splitRoute_single hm⟩

/-- a route is malformed iff it has three or more segments -/
theorem route_malformed_iff (r : Bytes) : splitRoute r = none ↔ 2 ≤ r.count 46 := splitRoute_none_iff r

/-! ## calls -/

/-- **declared type**: if the route names a handler, the payload decodes into that
handler's declared message type, and reflect accepts the arguments (context nil
or of the declared type; for a request-shaped method the completion function is
assignable to the 4th parameter), then exactly that handler is invoked, once,
with the decoded value of exactly that type — for a call with a completion
function the method must be request-shaped (else D11) -/
theorem decodes_into_declared_type (fmtOK : Bool) (es : List Entry) (dec : Decoder) (route data v : Bytes)
    (ctx : CtxArg) (hasCb : Bool) (h : Handler)
    (hh : getHandler (build fmtOK es) route = some h)
    (hdec : dec h.argT.id data = some v)
    (hctx : ctx = .nil ∨ ctx = .ty h.ctxT.id)
    (hcb : h.isRequest = true → ((h.meth.ins[3]?).map (·.cbAssignable)).getD false = true)
    (hshape : h.isRequest = true ∨ hasCb = false) :
    callWithSerialize (build fmtOK es) (some dec) route ctx data hasCb
      = .invoked h (ctx != .nil) (.val h.argT.builtId v) := by
  obtain ⟨g, m, e, x, _, _, _, hv, _, hx⟩ := getHandler_build hh
  have hptr := (valid_argT_ptr e.eid hv).1
  have hlen := valid_len hv
  subst hx
  have hreq : (mkHandler e.eid x).isRequest = (x.ins.length == 4) := rfl
  have hmeth : (mkHandler e.eid x).meth = x := rfl
  unfold callWithSerialize
  simp only [getArgType, hh, Option.map_some, hptr, Kind.hasElem, Bool.not_true, Bool.false_eq_true, if_false, hdec]
  rw [call_eq, hh]
  simp only []
  have hctxG : ∀ c : CtxArg, (c = .nil ∨ c = .ty (mkHandler e.eid x).ctxT.id) →
      (match c with | .nil => true | .ty id => assignableTo id (mkHandler e.eid x).ctxT) = true := by
    intro c hc; rcases hc with rfl | rfl <;> simp [assignableTo]
  have hctx' := hctxG ctx hctx
  cases hr : (mkHandler e.eid x).isRequest with
  | true =>
    have h4 : x.ins.length = 4 := by simpa [hreq] using hr
    have := hcb hr
    have hasg : assignableTo (mkHandler e.eid x).argT.builtId (mkHandler e.eid x).argT = true := by simp [assignableTo, hptr]
    have hty : typesOK (mkHandler e.eid x) ctx (.val (mkHandler e.eid x).argT.builtId v) true = true := by
      simp only [typesOK, hmeth, h4, Bool.and_eq_true]
      exact ⟨⟨⟨by simp, hctx'⟩, hasg⟩, by simpa [hmeth] using this⟩
    simp [safeCall, hty]
  | false =>
    have hcbf : hasCb = false := by rcases hshape with h1 | h1; · rw [hr] at h1; cases h1
                                    · exact h1
    have h3 : x.ins.length = 3 := by
      have : (x.ins.length == 4) = false := by simpa [hreq] using hr
      rw [this] at hlen; simpa using hlen
    have hasg : assignableTo (mkHandler e.eid x).argT.builtId (mkHandler e.eid x).argT = true := by simp [assignableTo, hptr]
    have hty : typesOK (mkHandler e.eid x) ctx (.val (mkHandler e.eid x).argT.builtId v) false = true := by
      simp only [typesOK, hmeth, h3, Bool.and_eq_true]
      exact ⟨⟨⟨by simp, hctx'⟩, hasg⟩, by simp⟩
    simp [hcbf, safeCall, hty]

/-- **nothing escapes as a panic**: on a built collection, for every serializer,
route, context, payload, with or without completion function -/
theorem no_escaping_panic (fmtOK : Bool) (es : List Entry) (ser : Option Decoder) (route data : Bytes)
    (ctx : CtxArg) (arg : ArgV) (hasCb : Bool) :
    callWithSerialize (build fmtOK es) ser route ctx data hasCb ≠ .escaped ∧
    call (build fmtOK es) route ctx arg hasCb ≠ .escaped := by
  refine ⟨?_, call_ne_escaped _ _ _ _ _⟩
  rw [callWithSerialize_build]
  intro h
  split at h
  · cases h
  · split at h
    · cases h
    · split at h
      · cases h
      · exact call_ne_escaped _ _ _ _ _ h

/-- the route names a notify-shaped method (3 parameters, no completion function) -/
def NamesNotify (col : Collection) (route : Bytes) : Prop :=
  ∃ h, getHandler col route = some h ∧ h.isRequest = false

/-- a handler that was invoked by a call WITH a completion function is request-shaped (a notify-shaped one is D11) -/
theorem call_invoked_with_cb_isRequest {col : Collection} {route : Bytes} {ctx : CtxArg} {arg : ArgV}
    {h : Handler} {cs : Bool} {a : ArgV} (ho : call col route ctx arg true = .invoked h cs a) : h.isRequest = true := by
  rw [call_eq] at ho
  cases hg : getHandler col route with
  | none => simp [hg] at ho
  | some h' =>
    simp only [hg] at ho
    cases hr : h'.isRequest with
    | false => simp [hr] at ho
    | true =>
      simp only [hr, if_true, safeCall] at ho
      split at ho
      · cases ho; exact hr
      · cases ho

theorem callWithSerialize_invoked_with_cb_isRequest {col : Collection} {ser : Option Decoder} {route data : Bytes}
    {ctx : CtxArg} {h : Handler} {cs : Bool} {a : ArgV}
    (ho : callWithSerialize col ser route ctx data true = .invoked h cs a) : h.isRequest = true := by
  unfold callWithSerialize at ho
  split at ho
  · cases ho
  · split at ho
    · cases ho
    · split at ho
      · cases ho
      · split at ho
        · cases ho
        · exact call_invoked_with_cb_isRequest ho

/-- one call through `Collection.Call` with a completion function, disciplined handler (completes exactly once and
then returns or panics, or panics before completing): one completion or none -/
theorem call_completions_le_one (col : Collection) (route : Bytes) (ctx : CtxArg) (arg : ArgV) (b : Beh)
    (hb : b.disciplined = true) :
    (completions (call col route ctx arg true) true b).length =
      (if call col route ctx arg true = .nothing then 0 else 1) := by
  have hne := call_ne_escaped col route ctx arg true
  cases ho : call col route ctx arg true with
  | fwErr => simp [completions, completionsG]
  | recovered => simp [completions, completionsG]
  | nothing => simp [completions, completionsG]
  | escaped => exact absurd ho hne
  | invoked h cs a =>
    have hreq : h.isRequest = true := by
      rw [call_eq] at ho
      cases hg : getHandler col route with
      | none => simp [hg] at ho
      | some h' =>
        simp only [hg] at ho
        cases hr : h'.isRequest with
        | false => simp [hr] at ho
        | true =>
          simp only [hr, if_true, safeCall] at ho
          split at ho
          · cases ho; exact hr
          · cases ho
    obtain ⟨comps, panics, bad⟩ := b
    simp only [Beh.disciplined, Bool.or_eq_true, Bool.and_eq_true, beq_iff_eq, List.isEmpty_iff] at hb
    simp only [completions, completionsG, hreq, if_true, Bool.not_true, Bool.false_eq_true, if_false, reduceCtorEq]
    rcases hb with hl | ⟨hl, hp⟩
    · match comps, hl with
      | [c], _ => simp [playComps]
    · subst hl; simp [playComps, hp]

/-- **D11 is the only way of not completing**: with a completion function and a
disciplined handler, `Collection.Call` completes zero times iff the route names
a notify-shaped method, and exactly once otherwise — for every collection,
route, context and argument -/
theorem never_completed_iff_notify_shaped (col : Collection) (route : Bytes) (ctx : CtxArg) (arg : ArgV) (b : Beh)
    (hb : b.disciplined = true) :
    ((completions (call col route ctx arg true) true b).length = 0 ↔ NamesNotify col route) ∧
    ((completions (call col route ctx arg true) true b).length = 1 ↔ ¬ NamesNotify col route) := by
  rw [call_completions_le_one col route ctx arg b hb]
  have key : call col route ctx arg true = .nothing ↔ NamesNotify col route := by
    rw [call_eq]
    unfold NamesNotify
    cases hg : getHandler col route with
    | none => simp
    | some h =>
      cases hr : h.isRequest with
      | true => by_cases ht : typesOK h ctx arg true = true <;> simp [safeCall, ht, hr]
      | false => simp [hr]
  constructor
  · rw [← key]; split <;> simp_all
  · rw [← key]; split <;> simp_all

/-- THE FULL STATEMENT of "a call made with a completion function completes it
exactly once": for all entries, serializers, routes, contexts, payloads and
disciplined handlers.  It does NOT hold for the code as it is (D11, known
finding `C13/request-on-notify-shaped-never-completes`); see
`call_with_cb_completes_once_full_fails`. -/
def CallWithCbCompletesOnce : Prop :=
  ∀ (fmtOK : Bool) (es : List Entry) (ser : Option Decoder) (route data : Bytes) (ctx : CtxArg) (b : Beh),
    b.disciplined = true →
    (completions (callWithSerialize (build fmtOK es) ser route ctx data true) true b).length = 1

/-- **exactly once** (the part that holds): for every list of entries, serializer
(or none), route (malformed, unknown group, unknown method, …), context, payload
(decodable or not) and disciplined handler (completes once, or panics before
completing): if the route does not name a notify-shaped method, the completion
function is completed exactly once -/
theorem call_with_cb_completes_once_partial (fmtOK : Bool) (es : List Entry) (ser : Option Decoder)
    (route data : Bytes) (ctx : CtxArg) (b : Beh) (hb : b.disciplined = true)
    (hn : ¬ NamesNotify (build fmtOK es) route) :
    (completions (callWithSerialize (build fmtOK es) ser route ctx data true) true b).length = 1 := by
  rw [callWithSerialize_build]
  split
  · simp [completions, completionsG]
  · split
    · simp [completions, completionsG]
    · split
      · simp [completions, completionsG]
      · exact (never_completed_iff_notify_shaped _ route ctx _ b hb).2.2 hn

/-! ### D11 witness -/

def dctx : TyDesc := ⟨.ptr, true, false, [1], [], none, none⟩
def dmsg : TyDesc := ⟨.ptr, false, false, [2], [], none, none⟩
def dcb : TyDesc := ⟨.func, false, true, [3], [], none, none⟩
def drecv : TyDesc := ⟨.ptr, false, false, [0], [], none, none⟩
/-- `func (e *E) Join(ctx, msg, cb)` and `func (e *E) Say(ctx, msg)` -/
def mJoin : Method := ⟨[74], [74], true, false, [drecv, dctx, dmsg, dcb]⟩
def mSay : Method := ⟨[83], [83], true, false, [drecv, dctx, dmsg]⟩
def eDemo : Entry := ⟨1, [69], true, [mJoin, mSay], [], none, false⟩
def decId : Decoder := fun _ d => some d
def bOk : Beh := ⟨[true], false, false⟩

/-- D11 (known finding, pinned by the baseline test apientry::TestCall): a request
— a call with a completion function — on the notify-shaped `E.Say` is never completed -/
theorem d11_witness :
    callWithSerialize (build true [eDemo]) (some decId) [69, 46, 83] .nil [] true = .nothing ∧
    completions (callWithSerialize (build true [eDemo]) (some decId) [69, 46, 83] .nil [] true) true bOk = [] := by
  decide

theorem call_with_cb_completes_once_full_fails : ¬ CallWithCbCompletesOnce := by
  intro h
  have := h true [eDemo] (some decId) [69, 46, 83] [] .nil bOk (by decide)
  rw [d11_witness.2] at this
  cases this

/-- non-vacuity of `call_with_cb_completes_once_partial` and `decodes_into_declared_type`:
the request-shaped `E.Join` is invoked with the decoded payload and completes once -/
example :
    callWithSerialize (build true [eDemo]) (some decId) [69, 46, 74] (.ty [1]) [7, 7] true
      = .invoked (mkHandler 1 mJoin) true (.val [2] [7, 7]) ∧
    (completions (callWithSerialize (build true [eDemo]) (some decId) [69, 46, 74] (.ty [1]) [7, 7] true) true bOk).length = 1 ∧
    ¬ NamesNotify (build true [eDemo]) [69, 46, 74] := by
  refine ⟨by decide, by decide, ?_⟩
  rintro ⟨h, hh, hr⟩
  have : getHandler (build true [eDemo]) [69, 46, 74] = some (mkHandler 1 mJoin) := by decide
  rw [this] at hh; cases hh; revert hr; decide

example : decodes_into_declared_type true [eDemo] decId [69, 46, 74] [7, 7] [7, 7] (.ty [1]) true (mkHandler 1 mJoin)
    (by decide) (by decide) (Or.inr rfl) (fun _ => by decide) (Or.inl (by decide))
    = (by decide : callWithSerialize (build true [eDemo]) (some decId) [69, 46, 74] (.ty [1]) [7, 7] true
        = .invoked (mkHandler 1 mJoin) true (.val [2] [7, 7])) := rfl

/-! ### clause by clause: every error path is one error completion -/

/-- malformed route (three or more segments): framework error, for `Call` and `CallWithSerialize` alike -/
theorem malformed_route_error (col : Collection) (ser : Option Decoder) (route data : Bytes) (ctx : CtxArg)
    (arg : ArgV) (hasCb : Bool) (hr : 2 ≤ route.count 46) :
    call col route ctx arg hasCb = .fwErr ∧ callWithSerialize col ser route ctx data hasCb = .fwErr := by
  have hs := (splitRoute_none_iff route).2 hr
  constructor
  · simp [call, hs]
  · unfold callWithSerialize
    cases ser with
    | none => rfl
    | some dec => simp [getArgType, getHandler, hs]

/-- unknown group or unknown method: framework error -/
theorem unknown_route_error (col : Collection) (ser : Option Decoder) (route data : Bytes) (ctx : CtxArg)
    (arg : ArgV) (hasCb : Bool) (hr : getHandler col route = none) :
    call col route ctx arg hasCb = .fwErr ∧ callWithSerialize col ser route ctx data hasCb = .fwErr := by
  constructor
  · rw [call_eq, hr]
  · unfold callWithSerialize
    cases ser with
    | none => rfl
    | some dec => simp [getArgType, hr]

/-- no serializer: framework error -/
theorem nil_serializer_error (col : Collection) (route data : Bytes) (ctx : CtxArg) (hasCb : Bool) :
    callWithSerialize col none route ctx data hasCb = .fwErr := rfl

/-- undecodable payload: framework error, the handler is not run -/
theorem undecodable_payload_error (fmtOK : Bool) (es : List Entry) (dec : Decoder) (route data : Bytes)
    (ctx : CtxArg) (hasCb : Bool) (h : Handler) (hh : getHandler (build fmtOK es) route = some h)
    (hdec : dec h.argT.id data = none) :
    callWithSerialize (build fmtOK es) (some dec) route ctx data hasCb = .fwErr := by
  obtain ⟨_, _, e, x, _, _, _, hv, _, hx⟩ := getHandler_build hh
  have hptr : h.argT.kind = .ptr := by rw [hx]; exact (valid_argT_ptr e.eid hv).1
  simp [callWithSerialize, getArgType, hh, hptr, hdec, Kind.hasElem]

/-- anything `reflect.Value.Call` rejects (context of another type, message of
another type, a 4th parameter the completion function is not assignable to) is
recovered by `SafeCall`: the handler is not run, one "panic in rpc" completion -/
theorem reflect_mismatch_recovered (col : Collection) (route : Bytes) (ctx : CtxArg) (arg : ArgV) (h : Handler)
    (hh : getHandler col route = some h) (hreq : h.isRequest = true) (hbad : typesOK h ctx arg true = false)
    (hasCb : Bool) (b : Beh) :
    call col route ctx arg hasCb = .recovered ∧
    completions (call col route ctx arg hasCb) true b = [.f] := by
  have : call col route ctx arg hasCb = .recovered := by
    rw [call_eq, hh]; simp [hreq, safeCall, hbad]
  exact ⟨this, by rw [this]; rfl⟩

/-- a handler that panics before completing: exactly one completion, an error, by the framework -/
theorem panicking_handler_error (h : Handler) (cs : Bool) (a : ArgV) (hreq : h.isRequest = true) :
    completions (.invoked h cs a) true ⟨[], true, false⟩ = [.f] := by
  simp [completions, completionsG, hreq, playComps]

/-- what the code does when a handler completes and THEN panics (since the fix of D23, /repo 7b326e6): the
handler's completion stands, `SafeCall`'s "panic in rpc" is NOT delivered on top of it -/
theorem complete_then_panic_completes_once (h : Handler) (cs : Bool) (a : ArgV) (hreq : h.isRequest = true) (c : Bool) :
    completions (.invoked h cs a) true ⟨[c], true, false⟩ = [.h c] := by
  simp [completions, completionsG, hreq, playComps]

/-- what the code did BEFORE that fix (`completionsGPre`): a second (error) completion -/
theorem complete_then_panic_completes_twice (h : Handler) (cs : Bool) (a : ArgV) (hreq : h.isRequest = true) :
    completionsGPre false (.invoked h cs a) true ⟨[true], true, false⟩ = [.h true, .f] := by
  simp [completionsGPre, hreq, playComps]

/-- **notify semantics**: without a completion function nothing is ever completed,
whatever the route, payload, serializer and handler behaviour -/
theorem call_without_cb_never_completes (col : Collection) (ser : Option Decoder) (route data : Bytes)
    (ctx : CtxArg) (arg : ArgV) (b : Beh) :
    completions (callWithSerialize col ser route ctx data false) false b = [] ∧
    completions (call col route ctx arg false) false b = [] := by
  simp [completions, completionsG]

/-! ## executions

The theorems above read completions off a summary (`Outcome` + `completionsG`).  The statements
below are about EXECUTIONS of the same code written as an event-emitting, possibly panicking
program (`callWithSerializeX`, Model/ApiMap "execution semantics"): an event list can contain two
handler runs, two framework completions, a framework completion without an error — so "once" and
"with an error" are proved, not typed.  The driver prints the observations of the correspondence
run from these executions. -/

/-- **the summary model is a theorem about executions**: for every collection, (non-panicking)
serializer, route, context, payload, completion function (nil / plain / the dispatcher's picky closure)
and handler behaviour, the execution panics iff the summary is `escaped`, runs exactly the handler
the summary names (once, with that context and argument) and invokes the completion function exactly as
`completionsG` says -/
theorem execution_refines_summary (col : Collection) (ser : Option Decoder) (route : Bytes) (ctx : CtxArg)
    (data : Bytes) (cb : Cb) (b : Beh) :
    (callWithSerializeX col (ser.map Decoder.lift) route ctx data cb b).panicking
      = (callWithSerialize col ser route ctx data cb.isSome == .escaped) ∧
    (callWithSerializeX col (ser.map Decoder.lift) route ctx data cb b).runs
      = runsOf (callWithSerialize col ser route ctx data cb.isSome) ∧
    (callWithSerializeX col (ser.map Decoder.lift) route ctx data cb b).comps
      = completionsG (cbPanicsOf cb b) (callWithSerialize col ser route ctx data cb.isSome) cb.isSome b :=
  callWithSerializeX_refines col ser route ctx data cb b

/-- **exactly once, as a count of events**: for every list of entries, serializer (or none), route,
context, payload and disciplined handler — one that completes exactly once and then returns OR PANICS, or panics
before completing — if the route does not name a notify-shaped method (D11) the
execution invokes the completion function exactly once, runs at most one handler and does not panic -/
theorem exec_completes_exactly_once_partial (fmtOK : Bool) (es : List Entry) (ser : Option Decoder)
    (route data : Bytes) (ctx : CtxArg) (b : Beh) (hb : b.disciplined = true)
    (hn : ¬ NamesNotify (build fmtOK es) route) :
    (callWithSerializeX (build fmtOK es) (ser.map Decoder.lift) route ctx data (some false) b).comps.length = 1 ∧
    (callWithSerializeX (build fmtOK es) (ser.map Decoder.lift) route ctx data (some false) b).runs.length ≤ 1 ∧
    (callWithSerializeX (build fmtOK es) (ser.map Decoder.lift) route ctx data (some false) b).panicking = false := by
  obtain ⟨r1, r2, r3⟩ := callWithSerializeX_refines (build fmtOK es) ser route ctx data (some false) b
  refine ⟨?_, ?_, ?_⟩
  · rw [r3]
    have := call_with_cb_completes_once_partial fmtOK es ser route data ctx b hb hn
    simpa [completions, cbPanicsOf] using this
  · rw [r2]; exact runsOf_length_le _
  · rw [r1]
    have := (no_escaping_panic fmtOK es ser route data ctx .nil true).1
    simpa using this

/-- **every error path is ONE ERROR completion and nothing else**: whenever no handler ran — malformed
route, unknown group or method, no serializer, undecodable payload, arguments reflect rejects — the
whole execution is the single event "completion function invoked by the framework with an error", for
every handler behaviour and both kinds of completion function (D11 excluded) -/
theorem exec_error_paths_one_error_completion (fmtOK : Bool) (es : List Entry) (ser : Option Decoder)
    (route data : Bytes) (ctx : CtxArg) (picky : Bool) (b : Beh)
    (hn : ¬ NamesNotify (build fmtOK es) route)
    (hnr : (callWithSerializeX (build fmtOK es) (ser.map Decoder.lift) route ctx data (some picky) b).runs = []) :
    callWithSerializeX (build fmtOK es) (ser.map Decoder.lift) route ctx data (some picky) b
      = ⟨[.cb false true], false⟩ := by
  obtain ⟨r1, r2, r3⟩ := callWithSerializeX_refines (build fmtOK es) ser route ctx data (some picky) b
  have honce := call_with_cb_completes_once_partial fmtOK es ser route data ctx ⟨[true], false, false⟩ (by decide) hn
  have hesc := (no_escaping_panic fmtOK es ser route data ctx .nil true).1
  simp only [Option.isSome_some] at r1 r2 r3
  have hc : (callWithSerializeX (build fmtOK es) (ser.map Decoder.lift) route ctx data (some picky) b).comps = [.f] := by
    rw [r3]
    rw [r2] at hnr
    cases ho : callWithSerialize (build fmtOK es) ser route ctx data true with
    | fwErr => simp [completionsG]
    | recovered => simp [completionsG]
    | nothing => rw [ho] at honce; simp [completions, completionsG] at honce
    | escaped => exact absurd ho hesc
    | invoked h cs a => rw [ho] at hnr; simp [runsOf] at hnr
  obtain ⟨isErr, hev⟩ := evs_of_readings hnr hc
  have hs := callWithSerializeX_sound (build fmtOK es) (ser.map Decoder.lift) route ctx data (some picky) b
    (.cb false isErr) (by rw [hev]; simp)
  have hp : (callWithSerializeX (build fmtOK es) (ser.map Decoder.lift) route ctx data (some picky) b).panicking = false := by
    rw [r1]; simpa using hesc
  simp only [Ev.sound] at hs
  subst hs
  generalize callWithSerializeX (build fmtOK es) (ser.map Decoder.lift) route ctx data (some picky) b = x at hev hp
  obtain ⟨evs, pn⟩ := x
  simp only at hev hp
  subst hev; subst hp; rfl

/-- **a completion made by the framework always carries an error** — in every execution: any
collection, any serializer (even a panicking one), any handler behaviour -/
theorem exec_framework_completions_are_errors (col : Collection) (ser : Option DecoderX) (route : Bytes)
    (ctx : CtxArg) (data : Bytes) (cb : Cb) (b : Beh) (isErr : Bool)
    (h : Ev.cb false isErr ∈ (callWithSerializeX col ser route ctx data cb b).evs) : isErr = true :=
  callWithSerializeX_sound col ser route ctx data cb b _ h

/-- **no execution runs a handler twice** — any collection, serializer, handler behaviour -/
theorem exec_handler_runs_at_most_once (col : Collection) (ser : Option DecoderX) (route : Bytes)
    (ctx : CtxArg) (data : Bytes) (cb : Cb) (b : Beh) :
    (callWithSerializeX col ser route ctx data cb b).runs.length ≤ 1 :=
  callWithSerializeX_runs_le col ser route ctx data cb b

/-- **nothing escapes as a panic, on executions**: built collection, any serializer that does not
itself panic, any completion function, any handler behaviour (panicking, completing a picky callback
with a value it chokes on, …) -/
theorem exec_no_escaping_panic (fmtOK : Bool) (es : List Entry) (ser : Option DecoderX)
    (hser : ∀ dec, ser = some dec → ∀ t p, dec t p ≠ .panics)
    (route data : Bytes) (ctx : CtxArg) (cb : Cb) (b : Beh) :
    (callWithSerializeX (build fmtOK es) ser route ctx data cb b).panicking = false := by
  have hl : ser = (ser.map DecoderX.unlift).map Decoder.lift := by
    cases ser with
    | none => rfl
    | some dec => simp [DecoderX.lift_unlift dec (hser dec rfl)]
  rw [hl, (callWithSerializeX_refines _ _ _ _ _ _ _).1]
  have := (no_escaping_panic fmtOK es (ser.map DecoderX.unlift) route data ctx .nil cb.isSome).1
  simpa using this

/-- what the code does when `serializer.Unmarshal` PANICS (a user serializer, or a message type whose own
`UnmarshalJSON` panics under the JSON serializer): `Unmarshal` is called outside `SafeCall`, the panic
leaves `CallWithSerialize` and the completion function is never invoked — the hypothesis of
`exec_no_escaping_panic` cannot be dropped -/
theorem exec_serializer_panic_escapes (col : Collection) (dec : DecoderX) (route data : Bytes) (ctx : CtxArg)
    (cb : Cb) (b : Beh) (t : TyDesc) (hg : getArgType col route = some t) (hk : t.kind = .ptr)
    (hd : dec t.id data = .panics) :
    callWithSerializeX col (some dec) route ctx data cb b = ⟨[], true⟩ := by
  simp [callWithSerializeX, hg, hk, hd, Exec.panic, Kind.hasElem]

/-- non-vacuity (executions): a request to `E.Join` is one handler run followed by the handler's own
completion; an unknown method is the single framework error completion; the D11 route is the empty execution -/
example :
    callWithSerializeX (build true [eDemo]) (some decId.lift) [69, 46, 74] (.ty [1]) [7, 7] (some false) bOk
      = ⟨[.run (mkHandler 1 mJoin) true (.val [2] [7, 7]), .cb true false], false⟩ ∧
    callWithSerializeX (build true [eDemo]) (some decId.lift) [69, 46, 88] (.ty [1]) [7, 7] (some false) bOk
      = ⟨[.cb false true], false⟩ ∧
    callWithSerializeX (build true [eDemo]) (some decId.lift) [69, 46, 83] (.ty [1]) [7, 7] (some false) bOk
      = ⟨[], false⟩ := by decide

/-- non-vacuity of `exec_serializer_panic_escapes` -/
example : callWithSerializeX (build true [eDemo]) (some (fun _ _ => .panics)) [69, 46, 74] .nil [] (some false) bOk
    = ⟨[], true⟩ := by decide

/-! ### a handler that panics (the statement's fourth error case), without the discipline hypothesis

`CallMethod` hands a request-shaped handler the wrapper `handlerCB` (`cbFunc(e, result); completed = true`) and
`SafeCall`'s recover path the wrapper `panicCB` (`if !completed { cbFunc(e, result) }`) — the fix of D23,
/repo 7b326e6.  Before it both were `cbFunc` itself (`callMethodXPre`, `completionsGPre`). -/

/-- the handler's own completions that went through, and whether the handler's frame panicked (the handler itself,
or a picky completion function inside it), for the completion function `some picky` -/
def handlerComps (picky : Bool) (b : Beh) : List Comp := (playComps (picky && b.bad) b.comps).1
def handlerPanicked (picky : Bool) (b : Beh) : Bool := (playComps (picky && b.bad) b.comps).2 || b.panics

theorem handlerComps_byHandler (picky : Bool) (b : Beh) : ∀ c ∈ handlerComps picky b, ∃ ok, c = .h ok := by
  unfold handlerComps
  generalize (picky && b.bad) = p
  induction b.comps with
  | nil => simp [playComps]
  | cons c r ih =>
    simp only [playComps]
    split
    · simp
    · intro x hx
      rcases List.mem_cons.1 hx with rfl | hx
      · exact ⟨_, rfl⟩
      · exact ih x hx

/-- **THE theorem the fix of D23 is about** — for EVERY collection, (non-panicking) serializer, route, context,
payload, completion function (plain, or the dispatcher's picky closure) and EVERY handler behaviour (any number of
completions, values the completion function chokes on, panicking or not): when the call reaches a handler, the
completions of the execution are the handler's own completions that went through, followed by the framework's own
"panic in rpc" completion `.f` **iff the handler's frame panicked and NO completion of the handler had gone through** -/
theorem exec_panic_completion_iff_not_completed (col : Collection) (ser : Option Decoder) (route data : Bytes)
    (ctx : CtxArg) (picky : Bool) (b : Beh) (h : Handler) (cs : Bool) (a : ArgV)
    (hinv : callWithSerialize col ser route ctx data true = .invoked h cs a) :
    (callWithSerializeX col (ser.map Decoder.lift) route ctx data (some picky) b).comps
      = handlerComps picky b ++ (if handlerPanicked picky b && (handlerComps picky b).isEmpty then [.f] else []) ∧
    (Comp.f ∈ (callWithSerializeX col (ser.map Decoder.lift) route ctx data (some picky) b).comps
      ↔ handlerPanicked picky b = true ∧ handlerComps picky b = []) := by
  have hr := callWithSerialize_invoked_with_cb_isRequest hinv
  have hc : (callWithSerializeX col (ser.map Decoder.lift) route ctx data (some picky) b).comps
      = handlerComps picky b ++ (if handlerPanicked picky b && (handlerComps picky b).isEmpty then [.f] else []) := by
    rw [(callWithSerializeX_refines col ser route ctx data (some picky) b).2.2]
    simp only [Option.isSome_some, hinv, completionsG, Bool.not_true, Bool.false_eq_true, if_false, hr, if_true,
      handlerComps, handlerPanicked, cbPanicsOf]
    cases picky <;> simp
  refine ⟨hc, ?_⟩
  rw [hc]
  have hby := handlerComps_byHandler picky b
  constructor
  · intro hm
    rcases List.mem_append.1 hm with h1 | h1
    · obtain ⟨ok, hk⟩ := hby _ h1; cases hk
    · split at h1
      · next hcond => simpa [List.isEmpty_iff] using hcond
      · simp at h1
  · rintro ⟨h1, h2⟩
    simp [h1, h2]

/-- … hence **a handler that completes exactly once and then panics yields EXACTLY ONE completion, its own** (and so
does one that completes once and returns; one that panics before completing yields exactly the framework's error) -/
theorem exec_complete_then_panic_completes_once (col : Collection) (ser : Option Decoder) (route data : Bytes)
    (ctx : CtxArg) (c panics : Bool) (h : Handler) (cs : Bool) (a : ArgV)
    (hinv : callWithSerialize col ser route ctx data true = .invoked h cs a) :
    (callWithSerializeX col (ser.map Decoder.lift) route ctx data (some false) ⟨[c], panics, false⟩).comps = [.h c] ∧
    (callWithSerializeX col (ser.map Decoder.lift) route ctx data (some false) ⟨[], true, false⟩).comps = [.f] := by
  constructor
  · rw [(exec_panic_completion_iff_not_completed col ser route data ctx false ⟨[c], panics, false⟩ h cs a hinv).1]
    simp [handlerComps, handlerPanicked, playComps]
  · rw [(exec_panic_completion_iff_not_completed col ser route data ctx false ⟨[], true, false⟩ h cs a hinv).1]
    simp [handlerComps, handlerPanicked, playComps]

/-- **exactly once, for ANY completion function of the caller's** — plain, or one that panics on a value it cannot take
(the dispatcher's closure; the harness drives one of its own through `CallWithSerialize` / `Call` directly): for every
list of entries, serializer, route, context, payload and disciplined handler (completes exactly once — even with a value
the function chokes on — and then returns or panics, or panics before completing), D11 excluded, the execution completes
exactly once and does not panic.  (`exec_completes_exactly_once_partial` is the case `picky = false`) -/
theorem exec_completes_exactly_once_any_callback (fmtOK : Bool) (es : List Entry) (ser : Option Decoder)
    (route data : Bytes) (ctx : CtxArg) (picky : Bool) (b : Beh) (hb : b.disciplined = true)
    (hn : ¬ NamesNotify (build fmtOK es) route) :
    (callWithSerializeX (build fmtOK es) (ser.map Decoder.lift) route ctx data (some picky) b).comps.length = 1 ∧
    (callWithSerializeX (build fmtOK es) (ser.map Decoder.lift) route ctx data (some picky) b).panicking = false := by
  obtain ⟨r1, _, r3⟩ := callWithSerializeX_refines (build fmtOK es) ser route ctx data (some picky) b
  have honce := call_with_cb_completes_once_partial fmtOK es ser route data ctx ⟨[true], false, false⟩ (by decide) hn
  have hesc := (no_escaping_panic fmtOK es ser route data ctx .nil true).1
  simp only [Option.isSome_some] at r1 r3
  refine ⟨?_, by rw [r1]; simpa using hesc⟩
  cases ho : callWithSerialize (build fmtOK es) ser route ctx data true with
  | fwErr => rw [r3, ho]; simp [completionsG]
  | recovered => rw [r3, ho]; simp [completionsG]
  | nothing => rw [ho] at honce; simp [completions, completionsG] at honce
  | escaped => exact absurd ho hesc
  | invoked h cs a =>
    rw [(exec_panic_completion_iff_not_completed _ ser route data ctx picky b h cs a ho).1]
    obtain ⟨comps, panics, bad⟩ := b
    simp only [Beh.disciplined, Bool.or_eq_true, Bool.and_eq_true, beq_iff_eq, List.isEmpty_iff] at hb
    rcases hb with hl | ⟨hl, hp⟩
    · match comps, hl with
      | [c], _ => cases c <;> cases bad <;> cases picky <;> cases panics <;> simp [handlerComps, handlerPanicked, playComps]
    · subst hl; simp [handlerComps, handlerPanicked, playComps, hp]

/-- the first version of the fix set `completed` BEFORE calling `cbFunc`: a completion function that itself panics
(the dispatcher's closure on a result that cannot be serialised) would then never have been completed at all.
As the code is, a completion that did NOT go through does not count: the requester still gets the error -/
theorem exec_choking_callback_still_gets_error (col : Collection) (ser : Option Decoder) (route data : Bytes)
    (ctx : CtxArg) (panics : Bool) (rest : List Bool) (h : Handler) (cs : Bool) (a : ArgV)
    (hinv : callWithSerialize col ser route ctx data true = .invoked h cs a) :
    (callWithSerializeX col (ser.map Decoder.lift) route ctx data (some true) ⟨true :: rest, panics, true⟩).comps = [.f] := by
  rw [(exec_panic_completion_iff_not_completed col ser route data ctx true ⟨true :: rest, panics, true⟩ h cs a hinv).1]
  simp [handlerComps, handlerPanicked, playComps]

/-- **what a panicking request handler's caller sees, exactly**: the handler's own completions (however
many it made before panicking), followed by ONE framework error completion iff it had made none -/
theorem panicking_handler_completions (h : Handler) (cs : Bool) (a : ArgV) (hreq : h.isRequest = true) (b : Beh)
    (hp : b.panics = true) :
    completions (.invoked h cs a) true b = b.comps.map Comp.h ++ (if b.comps = [] then [.f] else []) := by
  simp only [completions, completionsG, hreq, playComps_plain, hp]
  cases b.comps <;> simp

/-- … so "a handler that panics → the completion function is completed exactly once" holds iff the
handler had completed AT MOST once before it panicked (before the fix of D23: iff it had not completed at all) -/
theorem panicking_handler_completes_once_iff (h : Handler) (cs : Bool) (a : ArgV) (hreq : h.isRequest = true) (b : Beh)
    (hp : b.panics = true) :
    (completions (.invoked h cs a) true b).length = 1 ↔ b.comps.length ≤ 1 := by
  rw [panicking_handler_completions h cs a hreq b hp]
  match b.comps with
  | [] => simp
  | [_] => simp
  | _ :: _ :: r => simp

/-- **the clause "a handler that panics … completes it exactly once"**, for every handler that panics having itself
completed at most once (before or not at all) — TRUE since the fix of D23, on executions, for every list of entries,
serializer, route, context and payload (D11 excluded) -/
theorem panicking_handler_completes_once (fmtOK : Bool) (es : List Entry) (ser : Option Decoder)
    (route data : Bytes) (ctx : CtxArg) (b : Beh) (hp : b.panics = true) (hc : b.comps.length ≤ 1)
    (hn : ¬ NamesNotify (build fmtOK es) route) :
    (callWithSerializeX (build fmtOK es) (ser.map Decoder.lift) route ctx data (some false) b).comps.length = 1 := by
  have hb : b.disciplined = true := by
    obtain ⟨comps, panics, bad⟩ := b
    simp only at hp hc
    subst hp
    match comps, hc with
    | [], _ => simp [Beh.disciplined]
    | [_], _ => simp [Beh.disciplined]
  exact (exec_completes_exactly_once_partial fmtOK es ser route data ctx b hb hn).1

/-- non-vacuity of `panicking_handler_completes_once` / `exec_complete_then_panic_completes_once`: `E.Join` completing
and then panicking is ONE run and ONE completion, the handler's -/
example :
    callWithSerializeX (build true [eDemo]) (some decId.lift) [69, 46, 74] (.ty [1]) [7] (some false) ⟨[true], true, false⟩
      = ⟨[.run (mkHandler 1 mJoin) true (.val [2] [7]), .cb true false], false⟩ ∧
    callWithSerialize (build true [eDemo]) (some decId) [69, 46, 74] (.ty [1]) [7] true
      = .invoked (mkHandler 1 mJoin) true (.val [2] [7]) := by decide

/-- THE FULL STATEMENT of the clause with NO hypothesis on the handler (ANY handler that panics).  Still false, and
`panicking_handler_completes_once_iff` says exactly why: only a handler that ITSELF invoked the completion function it
was handed more than once (user code; nothing the framework calls) — no longer because of `SafeCall` (D23, fixed) -/
def PanickingHandlerCompletesOnce : Prop :=
  ∀ (fmtOK : Bool) (es : List Entry) (ser : Option Decoder) (route data : Bytes) (ctx : CtxArg) (b : Beh),
    b.panics = true → ¬ NamesNotify (build fmtOK es) route →
    (callWithSerializeX (build fmtOK es) (ser.map Decoder.lift) route ctx data (some false) b).comps.length = 1

theorem eDemo_join_not_notify : ¬ NamesNotify (build true [eDemo]) [69, 46, 74] := by
  rintro ⟨h, hh, hr⟩
  have : getHandler (build true [eDemo]) [69, 46, 74] = some (mkHandler 1 mJoin) := by decide
  rw [this] at hh; cases hh; revert hr; decide

theorem panicking_handler_completes_once_full_fails : ¬ PanickingHandlerCompletesOnce := by
  intro h
  have := h true [eDemo] (some decId) [69, 46, 74] [7] (.ty [1]) ⟨[true, true], true, false⟩ rfl eDemo_join_not_notify
  revert this
  decide

/-- complete-then-panic through the dispatcher: one request, ONE answer (the handler's) -/
theorem dispatch_complete_then_panic_answers_once :
    (dispatchX ([[eDemo]].map (build true)) decId.lift [1] [69, 46, 74] [] false true ⟨[true], true, false⟩).2.comps
      = [.h true] := by decide

/-! #### the code before the fix of D23 (kept for the witness) -/

/-- before the fix, EVERY panicking request handler was completed by `SafeCall` on top of whatever it had completed itself -/
theorem prefix_panicking_handler_completions (c : Container) (m : Bytes) (ctx : CtxArg) (arg : ArgV) (b : Beh)
    (h : Handler) (cs : Bool) (a : ArgV) (hinv : callMethod c m ctx arg true = .invoked h cs a) (hreq : h.isRequest = true)
    (hp : b.panics = true) :
    (callMethodXPre c m ctx arg (some false) b).comps = b.comps.map Comp.h ++ [.f] := by
  rw [callMethodXPre_comps, hinv]
  simp [completionsGPre, hreq, cbPanicsOf, playComps_plain, hp]

/-- **D23 witness** (the behaviour `seeded/revert-D23` brings back): `E.Join` completing and then panicking was
completed TWICE — a success followed by "panic in rpc" -/
theorem prefix_complete_then_panic_completed_twice :
    (callMethodXPre ⟨[69], suitable true none 1 (methodSet eDemo)⟩ [74] (.ty [1]) (.val [2] [7]) (some false)
      ⟨[true], true, false⟩).comps = [.h true, .f] ∧
    (callMethodX ⟨[69], suitable true none 1 (methodSet eDemo)⟩ [74] (.ty [1]) (.val [2] [7]) (some false)
      ⟨[true], true, false⟩).comps = [.h true] := by decide

/-! ### exposed but not callable -/

/-- the statement's wording read strictly: the optional 4th parameter is a COMPLETION FUNCTION — a
parameter the framework's completion function (`HandlerCBFunc`) can be passed to -/
def HandlerShapedStrict (m : Method) : Prop :=
  m.exported = true ∧
  ∃ recv ctx msg, ctx.kind = .ptr ∧ ctx.implCtx = true ∧ msg.kind = .ptr ∧
    (m.ins = [recv, ctx, msg] ∨ ∃ cb, cb.kind = .func ∧ cb.cbAssignable = true ∧ m.ins = [recv, ctx, msg, cb])

/-- FULL statement "exposes exactly the handler-shaped methods" under the strict reading.  FALSE: -/
def ShapePredicateExactStrict : Prop := ∀ m : Method, isValidMethod m = true ↔ HandlerShapedStrict m

/-- `func (e *E) Odd(ctx, msg, cb func(int))` -/
def mOdd : Method := ⟨[79], [79], true, false, [drecv, dctx, dmsg, ⟨.func, false, false, [4], [], none, none⟩]⟩

/-- `isValidRequest` only asks `Kind() == Func` of the 4th parameter: a method whose 4th parameter is
`func(int)`, `func()` or a func with a result is exposed although no call can ever reach it -/
theorem shape_predicate_strict_fails : ¬ ShapePredicateExactStrict := by
  intro h
  have h1 : isValidMethod mOdd = true := by decide
  obtain ⟨_, recv, ctx, msg, _, _, _, h3 | ⟨cb, _, hcb, h4⟩⟩ := (h mOdd).1 h1
  · simp [mOdd] at h3
  · simp only [mOdd, List.cons.injEq, and_true] at h4
    obtain ⟨_, _, _, rfl⟩ := h4
    simp at hcb

/-- **an exposed route can be invoked at all iff** it is notify-shaped or its 4th parameter accepts the
completion function — for every built collection and every route in its table.  (When it cannot, every
call is recovered by `SafeCall` into one error completion: `reflect_mismatch_recovered`.) -/
theorem exposed_route_callable_iff (fmtOK : Bool) (es : List Entry) (route : Bytes) (h : Handler)
    (hh : getHandler (build fmtOK es) route = some h) :
    (∃ ctx arg hasCb cs a, call (build fmtOK es) route ctx arg hasCb = .invoked h cs a) ↔
      (h.isRequest = false ∨ ((h.meth.ins[3]?).map (·.cbAssignable)).getD false = true) := by
  obtain ⟨g, m, e, x, _, _, _, hv, _, hx⟩ := getHandler_build hh
  have hlen := valid_len hv
  subst hx
  have hreq : (mkHandler e.eid x).isRequest = (x.ins.length == 4) := rfl
  have hmeth : (mkHandler e.eid x).meth = x := rfl
  constructor
  · rintro ⟨ctx, arg, hasCb, cs, a, hc⟩
    rw [call_eq, hh] at hc
    simp only at hc
    cases hr : (mkHandler e.eid x).isRequest with
    | false => exact Or.inl rfl
    | true =>
      right
      simp only [hr, if_true, safeCall] at hc
      split at hc
      · next ht =>
        simp only [typesOK, Bool.and_eq_true, Bool.not_true, Bool.false_or] at ht
        exact ht.2
      · cases hc
  · intro hcase
    refine ⟨.nil, .nil, false, false, .nil, ?_⟩
    rw [call_eq, hh]
    simp only
    cases hr : (mkHandler e.eid x).isRequest with
    | true =>
      have h4 : x.ins.length = 4 := by simpa [hreq] using hr
      rcases hcase with h0 | h0
      · rw [hr] at h0; cases h0
      · have hty : typesOK (mkHandler e.eid x) .nil .nil true = true := by
          have h0' : (Option.map (fun t => t.cbAssignable) x.ins[3]?).getD false = true := by simpa [hmeth] using h0
          simp only [typesOK, hmeth, h4, Bool.and_eq_true]
          exact ⟨⟨⟨by simp, by simp⟩, by simp⟩, by simpa using h0'⟩
        simp [safeCall, hty]
    | false =>
      have h3 : x.ins.length = 3 := by
        have : (x.ins.length == 4) = false := by simpa [hreq] using hr
        rw [this] at hlen; simpa using hlen
      have hty : typesOK (mkHandler e.eid x) .nil .nil false = true := by
        simp [typesOK, hmeth, h3]
      simp [safeCall, hty]

/-- non-vacuity: `E.Odd` is in the table, and no context, argument or completion function invokes it -/
example : getHandler (build true [⟨1, [69], true, [mOdd], [], none, false⟩]) [69, 46, 79] = some (mkHandler 1 mOdd) ∧
    ¬ (mkHandler 1 mOdd).isRequest = false ∧ ((mOdd.ins[3]?).map (·.cbAssignable)).getD false = false := by decide

/-! ### assignability (a caller-supplied argument need not have the declared type itself) -/

/-- `type PM *M`; `func (e *E) Named(ctx, m PM, cb)` -/
def dpm : TyDesc := ⟨.ptr, false, false, [80], [], some [2], none⟩
def mNamed : Method := ⟨[78], [78], true, false, [drecv, dctx, dpm, dcb]⟩

/-- a message parameter of a NAMED pointer type: `CallWithSerialize` builds the unnamed `*M`
(`reflect.New(argType.Elem())`), which `reflect.Call` accepts; and `Collection.Call` with a caller-supplied `*M`
invokes the handler too (the earlier model equated assignability with identity and said "recovered") -/
theorem named_pointer_parameter_invoked :
    callWithSerialize (build true [⟨1, [69], true, [mNamed], [], none, false⟩]) (some decId) [69, 46, 78] .nil [7] true
      = .invoked (mkHandler 1 mNamed) false (.val [2] [7]) ∧
    call (build true [⟨1, [69], true, [mNamed], [], none, false⟩]) [69, 46, 78] .nil (.val [2] [9]) true
      = .invoked (mkHandler 1 mNamed) false (.val [2] [9]) ∧
    call (build true [⟨1, [69], true, [mNamed], [], none, false⟩]) [69, 46, 78] .nil (.val [3] [9]) true = .recovered := by
  decide

/-! ## registration: `Build` itself, any formater, nil entries -/

/-- **`Build` does not panic and builds the table of `build`** — default formater or none, any entries that are not nil -/
theorem build_does_not_panic (fmtOK : Bool) (es : List Entry) (hn : ∀ e ∈ es, e.isNil = false) :
    buildX (Formater.ofBool fmtOK) es [] = (build fmtOK es, false) :=
  buildX_default fmtOK es hn []

/-- what the code does with a NIL entry (nil interface or typed nil pointer passed to `Register`):
`reflect.Indirect(receiver).Type()` panics and `Build` (and `Registry.Build`) with it — unless a group name is
configured and already defined, which returns "service already defined" first.  Whatever the formater -/
theorem build_nil_entry_panics (fmt : Formater) (col : Collection) (e : Entry) (he : e.isNil = true) :
    newServiceX fmt col e = (if e.group ≠ [] ∧ (findC col e.group).isSome then some col else none) := by
  unfold newServiceX
  by_cases hg : e.group = []
  · simp [he, hg]
  · have hc : containerName e = e.group := by simp [containerName, hg]
    simp only [he, hg, Bool.true_and, decide_false, Bool.false_eq_true, if_false, hc, ne_eq, not_false_eq_true, true_and]
    cases findC col e.group with
    | some c => simp
    | none => simp [extractHandlerX, he]

/-- non-vacuity: a nil entry after a good one: the good one is in the table, `Build` panicked -/
example : buildX (Formater.ofBool true) [eDemo, ⟨2, [], true, [], [], none, true⟩] [] = (build true [eDemo], true) := by decide

/-- **exactly when a call can escape**: for EVERY collection (whatever formater built it), `CallWithSerialize`
panics outside `SafeCall` iff there is a serializer and the route names a handler whose message type has no
`Elem()` — the guard is the formater's "message is a pointer" check, not a check in `CallWithSerialize` -/
theorem escapes_iff_message_type_has_no_elem (col : Collection) (ser : Option Decoder) (route data : Bytes)
    (ctx : CtxArg) (hasCb : Bool) :
    callWithSerialize col ser route ctx data hasCb = .escaped ↔
      ser.isSome = true ∧ ∃ t, getArgType col route = some t ∧ t.kind.hasElem = false := by
  unfold callWithSerialize
  cases ser with
  | none => simp
  | some dec =>
    cases hg : getArgType col route with
    | none => simp
    | some t =>
      cases hk : t.kind.hasElem with
      | false => simp [hk]
      | true =>
        cases hd : dec t.id data with
        | none => simp [hk, hd]
        | some v =>
          have := call_ne_escaped col route ctx (.val t.builtId v) hasCb
          simp [this, hk, hd]

/-- `func (e *E) ByValue(ctx, msg M)` (message by value) and `func (e *E) Two(ctx)` -/
def mByValue : Method := ⟨[66], [66], true, false, [drecv, dctx, ⟨.struct, false, false, [5], [], none, none⟩]⟩
def mTwo : Method := ⟨[84], [84], true, false, [drecv, dctx]⟩

/-- a formater that accepts everything (`SetFormater` takes any `IAPIFormatter`): a by-value message type is
exposed and every `CallWithSerialize` on it escapes as a panic; a two-parameter method makes `Build` itself panic.
`no_escaping_panic` is about the default formater -/
theorem custom_formater_can_escape :
    (buildX (some fun _ => true) [⟨1, [69], true, [mByValue], [], none, false⟩] []).2 = false ∧
    callWithSerialize (buildX (some fun _ => true) [⟨1, [69], true, [mByValue], [], none, false⟩] []).1
      (some decId) [69, 46, 66] .nil [] true = .escaped ∧
    (buildX (some fun _ => true) [⟨1, [69], true, [mTwo], [], none, false⟩] []).2 = true := by decide

/-! ## service dispatcher -/

/-- the request goes to the FIRST collection that has the route -/
theorem dispatch_first_collection (cols : List Collection) (route : Bytes) (c : Collection)
    (h : dispatchTarget cols route = some c) :
    hasMethod c route = true ∧ ∃ pre post, cols = pre ++ c :: post ∧ ∀ c' ∈ pre, hasMethod c' route = false := by
  unfold dispatchTarget at h
  obtain ⟨hp, pre, post, hc, hpre⟩ := List.find?_eq_some_iff_append.1 h
  exact ⟨hp, pre, post, hc, fun c' hc' => by simpa using hpre c' hc'⟩

/-- no collection has the route: `Dispatch` returns false and answers a request
exactly once (with an error); a notify gets no answer -/
theorem dispatch_unknown_route (cols : List Collection) (dec : Decoder) (rc route data : Bytes) (isNotify : Bool)
    (b : Beh) (h : ∀ c ∈ cols, hasMethod c route = false) :
    dispatch cols dec rc route data isNotify = (false, none) ∧
    responses (dispatch cols dec rc route data isNotify) isNotify b = (if isNotify then [] else [.f]) := by
  have : dispatchTarget cols route = none := by
    unfold dispatchTarget
    exact List.find?_eq_none.2 (fun c hc => by simp [h c hc])
  simp [dispatch, this, responses]

/-- a notify is never answered -/
theorem dispatch_notify_never_answered (cols : List Collection) (dec : Decoder) (rc route data : Bytes) (b : Beh) :
    responses (dispatch cols dec rc route data true) true b = [] := by
  unfold dispatch responses
  cases dispatchTarget cols route <;> simp [completionsG]

/-- FULL statement for the dispatcher: every request (ReqId ≠ 0) is answered exactly once.  False today (D11). -/
def DispatchRequestAnsweredOnce : Prop :=
  ∀ (fmtOK : Bool) (ess : List (List Entry)) (dec : Decoder) (rc route data : Bytes) (b : Beh),
    b.disciplined = true →
    (responses (dispatch (ess.map (build fmtOK)) dec rc route data false) false b).length = 1

/-- **a request is answered exactly once** — by the handler's completion, by an
error completion, or by "no method" — for every list of built collections,
route and payload, disciplined handler (its value may even be unserialisable:
the panic of `Response` is recovered into an error answer), provided the route
does not name a notify-shaped method in the collection that processes it -/
theorem dispatch_request_answered_once_partial (fmtOK : Bool) (ess : List (List Entry)) (dec : Decoder)
    (rc route data : Bytes) (b : Beh) (hb : b.disciplined = true)
    (hn : ∀ c, dispatchTarget (ess.map (build fmtOK)) route = some c → ¬ NamesNotify c route) :
    (responses (dispatch (ess.map (build fmtOK)) dec rc route data false) false b).length = 1 := by
  unfold dispatch responses
  cases ht : dispatchTarget (ess.map (build fmtOK)) route with
  | none => simp
  | some c =>
    have hmem : c ∈ ess.map (build fmtOK) := List.mem_of_find?_eq_some ht
    obtain ⟨es, _, rfl⟩ := List.mem_map.1 hmem
    have hnn := hn _ ht
    simp only [Bool.not_false]
    -- same case analysis as for `completions`, with the dispatcher's panicking callback
    have hesc := (no_escaping_panic fmtOK es (some dec) route data (.ty rc) .nil true).1
    have hcount := call_with_cb_completes_once_partial fmtOK es (some dec) route data (.ty rc)
      ⟨b.comps, b.panics, false⟩ (by simpa [Beh.disciplined] using hb) hnn
    revert hcount
    cases ho : callWithSerialize (build fmtOK es) (some dec) route (.ty rc) data true with
    | fwErr => simp [completionsG]
    | recovered => simp [completionsG]
    | nothing => simp [completions, completionsG]
    | escaped => exact absurd ho hesc
    | invoked h cs a =>
      obtain ⟨comps, panics, bad⟩ := b
      simp only [Beh.disciplined, Bool.or_eq_true, Bool.and_eq_true, beq_iff_eq, List.isEmpty_iff] at hb
      intro _
      -- an invoked notify-shaped handler with a callback is impossible
      have hr : h.isRequest = true := callWithSerialize_invoked_with_cb_isRequest ho
      simp only [completionsG, Bool.not_true, Bool.false_eq_true, if_false, hr, if_true]
      rcases hb with hl | ⟨hl, hp⟩
      · match comps, hl with
        | [c], _ => cases c <;> cases bad <;> cases panics <;> simp [playComps]
      · subst hl; simp [playComps, hp]

theorem dispatch_request_answered_once_full_fails : ¬ DispatchRequestAnsweredOnce := by
  intro h
  have := h true [[eDemo]] decId [1] [69, 46, 83] [] bOk (by decide)
  revert this
  decide

/-- non-vacuity: a request to `E.Join` through the dispatcher is answered once, by the handler -/
example : responses (dispatch ([[eDemo]].map (build true)) decId [1] [69, 46, 74] [] false) false bOk = [.h true] := by
  decide

/-! ### the dispatcher and `Service.handleRequest` as executions -/

/-- the dispatcher's summary (`dispatch` + `responses`) is what its executions do (request with a sender) -/
theorem dispatch_execution_refines_summary (cols : List Collection) (dec : Decoder) (rc route data : Bytes)
    (isNotify : Bool) (b : Beh) :
    (dispatchX cols dec.lift rc route data isNotify true b).1 = (dispatch cols dec rc route data isNotify).1 ∧
    (dispatchX cols dec.lift rc route data isNotify true b).2.comps
      = responses (dispatch cols dec rc route data isNotify) isNotify b ∧
    (dispatchX cols dec.lift rc route data isNotify true b).2.runs
      = (match (dispatch cols dec rc route data isNotify).2 with | some o => runsOf o | none => []) := by
  obtain ⟨h1, _, h3, h4⟩ := dispatchX_refines cols dec rc route data isNotify b
  exact ⟨h1, h3, h4⟩

/-- **a request is answered by exactly one `ServiceResponse`**, as a count of the responses sent in the execution -/
theorem exec_dispatch_request_answered_once_partial (fmtOK : Bool) (ess : List (List Entry)) (dec : Decoder)
    (rc route data : Bytes) (b : Beh) (hb : b.disciplined = true)
    (hn : ∀ c, dispatchTarget (ess.map (build fmtOK)) route = some c → ¬ NamesNotify c route) :
    (dispatchX (ess.map (build fmtOK)) dec.lift rc route data false true b).2.comps.length = 1 := by
  rw [(dispatchX_refines _ _ _ _ _ _ _).2.2.1]
  exact dispatch_request_answered_once_partial fmtOK ess dec rc route data b hb hn

/-- **a request without a sender is never answered** (`ResponseEx` returns early): whatever the route,
payload, collections, legacy receiver and handler behaviour, no response is sent — the exactly-once
statements are about requests that carry a sender -/
theorem request_without_sender_never_answered (disp : Option (List Collection)) (dec : DecoderX) (rc route data : Bytes)
    (isNotify : Bool) (legacy : Legacy) (b : Beh) :
    (handleRequestX disp dec rc route data isNotify false legacy b).1.comps = [] := by
  have hl : (legacyX legacy isNotify false).1 = .ret := by cases legacy <;> simp [legacyX]
  unfold handleRequestX
  split
  · next x heq =>
    split at heq
    · cases disp with
      | none => simp at heq
      | some cols =>
        simp only [Option.map_some, Option.some.injEq] at heq
        unfold dispatchX at heq
        split at heq
        · cases heq
        · simp only [Bool.false_eq_true, if_false, Prod.mk.injEq, true_and] at heq
          rw [← heq]; exact Exec.unsent_comps _
    · cases heq
  · next x heq =>
    have hx : x = .ret := by
      split at heq
      · cases disp with
        | none => simp at heq
        | some cols =>
          simp only [Option.map_some, Option.some.injEq] at heq
          unfold dispatchX at heq
          split at heq
          · simp only [Bool.not_false, Bool.or_true, if_true, Prod.mk.injEq, true_and] at heq; exact heq.symm
          · cases heq
      · cases heq
    subst hx
    simp [hl, Exec.comps, Exec.andThen, Exec.ret]
  · simp [hl, Exec.comps, Exec.ret]

/-- **unknown route at the service level**: `Dispatch` answers "no method" and returns false, and
`handleRequest` then FALLS THROUGH to the legacy receiver.  With no receiver or the default (silent) one the
request is answered exactly once, with an error, and nothing runs -/
theorem handle_request_unknown_route (cols : List Collection) (dec : DecoderX) (rc route data : Bytes)
    (legacy : Legacy) (b : Beh) (hr : route ≠ []) (h : ∀ c ∈ cols, hasMethod c route = false)
    (hl : legacy ≠ .answers) :
    (handleRequestX (some cols) dec rc route data false true legacy b).1 = ⟨[.cb false true], false⟩ := by
  have ht : dispatchTarget cols route = none := by
    unfold dispatchTarget
    exact List.find?_eq_none.2 (fun c hc => by simp [h c hc])
  cases legacy with
  | answers => exact absurd rfl hl
  | absent => simp [handleRequestX, hr, dispatchX, ht, legacyX, Exec.andThen, Exec.emit, Exec.ret]
  | silent => simp [handleRequestX, hr, dispatchX, ht, legacyX, Exec.andThen, Exec.emit, Exec.ret]

/-- FULL statement at the service level: a request (with a sender) whose route no collection has is answered
exactly once — for EVERY legacy receiver.  FALSE: -/
def UnknownRouteAnsweredOnce : Prop :=
  ∀ (cols : List Collection) (dec : DecoderX) (rc route data : Bytes) (legacy : Legacy) (b : Beh),
    route ≠ [] → (∀ c ∈ cols, hasMethod c route = false) →
    (handleRequestX (some cols) dec rc route data false true legacy b).1.comps.length = 1

/-- … a service that has an API dispatcher AND overrides `ReceiveRequest` to answer requests answers an
unknown route TWICE: "no method" from `Dispatch`, then the legacy receiver's own answer -/
theorem unknown_route_answered_once_full_fails : ¬ UnknownRouteAnsweredOnce := by
  intro h
  have := h [] (fun _ _ => .err) [1] [120] [] .answers bOk (by decide) (by simp)
  revert this
  decide

theorem handle_request_unknown_route_legacy_answers_twice (cols : List Collection) (dec : DecoderX)
    (rc route data : Bytes) (b : Beh) (hr : route ≠ []) (h : ∀ c ∈ cols, hasMethod c route = false) :
    handleRequestX (some cols) dec rc route data false true .answers b = (⟨[.cb false true, .cb true false], false⟩, true) := by
  have ht : dispatchTarget cols route = none := by
    unfold dispatchTarget
    exact List.find?_eq_none.2 (fun c hc => by simp [h c hc])
  simp [handleRequestX, hr, dispatchX, ht, legacyX, Exec.andThen, Exec.emit]

/-- a route some collection has is the dispatcher's business alone: `handleRequest` is `Dispatch`'s execution
and the legacy receiver is not consulted -/
theorem handle_request_routed_is_dispatch (cols : List Collection) (dec : DecoderX) (rc route data : Bytes)
    (isNotify hasSender : Bool) (legacy : Legacy) (b : Beh) (hr : route ≠ []) (c : Collection)
    (h : dispatchTarget cols route = some c) :
    handleRequestX (some cols) dec rc route data isNotify hasSender legacy b
      = ((dispatchX cols dec rc route data isNotify hasSender b).2, false) := by
  simp [handleRequestX, hr, dispatchX, h]

/-- non-vacuity: a routed request to `E.Join` through `handleRequest` with an answering legacy receiver:
one run, one answer (the handler's), legacy not consulted -/
example : handleRequestX (some ([[eDemo]].map (build true))) decId.lift [1] [69, 46, 74] [7] false true .answers bOk
    = (⟨[.run (mkHandler 1 mJoin) true (.val [2] [7]), .cb true false], false⟩, false) := by decide

/-! ## registry under concurrency -/

/-- **structural fact, re-checked against the source on every run**: on every
execution path of `(*APIRegistry).AddCollection` the insert into the
name→collection map happens under the write lock and after a lookup made since
that lock was taken (one critical section, or a re-check after upgrading) -/
theorem registry_add_collection_atomic :
    Cell2v.Gen.C13.parsed = true ∧ addCollectionAtomic Cell2v.Gen.C13.addCollectionPaths = true := by
  decide

/-- a bound name is returned as it is and the registry is unchanged -/
theorem registry_add_bound (r : Registry) (name : Bytes) (c : Nat) (h : lookup r name = some c) :
    r.add name = (r, c) := by
  simp [Registry.add, h]

/-- `add` binds the name to what it returns and keeps every existing binding -/
theorem registry_add_keeps (r : Registry) (name n : Bytes) (c : Nat) (h : lookup r n = some c) :
    lookup (r.add name).1 n = some c := by
  unfold Registry.add
  cases hl : lookup r name with
  | some c' => simpa using h
  | none =>
    simp only [lookup]
    by_cases hn : name = n
    · subst hn; rw [hl] at h; cases h
    · simp [hn, h]

theorem registry_add_binds (r : Registry) (name : Bytes) : lookup (r.add name).1 name = some (r.add name).2 := by
  unfold Registry.add
  cases hl : lookup r name with
  | some c => simpa using hl
  | none => simp [lookup]

/-- **all callers of one name get the same collection, nothing is lost**: for any
number of `AddCollection` calls in any order (each an atomic step), once a name
has been added every later call with that name — whatever happened in between
— returns the very same collection, and it is the one the registry holds -/
theorem registry_same_name_same_collection (r : Registry) (name : Bytes) (between : List Bytes) :
    (((r.add name).1.addMany between).add name).2 = (r.add name).2 ∧
    lookup ((r.add name).1.addMany between) name = some (r.add name).2 := by
  have key : ∀ (ms : List Bytes) (r' : Registry) (c : Nat), lookup r' name = some c →
      lookup (r'.addMany ms) name = some c := by
    intro ms
    induction ms with
    | nil => intro r' c h; simpa [Registry.addMany] using h
    | cons m ms ih =>
      intro r' c h
      simp only [Registry.addMany, List.foldl_cons]
      exact ih _ c (registry_add_keeps r' m name c h)
  have h := key between _ _ (registry_add_binds r name)
  exact ⟨by rw [registry_add_bound _ _ _ h], h⟩

/-! ### handlers that complete through the repository's helper `CheckInvokeCBFunc`

Every handler of the repository reports through `apientry.CheckInvokeCBFunc(cb, e, result)` (nil test, then the
call).  `CallMethod`'s `completed` logic (fix of D23) leaves `completed == false` when the completion function panics
on the handler's result and RELIES on that panic reaching `SafeCall`'s recover: so the helper must let it through. -/

/-- `SafeCall` around a request-shaped handler's frame (after `run` was emitted) when the body completes through the
helper `inv`, with the two closures `CallMethod` builds around `completed` -/
def safeCallVia (inv : CbF → Bool → Bool → Bool → Bool → Exec × Bool) (picky : Bool) (b : Beh) : Exec :=
  let y := playBodyVia inv (.handlerCB picky) b.bad b.comps false
  (y.1.andThen (if b.panics then .panic else .ret)).recoverWith (checkInvokeF (.panicCB picky) y.2)

/-- the helper as the code has it is transparent, for every function value, argument and state: it does what calling
the function does — in particular a panic of the function comes back out of it and `completed` is what the call left -/
theorem helper_is_transparent (f : CbF) (byH isErr bad d : Bool) :
    checkInvokeAny f byH isErr bad d = f.call byH isErr bad d := checkInvokeAny_eq_call f byH isErr bad d

/-- a handler that completes through the helper has the SAME execution as one that calls the function it was handed
(every script, every function value): all `exec_…` theorems are about both kinds of handler -/
theorem handler_through_helper_same_execution (f : CbF) (bad : Bool) (cs : List Bool) (d : Bool) :
    playBodyVia checkInvokeAny f bad cs d = playBody f bad cs d := playBodyVia_checkInvokeAny f bad cs d

/-- … and what `CallMethod` → `SafeCall` do with a request-shaped handler is: the handler is entered, then
`safeCallVia` with the helper -/
theorem call_method_body_through_helper (h : Handler) (ctx : CtxArg) (arg : ArgV) (picky : Bool) (b : Beh)
    (ht : typesOK h ctx arg true = true) :
    safeCallX h ctx arg true (.handlerCB picky) (.panicCB picky) b false
      = (Exec.emit (.run h (ctx != .nil) arg)).andThen (safeCallVia checkInvokeAny picky b) := by
  simp only [safeCallX, reflectCall, ht, if_true, handlerBody, safeCallVia, playBodyVia_checkInvokeAny]
  simp only [Exec.andThen, Exec.recoverWith, Exec.emit]
  by_cases hp : ((playBody (.handlerCB picky) b.bad b.comps false).1.panicking = true) <;> cases hb : b.panics <;>
    simp [hp, Exec.panic, Exec.ret]

/-- through the helper as well: a completion function that chokes on the handler's value still gets the error, once -/
theorem helper_choking_callback_still_gets_error (panics : Bool) (rest : List Bool) :
    safeCallVia checkInvokeAny true ⟨true :: rest, panics, true⟩ = ⟨[.cb false true], false⟩ := by
  simp [safeCallVia, playBodyVia, checkInvokeAny, CbF.isNil, CbF.call, invokeCb, Exec.panic, Exec.andThen, Exec.recoverWith,
    checkInvokeF, Exec.emit]

/-- **why the helper must not recover** (the variant with `defer recover()` in front of the call): the completion
function choked, `completed` stayed false, the panic ended inside the helper, the handler returned normally,
`SafeCall` saw nothing — the call is completed ZERO times … -/
theorem recovering_helper_loses_the_completion (rest : List Bool) (hrest : rest.all id = true) :
    safeCallVia checkInvokeAnyRecovering true ⟨true :: rest, false, true⟩ = ⟨[], false⟩ := by
  have hbody : ∀ (l : List Bool), l.all id = true →
      playBodyVia checkInvokeAnyRecovering (.handlerCB true) true l false = (⟨[], false⟩, false) := by
    intro l
    induction l with
    | nil => intro _; rfl
    | cons c r ih =>
      intro hl
      simp only [List.all_cons, id, Bool.and_eq_true] at hl
      obtain ⟨rfl, hr⟩ := hl
      simp [playBodyVia, checkInvokeAnyRecovering, checkInvokeAny, CbF.isNil, CbF.call, invokeCb, Exec.panic, Exec.recoverWith,
        Exec.ret, Exec.andThen, ih hr]
  have := hbody (true :: rest) (by simp [hrest])
  simp [safeCallVia, this, Exec.andThen, Exec.recoverWith, Exec.ret]

/-- … and, for every script and every completion function, a handler that does not panic itself is never answered
by the framework when the helper recovers (the body cannot panic any more) -/
theorem recovering_helper_never_reaches_recover (picky : Bool) (b : Beh) (hb : b.panics = false) :
    ∀ e ∈ (safeCallVia checkInvokeAnyRecovering picky b).evs, e ≠ .cb false true := by
  intro e he
  have hp := playBodyVia_recovering_panicking (.handlerCB picky) b.bad b.comps false
  simp only [safeCallVia, hb, Exec.recoverWith_evs, Exec.andThen_panicking, hp, Exec.ret_panicking, Bool.or_self,
    Bool.false_eq_true, if_false, Exec.andThen_evs, Exec.ret_evs, List.append_nil] at he
  obtain ⟨isErr, rfl⟩ := playBodyVia_recovering_evs_byHandler _ _ _ _ e he
  simp

/-- non-vacuity / the contrast on one input: value the picky function chokes on, completed through the helper -/
example : safeCallVia checkInvokeAny true ⟨[true], false, true⟩ = ⟨[.cb false true], false⟩ ∧
    safeCallVia checkInvokeAnyRecovering true ⟨[true], false, true⟩ = ⟨[], false⟩ ∧
    safeCallVia checkInvokeAny false ⟨[true], false, true⟩ = safeCallVia checkInvokeAnyRecovering false ⟨[true], false, true⟩ := by
  decide

/-! ### the fall-through of `handleRequest` deserialises the body first (`panic(err)`) -/

/-- a request the dispatcher processes is not touched by the state of the body -/
theorem handle_request_routed_ignores_body (bodyOK : Bool) (cols : List Collection) (dec : DecoderX) (rc route data : Bytes)
    (isNotify hasSender : Bool) (legacy : Legacy) (b : Beh) (c : Collection) (hr : route ≠ [])
    (ht : dispatchTarget cols route = some c) :
    handleRequestXB bodyOK (some cols) dec rc route data isNotify hasSender legacy b
      = handleRequestX (some cols) dec rc route data isNotify hasSender legacy b := by
  cases bodyOK <;> simp [handleRequestXB, handleRequestX, hr, dispatchX, ht]

/-- **unknown route AND a body the receiving process cannot deserialise**: the requester is answered "no method"
exactly once — and then `handleRequest` PANICS (for every legacy receiver, which is never consulted): at the service
level "nothing escapes as a panic" is false for this input.  Observed on the real code on every run, judged
'outside-statement' (the legacy path's `panic(err)`), a candidate finding -/
theorem handle_request_unknown_route_bad_body_escapes (cols : List Collection) (dec : DecoderX) (rc route data : Bytes)
    (legacy : Legacy) (b : Beh) (hr : route ≠ []) (h : ∀ c ∈ cols, hasMethod c route = false) :
    handleRequestXB false (some cols) dec rc route data false true legacy b = (⟨[.cb false true], true⟩, false) := by
  have ht : dispatchTarget cols route = none := by
    unfold dispatchTarget
    exact List.find?_eq_none.2 (fun c hc => by simp [h c hc])
  simp [handleRequestXB, hr, dispatchX, ht, Exec.andThen, Exec.emit, Exec.panic]

/-- no dispatcher, or no route: the request goes straight to the deserialisation and the panic -/
theorem handle_request_unrouted_bad_body_escapes (disp : Option (List Collection)) (dec : DecoderX) (rc route data : Bytes)
    (isNotify hasSender : Bool) (legacy : Legacy) (b : Beh) (h : disp = none ∨ route = []) :
    handleRequestXB false disp dec rc route data isNotify hasSender legacy b = (.panic, false) := by
  rcases h with h | h <;> simp [handleRequestXB, h]

/-- non-vacuity: the demo collection, an unknown method, an answering legacy receiver -/
example : handleRequestXB false (some [build true [eDemo]]) decId.lift [1] [69, 46, 88] [] false true .answers bOk
    = (⟨[.cb false true], true⟩, false) ∧
    handleRequestXB true (some [build true [eDemo]]) decId.lift [1] [69, 46, 88] [] false true .answers bOk
    = (⟨[.cb false true, .cb true false], false⟩, true) := by decide

/-! ### completions made after the call returned (no `SafeCall` above them) -/

/-- a late completion the function can take goes through, once, and nothing panics -/
theorem late_completion_completes_once (x : Exec) (h : Handler) (c : Bool) (a : ArgV) (picky bad v : Bool)
    (hruns : x.runs = [(h, c, a)]) (hreq : h.isRequest = true) (hx : x.panicking = false)
    (hok : (picky && v && bad) = false) :
    x.thenLate (some picky) bad [v] = ⟨x.evs ++ [.cb true (!v)], false⟩ := by
  simp only [Exec.thenLate, hruns, hreq, hx, Bool.not_false, Bool.and_self, if_true, playBody, CbF.call, invokeCb,
    Bool.not_not]
  simp [hok, Exec.andThen, hx, Exec.emit, Exec.ret]

/-- **a late completion the function chokes on ESCAPES**: the panic is nobody's to recover, the completion function is
never completed (neither by the handler nor by the framework) — for the dispatcher's closure: the requester is never
answered and the goroutine that completed dies.  Observed on the real code on every run, judged 'outside-statement' -/
theorem late_choking_completion_escapes (x : Exec) (h : Handler) (c : Bool) (a : ArgV) (rest : List Bool)
    (hruns : x.runs = [(h, c, a)]) (hreq : h.isRequest = true) (hx : x.panicking = false) :
    x.thenLate (some true) true (true :: rest) = ⟨x.evs, true⟩ := by
  simp [Exec.thenLate, hruns, hreq, hx, playBody, CbF.call, invokeCb, Exec.andThen, Exec.panic]

/-- nothing is played when the call itself completed with a framework error and no handler ran -/
theorem late_nothing_without_handler (x : Exec) (cb : Cb) (bad : Bool) (late : List Bool) (hruns : x.runs = []) :
    x.thenLate cb bad late = x := by
  simp [Exec.thenLate, hruns]

/-- non-vacuity, end to end: the demo request handler keeps the function and completes later with a value a picky
completion function chokes on / a plain one takes -/
example :
    (callWithSerializeX (build true [eDemo]) (some decId.lift) [69, 46, 74] (.ty [1]) [7] (some true) ⟨[], false, true⟩).thenLate
        (some true) true [true]
      = ⟨[.run (mkHandler 1 mJoin) true (.val [2] [7])], true⟩ ∧
    (callWithSerializeX (build true [eDemo]) (some decId.lift) [69, 46, 74] (.ty [1]) [7] (some false) ⟨[], false, true⟩).thenLate
        (some false) true [true]
      = ⟨[.run (mkHandler 1 mJoin) true (.val [2] [7]), .cb true false], false⟩ := by decide

/-- the non-atomic variant (read-locked lookup, write-locked insert without a
second lookup) LOSES a collection: two threads that both miss get different
objects and the registry keeps only the second — why the structural fact matters -/
theorem registry_split_lookup_insert_loses :
    let s := [RStep.look 0, RStep.look 1, RStep.ins 0, RStep.ins 1].foldl (splitStep [110]) {}
    s.got = [(1, 1), (0, 0)] ∧ lookup s.reg [110] = some 1 := by
  decide

/-- non-vacuity: three callers of "n" with another name in between all get collection 0 -/
example : (Registry.add [] [110]).2 = 0 ∧
    ((((Registry.add [] [110]).1.addMany [[120], [110]]).add [110]).2 = 0) := by decide

end Cell2v.Props.C13
