import Cell2v.Model.Mailbox
/-! helper lemmas for C09 (1): the abstract wake-up invariant is inductive -/
namespace Cell2v.Mailbox

namespace Abs

theorem inv_init : MInv init := by
  simp [MInv, init, runners, b2n, work, quietPosters]

set_option maxHeartbeats 1000000 in
theorem inv_step (s s' : St) (l : Lbl) (h : MInv s) (hf : fire s l = some s') : MInv s' := by
  obtain ⟨uq, sq, um, sm, run, paused, susp, hs, nUp, nSp, nL, nK, nD, dq, c, ls, lu, lp⟩ := s
  cases l <;> cases c <;>
    simp only [fire, MInv, runners, b2n, work, quietPosters] at * <;>
    (repeat' split at hf) <;>
    simp_all <;>
    (try subst hf) <;>
    simp_all <;> (try omega) <;>
    (cases run <;> cases hs <;> cases susp <;> cases lp <;> simp_all <;> omega)

theorem quiescent_no_work (s : St) (h : MInv s) (hq : Quiescent s) : ¬ work s := by
  obtain ⟨_, h2, _, _, h5⟩ := h
  obtain ⟨a, b, c, d, e, f, g, i⟩ := hq
  intro hw
  have := h5 hw
  simp [runners, b2n, a, b, c, d, e, f, g, i] at h2 this
  simp_all

theorem runners_le_one (s : St) (h : MInv s) : runners s ≤ 1 := by
  obtain ⟨_, h2, _⟩ := h
  rw [← h2]; unfold b2n; split <;> omega

end Abs

end Cell2v.Mailbox
