import Cell2v.Model.ScheMgr
/-! C15 — invariant of the scheduler registry: generated names and Sche objects are fresh. -/
namespace Cell2v.ScheMgr

structure RInv (s : St) : Prop where
  regSche : ∀ e ∈ s.reg, e.2 < s.nextSche
  regAnon : ∀ e ∈ s.reg, ∀ n, e.1 = .anon n → n ≤ s.nextId
  svcSche : ∀ v ∈ s.svcs, v.sche < s.nextSche
  stoppedSche : ∀ sc ∈ s.stopped, sc < s.nextSche

theorem lookup_some_mem (reg : List (Key × Nat)) (k : Key) (sc : Nat) (h : lookup reg k = some sc) :
    (k, sc) ∈ reg := by
  simp only [lookup, Option.map_eq_some_iff] at h
  obtain ⟨e, he, h2⟩ := h
  have hm := List.mem_of_find?_eq_some he
  have hk := List.find?_some he
  simp at hk
  cases e
  simp_all

theorem rinv_new (s : St) (name : Option String) (h : RInv s) : RInv (new false s name).1 := by
  obtain ⟨h1, h2, h3, h4⟩ := h
  simp only [new, Bool.false_eq_true, if_false]
  split
  · rename_i sc hl
    have hm := lookup_some_mem _ _ _ hl
    refine ⟨h1, ?_, ?_, h4⟩
    · intro e he n hn
      have := h2 e he n hn
      cases name <;> simp <;> omega
    · intro v hv
      simp only [List.mem_append, List.mem_singleton] at hv
      cases hv with
      | inl h => exact h3 v h
      | inr h => subst h; exact h1 _ hm
  · refine ⟨?_, ?_, ?_, ?_⟩
    · intro e he
      simp only [List.mem_cons] at he
      cases he with
      | inl h => subst h; simp
      | inr h => have := h1 e h; simp; omega
    · intro e he n hn
      simp only [List.mem_cons] at he
      cases he with
      | inl h =>
        subst h
        cases name with
        | none => simp at hn; simp; omega
        | some x => simp at hn
      | inr h =>
        have := h2 e h n hn
        cases name <;> simp <;> omega
    · intro v hv
      simp only [List.mem_append, List.mem_singleton] at hv
      cases hv with
      | inl h => have := h3 v h; simp; omega
      | inr h => subst h; simp
    · intro sc hsc
      have := h4 sc hsc
      simp; omega

theorem rinv_stop (s : St) (v : Svc) (hv : v ∈ s.svcs) (h : RInv s) : RInv (stop s v) := by
  obtain ⟨h1, h2, h3, h4⟩ := h
  refine ⟨?_, ?_, h3, ?_⟩
  · intro e he
    exact h1 e (List.mem_filter.mp he).1
  · intro e he
    exact h2 e (List.mem_filter.mp he).1
  · intro sc hsc
    simp only [stop, List.mem_cons] at hsc
    cases hsc with
    | inl h => subst h; exact h3 v hv
    | inr h => exact h4 sc h

theorem rinv_reachable (s : St) (h : Reachable s) : RInv s := by
  induction h with
  | init => constructor <;> simp
  | @step s op _ ih =>
    cases op with
    | new name => exact rinv_new s name ih
    | stop i =>
      simp only [step]
      split
      · rename_i v hv
        exact rinv_stop s v (List.mem_of_getElem? hv) ih
      · exact ih

theorem lookup_filter_ne (reg : List (Key × Nat)) (k : Key) : lookup (reg.filter (fun e => e.1 ≠ k)) k = none := by
  simp only [lookup, Option.map_eq_none_iff, List.find?_eq_none]
  intro e he
  have := (List.mem_filter.mp he).2
  simpa using this

/-! ### lookup-or-create is atomic ⇒ same name, same scheduler -/

theorem lookup_cons (reg : List (Key × Nat)) (k k' : Key) (v : Nat) :
    lookup ((k, v) :: reg) k' = if k = k' then some v else lookup reg k' := by
  simp only [lookup, List.find?_cons]
  by_cases h : k = k'
  · simp [h]
  · simp [h]

/-- `GetSche` returns what is registered for the name afterwards … -/
theorem getSche_registers (s : St) (k : Key) : lookup (getSche s k).1.reg k = some (getSche s k).2 := by
  unfold getSche
  split
  · rename_i sc h; simpa using h
  · simp [lookup_cons]

/-- … and never disturbs an existing registration -/
theorem getSche_preserves (s : St) (k k' : Key) (a : Nat) (h : lookup s.reg k' = some a) :
    lookup (getSche s k).1.reg k' = some a := by
  unfold getSche
  split
  · exact h
  · rename_i hn
    simp only [lookup_cons]
    split
    · rename_i hk; subst hk; rw [hn] at h; cases h
    · exact h

theorem getMany_registered : ∀ (ks : List Key) (s : St) (k : Key) (a : Nat),
    (lookup s.reg k = some a → lookup (getMany s ks).1.reg k = some a) ∧
    ((k, a) ∈ (getMany s ks).2 → lookup (getMany s ks).1.reg k = some a)
  | [], s, k, a => by simp [getMany]
  | k0 :: ks, s, k, a => by
    have ih := getMany_registered ks (getSche s k0).1
    constructor
    · intro h
      exact (ih k a).1 (getSche_preserves s k0 k a h)
    · intro hm
      simp only [getMany, List.mem_cons] at hm
      cases hm with
      | inl h =>
        injection h with h1 h2
        subst h1; subst h2
        exact (ih _ _).1 (getSche_registers s _)
      | inr h => exact (ih k a).2 h

end Cell2v.ScheMgr
