import Cell2v.Model.ScheMgr
/-! C15 — invariant of the scheduler registry: generated names and Sche objects are fresh. -/
namespace Cell2v.ScheMgr

structure RInv (s : St) : Prop where
  regSche : ∀ e ∈ s.reg, e.2 < s.nextSche
  regAnon : ∀ e ∈ s.reg, ∀ n, e.1 = .anon n → n ≤ s.nextId
  svcSche : ∀ v ∈ s.svcs, v.sche < s.nextSche
  stoppedSche : ∀ sc ∈ s.stopped, sc < s.nextSche

theorem lookup_some_mem (reg : List (Key × Nat)) (k : Key) (sc : Nat) (h : lookup reg k = some sc) :
    (k, sc) ∈ reg := by
  simp only [lookup, Option.map_eq_some_iff] at h
  obtain ⟨e, he, h2⟩ := h
  have hm := List.mem_of_find?_eq_some he
  have hk := List.find?_some he
  simp at hk
  cases e
  simp_all

theorem rinv_new (s : St) (name : Option String) (h : RInv s) : RInv (new false s name).1 := by
  obtain ⟨h1, h2, h3, h4⟩ := h
  simp only [new, Bool.false_eq_true, if_false]
  split
  · rename_i sc hl
    have hm := lookup_some_mem _ _ _ hl
    refine ⟨h1, ?_, ?_, h4⟩
    · intro e he n hn
      have := h2 e he n hn
      cases name <;> simp <;> omega
    · intro v hv
      simp only [List.mem_append, List.mem_singleton] at hv
      cases hv with
      | inl h => exact h3 v h
      | inr h => subst h; exact h1 _ hm
  · refine ⟨?_, ?_, ?_, ?_⟩
    · intro e he
      simp only [List.mem_cons] at he
      cases he with
      | inl h => subst h; simp
      | inr h => have := h1 e h; simp; omega
    · intro e he n hn
      simp only [List.mem_cons] at he
      cases he with
      | inl h =>
        subst h
        cases name with
        | none => simp at hn; simp; omega
        | some x => simp at hn
      | inr h =>
        have := h2 e h n hn
        cases name <;> simp <;> omega
    · intro v hv
      simp only [List.mem_append, List.mem_singleton] at hv
      cases hv with
      | inl h => have := h3 v h; simp; omega
      | inr h => subst h; simp
    · intro sc hsc
      have := h4 sc hsc
      simp; omega

theorem rinv_stop (s : St) (v : Svc) (hv : v ∈ s.svcs) (h : RInv s) : RInv (stop s v) := by
  obtain ⟨h1, h2, h3, h4⟩ := h
  refine ⟨?_, ?_, h3, ?_⟩
  · intro e he
    exact h1 e (List.mem_filter.mp he).1
  · intro e he
    exact h2 e (List.mem_filter.mp he).1
  · intro sc hsc
    simp only [stop, List.mem_cons] at hsc
    cases hsc with
    | inl h => subst h; exact h3 v hv
    | inr h => exact h4 sc h

theorem rinv_reachable (s : St) (h : Reachable s) : RInv s := by
  induction h with
  | init => constructor <;> simp
  | @step s op _ ih =>
    cases op with
    | new name => exact rinv_new s name ih
    | stop i =>
      simp only [step]
      split
      · rename_i v hv
        exact rinv_stop s v (List.mem_of_getElem? hv) ih
      · exact ih

end Cell2v.ScheMgr
