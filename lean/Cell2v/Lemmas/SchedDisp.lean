import Cell2v.Model.SchedDisp
/-! helper lemmas for C09 (dispatcher with several mailboxes): the invariant of `Model/SchedDisp.lean` -/
namespace Cell2v.SchedDisp

/-- * loop goroutine idle ⇒ nothing buffered, nobody blocked
    * the channel never holds more than `cap` runs
    * every undelivered message belongs to a mailbox whose run is buffered, blocked or executing
    * per mailbox: delivered ++ pending = posted, in post order -/
def Inv (s : St) : Prop :=
  (s.gateMb = none → s.queue = [] ∧ s.blocked = []) ∧
  s.queue.length ≤ s.cap ∧
  (∀ p ∈ s.mq, scheduled s p.1 = true) ∧
  (∀ mb, (s.ran.filter (fun p => p.1 == mb)) ++ (s.mq.filter (fun p => p.1 == mb)) = s.posted.filter (fun p => p.1 == mb))

theorem inv_init : Inv init := by
  simp [Inv, init]

/-- order part of the invariant under one mailbox run -/
theorem runMb_order (s : St) (m mb : Nat) :
    ((runMb s m).ran.filter (fun p => p.1 == mb)) ++ ((runMb s m).mq.filter (fun p => p.1 == mb))
      = (s.ran.filter (fun p => p.1 == mb)) ++ (s.mq.filter (fun p => p.1 == mb)) := by
  simp only [runMb, List.filter_append, List.filter_filter, List.append_assoc]
  congr 1
  by_cases h : mb = m
  · subst h
    have h1 : (s.mq.filter fun p => (p.1 == mb && p.1 == mb)) = s.mq.filter fun p => p.1 == mb := by
      congr 1; funext p; simp
    have h2 : (s.mq.filter fun p => (p.1 == mb && !(p.1 == mb))) = [] := by
      rw [List.filter_eq_nil_iff]; intro p _; simp
    rw [h1, h2]; simp
  · have h1 : (s.mq.filter fun p => (p.1 == mb && p.1 == m)) = [] := by
      rw [List.filter_eq_nil_iff]; intro p _; simp; intro h1 h2; exact h (h1.symm.trans h2)
    have h2 : (s.mq.filter fun p => (p.1 == mb && !(p.1 == m))) = s.mq.filter fun p => p.1 == mb := by
      congr 1; funext p
      by_cases hp : p.1 = mb
      · simp [hp, h]
      · simp [hp]
    rw [h1, h2]; simp

@[simp] theorem runMb_cap (s : St) (m : Nat) : (runMb s m).cap = s.cap := rfl
@[simp] theorem runMb_queue (s : St) (m : Nat) : (runMb s m).queue = s.queue := rfl
@[simp] theorem runMb_blocked (s : St) (m : Nat) : (runMb s m).blocked = s.blocked := rfl
@[simp] theorem runMb_gate (s : St) (m : Nat) : (runMb s m).gateMb = s.gateMb := rfl
@[simp] theorem runMb_posted (s : St) (m : Nat) : (runMb s m).posted = s.posted := rfl

theorem mem_runMb_mq (s : St) (m : Nat) (p : Nat × Nat) : p ∈ (runMb s m).mq ↔ p ∈ s.mq ∧ p.1 ≠ m := by
  simp [runMb, List.mem_filter]


/-- several runs in a row (the loop goroutine draining the channel) -/
theorem foldl_runMb_fields (l : List Nat) : ∀ (s : St),
    (l.foldl runMb s).cap = s.cap ∧ (l.foldl runMb s).queue = s.queue ∧ (l.foldl runMb s).blocked = s.blocked ∧
    (l.foldl runMb s).gateMb = s.gateMb ∧ (l.foldl runMb s).posted = s.posted := by
  induction l with
  | nil => intro s; simp
  | cons m l ih => intro s; simpa using ih (runMb s m)

theorem mem_foldl_runMb_mq (l : List Nat) : ∀ (s : St) (p : Nat × Nat),
    p ∈ (l.foldl runMb s).mq ↔ p ∈ s.mq ∧ p.1 ∉ l := by
  induction l with
  | nil => intro s p; simp
  | cons m l ih =>
    intro s p
    simp only [List.foldl_cons, ih, mem_runMb_mq, List.mem_cons, not_or]
    constructor
    · rintro ⟨⟨h1, h2⟩, h3⟩; exact ⟨h1, h2, h3⟩
    · rintro ⟨h1, h2, h3⟩; exact ⟨⟨h1, h2⟩, h3⟩

theorem foldl_runMb_order (l : List Nat) (mb : Nat) : ∀ (s : St),
    ((l.foldl runMb s).ran.filter (fun p => p.1 == mb)) ++ ((l.foldl runMb s).mq.filter (fun p => p.1 == mb))
      = (s.ran.filter (fun p => p.1 == mb)) ++ (s.mq.filter (fun p => p.1 == mb)) := by
  induction l with
  | nil => intro s; simp
  | cons m l ih => intro s; simp only [List.foldl_cons]; rw [ih, runMb_order]

theorem scheduled_iff (s : St) (mb : Nat) :
    scheduled s mb = true ↔ mb ∈ s.queue ∨ mb ∈ s.blocked ∨ s.gateMb = some mb := by
  simp [scheduled, or_assoc]

/-- appending a message keeps the per-mailbox order equation -/
theorem order_append (ran mq posted : List (Nat × Nat)) (x : Nat × Nat) (mb : Nat)
    (h : ran.filter (fun p => p.1 == mb) ++ mq.filter (fun p => p.1 == mb) = posted.filter (fun p => p.1 == mb)) :
    ran.filter (fun p => p.1 == mb) ++ (mq ++ [x]).filter (fun p => p.1 == mb) = (posted ++ [x]).filter (fun p => p.1 == mb) := by
  rw [List.filter_append, List.filter_append, ← List.append_assoc, h]

theorem inv_post (s : St) (mb msg : Nat) (gate : Bool) (h : Inv s) : Inv (post s mb msg gate) := by
  obtain ⟨h1, h2, h3, h4⟩ := h
  unfold post
  by_cases hs : scheduled s mb = true
  · simp only [hs, if_true]
    refine ⟨h1, h2, ?_, fun m => order_append _ _ _ _ m (h4 m)⟩
    intro p hp
    simp only [List.mem_append, List.mem_singleton] at hp
    rcases hp with hp | hp
    · exact h3 p hp
    · subst hp; exact hs
  · simp only [hs]
    cases hg : s.gateMb with
    | none =>
      obtain ⟨hq, hb⟩ := h1 hg
      have hmq : s.mq = [] := by
        cases hm : s.mq with
        | nil => rfl
        | cons p rest =>
          have := h3 p (by simp [hm])
          rw [scheduled_iff] at this
          simp [hq, hb, hg] at this
      have hempty : ∀ p, p ∈ (runMb { s with mq := s.mq ++ [(mb, msg)], posted := s.posted ++ [(mb, msg)] } mb).mq → False := by
        intro p hp
        rw [mem_runMb_mq] at hp
        simp [hmq] at hp
        exact hp.2 (by rw [hp.1])
      have hord : ∀ m, ((runMb { s with mq := s.mq ++ [(mb, msg)], posted := s.posted ++ [(mb, msg)] } mb).ran.filter (fun p => p.1 == m)) ++
          ((runMb { s with mq := s.mq ++ [(mb, msg)], posted := s.posted ++ [(mb, msg)] } mb).mq.filter (fun p => p.1 == m))
            = (s.posted ++ [(mb, msg)]).filter (fun p => p.1 == m) := by
        intro m; rw [runMb_order]; exact order_append _ _ _ _ m (h4 m)
      simp only [Bool.false_eq_true, if_false]
      by_cases hgt : gate = true
      · simp only [hgt, if_true]
        refine ⟨by simp, by simpa using h2, fun p hp => (hempty p hp).elim, hord⟩
      · simp only [hgt]
        refine ⟨fun _ => ⟨by simpa using hq, by simpa using hb⟩, by simpa using h2, fun p hp => (hempty p hp).elim, hord⟩
    | some g =>
      simp only [Bool.false_eq_true, if_false]
      by_cases hl : s.queue.length < s.cap
      · simp only [hl, if_true]
        refine ⟨by simp, by simp; omega, ?_, fun m => order_append _ _ _ _ m (h4 m)⟩
        intro p hp
        simp only [List.mem_append, List.mem_singleton] at hp
        rw [scheduled_iff]
        rcases hp with hp | hp
        · have := h3 p hp
          rw [scheduled_iff] at this
          rcases this with t | t | t
          · left; simp [t]
          · right; left; exact t
          · right; right; rw [hg] at t; exact t
        · subst hp; left; simp
      · simp only [hl, if_false]
        refine ⟨by simp, h2, ?_, fun m => order_append _ _ _ _ m (h4 m)⟩
        intro p hp
        simp only [List.mem_append, List.mem_singleton] at hp
        rw [scheduled_iff]
        rcases hp with hp | hp
        · have := h3 p hp
          rw [scheduled_iff] at this
          rcases this with t | t | t
          · left; exact t
          · right; left; simp [t]
          · right; right; rw [hg] at t; exact t
        · subst hp; right; left; simp

theorem inv_release (s : St) (h : Inv s) : Inv (release s) := by
  obtain ⟨h1, h2, h3, h4⟩ := h
  unfold release
  cases hg : s.gateMb with
  | none => exact ⟨h1, h2, h3, h4⟩
  | some g =>
    simp only
    obtain ⟨fc, fq, fb, fg, fp⟩ := foldl_runMb_fields (s.queue ++ s.blocked) (runMb { s with gateMb := none, queue := [], blocked := [] } g)
    refine ⟨fun _ => ⟨by rw [fq]; rfl, by rw [fb]; rfl⟩, by rw [fq, fc]; simp, ?_, ?_⟩
    · intro p hp
      rw [mem_foldl_runMb_mq, mem_runMb_mq] at hp
      obtain ⟨⟨hp1, hp2⟩, hp3⟩ := hp
      have := h3 p hp1
      rw [scheduled_iff] at this
      simp only [List.mem_append, not_or] at hp3
      rcases this with t | t | t
      · exact (hp3.1 t).elim
      · exact (hp3.2 t).elim
      · rw [hg] at t; injection t with t; exact (hp2 t.symm).elim
    · intro m
      rw [foldl_runMb_order, runMb_order, fp]
      exact h4 m

theorem inv_step (s : St) (op : Op) (h : Inv s) : Inv (step s op) := by
  cases op with
  | post mb msg g => exact inv_post s mb msg g h
  | release => exact inv_release s h

theorem inv_run (ops : List Op) : ∀ s, Inv s → Inv (runOps s ops) := by
  induction ops with
  | nil => intro s h; exact h
  | cons o ops ih => intro s h; exact ih _ (inv_step s o h)

@[simp] theorem post_cap (s : St) (mb msg : Nat) (g : Bool) : (post s mb msg g).cap = s.cap := by
  unfold post; repeat' split
  all_goals simp

@[simp] theorem release_cap (s : St) : (release s).cap = s.cap := by
  unfold release; split
  · rfl
  · exact (foldl_runMb_fields _ _).1

theorem run_cap (ops : List Op) : ∀ s, (runOps s ops).cap = s.cap := by
  induction ops with
  | nil => intro s; rfl
  | cons o ops ih =>
    intro s
    show (runOps (step s o) ops).cap = s.cap
    rw [ih]; cases o <;> simp [step]


/-- a poster is blocked only while the channel is full -/
def Full (s : St) : Prop := s.blocked ≠ [] → s.cap ≤ s.queue.length

theorem full_post (s : St) (mb msg : Nat) (g : Bool) (hi : Inv s) (h : Full s) : Full (post s mb msg g) := by
  unfold post Full at *
  by_cases hs : scheduled s mb = true
  · simpa [hs] using h
  · simp only [hs]
    cases hg : s.gateMb with
    | none =>
      obtain ⟨_, hb⟩ := hi.1 hg
      simp only [Bool.false_eq_true, if_false]
      by_cases hgt : g = true
      · simp [hgt, hb]
      · simp [hgt, hb]
    | some g' =>
      simp only [Bool.false_eq_true, if_false]
      by_cases hl : s.queue.length < s.cap
      · simp only [hl, if_true]
        intro hb
        have := h hb
        omega
      · simp only [hl, if_false]
        intro _
        show s.cap ≤ s.queue.length
        omega

theorem full_release (s : St) (h : Full s) : Full (release s) := by
  unfold release Full at *
  cases hg : s.gateMb with
  | none => simpa using h
  | some g =>
    simp only
    intro hb
    exact absurd (foldl_runMb_fields (s.queue ++ s.blocked) (runMb { s with gateMb := none, queue := [], blocked := [] } g)).2.2.1 hb

theorem full_run (ops : List Op) : ∀ s, Inv s → Full s → Full (runOps s ops) := by
  induction ops with
  | nil => intro s _ h; exact h
  | cons o ops ih =>
    intro s hi h
    refine ih _ (inv_step s o hi) ?_
    cases o with
    | post mb msg g => exact full_post s mb msg g hi h
    | release => exact full_release s h

end Cell2v.SchedDisp
