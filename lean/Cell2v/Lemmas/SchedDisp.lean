import Cell2v.Model.SchedDisp
/-! helper lemmas for C09 (dispatcher with several mailboxes): the invariant of `Model/SchedDisp.lean` -/
namespace Cell2v.SchedDisp

/-- * loop goroutine idle ⇒ nothing buffered, nobody blocked
    * the channel never holds more than `cap` runs
    * every undelivered message belongs to a mailbox whose run is buffered, blocked or executing
    * per mailbox: delivered ++ pending = posted, in post order -/
def Inv (s : St) : Prop :=
  (s.gateMb = none → s.queue = [] ∧ s.blocked = []) ∧
  s.queue.length ≤ s.cap ∧
  (∀ p ∈ s.mq, scheduled s p.1 = true) ∧
  (∀ mb, (s.ran.filter (fun p => p.1 == mb)) ++ (s.mq.filter (fun p => p.1 == mb)) = s.posted.filter (fun p => p.1 == mb))

theorem inv_init : Inv init := by
  simp [Inv, init]

/-- order part of the invariant under one mailbox run -/
theorem runMb_order (s : St) (m mb : Nat) :
    ((runMb s m).ran.filter (fun p => p.1 == mb)) ++ ((runMb s m).mq.filter (fun p => p.1 == mb))
      = (s.ran.filter (fun p => p.1 == mb)) ++ (s.mq.filter (fun p => p.1 == mb)) := by
  simp only [runMb, List.filter_append, List.filter_filter, List.append_assoc]
  congr 1
  by_cases h : mb = m
  · subst h
    have h1 : (s.mq.filter fun p => (p.1 == mb && p.1 == mb)) = s.mq.filter fun p => p.1 == mb := by
      congr 1; funext p; simp
    have h2 : (s.mq.filter fun p => (p.1 == mb && !(p.1 == mb))) = [] := by
      rw [List.filter_eq_nil_iff]; intro p _; simp
    rw [h1, h2]; simp
  · have h1 : (s.mq.filter fun p => (p.1 == mb && p.1 == m)) = [] := by
      rw [List.filter_eq_nil_iff]; intro p _; simp; intro h1 h2; exact h (h1.symm.trans h2)
    have h2 : (s.mq.filter fun p => (p.1 == mb && !(p.1 == m))) = s.mq.filter fun p => p.1 == mb := by
      congr 1; funext p
      by_cases hp : p.1 = mb
      · simp [hp, h]
      · simp [hp]
    rw [h1, h2]; simp

@[simp] theorem runMb_cap (s : St) (m : Nat) : (runMb s m).cap = s.cap := rfl
@[simp] theorem runMb_queue (s : St) (m : Nat) : (runMb s m).queue = s.queue := rfl
@[simp] theorem runMb_blocked (s : St) (m : Nat) : (runMb s m).blocked = s.blocked := rfl
@[simp] theorem runMb_gate (s : St) (m : Nat) : (runMb s m).gateMb = s.gateMb := rfl
@[simp] theorem runMb_posted (s : St) (m : Nat) : (runMb s m).posted = s.posted := rfl
@[simp] theorem runMb_stuck (s : St) (m : Nat) : (runMb s m).stuck = s.stuck := rfl

theorem mem_runMb_mq (s : St) (m : Nat) (p : Nat × Nat) : p ∈ (runMb s m).mq ↔ p ∈ s.mq ∧ p.1 ≠ m := by
  simp [runMb, List.mem_filter]


/-- several runs in a row (the loop goroutine draining the channel) -/
theorem foldl_runMb_fields (l : List Nat) : ∀ (s : St),
    (l.foldl runMb s).cap = s.cap ∧ (l.foldl runMb s).queue = s.queue ∧ (l.foldl runMb s).blocked = s.blocked ∧
    (l.foldl runMb s).gateMb = s.gateMb ∧ (l.foldl runMb s).posted = s.posted ∧ (l.foldl runMb s).stuck = s.stuck := by
  induction l with
  | nil => intro s; simp
  | cons m l ih => intro s; simpa using ih (runMb s m)

theorem mem_foldl_runMb_mq (l : List Nat) : ∀ (s : St) (p : Nat × Nat),
    p ∈ (l.foldl runMb s).mq ↔ p ∈ s.mq ∧ p.1 ∉ l := by
  induction l with
  | nil => intro s p; simp
  | cons m l ih =>
    intro s p
    simp only [List.foldl_cons, ih, mem_runMb_mq, List.mem_cons, not_or]
    constructor
    · rintro ⟨⟨h1, h2⟩, h3⟩; exact ⟨h1, h2, h3⟩
    · rintro ⟨h1, h2, h3⟩; exact ⟨⟨h1, h2⟩, h3⟩

theorem foldl_runMb_order (l : List Nat) (mb : Nat) : ∀ (s : St),
    ((l.foldl runMb s).ran.filter (fun p => p.1 == mb)) ++ ((l.foldl runMb s).mq.filter (fun p => p.1 == mb))
      = (s.ran.filter (fun p => p.1 == mb)) ++ (s.mq.filter (fun p => p.1 == mb)) := by
  induction l with
  | nil => intro s; simp
  | cons m l ih => intro s; simp only [List.foldl_cons]; rw [ih, runMb_order]

theorem scheduled_iff (s : St) (mb : Nat) :
    scheduled s mb = true ↔ mb ∈ s.queue ∨ mb ∈ s.blocked ∨ s.gateMb = some mb := by
  simp [scheduled, or_assoc]

/-- appending a message keeps the per-mailbox order equation -/
theorem order_append (ran mq posted : List (Nat × Nat)) (x : Nat × Nat) (mb : Nat)
    (h : ran.filter (fun p => p.1 == mb) ++ mq.filter (fun p => p.1 == mb) = posted.filter (fun p => p.1 == mb)) :
    ran.filter (fun p => p.1 == mb) ++ (mq ++ [x]).filter (fun p => p.1 == mb) = (posted ++ [x]).filter (fun p => p.1 == mb) := by
  rw [List.filter_append, List.filter_append, ← List.append_assoc, h]

theorem inv_post (s : St) (mb msg : Nat) (gate : Bool) (h : Inv s) : Inv (post s mb msg gate) := by
  obtain ⟨h1, h2, h3, h4⟩ := h
  unfold post
  by_cases hs : scheduled s mb = true
  · simp only [hs, if_true]
    refine ⟨h1, h2, ?_, fun m => order_append _ _ _ _ m (h4 m)⟩
    intro p hp
    simp only [List.mem_append, List.mem_singleton] at hp
    rcases hp with hp | hp
    · exact h3 p hp
    · subst hp; exact hs
  · simp only [hs]
    cases hg : s.gateMb with
    | none =>
      obtain ⟨hq, hb⟩ := h1 hg
      have hmq : s.mq = [] := by
        cases hm : s.mq with
        | nil => rfl
        | cons p rest =>
          have := h3 p (by simp [hm])
          rw [scheduled_iff] at this
          simp [hq, hb, hg] at this
      have hempty : ∀ p, p ∈ (runMb { s with mq := s.mq ++ [(mb, msg)], posted := s.posted ++ [(mb, msg)] } mb).mq → False := by
        intro p hp
        rw [mem_runMb_mq] at hp
        simp [hmq] at hp
        exact hp.2 (by rw [hp.1])
      have hord : ∀ m, ((runMb { s with mq := s.mq ++ [(mb, msg)], posted := s.posted ++ [(mb, msg)] } mb).ran.filter (fun p => p.1 == m)) ++
          ((runMb { s with mq := s.mq ++ [(mb, msg)], posted := s.posted ++ [(mb, msg)] } mb).mq.filter (fun p => p.1 == m))
            = (s.posted ++ [(mb, msg)]).filter (fun p => p.1 == m) := by
        intro m; rw [runMb_order]; exact order_append _ _ _ _ m (h4 m)
      simp only [Bool.false_eq_true, if_false]
      by_cases hgt : gate = true
      · simp only [hgt, if_true]
        refine ⟨by simp, by simpa using h2, fun p hp => (hempty p hp).elim, hord⟩
      · simp only [hgt]
        refine ⟨fun _ => ⟨by simpa using hq, by simpa using hb⟩, by simpa using h2, fun p hp => (hempty p hp).elim, hord⟩
    | some g =>
      simp only [Bool.false_eq_true, if_false]
      by_cases hl : s.queue.length < s.cap
      · simp only [hl, if_true]
        refine ⟨by simp, by simp; omega, ?_, fun m => order_append _ _ _ _ m (h4 m)⟩
        intro p hp
        simp only [List.mem_append, List.mem_singleton] at hp
        rw [scheduled_iff]
        rcases hp with hp | hp
        · have := h3 p hp
          rw [scheduled_iff] at this
          rcases this with t | t | t
          · left; simp [t]
          · right; left; exact t
          · right; right; rw [hg] at t; exact t
        · subst hp; left; simp
      · simp only [hl, if_false]
        refine ⟨by simp, h2, ?_, fun m => order_append _ _ _ _ m (h4 m)⟩
        intro p hp
        simp only [List.mem_append, List.mem_singleton] at hp
        rw [scheduled_iff]
        rcases hp with hp | hp
        · have := h3 p hp
          rw [scheduled_iff] at this
          rcases this with t | t | t
          · left; exact t
          · right; left; simp [t]
          · right; right; rw [hg] at t; exact t
        · subst hp; right; left; simp

theorem inv_release (s : St) (h : Inv s) : Inv (release s) := by
  unfold release
  by_cases hst : s.stuck = true
  · rw [if_pos hst]; exact h
  obtain ⟨h1, h2, h3, h4⟩ := h
  rw [if_neg hst]
  cases hg : s.gateMb with
  | none => exact ⟨h1, h2, h3, h4⟩
  | some g =>
    simp only
    obtain ⟨fc, fq, fb, fg, fp, _⟩ := foldl_runMb_fields (s.queue ++ s.blocked) (runMb { s with gateMb := none, queue := [], blocked := [] } g)
    refine ⟨fun _ => ⟨by rw [fq]; rfl, by rw [fb]; rfl⟩, by rw [fq, fc]; simp, ?_, ?_⟩
    · intro p hp
      rw [mem_foldl_runMb_mq, mem_runMb_mq] at hp
      obtain ⟨⟨hp1, hp2⟩, hp3⟩ := hp
      have := h3 p hp1
      rw [scheduled_iff] at this
      simp only [List.mem_append, not_or] at hp3
      rcases this with t | t | t
      · exact (hp3.1 t).elim
      · exact (hp3.2 t).elim
      · rw [hg] at t; injection t with t; exact (hp2 t.symm).elim
    · intro m
      rw [foldl_runMb_order, runMb_order, fp]
      exact h4 m

/-- a post by the handler on the loop goroutine: the same protocol; when the channel is full the loop goroutine
becomes one more blocked sender -/
theorem inv_selfPost (s : St) (mb msg : Nat) (h : Inv s) : Inv (selfPost s mb msg) := by
  unfold selfPost
  cases hg : s.gateMb with
  | none => exact h
  | some g =>
    simp only
    by_cases hst : s.stuck = true
    · rw [if_pos hst]; exact h
    obtain ⟨h1, h2, h3, h4⟩ := h
    rw [if_neg hst]
    by_cases hs : scheduled s mb = true
    · simp only [hs, if_true]
      refine ⟨by simp, h2, ?_, fun m => order_append _ _ _ _ m (h4 m)⟩
      intro p hp
      simp only [List.mem_append, List.mem_singleton] at hp
      rw [scheduled_iff]
      rcases hp with hp | hp
      · have := h3 p hp
        rw [scheduled_iff, hg] at this
        exact this
      · subst hp
        have := hs
        rw [scheduled_iff, hg] at this
        exact this
    · simp only [hs, Bool.false_eq_true, if_false]
      by_cases hl : s.queue.length < s.cap
      · simp only [hl, if_true]
        refine ⟨by simp, by simp; omega, ?_, fun m => order_append _ _ _ _ m (h4 m)⟩
        intro p hp
        simp only [List.mem_append, List.mem_singleton] at hp
        rw [scheduled_iff]
        rcases hp with hp | hp
        · have := h3 p hp
          rw [scheduled_iff] at this
          rcases this with t | t | t
          · left; simp [t]
          · right; left; exact t
          · right; right; rw [hg] at t; exact t
        · subst hp; left; simp
      · simp only [hl, if_false]
        refine ⟨by simp, h2, ?_, fun m => order_append _ _ _ _ m (h4 m)⟩
        intro p hp
        simp only [List.mem_append, List.mem_singleton] at hp
        rw [scheduled_iff]
        rcases hp with hp | hp
        · have := h3 p hp
          rw [scheduled_iff] at this
          rcases this with t | t | t
          · left; exact t
          · right; left; simp [t]
          · right; right; rw [hg] at t; exact t
        · subst hp; right; left; simp

theorem inv_step (s : St) (op : Op) (h : Inv s) : Inv (step s op) := by
  cases op with
  | post mb msg g => exact inv_post s mb msg g h
  | release => exact inv_release s h
  | selfPost mb msg => exact inv_selfPost s mb msg h
  | wait ms => exact h

theorem inv_run (ops : List Op) : ∀ s, Inv s → Inv (runOps s ops) := by
  induction ops with
  | nil => intro s h; exact h
  | cons o ops ih => intro s h; exact ih _ (inv_step s o h)

@[simp] theorem post_cap (s : St) (mb msg : Nat) (g : Bool) : (post s mb msg g).cap = s.cap := by
  unfold post; repeat' split
  all_goals simp

@[simp] theorem release_cap (s : St) : (release s).cap = s.cap := by
  unfold release; split
  · rfl
  · split
    · rfl
    · exact (foldl_runMb_fields _ _).1

@[simp] theorem selfPost_cap (s : St) (mb msg : Nat) : (selfPost s mb msg).cap = s.cap := by
  unfold selfPost; repeat' split
  all_goals simp

theorem run_cap (ops : List Op) : ∀ s, (runOps s ops).cap = s.cap := by
  induction ops with
  | nil => intro s; rfl
  | cons o ops ih =>
    intro s
    show (runOps (step s o) ops).cap = s.cap
    rw [ih]; cases o <;> simp [step]


/-- a poster is blocked only while the channel is full -/
def Full (s : St) : Prop := s.blocked ≠ [] → s.cap ≤ s.queue.length

theorem full_post (s : St) (mb msg : Nat) (g : Bool) (hi : Inv s) (h : Full s) : Full (post s mb msg g) := by
  unfold post Full at *
  by_cases hs : scheduled s mb = true
  · simpa [hs] using h
  · simp only [hs]
    cases hg : s.gateMb with
    | none =>
      obtain ⟨_, hb⟩ := hi.1 hg
      simp only [Bool.false_eq_true, if_false]
      by_cases hgt : g = true
      · simp [hgt, hb]
      · simp [hgt, hb]
    | some g' =>
      simp only [Bool.false_eq_true, if_false]
      by_cases hl : s.queue.length < s.cap
      · simp only [hl, if_true]
        intro hb
        have := h hb
        omega
      · simp only [hl, if_false]
        intro _
        show s.cap ≤ s.queue.length
        omega

theorem full_selfPost (s : St) (mb msg : Nat) (h : Full s) : Full (selfPost s mb msg) := by
  unfold selfPost Full at *
  cases hg : s.gateMb with
  | none => simpa using h
  | some g =>
    simp only
    by_cases hst : s.stuck = true
    · rw [if_pos hst]; exact h
    rw [if_neg hst]
    by_cases hs : scheduled s mb = true
    · simpa [hs] using h
    · simp only [hs, Bool.false_eq_true, if_false]
      by_cases hl : s.queue.length < s.cap
      · simp only [hl, if_true]
        intro hb
        have := h hb
        omega
      · simp only [hl, if_false]
        intro _
        show s.cap ≤ s.queue.length
        omega

theorem full_release (s : St) (h : Full s) : Full (release s) := by
  unfold release Full at *
  by_cases hst : s.stuck = true
  · rw [if_pos hst]; exact h
  rw [if_neg hst]
  cases hg : s.gateMb with
  | none => simpa using h
  | some g =>
    simp only
    intro hb
    exact absurd (foldl_runMb_fields (s.queue ++ s.blocked) (runMb { s with gateMb := none, queue := [], blocked := [] } g)).2.2.1 hb

theorem full_run (ops : List Op) : ∀ s, Inv s → Full s → Full (runOps s ops) := by
  induction ops with
  | nil => intro s _ h; exact h
  | cons o ops ih =>
    intro s hi h
    refine ih _ (inv_step s o hi) ?_
    cases o with
    | post mb msg g => exact full_post s mb msg g hi h
    | release => exact full_release s h
    | selfPost mb msg => exact full_selfPost s mb msg h
    | wait ms => exact h


/-! ### the loop goroutine blocked on its own channel -/

/-- the loop goroutine sits inside `Schedule` only while a handler is executing and every slot is taken -/
def StuckInv (s : St) : Prop := s.stuck = true → s.gateMb ≠ none ∧ s.cap ≤ s.queue.length

theorem stuckinv_init : StuckInv init := by simp [StuckInv, init]

theorem stuckinv_post (s : St) (mb msg : Nat) (g : Bool) (hi : Inv s) (h : StuckInv s) : StuckInv (post s mb msg g) := by
  unfold post StuckInv at *
  by_cases hs : scheduled s mb = true
  · simpa [hs] using h
  · simp only [hs]
    cases hg : s.gateMb with
    | none =>
      have hns : s.stuck = false := by
        cases hst : s.stuck with
        | false => rfl
        | true => exact absurd hg (h hst).1
      simp only [Bool.false_eq_true, if_false]
      by_cases hgt : g = true
      · simp [hgt, hns]
      · simp [hgt, hns]
    | some g' =>
      simp only [Bool.false_eq_true, if_false]
      by_cases hl : s.queue.length < s.cap
      · simp only [hl, if_true]
        intro hst
        have := (h hst).2
        omega
      · simp only [hl, if_false]
        intro hst
        exact ⟨by simp, (h hst).2⟩

theorem stuckinv_selfPost (s : St) (mb msg : Nat) (h : StuckInv s) : StuckInv (selfPost s mb msg) := by
  unfold selfPost StuckInv at *
  cases hg : s.gateMb with
  | none => simpa using h
  | some g =>
    simp only
    by_cases hst : s.stuck = true
    · rw [if_pos hst]; exact h
    rw [if_neg hst]
    by_cases hs : scheduled s mb = true
    · simp only [hs, if_true]; intro h'; exact absurd h' hst
    · simp only [hs, Bool.false_eq_true, if_false]
      by_cases hl : s.queue.length < s.cap
      · simp only [hl, if_true]; intro h'; exact absurd h' hst
      · simp only [hl, if_false]
        intro _
        refine ⟨by simp, ?_⟩
        show s.cap ≤ s.queue.length
        omega

theorem release_stuck (s : St) : (release s).stuck = s.stuck := by
  unfold release
  by_cases hst : s.stuck = true
  · rw [if_pos hst]
  · rw [if_neg hst]
    split
    · rfl
    · exact (foldl_runMb_fields _ _).2.2.2.2.2

theorem stuckinv_release (s : St) (h : StuckInv s) : StuckInv (release s) := by
  by_cases hst : s.stuck = true
  · have : release s = s := by unfold release; rw [if_pos hst]
    rw [this]; exact h
  · intro h'
    rw [release_stuck] at h'
    exact absurd h' hst

theorem stuckinv_step (s : St) (op : Op) (hi : Inv s) (h : StuckInv s) : StuckInv (step s op) := by
  cases op with
  | post mb msg g => exact stuckinv_post s mb msg g hi h
  | release => exact stuckinv_release s h
  | selfPost mb msg => exact stuckinv_selfPost s mb msg h
  | wait ms => exact h

theorem stuckinv_run (ops : List Op) : ∀ s, Inv s → StuckInv s → StuckInv (runOps s ops) := by
  induction ops with
  | nil => intro s _ h; exact h
  | cons o ops ih => intro s hi h; exact ih _ (inv_step s o hi) (stuckinv_step s o hi h)

/-- once the loop goroutine is blocked on its own channel, no operation delivers anything any more -/
theorem stuck_step (s : St) (op : Op) (hs : s.stuck = true) (hg : s.gateMb ≠ none) :
    (step s op).stuck = true ∧ (step s op).gateMb ≠ none ∧ (step s op).ran = s.ran := by
  cases op with
  | wait ms => exact ⟨hs, hg, rfl⟩
  | release =>
    have : release s = s := by unfold release; rw [if_pos hs]
    show (release s).stuck = true ∧ (release s).gateMb ≠ none ∧ (release s).ran = s.ran
    rw [this]; exact ⟨hs, hg, rfl⟩
  | selfPost mb msg =>
    have : selfPost s mb msg = s := by
      unfold selfPost
      cases hgm : s.gateMb with
      | none => rfl
      | some g => simp only; rw [if_pos hs]
    show (selfPost s mb msg).stuck = true ∧ (selfPost s mb msg).gateMb ≠ none ∧ (selfPost s mb msg).ran = s.ran
    rw [this]; exact ⟨hs, hg, rfl⟩
  | post mb msg g =>
    simp only [step]
    unfold post
    cases hgm : s.gateMb with
    | none => exact absurd hgm hg
    | some g' =>
      by_cases hsc : scheduled s mb = true
      · simp [hsc, hs]
      · simp only [hsc, Bool.false_eq_true, if_false]
        by_cases hl : s.queue.length < s.cap
        · simp [hl, hs]
        · simp [hl, hs]

theorem stuck_run (ops : List Op) : ∀ s, s.stuck = true → s.gateMb ≠ none →
    (runOps s ops).stuck = true ∧ (runOps s ops).ran = s.ran := by
  induction ops with
  | nil => intro s hs _; exact ⟨hs, rfl⟩
  | cons o ops ih =>
    intro s hs hg
    obtain ⟨a, b, c⟩ := stuck_step s o hs hg
    obtain ⟨d, e⟩ := ih (step s o) a b
    exact ⟨d, e.trans c⟩

/-! ### few mailboxes: the channel can never fill up -/

/-- pigeonhole: a duplicate-free list of numbers below `n` has at most `n` entries -/
theorem nodup_bound : ∀ (n : Nat) (l : List Nat), l.Nodup → (∀ x ∈ l, x < n) → l.length ≤ n := by
  intro n
  induction n with
  | zero =>
    intro l _ h
    cases l with
    | nil => simp
    | cons a t => exact absurd (h a (by simp)) (by omega)
  | succ n ih =>
    intro l hn h
    have h1 : (l.erase n).Nodup := hn.sublist (List.erase_sublist)
    have h2 : ∀ x ∈ l.erase n, x < n := by
      intro x hx
      have hx' := (List.Nodup.mem_erase_iff hn).1 hx
      have := h x hx'.2
      omega
    have := ih (l.erase n) h1 h2
    rw [List.length_erase] at this
    split at this <;> omega

def opMb : Op → Option Nat
  | .post mb _ _ => some mb
  | .selfPost mb _ => some mb
  | .release => none
  | .wait _ => none

/-- every operation addresses a mailbox with an id below `n` -/
def OpsBelow (n : Nat) (ops : List Op) : Prop := ∀ o ∈ ops, ∀ mb, opMb o = some mb → mb < n

/-- with at most `cap` mailboxes on the dispatcher: each buffered run belongs to a different mailbox, none of them to the
one being executed, nobody is blocked, the loop goroutine is not stuck -/
def Small (n : Nat) (s : St) : Prop :=
  s.queue.Nodup ∧ (∀ m ∈ s.queue, m < n) ∧ (∀ g, s.gateMb = some g → g ∉ s.queue ∧ g < n) ∧
  (s.gateMb = none → s.queue = []) ∧ s.blocked = [] ∧ s.stuck = false

theorem small_init (n : Nat) : Small n init := by simp [Small, init]

/-- room for one more: the executing mailbox, the target and the buffered ones are all different -/
theorem small_room (n : Nat) (s : St) (hn : n ≤ s.cap) (h : Small n s) (g mb : Nat) (hg : s.gateMb = some g)
    (hmb : mb < n) (hs : scheduled s mb = false) : s.queue.length < s.cap := by
  obtain ⟨h1, h2, h3, _, _, _⟩ := h
  obtain ⟨hgq, hgn⟩ := h3 g hg
  have hns : ¬ (mb ∈ s.queue ∨ mb ∈ s.blocked ∨ s.gateMb = some mb) := by
    rw [← scheduled_iff]; simp [hs]
  have hmq : mb ∉ s.queue := fun t => hns (Or.inl t)
  have hmg : mb ≠ g := fun t => hns (Or.inr (Or.inr (by rw [hg, t])))
  have hnd : (mb :: g :: s.queue).Nodup := by
    simp only [List.nodup_cons, List.mem_cons, not_or]
    exact ⟨⟨hmg, hmq⟩, hgq, h1⟩
  have hb : ∀ x ∈ (mb :: g :: s.queue), x < n := by
    intro x hx
    simp only [List.mem_cons] at hx
    rcases hx with hx | hx | hx
    · rw [hx]; exact hmb
    · rw [hx]; exact hgn
    · exact h2 x hx
  have := nodup_bound n _ hnd hb
  simp only [List.length_cons] at this
  omega

theorem small_post (n : Nat) (s : St) (mb msg : Nat) (g : Bool) (hn : n ≤ s.cap) (hmb : mb < n) (h : Small n s) :
    Small n (post s mb msg g) := by
  unfold post
  by_cases hs : scheduled s mb = true
  · simp only [hs, if_true]; exact h
  · have hs' : scheduled s mb = false := by simpa using hs
    simp only [hs]
    cases hg : s.gateMb with
    | none =>
      obtain ⟨h1, h2, _, h4, h5, h6⟩ := h
      have hq := h4 hg
      simp only [Bool.false_eq_true, if_false]
      by_cases hgt : g = true
      · simp only [hgt, if_true]
        refine ⟨by simpa using h1, by simpa using h2, ?_, by simp, by simpa using h5, by simpa using h6⟩
        intro g' hg'
        simp only [Option.some.injEq] at hg'
        subst hg'
        exact ⟨by simp [hq], hmb⟩
      · simp only [hgt]
        refine ⟨by simpa using h1, by simpa using h2, ?_, fun _ => by simpa using hq, by simpa using h5, by simpa using h6⟩
        intro g' hg'
        simp [hg] at hg'
    | some g' =>
      have hroom := small_room n s hn h g' mb hg hmb hs'
      obtain ⟨h1, h2, h3, _, h5, h6⟩ := h
      obtain ⟨hgq, hgn⟩ := h3 g' hg
      have hns : ¬ (mb ∈ s.queue ∨ mb ∈ s.blocked ∨ s.gateMb = some mb) := by
        rw [← scheduled_iff]; simp [hs']
      simp only [Bool.false_eq_true, if_false, hroom, if_true]
      refine ⟨?_, ?_, ?_, by simp, h5, h6⟩
      · rw [List.nodup_append]
        refine ⟨h1, by simp, ?_⟩
        intro a ha b hb
        simp only [List.mem_singleton] at hb
        intro hab
        exact hns (Or.inl (by rw [← hb, ← hab]; exact ha))
      · intro m hm
        simp only [List.mem_append, List.mem_singleton] at hm
        rcases hm with hm | hm
        · exact h2 m hm
        · rw [hm]; exact hmb
      · intro g'' hg''
        simp only [Option.some.injEq] at hg''
        subst hg''
        refine ⟨?_, hgn⟩
        simp only [List.mem_append, List.mem_singleton, not_or]
        refine ⟨hgq, ?_⟩
        intro t
        exact hns (Or.inr (Or.inr (by rw [hg, t])))

theorem small_selfPost (n : Nat) (s : St) (mb msg : Nat) (hn : n ≤ s.cap) (hmb : mb < n) (h : Small n s) :
    Small n (selfPost s mb msg) := by
  unfold selfPost
  cases hg : s.gateMb with
  | none => exact h
  | some g' =>
    simp only
    have hst : ¬ s.stuck = true := by simp [h.2.2.2.2.2]
    rw [if_neg hst]
    by_cases hs : scheduled s mb = true
    · simp only [hs, if_true]
      obtain ⟨h1, h2, h3, h4, h5, h6⟩ := h
      refine ⟨h1, h2, ?_, by simp, h5, h6⟩
      intro g'' hg''
      simp only [Option.some.injEq] at hg''
      subst hg''
      exact h3 g' hg
    · have hs' : scheduled s mb = false := by simpa using hs
      have hroom := small_room n s hn h g' mb hg hmb hs'
      obtain ⟨h1, h2, h3, _, h5, h6⟩ := h
      obtain ⟨hgq, hgn⟩ := h3 g' hg
      have hns : ¬ (mb ∈ s.queue ∨ mb ∈ s.blocked ∨ s.gateMb = some mb) := by
        rw [← scheduled_iff]; simp [hs']
      simp only [hs, Bool.false_eq_true, if_false, hroom, if_true]
      refine ⟨?_, ?_, ?_, by simp, h5, h6⟩
      · rw [List.nodup_append]
        refine ⟨h1, by simp, ?_⟩
        intro a ha b hb
        simp only [List.mem_singleton] at hb
        intro hab
        exact hns (Or.inl (by rw [← hb, ← hab]; exact ha))
      · intro m hm
        simp only [List.mem_append, List.mem_singleton] at hm
        rcases hm with hm | hm
        · exact h2 m hm
        · rw [hm]; exact hmb
      · intro g'' hg''
        simp only [Option.some.injEq] at hg''
        subst hg''
        refine ⟨?_, hgn⟩
        simp only [List.mem_append, List.mem_singleton, not_or]
        refine ⟨hgq, ?_⟩
        intro t
        exact hns (Or.inr (Or.inr (by rw [hg, t])))

theorem small_release (n : Nat) (s : St) (h : Small n s) : Small n (release s) := by
  unfold release
  have hst : ¬ s.stuck = true := by simp [h.2.2.2.2.2]
  rw [if_neg hst]
  cases hg : s.gateMb with
  | none => simp only; exact h
  | some g =>
    simp only
    obtain ⟨_, fq, fb, fg, _, fs⟩ := foldl_runMb_fields (s.queue ++ s.blocked) (runMb { s with gateMb := none, queue := [], blocked := [] } g)
    refine ⟨by rw [fq]; simp, by rw [fq]; simp, ?_, fun _ => by rw [fq]; rfl, by rw [fb]; rfl, by rw [fs]; simpa using h.2.2.2.2.2⟩
    intro g' hg'
    rw [fg] at hg'
    simp at hg'

theorem small_run (n : Nat) (ops : List Op) : ∀ s, n ≤ s.cap → OpsBelow n ops → Small n s → Small n (runOps s ops) := by
  induction ops with
  | nil => intro s _ _ h; exact h
  | cons o ops ih =>
    intro s hn hb h
    have hb' : OpsBelow n ops := fun o' ho' => hb o' (List.mem_cons_of_mem _ ho')
    have ho := hb o (List.mem_cons_self)
    show Small n (runOps (step s o) ops)
    cases o with
    | post mb msg g =>
      exact ih _ (by simpa [step] using hn) hb' (small_post n s mb msg g hn (ho mb rfl) h)
    | release =>
      exact ih _ (by simpa [step] using hn) hb' (small_release n s h)
    | selfPost mb msg =>
      exact ih _ (by simpa [step] using hn) hb' (small_selfPost n s mb msg hn (ho mb rfl) h)
    | wait ms =>
      exact ih _ hn hb' h

end Cell2v.SchedDisp
