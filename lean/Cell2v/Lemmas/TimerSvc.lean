import Cell2v.Model.TimerSvc
import Cell2v.Lemmas.TimerLive
/-!
The service-level timer model (`Model/TimerSvc.lean`): a service history is a history of
the timer model (`svc_refines`), and the invariant `SInv` of `tryStartCheckTimer /
checkExpired / freeTimer`: the manager holds exactly the timer the service believes it owns,
and a non-empty request table always has its check timer.
-/
namespace Cell2v.TimerSvc
open Cell2v.Timer

/-! ### a service history is a timer history -/

theorem runFrom_split (s : State) (tr : List Event) (ops : List Op) :
    (runFrom s tr ops).1 = (runFrom s [] ops).1 ∧ (runFrom s tr ops).2 = tr ++ (runFrom s [] ops).2 := by
  induction ops generalizing s tr with
  | nil => simp [runFrom]
  | cons op ops ih =>
    simp only [runFrom]
    obtain ⟨a1, a2⟩ := ih (step s op).1 (tr ++ (step s op).2)
    obtain ⟨b1, b2⟩ := ih (step s op).1 ([] ++ (step s op).2)
    rw [a1, a2, b1, b2]
    simp

theorem svcStep_t (v : Svc) (op : SOp) :
    (svcStep v op).1.t = (runFrom v.t [] (opsOf v op)).1 ∧ (svcStep v op).2 = (runFrom v.t [] (opsOf v op)).2 := by
  cases op <;> simp only [svcStep] <;> (try split) <;> (try split) <;> simp

/-- every service history is a history of primitive timer steps from the initial manager, with
the same manager state and the same event trace -/
theorem svc_refines_from (sops : List SOp) : ∀ (v : Svc) (tr : List Event) (ops0 : List Op),
    (run ops0).1 = v.t → (run ops0).2 = tr →
    ∃ ops, (run ops).1 = (svcRunFrom v tr sops).1.t ∧ (run ops).2 = (svcRunFrom v tr sops).2 := by
  induction sops with
  | nil => intro v tr ops0 h1 h2; exact ⟨ops0, h1, h2⟩
  | cons op sops ih =>
    intro v tr ops0 h1 h2
    simp only [svcRunFrom]
    apply ih (svcStep v op).1 (tr ++ (svcStep v op).2) (ops0 ++ opsOf v op)
    · unfold run at *; rw [runFrom_append, h1, h2, (runFrom_split _ _ _).1, (svcStep_t v op).1]
    · unfold run at *; rw [runFrom_append, h1, h2, (runFrom_split _ _ _).2, (svcStep_t v op).2]

theorem svc_refines (sops : List SOp) :
    ∃ ops, (run ops).1 = (svcRun sops).1.t ∧ (run ops).2 = (svcRun sops).2 :=
  svc_refines_from sops {} [] [] rfl rfl

/-! ### the invariant of the service's timer use -/

structure SInv (v : Svc) : Prop where
  /-- between service steps no callback is in progress -/
  idle : v.t.cur = none
  running : v.t.running = true
  /-- the manager holds nothing but the timer the service owns -/
  only : ∀ id, (v.t.tm id).inMap = true → id = v.own ∧ v.own ≠ 0
  /-- the owned timer is held by the manager, repeating (1 s), not cancelled -/
  owned : v.own ≠ 0 → (v.t.tm v.own).inMap = true ∧ (v.t.tm v.own).period = checkPeriod ∧
      (v.t.tm v.own).cancelled = false ∧ (v.t.tm v.own).live = true ∧ (v.t.tm v.own).script = 1
  /-- an outstanding request always has its check timer -/
  busy : v.pending ≠ [] → v.own ≠ 0

theorem sinv_init : SInv {} := by
  constructor <;> simp

/-- what the tail of `Do` can do to an object -/
theorem finish_tm (s : State) (hd j : Nat) :
    (((finish s hd).1.tm j).inMap = true → (s.tm j).inMap = true) ∧
    ((finish s hd).1.tm j).period = (s.tm j).period ∧ ((finish s hd).1.tm j).cancelled = (s.tm j).cancelled ∧
    ((finish s hd).1.tm j).live = (s.tm j).live ∧
    (0 < (s.tm j).period → ((finish s hd).1.tm j).inMap = (s.tm j).inMap) := by
  unfold finish
  by_cases e : j = hd
  · subst e
    split
    · simp
    · split
      · simp
      next hp => simp at hp; simp [hp]
  · split
    · simp
    · split <;> simp [setTm_tm_other _ _ _ _ e]

theorem finish_misc (s : State) (hd : Nat) :
    (finish s hd).1.cur = s.cur ∧ (finish s hd).1.running = s.running :=
  ⟨finish_cur s hd, finish_running s hd⟩

/-- `Cancel(x)`: `x` leaves the map, nobody enters it -/
theorem cancelTm_tm (s : State) (x j : Nat) :
    (((cancelTm s x).1.tm j).inMap = true → (s.tm j).inMap = true ∧ j ≠ x) ∧
    ((cancelTm s x).1.tm j).period = (s.tm j).period ∧ ((cancelTm s x).1.tm j).live = (s.tm j).live := by
  simp only [cancelTm]
  by_cases e : j = x
  · subst e
    split
    · simp
    next h => simp [h]
  · split
    · simp [setTm_tm_other _ _ _ _ e, e]
    · simp [e]

theorem expire_tm (s : State) (x j : Nat) :
    ((expire s x).1.tm j).inMap = (s.tm j).inMap ∧ ((expire s x).1.tm j).period = (s.tm j).period ∧
    ((expire s x).1.tm j).cancelled = (s.tm j).cancelled ∧ ((expire s x).1.tm j).live = (s.tm j).live := by
  unfold expire
  by_cases e : j = x
  · subst e; split <;> (try split) <;> (try split) <;> simp
  · split <;> (try split) <;> (try split) <;> simp [setTm_tm_other _ _ _ _ e]

theorem expire_script (s : State) (x j : Nat) : ((expire s x).1.tm j).script = (s.tm j).script := by
  unfold expire
  by_cases e : j = x
  · subst e; split <;> (try split) <;> (try split) <;> simp
  · split <;> (try split) <;> (try split) <;> simp [setTm_tm_other _ _ _ _ e]

theorem expire_misc (s : State) (x : Nat) : (expire s x).1.cur = s.cur ∧ (expire s x).1.running = s.running := by
  unfold expire
  split <;> (try split) <;> (try split) <;> simp

theorem sinv_req {v : Svc} (h : SInv v) (k : Nat) : SInv (svcStep v (.req k)).1 := by
  by_cases h0 : v.own = 0
  · have hc := h.idle
    simp only [svcStep, opsOf, h0, if_true, runFrom, step, hc, Option.isSome_none, Bool.false_eq_true, if_false]
    constructor
    · simp [create, hc]
    · simp [create, h.running]
    · intro id hm
      by_cases e : id = v.t.nextId + 1
      · simp [create, e]
      · simp [create, setTm_tm_other _ _ _ _ e] at hm
        have := (h.only id hm).2; exact absurd h0 this
    · intro _; simp [create, checkPeriod]
    · intro _; simp [create]
  · simp only [svcStep, opsOf, h0, if_false, runFrom]
    exact ⟨h.idle, h.running, h.only, h.owned, fun _ => h0⟩

theorem sinv_reqAgain {v : Svc} (h : SInv v) (k : Nat) : SInv (svcStep v (.reqAgain k)).1 := by
  by_cases h0 : v.own = 0
  · have hc := h.idle
    simp only [svcStep, opsOf, h0, if_true, runFrom, step, hc, Option.isSome_none, Bool.false_eq_true, if_false]
    constructor
    · simp [create, hc]
    · simp [create, h.running]
    · intro id hm
      by_cases e : id = v.t.nextId + 1
      · simp [create, e]
      · simp [create, setTm_tm_other _ _ _ _ e] at hm
        have := (h.only id hm).2; exact absurd h0 this
    · intro _; simp [create, checkPeriod]
    · intro _; simp [create]
  · simp only [svcStep, opsOf, h0, if_false, runFrom]
    exact ⟨h.idle, h.running, h.only, h.owned, fun _ => h0⟩

theorem sinv_resp {v : Svc} (h : SInv v) (k : Nat) : SInv (svcStep v (.resp k)).1 := by
  simp only [svcStep, opsOf, runFrom]
  refine ⟨h.idle, h.running, h.only, h.owned, ?_⟩
  intro hne
  apply h.busy
  intro he; apply hne; simp [he]

theorem sinv_expire {v : Svc} (h : SInv v) (x : Nat) : SInv (svcStep v (.expire x)).1 := by
  simp only [svcStep, opsOf, runFrom, step]
  obtain ⟨e1, e2⟩ := expire_misc v.t x
  refine ⟨by rw [e1]; exact h.idle, by rw [e2]; exact h.running, ?_, ?_, h.busy⟩
  · intro id hm; rw [(expire_tm v.t x id).1] at hm; exact h.only id hm
  · intro hn
    obtain ⟨a, b, c, d⟩ := expire_tm v.t x v.own
    simp only at a b c d ⊢
    rw [a, b, c, d, expire_script]; exact h.owned hn

theorem sinv_advance {v : Svc} (h : SInv v) (d : Nat) : SInv (svcStep v (.advance d)).1 := by
  simp only [svcStep, opsOf, runFrom, step]
  exact ⟨h.idle, h.running, h.only, h.owned, h.busy⟩

/-! #### the tick: `Mgr.Do` → `checkExpired` -/

theorem cbSteps_idle (s : State) (tr : List Event) (n : Nat) (h : s.cur = none) :
    runFrom s tr (List.replicate n .cbStep) = (s, tr) := by
  induction n with
  | zero => rfl
  | succ n ih => rw [runFrom_replicate_succ]; simp [step, cbStep, h, ih]

/-- nothing queued: the receive does not happen -/
theorem tick_nil {v : Svc} (hc : v.t.cur = none) (hq : v.t.queue = []) :
    runFrom v.t [] (opsOf v .tick) = (v.t.setScript 1 (body v), []) := by
  simp only [opsOf, runFrom, step, doNext]
  simp [hc, hq, cbSteps_idle]

/-- a cancelled object at the head: received and skipped -/
theorem tick_skip {v : Svc} {hd : Nat} {tl : List Nat} (hc : v.t.cur = none) (hq : v.t.queue = hd :: tl)
    (hcc : (v.t.tm hd).cancelled = true) :
    runFrom v.t [] (opsOf v .tick) = ((v.t.setScript 1 (body v)).pop 0, []) := by
  simp only [opsOf, runFrom, step, doNext]
  simp [hc, hq, hcc, cbSteps_idle]

/-- the owned timer fires and the request table is empty: `freeTimer` -/
theorem tick_free {v : Svc} {tl : List Nat} (hc : v.t.cur = none) (hq : v.t.queue = v.own :: tl)
    (hcc : (v.t.tm v.own).cancelled = false) (hs : (v.t.tm v.own).script = 1) (hm : (v.t.tm v.own).inMap = true)
    (hl : (v.t.tm v.own).live = true) (hp : v.pending.isEmpty = true) :
    runFrom v.t [] (opsOf v .tick) =
      ((((v.t.setScript 1 (body v)).pop 0).setTm v.own { v.t.tm v.own with cancelled := true, armed := false, inMap := false }).setCur none,
       [Event.cb v.own v.t.now (v.t.tm v.own).args, Event.cancel v.own v.t.now]) := by
  simp only [opsOf, body, hp, if_true, runFrom, step, doNext, List.length_singleton, List.replicate]
  simp [hc, hq, hcc, hs, hm, hl, cbStep, cancelTm, finish, State.setScript, State.pop, State.setCur, State.setTm]

/-- the owned timer fires and requests are outstanding: `Do` re-arms it -/
theorem tick_keep {v : Svc} {tl : List Nat} (hc : v.t.cur = none) (hq : v.t.queue = v.own :: tl)
    (hcc : (v.t.tm v.own).cancelled = false) (hs : (v.t.tm v.own).script = 1) (hper : (v.t.tm v.own).period = checkPeriod)
    (hp : v.pending.isEmpty = false) :
    runFrom v.t [] (opsOf v .tick) =
      ((((v.t.setScript 1 (body v)).pop 0).setCur none).setTm v.own { v.t.tm v.own with armed := true, exp := v.t.now + checkPeriod },
       [Event.cb v.own v.t.now (v.t.tm v.own).args, Event.rearm v.own v.t.now checkPeriod]) := by
  simp only [opsOf, body, hp, Bool.false_eq_true, if_false, runFrom, step, doNext, List.length_nil, List.replicate]
  simp [hc, hq, hcc, hs, hper, cbStep, finish, State.setScript, State.pop, State.setCur, State.setTm, checkPeriod]

/-- what the consumer receives un-cancelled is the timer the service owns -/
theorem head_is_own {v : Svc} (h : SInv v) (hw : WF v.t) {hd : Nat} {tl : List Nat} (hq : v.t.queue = hd :: tl)
    (hcc : (v.t.tm hd).cancelled = false) : hd = v.own ∧ v.own ≠ 0 := by
  have hmem : hd ∈ v.t.queue := by rw [hq]; simp
  have hl := live_of_queued hw hmem
  cases hm : (v.t.tm hd).inMap with
  | true => exact h.only hd hm
  | false =>
    rcases hw.gone hd hl hm with h1 | ⟨_, h2, _⟩
    · simp [hcc] at h1
    · exact absurd hmem h2

theorem sinv_tick {v : Svc} (h : SInv v) (hw : WF v.t) : SInv (svcStep v .tick).1 := by
  have hc := h.idle
  cases hq : v.t.queue with
  | nil =>
    have he : entered v = false := by simp [entered, hq]
    simp only [svcStep, he, tick_nil hc hq]
    exact ⟨h.idle, h.running, h.only, h.owned, h.busy⟩
  | cons hd tl =>
    cases hcc : (v.t.tm hd).cancelled with
    | true =>
      have he : entered v = false := by simp [entered, hq, hcc]
      simp only [svcStep, he, tick_skip hc hq hcc]
      exact ⟨h.idle, h.running, h.only, h.owned, h.busy⟩
    | false =>
      obtain ⟨hown, hn0⟩ := head_is_own h hw hq hcc
      subst hown
      obtain ⟨om, op, oc, ol, os⟩ := h.owned hn0
      have he : entered v = true := by simp [entered, hq, hcc, hc]
      cases hp : v.pending.isEmpty with
      | true =>
        simp only [svcStep, he, hp, if_true, tick_free hc hq hcc os om ol hp]
        refine ⟨by simp, by simpa using h.running, ?_, by simp, ?_⟩
        · intro id hm
          by_cases e : id = v.own
          · subst e; simp at hm
          · simp [setTm_tm_other _ _ _ _ e, State.setScript, State.pop] at hm
            exact absurd (h.only id hm).1 e
        · intro hne; simp at hp; exact absurd hp hne
      | false =>
        simp only [svcStep, he, hp, Bool.false_eq_true, if_false, tick_keep hc hq hcc os op hp]
        refine ⟨by simp, by simpa using h.running, ?_, ?_, fun _ => hn0⟩
        · intro id hm
          by_cases e : id = v.own
          · exact ⟨e, hn0⟩
          · simp [setTm_tm_other _ _ _ _ e, State.setScript, State.pop] at hm
            exact h.only id hm
        · intro _; simp [om, op, oc, ol, os]

/-- the busy tick in full: requests are outstanding and the loop receives a live object — it is
the owned timer; `checkExpired` drops the entries whose deadline has passed, their completion
callbacks add the follow-up requests, no timer is armed from inside the callback
(`tryStartCheckTimer` finds `timerCheckExpired > 0`), `Do` re-arms the owned timer -/
theorem tick_busy {v : Svc} (h : SInv v) (hw : WF v.t) (he : entered v = true) (hp : v.pending.isEmpty = false) :
    (svcStep v .tick).1.own = v.own ∧ v.own ≠ 0 ∧
    (svcStep v .tick).1.pending = (v.pending.filter fun p => !(decide (p.2 < v.t.now))) ++ followUps v ∧
    (svcStep v .tick).2 = [Event.cb v.own v.t.now (v.t.tm v.own).args, Event.rearm v.own v.t.now checkPeriod] ∧
    ((svcStep v .tick).1.t.tm v.own).armed = true ∧ ((svcStep v .tick).1.t.tm v.own).exp = v.t.now + checkPeriod := by
  have hc := h.idle
  cases hq : v.t.queue with
  | nil => simp [entered, hq] at he
  | cons hd tl =>
    cases hcc : (v.t.tm hd).cancelled with
    | true => simp [entered, hq, hcc] at he
    | false =>
      obtain ⟨hown, hn0⟩ := head_is_own h hw hq hcc
      subst hown
      obtain ⟨om, op, oc, ol, os⟩ := h.owned hn0
      simp only [svcStep, he, hp, Bool.false_eq_true, if_false, tick_keep hc hq hcc os op hp]
      simp [hn0]

/-- the events of a tick, whatever the state of the service: nothing, or the owned timer's
callback followed by its cancellation (idle) or by its re-arming (busy) — never a `created` -/
theorem tick_events {v : Svc} (h : SInv v) (hw : WF v.t) :
    (svcStep v .tick).2 = [] ∨
    (svcStep v .tick).2 = [Event.cb v.own v.t.now (v.t.tm v.own).args, Event.cancel v.own v.t.now] ∨
    (svcStep v .tick).2 = [Event.cb v.own v.t.now (v.t.tm v.own).args, Event.rearm v.own v.t.now checkPeriod] := by
  have hc := h.idle
  cases hq : v.t.queue with
  | nil =>
    have he : entered v = false := by simp [entered, hq]
    left; simp only [svcStep, he, tick_nil hc hq]; rfl
  | cons hd tl =>
    cases hcc : (v.t.tm hd).cancelled with
    | true =>
      have he : entered v = false := by simp [entered, hq, hcc]
      left; simp only [svcStep, he, tick_skip hc hq hcc]; rfl
    | false =>
      obtain ⟨hown, hn0⟩ := head_is_own h hw hq hcc
      subst hown
      obtain ⟨om, op, oc, ol, os⟩ := h.owned hn0
      have he : entered v = true := by simp [entered, hq, hcc, hc]
      cases hp : v.pending.isEmpty with
      | true =>
        right; left
        simp [svcStep, he, hp, tick_free hc hq hcc os om ol hp]
      | false =>
        right; right
        simp [svcStep, he, hp, tick_keep hc hq hcc os op hp]

theorem sinv_step {v : Svc} (h : SInv v) (hw : WF v.t) (op : SOp) : SInv (svcStep v op).1 := by
  cases op with
  | req k => exact sinv_req h k
  | reqAgain k => exact sinv_reqAgain h k
  | resp k => exact sinv_resp h k
  | tick => exact sinv_tick h hw
  | expire x => exact sinv_expire h x
  | advance d => exact sinv_advance h d

/-- the timer invariant along a service history -/
theorem inv_svcStep {v : Svc} {tr : List Event} (h : Inv v.t tr) (op : SOp) :
    Inv (svcStep v op).1.t (tr ++ (svcStep v op).2) := by
  rw [(svcStep_t v op).1, (svcStep_t v op).2, ← (runFrom_split v.t tr _).1, ← (runFrom_split v.t tr _).2]
  exact inv_runFrom h _

theorem sinv_runFrom {v : Svc} {tr : List Event} (h : SInv v) (hi : Inv v.t tr) (sops : List SOp) :
    SInv (svcRunFrom v tr sops).1 ∧ Inv (svcRunFrom v tr sops).1.t (svcRunFrom v tr sops).2 := by
  induction sops generalizing v tr with
  | nil => exact ⟨h, hi⟩
  | cons op sops ih => exact ih (sinv_step h hi.wf op) (inv_svcStep hi op)

theorem sinv_run (sops : List SOp) : SInv (svcRun sops).1 ∧ Inv (svcRun sops).1.t (svcRun sops).2 :=
  sinv_runFrom sinv_init inv_init sops

/-! ### the owned check timer is due within one period

`exp` of the owned timer is set by `create` (`now + 1 s`) and by the tail of `Do` (`now + 1 s`) only;
time only moves forward: the runtime timer of the owned check timer is never set for an instant more
than one period ahead.  Together with `SInv.busy` / `Hist.alive`: an outstanding request is looked at
within one period (plus the loop's drain). -/

def DueSoon (v : Svc) : Prop := v.own ≠ 0 → (v.t.tm v.own).exp ≤ v.t.now + checkPeriod

theorem expire_exp (s : State) (x j : Nat) :
    ((expire s x).1.tm j).exp = (s.tm j).exp ∧ (expire s x).1.now = s.now := by
  unfold expire
  by_cases e : j = x
  · subst e; split <;> (try split) <;> (try split) <;> simp [State.setTm, State.push, upd]
  · split <;> (try split) <;> (try split) <;> simp [State.setTm, State.push, upd, e]

theorem due_step {v : Svc} (h : SInv v) (hw : WF v.t) (hdu : DueSoon v) (op : SOp) : DueSoon (svcStep v op).1 := by
  cases op with
  | req k =>
    by_cases h0 : v.own = 0
    · have hc := h.idle
      simp only [DueSoon, svcStep, opsOf, h0, if_true, runFrom, step, hc, Option.isSome_none, Bool.false_eq_true, if_false]
      intro _; simp [create, checkPeriod, State.alloc, State.setTm, upd]
    · simp only [DueSoon, svcStep, opsOf, h0, if_false, runFrom]; exact hdu
  | reqAgain k =>
    by_cases h0 : v.own = 0
    · have hc := h.idle
      simp only [DueSoon, svcStep, opsOf, h0, if_true, runFrom, step, hc, Option.isSome_none, Bool.false_eq_true, if_false]
      intro _; simp [create, checkPeriod, State.alloc, State.setTm, upd]
    · simp only [DueSoon, svcStep, opsOf, h0, if_false, runFrom]; exact hdu
  | resp k => simp only [DueSoon, svcStep, opsOf, runFrom]; exact hdu
  | expire x =>
    simp only [DueSoon, svcStep, opsOf, runFrom, step]
    intro hn; rw [(expire_exp v.t x v.own).1, (expire_exp v.t x v.own).2]; exact hdu hn
  | advance d =>
    simp only [DueSoon, svcStep, opsOf, runFrom, step]
    intro hn; have := hdu hn; simp only [State.tick]; omega
  | tick =>
    have hc := h.idle
    cases hq : v.t.queue with
    | nil =>
      have he : entered v = false := by simp [entered, hq]
      simp only [DueSoon, svcStep, he, tick_nil hc hq]
      exact hdu
    | cons hd tl =>
      cases hcc : (v.t.tm hd).cancelled with
      | true =>
        have he : entered v = false := by simp [entered, hq, hcc]
        simp only [DueSoon, svcStep, he, tick_skip hc hq hcc]
        exact hdu
      | false =>
        obtain ⟨hown, hn0⟩ := head_is_own h hw hq hcc
        subst hown
        obtain ⟨om, op, oc, ol, os⟩ := h.owned hn0
        have he : entered v = true := by simp [entered, hq, hcc, hc]
        cases hp : v.pending.isEmpty with
        | true =>
          simp only [DueSoon, svcStep, he, hp, if_true, tick_free hc hq hcc os om ol hp]
          intro hne; simp at hne
        | false =>
          simp only [DueSoon, svcStep, he, hp, Bool.false_eq_true, if_false, tick_keep hc hq hcc os op hp]
          intro _; simp [State.setTm, State.setCur, State.pop, State.setScript, upd]

theorem due_runFrom {v : Svc} {tr : List Event} (h : SInv v) (hi : Inv v.t tr) (hdu : DueSoon v) (sops : List SOp) :
    DueSoon (svcRunFrom v tr sops).1 := by
  induction sops generalizing v tr with
  | nil => exact hdu
  | cons op sops ih => exact ih (sinv_step h hi.wf op) (inv_svcStep hi op) (due_step h hi.wf hdu op)

theorem due_run (sops : List SOp) : DueSoon (svcRun sops).1 :=
  due_runFrom sinv_init inv_init (fun h => absurd rfl h) sops

end Cell2v.TimerSvc
