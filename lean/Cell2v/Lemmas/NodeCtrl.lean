import Cell2v.Model.NodeCtrl
/-!
C12 — helper lemmas about the retirement controller model: per-step facts that hold in
*every* state, their lifting to histories, and the invariant `RInv` that relates a
reachable state to the history that produced it.
-/
namespace Cell2v.NodeCtrl
set_option linter.unusedSimpArgs false

/-! ### small facts -/

theorem covers_iff (n : Nat) (l : List Nat) : covers n l = true ↔ ∀ i, i < n → i ∈ l := by
  simp [covers, List.all_eq_true]

@[simp] theorem pubRanks_nil : pubRanks [] = [] := rfl
@[simp] theorem pubRanks_pub (x : NS) (es : List Evt) : pubRanks (.pub x :: es) = x.rank :: pubRanks es := rfl
@[simp] theorem pubRanks_stop (es : List Evt) : pubRanks (.stopNode :: es) = pubRanks es := rfl
@[simp] theorem pubRanks_send (i : Nat) (c : SCmd) (es : List Evt) : pubRanks (.send i c :: es) = pubRanks es := rfl
@[simp] theorem pubRanks_reply (r : Reply) (es : List Evt) : pubRanks (.reply r :: es) = pubRanks es := rfl
@[simp] theorem stops_nil : stops [] = 0 := rfl
@[simp] theorem stops_pub (x : NS) (es : List Evt) : stops (.pub x :: es) = stops es := by simp [stops]
@[simp] theorem stops_stop (es : List Evt) : stops (.stopNode :: es) = stops es + 1 := by simp [stops]
@[simp] theorem stops_send (i : Nat) (c : SCmd) (es : List Evt) : stops (.send i c :: es) = stops es := by simp [stops]
@[simp] theorem stops_reply (r : Reply) (es : List Evt) : stops (.reply r :: es) = stops es := by simp [stops]

@[simp] theorem pubRanks_append (a b : List Evt) : pubRanks (a ++ b) = pubRanks a ++ pubRanks b := by
  simp [pubRanks, List.filterMap_append]

@[simp] theorem stops_append (a b : List Evt) : stops (a ++ b) = stops a + stops b := by
  simp [stops, List.countP_append]

@[simp] theorem pubRanks_tellAll (c : SCmd) (n : Nat) (u : List Nat) : pubRanks (tellAll c n u) = [] := by
  unfold tellAll
  induction (List.filter (fun i => !u.contains i) (List.range n)) with
  | nil => rfl
  | cons a l ih => simpa using ih

@[simp] theorem stops_tellAll (c : SCmd) (n : Nat) (u : List Nat) : stops (tellAll c n u) = 0 := by
  unfold tellAll
  induction (List.filter (fun i => !u.contains i) (List.range n)) with
  | nil => rfl
  | cons a l ih => simpa using ih

theorem mem_tellAll (c : SCmd) (n : Nat) (u : List Nat) (i : Nat) (hi : i < n) (hr : i ∉ u) :
    Evt.send i c ∈ tellAll c n u := by
  simp only [tellAll, List.mem_map, List.mem_filter, List.mem_range]
  exact ⟨i, ⟨hi, by simpa using hr⟩, rfl⟩

/-- 1 if `StopNode` has necessarily been called already (the node is exiting or exited) -/
def stopBudget (s : St) : Nat := if 4 ≤ s.st.rank then 1 else 0

/-! ### per-step facts (any state) -/

theorem step_kinds (f : Bool) (s : St) (o : Op) : (step f s o).1.kinds = s.kinds := by
  cases o with
  | cmd c => cases c <;> simp only [step, retireCmd, exitCmd, webRetireCmd, webExitCmd] <;> (repeat' split) <;> rfl
  | qack i ok => simp only [step, queryAck]; (repeat' split) <;> rfl
  | svcRetired i => simp only [step, serviceRetired]; (repeat' split) <;> rfl
  | svcOther i => rfl
  | stopDone b => simp only [step, stopDone]; (repeat' split) <;> rfl
  | tick => rfl
  | setRes i up => rfl

theorem step_mode (f : Bool) (s : St) (o : Op) : (step f s o).1.stopMode = s.stopMode := by
  cases o with
  | cmd c => cases c <;> simp only [step, retireCmd, exitCmd, webRetireCmd, webExitCmd] <;> (repeat' split) <;> rfl
  | qack i ok => simp only [step, queryAck]; (repeat' split) <;> rfl
  | svcRetired i => simp only [step, serviceRetired]; (repeat' split) <;> rfl
  | svcOther i => rfl
  | stopDone b => simp only [step, stopDone]; (repeat' split) <;> rfl
  | tick => rfl
  | setRes i up => rfl

/-- unfold one step in a state whose `st` is a constructor -/
macro "nc_unfold" : tactic =>
  `(tactic| simp only [step, retireCmd, exitCmd, webRetireCmd, webExitCmd, queryAck, serviceRetired, stopDone])

theorem step_rank_le (s : St) (o : Op) : s.st.rank ≤ (step true s o).1.st.rank := by
  obtain ⟨st, kinds, qpend, support, retired, allSup, stopPend, stopMode, unres⟩ := s
  cases o with
  | cmd c => cases c <;> cases st <;> nc_unfold <;> (repeat' split) <;> simp_all [NS.rank]
  | qack i ok => nc_unfold; (repeat' split) <;> simp
  | svcRetired i => cases st <;> nc_unfold <;> (repeat' split) <;> simp_all [NS.rank]
  | svcOther i => simp [step]
  | stopDone b => cases st <;> nc_unfold <;> (repeat' split) <;> simp_all [NS.rank]
  | tick => simp [step]
  | setRes i up => simp [step]

/-- a step publishes nothing and keeps the state, or publishes exactly the new state, or (an
exit whose StopNode completes inline with success) publishes exiting then exited from retired -/
theorem step_pubs (s : St) (o : Op) :
    (pubRanks (step true s o).2 = [] ∧ (step true s o).1.st = s.st) ∨
    pubRanks (step true s o).2 = [(step true s o).1.st.rank] ∨
    (pubRanks (step true s o).2 = [4, 5] ∧ (step true s o).1.st = .exited ∧ s.st = .retired) := by
  cases o with
  | cmd c => cases c <;> nc_unfold <;> (repeat' split) <;> simp_all [NS.rank]
  | qack i ok => nc_unfold; (repeat' split) <;> simp
  | svcRetired i => nc_unfold; (repeat' split) <;> simp
  | svcOther i => simp [step]
  | stopDone b => nc_unfold; (repeat' split) <;> simp
  | tick => simp [step]
  | setRes i up => simp [step]

theorem step_stops (s : St) (o : Op) :
    stops (step true s o).2 + stopBudget s ≤ stopBudget (step true s o).1 := by
  obtain ⟨st, kinds, qpend, support, retired, allSup, stopPend, stopMode, unres⟩ := s
  cases o with
  | cmd c => cases c <;> cases st <;> nc_unfold <;> (repeat' split) <;> simp_all [NS.rank, stopBudget]
  | qack i ok => nc_unfold; (repeat' split) <;> simp [stopBudget]
  | svcRetired i => cases st <;> nc_unfold <;> (repeat' split) <;> simp_all [NS.rank, stopBudget]
  | svcOther i => simp only [step, stops_reply, stops_nil, Nat.zero_add]; exact Nat.le_refl _
  | stopDone b => cases st <;> nc_unfold <;> (repeat' split) <;> simp_all [NS.rank, stopBudget]
  | tick => simp only [step, stops_nil, Nat.zero_add]; exact Nat.le_refl _
  | setRes i up => simp only [step, stops_nil, Nat.zero_add]; exact Nat.le_refl _

/-! ### histories -/

theorem run_append (f : Bool) (s : St) (a b : List Op) :
    run f s (a ++ b) = ((run f (run f s a).1 b).1, (run f s a).2 ++ (run f (run f s a).1 b).2) := by
  induction a generalizing s with
  | nil => simp [run]
  | cons o os ih => simp [run, ih, List.append_assoc]

theorem run_kinds (f : Bool) (s : St) (ops : List Op) : (run f s ops).1.kinds = s.kinds := by
  induction ops generalizing s with
  | nil => rfl
  | cons o os ih => simp [run, ih, step_kinds]

theorem run_mode (f : Bool) (s : St) (ops : List Op) : (run f s ops).1.stopMode = s.stopMode := by
  induction ops generalizing s with
  | nil => rfl
  | cons o os ih => simp [run, ih, step_mode]

theorem run_rank_le (s : St) (ops : List Op) : s.st.rank ≤ (run true s ops).1.st.rank := by
  induction ops generalizing s with
  | nil => simp [run]
  | cons o os ih => exact Nat.le_trans (step_rank_le s o) (by simpa [run] using ih (step true s o).1)

theorem run_pubs_pairwise (s : St) (ops : List Op) :
    List.Pairwise (· ≤ ·) (s.st.rank :: pubRanks (run true s ops).2) := by
  induction ops generalizing s with
  | nil => simp [run, pubRanks]
  | cons o os ih =>
    have h1 := ih (step true s o).1
    have hle := step_rank_le s o
    simp only [run, pubRanks_append]
    rw [List.pairwise_cons] at h1
    rcases step_pubs s o with ⟨hp, _⟩ | hp | ⟨hp, he, hs⟩
    · rw [hp, List.nil_append, List.pairwise_cons]
      exact ⟨fun x hx => Nat.le_trans hle (h1.1 x hx), h1.2⟩
    · rw [hp, List.pairwise_cons]
      refine ⟨fun x hx => ?_, ?_⟩
      · rcases List.mem_append.mp hx with hx | hx
        · simp at hx; omega
        · exact Nat.le_trans hle (h1.1 x hx)
      · simp only [List.singleton_append, List.pairwise_cons]
        exact ⟨h1.1, h1.2⟩
    · rw [hp]
      rw [he] at h1
      have h5 : ∀ x, x ∈ pubRanks (run true (step true s o).1 os).2 → 5 ≤ x := fun x hx => by
        have := h1.1 x hx; simpa [NS.rank] using this
      have hs3 : s.st.rank = 3 := by rw [hs]; rfl
      simp only [List.cons_append, List.nil_append, List.pairwise_cons, List.mem_cons]
      refine ⟨?_, ?_, ?_, h1.2⟩
      · rintro x (rfl | rfl | hx)
        · omega
        · omega
        · have := h5 x hx; omega
      · rintro x (rfl | hx)
        · omega
        · have := h5 x hx; omega
      · exact h5

theorem run_stops (s : St) (ops : List Op) :
    stops (run true s ops).2 + stopBudget s ≤ stopBudget (run true s ops).1 := by
  induction ops generalizing s with
  | nil => simp [run, stops]
  | cons o os ih =>
    have h1 := ih (step true s o).1
    have h2 := step_stops s o
    simp only [run, stops_append]
    omega

/-! ### the invariant tying a reachable state to its history -/

structure RInv (hist : List Op) (s : St) : Prop where
  sup_all : s.allSup = true → ∀ i, i < s.kinds.length → i ∈ s.support
  sup_decl : ∀ i, i ∈ s.support → Op.qack i true ∈ hist
  reach : ∀ i, (i ∈ s.qpend ∨ i ∈ s.support) → i < s.kinds.length
  ret_hist : ∀ i, i ∈ s.retired ↔ (i < s.kinds.length ∧ Op.svcRetired i ∈ hist)
  st_ret : 3 ≤ s.st.rank → ∀ i, i < s.kinds.length → i ∈ s.retired
  ret_st : 0 < s.kinds.length → (∀ i, i < s.kinds.length → i ∈ s.retired) → 3 ≤ s.st.rank
  stop_rank : 0 < s.stopPend → 4 ≤ s.st.rank
  sup_pos : s.allSup = true → 0 < s.kinds.length
  leave : s.st ≠ .working → 0 < s.kinds.length

theorem RInv.start (kinds : List Kind) (mode : StopMode) : RInv [] (start kinds mode) := by
  refine ⟨?_, ?_, ?_, ?_, ?_, ?_, ?_, ?_, ?_⟩ <;> simp [NodeCtrl.start, NS.rank]
  · intro i hi _; exact hi
  · intro h; exact ⟨0, h⟩

theorem mem_snoc_of_mem {α} {a : α} {l : List α} (b : α) (h : a ∈ l) : a ∈ l ++ [b] :=
  List.mem_append_left _ h

/-- an operation that is not `svcRetired i` does not change whether `svcRetired i` is in the history -/
theorem svcRetired_mem_snoc (hist : List Op) (o : Op) (i : Nat) (h : o ≠ .svcRetired i) :
    Op.svcRetired i ∈ hist ++ [o] ↔ Op.svcRetired i ∈ hist := by
  simp only [List.mem_append, List.mem_singleton]
  constructor
  · rintro (h1 | h1)
    · exact h1
    · exact absurd h1.symm h
  · exact Or.inl

/-- state unchanged except for fields the invariant does not mention / only `st` moved forward
within the same side of the `retired` threshold: used for all the "nothing happens" cases -/
theorem RInv.snoc_same {hist : List Op} {s : St} (h : RInv hist s) (o : Op)
    (ho : ∀ i, o ≠ .svcRetired i) : RInv (hist ++ [o]) s :=
  { sup_all := h.sup_all
    sup_decl := fun i hi => mem_snoc_of_mem _ (h.sup_decl i hi)
    reach := h.reach
    ret_hist := fun i => by rw [svcRetired_mem_snoc hist o i (ho i)]; exact h.ret_hist i
    st_ret := h.st_ret
    ret_st := h.ret_st
    stop_rank := h.stop_rank
    sup_pos := h.sup_pos
    leave := h.leave }

theorem RInv.step {hist : List Op} {s : St} (h : RInv hist s) (o : Op) :
    RInv (hist ++ [o]) (step true s o).1 := by
  cases o with
  | cmd c =>
    have hs := h.snoc_same (.cmd c) (by intro i; simp)
    obtain ⟨st, kinds, qpend, support, retired, allSup, stopPend, stopMode, unres⟩ := s
    cases c <;> cases st <;> nc_unfold <;> (repeat' split) <;> (try exact hs) <;>
      (obtain ⟨h1, h2, h3, h4, h5, h6, h7, h8, h9⟩ := hs
       refine ⟨?_, ?_, ?_, ?_, ?_, ?_, ?_, ?_, ?_⟩ <;> simp_all [NS.rank])
  | qack i ok =>
    have hs := h.snoc_same (.qack i ok) (by intro i; simp)
    obtain ⟨st, kinds, qpend, support, retired, allSup, stopPend, stopMode, unres⟩ := s
    nc_unfold
    split
    · exact hs
    · rename_i hq
      have hq' : i ∈ qpend := by simpa using hq
      obtain ⟨h1, h2, h3, h4, h5, h6, h7, h8, h9⟩ := hs
      simp only at h1 h2 h3 h4 h5 h6 h7 h8 h9
      split
      · rename_i hok
        subst hok
        have hpos : 0 < kinds.length := Nat.lt_of_le_of_lt (Nat.zero_le _) (h3 i (Or.inl hq'))
        refine ⟨?_, ?_, ?_, h4, h5, h6, h7, fun _ => hpos, h9⟩
        · intro ha; simpa [covers_iff] using ha
        · intro j hj
          rcases List.mem_cons.mp hj with rfl | hj
          · simp
          · exact h2 j hj
        · intro j hj
          rcases hj with hj | hj
          · exact h3 j (Or.inl (List.mem_filter.mp hj).1)
          · rcases List.mem_cons.mp hj with rfl | hj
            · exact h3 _ (Or.inl hq')
            · exact h3 j (Or.inr hj)
      · refine ⟨h1, h2, ?_, h4, h5, h6, h7, h8, h9⟩
        intro j hj
        rcases hj with hj | hj
        · exact h3 j (Or.inl (List.mem_filter.mp hj).1)
        · exact h3 j (Or.inr hj)
  | svcRetired i =>
    obtain ⟨st, kinds, qpend, support, retired, allSup, stopPend, stopMode, unres⟩ := s
    obtain ⟨h1, h2, h3, h4, h5, h6, h7, h8, h9⟩ := h
    simp only at h1 h2 h3 h4 h5 h6 h7 h8 h9
    have hist_iff : ∀ j, j ≠ i → (Op.svcRetired j ∈ hist ++ [Op.svcRetired i] ↔ Op.svcRetired j ∈ hist) :=
      fun j hj => svcRetired_mem_snoc hist _ j (by intro e; injection e with e; exact hj e.symm)
    nc_unfold
    split
    · rename_i hi
      -- membership in the new retired set, in terms of the new history
      have hret : ∀ j, j ∈ i :: retired ↔ (j < kinds.length ∧ Op.svcRetired j ∈ hist ++ [Op.svcRetired i]) := by
        intro j
        by_cases hji : j = i
        · subst hji; simp [hi]
        · rw [hist_iff j hji, ← h4 j]; simp [hji]
      split
      · rename_i hc
        obtain ⟨hcov, _⟩ := hc
        refine ⟨h1, fun j hj => mem_snoc_of_mem _ (h2 j hj), h3, hret, ?_, ?_, ?_, h8,
          fun _ => Nat.lt_of_le_of_lt (Nat.zero_le _) hi⟩
        · intro _; exact (covers_iff _ _).mp hcov
        · intro _ _; simp [NS.rank]
        · intro hp
          have := h7 hp
          rename_i hg
          cases st <;> simp_all [NS.rank]
      · rename_i hc
        refine ⟨h1, fun j hj => mem_snoc_of_mem _ (h2 j hj), h3, hret, ?_, ?_, h7, h8, h9⟩
        · intro hr j hj; exact List.mem_cons_of_mem _ (h5 hr j hj)
        · intro hn hall
          have hcov : covers kinds.length (i :: retired) = true := (covers_iff _ _).mpr hall
          cases st <;> simp_all [NS.rank]
    · rename_i hi
      have hi' : kinds.length ≤ i := Nat.le_of_not_lt hi
      refine ⟨h1, fun j hj => mem_snoc_of_mem _ (h2 j hj), h3, ?_, h5, h6, h7, h8, h9⟩
      intro j
      by_cases hji : j = i
      · subst hji
        constructor
        · intro hj; exact absurd ((h4 j).mp hj).1 hi
        · intro hj; exact absurd hj.1 hi
      · rw [hist_iff j hji]; exact h4 j
  | svcOther i => exact h.snoc_same _ (by intro i; simp)
  | stopDone b =>
    have hs := h.snoc_same (.stopDone b) (by intro i; simp)
    obtain ⟨st, kinds, qpend, support, retired, allSup, stopPend, stopMode, unres⟩ := s
    cases st <;> nc_unfold <;> (repeat' split) <;> (try exact hs) <;>
      (obtain ⟨h1, h2, h3, h4, h5, h6, h7, h8, h9⟩ := hs
       refine ⟨?_, ?_, ?_, ?_, ?_, ?_, ?_, ?_, ?_⟩ <;> simp_all [NS.rank] <;> (try omega))
  | setRes i up =>
    have hs := h.snoc_same (.setRes i up) (by intro i; simp)
    obtain ⟨h1, h2, h3, h4, h5, h6, h7, h8, h9⟩ := hs
    exact ⟨h1, h2, h3, h4, h5, h6, h7, h8, h9⟩
  | tick =>
    have hs := h.snoc_same .tick (by intro i; simp)
    obtain ⟨h1, h2, h3, h4, h5, h6, h7, h8, h9⟩ := hs
    exact ⟨h1, h2, fun j hj => h3 j (by rcases hj with hj | hj <;> simp_all [NodeCtrl.step]), h4, h5, h6, h7, h8, h9⟩

theorem RInv.run {hist : List Op} {s : St} (h : RInv hist s) (ops : List Op) :
    RInv (hist ++ ops) (run true s ops).1 := by
  induction ops generalizing hist s with
  | nil => simpa [NodeCtrl.run] using h
  | cons o os ih =>
    have := ih (h.step o)
    simpa [NodeCtrl.run, List.append_assoc] using this

/-- the state reached by a whole case satisfies the invariant for its full history -/
theorem RInv.exec (kinds : List Kind) (ops : List Op) (mode : StopMode) :
    RInv (history kinds ops) (exec true kinds ops mode).1 := by
  have := (RInv.start kinds mode).run (history kinds ops)
  simpa [NodeCtrl.exec] using this

theorem exec_kinds (f : Bool) (kinds : List Kind) (ops : List Op) (mode : StopMode) :
    (exec f kinds ops mode).1.kinds = kinds := by
  simp [exec, run_kinds, start]

theorem exec_mode (f : Bool) (kinds : List Kind) (ops : List Op) (mode : StopMode) :
    (exec f kinds ops mode).1.stopMode = mode := by
  simp [exec, run_mode, start]

/-- the driver threads the state from `boot`: that computes `exec` -/
theorem exec_eq_boot_run (f : Bool) (kinds : List Kind) (ops : List Op) (mode : StopMode) :
    exec f kinds ops mode =
      ((run f (boot f kinds mode).1 ops).1, (boot f kinds mode).2 ++ (run f (boot f kinds mode).1 ops).2) := by
  simp [boot, exec, history, run_append, run, List.append_assoc]

/-- the immediate answers to the probe are support answers, never notifications -/
theorem svcRetired_mem_history (kinds : List Kind) (ops : List Op) (i : Nat) :
    Op.svcRetired i ∈ history kinds ops ↔ Op.svcRetired i ∈ ops := by
  have aux : ∀ (l : List Kind) (off : Nat), Op.svcRetired i ∉ autoAcks off l := by
    intro l
    induction l with
    | nil => intro off; simp [autoAcks]
    | cons k rest ih => intro off; cases k <;> simp [autoAcks, ih]
  simp [history, aux]

theorem exec_snoc (f : Bool) (kinds : List Kind) (ops : List Op) (o : Op) (mode : StopMode) :
    exec f kinds (ops ++ [o]) mode =
      ((step f (exec f kinds ops mode).1 o).1,
       (exec f kinds ops mode).2 ++ (step f (exec f kinds ops mode).1 o).2) := by
  simp [exec, history, ← List.append_assoc, run_append, run]

end Cell2v.NodeCtrl
