import Cell2v.Model.EventsOwner
/-! C17 — invariants of the run-service-owned centre (`Model/EventsOwner.lean`) over all action sequences. -/
namespace Cell2v.EventsOwner

theorem enq_log (s : S) (x : Int) : (enq s x).log = s.log := by
  unfold enq; split <;> rfl

theorem enq_flags (s : S) (x : Int) :
    (enq s x).running = s.running ∧ (enq s x).listening = s.listening := by
  unfold enq; split <;> exact ⟨rfl, rfl⟩

/-- only the owner step `recv` adds to the log, and it adds an owner entry -/
theorem act_log (s : S) (a : Act) : (act s a).log = s.log ∨ ∃ x, (act s a).log = (G.owner, x) :: s.log := by
  cases a with
  | gsub => simp only [act]; split <;> exact Or.inl rfl
  | gpub g x => simp only [act]; split; exact Or.inl (enq_log s x); exact Or.inl rfl
  | lpub g x => exact Or.inl (enq_log s x)
  | recv =>
    simp only [act]
    split
    · split
      · split
        · exact Or.inr ⟨_, rfl⟩
        · exact Or.inl rfl
      · exact Or.inl rfl
    · exact Or.inl rfl
  | ret => exact Or.inl rfl
  | stop g => exact Or.inl rfl
  | exit => simp only [act]; split <;> exact Or.inl rfl

theorem run_log_owner (acts : List Act) : ∀ s : S, (∀ p ∈ s.log, p.1 = G.owner) → ∀ p ∈ (run s acts).log, p.1 = G.owner := by
  induction acts with
  | nil => intro s h; exact h
  | cons a as ih =>
    intro s h
    apply ih
    rcases act_log s a with h1 | ⟨x, h1⟩
    · rw [h1]; exact h
    · rw [h1]; intro p hp
      rcases List.mem_cons.mp hp with rfl | hp
      · rfl
      · exact h p hp

/-- once stopped (centre cleared): stays stopped, no listener, the log is frozen -/
theorem act_stopped (s : S) (a : Act) (hr : s.running = false) (hl : s.listening = false) :
    (act s a).running = false ∧ (act s a).listening = false ∧ (act s a).log = s.log := by
  cases a with
  | gsub => simp [act, hr, hl]
  | gpub g x => simp [act, hl, hr]
  | lpub g x => simp only [act]; exact ⟨(enq_flags s x).1.trans hr, (enq_flags s x).2.trans hl, enq_log s x⟩
  | recv =>
    simp only [act]
    split
    · split
      · simp [hr, hl]
      · exact ⟨hr, hl, rfl⟩
    · exact ⟨hr, hl, rfl⟩
  | ret => exact ⟨hr, hl, rfl⟩
  | stop g => exact ⟨rfl, rfl, rfl⟩
  | exit => simp only [act]; split <;> exact ⟨hr, hl, rfl⟩

theorem run_stopped (acts : List Act) : ∀ s : S, s.running = false → s.listening = false →
    (run s acts).running = false ∧ (run s acts).listening = false ∧ (run s acts).log = s.log := by
  induction acts with
  | nil => intro s hr hl; exact ⟨hr, hl, rfl⟩
  | cons a as ih =>
    intro s hr hl
    obtain ⟨h1, h2, h3⟩ := act_stopped s a hr hl
    obtain ⟨k1, k2, k3⟩ := ih (act s a) h1 h2
    exact ⟨k1, k2, k3.trans h3⟩

/-- accepted publications = what the owner took out of the channel so far ++ what still waits, and the listener
saw a subsequence of the former, in order -/
def Fifo (s : S) : Prop := ∃ tk, s.hist = tk ++ s.queue ∧ (delivered s).Sublist tk

theorem enq_fifo (s : S) (x : Int) (h : Fifo s) : Fifo (enq s x) := by
  obtain ⟨tk, h1, h2⟩ := h
  unfold enq; split
  · exact ⟨tk, by simp [h1], h2⟩
  · exact ⟨tk, h1, h2⟩

theorem act_fifo (s : S) (a : Act) (h : Fifo s) : Fifo (act s a) := by
  cases a with
  | gsub => simp only [act]; split <;> exact h
  | gpub g x => simp only [act]; split; exact enq_fifo s x h; exact h
  | lpub g x => exact enq_fifo s x h
  | recv =>
    obtain ⟨tk, h1, h2⟩ := h
    simp only [act]
    split
    · split
      · rename_i x q hq
        split
        · refine ⟨tk ++ [x], by simp [h1, hq], ?_⟩
          simp only [delivered, List.reverse_cons, List.map_append, List.map_cons, List.map_nil]
          exact List.Sublist.append h2 (List.Sublist.refl _)
        · refine ⟨tk ++ [x], by simp [h1, hq], ?_⟩
          exact h2.trans (List.sublist_append_left tk [x])
      · exact ⟨tk, h1, h2⟩
    · exact ⟨tk, h1, h2⟩
  | ret => exact h
  | stop g => exact h
  | exit => simp only [act]; split <;> exact h

theorem run_fifo (acts : List Act) : ∀ s : S, Fifo s → Fifo (run s acts) := by
  induction acts with
  | nil => intro s h; exact h
  | cons a as ih => intro s h; exact ih _ (act_fifo s a h)

theorem act_cap (s : S) (a : Act) (h : s.queue.length ≤ cap) : (act s a).queue.length ≤ cap := by
  have henq : ∀ x, (enq s x).queue.length ≤ cap := by
    intro x; unfold enq; split
    · simp; omega
    · exact h
  cases a with
  | gsub => simp only [act]; split <;> exact h
  | gpub g x => simp only [act]; split; exact henq x; exact h
  | lpub g x => exact henq x
  | recv =>
    simp only [act]
    split
    · split
      · rename_i x q hq
        have : q.length ≤ cap := by rw [hq] at h; simp at h; omega
        split <;> exact this
      · exact h
    · exact h
  | ret => exact h
  | stop g => exact h
  | exit => simp only [act]; split <;> exact h

theorem run_cap (acts : List Act) : ∀ s : S, s.queue.length ≤ cap → (run s acts).queue.length ≤ cap := by
  induction acts with
  | nil => intro s h; exact h
  | cons a as ih => intro s h; exact ih _ (act_cap s a h)

/-- publishers only (any goroutines, any order): the queue takes events until it holds `cap` and drops the rest;
nothing else changes; every publisher's step is total (no publisher waits) -/
theorem run_gpubs (ps : List (G × Int)) : ∀ s : S, s.listening = true → s.queue.length ≤ cap →
    (run s (ps.map (fun p => Act.gpub p.1 p.2))).queue = s.queue ++ (ps.map (·.2)).take (cap - s.queue.length) ∧
    (run s (ps.map (fun p => Act.gpub p.1 p.2))).log = s.log := by
  induction ps with
  | nil => intro s _ _; simp [run]
  | cons p ps ih =>
    intro s hl hc
    simp only [List.map_cons, run, act, hl, if_true]
    by_cases hroom : s.queue.length < cap
    · have he : enq s p.2 = { s with queue := s.queue ++ [p.2], hist := s.hist ++ [p.2] } := by simp [enq, hroom]
      rw [he]
      obtain ⟨h1, h2⟩ := ih { s with queue := s.queue ++ [p.2], hist := s.hist ++ [p.2] } hl (by simp; omega)
      refine ⟨?_, h2⟩
      rw [h1]
      simp only [List.length_append, List.length_cons, List.length_nil, List.append_assoc, List.cons_append, List.nil_append]
      have : cap - s.queue.length = (cap - (s.queue.length + (0 + 1))) + 1 := by omega
      rw [this, List.take_succ_cons]
    · have he : enq s p.2 = s := by simp [enq, hroom]
      rw [he]
      obtain ⟨h1, h2⟩ := ih s hl hc
      refine ⟨?_, h2⟩
      rw [h1]
      have : cap - s.queue.length = 0 := by omega
      simp [this]

end Cell2v.EventsOwner
