import Cell2v.Lemmas.Session
/-! Termination of the session's internal steps: a measure that every step of a thread (reader, writer,
heartbeat, a Close caller) strictly decreases.  Only the environment (input on an open conn, kick, push, the clock)
can add work. -/
namespace Cell2v.Session

/-- work left inside `Close()` for a caller in this phase -/
def cRank : CPh → Nat
  | .out => 0 | .fin => 1 | .locked => 2 | .want => 3

def rdRank : RPc → Nat
  | .done => 0 | .dfr => 1 | .errc => 5
  | .hold (.frame ps) => 13 + ps.length
  | .hold _ => 9
  | .wait => 10 | .top => 11
  | .proc ps => 12 + ps.length

def wrRank : WPc → Nat
  | .done => 0 | .dfr => 1 | .sel => 5 | .inw => 6

def hbRank : HPc → Nat
  | .done => 0 | .sel => 1 | .blk => 4 | .snd => 5 | .chk => 9

/-- ticks of the heartbeat ticker that are due at the current clock -/
def ticksDue (s : St) : Nat := (s.now + 10000 - s.tickAt) / 10000

/-- the work the threads of a session can still do without the environment -/
def work (s : St) : Nat :=
  rdRank s.rd + cRank s.rdC + wrRank s.wr + cRank s.wrC + 2 * s.sendq + hbRank s.hb + cRank s.hbC + 10 * ticksDue s +
  3 * s.kWant + cRank s.kC

/-- the labels of `stuck`: every thread step, and the failing read on a closed conn -/
def Internal (s : St) (l : Lbl) : Prop := l ∈ internalLbls ∨ (l = .rdTake .rerr ∧ s.connCloses > 0)

theorem work_decreases (s s' : St) (l : Lbl) (hi : Internal s l) (hf : fire true s l = some s') : work s' < work s := by
  obtain ⟨status, closed, mutex, cc, posted, sendq, writes, now, lastHb, tickAt, rd, rdC, wr, wrC, hb, hbC, kWant, kC, arrived⟩ := s
  rcases hi with hi | ⟨rfl, _⟩
  · simp only [internalLbls, List.mem_cons, List.mem_nil_iff, or_false] at hi
    rcases hi with rfl | rfl | rfl | rfl | rfl | rfl | rfl | rfl | rfl | rfl | rfl | rfl | rfl | rfl | rfl | rfl | rfl | rfl | rfl | rfl | rfl | rfl | rfl | rfl | rfl | rfl | rfl | rfl <;>
    simp only [fire, rdExit] at hf <;> (repeat' split at hf) <;> (first | cases hf | skip) <;>
    simp_all [work, ticksDue, cRank, rdRank, wrRank, hbRank, hbMs] <;> (try split) <;> omega
  · simp only [fire] at hf
    (repeat' split at hf) <;> (first | cases hf | skip) <;> simp_all [work, ticksDue, cRank, rdRank, wrRank, hbRank]

/-- a run of thread steps only (no input on an open conn, no kick, no push, no clock advance) -/
inductive IRun : St → List Lbl → St → Prop
  | nil (s : St) : IRun s [] s
  | cons {s s1 s' : St} {l : Lbl} {ls : List Lbl} : Internal s l → fire true s l = some s1 → IRun s1 ls s' → IRun s (l :: ls) s'

theorem irun_bound {s s' : St} {ls : List Lbl} (h : IRun s ls s') : work s' + ls.length ≤ work s := by
  induction h with
  | nil s => simp
  | cons hi hf _ ih => have := work_decreases _ _ _ hi hf; simp only [List.length_cons]; omega

theorem irun_runL {s s' : St} {ls : List Lbl} (h : IRun s ls s') : runL true s ls = some s' := by
  induction h with
  | nil s => rfl
  | cons _ hf _ ih => simp only [runL, hf]; exact ih

theorem runL_append (fx : Bool) (l1 l2 : List Lbl) : ∀ (s s1 s2 : St), runL fx s l1 = some s1 → runL fx s1 l2 = some s2 →
    runL fx s (l1 ++ l2) = some s2 := by
  induction l1 with
  | nil => intro s s1 s2 h1 h2; simp [runL] at h1; subst h1; simpa using h2
  | cons l ls ih =>
    intro s s1 s2 h1 h2
    simp only [runL] at h1
    simp only [List.cons_append, runL]
    cases hf : fire fx s l with
    | none => simp [hf] at h1
    | some sa => simp only [hf] at h1 ⊢; exact ih sa s1 s2 h1 h2

/-- a state in which some thread can move has an internal step -/
theorem not_stuck_step (s : St) (h : stuck true s = false) : ∃ l s1, Internal s l ∧ fire true s l = some s1 := by
  simp only [stuck, Bool.and_eq_false_iff] at h
  rcases h with h | h
  · rw [List.all_eq_false] at h
    obtain ⟨l, hl, hn⟩ := h
    cases hf : fire true s l with
    | none => simp [hf] at hn
    | some s1 => exact ⟨l, s1, Or.inl hl, hf⟩
  · simp only [Bool.or_eq_false_iff] at h
    obtain ⟨h1, h2⟩ := h
    cases hf : fire true s (.rdTake .rerr) with
    | none => simp [hf] at h2
    | some s1 =>
      refine ⟨_, s1, Or.inr ⟨rfl, ?_⟩, hf⟩
      have : s.connCloses ≠ 0 := by simpa using h1
      omega

/-- from every state the threads come to rest: some run of thread steps ends in a state where nothing can move -/
theorem exists_irun_to_stuck : ∀ (n : Nat) (s : St), work s ≤ n → ∃ ls s', IRun s ls s' ∧ stuck true s' = true := by
  intro n
  induction n with
  | zero =>
    intro s hw
    cases hs : stuck true s with
    | true => exact ⟨[], s, IRun.nil s, hs⟩
    | false =>
      obtain ⟨l, s1, hi, hf⟩ := not_stuck_step s hs
      have := work_decreases _ _ _ hi hf; omega
  | succ n ih =>
    intro s hw
    cases hs : stuck true s with
    | true => exact ⟨[], s, IRun.nil s, hs⟩
    | false =>
      obtain ⟨l, s1, hi, hf⟩ := not_stuck_step s hs
      have := work_decreases _ _ _ hi hf
      obtain ⟨ls, s', hr, hst⟩ := ih s1 (by omega)
      exact ⟨l :: ls, s', IRun.cons hi hf hr, hst⟩

/-- `Close()` has been called by somebody (or has already run): a kick is pending, or a thread is inside / waiting for Close -/
def Closing (s : St) : Prop :=
  s.closed = true ∨ s.kWant > 0 ∨ s.kC ≠ .out ∨ s.rdC ≠ .out ∨ s.wrC ≠ .out ∨ s.hbC ≠ .out

theorem closing_step (s s' : St) (l : Lbl) (hc : CInv s) (hk : Closing s) (hf : fire true s l = some s') : Closing s' := by
  obtain ⟨status, closed, mutex, cc, posted, sendq, writes, now, lastHb, tickAt, rd, rdC, wr, wrC, hb, hbC, kWant, kC, arrived⟩ := s
  obtain ⟨h1, h2, h3, h4, h5⟩ := hc
  simp only [Closing] at hk
  simp only at h1 h2 h3 h4 h5
  cph_facts
  step_cases <;> simp only [Closing] <;> simp_all <;> (try omega) <;> (cases closed <;> simp_all)

theorem closing_irun {s s' : St} {ls : List Lbl} (h : IRun s ls s') : CInv s → Closing s → Closing s' := by
  induction h with
  | nil s => intro _ hk; exact hk
  | cons _ hf _ ih => intro hc hk; exact ih (cinv_step true _ _ _ hc hf) (closing_step _ _ _ hc hk hf)

end Cell2v.Session
