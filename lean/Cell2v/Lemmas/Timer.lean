import Cell2v.Model.Timer
/-!
Invariants of the timer model and their preservation by every primitive step.
`WF` is about the state alone, `Hist` links the state to the trace recorded so
far, `Good` is the conjunction of the trace properties that the theorems of
`Props/C14.lean` state.
-/
namespace Cell2v.Timer

/-! ### history functions and `++ [e]` -/

theorem snoc_split {α : Type} : ∀ (pre tr : List α) (x e : α) (post : List α),
    tr ++ [x] = pre ++ e :: post →
    (tr = pre ∧ x = e ∧ post = []) ∨ ∃ post', post = post' ++ [x] ∧ tr = pre ++ e :: post' := by
  intro pre
  induction pre with
  | nil =>
    intro tr x e post h
    cases tr with
    | nil => simp at h; left; simp [h]
    | cons t tr' =>
      simp at h
      right; exact ⟨tr', h.2.symm, by simp [h.1]⟩
  | cons p pre' ih =>
    intro tr x e post h
    cases tr with
    | nil => simp at h
    | cons t tr' =>
      simp at h
      rcases ih tr' x e post h.2 with h1 | ⟨post', h1, h2⟩
      · left; simp [h.1, h1]
      · right; exact ⟨post', h1, by simp [h.1, h2]⟩

@[simp] theorem cbCount_nil (id : Nat) : cbCount [] id = 0 := rfl

theorem cbCount_snoc (tr : List Event) (e : Event) (id : Nat) :
    cbCount (tr ++ [e]) id = cbCount tr id + (if e.isCbOf id then 1 else 0) := by
  simp [cbCount, List.countP_append, List.countP_cons]

theorem cancelledIn_snoc (tr : List Event) (e : Event) (id : Nat) :
    cancelledIn (tr ++ [e]) id = (cancelledIn tr id || e.isCancelOf id) := by
  simp [cancelledIn, List.any_append]

theorem lastCb_snoc (tr : List Event) (e : Event) (id : Nat) :
    lastCb (tr ++ [e]) id =
      match e with
      | .cb i t _ => if i = id then some t else lastCb tr id
      | _ => lastCb tr id := by
  induction tr with
  | nil => cases e <;> simp [lastCb] <;> split <;> simp_all
  | cons e0 rest ih =>
    simp only [List.cons_append, lastCb, ih]
    cases e with
    | cb i t a => by_cases h : i = id <;> simp [h]
    | _ => simp

theorem createdOf_snoc (tr : List Event) (e : Event) (id : Nat) :
    createdOf (tr ++ [e]) id =
      match createdOf tr id with
      | some c => some c
      | none => match e with
        | .created i t dl p a => if i = id then some (t, dl, p, a) else none
        | _ => none := by
  induction tr with
  | nil => cases e <;> simp [createdOf]
  | cons e0 rest ih =>
    cases e0 <;> simp only [List.cons_append, createdOf, ih]
    split <;> simp_all

/-! ### state invariant -/

structure WF (s : State) : Prop where
  /-- ids above the allocator have no object -/
  fresh : ∀ id, s.nextId < id → (s.tm id).live = false
  /-- a non-existent object is nowhere -/
  dead : ∀ id, (s.tm id).live = false →
    (s.tm id).armed = false ∧ (s.tm id).inMap = false ∧ (s.tm id).cancelled = false ∧ id ∉ s.queue ∧ s.curId ≠ some id
  /-- a pending runtime timer: not cancelled, known to the manager, neither queued nor running -/
  armedOk : ∀ id, (s.tm id).armed = true →
    (s.tm id).cancelled = false ∧ (s.tm id).inMap = true ∧ id ∉ s.queue ∧ s.curId ≠ some id
  nodup : s.queue.Nodup
  /-- a queued object is not the running one and its instant has come -/
  queueOk : ∀ id, id ∈ s.queue → s.curId ≠ some id ∧ (s.tm id).exp ≤ s.now
  /-- forgotten by the manager: cancelled, or a one-shot that is completely done -/
  gone : ∀ id, (s.tm id).live = true → (s.tm id).inMap = false →
    (s.tm id).cancelled = true ∨ ((s.tm id).period = 0 ∧ id ∉ s.queue ∧ s.curId ≠ some id)

theorem wf_init : WF init := by
  constructor <;> simp [init, State.curId]

/-! projections of the atomic mutations -/
section proj
variable (s : State) (x i d k : Nat) (t : Tm) (c : Option (Nat × List Act)) (acts : List Act)

@[simp] theorem upd_same (f : Nat → Tm) : upd f x t x = t := by simp [upd]
theorem upd_other (f : Nat → Tm) (j : Nat) (h : j ≠ x) : upd f x t j = f j := by simp [upd, h]

@[simp] theorem setTm_tm_same : (s.setTm x t).tm x = t := by simp [State.setTm]
theorem setTm_tm_other (j : Nat) (h : j ≠ x) : (s.setTm x t).tm j = s.tm j := by simp [State.setTm, upd, h]
@[simp] theorem setTm_now : (s.setTm x t).now = s.now := rfl
@[simp] theorem setTm_nextId : (s.setTm x t).nextId = s.nextId := rfl
@[simp] theorem setTm_running : (s.setTm x t).running = s.running := rfl
@[simp] theorem setTm_queue : (s.setTm x t).queue = s.queue := rfl
@[simp] theorem setTm_cur : (s.setTm x t).cur = s.cur := rfl
@[simp] theorem setTm_curId : (s.setTm x t).curId = s.curId := rfl
@[simp] theorem setTm_scripts : (s.setTm x t).scripts = s.scripts := rfl

@[simp] theorem push_tm : (s.push x).tm = s.tm := rfl
@[simp] theorem push_now : (s.push x).now = s.now := rfl
@[simp] theorem push_nextId : (s.push x).nextId = s.nextId := rfl
@[simp] theorem push_running : (s.push x).running = s.running := rfl
@[simp] theorem push_queue : (s.push x).queue = s.queue ++ [x] := rfl
@[simp] theorem push_cur : (s.push x).cur = s.cur := rfl
@[simp] theorem push_curId : (s.push x).curId = s.curId := rfl
@[simp] theorem push_scripts : (s.push x).scripts = s.scripts := rfl

@[simp] theorem pop_tm : (s.pop i).tm = s.tm := rfl
@[simp] theorem pop_now : (s.pop i).now = s.now := rfl
@[simp] theorem pop_nextId : (s.pop i).nextId = s.nextId := rfl
@[simp] theorem pop_running : (s.pop i).running = s.running := rfl
@[simp] theorem pop_queue : (s.pop i).queue = s.queue.eraseIdx i := rfl
@[simp] theorem pop_cur : (s.pop i).cur = s.cur := rfl
@[simp] theorem pop_curId : (s.pop i).curId = s.curId := rfl
@[simp] theorem pop_scripts : (s.pop i).scripts = s.scripts := rfl

@[simp] theorem setCur_tm : (s.setCur c).tm = s.tm := rfl
@[simp] theorem setCur_now : (s.setCur c).now = s.now := rfl
@[simp] theorem setCur_nextId : (s.setCur c).nextId = s.nextId := rfl
@[simp] theorem setCur_running : (s.setCur c).running = s.running := rfl
@[simp] theorem setCur_queue : (s.setCur c).queue = s.queue := rfl
@[simp] theorem setCur_cur : (s.setCur c).cur = c := rfl
@[simp] theorem setCur_curId : (s.setCur c).curId = c.map (·.1) := rfl
@[simp] theorem setCur_scripts : (s.setCur c).scripts = s.scripts := rfl

@[simp] theorem alloc_tm : s.alloc.tm = s.tm := rfl
@[simp] theorem alloc_now : s.alloc.now = s.now := rfl
@[simp] theorem alloc_nextId : s.alloc.nextId = s.nextId + 1 := rfl
@[simp] theorem alloc_running : s.alloc.running = s.running := rfl
@[simp] theorem alloc_queue : s.alloc.queue = s.queue := rfl
@[simp] theorem alloc_cur : s.alloc.cur = s.cur := rfl
@[simp] theorem alloc_curId : s.alloc.curId = s.curId := rfl
@[simp] theorem alloc_scripts : s.alloc.scripts = s.scripts := rfl

@[simp] theorem tick_tm : (s.tick d).tm = s.tm := rfl
@[simp] theorem tick_now : (s.tick d).now = s.now + d := rfl
@[simp] theorem tick_nextId : (s.tick d).nextId = s.nextId := rfl
@[simp] theorem tick_running : (s.tick d).running = s.running := rfl
@[simp] theorem tick_queue : (s.tick d).queue = s.queue := rfl
@[simp] theorem tick_cur : (s.tick d).cur = s.cur := rfl
@[simp] theorem tick_curId : (s.tick d).curId = s.curId := rfl

@[simp] theorem halt_tm : s.halt.tm = s.tm := rfl
@[simp] theorem halt_now : s.halt.now = s.now := rfl
@[simp] theorem halt_nextId : s.halt.nextId = s.nextId := rfl
@[simp] theorem halt_running : s.halt.running = false := rfl
@[simp] theorem halt_queue : s.halt.queue = s.queue := rfl
@[simp] theorem halt_cur : s.halt.cur = s.cur := rfl
@[simp] theorem halt_curId : s.halt.curId = s.curId := rfl

@[simp] theorem setScript_tm : (s.setScript k acts).tm = s.tm := rfl
@[simp] theorem setScript_now : (s.setScript k acts).now = s.now := rfl
@[simp] theorem setScript_nextId : (s.setScript k acts).nextId = s.nextId := rfl
@[simp] theorem setScript_running : (s.setScript k acts).running = s.running := rfl
@[simp] theorem setScript_queue : (s.setScript k acts).queue = s.queue := rfl
@[simp] theorem setScript_cur : (s.setScript k acts).cur = s.cur := rfl
@[simp] theorem setScript_curId : (s.setScript k acts).curId = s.curId := rfl
end proj

theorem live_of_armed {s : State} (h : WF s) {x : Nat} (ha : (s.tm x).armed = true) : (s.tm x).live = true := by
  cases hl : (s.tm x).live with
  | true => rfl
  | false => have := (h.dead x hl).1; simp_all

theorem live_of_inMap {s : State} (h : WF s) {x : Nat} (ha : (s.tm x).inMap = true) : (s.tm x).live = true := by
  cases hl : (s.tm x).live with
  | true => rfl
  | false => have := (h.dead x hl).2.1; simp_all

theorem live_of_queued {s : State} (h : WF s) {x : Nat} (hq : x ∈ s.queue) : (s.tm x).live = true := by
  cases hl : (s.tm x).live with
  | true => rfl
  | false => exact absurd hq (h.dead x hl).2.2.2.1

theorem live_of_cur {s : State} (h : WF s) {x : Nat} (hc : s.curId = some x) : (s.tm x).live = true := by
  cases hl : (s.tm x).live with
  | true => rfl
  | false => exact absurd hc (h.dead x hl).2.2.2.2

theorem le_nextId_of_live {s : State} (h : WF s) {x : Nat} (hl : (s.tm x).live = true) : x ≤ s.nextId := by
  apply Nat.le_of_not_lt
  intro hlt
  have := h.fresh x hlt
  simp_all

/-- replacing one object by a live one that respects the local conditions -/
theorem wf_setTm {s : State} (h : WF s) (x : Nat) (t : Tm)
    (c1 : t.live = true) (c1' : x ≤ s.nextId)
    (c2 : t.armed = true → t.cancelled = false ∧ t.inMap = true ∧ x ∉ s.queue ∧ s.curId ≠ some x)
    (c3 : x ∈ s.queue → t.exp ≤ s.now)
    (c4 : t.inMap = false → t.cancelled = true ∨ (t.period = 0 ∧ x ∉ s.queue ∧ s.curId ≠ some x)) :
    WF (s.setTm x t) := by
  constructor
  · intro id hid
    have e : id ≠ x := by simp at hid; omega
    rw [setTm_tm_other _ _ _ _ e]; exact h.fresh id (by simpa using hid)
  · intro id
    by_cases e : id = x
    · subst e; simp [c1]
    · rw [setTm_tm_other _ _ _ _ e]; simpa using h.dead id
  · intro id
    by_cases e : id = x
    · subst e; simpa using c2
    · rw [setTm_tm_other _ _ _ _ e]; simpa using h.armedOk id
  · exact h.nodup
  · intro id hq
    by_cases e : id = x
    · subst e; simp only [setTm_tm_same, setTm_curId, setTm_now]; exact ⟨(h.queueOk id hq).1, c3 hq⟩
    · rw [setTm_tm_other _ _ _ _ e]; exact h.queueOk id hq
  · intro id
    by_cases e : id = x
    · subst e; simpa using fun _ => c4
    · rw [setTm_tm_other _ _ _ _ e]; simpa using h.gone id

theorem wf_alloc {s : State} (h : WF s) : WF s.alloc := by
  constructor
  · intro id hid; exact h.fresh id (by simp at hid; omega)
  · exact h.dead
  · exact h.armedOk
  · exact h.nodup
  · exact h.queueOk
  · exact h.gone

theorem wf_push {s : State} (h : WF s) (x : Nat) (hl : (s.tm x).live = true) (ha : (s.tm x).armed = false)
    (hm : (s.tm x).inMap = true) (hnq : x ∉ s.queue) (hcur : s.curId ≠ some x) (hexp : (s.tm x).exp ≤ s.now) :
    WF (s.push x) := by
  constructor
  · exact h.fresh
  · intro id hd
    have := h.dead id hd
    by_cases e : id = x
    · subst e; simp [hl] at hd
    · simp_all
  · intro id ha'
    have := h.armedOk id ha'
    by_cases e : id = x
    · subst e; simp [ha] at ha'
    · simp_all
  · refine List.nodup_append.2 ⟨h.nodup, by simp, ?_⟩
    intro a hmem b hb e
    simp at hb; subst hb; subst e; exact hnq hmem
  · intro id hq
    simp only [push_queue, List.mem_append, List.mem_singleton] at hq
    rcases hq with hq | e
    · exact h.queueOk id hq
    · subst e; exact ⟨hcur, hexp⟩
  · intro id hl' hm'
    by_cases e : id = x
    · subst e; simp [hm] at hm'
    · have := h.gone id hl' hm'; simp_all

theorem mem_of_mem_eraseIdx {l : List Nat} {i a : Nat} (h : a ∈ l.eraseIdx i) : a ∈ l :=
  (List.eraseIdx_sublist l i).subset h

theorem wf_pop {s : State} (h : WF s) (i : Nat) : WF (s.pop i) := by
  constructor
  · exact h.fresh
  · intro id hd
    have := h.dead id hd
    exact ⟨this.1, this.2.1, this.2.2.1, fun hq => this.2.2.2.1 (mem_of_mem_eraseIdx hq), this.2.2.2.2⟩
  · intro id ha
    have := h.armedOk id ha
    exact ⟨this.1, this.2.1, fun hq => this.2.2.1 (mem_of_mem_eraseIdx hq), this.2.2.2⟩
  · exact h.nodup.sublist (List.eraseIdx_sublist _ _)
  · intro id hq; exact h.queueOk id (mem_of_mem_eraseIdx hq)
  · intro id hl hm
    rcases h.gone id hl hm with hc | ⟨hp, hq, hc⟩
    · exact Or.inl hc
    · exact Or.inr ⟨hp, fun hq' => hq (mem_of_mem_eraseIdx hq'), hc⟩

/-- entering / continuing / leaving a callback -/
theorem wf_setCur {s : State} (h : WF s) (c : Option (Nat × List Act))
    (hc : ∀ id, c.map (·.1) = some id →
      (s.tm id).live = true ∧ (s.tm id).armed = false ∧ id ∉ s.queue ∧ ((s.tm id).inMap = false → (s.tm id).cancelled = true)) :
    WF (s.setCur c) := by
  constructor
  · exact h.fresh
  · intro id hd
    have := h.dead id hd
    refine ⟨this.1, this.2.1, this.2.2.1, this.2.2.2.1, ?_⟩
    intro e; have := (hc id e).1; simp_all
  · intro id ha
    have := h.armedOk id ha
    refine ⟨this.1, this.2.1, this.2.2.1, ?_⟩
    intro e; have := (hc id e).2.1; simp_all
  · exact h.nodup
  · intro id hq
    refine ⟨?_, (h.queueOk id hq).2⟩
    intro e; exact (hc id e).2.2.1 hq
  · intro id hl hm
    rcases h.gone id hl hm with hcc | ⟨hp, hq, _⟩
    · exact Or.inl hcc
    · by_cases e : (s.setCur c).curId = some id
      · exact Or.inl ((hc id e).2.2.2 hm)
      · exact Or.inr ⟨hp, hq, e⟩

theorem cur_facts {s : State} (h : WF s) {id : Nat} (hc : s.curId = some id) :
    (s.tm id).live = true ∧ (s.tm id).armed = false ∧ id ∉ s.queue ∧ ((s.tm id).inMap = false → (s.tm id).cancelled = true) := by
  refine ⟨live_of_cur h hc, ?_, ?_, ?_⟩
  · cases ha : (s.tm id).armed with
    | false => rfl
    | true => exact absurd hc (h.armedOk id ha).2.2.2
  · intro hq; exact (h.queueOk id hq).1 hc
  · intro hm
    rcases h.gone id (live_of_cur h hc) hm with hcc | ⟨_, _, hne⟩
    · exact hcc
    · exact absurd hc hne

theorem wf_tick {s : State} (h : WF s) (d : Nat) : WF (s.tick d) := by
  constructor
  · exact h.fresh
  · exact h.dead
  · exact h.armedOk
  · exact h.nodup
  · intro id hq; have := h.queueOk id hq; exact ⟨this.1, by simp; omega⟩
  · exact h.gone

theorem wf_halt {s : State} (h : WF s) : WF s.halt := ⟨h.fresh, h.dead, h.armedOk, h.nodup, h.queueOk, h.gone⟩

theorem wf_setScript {s : State} (h : WF s) (k : Nat) (acts : List Act) : WF (s.setScript k acts) :=
  ⟨h.fresh, h.dead, h.armedOk, h.nodup, h.queueOk, h.gone⟩

/-! ### `WF` is preserved by every primitive -/

theorem wf_create {s : State} (h : WF s) (d : Int) (r : Bool) (k : Nat) (a : List Nat) :
    WF (create s d r k a).1 := by
  have hf := h.dead _ (h.fresh (s.nextId + 1) (by omega))
  exact wf_setTm (wf_alloc h) _ _ rfl (by simp) (by intro _; simpa using hf.2.2.2) (by intro hq; exact absurd hq hf.2.2.2.1)
    (by simp)

theorem wf_cancelTm {s : State} (h : WF s) (x : Nat) : WF (cancelTm s x).1 := by
  simp only [cancelTm]
  split
  next hm =>
    exact wf_setTm h x _ (by simpa using live_of_inMap h hm) (le_nextId_of_live h (live_of_inMap h hm))
      (by simp) (by intro hq; exact (h.queueOk x hq).2) (by simp)
  next => exact h

theorem wf_expire {s : State} (h : WF s) (x : Nat) : WF (expire s x).1 := by
  unfold expire
  split
  next hg =>
    simp only [Bool.and_eq_true, decide_eq_true_eq] at hg
    obtain ⟨ha, hexp⟩ := hg
    obtain ⟨hc, hmap, hnq, hcur⟩ := h.armedOk x ha
    have hl := live_of_armed h ha
    have base : WF (s.setTm x { s.tm x with armed := false }) :=
      wf_setTm h x _ (by simpa using hl) (le_nextId_of_live h hl) (by simp) (by intro hq; exact absurd hq hnq)
        (by simp [hmap])
    split
    · exact base
    · split
      · exact base
      · exact wf_push base x (by simpa using hl) (by simp) (by simpa using hmap) (by simpa using hnq)
          (by simpa using hcur) (by simpa using hexp)
  next => exact h

theorem getElem?_mem' {l : List Nat} {i a : Nat} (h : l[i]? = some a) : a ∈ l := List.mem_of_getElem? h

theorem not_mem_eraseIdx_of_nodup {l : List Nat} (hn : l.Nodup) {i a : Nat} (h : l[i]? = some a) :
    a ∉ l.eraseIdx i := by
  induction l generalizing i with
  | nil => simp
  | cons b rest ih =>
    cases i with
    | zero =>
      simp at h; subst h
      simpa using (List.nodup_cons.1 hn).1
    | succ j =>
      simp at h
      have hb : a ≠ b := by
        intro e; subst e
        exact (List.nodup_cons.1 hn).1 (List.mem_of_getElem? h)
      simp [List.eraseIdx_cons_succ, hb, ih (List.nodup_cons.1 hn).2 h]

theorem wf_doNext {s : State} (h : WF s) (i : Nat) : WF (doNext s i).1 := by
  unfold doNext
  split
  · exact h
  · split
    · exact h
    next id hid =>
      have hq : id ∈ s.queue := List.mem_of_getElem? hid
      split
      · exact wf_pop h i
      next hnc =>
        refine wf_setCur (wf_pop h i) _ ?_
        intro j hj
        simp at hj; subst hj
        refine ⟨by simpa using live_of_queued h hq, ?_, by simpa using not_mem_eraseIdx_of_nodup h.nodup hid, ?_⟩
        · cases ha : (s.tm id).armed with
          | false => simpa using ha
          | true => exact absurd hq (h.armedOk id ha).2.2.1
        · intro hm
          rcases h.gone id (live_of_queued h hq) (by simpa using hm) with hc | ⟨_, hnq, _⟩
          · simpa using hc
          · exact absurd hq hnq

/-- the tail of `Do`: from a state whose running callback is `id` -/
theorem wf_finish {s : State} (h : WF s) {id : Nat} (hc : s.curId = some id) :
    WF (finish (s.setCur none) id).1 := by
  obtain ⟨hl, ha, hnq, hm⟩ := cur_facts h hc
  have h0 : WF (s.setCur none) := wf_setCur h none (by simp)
  unfold finish
  split
  · exact h0
  next hnc =>
    have hnc' : (s.tm id).cancelled = false := by simpa using hnc
    split
    next hp =>
      refine wf_setTm h0 id _ (by simpa using hl) (le_nextId_of_live h hl) ?_ (by intro hq; exact absurd hq hnq) ?_
      · intro _
        refine ⟨by simpa using hnc', ?_, by simpa using hnq, by simp⟩
        cases hmm : (s.tm id).inMap with
        | true => simp [hmm]
        | false => have := hm hmm; simp_all
      · intro hmm
        have : (s.tm id).inMap = false := by simpa using hmm
        have := hm this; simp_all
    next hp =>
      exact wf_setTm h0 id _ (by simpa using hl) (le_nextId_of_live h hl) (by simp [ha])
        (by intro hq; exact absurd hq hnq) (by intro _; right; simp at hp; exact ⟨by simpa using hp, by simpa using hnq, by simp⟩)

theorem curId_of_cur {s : State} {id : Nat} {acts : List Act} (h : s.cur = some (id, acts)) : s.curId = some id := by
  simp [State.curId, h]

theorem wf_cbStep {s : State} (h : WF s) : WF (cbStep s).1 := by
  unfold cbStep
  split
  · exact h
  next id hcur => exact wf_finish h (curId_of_cur hcur)
  next id a rest hcur =>
    have hc := curId_of_cur hcur
    have h1 : ∀ acts, WF (s.setCur (some (id, acts))) := by
      intro acts
      refine wf_setCur h _ ?_
      intro j hj; simp at hj; subst hj; exact cur_facts h hc
    cases a with
    | cancelSelf => exact wf_cancelTm (h1 rest) id
    | cancel x => exact wf_cancelTm (h1 rest) x
    | cancelNewest => exact wf_cancelTm (h1 rest) _
    | after d k arg => exact wf_create (h1 rest) d false k [arg]
    | add d k arg => exact wf_create (h1 rest) d true k [arg]
    | panic => exact h1 []

theorem wf_step {s : State} (h : WF s) (op : Op) : WF (step s op).1 := by
  cases op with
  | after d k a => simp only [step]; split; exact h; exact wf_create h d false k a
  | add d k a => simp only [step]; split; exact h; exact wf_create h d true k a
  | cancel id => simp only [step]; split; exact h; exact wf_cancelTm h id
  | expire id => exact wf_expire h id
  | doNext i => exact wf_doNext h i
  | cbStep => exact wf_cbStep h
  | advance d => exact wf_tick h d
  | stop => exact wf_halt h
  | defScript k acts => exact wf_setScript h k acts

/-! ### history invariant (state ↔ trace), per timer id -/

def Event.subject : Event → Nat
  | .created id _ _ _ _ => id
  | .cancel id _ => id
  | .cb id _ _ => id
  | .rearm id _ _ => id
  | .panic id => id

theorem snoc_other (tr : List Event) (e : Event) (j : Nat) (h : j ≠ e.subject) :
    cancelledIn (tr ++ [e]) j = cancelledIn tr j ∧ createdOf (tr ++ [e]) j = createdOf tr j ∧
    cbCount (tr ++ [e]) j = cbCount tr j ∧ lastCb (tr ++ [e]) j = lastCb tr j := by
  rw [cancelledIn_snoc, createdOf_snoc, cbCount_snoc, lastCb_snoc]
  have h' : e.subject ≠ j := fun e => h e.symm
  cases e <;> simp_all [Event.subject, Event.isCancelOf, Event.isCbOf] <;> (cases createdOf tr j <;> simp)

theorem lastCb_none_iff (tr : List Event) (id : Nat) : lastCb tr id = none ↔ cbCount tr id = 0 := by
  induction tr with
  | nil => simp [lastCb]
  | cons e rest ih =>
    cases h : lastCb rest id with
    | some t =>
      have hne : cbCount rest id ≠ 0 := fun h0 => by simp [ih.2 h0] at h
      have hc : cbCount (e :: rest) id = cbCount rest id + (if e.isCbOf id then 1 else 0) := by
        simp [cbCount, List.countP_cons]
      rw [hc]
      simp only [lastCb, h]
      constructor
      · intro hh; cases hh
      · intro hh; omega
    | none =>
      have h0 := ih.1 h
      cases e <;> simp_all [lastCb, cbCount, List.countP_cons, Event.isCbOf]

structure HistAt (s : State) (tr : List Event) (id : Nat) : Prop where
  cancelSound : cancelledIn tr id = true → (s.tm id).live = true ∧ (s.tm id).inMap = false
  cancelComplete : (s.tm id).cancelled = true → cancelledIn tr id = true
  createdLive : (s.tm id).live = true → ∃ t0 dl, createdOf tr id = some (t0, dl, (s.tm id).period, (s.tm id).args)
  createdDead : (s.tm id).live = false → createdOf tr id = none ∧ cbCount tr id = 0
  once : (s.tm id).period = 0 → cbCount tr id ≤ 1 ∧ (1 ≤ cbCount tr id → (s.tm id).armed = false ∧ id ∉ s.queue)
  alive : (s.tm id).live = true → (s.tm id).cancelled = false → s.running = true →
      (s.tm id).armed = true ∨ id ∈ s.queue ∨ s.curId = some id ∨ ((s.tm id).period = 0 ∧ 1 ≤ cbCount tr id)
  curCount : s.curId = some id → 1 ≤ cbCount tr id
  timing : ((s.tm id).armed = true ∨ id ∈ s.queue) → ∀ t0 dl p a, createdOf tr id = some (t0, dl, p, a) →
      (lastCb tr id = none → t0 + dl ≤ (s.tm id).exp) ∧ (∀ t1, lastCb tr id = some t1 → t1 + p ≤ (s.tm id).exp)
  times : ∀ t1, lastCb tr id = some t1 → t1 ≤ s.now

def Hist (s : State) (tr : List Event) : Prop := ∀ id, HistAt s tr id

theorem hist_init : Hist init [] := by
  intro id
  constructor <;> simp [init, State.curId, cancelledIn, createdOf, lastCb]

/-- nothing about `id` changed -/
theorem histAt_frame {s s' : State} {tr tr' : List Event} {id : Nat}
    (htm : s'.tm id = s.tm id) (hq : id ∈ s'.queue ↔ id ∈ s.queue) (hc : s'.curId = some id ↔ s.curId = some id)
    (hnow : s.now ≤ s'.now) (hrun : s'.running = true → s.running = true)
    (hh : cancelledIn tr' id = cancelledIn tr id ∧ createdOf tr' id = createdOf tr id ∧
          cbCount tr' id = cbCount tr id ∧ lastCb tr' id = lastCb tr id)
    (h : HistAt s tr id) : HistAt s' tr' id := by
  obtain ⟨h1, h2, h3, h4⟩ := hh
  constructor
  · rw [h1, htm]; exact h.cancelSound
  · rw [h1, htm]; exact h.cancelComplete
  · rw [h2, htm]; exact h.createdLive
  · rw [h2, h3, htm]; exact h.createdDead
  · rw [h3, htm, hq]; exact h.once
  · rw [h3, htm, hq, hc]; intro a b c; exact h.alive a b (hrun c)
  · rw [h3, hc]; exact h.curCount
  · rw [h2, h4, htm, hq]; exact h.timing
  · rw [h4]; intro t1 ht; have := h.times t1 ht; omega

theorem snoc_inert (tr : List Event) (e : Event) (j : Nat)
    (h : (∃ i t d, e = .rearm i t d) ∨ (∃ i, e = .panic i)) :
    cancelledIn (tr ++ [e]) j = cancelledIn tr j ∧ createdOf (tr ++ [e]) j = createdOf tr j ∧
    cbCount (tr ++ [e]) j = cbCount tr j ∧ lastCb (tr ++ [e]) j = lastCb tr j := by
  rw [cancelledIn_snoc, createdOf_snoc, cbCount_snoc, lastCb_snoc]
  rcases h with ⟨i, t, d, rfl⟩ | ⟨i, rfl⟩ <;> simp [Event.isCancelOf, Event.isCbOf] <;> (cases createdOf tr j <;> simp)

theorem hist_same (tr : List Event) (j : Nat) :
    cancelledIn tr j = cancelledIn tr j ∧ createdOf tr j = createdOf tr j ∧
    cbCount tr j = cbCount tr j ∧ lastCb tr j = lastCb tr j := ⟨rfl, rfl, rfl, rfl⟩

theorem mem_eraseIdx_of_ne {l : List Nat} {i a j : Nat} (h : l[i]? = some a) (hne : j ≠ a) :
    j ∈ l.eraseIdx i ↔ j ∈ l := by
  constructor
  · exact mem_of_mem_eraseIdx
  · intro hj
    induction l generalizing i with
    | nil => simp at hj
    | cons b rest ih =>
      cases i with
      | zero => simp at h; subst h; simpa [hne] using hj
      | succ k =>
        simp at h
        simp only [List.eraseIdx_cons_succ, List.mem_cons] at *
        rcases hj with hj | hj
        · exact Or.inl hj
        · exact Or.inr (ih h hj)

/-! #### create -/
theorem hist_create {s : State} {tr : List Event} (hw : WF s) (h : Hist s tr) (d : Int) (r : Bool) (k : Nat) (a : List Nat) :
    Hist (create s d r k a).1 (tr ++ (create s d r k a).2) := by
  have hnl : (s.tm (s.nextId + 1)).live = false := hw.fresh _ (by omega)
  have hd := hw.dead _ hnl
  have hx := h (s.nextId + 1)
  have hcd := hx.createdDead hnl
  have hnc : cancelledIn tr (s.nextId + 1) = false := by
    cases hc : cancelledIn tr (s.nextId + 1) with
    | false => rfl
    | true => have := (hx.cancelSound hc).1; simp_all
  have hlc : lastCb tr (s.nextId + 1) = none := (lastCb_none_iff _ _).2 hcd.2
  intro j
  by_cases e : j = s.nextId + 1
  · subst e
    simp only [create]
    constructor
    · rw [cancelledIn_snoc]; simp [hnc, Event.isCancelOf]
    · simp
    · intro _; rw [createdOf_snoc, hcd.1]; simp
    · simp
    · intro _; rw [cbCount_snoc]; simp [hcd.2, Event.isCbOf]
    · simp
    · intro hc; simp at hc; exact absurd hc hd.2.2.2.2
    · intro _ t0 dl p a'
      rw [createdOf_snoc, hcd.1, lastCb_snoc]
      simp only [if_true, hlc]
      intro heq; simp at heq
      obtain ⟨h1, h2, _, _⟩ := heq
      subst h1; subst h2
      simp
    · intro t1; rw [lastCb_snoc]; simp [hlc]
  · refine histAt_frame ?_ ?_ ?_ ?_ ?_ ?_ (h j)
    · simp [create, setTm_tm_other _ _ _ _ e]
    · simp [create]
    · simp [create]
    · simp [create]
    · simp [create]
    · exact snoc_other tr _ j (by simpa [create, Event.subject] using e)

/-! #### cancel -/
theorem hist_cancelTm {s : State} {tr : List Event} (hw : WF s) (h : Hist s tr) (x : Nat) :
    Hist (cancelTm s x).1 (tr ++ (cancelTm s x).2) := by
  have hx := h x
  cases hl : (s.tm x).live with
  | false =>
    have hm := (hw.dead x hl).2.1
    simpa [cancelTm, hl, hm] using h
  | true =>
    have hnotcb : ∀ t, (Event.cancel x t).isCbOf x = false := fun _ => rfl
    have hco : createdOf (tr ++ [Event.cancel x s.now]) x = createdOf tr x := by
      rw [createdOf_snoc]; cases createdOf tr x <;> simp
    have hcb : cbCount (tr ++ [Event.cancel x s.now]) x = cbCount tr x := by
      rw [cbCount_snoc]; simp [Event.isCbOf]
    have hlc : lastCb (tr ++ [Event.cancel x s.now]) x = lastCb tr x := by
      rw [lastCb_snoc]
    have hci : cancelledIn (tr ++ [Event.cancel x s.now]) x = true := by
      rw [cancelledIn_snoc]; simp [Event.isCancelOf]
    intro j
    by_cases e : j = x
    · subst e
      simp only [cancelTm, hl, if_true]
      cases hm : (s.tm j).inMap with
      | true =>
        simp only [if_true]
        constructor
        · intro _; simp
        · intro _; exact hci
        · intro _; rw [hco]; simpa using hx.createdLive hl
        · intro h0; simp at h0
        · intro hp; rw [hcb]
          have := hx.once (by simpa using hp)
          exact ⟨this.1, fun h1 => ⟨by simp, by simpa using (this.2 h1).2⟩⟩
        · simp
        · intro hc; rw [hcb]; exact hx.curCount (by simpa using hc)
        · intro hq t0 dl p a
          rw [hco, hlc]
          simp only [setTm_tm_same, setTm_queue] at hq ⊢
          exact hx.timing (Or.inr (by simpa using hq)) t0 dl p a
        · intro t1; rw [hlc]; simpa using hx.times t1
      | false =>
        simp only [Bool.false_eq_true, if_false]
        constructor
        · intro _; exact ⟨hl, hm⟩
        · intro _; exact hci
        · rw [hco]; exact hx.createdLive
        · simp [hl]
        · rw [hcb]; exact hx.once
        · rw [hcb]; exact hx.alive
        · rw [hcb]; exact hx.curCount
        · rw [hco, hlc]; exact hx.timing
        · rw [hlc]; exact hx.times
    · refine histAt_frame ?_ ?_ ?_ ?_ ?_ ?_ (h j)
      · simp only [cancelTm]; split
        · exact setTm_tm_other _ _ _ _ e
        · rfl
      · simp only [cancelTm]; split <;> simp
      · simp only [cancelTm]; split <;> simp
      · simp only [cancelTm]; split <;> simp
      · simp only [cancelTm]; split <;> simp
      · simp only [cancelTm, hl, if_true]
        exact snoc_other tr _ j (by simpa [Event.subject] using e)

/-! #### expire -/
theorem hist_expire {s : State} {tr : List Event} (hw : WF s) (h : Hist s tr) (x : Nat) :
    Hist (expire s x).1 (tr ++ (expire s x).2) := by
  unfold expire
  split
  next hg =>
    simp only [Bool.and_eq_true, decide_eq_true_eq] at hg
    obtain ⟨ha, hexp⟩ := hg
    obtain ⟨hc, hmap, hnq, hcur⟩ := hw.armedOk x ha
    have hx := h x
    -- disarmed only: cancelled or manager stopped
    have base : (s.tm x).cancelled = true ∨ s.running = false →
        Hist (s.setTm x { s.tm x with armed := false }) tr := by
      intro hwhy j
      by_cases e : j = x
      · subst e
        constructor
        · simpa using hx.cancelSound
        · simpa using hx.cancelComplete
        · simpa using hx.createdLive
        · simpa using hx.createdDead
        · intro hp
          have := hx.once (by simpa using hp)
          exact ⟨this.1, fun h1 => ⟨by simp, by simpa using (this.2 h1).2⟩⟩
        · intro _ hcc hr
          rcases hwhy with hw1 | hw1
          · simp [hw1] at hcc
          · simp [hw1] at hr
        · simpa using hx.curCount
        · intro hq t0 dl p a
          simp only [setTm_tm_same, setTm_queue] at hq ⊢
          exact hx.timing (Or.inl ha) t0 dl p a
        · simpa using hx.times
      · exact histAt_frame (setTm_tm_other _ _ _ _ e) (by simp) (by simp) (by simp) (by simp) (hist_same tr j) (h j)
    split
    next hcc => simpa using base (Or.inl hcc)
    next =>
      split
      next hr => simpa using base (Or.inr (by simpa using hr))
      next hr =>
        simp only [List.append_nil]
        intro j
        by_cases e : j = x
        · subst e
          have hcnt : (s.tm j).period = 0 → cbCount tr j = 0 := by
            intro hp
            have := hx.once hp
            cases hc0 : cbCount tr j with
            | zero => rfl
            | succ n => have := (this.2 (by omega)).1; simp_all
          constructor
          · simpa using hx.cancelSound
          · simpa using hx.cancelComplete
          · simpa using hx.createdLive
          · simpa using hx.createdDead
          · intro hp
            have h0 := hcnt (by simpa using hp)
            rw [h0]; exact ⟨by omega, fun h1 => absurd h1 (by omega)⟩
          · intro _ _ _; right; left; simp
          · simpa using hx.curCount
          · intro _ t0 dl p a
            simp only [push_tm, setTm_tm_same]
            exact hx.timing (Or.inl ha) t0 dl p a
          · simpa using hx.times
        · exact histAt_frame (by simp [setTm_tm_other _ _ _ _ e]) (by simp [e]) (by simp) (by simp) (by simp)
            (hist_same tr j) (h j)
  next => simpa using h

/-! #### doNext -/
theorem hist_doNext {s : State} {tr : List Event} (hw : WF s) (h : Hist s tr) (i : Nat) :
    Hist (doNext s i).1 (tr ++ (doNext s i).2) := by
  unfold doNext
  split
  · simpa using h
  next hcn =>
    have hcur : s.curId = none := by
      cases hc : s.cur with
      | none => simp [State.curId, hc]
      | some v => simp [hc] at hcn
    split
    · simpa using h
    next id hid =>
      have hq : id ∈ s.queue := List.mem_of_getElem? hid
      have hx := h id
      have hna : (s.tm id).armed = false := by
        cases ha : (s.tm id).armed with
        | false => rfl
        | true => exact absurd hq (hw.armedOk id ha).2.2.1
      have hnq' : id ∉ s.queue.eraseIdx i := not_mem_eraseIdx_of_nodup hw.nodup hid
      split
      next hcc =>
        simp only [List.append_nil]
        intro j
        by_cases e : j = id
        · subst e
          constructor
          · simpa using hx.cancelSound
          · simpa using hx.cancelComplete
          · simpa using hx.createdLive
          · simpa using hx.createdDead
          · intro hp
            have := hx.once (by simpa using hp)
            exact ⟨this.1, fun _ => ⟨by simpa using hna, by simpa using hnq'⟩⟩
          · intro _ hc2; simp [hcc] at hc2
          · simpa using hx.curCount
          · intro hor; simp [hna, hnq'] at hor
          · simpa using hx.times
        · exact histAt_frame (by simp) (by simpa using mem_eraseIdx_of_ne hid e) (by simp) (by simp) (by simp)
            (hist_same tr j) (h j)
      next hcc =>
        intro j
        by_cases e : j = id
        · subst e
          have hcb : cbCount (tr ++ [Event.cb j s.now (s.tm j).args]) j = cbCount tr j + 1 := by
            rw [cbCount_snoc]; simp [Event.isCbOf]
          have hco : createdOf (tr ++ [Event.cb j s.now (s.tm j).args]) j = createdOf tr j := by
            rw [createdOf_snoc]; cases createdOf tr j <;> simp
          have hci : cancelledIn (tr ++ [Event.cb j s.now (s.tm j).args]) j = cancelledIn tr j := by
            rw [cancelledIn_snoc]; simp [Event.isCancelOf]
          constructor
          · rw [hci]; simpa using hx.cancelSound
          · rw [hci]; simpa using hx.cancelComplete
          · rw [hco]; simpa using hx.createdLive
          · intro hl; have := live_of_queued hw hq; simp at hl; simp [hl] at this
          · intro hp
            have := hx.once (by simpa using hp)
            have h0 : cbCount tr j = 0 := by
              cases hc0 : cbCount tr j with
              | zero => rfl
              | succ n => exact absurd hq (this.2 (by omega)).2
            rw [hcb, h0]
            exact ⟨by omega, fun _ => ⟨by simpa using hna, by simpa using hnq'⟩⟩
          · intro _ _ _; right; right; left; simp
          · intro _; rw [hcb]; omega
          · intro hor; simp [hna, hnq'] at hor
          · intro t1; rw [lastCb_snoc]; simp
            intro ht; omega
        · refine histAt_frame (by simp) (by simpa using mem_eraseIdx_of_ne hid e) ?_ (by simp) (by simp) ?_ (h j)
          · simp [hcur]; exact fun e' => e e'.symm
          · exact snoc_other tr _ j (by simpa [Event.subject] using e)

/-! #### the tail of `Do` -/
theorem hist_finish {s : State} {tr : List Event} (hw : WF s) (h : Hist s tr) {id : Nat} (hc : s.curId = some id) :
    Hist (finish (s.setCur none) id).1 (tr ++ (finish (s.setCur none) id).2) := by
  obtain ⟨hl, ha, hnq, hm⟩ := cur_facts hw hc
  have hx := h id
  have hcnt := hx.curCount hc
  have other : ∀ (s' : State) (tr' : List Event) (j : Nat), j ≠ id → s'.tm j = s.tm j → s'.queue = s.queue →
      s'.curId = none → s'.now = s.now → s'.running = s.running →
      (cancelledIn tr' j = cancelledIn tr j ∧ createdOf tr' j = createdOf tr j ∧
        cbCount tr' j = cbCount tr j ∧ lastCb tr' j = lastCb tr j) → HistAt s' tr' j := by
    intro s' tr' j e h1 h2 h3 h4 h5 h6
    refine histAt_frame h1 (by rw [h2]) ?_ (by omega) (by rw [h5]; exact fun hr => hr) h6 (h j)
    rw [h3, hc]; simp; exact fun e' => e e'.symm
  unfold finish
  split
  next hcc =>
    simp only [List.append_nil]
    intro j
    by_cases e : j = id
    · subst e
      constructor
      · simpa using hx.cancelSound
      · simpa using hx.cancelComplete
      · simpa using hx.createdLive
      · simpa using hx.createdDead
      · simpa using hx.once
      · intro _ hc2; simp at hc2 hcc; simp [hcc] at hc2
      · simp
      · simpa using hx.timing
      · simpa using hx.times
    · exact other _ _ j e rfl rfl rfl rfl rfl (hist_same tr j)
  next hcc =>
    have hcc' : (s.tm id).cancelled = false := by simpa using hcc
    have hmap : (s.tm id).inMap = true := by
      cases hmm : (s.tm id).inMap with
      | true => rfl
      | false => have := hm hmm; simp_all
    have hnci : cancelledIn tr id = false := by
      cases hci : cancelledIn tr id with
      | false => rfl
      | true => have := (hx.cancelSound hci).2; simp_all
    split
    next hp =>
      simp only [setCur_tm, setCur_now] at hp ⊢
      intro j
      by_cases e : j = id
      · subst e
        obtain ⟨h1, h2, h3, h4⟩ := snoc_inert tr (Event.rearm j s.now (s.tm j).period) j (Or.inl ⟨_, _, _, rfl⟩)
        constructor
        · rw [h1, hnci]; simp
        · rw [h1]; simp [hcc']
        · rw [h2]; simpa using hx.createdLive
        · simp [hl]
        · intro hp0; simp at hp0; omega
        · intro _ _ _; left; simp
        · simp
        · intro _ t0 dl p a hco
          rw [h2] at hco
          obtain ⟨t0', dl', hco'⟩ := hx.createdLive hl
          rw [hco'] at hco
          simp at hco
          obtain ⟨_, _, hpp, _⟩ := hco
          rw [h4]
          constructor
          · intro hn; have := (lastCb_none_iff tr j).1 hn; omega
          · intro t1 ht1
            have := hx.times t1 ht1
            simp only [setTm_tm_same]
            omega
        · rw [h4]; simpa using hx.times
      · exact other _ _ j e (by simp [setTm_tm_other _ _ _ _ e]) rfl rfl rfl rfl
          (snoc_inert tr _ j (Or.inl ⟨_, _, _, rfl⟩))
    next hp =>
      have hp0 : (s.tm id).period = 0 := by simp at hp; exact hp
      simp only [List.append_nil]
      intro j
      by_cases e : j = id
      · subst e
        constructor
        · intro _; simp [hl]
        · simpa using hx.cancelComplete
        · simpa using hx.createdLive
        · simp [hl]
        · simpa using hx.once
        · intro _ _ _; right; right; right; simpa using ⟨hp0, hcnt⟩
        · simp
        · intro hor; simp [ha, hnq] at hor
        · simpa using hx.times
      · exact other _ _ j e (by simp [setTm_tm_other _ _ _ _ e]) rfl rfl rfl rfl (hist_same tr j)

/-! #### remaining primitives -/
theorem hist_setCur_same {s : State} {tr : List Event} (h : Hist s tr) {id : Nat} (hc : s.curId = some id) (acts : List Act) :
    Hist (s.setCur (some (id, acts))) tr := by
  intro j
  exact histAt_frame (s := s) (tr := tr) (by rfl) (by simp) (by simp [hc]) (by simp) (by simp) (hist_same tr j) (h j)

theorem hist_tick {s : State} {tr : List Event} (h : Hist s tr) (d : Nat) : Hist (s.tick d) tr := by
  intro j
  exact histAt_frame (s := s) (tr := tr) (by rfl) (by simp) (by simp) (by simp) (by simp) (hist_same tr j) (h j)

theorem hist_halt {s : State} {tr : List Event} (h : Hist s tr) : Hist s.halt tr := by
  intro j
  exact histAt_frame (s := s) (tr := tr) (by rfl) (by simp) (by simp) (by simp) (by simp) (hist_same tr j) (h j)

theorem hist_setScript {s : State} {tr : List Event} (h : Hist s tr) (k : Nat) (acts : List Act) :
    Hist (s.setScript k acts) tr := by
  intro j
  exact histAt_frame (s := s) (tr := tr) (by rfl) (by simp) (by simp) (by simp) (by simp) (hist_same tr j) (h j)

theorem wf_setCur_same {s : State} (h : WF s) {id : Nat} (hc : s.curId = some id) (acts : List Act) :
    WF (s.setCur (some (id, acts))) := by
  refine wf_setCur h _ ?_
  intro j hj; simp at hj; subst hj; exact cur_facts h hc

theorem hist_cbStep {s : State} {tr : List Event} (hw : WF s) (h : Hist s tr) :
    Hist (cbStep s).1 (tr ++ (cbStep s).2) := by
  unfold cbStep
  split
  · simpa using h
  next id hcur => exact hist_finish hw h (curId_of_cur hcur)
  next id a rest hcur =>
    have hc := curId_of_cur hcur
    have w1 := wf_setCur_same hw hc rest
    have h1 := hist_setCur_same h hc rest
    cases a with
    | cancelSelf => exact hist_cancelTm w1 h1 id
    | cancel x => exact hist_cancelTm w1 h1 x
    | cancelNewest => exact hist_cancelTm w1 h1 _
    | after d k arg => exact hist_create w1 h1 d false k [arg]
    | add d k arg => exact hist_create w1 h1 d true k [arg]
    | panic =>
      intro j
      exact histAt_frame (s := s) (tr := tr) (s' := s.setCur (some (id, []))) (by rfl) (by simp) (by simp [hc])
        (by simp) (by simp) (snoc_inert tr _ j (Or.inr ⟨_, rfl⟩)) (h j)

theorem hist_step {s : State} {tr : List Event} (hw : WF s) (h : Hist s tr) (op : Op) :
    Hist (step s op).1 (tr ++ (step s op).2) := by
  cases op with
  | after d k a => simp only [step]; split; simpa using h; exact hist_create hw h d false k a
  | add d k a => simp only [step]; split; simpa using h; exact hist_create hw h d true k a
  | cancel id => simp only [step]; split; simpa using h; exact hist_cancelTm hw h id
  | expire id => exact hist_expire hw h id
  | doNext i => exact hist_doNext hw h i
  | cbStep => exact hist_cbStep hw h
  | advance d => simpa [step] using hist_tick h d
  | stop => simpa [step] using hist_halt h
  | defScript k acts => simpa [step] using hist_setScript h k acts

/-! ### where callbacks come from, and the trace properties -/

theorem ite_single_cases {α : Type} (c : Prop) [Decidable c] (e : α) :
    (if c then [e] else []) = [] ∨ ∃ e', (if c then [e] else []) = [e'] := by
  by_cases h : c <;> simp [h]

theorem cb_not_mem_ite_cancel (c : Prop) [Decidable c] (id t x n : Nat) (a : List Nat) :
    Event.cb id t a ∉ (if c then [Event.cancel x n] else []) := by
  by_cases h : c <;> simp [h]

theorem step_events_le_one (s : State) (op : Op) : (step s op).2 = [] ∨ ∃ e, (step s op).2 = [e] := by
  cases op with
  | after d k a => simp only [step]; split <;> simp [create]
  | add d k a => simp only [step]; split <;> simp [create]
  | cancel id => simp only [step]; split; simp; simp only [cancelTm]; exact ite_single_cases _ _
  | expire id => simp only [step, expire]; split <;> (try split) <;> (try split) <;> simp
  | doNext i => simp only [step, doNext]; split <;> (try split) <;> (try split) <;> simp
  | cbStep =>
    simp only [step, cbStep]
    split
    · simp
    · simp only [finish]; split <;> (try split) <;> simp
    next id a rest _ => cases a <;> simp [create, cancelTm] <;> exact ite_single_cases _ _
  | advance d => simp [step]
  | stop => simp [step]
  | defScript k acts => simp [step]

/-- a callback is entered only by `doNext`, for the element taken from the queue, if it is not cancelled -/
theorem cb_of_step {s : State} {op : Op} {id t : Nat} {a : List Nat} (h : Event.cb id t a ∈ (step s op).2) :
    ∃ i, op = .doNext i ∧ s.cur = none ∧ s.queue[i]? = some id ∧ (s.tm id).cancelled = false ∧
      t = s.now ∧ a = (s.tm id).args := by
  cases op with
  | after d k a => simp only [step] at h; split at h <;> simp [create] at h
  | add d k a => simp only [step] at h; split at h <;> simp [create] at h
  | cancel x => simp only [step] at h; split at h; simp at h; simp only [cancelTm] at h; exact absurd h (cb_not_mem_ite_cancel _ _ _ _ _ _)
  | expire x => simp only [step, expire] at h; split at h <;> (try split at h) <;> (try split at h) <;> simp at h
  | doNext i =>
    simp only [step, doNext] at h
    split at h
    · simp at h
    next hcn =>
      split at h
      · simp at h
      next x hx =>
        split at h
        · simp at h
        next hcc =>
          simp at h
          obtain ⟨h1, h2, h3⟩ := h
          subst h1
          refine ⟨i, rfl, ?_, hx, by simpa using hcc, h2, h3⟩
          cases hc : s.cur with
          | none => rfl
          | some v => simp [hc] at hcn
  | cbStep =>
    simp only [step, cbStep] at h
    split at h
    · simp at h
    · simp only [finish] at h; split at h <;> (try split at h) <;> simp at h
    next x a rest _ => cases a <;> simp [create, cancelTm] at h <;> exact absurd h (cb_not_mem_ite_cancel _ _ _ _ _ _)
  | advance d => simp [step] at h
  | stop => simp [step] at h
  | defScript k acts => simp [step] at h

def NoCbAfterCancel (tr : List Event) : Prop :=
  ∀ pre post id t, tr = pre ++ Event.cancel id t :: post → ∀ t' a, Event.cb id t' a ∉ post

def CbJustified (tr : List Event) : Prop :=
  ∀ pre post id t a, tr = pre ++ Event.cb id t a :: post →
    ∃ t0 dl p, createdOf pre id = some (t0, dl, p, a) ∧ (lastCb pre id = none → t0 + dl ≤ t) ∧
      (∀ t1, lastCb pre id = some t1 → t1 + p ≤ t)

theorem cancelledIn_of_split {tr pre post : List Event} {id t : Nat} (h : tr = pre ++ Event.cancel id t :: post) :
    cancelledIn tr id = true := by
  subst h; simp [cancelledIn, Event.isCancelOf]

theorem noCbAfterCancel_snoc {tr : List Event} {e : Event} (h : NoCbAfterCancel tr)
    (he : ∀ id t a, e = Event.cb id t a → cancelledIn tr id = false) : NoCbAfterCancel (tr ++ [e]) := by
  intro pre post id t heq t' a hmem
  rcases snoc_split pre tr e _ post heq with ⟨_, _, hp⟩ | ⟨post', hp, htr⟩
  · subst hp; simp at hmem
  · subst hp
    simp only [List.mem_append, List.mem_singleton] at hmem
    rcases hmem with hmem | hmem
    · exact h pre post' id t htr t' a hmem
    · have := he id t' a hmem.symm
      rw [cancelledIn_of_split htr] at this; cases this

theorem cbJustified_snoc {tr : List Event} {e : Event} (h : CbJustified tr)
    (he : ∀ id t a, e = Event.cb id t a →
      ∃ t0 dl p, createdOf tr id = some (t0, dl, p, a) ∧ (lastCb tr id = none → t0 + dl ≤ t) ∧
        (∀ t1, lastCb tr id = some t1 → t1 + p ≤ t)) : CbJustified (tr ++ [e]) := by
  intro pre post id t a heq
  rcases snoc_split pre tr e _ post heq with ⟨h1, h2, _⟩ | ⟨post', _, htr⟩
  · subst h1; exact he id t a h2
  · exact h pre post' id t a htr

structure Good (tr : List Event) : Prop where
  noCbAfterCancel : NoCbAfterCancel tr
  cbJustified : CbJustified tr

theorem good_nil : Good [] := by
  constructor
  · intro pre post id t h; simp at h
  · intro pre post id t a h; simp at h

theorem good_step {s : State} {tr : List Event} (hw : WF s) (h : Hist s tr) (hg : Good tr) (op : Op) :
    Good (tr ++ (step s op).2) := by
  rcases step_events_le_one s op with h0 | ⟨e, h1⟩
  · rw [h0]; simpa using hg
  · rw [h1]
    have facts : ∀ id t a, e = Event.cb id t a →
        ∃ i : Nat, s.queue[i]? = some id ∧ (s.tm id).cancelled = false ∧ t = s.now ∧ a = (s.tm id).args := by
      intro id t a he
      have hm : Event.cb id t a ∈ (step s op).2 := by rw [h1, he]; simp
      obtain ⟨i, _, _, hq, hc, ht, ha⟩ := cb_of_step hm
      exact ⟨i, hq, hc, ht, ha⟩
    constructor
    · refine noCbAfterCancel_snoc hg.noCbAfterCancel ?_
      intro id t a he
      obtain ⟨i, hq, hc, _, _⟩ := facts id t a he
      have hmem : id ∈ s.queue := List.mem_of_getElem? hq
      cases hci : cancelledIn tr id with
      | false => rfl
      | true =>
        obtain ⟨hl, hm⟩ := (h id).cancelSound hci
        rcases hw.gone id hl hm with hcc | ⟨_, hnq, _⟩
        · simp [hc] at hcc
        · exact absurd hmem hnq
    · refine cbJustified_snoc hg.cbJustified ?_
      intro id t a he
      obtain ⟨i, hq, hc, ht, ha⟩ := facts id t a he
      have hmem : id ∈ s.queue := List.mem_of_getElem? hq
      obtain ⟨t0, dl, hco⟩ := (h id).createdLive (live_of_queued hw hmem)
      have htm := (h id).timing (Or.inr hmem) t0 dl _ _ hco
      have hexp := (hw.queueOk id hmem).2
      refine ⟨t0, dl, (s.tm id).period, by rw [hco, ha], ?_, ?_⟩
      · intro hn; have := htm.1 hn; omega
      · intro t1 h1'; have := htm.2 t1 h1'; omega

/-! ### every history from the initial state -/

structure Inv (s : State) (tr : List Event) : Prop where
  wf : WF s
  hist : Hist s tr
  good : Good tr

theorem inv_init : Inv init [] := ⟨wf_init, hist_init, good_nil⟩

theorem inv_step {s : State} {tr : List Event} (h : Inv s tr) (op : Op) :
    Inv (step s op).1 (tr ++ (step s op).2) :=
  ⟨wf_step h.wf op, hist_step h.wf h.hist op, good_step h.wf h.hist h.good op⟩

theorem inv_runFrom {s : State} {tr : List Event} (h : Inv s tr) (ops : List Op) :
    Inv (runFrom s tr ops).1 (runFrom s tr ops).2 := by
  induction ops generalizing s tr with
  | nil => exact h
  | cons op ops ih => exact ih (inv_step h op)

theorem runFrom_append (s : State) (tr : List Event) (a b : List Op) :
    runFrom s tr (a ++ b) = runFrom (runFrom s tr a).1 (runFrom s tr a).2 b := by
  induction a generalizing s tr with
  | nil => rfl
  | cons op a ih => simp [runFrom, ih]

/-- from a state where `id` is armed (hence not cancelled), the manager running and no callback
in progress: let the duration elapse, let the expiry goroutine run, let the owner take the
last queue element — the callback is entered. -/
theorem can_fire_armed {s : State} {tr : List Event} (hw : WF s) (id : Nat)
    (ha : (s.tm id).armed = true) (hr : s.running = true) (hc : s.cur = none) :
    cbCount (runFrom s tr [.advance ((s.tm id).exp - s.now), .expire id, .doNext s.queue.length]).2 id
      = cbCount tr id + 1 := by
  obtain ⟨hcc, _, hnq, _⟩ := hw.armedOk id ha
  have hexp : (s.tm id).exp ≤ s.now + ((s.tm id).exp - s.now) := by omega
  simp [runFrom, step, expire, ha, hexp, hcc, hr, doNext, hc, State.tick, State.setTm, State.push, State.pop,
    State.setCur, upd, cbCount, Event.isCbOf]

/-- a queued, not cancelled object: the owner takes it — the callback is entered -/
theorem can_fire_queued {s : State} {tr : List Event} (id : Nat)
    (hq : id ∈ s.queue) (hcc : (s.tm id).cancelled = false) (hc : s.cur = none) :
    cbCount (runFrom s tr [.doNext (s.queue.idxOf id)]).2 id = cbCount tr id + 1 := by
  have hget : s.queue[s.queue.idxOf id]? = some id := by
    rw [List.getElem?_eq_getElem (List.idxOf_lt_length_iff.2 hq)]; simp
  simp [runFrom, step, doNext, hc, hget, hcc, cbCount, Event.isCbOf]

theorem inv_run (ops : List Op) : Inv (run ops).1 (run ops).2 := inv_runFrom inv_init ops

end Cell2v.Timer
