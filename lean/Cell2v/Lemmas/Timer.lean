import Cell2v.Model.Timer
/-!
Invariants of the timer model and their preservation by every primitive step.
`WF` is about the state alone, `Hist` links the state to the trace recorded so
far, `Good` is the conjunction of the trace properties that the theorems of
`Props/C14.lean` state.
-/
namespace Cell2v.Timer

/-! ### history functions and `++ [e]` -/

theorem snoc_split {α : Type} : ∀ (pre tr : List α) (x e : α) (post : List α),
    tr ++ [x] = pre ++ e :: post →
    (tr = pre ∧ x = e ∧ post = []) ∨ ∃ post', post = post' ++ [x] ∧ tr = pre ++ e :: post' := by
  intro pre
  induction pre with
  | nil =>
    intro tr x e post h
    cases tr with
    | nil => simp at h; left; simp [h]
    | cons t tr' =>
      simp at h
      right; exact ⟨tr', h.2.symm, by simp [h.1]⟩
  | cons p pre' ih =>
    intro tr x e post h
    cases tr with
    | nil => simp at h
    | cons t tr' =>
      simp at h
      rcases ih tr' x e post h.2 with h1 | ⟨post', h1, h2⟩
      · left; simp [h.1, h1]
      · right; exact ⟨post', h1, by simp [h.1, h2]⟩

@[simp] theorem cbCount_nil (id : Nat) : cbCount [] id = 0 := rfl

theorem cbCount_snoc (tr : List Event) (e : Event) (id : Nat) :
    cbCount (tr ++ [e]) id = cbCount tr id + (if e.isCbOf id then 1 else 0) := by
  simp [cbCount, List.countP_append, List.countP_cons]

theorem cancelledIn_snoc (tr : List Event) (e : Event) (id : Nat) :
    cancelledIn (tr ++ [e]) id = (cancelledIn tr id || e.isCancelOf id) := by
  simp [cancelledIn, List.any_append]

theorem lastCb_snoc (tr : List Event) (e : Event) (id : Nat) :
    lastCb (tr ++ [e]) id =
      match e with
      | .cb i t _ => if i = id then some t else lastCb tr id
      | _ => lastCb tr id := by
  induction tr with
  | nil => cases e <;> simp [lastCb] <;> split <;> simp_all
  | cons e0 rest ih =>
    simp only [List.cons_append, lastCb, ih]
    cases e with
    | cb i t a => by_cases h : i = id <;> simp [h]
    | _ => simp

theorem createdOf_snoc (tr : List Event) (e : Event) (id : Nat) :
    createdOf (tr ++ [e]) id =
      match createdOf tr id with
      | some c => some c
      | none => match e with
        | .created i t dl p a => if i = id then some (t, dl, p, a) else none
        | _ => none := by
  induction tr with
  | nil => cases e <;> simp [createdOf]
  | cons e0 rest ih =>
    cases e0 <;> simp only [List.cons_append, createdOf, ih]
    split <;> simp_all

/-! ### state invariant -/

structure WF (s : State) : Prop where
  /-- ids above the allocator have no object -/
  fresh : ∀ id, s.nextId < id → (s.tm id).live = false
  /-- a non-existent object is nowhere -/
  dead : ∀ id, (s.tm id).live = false →
    (s.tm id).armed = false ∧ (s.tm id).inMap = false ∧ (s.tm id).cancelled = false ∧ id ∉ s.queue ∧ s.curId ≠ some id
  /-- a pending runtime timer: not cancelled, known to the manager, neither queued nor running -/
  armedOk : ∀ id, (s.tm id).armed = true →
    (s.tm id).cancelled = false ∧ (s.tm id).inMap = true ∧ id ∉ s.queue ∧ s.curId ≠ some id
  nodup : s.queue.Nodup
  /-- a queued object is not the running one and its instant has come -/
  queueOk : ∀ id, id ∈ s.queue → s.curId ≠ some id ∧ (s.tm id).exp ≤ s.now
  /-- forgotten by the manager: cancelled, or a one-shot that is completely done -/
  gone : ∀ id, (s.tm id).live = true → (s.tm id).inMap = false →
    (s.tm id).cancelled = true ∨ ((s.tm id).period = 0 ∧ id ∉ s.queue ∧ s.curId ≠ some id)

theorem wf_init : WF init := by
  constructor <;> simp [init, State.curId]

@[simp] theorem upd_same (f : Nat → Tm) (i : Nat) (v : Tm) : upd f i v i = v := by simp [upd]
theorem upd_other (f : Nat → Tm) (i j : Nat) (v : Tm) (h : j ≠ i) : upd f i v j = f j := by simp [upd, h]

theorem wf_create (s : State) (h : WF s) (d : Int) (r : Bool) (k : Nat) (a : List Nat) :
    WF (create s d r k a).1 := by
  have hf := h.dead _ (h.fresh (s.nextId + 1) (by omega))
  constructor
  · intro id hid
    have : id ≠ s.nextId + 1 := by simp [create] at hid; omega
    simp [create, upd, this]; exact h.fresh id (by simp [create] at hid; omega)
  · intro id
    by_cases e : id = s.nextId + 1
    · subst e; simp [create]
    · simpa [create, upd, e, State.curId] using h.dead id
  · intro id
    by_cases e : id = s.nextId + 1
    · subst e; have := hf.2.2.2; simpa [create, State.curId] using this
    · simpa [create, upd, e, State.curId] using h.armedOk id
  · simpa [create] using h.nodup
  · intro id hq
    have hq' : id ∈ s.queue := by simpa [create] using hq
    have e : id ≠ s.nextId + 1 := by intro e; subst e; exact hf.2.2.2.1 hq'
    simpa [create, upd, e, State.curId] using h.queueOk id hq'
  · intro id
    by_cases e : id = s.nextId + 1
    · subst e; simp [create]
    · simpa [create, upd, e, State.curId] using h.gone id

theorem wf_cancelTm (s : State) (h : WF s) (x : Nat) : WF (cancelTm s x).1 := by
  unfold cancelTm
  by_cases hm : (s.tm x).inMap = true
  · simp only [hm, if_true]
    constructor
    · intro id hid
      by_cases e : id = x
      · subst e; have := h.fresh id hid; have := h.dead id this; simp_all
      · simpa [upd, e] using h.fresh id hid
    · intro id
      by_cases e : id = x
      · subst e; intro hl; have := h.dead id (by simpa using hl); simp_all
      · simpa [upd, e, State.curId] using h.dead id
    · intro id
      by_cases e : id = x
      · subst e; simp
      · simpa [upd, e, State.curId] using h.armedOk id
    · exact h.nodup
    · intro id hq
      by_cases e : id = x
      · subst e; simpa [State.curId] using h.queueOk id hq
      · simpa [upd, e, State.curId] using h.queueOk id hq
    · intro id
      by_cases e : id = x
      · subst e; simp
      · simpa [upd, e, State.curId] using h.gone id
  · simpa [hm] using h

end Cell2v.Timer
