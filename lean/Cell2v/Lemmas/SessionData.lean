import Cell2v.Model.SessionData
/-!
Helper lemmas for C10: association lists (`lget/lset/ldel/amerge`), the JSON image of a
map, the laws assumed of the abstract values, replay of write events.
-/
namespace Cell2v.SessionData

/-- the laws of the JSON round trip the proofs rely on (validated by the harness on every
generated value: `ASSUMPTION-BROKEN.*` counters) -/
class LawfulJVal (V : Type) extends JVal V where
  norm_idem : ∀ v : V, norm (norm v) = norm v
  rep_norm : ∀ v : V, rep v = true → rep (norm v) = true
  asStr_str : ∀ s : String, asStr (str s) = some s
  /-- a Lean `String` is valid UTF-8: the round trip of a Go string with these bytes is itself -/
  asStr_norm_str : ∀ s : String, asStr (norm (str s)) = some s
  rep_str : ∀ s : String, rep (str s) = true
  rep_net : ∀ n : Nat, rep (net n) = true
  /-- `uint32` → JSON number → `float64` → `uint32` is the identity -/
  asNetF_norm_net : ∀ n : Nat, asNetF (norm (net n)) = some n

instance : LawfulJVal Tok where
  norm_idem v := by cases v <;> rfl
  rep_norm v h := by cases v <;> simp_all [JVal.rep, JVal.norm]
  asStr_str _ := rfl
  asStr_norm_str _ := rfl
  rep_str _ := rfl
  rep_net _ := rfl
  asNetF_norm_net _ := rfl

/-! ### association lists -/

section AL
variable {κ α : Type} [DecidableEq κ]

def keys (m : List (κ × α)) : List κ := m.map (·.1)

@[simp] theorem lget_nil (k : κ) : lget ([] : List (κ × α)) k = none := rfl

theorem lget_lset_same (m : List (κ × α)) (k : κ) (v : α) : lget (lset m k v) k = some v := by
  induction m with
  | nil => simp [lset, lget]
  | cons e m ih =>
    obtain ⟨k', v'⟩ := e
    by_cases h : k' = k
    · simp [lset, lget, h]
    · simp [lset, lget, h, ih]

theorem lget_lset_other (m : List (κ × α)) {k k' : κ} (v : α) (h : k' ≠ k) :
    lget (lset m k v) k' = lget m k' := by
  induction m with
  | nil => simp [lset, lget, Ne.symm h]
  | cons e m ih =>
    obtain ⟨k0, v0⟩ := e
    by_cases h0 : k0 = k
    · subst h0
      simp [lset, lget, Ne.symm h]
    · by_cases h1 : k0 = k'
      · subst h1
        simp [lset, lget, h0]
      · simp [lset, lget, h0, h1, ih]

theorem lget_lset (m : List (κ × α)) (k k' : κ) (v : α) :
    lget (lset m k v) k' = if k' = k then some v else lget m k' := by
  by_cases h : k' = k
  · subst h; simp [lget_lset_same]
  · simp [h, lget_lset_other m v h]

theorem lget_ldel_same (m : List (κ × α)) (k : κ) : lget (ldel m k) k = none := by
  induction m with
  | nil => rfl
  | cons e m ih =>
    obtain ⟨k0, v0⟩ := e
    by_cases h0 : k0 = k
    · simpa [ldel, List.filter, h0] using ih
    · simp only [ldel, List.filter, h0, decide_false, Bool.not_false, lget, if_false]
      simpa [ldel] using ih

theorem lget_ldel_other (m : List (κ × α)) {k k' : κ} (h : k' ≠ k) : lget (ldel m k) k' = lget m k' := by
  induction m with
  | nil => rfl
  | cons e m ih =>
    obtain ⟨k0, v0⟩ := e
    by_cases h0 : k0 = k
    · subst h0
      have : lget ((k0, v0) :: m) k' = lget m k' := by simp [lget, Ne.symm h]
      rw [this]
      simpa [ldel, List.filter] using ih
    · simp only [ldel, List.filter, h0, decide_false, Bool.not_false, lget]
      by_cases h1 : k0 = k'
      · simp [h1]
      · simp only [h1, if_false]
        simpa [ldel] using ih

theorem keys_lset (m : List (κ × α)) (k : κ) (v : α) :
    keys (lset m k v) = if k ∈ keys m then keys m else keys m ++ [k] := by
  induction m with
  | nil => simp [lset, keys]
  | cons e m ih =>
    obtain ⟨k0, v0⟩ := e
    by_cases h0 : k0 = k
    · subst h0; simp [lset, keys]
    · have hk : k ≠ k0 := fun h => h0 h.symm
      simp only [lset, h0, if_false]
      show k0 :: keys (lset m k v) = if k ∈ k0 :: keys m then k0 :: keys m else k0 :: keys m ++ [k]
      rw [ih]
      by_cases hm : k ∈ keys m
      · simp [hm]
      · simp [hm, hk]

theorem nodup_lset {m : List (κ × α)} (k : κ) (v : α) (h : (keys m).Nodup) : (keys (lset m k v)).Nodup := by
  rw [keys_lset]
  by_cases hm : k ∈ keys m
  · simp [hm, h]
  · simp only [hm, if_false]
    exact List.nodup_append.mpr ⟨h, by simp, by intro a ha b hb; simp at hb; subst hb; intro hab; subst hab; exact hm ha⟩

theorem lget_none_of_not_mem {m : List (κ × α)} {k : κ} (h : k ∉ keys m) : lget m k = none := by
  induction m with
  | nil => rfl
  | cons e m ih =>
    obtain ⟨k0, v0⟩ := e
    simp only [keys, List.map_cons, List.mem_cons, not_or] at h
    simp only [lget, Ne.symm h.1, if_false]
    exact ih h.2

theorem mem_keys_of_lget {m : List (κ × α)} {k : κ} {v : α} (h : lget m k = some v) : k ∈ keys m := by
  apply Classical.byContradiction
  intro hn
  rw [lget_none_of_not_mem hn] at h
  cases h

theorem lget_map_val {β : Type} (f : α → β) (m : List (κ × α)) (k : κ) :
    lget (m.map fun e => (e.1, f e.2)) k = (lget m k).map f := by
  induction m with
  | nil => rfl
  | cons e m ih =>
    obtain ⟨k0, v0⟩ := e
    by_cases h0 : k0 = k
    · simp [lget, h0]
    · simp [lget, h0, ih]

omit [DecidableEq κ] in
theorem keys_map_val {β : Type} (f : α → β) (m : List (κ × α)) :
    keys (m.map fun e => (e.1, f e.2)) = keys m := by
  simp [keys, List.map_map, Function.comp_def]

end AL

/-! ### amerge -/

section Merge
variable {V : Type}

theorem amerge_nil (m : AL V) : amerge m [] = m := rfl

theorem amerge_cons (m : AL V) (e : Key × V) (kvs : AL V) : amerge m (e :: kvs) = amerge (lset m e.1 e.2) kvs := rfl

theorem amerge_append (m a b : AL V) : amerge m (a ++ b) = amerge (amerge m a) b := by
  simp [amerge, List.foldl_append]

/-- key-wise merge with a payload whose keys are unique: payload first, else the old value -/
theorem lget_amerge (m kvs : AL V) (k : Key) (h : (keys kvs).Nodup) :
    lget (amerge m kvs) k = match lget kvs k with
      | some v => some v
      | none => lget m k := by
  induction kvs generalizing m with
  | nil => simp [amerge_nil]
  | cons e kvs ih =>
    obtain ⟨k0, v0⟩ := e
    have hnd : (keys kvs).Nodup := by
      simp only [keys, List.map_cons, List.nodup_cons] at h; exact h.2
    have hk0 : k0 ∉ keys kvs := by
      simp only [keys, List.map_cons, List.nodup_cons] at h; exact h.1
    rw [amerge_cons, ih _ hnd]
    by_cases h0 : k0 = k
    · subst h0
      simp [lget, lget_none_of_not_mem hk0, lget_lset_same]
    · have hk : k ≠ k0 := Ne.symm h0
      simp [lget, h0, lget_lset_other m v0 hk]

/-- without the uniqueness assumption: the last binding of the payload wins -/
theorem lget_amerge_snoc (m kvs : AL V) (k0 k : Key) (v0 : V) :
    lget (amerge m (kvs ++ [(k0, v0)])) k = if k = k0 then some v0 else lget (amerge m kvs) k := by
  rw [amerge_append, amerge_cons, amerge_nil, lget_lset]

theorem nodup_amerge {m : AL V} (kvs : AL V) (h : (keys m).Nodup) : (keys (amerge m kvs)).Nodup := by
  induction kvs generalizing m with
  | nil => exact h
  | cons e kvs ih => exact ih (nodup_lset e.1 e.2 h)

theorem amerge_single (m : AL V) (k : Key) (v : V) : amerge m [(k, v)] = lset m k v := rfl

end Merge

/-! ### the JSON image of a map -/

section Json
variable {V : Type} [JVal V]

def allRep (m : AL V) : Prop := ∀ k v, lget m k = some v → JVal.rep v = true

theorem toJson_some_of_all {m : AL V} (h : m.all (fun e => JVal.rep e.2) = true) :
    SData.toJson m = some (m.map fun e => (e.1, JVal.norm e.2)) := by
  simp [SData.toJson, h]

theorem all_rep_of_allRep {m : AL V} (hn : (keys m).Nodup) (h : allRep m) :
    m.all (fun e => JVal.rep e.2) = true := by
  induction m with
  | nil => rfl
  | cons e m ih =>
    obtain ⟨k0, v0⟩ := e
    have hk0 : k0 ∉ keys m := by simp only [keys, List.map_cons, List.nodup_cons] at hn; exact hn.1
    have hnd : (keys m).Nodup := by simp only [keys, List.map_cons, List.nodup_cons] at hn; exact hn.2
    simp only [List.all_cons, Bool.and_eq_true]
    refine ⟨h k0 v0 (by simp [lget]), ih hnd ?_⟩
    intro k v hk
    apply h k v
    have : k0 ≠ k := by
      intro heq; subst heq; exact hk0 (mem_keys_of_lget hk)
    simp [lget, this, hk]

theorem allRep_of_all {m : AL V} (h : m.all (fun e => JVal.rep e.2) = true) : allRep m := by
  induction m with
  | nil => intro k v hk; cases hk
  | cons e m ih =>
    obtain ⟨k0, v0⟩ := e
    simp only [List.all_cons, Bool.and_eq_true] at h
    intro k v hk
    by_cases h0 : k0 = k
    · simp [lget, h0] at hk; subst hk; exact h.1
    · simp [lget, h0] at hk; exact ih h.2 k v hk

theorem toJson_eq_some {m : AL V} (hn : (keys m).Nodup) (h : allRep m) :
    SData.toJson m = some (m.map fun e => (e.1, JVal.norm e.2)) :=
  toJson_some_of_all (all_rep_of_allRep hn h)

theorem toJson_some_inv {m j : AL V} (h : SData.toJson m = some j) :
    j = (m.map fun e => (e.1, JVal.norm e.2)) ∧ allRep m := by
  unfold SData.toJson at h
  split at h
  · next hall => exact ⟨by cases h; rfl, allRep_of_all hall⟩
  · cases h

theorem lget_toJson {m j : AL V} (h : SData.toJson m = some j) (k : Key) :
    lget j k = (lget m k).map JVal.norm := by
  rw [(toJson_some_inv h).1, lget_map_val]

theorem keys_toJson {m j : AL V} (h : SData.toJson m = some j) : keys j = keys m := by
  rw [(toJson_some_inv h).1, keys_map_val]

end Json

/-! ### replay of events on one connection -/

section Replay
variable {V : Type} [JVal V]

/-- effect of one event on the map of connection `c` (`none` = not live) -/
def applyEv (c : Conn) (cur : Option (AL V)) : Ev V → Option (AL V)
  | .opened c' => if c' = c then some (frontNew c) else cur
  | .closed c' => if c' = c then none else cur
  | .write c' kvs => if c' = c then cur.map (fun m => amerge m kvs) else cur
  | .fwd _ _ _ _ _ => cur

/-- the map of `c` after a sequence of events, starting from `cur` -/
def replay (c : Conn) (cur : Option (AL V)) (evs : List (Ev V)) : Option (AL V) := evs.foldl (applyEv c) cur

@[simp] theorem replay_nil (c : Conn) (cur : Option (AL V)) : replay c cur [] = cur := rfl

theorem replay_append (c : Conn) (cur : Option (AL V)) (a b : List (Ev V)) :
    replay c cur (a ++ b) = replay c (replay c cur a) b := by
  simp [replay, List.foldl_append]

theorem replay_cons (c : Conn) (cur : Option (AL V)) (e : Ev V) (b : List (Ev V)) :
    replay c cur (e :: b) = replay c (applyEv c cur e) b := rfl

/-- the connection an event concerns -/
def Ev.conn : Ev V → Conn
  | .opened c => c
  | .closed c => c
  | .write c _ => c
  | .fwd c _ _ _ _ => c

theorem applyEv_other {c : Conn} (cur : Option (AL V)) {e : Ev V} (h : e.conn ≠ c ∨ (∃ a b d f g, e = .fwd a b d f g)) :
    applyEv c cur e = cur := by
  cases e with
  | opened c' => cases h with
    | inl h => simp [applyEv, Ev.conn] at *; simp [h]
    | inr h => obtain ⟨_, _, _, _, _, h⟩ := h; cases h
  | closed c' => cases h with
    | inl h => simp [applyEv, Ev.conn] at *; simp [h]
    | inr h => obtain ⟨_, _, _, _, _, h⟩ := h; cases h
  | write c' kvs => cases h with
    | inl h => simp [applyEv, Ev.conn] at *; simp [h]
    | inr h => obtain ⟨_, _, _, _, _, h⟩ := h; cases h
  | fwd => rfl

theorem replay_other {c : Conn} (cur : Option (AL V)) (evs : List (Ev V)) (h : ∀ e ∈ evs, e.conn ≠ c) :
    replay c cur evs = cur := by
  induction evs generalizing cur with
  | nil => rfl
  | cons e evs ih =>
    rw [replay_cons, applyEv_other cur (Or.inl (h e (by simp)))]
    exact ih cur (fun e' he' => h e' (by simp [he']))

end Replay

end Cell2v.SessionData

namespace Cell2v.SessionData

/-! ### more association-list facts -/

section AL2
variable {κ α : Type} [DecidableEq κ]

theorem not_mem_keys_of_lget_none {m : List (κ × α)} {k : κ} (h : lget m k = none) : k ∉ keys m := by
  induction m with
  | nil => simp [keys]
  | cons e m ih =>
    obtain ⟨k0, v0⟩ := e
    by_cases h0 : k0 = k
    · simp [lget, h0] at h
    · simp only [lget, h0, if_false] at h
      simp only [keys, List.map_cons, List.mem_cons, not_or]
      exact ⟨Ne.symm h0, ih h⟩

end AL2

section Merge2
variable {V : Type}

theorem lget_amerge_of_not_mem (m kvs : AL V) {k : Key} (h : k ∉ keys kvs) : lget (amerge m kvs) k = lget m k := by
  induction kvs generalizing m with
  | nil => rfl
  | cons e kvs ih =>
    obtain ⟨k0, v0⟩ := e
    simp only [keys, List.map_cons, List.mem_cons, not_or] at h
    rw [amerge_cons, ih _ h.2, lget_lset_other m v0 h.1]

variable [JVal V]

theorem allRep_lset {m : AL V} {k : Key} {v : V} (h : allRep m) (hv : JVal.rep v = true) : allRep (lset m k v) := by
  intro k' v' hk
  rw [lget_lset] at hk
  by_cases h0 : k' = k
  · simp [h0] at hk; subst hk; exact hv
  · simp [h0] at hk; exact h k' v' hk

theorem allRep_amerge {m kvs : AL V} (h : allRep m) (hk : ∀ e ∈ kvs, JVal.rep e.2 = true) : allRep (amerge m kvs) := by
  induction kvs generalizing m with
  | nil => exact h
  | cons e kvs ih =>
    rw [amerge_cons]
    exact ih (allRep_lset h (hk e (by simp))) (fun e' he' => hk e' (by simp [he']))

theorem allRep_nil : allRep ([] : AL V) := by intro k v h; cases h

end Merge2

/-! ### invariants of reachable states

`g = false`: what holds over ALL histories (maps have unique keys).
`g = true` : what holds over histories inside the guard — handlers never `Set` the reserved
keys `_ServerId` / `_NetId` and only set JSON-representable values: reserved keys keep
naming the connection, everything stored is representable, no session has a reserved key
waiting to be pushed. -/

section Inv
variable {V : Type} [LawfulJVal V]

def GuardSOp (g : Bool) : SOp V → Prop
  | .set k v => g = true → (k ≠ KeyServerId ∧ k ≠ KeyNetId ∧ JVal.rep v = true)
  | _ => True

def GuardScript (g : Bool) (sc : List (SOp V)) : Prop := ∀ op ∈ sc, GuardSOp g op

def GuardOp (g : Bool) : Op V → Prop
  | .req _ _ _ sc => GuardScript g sc
  | .on _ sc => GuardScript g sc
  | .pOnF _ sc => GuardScript g sc
  | .pOnB _ sc => GuardScript g sc
  | _ => True

structure MapInv (g : Bool) (c : Conn) (m : AL V) : Prop where
  nd : (keys m).Nodup
  sid : g = true → lget m KeyServerId = some (JVal.str c.1)
  nid : g = true → lget m KeyNetId = some (JVal.net c.2)
  rep : g = true → allRep m

structure BackInv (g : Bool) (b : Back V) : Prop where
  ndD : (keys b.data).Nodup
  ndN : (keys b.newData).Nodup
  repD : g = true → allRep b.data
  repN : g = true → allRep b.newData
  noSid : g = true → lget b.newData KeyServerId = none
  noNid : g = true → lget b.newData KeyNetId = none

structure Inv (g : Bool) (s : State V) : Prop where
  fronts : ∀ c m, lget s.fronts c = some m → MapInv g c m
  handles : ∀ h b, lget s.handles h = some b → BackInv g b

def SessInv (g : Bool) : Sess V → Prop
  | .front _ => True
  | .back b => BackInv g b

theorem inv_init (g : Bool) : Inv g (State.init : State V) :=
  ⟨(by intro c m h; cases h), (by intro h b hh; cases hh)⟩

theorem keyUId_ne_sid : KeyUId ≠ KeyServerId := by decide
theorem keyUId_ne_nid : KeyUId ≠ KeyNetId := by decide
theorem keyNid_ne_sid : KeyNetId ≠ KeyServerId := by decide

theorem mapInv_frontNew (g : Bool) (c : Conn) : MapInv g c (frontNew c : AL V) := by
  refine ⟨?_, ?_, ?_, ?_⟩
  · exact nodup_lset _ _ (nodup_lset _ _ (by simp [keys]))
  · intro _; simp [frontNew, lget_lset, keyNid_ne_sid.symm]
  · intro _; simp [frontNew, lget_lset]
  · intro _
    exact allRep_lset (allRep_lset allRep_nil (LawfulJVal.rep_str _)) (LawfulJVal.rep_net _)

theorem mapInv_lset {g : Bool} {c : Conn} {m : AL V} {k : Key} {v : V} (h : MapInv g c m)
    (hg : g = true → (k ≠ KeyServerId ∧ k ≠ KeyNetId ∧ JVal.rep v = true)) : MapInv g c (lset m k v) := by
  refine ⟨nodup_lset _ _ h.nd, ?_, ?_, ?_⟩
  · intro hg'; rw [lget_lset_other m v (Ne.symm (hg hg').1)]; exact h.sid hg'
  · intro hg'; rw [lget_lset_other m v (Ne.symm (hg hg').2.1)]; exact h.nid hg'
  · intro hg'; exact allRep_lset (h.rep hg') (hg hg').2.2

/-- a push payload: the JSON image of a session's NewData -/
theorem mapInv_amerge_payload {g : Bool} {c : Conn} {m nd kvs : AL V} (h : MapInv g c m)
    (hnd : (keys nd).Nodup) (hj : SData.toJson nd = some kvs)
    (hs : g = true → lget nd KeyServerId = none) (hn : g = true → lget nd KeyNetId = none) :
    MapInv g c (amerge m kvs) := by
  have hk : (keys kvs).Nodup := by rw [keys_toJson hj]; exact hnd
  refine ⟨nodup_amerge _ h.nd, ?_, ?_, ?_⟩
  · intro hg
    rw [lget_amerge _ _ _ hk, lget_toJson hj, hs hg]; exact h.sid hg
  · intro hg
    rw [lget_amerge _ _ _ hk, lget_toJson hj, hn hg]; exact h.nid hg
  · intro hg
    apply allRep_amerge (h.rep hg)
    intro e he
    have hinv := toJson_some_inv hj
    rw [hinv.1] at he
    simp only [List.mem_map] at he
    obtain ⟨e0, he0, rfl⟩ := he
    apply LawfulJVal.rep_norm
    have hall : nd.all (fun e => JVal.rep e.2) = true := by
      unfold SData.toJson at hj
      split at hj
      · assumption
      · cases hj
    exact (List.all_eq_true.mp hall) e0 he0

theorem backInv_init (g : Bool) (ns sid : String) (n : Nat) (id : String) : BackInv g (Back.init ns sid n id : Back V) := by
  refine ⟨nodup_lset _ _ (by simp [keys]), by simp [Back.init, keys], ?_, ?_, ?_, ?_⟩
  · intro _; exact allRep_lset allRep_nil (LawfulJVal.rep_str _)
  · intro _; exact allRep_nil
  · intro _; rfl
  · intro _; rfl

theorem backInv_set {g : Bool} {b : Back V} {k : Key} {v : V} (h : BackInv g b)
    (hg : g = true → (k ≠ KeyServerId ∧ k ≠ KeyNetId ∧ JVal.rep v = true)) : BackInv g (b.set k v) := by
  refine ⟨h.ndD, nodup_lset _ _ h.ndN, h.repD, ?_, ?_, ?_⟩
  · intro hg'; exact allRep_lset (h.repN hg') (hg hg').2.2
  · intro hg'; show lget (lset b.newData k v) KeyServerId = none
    rw [lget_lset_other _ v (Ne.symm (hg hg').1)]; exact h.noSid hg'
  · intro hg'; show lget (lset b.newData k v) KeyNetId = none
    rw [lget_lset_other _ v (Ne.symm (hg hg').2.1)]; exact h.noNid hg'

/-- `FromJson` only changes Data (by a merge), ServerId and NetId -/
theorem fromJson_fields (b : Back V) (j : Option (AL V)) :
    (b.fromJson j).1.newData = b.newData ∧ (b.fromJson j).1.dirt = b.dirt ∧ (b.fromJson j).1.ns = b.ns ∧
    (b.fromJson j).1.data = SData.updateFromJson b.data j := by
  unfold Back.fromJson
  simp only
  split
  · simp
  · split
    · simp
    · split <;> simp

theorem backInv_fromJson {g : Bool} {b : Back V} {m : AL V} (h : BackInv g b)
    (_hm : g = true → allRep m) : BackInv g (b.fromJson (SData.toJson m)).1 := by
  obtain ⟨hn, _, _, hd⟩ := fromJson_fields b (SData.toJson m)
  refine ⟨?_, by rw [hn]; exact h.ndN, ?_, by rw [hn]; exact h.repN, by rw [hn]; exact h.noSid, by rw [hn]; exact h.noNid⟩
  · rw [hd]
    cases hj : SData.toJson m with
    | none => exact h.ndD
    | some kvs => exact nodup_amerge _ h.ndD
  · intro hg
    rw [hd]
    cases hj : SData.toJson m with
    | none => exact h.repD hg
    | some kvs =>
      apply allRep_amerge (h.repD hg)
      intro e he
      rw [(toJson_some_inv hj).1] at he
      simp only [List.mem_map] at he
      obtain ⟨e0, he0, rfl⟩ := he
      apply LawfulJVal.rep_norm
      have hall : m.all (fun e => JVal.rep e.2) = true := by
        unfold SData.toJson at hj
        split at hj
        · assumption
        · cases hj
      exact (List.all_eq_true.mp hall) e0 he0

theorem backInv_fromJson_none {g : Bool} {b : Back V} (h : BackInv g b) : BackInv g (b.fromJson none).1 := by
  obtain ⟨hn, _, _, hd⟩ := fromJson_fields b none
  exact ⟨by rw [hd]; exact h.ndD, by rw [hn]; exact h.ndN, by rw [hd]; exact h.repD, by rw [hn]; exact h.repN,
    by rw [hn]; exact h.noSid, by rw [hn]; exact h.noNid⟩

/-- delivering a session's NewData keeps the invariant -/
theorem inv_deliver {g : Bool} {s : State V} {b : Back V} (c : Conn) (hs : Inv g s) (hb : BackInv g b) :
    Inv g (deliver s c (SData.toJson b.newData)).1 := by
  unfold deliver
  cases hm : lget s.fronts c with
  | none => exact hs
  | some m =>
    cases hj : SData.toJson b.newData with
    | none => exact hs
    | some kvs =>
      refine ⟨?_, hs.handles⟩
      intro c' m' h'
      simp only at h'
      rw [lget_lset] at h'
      by_cases hc : c' = c
      · subst hc
        simp at h'
        subst h'
        exact mapInv_amerge_payload (hs.fronts _ _ hm) hb.ndN hj hb.noSid hb.noNid
      · simp [hc] at h'
        exact hs.fronts _ _ h'

omit [LawfulJVal V] in
theorem deliver_handles (s : State V) (c : Conn) (j : Option (AL V)) :
    (deliver s c j).1.handles = s.handles ∧ (deliver s c j).1.next = s.next := by
  unfold deliver
  split <;> simp

omit [LawfulJVal V] in
theorem markClosing_fields (s : State V) (c : Conn) :
    (markClosing s c).fronts = s.fronts ∧ (markClosing s c).handles = s.handles ∧
    (markClosing s c).next = s.next ∧ (markClosing s c).away = s.away := by
  unfold markClosing; split <;> simp

omit [LawfulJVal V] in
theorem backKick_fields (cfg : Cfg) (s : State V) (b : Back V) :
    (backKick cfg s b).fronts = s.fronts ∧ (backKick cfg s b).handles = s.handles ∧
    (backKick cfg s b).next = s.next ∧ (backKick cfg s b).away = s.away := by
  unfold backKick
  split
  · simp
  · split
    · simp
    · exact markClosing_fields _ _

theorem inv_markClosing {g : Bool} {s : State V} (c : Conn) (hs : Inv g s) : Inv g (markClosing s c) :=
  ⟨by rw [(markClosing_fields s c).1]; exact hs.fronts, by rw [(markClosing_fields s c).2.1]; exact hs.handles⟩

theorem inv_backKick {g : Bool} {s : State V} (cfg : Cfg) (b : Back V) (hs : Inv g s) : Inv g (backKick cfg s b) :=
  ⟨by rw [(backKick_fields cfg s b).1]; exact hs.fronts, by rw [(backKick_fields cfg s b).2.1]; exact hs.handles⟩

/-- one statement keeps the invariants -/
theorem sstep_inv {g : Bool} (cfg : Cfg) {s : State V} {sess : Sess V} (kept : Option String) {op : SOp V}
    (hs : Inv g s) (hse : SessInv g sess) (hg : GuardSOp g op) :
    Inv g (sstep cfg s sess kept op).st ∧ SessInv g (sstep cfg s sess kept op).sess := by
  cases sess with
  | front c =>
    simp only [sstep, sstepFront]
    cases hm : lget s.fronts c with
    | none => exact ⟨hs, trivial⟩
    | some m =>
      have setCase : ∀ (k : Key) (v : V), (g = true → (k ≠ KeyServerId ∧ k ≠ KeyNetId ∧ JVal.rep v = true)) →
          Inv g ({ s with fronts := lset s.fronts c (lset m k v) } : State V) := by
        intro k v hkv
        refine ⟨?_, hs.handles⟩
        intro c' m' h'
        simp only at h'
        rw [lget_lset] at h'
        by_cases hc : c' = c
        · subst hc; simp at h'; subst h'
          exact mapInv_lset (hs.fronts _ _ hm) hkv
        · simp [hc] at h'; exact hs.fronts _ _ h'
      cases op with
      | set k v => exact ⟨setCase k v hg, trivial⟩
      | bind uid =>
        exact ⟨setCase KeyUId (JVal.str uid) (fun _ => ⟨keyUId_ne_sid, keyUId_ne_nid, LawfulJVal.rep_str _⟩), trivial⟩
      | kick =>
        simp only
        split
        · exact ⟨inv_markClosing _ hs, trivial⟩
        · exact ⟨hs, trivial⟩
      | _ => exact ⟨hs, trivial⟩
  | back b =>
    have hb : BackInv g b := hse
    simp only [sstep]
    cases op with
    | get k => exact ⟨hs, hb⟩
    | set k v => exact ⟨hs, backInv_set hb hg⟩
    | bind uid =>
      exact ⟨hs, backInv_set hb (fun _ => ⟨keyUId_ne_sid, keyUId_ne_nid, LawfulJVal.rep_str _⟩)⟩
    | id => exact ⟨hs, hb⟩
    | json => exact ⟨hs, hb⟩
    | push =>
      simp only [sstepBack]
      split
      · exact ⟨hs, hb⟩
      · simp only [backPush]
        split
        · exact ⟨hs, hb⟩
        · split
          · exact ⟨hs, ⟨hb.ndD, hb.ndN, hb.repD, hb.repN, hb.noSid, hb.noNid⟩⟩
          · exact ⟨inv_deliver _ hs hb, ⟨hb.ndD, hb.ndN, hb.repD, hb.repN, hb.noSid, hb.noNid⟩⟩
    | pushNW =>
      simp only [sstepBack]
      split
      · exact ⟨hs, hb⟩
      · simp only [backPush]
        split
        · exact ⟨hs, hb⟩
        · split
          · exact ⟨hs, ⟨hb.ndD, hb.ndN, hb.repD, hb.repN, hb.noSid, hb.noNid⟩⟩
          · exact ⟨inv_deliver _ hs hb, ⟨hb.ndD, hb.ndN, hb.repD, hb.repN, hb.noSid, hb.noNid⟩⟩
    | query =>
      simp only [sstepBack]
      split
      · exact ⟨hs, hb⟩
      · simp only [backQuery]
        split
        · exact ⟨hs, hb⟩
        · split
          · exact ⟨hs, hb⟩
          · next m hm => exact ⟨hs, backInv_fromJson hb (fun hg' => (hs.fronts _ _ hm).rep hg')⟩
    | keep h =>
      simp only [sstepBack]
      split
      · exact ⟨hs, hb⟩
      · split <;> exact ⟨hs, hb⟩
    | pushTo c =>
      simp only [sstepBack]
      split
      · exact ⟨hs, hb⟩
      · exact ⟨inv_deliver _ hs hb, hb⟩
    | fromF c =>
      simp only [sstepBack]
      split
      · exact ⟨hs, hb⟩
      · next m hm => exact ⟨hs, backInv_fromJson hb (fun hg' => (hs.fronts _ _ hm).rep hg')⟩
    | fromRaw => exact ⟨hs, backInv_fromJson_none hb⟩
    | updRaw => exact ⟨hs, hb⟩
    | kick =>
      simp only [sstepBack]
      split
      · exact ⟨hs, hb⟩
      · exact ⟨inv_backKick cfg b hs, hb⟩
    | busy => exact ⟨hs, hb⟩
    | clone h =>
      simp only [sstepBack]
      split
      · exact ⟨hs, hb⟩
      · split
        · exact ⟨hs, hb⟩
        · split
          · exact ⟨hs, hb⟩
          · refine ⟨⟨hs.fronts, ?_⟩, hb⟩
            intro h' b' hh
            simp only at hh
            rw [lget_lset] at hh
            split at hh
            · cases hh; exact backInv_init g _ _ _ _
            · exact hs.handles _ _ hh

theorem runScript_inv {g : Bool} (cfg : Cfg) {s : State V} {sess : Sess V} (kept : Option String) (sc : List (SOp V))
    (hs : Inv g s) (hse : SessInv g sess) (hg : GuardScript g sc) :
    Inv g (runScript cfg s sess kept sc).st ∧ SessInv g (runScript cfg s sess kept sc).sess := by
  induction sc generalizing s sess kept with
  | nil => exact ⟨hs, hse⟩
  | cons op ops ih =>
    have h1 := sstep_inv cfg kept hs hse (hg op (by simp))
    exact ih _ h1.1 h1.2 (fun o ho => hg o (by simp [ho]))

theorem inv_storeKept {g : Bool} {s : State V} {sess : Sess V} (kept : Option String)
    (hs : Inv g s) (hse : SessInv g sess) : Inv g (storeKept s sess kept) := by
  unfold storeKept
  split
  · next h b =>
    refine ⟨hs.fronts, ?_⟩
    intro h' b' hh
    simp only at hh
    rw [lget_lset] at hh
    by_cases hc : h' = h
    · simp [hc] at hh; subst hh; exact hse
    · simp [hc] at hh; exact hs.handles _ _ hh
  · exact hs

theorem step_inv {g : Bool} (cfg : Cfg) {s : State V} {op : Op V} (hs : Inv g s) (hg : GuardOp g op) :
    Inv g (step cfg dr s op).st := by
  cases op with
  | openC f =>
    simp only [step]
    split
    · exact hs
    · refine ⟨?_, hs.handles⟩
      intro c' m' h'
      simp only at h'
      rw [lget_lset] at h'
      split at h'
      · next hc => cases h'; subst hc; exact mapInv_frontNew g _
      · exact hs.fronts _ _ h'
  | closeC c =>
    simp only [step]
    split
    · exact hs
    · split
      · exact hs
      · exact inv_markClosing _ hs
  | req c svcType ntf script =>
    simp only [step, stepReq]
    split
    · exact hs
    · split
      · exact hs
      · split
        · exact (runScript_inv cfg none script hs (by trivial) hg).1
        · split
          · exact hs
          · split
            · exact hs
            · split
              · exact hs
              · refine inv_storeKept _ (runScript_inv cfg none script hs ?_ hg).1 (runScript_inv cfg none script hs ?_ hg).2
                all_goals exact backInv_init g _ _ _ _
  | mk h at_ c uid =>
    simp only [step]
    split
    · refine ⟨hs.fronts, ?_⟩
      intro h' b' hh
      simp only at hh
      rw [lget_lset] at hh
      split at hh
      · cases hh; exact backInv_init g _ _ _ _
      · exact hs.handles _ _ hh
    · exact hs
  | on h script =>
    simp only [step]
    split
    · exact hs
    · next b hb =>
      split
      · exact hs
      · have h := runScript_inv cfg (some h) script hs (sess := .back b) (hs.handles _ _ hb) hg
        exact inv_storeKept _ h.1 h.2
  | snap => exact hs
  | topo away sts => exact ⟨hs.fronts, hs.handles⟩
  | pMkf c =>
    simp only [step]
    split
    · exact hs
    · refine ⟨?_, hs.handles⟩
      intro c' m' h'
      simp only at h'
      rw [lget_lset] at h'
      split at h'
      · next hc => cases h'; subst hc; exact mapInv_frontNew g _
      · exact hs.fronts _ _ h'
  | pMkb h c uid =>
    simp only [step]
    split
    · exact hs
    · refine ⟨hs.fronts, ?_⟩
      intro h' b' hh
      simp only at hh
      rw [lget_lset] at hh
      split at hh
      · cases hh; exact backInv_init g _ _ _ _
      · exact hs.handles _ _ hh
  | pOnF c script =>
    simp only [step]
    split
    · exact hs
    · split
      · exact hs
      · exact (runScript_inv cfg none script hs (by trivial) hg).1
  | pOnB h script =>
    simp only [step]
    split
    · exact hs
    · next b hb =>
      split
      · exact hs
      · have h := runScript_inv cfg (some h) script hs (sess := .back b) (hs.handles _ _ hb) hg
        exact inv_storeKept _ h.1 h.2

/-- the queued removals keep the invariants (they only delete) -/
theorem inv_removeOne {g : Bool} {acc : State V × List (Conn × AL V)} (c : Conn) (hs : Inv g acc.1) :
    Inv g (removeOne acc c).1 := by
  unfold removeOne
  split
  · refine ⟨?_, hs.handles⟩
    intro c' m' h'
    simp only at h'
    by_cases hc : c' = c
    · subst hc; rw [lget_ldel_same] at h'; cases h'
    · rw [lget_ldel_other _ hc] at h'; exact hs.fronts _ _ h'
  · exact hs

theorem inv_flush {g : Bool} {s : State V} (hs : Inv g s) : Inv g (flush s).1 := by
  unfold flush
  have h0 : Inv g ({ s with closing := [] } : State V) := ⟨hs.fronts, hs.handles⟩
  generalize ({ s with closing := [] } : State V) = s0 at h0
  induction s.closing with
  | nil => exact h0
  | cons c l ih => exact inv_removeOne c ih

theorem stepF_inv {g : Bool} (cfg : Cfg) {s : State V} {op : Op V} (hs : Inv g s) (hg : GuardOp g op) :
    Inv g (stepF cfg dr s op).st := inv_flush (step_inv cfg hs hg)

theorem run_inv {g : Bool} (cfg : Cfg) {s : State V} (ops : List (Op V)) (hs : Inv g s)
    (hg : ∀ op ∈ ops, GuardOp g op) : Inv g (run cfg vw s ops).1 := by
  induction ops generalizing s vw with
  | nil => exact hs
  | cons op ops ih =>
    exact ih (stepF_inv cfg hs (hg op (by simp))) (fun o ho => hg o (by simp [ho]))

end Inv

end Cell2v.SessionData

namespace Cell2v.SessionData

/-! ### the state is the replay of the events; frame -/

section Hist
variable {V : Type} [JVal V]

theorem deliver_replay (s : State V) (c0 : Conn) (j : Option (AL V)) (c : Conn) :
    lget (deliver s c0 j).1.fronts c = replay c (lget s.fronts c) (deliver s c0 j).2 := by
  unfold deliver
  cases hm : lget s.fronts c0 with
  | none => simp
  | some m =>
    cases j with
    | none => simp
    | some kvs =>
      simp only [replay, List.foldl_cons, List.foldl_nil, applyEv]
      by_cases hc : c0 = c
      · subst hc; simp [lget_lset_same, hm]
      · have : c ≠ c0 := Ne.symm hc
        simp [hc, lget_lset_other _ _ this]

/-- every event of a delivery concerns the addressed connection -/
theorem deliver_evs_conn (s : State V) (c0 : Conn) (j : Option (AL V)) :
    ∀ e ∈ (deliver s c0 j).2, e.conn = c0 := by
  unfold deliver
  split <;> simp [Ev.conn]

/-- the connections a statement may write: the session's own target (pure layer: the named object) -/
def stmtTarget (sess : Sess V) : SOp V → Conn
  | .pushTo c => c
  | _ => sess.target

theorem sstep_replay (cfg : Cfg) (s : State V) (sess : Sess V) (kept : Option String) (op : SOp V) (c : Conn) :
    lget (sstep cfg s sess kept op).st.fronts c = replay c (lget s.fronts c) (sstep cfg s sess kept op).evs := by
  cases sess with
  | front c0 =>
    simp only [sstep, sstepFront]
    cases hm : lget s.fronts c0 with
    | none => simp
    | some m =>
      have setCase : ∀ (k : Key) (v : V),
          lget (lset s.fronts c0 (lset m k v)) c = replay c (lget s.fronts c) [Ev.write c0 [(k, v)]] := by
        intro k v
        simp only [replay, List.foldl_cons, List.foldl_nil, applyEv]
        by_cases hc : c0 = c
        · subst hc; simp [lget_lset_same, hm, amerge_single]
        · have : c ≠ c0 := Ne.symm hc
          simp [hc, lget_lset_other _ _ this]
      cases op <;> first | exact setCase _ _ | (simp; done) | (by_cases hF : cfg.isFront c0.1 = true <;> simp [hF, (markClosing_fields s c0).1])
  | back b =>
    simp only [sstep]
    cases op with
    | clone h =>
      simp only [sstepBack]
      split
      · simp
      · split
        · simp
        · split <;> simp
    | kick =>
      simp only [sstepBack]
      split
      · simp
      · simp [(backKick_fields cfg s b).1]
    | push =>
      simp only [sstepBack]
      split
      · simp
      · simp only [backPush]
        split
        · simp
        · split
          · simp
          · exact deliver_replay _ _ _ _
    | pushNW =>
      simp only [sstepBack]
      split
      · simp
      · simp only [backPush]
        split
        · simp
        · split
          · simp
          · exact deliver_replay _ _ _ _
    | query =>
      simp only [sstepBack]
      split
      · simp
      · simp
    | keep h =>
      simp only [sstepBack]
      split
      · simp
      · split <;> simp
    | pushTo c0 =>
      simp only [sstepBack]
      split
      · simp
      · exact deliver_replay _ _ _ _
    | fromF c0 =>
      simp only [sstepBack]
      split <;> simp
    | _ => simp [sstepBack]

/-- a statement writes at most the map of its target -/
theorem sstep_evs_conn (cfg : Cfg) (s : State V) (sess : Sess V) (kept : Option String) (op : SOp V) :
    ∀ e ∈ (sstep cfg s sess kept op).evs, e.conn = stmtTarget sess op := by
  cases sess with
  | front c0 =>
    simp only [sstep, sstepFront]
    cases hm : lget s.fronts c0 with
    | none => simp
    | some m => cases op <;> first | (simp [Ev.conn, stmtTarget, Sess.target]; done) | (by_cases hF : cfg.isFront c0.1 = true <;> simp [hF])
  | back b =>
    simp only [sstep]
    cases op with
    | clone h =>
      simp only [sstepBack]
      split
      · simp
      · split
        · simp
        · split <;> simp
    | kick =>
      simp only [sstepBack]
      split <;> simp
    | push =>
      simp only [sstepBack]
      split
      · simp
      · simp only [backPush]
        split
        · simp
        · split
          · simp
          · exact deliver_evs_conn _ _ _
    | pushNW =>
      simp only [sstepBack]
      split
      · simp
      · simp only [backPush]
        split
        · simp
        · split
          · simp
          · exact deliver_evs_conn _ _ _
    | query =>
      simp only [sstepBack]
      split <;> simp
    | keep h =>
      simp only [sstepBack]
      split
      · simp
      · split <;> simp
    | pushTo c0 =>
      simp only [sstepBack]
      split
      · simp
      · exact deliver_evs_conn _ _ _
    | fromF c0 =>
      simp only [sstepBack]
      split <;> simp
    | _ => simp [sstepBack]

/-- statements never touch the id allocator, and the handle table only by `clone` (under the clone's name) -/
theorem sstep_handles (cfg : Cfg) (s : State V) (sess : Sess V) (kept : Option String) (op : SOp V)
    (hc : ∀ h, op ≠ .clone h) :
    (sstep cfg s sess kept op).st.handles = s.handles ∧ (sstep cfg s sess kept op).st.next = s.next := by
  cases sess with
  | front c0 =>
    simp only [sstep, sstepFront]
    cases hm : lget s.fronts c0 with
    | none => simp
    | some m => cases op <;> first | (simp; done) | (by_cases hF : cfg.isFront c0.1 = true <;> simp [hF, (markClosing_fields s c0).2.1, (markClosing_fields s c0).2.2.1])
  | back b =>
    simp only [sstep]
    cases op with
    | clone h => exact absurd rfl (hc h)
    | kick =>
      simp only [sstepBack]
      split
      · simp
      · simp [(backKick_fields cfg s b).2.1, (backKick_fields cfg s b).2.2.1]
    | push =>
      simp only [sstepBack]
      split
      · simp
      · simp only [backPush]
        split
        · simp
        · split
          · simp
          · exact deliver_handles _ _ _
    | pushNW =>
      simp only [sstepBack]
      split
      · simp
      · simp only [backPush]
        split
        · simp
        · split
          · simp
          · exact deliver_handles _ _ _
    | query =>
      simp only [sstepBack]
      split <;> simp
    | keep h =>
      simp only [sstepBack]
      split
      · simp
      · split <;> simp
    | pushTo c0 =>
      simp only [sstepBack]
      split
      · simp
      · exact deliver_handles _ _ _
    | fromF c0 =>
      simp only [sstepBack]
      split <;> simp
    | _ => simp [sstepBack]

theorem runScript_replay (cfg : Cfg) (s : State V) (sess : Sess V) (kept : Option String) (sc : List (SOp V)) (c : Conn) :
    lget (runScript cfg s sess kept sc).st.fronts c = replay c (lget s.fronts c) (runScript cfg s sess kept sc).evs := by
  induction sc generalizing s sess kept with
  | nil => simp [runScript]
  | cons op ops ih =>
    simp only [runScript]
    rw [replay_append, ← sstep_replay, ih]

theorem storeKept_fronts (s : State V) (sess : Sess V) (kept : Option String) :
    (storeKept s sess kept).fronts = s.fronts := by
  unfold storeKept; split <;> rfl

theorem step_replay (cfg : Cfg) (s : State V) (op : Op V) (c : Conn) :
    lget (step cfg dr s op).st.fronts c = replay c (lget s.fronts c) (step cfg dr s op).evs := by
  cases op with
  | openC f =>
    simp only [step]
    split
    · simp
    · simp only [replay, List.foldl_cons, List.foldl_nil, applyEv]
      rw [lget_lset]
      by_cases hc : c = (f, (lget s.next f).getD 0 + 1)
      · simp [hc]
      · have : ¬ (f, (lget s.next f).getD 0 + 1) = c := fun h => hc h.symm
        simp [hc, this]
  | closeC c0 =>
    simp only [step]
    split
    · simp
    · split
      · simp
      · simp [(markClosing_fields s c0).1]
  | req c0 svcType ntf script =>
    simp only [step, stepReq]
    split
    · simp
    · split
      · simp
      · split
        · exact runScript_replay _ _ _ _ _ _
        · split
          · simp
          · split
            · simp
            · split
              · simp
              · rw [storeKept_fronts, replay_cons]
                simp only [applyEv]
                exact runScript_replay _ _ _ _ _ _
  | mk h at_ c0 uid =>
    simp only [step]
    split <;> simp
  | on h script =>
    simp only [step]
    split
    · simp
    · split
      · simp
      · rw [storeKept_fronts]; exact runScript_replay _ _ _ _ _ _
  | snap => simp [step]
  | topo away sts => simp [step]
  | pMkf c0 =>
    simp only [step]
    split
    · simp
    · simp only [replay, List.foldl_cons, List.foldl_nil, applyEv]
      rw [lget_lset]
      by_cases hc : c = c0
      · simp [hc]
      · have : ¬ c0 = c := fun h => hc h.symm
        simp [hc, this]
  | pMkb h c0 uid =>
    simp only [step]
    split <;> simp
  | pOnF c0 script =>
    simp only [step]
    split
    · simp
    · split
      · simp
      · exact runScript_replay _ _ _ _ _ _
  | pOnB h script =>
    simp only [step]
    split
    · simp
    · split
      · simp
      · rw [storeKept_fronts]; exact runScript_replay _ _ _ _ _ _

/-- the queued removals, as events: one `closed` per removed connection -/
theorem removeAll_replay (l : List Conn) (s0 : State V) (c : Conn) :
    lget (l.foldr (fun c acc => removeOne acc c) (s0, [])).1.fronts c =
      replay c (lget s0.fronts c) ((l.foldr (fun c acc => removeOne acc c) (s0, [])).2.map (fun e => Ev.closed e.1)) := by
  induction l with
  | nil => simp
  | cons c0 l ih =>
    simp only [List.foldr_cons]
    generalize (l.foldr (fun c acc => removeOne acc c) (s0, [])) = acc at ih
    unfold removeOne
    split
    · simp only [List.map_append, List.map_cons, List.map_nil]
      rw [replay_append, ← ih]
      simp only [replay, List.foldl_cons, List.foldl_nil, applyEv]
      by_cases hc : c0 = c
      · subst hc; simp [lget_ldel_same]
      · have : c ≠ c0 := Ne.symm hc
        simp [hc, lget_ldel_other _ this]
    · exact ih

/-- the removals only delete: what is left was there, what a close handler saw was the map -/
theorem removeAll_sub (l : List Conn) (s0 : State V) :
    (∀ c m, lget (l.foldr (fun c acc => removeOne acc c) (s0, [])).1.fronts c = some m → lget s0.fronts c = some m) ∧
    (∀ e ∈ (l.foldr (fun c acc => removeOne acc c) (s0, [])).2, lget s0.fronts e.1 = some e.2) := by
  induction l with
  | nil => exact ⟨fun _ _ h => h, by simp⟩
  | cons c0 l ih =>
    simp only [List.foldr_cons]
    generalize (l.foldr (fun c acc => removeOne acc c) (s0, [])) = acc at ih
    unfold removeOne
    split
    · next m0 hm0 =>
      refine ⟨?_, ?_⟩
      · intro c m h
        simp only at h
        by_cases hc : c = c0
        · subst hc; rw [lget_ldel_same] at h; cases h
        · rw [lget_ldel_other _ hc] at h; exact ih.1 c m h
      · intro e he
        simp only [List.mem_append, List.mem_singleton] at he
        cases he with
        | inl h => exact ih.2 e h
        | inr h => subst h; exact ih.1 _ _ hm0
    · exact ih

theorem removeAll_gone (l : List Conn) (s0 : State V) (c : Conn) (h : c ∈ l) :
    lget (l.foldr (fun c acc => removeOne acc c) (s0, [])).1.fronts c = none := by
  induction l with
  | nil => cases h
  | cons c0 l ih =>
    simp only [List.foldr_cons]
    generalize (l.foldr (fun c acc => removeOne acc c) (s0, [])) = acc at ih
    by_cases hc : c = c0
    · subst hc
      unfold removeOne
      split
      · simp [lget_ldel_same]
      · next hn => exact hn
    · have hl : c ∈ l := by
        cases h with
        | head => exact absurd rfl hc
        | tail _ h => exact h
      unfold removeOne
      split
      · simp only; rw [lget_ldel_other _ hc]; exact ih hl
      · exact ih hl

theorem removeAll_frame (l : List Conn) (s0 : State V) (c : Conn) (h : c ∉ l) :
    lget (l.foldr (fun c acc => removeOne acc c) (s0, [])).1.fronts c = lget s0.fronts c := by
  induction l with
  | nil => rfl
  | cons c0 l ih =>
    simp only [List.foldr_cons]
    have hc : c ≠ c0 := fun e => h (by simp [e])
    have hl : c ∉ l := fun e => h (by simp [e])
    generalize (l.foldr (fun c acc => removeOne acc c) (s0, [])) = acc at ih
    unfold removeOne
    split
    · simp only; rw [lget_ldel_other _ hc]; exact ih hl
    · exact ih hl

theorem removeAll_rest (l : List Conn) (s0 : State V) :
    (l.foldr (fun c acc => removeOne acc c) (s0, [])).1.closing = s0.closing ∧
    (l.foldr (fun c acc => removeOne acc c) (s0, [])).1.handles = s0.handles ∧
    (l.foldr (fun c acc => removeOne acc c) (s0, [])).1.away = s0.away ∧
    (l.foldr (fun c acc => removeOne acc c) (s0, [])).1.next = s0.next := by
  induction l with
  | nil => exact ⟨rfl, rfl, rfl, rfl⟩
  | cons c0 l ih =>
    simp only [List.foldr_cons]
    generalize (l.foldr (fun c acc => removeOne acc c) (s0, [])) = acc at ih
    unfold removeOne
    split
    · exact ih
    · exact ih

theorem flush_replay (s : State V) (c : Conn) :
    lget (flush s).1.fronts c = replay c (lget s.fronts c) ((flush s).2.map (fun e => Ev.closed e.1)) :=
  removeAll_replay s.closing { s with closing := [] } c

theorem stepF_replay (cfg : Cfg) (s : State V) (op : Op V) (c : Conn) :
    lget (stepF cfg dr s op).st.fronts c = replay c (lget s.fronts c) (stepF cfg dr s op).evs := by
  simp only [stepF]
  rw [replay_append, ← step_replay, flush_replay]

theorem run_replay (cfg : Cfg) (s : State V) (ops : List (Op V)) (c : Conn) :
    lget (run cfg vw s ops).1.fronts c = replay c (lget s.fronts c) (run cfg vw s ops).2 := by
  induction ops generalizing s vw with
  | nil => simp [run]
  | cons op ops ih =>
    simp only [run]
    rw [replay_append, ← stepF_replay, ih]

end Hist

end Cell2v.SessionData

namespace Cell2v.SessionData

/-! ### querying a live connection inside the guard -/

section Query
variable {V : Type} [LawfulJVal V]

/-- inside the guard `FromJson` of the connection's own map merges the whole (normalised) map
into Data and changes nothing else: no assertion fails, the target stays -/
theorem fromJson_live {b : Back V} {m : AL V} (hb : BackInv true b) (hm : MapInv true b.target m) :
    b.fromJson (SData.toJson m) =
      ({ b with data := amerge b.data (m.map fun e => (e.1, JVal.norm e.2)) }, false) := by
  have hj := toJson_eq_some hm.nd (hm.rep rfl)
  have hk : (keys (m.map fun e => (e.1, (JVal.norm e.2 : V)))).Nodup := by rw [keys_map_val]; exact hm.nd
  obtain ⟨ns, sid, nid, dirt, data, nd⟩ := b
  simp only [Back.target] at hm
  have hs : lget nd KeyServerId = none := hb.noSid rfl
  have hn : lget nd KeyNetId = none := hb.noNid rfl
  have h1 : lget (amerge data (m.map fun e => (e.1, JVal.norm e.2))) KeyServerId = some (JVal.norm (JVal.str sid)) := by
    rw [lget_amerge _ _ _ hk, lget_map_val, hm.sid rfl]; rfl
  have h2 : lget (amerge data (m.map fun e => (e.1, JVal.norm e.2))) KeyNetId = some (JVal.norm (JVal.net nid)) := by
    rw [lget_amerge _ _ _ hk, lget_map_val, hm.nid rfl]; rfl
  simp only [Back.fromJson, hj, SData.updateFromJson, Back.get?, hs, hn, h1, h2, Option.getD_some,
    LawfulJVal.asStr_norm_str, LawfulJVal.asNetF_norm_net]

end Query

section Node
variable {V : Type} [JVal V]

/-- statements of the node layer (not the bare-object operations of the pure layer) -/
def NodeSOp : SOp V → Prop
  | .pushTo _ | .fromF _ | .fromRaw | .updRaw => False
  | _ => True

theorem stmtTarget_node (sess : Sess V) (op : SOp V) (h : NodeSOp op) : stmtTarget sess op = sess.target := by
  cases op <;> first | rfl | exact absurd h (by simp [NodeSOp])

end Node

section Latest
variable {V : Type} [JVal V]

/-- an event that leaves key `k` of connection `c` alone: it concerns another connection, or is
a forward notice, or is a write whose payload does not mention `k` -/
def Ev.keeps (c : Conn) (k : Key) : Ev V → Prop
  | .opened c' => c' ≠ c
  | .closed c' => c' ≠ c
  | .write c' kvs => c' ≠ c ∨ k ∉ keys kvs
  | .fwd _ _ _ _ _ => True

theorem replay_keeps_key (c : Conn) (k : Key) (m : AL V) (evs : List (Ev V)) (h : ∀ e ∈ evs, e.keeps c k) :
    ∃ m', replay c (some m) evs = some m' ∧ lget m' k = lget m k := by
  induction evs generalizing m with
  | nil => exact ⟨m, rfl, rfl⟩
  | cons e evs ih =>
    have he := h e (by simp)
    have hrest : ∀ e' ∈ evs, e'.keeps c k := fun e' he' => h e' (by simp [he'])
    rw [replay_cons]
    cases e with
    | opened c' =>
      have : c' ≠ c := he
      simp only [applyEv, this, if_false]
      exact ih m hrest
    | closed c' =>
      have : c' ≠ c := he
      simp only [applyEv, this, if_false]
      exact ih m hrest
    | fwd => exact ih m hrest
    | write c' kvs =>
      by_cases hc : c' = c
      · have hk : k ∉ keys kvs := by
          cases he with
          | inl h => exact absurd hc h
          | inr h => exact h
        simp only [applyEv, hc, if_true, Option.map_some]
        obtain ⟨m', h1, h2⟩ := ih (amerge m kvs) hrest
        exact ⟨m', h1, by rw [h2, lget_amerge_of_not_mem _ _ hk]⟩
      · simp only [applyEv, hc, if_false]
        exact ih m hrest

end Latest

end Cell2v.SessionData
