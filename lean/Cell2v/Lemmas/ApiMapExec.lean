import Cell2v.Lemmas.ApiMap
/-!
C13 — the execution semantics (`callX`, `callWithSerializeX`, `dispatchX`: programs that
emit events and may panic) against the summary model (`call`, `callWithSerialize`,
`dispatch` + `completionsG`): the summary is what the executions do.
-/
namespace Cell2v.ApiMap

/-! ### the two effects -/

@[simp] theorem Exec.andThen_evs (a b : Exec) : (a.andThen b).evs = if a.panicking then a.evs else a.evs ++ b.evs := by
  unfold Exec.andThen; split <;> simp_all
@[simp] theorem Exec.andThen_panicking (a b : Exec) : (a.andThen b).panicking = (a.panicking || b.panicking) := by
  unfold Exec.andThen; split <;> simp_all
@[simp] theorem Exec.recoverWith_evs (a b : Exec) :
    (a.recoverWith b).evs = if a.panicking then a.evs ++ b.evs else a.evs := by
  unfold Exec.recoverWith; split <;> simp_all
@[simp] theorem Exec.recoverWith_panicking (a b : Exec) : (a.recoverWith b).panicking = (a.panicking && b.panicking) := by
  unfold Exec.recoverWith; split <;> simp_all
@[simp] theorem Exec.ret_evs : Exec.ret.evs = [] := rfl
@[simp] theorem Exec.ret_panicking : Exec.ret.panicking = false := rfl
@[simp] theorem Exec.panic_evs : Exec.panic.evs = [] := rfl
@[simp] theorem Exec.panic_panicking : Exec.panic.panicking = true := rfl
@[simp] theorem Exec.emit_evs (e : Ev) : (Exec.emit e).evs = [e] := rfl
@[simp] theorem Exec.emit_panicking (e : Ev) : (Exec.emit e).panicking = false := rfl

@[simp] theorem compOfEv_run (h : Handler) (c : Bool) (a : ArgV) : compOfEv (.run h c a) = none := rfl
@[simp] theorem compOfEv_cbf (e : Bool) : compOfEv (.cb false e) = some .f := rfl
@[simp] theorem compOfEv_cbh (e : Bool) : compOfEv (.cb true e) = some (.h (!e)) := rfl
@[simp] theorem runOfEv_run (h : Handler) (c : Bool) (a : ArgV) : runOfEv (.run h c a) = some (h, c, a) := rfl
@[simp] theorem runOfEv_cb (x e : Bool) : runOfEv (.cb x e) = none := rfl

/-- `CheckInvokeCBFunc`: never panics (an error is never a value the callback chokes on), emits
one framework ERROR completion iff the function is not nil -/
theorem checkInvokeCB_eq (cb : Cb) : checkInvokeCB cb = ⟨if cb.isSome then [.cb false true] else [], false⟩ := by
  cases cb with
  | none => rfl
  | some p => simp [checkInvokeCB, invokeCb, Exec.emit]

@[simp] theorem checkInvokeCB_evs (cb : Cb) : (checkInvokeCB cb).evs = if cb.isSome then [.cb false true] else [] := by
  rw [checkInvokeCB_eq]
@[simp] theorem checkInvokeCB_panicking (cb : Cb) : (checkInvokeCB cb).panicking = false := by
  rw [checkInvokeCB_eq]

/-! ### function values (`CbF`): `cbFunc` itself and `CallMethod`'s two closures around the variable `completed` -/

/-- `CheckInvokeCBFunc` on any function value never panics and emits at most the one event
"framework completion WITH AN ERROR": nothing for nil and for `panicCB` once `completed` is set -/
theorem checkInvokeF_eq (f : CbF) (d : Bool) :
    checkInvokeF f d = ⟨if f.isNil || (d && (match f with | .panicCB _ => true | _ => false)) then [] else [.cb false true], false⟩ := by
  cases f <;> cases d <;> simp [checkInvokeF, CbF.isNil, CbF.call, invokeCb, Exec.emit, Exec.ret]

@[simp] theorem checkInvokeF_panicking (f : CbF) (d : Bool) : (checkInvokeF f d).panicking = false := by
  rw [checkInvokeF_eq]

theorem checkInvokeF_nil (d : Bool) : checkInvokeF .nil d = .ret := rfl

/-- **the recover path after the fix**: `panicCB` completes (with an error) iff nothing was completed before -/
theorem checkInvokeF_panicCB (p d : Bool) : checkInvokeF (.panicCB p) d = ⟨if d then [] else [.cb false true], false⟩ := by
  cases d <;> simp [checkInvokeF, CbF.isNil, CbF.call, invokeCb, Exec.emit, Exec.ret]

theorem checkInvokeF_plain (p d : Bool) : checkInvokeF (.plain p) d = ⟨[.cb false true], false⟩ := by
  simp [checkInvokeF, CbF.isNil, CbF.call, invokeCb, Exec.emit]

/-! ### the handler body against `playComps` -/

theorem playBody_nil (bad : Bool) (cs : List Bool) : ∀ d, playBody .nil bad cs d = (.ret, d) := by
  induction cs with
  | nil => intro d; rfl
  | cons c r ih => intro d; simp [playBody, CbF.call, ih, Exec.andThen, Exec.ret]

/-- the handler's own completions through `handlerCB`: they are what `playComps` lists, the body panics iff the
(picky) `cbFunc` choked, and `completed` is set iff it was set before or AT LEAST ONE COMPLETION WENT THROUGH -/
theorem playBody_handlerCB (p bad : Bool) (cs : List Bool) : ∀ d,
    (playBody (.handlerCB p) bad cs d).1.evs.filterMap compOfEv = (playComps (p && bad) cs).1 ∧
    (playBody (.handlerCB p) bad cs d).1.evs.filterMap runOfEv = [] ∧
    (playBody (.handlerCB p) bad cs d).1.panicking = (playComps (p && bad) cs).2 ∧
    (playBody (.handlerCB p) bad cs d).2 = (d || !(playComps (p && bad) cs).1.isEmpty) := by
  induction cs with
  | nil => intro d; simp [playBody, playComps]
  | cons c r ih =>
    intro d
    obtain ⟨i1, i2, i3, i4⟩ := ih true
    cases c <;> cases p <;> cases bad <;> cases d <;>
      simp_all [playBody, CbF.call, playComps, invokeCb, List.filterMap_cons]

/-- the same through `cbFunc` itself (the code before the fix of D23): `completed` is never touched -/
theorem playBody_plain (p bad : Bool) (cs : List Bool) : ∀ d,
    (playBody (.plain p) bad cs d).1.evs.filterMap compOfEv = (playComps (p && bad) cs).1 ∧
    (playBody (.plain p) bad cs d).1.evs.filterMap runOfEv = [] ∧
    (playBody (.plain p) bad cs d).1.panicking = (playComps (p && bad) cs).2 ∧
    (playBody (.plain p) bad cs d).2 = d := by
  induction cs with
  | nil => intro d; simp [playBody, playComps]
  | cons c r ih =>
    intro d
    obtain ⟨i1, i2, i3, i4⟩ := ih d
    cases c <;> cases p <;> cases bad <;> cases d <;>
      simp_all [playBody, CbF.call, playComps, invokeCb, List.filterMap_cons]

theorem CbF.call_evs_byHandler (f : CbF) (isErr bad d : Bool) :
    ∀ e ∈ (f.call true isErr bad d).1.evs, e = .cb true isErr := by
  intro e he
  cases f <;> simp only [CbF.call, invokeCb] at he
  · simp at he
  · split at he <;> simp_all
  · split at he <;> simp_all
  · split at he
    · split at he <;> simp_all
    · simp at he

/-- every event of a handler's own completions is a completion BY THE HANDLER, whatever function it was handed -/
theorem playBody_evs_byHandler (f : CbF) (bad : Bool) (cs : List Bool) :
    ∀ d, ∀ e ∈ (playBody f bad cs d).1.evs, ∃ isErr, e = .cb true isErr := by
  induction cs with
  | nil => intro d; simp [playBody]
  | cons c r ih =>
    intro d e he
    simp only [playBody] at he
    split at he
    · exact ⟨_, CbF.call_evs_byHandler f _ _ _ e he⟩
    · simp only [Exec.andThen_evs] at he
      split at he
      · exact ⟨_, CbF.call_evs_byHandler f _ _ _ e he⟩
      · rcases List.mem_append.1 he with h1 | h1
        · exact ⟨_, CbF.call_evs_byHandler f _ _ _ e h1⟩
        · exact ih _ e h1

/-- a plain completion function never panics: every completion of the handler goes through -/
theorem playComps_plain (cs : List Bool) : playComps false cs = (cs.map Comp.h, false) := by
  induction cs with
  | nil => rfl
  | cons c r ih => simp [playComps, ih]

/-- `playComps` stops at the first completion the callback chokes on: it reports a panic iff there is one -/
theorem playComps_fst_length_le (p : Bool) (cs : List Bool) : (playComps p cs).1.length ≤ cs.length := by
  induction cs with
  | nil => simp [playComps]
  | cons c r ih =>
    simp only [playComps]
    split
    · simp
    · simp only [List.length_cons]; omega

/-! ### `SafeCall` -/

/-- `SafeCall` as `CallMethod` runs a request-shaped handler SINCE THE FIX OF D23 (`handlerCB` in the arguments,
`panicCB` for the recover): never panics; the handler runs iff reflect accepts the arguments, once; the completions
are the handler's own that went through, followed by ONE framework error completion iff (the handler, or the picky
callback inside it, panicked AND none of the handler's completions had gone through) — or reflect rejected the call -/
theorem safeCallX_wrapped_view (h : Handler) (ctx : CtxArg) (arg : ArgV) (p : Bool) (b : Beh) :
    (safeCallX h ctx arg true (.handlerCB p) (.panicCB p) b false).panicking = false ∧
    (safeCallX h ctx arg true (.handlerCB p) (.panicCB p) b false).runs
      = (if typesOK h ctx arg true then [(h, ctx != .nil, arg)] else []) ∧
    (safeCallX h ctx arg true (.handlerCB p) (.panicCB p) b false).comps =
      (if typesOK h ctx arg true then
        (playComps (p && b.bad) b.comps).1 ++
          (if ((playComps (p && b.bad) b.comps).2 || b.panics) && (playComps (p && b.bad) b.comps).1.isEmpty then [.f] else [])
       else [.f]) := by
  unfold safeCallX reflectCall Exec.comps Exec.runs
  by_cases ht : typesOK h ctx arg true = true
  · simp only [ht, if_true, handlerBody, checkInvokeF_panicCB]
    obtain ⟨p1, p2, p3, p4⟩ := playBody_handlerCB p b.bad b.comps false
    cases hp : b.panics <;> cases hq : (playComps (p && b.bad) b.comps).2 <;>
      cases he : (playComps (p && b.bad) b.comps).1.isEmpty <;>
      simp_all [List.filterMap_append, List.filterMap_cons]
  · simp only [ht, Bool.false_eq_true, if_false, checkInvokeF_panicCB]
    simp [List.filterMap_cons]

/-- `SafeCall` with no completion function anywhere (a call without one; a notify): never panics, no completion -/
theorem safeCallX_nil_view (h : Handler) (ctx : CtxArg) (arg : ArgV) (withCb : Bool) (b : Beh) :
    (safeCallX h ctx arg withCb .nil .nil b false).panicking = false ∧
    (safeCallX h ctx arg withCb .nil .nil b false).runs
      = (if typesOK h ctx arg withCb then [(h, ctx != .nil, arg)] else []) ∧
    (safeCallX h ctx arg withCb .nil .nil b false).comps = [] := by
  unfold safeCallX reflectCall Exec.comps Exec.runs
  have hn : (if withCb = true then CbF.nil else CbF.nil) = CbF.nil := by cases withCb <;> rfl
  by_cases ht : typesOK h ctx arg withCb = true
  · simp only [ht, if_true, handlerBody, hn, playBody_nil, checkInvokeF_nil]
    cases hp : b.panics <;> simp [List.filterMap_cons]
  · simp only [ht, Bool.false_eq_true, if_false, checkInvokeF_nil]
    simp

/-- `SafeCall` as `CallMethod` ran a request-shaped handler BEFORE the fix of D23 (`cbFunc` itself in both places):
one framework error completion whenever the handler panicked — whether or not it had completed -/
theorem safeCallX_plain_view (h : Handler) (ctx : CtxArg) (arg : ArgV) (p : Bool) (b : Beh) :
    (safeCallX h ctx arg true (.plain p) (.plain p) b false).panicking = false ∧
    (safeCallX h ctx arg true (.plain p) (.plain p) b false).runs
      = (if typesOK h ctx arg true then [(h, ctx != .nil, arg)] else []) ∧
    (safeCallX h ctx arg true (.plain p) (.plain p) b false).comps =
      (if typesOK h ctx arg true then
        (playComps (p && b.bad) b.comps).1 ++ (if (playComps (p && b.bad) b.comps).2 || b.panics then [.f] else [])
       else [.f]) := by
  unfold safeCallX reflectCall Exec.comps Exec.runs
  by_cases ht : typesOK h ctx arg true = true
  · simp only [ht, if_true, handlerBody, checkInvokeF_plain]
    obtain ⟨p1, p2, p3, p4⟩ := playBody_plain p b.bad b.comps false
    cases hp : b.panics <;> cases hq : (playComps (p && b.bad) b.comps).2 <;>
      simp_all [List.filterMap_append, List.filterMap_cons]
  · simp only [ht, Bool.false_eq_true, if_false, checkInvokeF_plain]
    simp [List.filterMap_cons]

/-! ### the summary model is what the executions do -/

/-- what an execution should show for a summary `o` -/
def runsOf : Outcome → List (Handler × Bool × ArgV)
  | .invoked h cs a => [(h, cs, a)]
  | _ => []

/-- the picky-callback flag `completionsG` is given for the completion function `cb` -/
def cbPanicsOf (cb : Cb) (b : Beh) : Bool := (cb == some true) && b.bad

theorem callMethodX_refines (c : Container) (m : Bytes) (ctx : CtxArg) (arg : ArgV) (cb : Cb) (b : Beh) :
    (callMethodX c m ctx arg cb b).panicking = false ∧
    (callMethodX c m ctx arg cb b).runs = runsOf (callMethod c m ctx arg cb.isSome) ∧
    (callMethodX c m ctx arg cb b).comps = completionsG (cbPanicsOf cb b) (callMethod c m ctx arg cb.isSome) cb.isSome b := by
  unfold callMethodX callMethod
  cases hl : lookup c.handlers m with
  | none =>
    cases cb <;> simp [Exec.comps, Exec.runs, runsOf, completionsG, List.filterMap_cons]
  | some h =>
    simp only []
    cases hr : h.isRequest with
    | true =>
      cases cb with
      | none =>
        obtain ⟨v1, v2, v3⟩ := safeCallX_nil_view h ctx arg true b
        simp only [if_true, v1, v2, v3, safeCall, true_and]
        by_cases ht : typesOK h ctx arg true = true <;> simp [ht, runsOf, completionsG]
      | some p =>
        obtain ⟨v1, v2, v3⟩ := safeCallX_wrapped_view h ctx arg p b
        simp only [if_true, v1, v2, v3, safeCall, true_and]
        by_cases ht : typesOK h ctx arg true = true
        · rcases hpc : playComps (p && b.bad) b.comps with ⟨l, pn⟩
          cases p <;> simp_all [runsOf, completionsG, cbPanicsOf]
        · simp [ht, runsOf, completionsG]
    | false =>
      cases cb with
      | some p => simp [Exec.comps, Exec.runs, runsOf, completionsG]
      | none =>
        obtain ⟨v1, v2, v3⟩ := safeCallX_nil_view h ctx arg false b
        simp only [Option.isSome_none, Bool.false_eq_true, if_false, v1, v2, v3, safeCall, true_and]
        by_cases ht : typesOK h ctx arg false = true <;> simp [ht, runsOf, completionsG]

/-- the code before the fix of D23, same statement against `completionsGPre` (for a completion function) -/
theorem callMethodXPre_comps (c : Container) (m : Bytes) (ctx : CtxArg) (arg : ArgV) (p : Bool) (b : Beh) :
    (callMethodXPre c m ctx arg (some p) b).comps
      = completionsGPre (cbPanicsOf (some p) b) (callMethod c m ctx arg true) true b := by
  unfold callMethodXPre callMethod
  cases hl : lookup c.handlers m with
  | none => simp [Exec.comps, completionsGPre, List.filterMap_cons]
  | some h =>
    simp only []
    cases hr : h.isRequest with
    | true =>
      obtain ⟨v1, v2, v3⟩ := safeCallX_plain_view h ctx arg p b
      simp only [if_true, CbF.ofCb, v3, safeCall]
      by_cases ht : typesOK h ctx arg true = true
      · rcases hpc : playComps (p && b.bad) b.comps with ⟨l, pn⟩
        cases p <;> simp_all [completionsGPre, cbPanicsOf]
      · simp [ht, completionsGPre]
    | false => simp [Exec.comps, completionsGPre]

theorem callX_refines (col : Collection) (route : Bytes) (ctx : CtxArg) (arg : ArgV) (cb : Cb) (b : Beh) :
    (callX col route ctx arg cb b).panicking = false ∧
    (callX col route ctx arg cb b).runs = runsOf (call col route ctx arg cb.isSome) ∧
    (callX col route ctx arg cb b).comps = completionsG (cbPanicsOf cb b) (call col route ctx arg cb.isSome) cb.isSome b := by
  unfold callX call
  cases hs : splitRoute route with
  | none => cases cb <;> simp [Exec.comps, Exec.runs, runsOf, completionsG, List.filterMap_cons]
  | some gm =>
    obtain ⟨g, m⟩ := gm
    simp only []
    cases hf : findC col g with
    | none => cases cb <;> simp [Exec.comps, Exec.runs, runsOf, completionsG, List.filterMap_cons]
    | some c => exact callMethodX_refines c m ctx arg cb b

/-- **refinement**: for a serializer that does not panic, an execution of `CallWithSerialize` panics iff the
summary says `escaped`, runs exactly the handler the summary says was invoked (once, with those arguments)
and invokes the completion function exactly as `completionsG` reads off the summary -/
theorem callWithSerializeX_refines (col : Collection) (ser : Option Decoder) (route : Bytes) (ctx : CtxArg)
    (data : Bytes) (cb : Cb) (b : Beh) :
    (callWithSerializeX col (ser.map Decoder.lift) route ctx data cb b).panicking
      = (callWithSerialize col ser route ctx data cb.isSome == .escaped) ∧
    (callWithSerializeX col (ser.map Decoder.lift) route ctx data cb b).runs
      = runsOf (callWithSerialize col ser route ctx data cb.isSome) ∧
    (callWithSerializeX col (ser.map Decoder.lift) route ctx data cb b).comps
      = completionsG (cbPanicsOf cb b) (callWithSerialize col ser route ctx data cb.isSome) cb.isSome b := by
  unfold callWithSerializeX callWithSerialize
  cases ser with
  | none => cases cb <;> simp [Exec.comps, Exec.runs, runsOf, completionsG, List.filterMap_cons]
  | some dec =>
    simp only [Option.map_some]
    cases hg : getArgType col route with
    | none => cases cb <;> simp [Exec.comps, Exec.runs, runsOf, completionsG, List.filterMap_cons]
    | some t =>
      simp only []
      by_cases hk : (!t.kind.hasElem) = true
      · cases cb <;> simp [hk, Exec.comps, Exec.runs, runsOf, completionsG]
      · simp only [hk, Bool.false_eq_true, if_false, Decoder.lift]
        cases hd : dec t.id data with
        | none => cases cb <;> simp [Exec.comps, Exec.runs, runsOf, completionsG, List.filterMap_cons]
        | some v =>
          simp only []
          obtain ⟨r1, r2, r3⟩ := callX_refines col route ctx (.val t.builtId v) cb b
          refine ⟨?_, r2, r3⟩
          rw [r1]
          have := call_ne_escaped col route ctx (.val t.builtId v) cb.isSome
          simp [this]

theorem Exec.unsent_comps (x : Exec) : x.unsent.comps = [] := by
  obtain ⟨evs, pn⟩ := x
  simp only [Exec.unsent, Exec.comps]
  induction evs with
  | nil => rfl
  | cons e r ih => cases e <;> simp_all [List.filter_cons, List.filterMap_cons]

theorem Exec.unsent_runs (x : Exec) : x.unsent.runs = x.runs := by
  obtain ⟨evs, pn⟩ := x
  simp only [Exec.unsent, Exec.runs]
  induction evs with
  | nil => rfl
  | cons e r ih => cases e <;> simp_all [List.filter_cons, List.filterMap_cons]

theorem completionsG_noCb (p : Bool) (o : Outcome) (b : Beh) : completionsG p o false b = [] := by
  simp [completionsG]

theorem dispatchX_refines (cols : List Collection) (dec : Decoder) (rc route data : Bytes) (isNotify : Bool) (b : Beh) :
    (dispatchX cols dec.lift rc route data isNotify true b).1 = (dispatch cols dec rc route data isNotify).1 ∧
    (dispatchX cols dec.lift rc route data isNotify true b).2.panicking
      = (match (dispatch cols dec rc route data isNotify).2 with | some o => o == .escaped | none => false) ∧
    (dispatchX cols dec.lift rc route data isNotify true b).2.comps = responses (dispatch cols dec rc route data isNotify) isNotify b ∧
    (dispatchX cols dec.lift rc route data isNotify true b).2.runs
      = (match (dispatch cols dec rc route data isNotify).2 with | some o => runsOf o | none => []) := by
  unfold dispatchX dispatch responses
  cases ht : dispatchTarget cols route with
  | none => cases isNotify <;> simp [Exec.comps, Exec.runs, List.filterMap_cons]
  | some c =>
    simp only []
    have hd : (some (Decoder.lift dec) : Option DecoderX) = (some dec : Option Decoder).map Decoder.lift := rfl
    cases isNotify with
    | true =>
      obtain ⟨r1, r2, r3⟩ := callWithSerializeX_refines c (some dec) route (.ty rc) data none b
      rw [hd]
      refine ⟨trivial, ?_, ?_, ?_⟩
      · simpa using r1
      · simpa [completionsG_noCb] using r3
      · simpa using r2
    | false =>
      obtain ⟨r1, r2, r3⟩ := callWithSerializeX_refines c (some dec) route (.ty rc) data (some true) b
      rw [hd]
      refine ⟨trivial, ?_, ?_, ?_⟩
      · simpa using r1
      · simpa [cbPanicsOf] using r3
      · simpa using r2

/-! ### facts about EVERY execution (any serializer, panicking or not; any handler behaviour) -/

/-- an event the framework may emit on behalf of the caller: a handler run, a completion by the handler,
or a framework completion carrying an ERROR -/
def Ev.sound : Ev → Prop
  | .cb false isErr => isErr = true
  | _ => True

theorem checkInvokeCB_sound (cb : Cb) : ∀ e ∈ (checkInvokeCB cb).evs, e.sound := by
  intro e he
  simp only [checkInvokeCB_evs] at he
  split at he
  · simp only [List.mem_singleton] at he; subst he; rfl
  · simp at he

theorem checkInvokeF_sound (f : CbF) (d : Bool) : ∀ e ∈ (checkInvokeF f d).evs, e.sound := by
  intro e he
  cases f <;> cases d <;>
    simp [checkInvokeF, CbF.isNil, CbF.call, invokeCb, Exec.emit, Exec.ret] at he <;> (subst he; rfl)

theorem safeCallX_sound (h : Handler) (ctx : CtxArg) (arg : ArgV) (withCb : Bool) (hcb pcb : CbF) (b : Beh) (d : Bool) :
    ∀ e ∈ (safeCallX h ctx arg withCb hcb pcb b d).evs, e.sound := by
  have hbody : ∀ e ∈ (reflectCall h ctx arg withCb hcb b d).1.evs, e.sound := by
    intro e he
    unfold reflectCall at he
    split at he
    · simp only [handlerBody, Exec.andThen_evs, Exec.emit_panicking, Bool.false_eq_true, if_false, Exec.emit_evs,
        List.singleton_append, List.mem_cons] at he
      rcases he with rfl | he
      · trivial
      · generalize (if withCb = true then hcb else CbF.nil) = cb' at he
        have : e ∈ (playBody cb' b.bad b.comps d).1.evs := by
          by_cases hp : (playBody cb' b.bad b.comps d).1.panicking = true
          · simpa [hp] using he
          · simp only [hp] at he
            rcases List.mem_append.1 he with h1 | h1
            · exact h1
            · cases hb : b.panics <;> simp [hb] at h1
        obtain ⟨isErr, rfl⟩ := playBody_evs_byHandler _ _ _ _ e this
        trivial
    · simp at he
  intro e he
  simp only [safeCallX, Exec.recoverWith_evs] at he
  split at he
  · rcases List.mem_append.1 he with h1 | h1
    · exact hbody e h1
    · exact checkInvokeF_sound _ _ e h1
  · exact hbody e he

theorem callX_sound (col : Collection) (route : Bytes) (ctx : CtxArg) (arg : ArgV) (cb : Cb) (b : Beh) :
    ∀ e ∈ (callX col route ctx arg cb b).evs, e.sound := by
  unfold callX
  split
  · exact checkInvokeCB_sound cb
  · split
    · exact checkInvokeCB_sound cb
    · unfold callMethodX
      split
      · exact checkInvokeCB_sound cb
      · split
        · split <;> exact safeCallX_sound _ _ _ _ _ _ _ _
        · split
          · simp
          · exact safeCallX_sound _ _ _ _ _ _ _ _

theorem callWithSerializeX_sound (col : Collection) (ser : Option DecoderX) (route : Bytes) (ctx : CtxArg)
    (data : Bytes) (cb : Cb) (b : Beh) :
    ∀ e ∈ (callWithSerializeX col ser route ctx data cb b).evs, e.sound := by
  unfold callWithSerializeX
  split
  · exact checkInvokeCB_sound cb
  · split
    · exact checkInvokeCB_sound cb
    · split
      · simp
      · split
        · simp
        · exact checkInvokeCB_sound cb
        · exact callX_sound _ _ _ _ _ _

theorem runsOf_length_le (o : Outcome) : (runsOf o).length ≤ 1 := by
  cases o <;> simp [runsOf]

theorem callWithSerializeX_runs_le (col : Collection) (ser : Option DecoderX) (route : Bytes) (ctx : CtxArg)
    (data : Bytes) (cb : Cb) (b : Beh) :
    (callWithSerializeX col ser route ctx data cb b).runs.length ≤ 1 := by
  have hc : ∀ cb : Cb, (checkInvokeCB cb).runs.length ≤ 1 := by
    intro cb; cases cb <;> simp [Exec.runs, List.filterMap_cons]
  unfold callWithSerializeX
  split
  · exact hc cb
  · split
    · exact hc cb
    · split
      · simp [Exec.runs]
      · split
        · simp [Exec.runs]
        · exact hc cb
        · rw [(callX_refines _ _ _ _ _ _).2.1]; exact runsOf_length_le _

/-- a serializer that never panics is the lift of an `Option`-valued one -/
def DecoderX.unlift (d : DecoderX) : Decoder := fun t p => match d t p with | .val v => some v | _ => none

theorem DecoderX.lift_unlift (d : DecoderX) (h : ∀ t p, d t p ≠ .panics) : Decoder.lift d.unlift = d := by
  funext t p
  have := h t p
  unfold Decoder.lift DecoderX.unlift
  cases hd : d t p <;> simp_all

/-- an execution whose readings are "no handler ran, one framework completion" is exactly that one event -/
theorem evs_of_readings {x : Exec} (hr : x.runs = []) (hc : x.comps = [.f]) : ∃ isErr, x.evs = [.cb false isErr] := by
  obtain ⟨evs, pn⟩ := x
  simp only [Exec.runs, Exec.comps] at hr hc
  match evs, hr, hc with
  | [], _, hc => simp at hc
  | .run h c a :: r, hr, _ => simp at hr
  | .cb true e :: r, _, hc => simp at hc
  | .cb false e :: r, hr, hc =>
    simp only [List.filterMap_cons, compOfEv_cbf, runOfEv_cb, List.cons.injEq, true_and] at hr hc
    match r, hr, hc with
    | [], _, _ => exact ⟨e, rfl⟩
    | .run h c a :: r', hr, _ => simp at hr
    | .cb true e' :: r', _, hc => simp at hc
    | .cb false e' :: r', _, hc => simp at hc

/-! ### `buildX` (any formater, nil entries) against `build` -/

theorem Formater.accepts_ofBool (f : Bool) (m : Method) : (Formater.ofBool f).accepts m = (f && isValidMethod m) := by
  cases f <;> simp [Formater.ofBool, Formater.accepts]

theorem suitableAuxX_default (f : Bool) (nf : Option (Bytes → Bytes)) (eid : Nat) (ms : List Method) :
    ∀ acc, suitableAuxX (Formater.ofBool f) nf eid acc ms = some (suitableAux f nf eid acc ms) := by
  induction ms with
  | nil => intro acc; rfl
  | cons m r ih =>
    intro acc
    simp only [suitableAuxX, suitableAux, Formater.accepts_ofBool]
    by_cases hv : (f && isValidMethod m) = true
    · have hvm : isValidMethod m = true := by simp only [Bool.and_eq_true] at hv; exact hv.2
      have hlen := valid_len hvm
      have h3 : ¬ m.ins.length < 3 := by
        split at hlen <;> omega
      simp only [hv, if_true, h3, if_false]
      exact ih _
    · simp only [hv, Bool.false_eq_true, if_false]
      exact ih _

theorem extractHandlerX_default (f : Bool) (e : Entry) (hn : e.isNil = false) :
    extractHandlerX (Formater.ofBool f) e = some (extractHandler f e) := by
  unfold extractHandlerX extractHandler suitable
  simp only [hn, Bool.false_eq_true, if_false, suitableAuxX_default]
  split
  · rfl
  · split
    · rfl
    · split <;> rfl

theorem newServiceX_default (f : Bool) (col : Collection) (e : Entry) (hn : e.isNil = false) :
    newServiceX (Formater.ofBool f) col e = some (newService f col e) := by
  unfold newServiceX newService
  simp only [hn, Bool.false_and, Bool.false_eq_true, if_false, extractHandlerX_default f e hn]
  cases findC col (containerName e) with
  | some c => rfl
  | none => cases extractHandler f e <;> rfl

/-- with the default formater (or none) and no nil entry, `Build` does not panic and makes the table `build` makes -/
theorem buildX_default (f : Bool) (es : List Entry) (hn : ∀ e ∈ es, e.isNil = false) :
    ∀ col, buildX (Formater.ofBool f) es col = (es.foldl (newService f) col, false) := by
  induction es with
  | nil => intro col; rfl
  | cons e r ih =>
    intro col
    simp only [buildX, newServiceX_default f col e (hn e List.mem_cons_self), List.foldl_cons]
    exact ih (fun x hx => hn x (List.mem_cons_of_mem _ hx)) _

/-! ### the completion helper as the HANDLERS use it (`CheckInvokeCBFunc(cb, e, result)` with any `(e, result)`) -/

/-- the helper is transparent: nil test, then the call — for every function value, argument and state of `completed`
it does what calling the function does (a nil function is never called), a panic of the function included -/
theorem checkInvokeAny_eq_call (f : CbF) (byH isErr bad d : Bool) :
    checkInvokeAny f byH isErr bad d = f.call byH isErr bad d := by
  cases f <;> simp [checkInvokeAny, CbF.isNil, CbF.call]

/-- a handler body that completes through ANY helper which does what the call does is the body that calls -/
theorem playBodyVia_congr (inv : CbF → Bool → Bool → Bool → Bool → Exec × Bool) (f : CbF) (bad : Bool)
    (hinv : ∀ byH isErr d, inv f byH isErr bad d = f.call byH isErr bad d) (cs : List Bool) :
    ∀ d, playBodyVia inv f bad cs d = playBody f bad cs d := by
  induction cs with
  | nil => intro d; rfl
  | cons c r ih => intro d; simp only [playBodyVia, playBody, hinv, ih]

theorem playBodyVia_checkInvokeAny (f : CbF) (bad : Bool) (cs : List Bool) (d : Bool) :
    playBodyVia checkInvokeAny f bad cs d = playBody f bad cs d :=
  playBodyVia_congr _ f bad (fun _ _ _ => checkInvokeAny_eq_call ..) cs d

/-- the recovering variant never panics -/
theorem checkInvokeAnyRecovering_panicking (f : CbF) (byH isErr bad d : Bool) :
    (checkInvokeAnyRecovering f byH isErr bad d).1.panicking = false := by
  simp [checkInvokeAnyRecovering, Exec.ret]

theorem playBodyVia_recovering_panicking (f : CbF) (bad : Bool) (cs : List Bool) :
    ∀ d, (playBodyVia checkInvokeAnyRecovering f bad cs d).1.panicking = false := by
  induction cs with
  | nil => intro d; rfl
  | cons c r ih =>
    intro d
    simp only [playBodyVia, checkInvokeAnyRecovering_panicking, Bool.false_eq_true, if_false, Exec.andThen_panicking, ih,
      Bool.or_self]

theorem checkInvokeAnyRecovering_evs_byHandler (f : CbF) (isErr bad d : Bool) :
    ∀ e ∈ (checkInvokeAnyRecovering f true isErr bad d).1.evs, e = .cb true isErr := by
  intro e he
  simp only [checkInvokeAnyRecovering, checkInvokeAny_eq_call, Exec.recoverWith_evs, Exec.ret_evs, List.append_nil,
    ite_self] at he
  exact CbF.call_evs_byHandler f isErr bad d e he

theorem playBodyVia_recovering_evs_byHandler (f : CbF) (bad : Bool) (cs : List Bool) :
    ∀ d, ∀ e ∈ (playBodyVia checkInvokeAnyRecovering f bad cs d).1.evs, ∃ isErr, e = .cb true isErr := by
  induction cs with
  | nil => intro d; simp [playBodyVia]
  | cons c r ih =>
    intro d e he
    simp only [playBodyVia, checkInvokeAnyRecovering_panicking, Bool.false_eq_true, if_false, Exec.andThen_evs] at he
    rcases List.mem_append.1 he with h1 | h1
    · exact ⟨_, checkInvokeAnyRecovering_evs_byHandler f _ _ _ e h1⟩
    · exact ih _ e h1

end Cell2v.ApiMap
