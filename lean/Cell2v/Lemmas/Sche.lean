import Cell2v.Model.Sche
/-!
C15 — invariants of the scheduler model (`Model/Sche.lean`), for every
interleaving, any number of posters, any capacity, with the overflow path off.
-/
namespace Cell2v.Sche

theorem proj_append (p : Nat) (a b : List Item) : proj p (a ++ b) = proj p a ++ proj p b := by
  simp [proj, List.filter_append]

theorem proj_single_self (p : Nat) (it : Item) (h : it.poster = p) : proj p [it] = [it.seq] := by
  simp [proj, h]

theorem proj_single_other (q : Nat) (it : Item) (h : ¬ it.poster = q) : proj q [it] = [] := by
  simp [proj, h]

/-- a `range` extended by one element is the next `range` -/
theorem range_snoc_eq {a n x : Nat} (l : List Nat) (h : List.range a ++ l ++ [x] = List.range n) :
    n = a + l.length + 1 ∧ x = a + l.length ∧ List.range a ++ l = List.range (a + l.length) := by
  have hl : a + l.length + 1 = n := by
    have := congrArg List.length h
    simp at this
    omega
  subst hl
  rw [List.range_succ] at h
  have h2 := List.append_inj' h (by simp)
  have h3 := h2.2
  simp at h3
  exact ⟨rfl, h3, h2.1⟩

/-- the invariant: everything poster `p` ever handed to `Post`, in order, is
(executed ++ queued) ++ (refused after Stop) ++ (its one outstanding send) -/
structure MInv (s : St) : Prop where
  accepted : ∀ p, proj p (s.log ++ s.chan) = List.range (s.acc p)
  all : ∀ p, List.range (s.acc p) ++ proj p s.failed ++ outSeq s p = List.range (s.next p)
  failedStopped : s.failed ≠ [] → s.stopped = true
  outOwner : ∀ p it, s.out p = some it → it.poster = p
  noDetached : s.detached = [] ∧ s.lost = []

theorem minv_init : MInv {} := by
  constructor <;> simp [proj, outSeq]

theorem outSeq_upd_other (s : St) (p q : Nat) (v : Option Item) (h : ¬ q = p) (s' : St)
    (hs : s'.out = upd s.out p v) : outSeq s' q = outSeq s q := by
  simp [outSeq, hs, upd, h]

theorem minv_step (c : Cfg) (hd : c.defend = false) (s s' : St) (l : Label)
    (h : MInv s) (hf : fire c s l = some s') : MInv s' := by
  obtain ⟨hacc, hall, hfs, hown, hdet⟩ := h
  cases l with
  | call p k =>
    simp only [fire, hd, Bool.false_eq_true, false_and, if_false] at hf
    split at hf
    · cases hf
    · rename_i hen
      have hout : s.out p = none := by
        cases ho : s.out p with
        | none => rfl
        | some v => exact absurd (Or.inl (by simp [ho])) hen
      cases hf
      refine ⟨hacc, ?_, hfs, ?_, hdet⟩
      · intro q
        by_cases hq : q = p
        · subst hq
          have := hall q
          simp only [outSeq, hout] at this
          simp [outSeq, upd, List.range_succ, ← this]
        · have := hall q
          simpa [outSeq, upd, hq] using this
      · intro q it hq
        by_cases hqp : q = p
        · subst hqp
          simp [upd] at hq
          subst hq
          rfl
        · simp [upd, hqp] at hq
          exact hown q it hq
  | send p =>
    simp only [fire] at hf
    split at hf
    · cases hf
    · rename_i it ho
      have hpo : it.poster = p := hown p it ho
      split at hf
      · -- closed channel: the send is refused
        rename_i hst
        cases hf
        refine ⟨hacc, ?_, fun _ => hst, ?_, hdet⟩
        · intro q
          by_cases hq : q = p
          · subst hq
            have := hall q
            simp only [outSeq, ho] at this
            simp [outSeq, upd, proj_append, proj_single_self q it hpo, ← this]
          · have hne : ¬ it.poster = q := fun e => hq (by rw [← e, hpo])
            have := hall q
            simpa [outSeq, upd, hq, proj_append, proj_single_other q it hne] using this
        · intro q it' hq
          by_cases hqp : q = p
          · subst hqp
            simp [upd] at hq
          · simp [upd, hqp] at hq
            exact hown q it' hq
      · rename_i hst
        split at hf
        · cases hf
          have hfe : s.failed = [] := by
            cases hfl : s.failed with
            | nil => rfl
            | cons a t => exact absurd (hfs (by simp [hfl])) hst
          have hp := hall p
          simp only [outSeq, ho, hfe, proj, List.filter_nil, List.map_nil, List.append_nil] at hp
          have hk := range_snoc_eq (a := s.acc p) (n := s.next p) (x := it.seq) [] (by simpa using hp)
          simp only [List.length_nil, Nat.add_zero] at hk
          refine ⟨?_, ?_, ?_, ?_, hdet⟩
          · intro q
            by_cases hq : q = p
            · subst hq
              have := hacc q
              rw [← List.append_assoc, proj_append, this, proj_single_self q it hpo, hk.2.1]
              simp [upd, List.range_succ]
            · have hne : ¬ it.poster = q := fun e => hq (by rw [← e, hpo])
              have := hacc q
              rw [← List.append_assoc, proj_append, this, proj_single_other q it hne]
              simp [upd, hq]
          · intro q
            by_cases hq : q = p
            · subst hq
              simp [outSeq, upd, hfe, proj, hk.1]
            · have := hall q
              simpa [outSeq, upd, hq] using this
          · intro hne
            exact absurd hfe hne
          · intro q it' hq
            by_cases hqp : q = p
            · subst hqp
              simp [upd] at hq
            · simp [upd, hqp] at hq
              exact hown q it' hq
        · cases hf
  | sendDetached i =>
    simp only [fire, hdet.1] at hf
    simp at hf
  | consume =>
    simp only [fire] at hf
    split at hf
    · cases hf
    · split at hf
      · cases hf
      · rename_i x rest hc
        cases hf
        refine ⟨?_, hall, hfs, hown, hdet⟩
        intro q
        have := hacc q
        simpa [hc, List.append_assoc] using this
  | stop =>
    simp only [fire] at hf
    split at hf
    · cases hf
    · cases hf
      exact ⟨hacc, hall, fun _ => rfl, hown, hdet⟩
  | quit =>
    simp only [fire] at hf
    split at hf
    · cases hf
      exact ⟨hacc, hall, hfs, hown, hdet⟩
    · cases hf

theorem minv_reachable (c : Cfg) (hd : c.defend = false) (s : St) (h : Reachable c s) : MInv s := by
  induction h with
  | init => exact minv_init
  | step l _ hf ih => exact minv_step c hd _ _ l ih hf

/-! ### counting occurrences -/

theorem occ_eq_count (p k : Nat) (l : List Item) : occ p k l = (proj p l).count k := by
  induction l with
  | nil => simp [occ, proj]
  | cons x t ih =>
    simp only [occ, proj] at ih ⊢
    simp only [Bool.decide_and] at ih ⊢
    by_cases hp : x.poster = p
    · by_cases hk : x.seq = k
      · simp [hp, hk]
        exact ih
      · simp [hp, hk]
        exact ih
    · simp [hp]
      exact ih

theorem count_range (k n : Nat) : (List.range n).count k = if k < n then 1 else 0 := by
  induction n with
  | zero => simp
  | succ n ih =>
    rw [List.range_succ, List.count_append, ih]
    by_cases h1 : k < n
    · have : ¬ n = k := by omega
      simp [h1, this]; omega
    · by_cases h2 : k = n
      · subst h2; simp
      · have h3 : ¬ n = k := fun e => h2 e.symm
        have h4 : ¬ k < n + 1 := by omega
        simp [h1, h4, h3]

theorem occ_append (p k : Nat) (a b : List Item) : occ p k (a ++ b) = occ p k a + occ p k b := by
  simp [occ, List.filter_append]

/-! ### the consumer survives panicking closures -/

theorem consumer_alive_step (c : Cfg) (hr : c.recoverTask = true) (s s' : St) (l : Label)
    (h : s.consumer ≠ .crashed) (hf : fire c s l = some s') : s'.consumer ≠ .crashed := by
  cases l <;> simp only [fire] at hf
  · split at hf
    · cases hf
    · split at hf <;> cases hf <;> exact h
  · split at hf
    · cases hf
    · split at hf
      · cases hf; exact h
      · split at hf <;> cases hf; exact h
  · split at hf
    · cases hf
    · split at hf
      · cases hf; exact h
      · split at hf <;> cases hf; exact h
  · split at hf
    · cases hf
    · split at hf
      · cases hf
      · cases hf
        simp [hr]
  · split at hf <;> cases hf; exact h
  · split at hf <;> cases hf; simp

theorem consumer_alive (c : Cfg) (hr : c.recoverTask = true) (s : St) (h : Reachable c s) :
    s.consumer ≠ .crashed := by
  induction h with
  | init => simp
  | step l _ hf ih => exact consumer_alive_step c hr _ _ l ih hf

/-- the consumer only ever leaves `running` through `quit`, which needs `stop` -/
theorem consumer_running_unless_stopped (c : Cfg) (hr : c.recoverTask = true) (s : St) (h : Reachable c s) :
    s.stopped = false → s.consumer = .running := by
  induction h with
  | init => intro _; rfl
  | @step s s' l _ hf ih =>
    intro hs
    cases l <;> simp only [fire] at hf
    · split at hf
      · cases hf
      · split at hf <;> cases hf <;> exact ih hs
    · split at hf
      · cases hf
      · split at hf
        · cases hf; exact ih hs
        · split at hf <;> cases hf; exact ih hs
    · split at hf
      · cases hf
      · split at hf
        · cases hf; exact ih hs
        · split at hf <;> cases hf; exact ih hs
    · split at hf
      · cases hf
      · split at hf
        · cases hf
        · cases hf
          simp [hr]
    · split at hf <;> cases hf
      simp at hs
    · split at hf <;> cases hf
      rename_i hq
      simp [hq.1] at hs

theorem no_poster_crash (c : Cfg) (hr : c.recoverPost = true) (s : St) (h : Reachable c s) :
    s.crashedPosters = [] := by
  induction h with
  | init => rfl
  | @step s s' l _ hf ih =>
    cases l <;> simp only [fire] at hf
    · split at hf
      · cases hf
      · split at hf <;> cases hf <;> exact ih
    · split at hf
      · cases hf
      · split at hf
        · cases hf; simp [ih]
        · split at hf <;> cases hf; exact ih
    · split at hf
      · cases hf
      · split at hf
        · cases hf; exact ih
        · split at hf <;> cases hf; exact ih
    · split at hf
      · cases hf
      · split at hf
        · cases hf
        · cases hf; exact ih
    · split at hf <;> cases hf; exact ih
    · split at hf <;> cases hf; exact ih

/-- `n` consecutive `consume` steps -/
def drain (c : Cfg) : Nat → St → Option St
  | 0, s => some s
  | n + 1, s => match fire c s .consume with
    | none => none
    | some s' => drain c n s'

theorem drain_all (c : Cfg) (hr : c.recoverTask = true) :
    ∀ (q : List Item) (s : St), s.consumer = .running → s.chan = q →
      ∃ s', drain c q.length s = some s' ∧ s'.chan = [] ∧ s'.log = s.log ++ q ∧ s'.consumer = .running
        ∧ s'.acc = s.acc ∧ s'.next = s.next
  | [], s, hc, hq => ⟨s, rfl, hq, by simp, hc, rfl, rfl⟩
  | x :: rest, s, hc, hq => by
    have hf : fire c s .consume = some { s with chan := rest, log := s.log ++ [x], consumer := .running } := by
      simp [fire, hc, hq, hr]
    obtain ⟨s', h1, h2, h3, h4, h5, h6⟩ := drain_all c hr rest
      { s with chan := rest, log := s.log ++ [x], consumer := .running } rfl rfl
    refine ⟨s', ?_, h2, ?_, h4, h5, h6⟩
    · simp [drain, hf, h1]
    · simp [h3]

/-- a label sequence that runs is a path of `Reachable` -/
theorem reachable_of_run (c : Cfg) : ∀ (ls : List Label) (s s' : St), Reachable c s → run c s ls = some s' → Reachable c s'
  | [], s, s', hr, h => by simp [run] at h; exact h ▸ hr
  | l :: t, s, s', hr, h => by
    simp only [run] at h
    split at h
    · cases h
    · rename_i s1 hf
      exact reachable_of_run c t s1 s' (.step l hr hf) h

/-- only the consumer's step appends to the execution log -/
theorem log_only_by_consume (c : Cfg) (s s' : St) (l : Label) (hf : fire c s l = some s') :
    s'.log = s.log ∨ (∃ x rest, l = .consume ∧ s.chan = x :: rest ∧ s'.log = s.log ++ [x] ∧ s'.chan = rest) := by
  cases l <;> simp only [fire] at hf
  · split at hf
    · cases hf
    · split at hf <;> cases hf <;> exact Or.inl rfl
  · split at hf
    · cases hf
    · split at hf
      · cases hf; exact Or.inl rfl
      · split at hf <;> cases hf; exact Or.inl rfl
  · split at hf
    · cases hf
    · split at hf
      · cases hf; exact Or.inl rfl
      · split at hf <;> cases hf; exact Or.inl rfl
  · split at hf
    · cases hf
    · split at hf
      · cases hf
      · rename_i x rest hc
        cases hf
        exact Or.inr ⟨x, rest, rfl, hc, rfl, rfl⟩
  · split at hf <;> cases hf; exact Or.inl rfl
  · split at hf <;> cases hf; exact Or.inl rfl

end Cell2v.Sche
