import Cell2v.Lemmas.Session
/-! Lower bound for the message clause: no message of a frame the reader is processing on a Working session is ever
dropped, whatever the other threads do meanwhile. -/
namespace Cell2v.Session

/-- packets that neither end the read loop nor take the session out of Working -/
def benign : Pkt → Bool
  | .ack => true
  | .data true _ => true
  | .hb => true
  | .other => true
  | _ => false

/-- the reader is inside a frame of benign packets on a session that has been ACKed; `base` = the message ids posted so
far followed by those still in its hand -/
def InFrame (base : List Nat) (s : St) : Prop :=
  s.rdC = .out ∧ (s.status = .working ∨ s.status = .closed) ∧
  ∃ rest, s.rd = .proc rest ∧ (∀ p ∈ rest, benign p = true) ∧ msgsOf s.posted ++ midsOfPkts rest = base

/-- … or it has posted all of them (and possibly more since) -/
def Delivered (base : List Nat) (s : St) : Prop := InFrame base s ∨ base <+: msgsOf s.posted

theorem delivered_step (fx : Bool) (base : List Nat) (s s' : St) (l : Lbl) (h : Delivered base s) (hf : fire fx s l = some s') :
    Delivered base s' := by
  rcases h with h | h
  · obtain ⟨status, closed, mutex, cc, posted, sendq, writes, now, lastHb, tickAt, rd, rdC, wr, wrC, hb, hbC, kWant, kC, arrived⟩ := s
    obtain ⟨h1, h2, rest, h3, h4, h5⟩ := h
    simp only at h1 h2 h3 h4 h5
    subst h1 h3
    step_cases <;>
    first
    | (left; refine ⟨rfl, ?_, rest, rfl, h4, ?_⟩ <;> simp_all [msgsOf_append, msgsOf]; done)
    | (right; simp_all [midsOfPkts]; done)
    | (simp_all [benign, midsOfPkts, Delivered, InFrame, msgsOf_append, msgsOf]; done)
    | (rcases h2 with h2 | h2 <;> subst h2 <;> simp_all [benign]; done)
  · right
    obtain ⟨t, ht⟩ := h
    have : ∃ u, msgsOf s'.posted = msgsOf s.posted ++ u := by
      obtain ⟨status, closed, mutex, cc, posted, sendq, writes, now, lastHb, tickAt, rd, rdC, wr, wrC, hb, hbC, kWant, kC, arrived⟩ := s
      step_cases <;> simp [msgsOf_append, msgsOf]
    obtain ⟨u, hu⟩ := this
    exact ⟨t ++ u, by rw [hu, ← ht, List.append_assoc]⟩

theorem delivered_run (fx : Bool) (base : List Nat) (ls : List Lbl) : ∀ (s s' : St), Delivered base s → runL fx s ls = some s' →
    Delivered base s' := by
  induction ls with
  | nil => intro s s' h hr; simp [runL] at hr; subst hr; exact h
  | cons l ls ih =>
    intro s s' h hr
    simp only [runL] at hr
    cases hf : fire fx s l with
    | none => simp [hf] at hr
    | some s1 => simp only [hf] at hr; exact ih s1 s' (delivered_step fx base s s1 l h hf) hr

/-- the posted events up to (not including) the first remove -/
def untilRemove : List Ev → List Ev
  | [] => []
  | .remove :: _ => []
  | e :: r => e :: untilRemove r

theorem view_dead' (r : List Ev) (h : adds r = 0) : view true false r = [] := by
  induction r with
  | nil => rfl
  | cons e r ih =>
    cases e with
    | add => simp [adds] at h
    | msg k => simp only [adds] at h; simp [view, ih h]
    | remove => simp only [adds] at h; simp [view, ih h]

/-- the owner (with a live session) handles every message posted before the remove, in order -/
theorem view_msgs_live (r : List Ev) (h : adds r = 0) : omsgs (view true true r) = msgsOf (untilRemove r) := by
  induction r with
  | nil => rfl
  | cons e r ih =>
    cases e with
    | add => simp [adds] at h
    | msg k => simp only [adds] at h; simp [view, omsgs, untilRemove, msgsOf, ih h]
    | remove => simp only [adds] at h; simp [view, omsgs, untilRemove, msgsOf, view_dead' r h]

end Cell2v.Session
