import Cell2v.Lemmas.Space
/-!
Lemmas about the model of `SimpleSpace` (simple.go), its plain-map contract `Ref.runS`
(`add` = upsert), the relation between the two contracts (`dropLiveAdds`), and searchers
with a `Validate` predicate.  Core Lean only.
-/
namespace Cell2v.Space

/-- invariant of `SimpleSpace`: the map's key set is the list of the `Id`s of the objects in
`values`, without duplicates -/
structure SWF (s : Simple) : Prop where
  keys : s.keys = s.values.map (·.1)
  nodup : s.keys.Nodup

theorem SWF.init : SWF {} := ⟨rfl, List.nodup_nil⟩

theorem setPos_ids (vs : List (Nat × Pos)) (id : Nat) (p : Pos) : (setPos vs id p).map (·.1) = vs.map (·.1) := by
  induction vs with
  | nil => rfl
  | cons a l ih =>
    simp only [setPos, List.map_cons] at ih ⊢
    rw [ih]
    by_cases h : a.1 == id
    · simp [(beq_iff_eq.mp h)]
    · simp [h]

theorem setPos_absent (vs : List (Nat × Pos)) (id : Nat) (p : Pos) (h : id ∉ vs.map (·.1)) : setPos vs id p = vs := by
  induction vs with
  | nil => rfl
  | cons a l ih =>
    simp only [List.map_cons, List.mem_cons, not_or] at h
    have h1 : (a.1 == id) = false := by
      apply beq_false_of_ne; intro e; exact h.1 e.symm
    have := ih h.2
    simp only [setPos, List.map_cons] at this ⊢
    rw [this, h1]; simp

theorem eraseFirstId_ids (vs : List (Nat × Pos)) (id : Nat) :
    (eraseFirstId vs id).map (·.1) = (vs.map (·.1)).erase id := by
  induction vs with
  | nil => rfl
  | cons a l ih =>
    by_cases h : a.1 == id
    · simp [eraseFirstId, List.erase_cons_head, beq_iff_eq.mp h]
    · have h' : ¬ (a.1 = id) := fun e => h (beq_iff_eq.mpr e)
      simp [eraseFirstId, h, ih, List.erase_cons_tail]

theorem eraseFirstId_eq_filter (vs : List (Nat × Pos)) (id : Nat) (hn : (vs.map (·.1)).Nodup) :
    eraseFirstId vs id = vs.filter (fun ip => ip.1 != id) := by
  induction vs with
  | nil => rfl
  | cons a l ih =>
    simp only [List.map_cons, List.nodup_cons] at hn
    by_cases h : a.1 == id
    · have ha : a.1 = id := beq_iff_eq.mp h
      have : l.filter (fun ip => ip.1 != id) = l := by
        apply List.filter_eq_self.mpr
        intro ip hip
        have : ip.1 ≠ id := by
          intro e; apply hn.1; rw [ha, ← e]; exact List.mem_map_of_mem hip
        simpa using this
      simp [eraseFirstId, ha, this]
    · have h' : ¬ (a.1 = id) := fun e => h (beq_iff_eq.mpr e)
      simp [eraseFirstId, h, h', ih hn.2]

theorem has_eq_contains (m : Ref) (id : Nat) : m.has id = (m.map (·.1)).contains id := by
  induction m with
  | nil => rfl
  | cons a l ih =>
    simp only [Ref.has, List.any_cons, List.map_cons, List.contains_cons] at ih ⊢
    rw [ih, Bool.beq_comm]

/-- one step of `SimpleSpace` preserves the invariant and is the upsert-map step on `values` -/
theorem SWF.step {s : Simple} (h : SWF s) (op : Op) :
    SWF (s.step op) ∧ (s.step op).values = Ref.stepS s.values op := by
  have hc : ∀ id, s.keys.contains id = Ref.has s.values id := by
    intro id; rw [has_eq_contains, h.keys]
  cases op with
  | add id p =>
    simp only [Simple.step, Simple.add, Ref.stepS, hc]
    by_cases hh : Ref.has s.values id
    · simp only [hh, if_true]
      refine ⟨⟨?_, h.nodup⟩, rfl⟩
      show s.keys = (setPos s.values id p).map (·.1)
      rw [setPos_ids]; exact h.keys
    · simp only [hh]
      refine ⟨⟨?_, ?_⟩, by simp⟩
      · simp [h.keys]
      · have : id ∉ s.keys := by
          intro hm
          have := hc id
          rw [List.contains_iff_mem.mpr hm] at this
          exact hh this.symm
        simp only [Bool.false_eq_true, if_false]
        exact List.nodup_append.mpr ⟨h.nodup, by simp, by
          intro a ha b hb; simp at hb; subst hb; intro e; subst e; exact this ha⟩
  | mov id p =>
    simp only [Simple.step, Simple.mov, Ref.stepS, hc]
    by_cases hh : Ref.has s.values id
    · simp only [hh, if_true]
      refine ⟨⟨?_, h.nodup⟩, rfl⟩
      show s.keys = (setPos s.values id p).map (·.1)
      rw [setPos_ids]; exact h.keys
    · simp only [hh]
      refine ⟨h, ?_⟩
      have hab : id ∉ s.values.map (·.1) := by
        intro hm
        apply hh
        rw [has_eq_contains]; exact List.contains_iff_mem.mpr hm
      have := setPos_absent s.values id p hab
      simp only [setPos] at this
      simp only [Bool.false_eq_true, if_false]
      exact this.symm
  | del id =>
    simp only [Simple.step, Simple.del, Ref.stepS]
    refine ⟨⟨?_, h.nodup.erase id⟩, ?_⟩
    · show s.keys.erase id = (eraseFirstId s.values id).map (·.1)
      rw [eraseFirstId_ids, h.keys]
    · exact eraseFirstId_eq_filter s.values id (h.keys ▸ h.nodup)

theorem SWF.run {s : Simple} (h : SWF s) (ops : List Op) :
    SWF (s.run ops) ∧ (s.run ops).values = Ref.runS s.values ops := by
  induction ops generalizing s with
  | nil => exact ⟨h, rfl⟩
  | cons op ops ih =>
    obtain ⟨h1, h2⟩ := h.step op
    obtain ⟨h3, h4⟩ := ih h1
    exact ⟨h3, by simp only [Simple.run, Ref.runS]; rw [h4, h2]⟩

theorem simple_search_eq_brute (s : Simple) (q : Pos) (r : Int) : s.search q r = Ref.brute s.values q r := by
  simp [Simple.search, Simple.searchV, Ref.brute]

theorem simple_searchV_eq_filter (s : Simple) (q : Pos) (r : Int) (v : Nat → Bool) :
    s.searchV q r v = (s.search q r).filter v := by
  simp only [Simple.search, Simple.searchV, Bool.and_true]
  induction s.values with
  | nil => rfl
  | cons a l ih =>
    simp only [List.filter_cons]
    by_cases hw : within q r a.2 <;> by_cases hv : v a.1 <;> simp [hw, hv, ih]

/-- feeding `SimpleSpace`'s contract only the adds of ids that are not live yields the zoned contract -/
theorem runS_dropLiveAdds (m : Ref) (ops : List Op) : Ref.runS m (dropLiveAdds m ops) = Ref.run m ops := by
  induction ops generalizing m with
  | nil => rfl
  | cons op ops ih =>
    cases op with
    | add id p =>
      simp only [dropLiveAdds]
      by_cases hh : m.has id
      · simp only [hh, if_true, Ref.run, Ref.step]
        exact ih m
      · have hf : m.has id = false := by simpa using hh
        simp only [hf, Bool.false_eq_true, if_false, Ref.run, Ref.runS, Ref.stepS, Ref.step]
        exact ih _
    | mov id p => simp only [dropLiveAdds, Ref.run, Ref.runS, Ref.stepS, Ref.step]; exact ih _
    | del id => simp only [dropLiveAdds, Ref.run, Ref.runS, Ref.stepS, Ref.step]; exact ih _

/-! ### searchers -/

theorem zoneSearchV_eq_filter (s : Space) (q : Pos) (r : Int) (v : Nat → Bool) (i : Nat) :
    s.zoneSearchV q r v i = (s.zoneSearch q r i).filter v := by
  simp only [Space.zoneSearchV, Space.zoneSearch, List.filter_filter]
  congr 1
  funext id
  cases s.find id <;> simp [Bool.and_comm]

theorem filter_flatMap' {α β : Type} (l : List α) (f : α → List β) (p : β → Bool) :
    (l.flatMap f).filter p = l.flatMap (fun a => (f a).filter p) := by
  induction l with
  | nil => rfl
  | cons a l ih => simp [List.flatMap_cons, ih]

theorem searchV_eq_filter (s : Space) (q : Pos) (r : Int) (v : Nat → Bool) :
    s.searchV q r v = (s.search q r).filter v := by
  simp only [Space.searchV, Space.search, Space.searchG, visited, filter_flatMap']
  congr 1
  funext i
  exact zoneSearchV_eq_filter s q r v i

end Cell2v.Space
