import Cell2v.Model.Loop
/-!
Invariants of the run-service loop model (C04), by induction over schedules.
-/
namespace Cell2v.Loop

theorem monitor_snoc (tr : List Ev) (e : Ev) : monitor (tr ++ [e]) = (monitor tr).step e := by
  simp [monitor, List.foldl_append]

/-- the monitor's view agrees with the consumer's state -/
def MInv (s : St) : Prop :=
  (monitor s.trace).cur = (if s.running.isSome then 1 else 0) ∧
  (monitor s.trace).peak ≤ 1 ∧ (monitor s.trace).foreign = false

theorem minv_init : MInv init := by
  simp [MInv, init, monitor]

theorem minv_fire (cap : Nat) (s s' : St) (l : Lbl) (h : MInv s) (hf : fire cap false s l = some s') :
    MInv s' := by
  obtain ⟨h1, h2, h3⟩ := h
  cases l with
  | enq p c it =>
    simp only [fire] at hf
    split at hf
    · cases hf; simp only [MInv, monitor_snoc, Mon.step]; exact ⟨h1, h2, h3⟩
    · cases hf
  | pstep p => simp only [fire] at hf; cases hf; exact ⟨h1, h2, h3⟩
  | pick c =>
    simp only [fire] at hf
    split at hf
    · rename_i hr hq
      cases hf
      simp only [MInv, monitor_snoc, Mon.step]
      simp only [hr] at h1
      simp at h1
      refine ⟨by simp [h1], ?_, by simp [h3]⟩
      rw [h1]; omega
    · cases hf
  | hstep =>
    simp only [fire] at hf
    split at hf
    · cases hf; exact ⟨h1, h2, h3⟩
    · cases hf
  | henq c it =>
    simp only [fire] at hf
    split at hf
    · cases hf; simp only [MInv, monitor_snoc, Mon.step]; exact ⟨h1, h2, h3⟩
    · cases hf
  | finish =>
    simp only [fire] at hf
    split at hf
    · rename_i it hr
      cases hf
      simp only [MInv, monitor_snoc, Mon.step]
      simp only [hr] at h1
      simp at h1
      exact ⟨by simp [h1], h2, by simp [h3]⟩
    · cases hf
  | direct p it => simp [fire] at hf
  | directEnd p it => simp [fire] at hf

theorem minv_run (cap : Nat) (ls : List Lbl) : ∀ (s s' : St), MInv s → runL cap false s ls = some s' → MInv s' := by
  induction ls with
  | nil => intro s s' h hr; simp [runL] at hr; subst hr; exact h
  | cons l ls ih =>
    intro s s' h hr
    simp only [runL] at hr
    split at hr
    · rename_i s1 hf
      exact ih s1 s' (minv_fire cap s s1 l h hf) hr
    · cases hr

/-- everything that is queued, running or has ever been started was enqueued by someone -/
def QInv (s : St) : Prop :=
  (∀ c it, it ∈ s.q c → ∃ w, Ev.enq w c it ∈ s.trace) ∧
  (∀ it, s.running = some it → ∃ w c, Ev.enq w c it ∈ s.trace) ∧
  (∀ w it, Ev.start w it ∈ s.trace → ∃ w' c, Ev.enq w' c it ∈ s.trace)

theorem qinv_init : QInv init := by
  simp [QInv, init]

theorem mem_setQ {q : Nat → List Nat} {c d : Nat} {l : List Nat} {it : Nat} (h : it ∈ setQ q c l d) :
    (d = c ∧ it ∈ l) ∨ (d ≠ c ∧ it ∈ q d) := by
  unfold setQ at h
  split at h
  · left; exact ⟨‹_›, h⟩
  · right; exact ⟨‹_›, h⟩

theorem qinv_fire (cap : Nat) (s s' : St) (l : Lbl) (h : QInv s) (hf : fire cap false s l = some s') :
    QInv s' := by
  obtain ⟨h1, h2, h3⟩ := h
  cases l with
  | enq p c it =>
    simp only [fire] at hf
    split at hf
    · cases hf
      refine ⟨?_, ?_, ?_⟩
      · intro d x hx
        rcases mem_setQ hx with ⟨hd, hm⟩ | ⟨_, hm⟩
        · subst hd
          rcases List.mem_append.mp hm with hm | hm
          · obtain ⟨w, hw⟩ := h1 _ _ hm; exact ⟨w, List.mem_append_left _ hw⟩
          · simp at hm; subst hm; exact ⟨.producer p, by simp⟩
        · obtain ⟨w, hw⟩ := h1 _ _ hm; exact ⟨w, List.mem_append_left _ hw⟩
      · intro x hx
        obtain ⟨w, c', hw⟩ := h2 x hx; exact ⟨w, c', List.mem_append_left _ hw⟩
      · intro w x hx
        rcases List.mem_append.mp hx with hx | hx
        · obtain ⟨w', c', hw⟩ := h3 w x hx; exact ⟨w', c', List.mem_append_left _ hw⟩
        · simp at hx
    · cases hf
  | pstep p => simp only [fire] at hf; cases hf; exact ⟨h1, h2, h3⟩
  | pick c =>
    simp only [fire] at hf
    split at hf
    · rename_i it rest hr hq
      cases hf
      have hit : ∃ w, Ev.enq w c it ∈ s.trace := h1 c it (by rw [hq]; simp)
      refine ⟨?_, ?_, ?_⟩
      · intro d x hx
        rcases mem_setQ hx with ⟨hd, hm⟩ | ⟨_, hm⟩
        · subst hd
          obtain ⟨w, hw⟩ := h1 d x (by rw [hq]; exact List.mem_cons_of_mem _ hm)
          exact ⟨w, List.mem_append_left _ hw⟩
        · obtain ⟨w, hw⟩ := h1 _ _ hm; exact ⟨w, List.mem_append_left _ hw⟩
      · intro x hx
        simp at hx; subst hx
        obtain ⟨w, hw⟩ := hit; exact ⟨w, c, List.mem_append_left _ hw⟩
      · intro w x hx
        rcases List.mem_append.mp hx with hx | hx
        · obtain ⟨w', c', hw⟩ := h3 w x hx; exact ⟨w', c', List.mem_append_left _ hw⟩
        · simp at hx
          obtain ⟨_, hx⟩ := hx; subst hx
          obtain ⟨w', hw⟩ := hit; exact ⟨w', c, List.mem_append_left _ hw⟩
    · cases hf
  | hstep =>
    simp only [fire] at hf
    split at hf
    · cases hf; exact ⟨h1, h2, h3⟩
    · cases hf
  | henq c it =>
    simp only [fire] at hf
    split at hf
    · cases hf
      refine ⟨?_, ?_, ?_⟩
      · intro d x hx
        rcases mem_setQ hx with ⟨hd, hm⟩ | ⟨_, hm⟩
        · subst hd
          rcases List.mem_append.mp hm with hm | hm
          · obtain ⟨w, hw⟩ := h1 _ _ hm; exact ⟨w, List.mem_append_left _ hw⟩
          · simp at hm; subst hm; exact ⟨.consumer, by simp⟩
        · obtain ⟨w, hw⟩ := h1 _ _ hm; exact ⟨w, List.mem_append_left _ hw⟩
      · intro x hx
        obtain ⟨w, c', hw⟩ := h2 x hx; exact ⟨w, c', List.mem_append_left _ hw⟩
      · intro w x hx
        rcases List.mem_append.mp hx with hx | hx
        · obtain ⟨w', c', hw⟩ := h3 w x hx; exact ⟨w', c', List.mem_append_left _ hw⟩
        · simp at hx
    · cases hf
  | finish =>
    simp only [fire] at hf
    split at hf
    · cases hf
      refine ⟨?_, ?_, ?_⟩
      · intro d x hx
        obtain ⟨w, hw⟩ := h1 _ _ hx; exact ⟨w, List.mem_append_left _ hw⟩
      · intro x hx; simp at hx
      · intro w x hx
        rcases List.mem_append.mp hx with hx | hx
        · obtain ⟨w', c', hw⟩ := h3 w x hx; exact ⟨w', c', List.mem_append_left _ hw⟩
        · simp at hx
    · cases hf
  | direct p it => simp [fire] at hf
  | directEnd p it => simp [fire] at hf

theorem qinv_run (cap : Nat) (ls : List Lbl) : ∀ (s s' : St), QInv s → runL cap false s ls = some s' → QInv s' := by
  induction ls with
  | nil => intro s s' h hr; simp [runL] at hr; subst hr; exact h
  | cons l ls ih =>
    intro s s' h hr
    simp only [runL] at hr
    split at hr
    · rename_i s1 hf
      exact ih s1 s' (qinv_fire cap s s1 l h hf) hr
    · cases hr

theorem foreign_false_all (tr : List Ev) : ∀ (m : Mon), (tr.foldl Mon.step m).foreign = false →
    m.foreign = false ∧ ∀ w it, (Ev.start w it ∈ tr ∨ Ev.stop w it ∈ tr) → w = Thread.consumer := by
  induction tr with
  | nil => intro m h; exact ⟨h, by simp⟩
  | cons e tr ih =>
    intro m h
    simp only [List.foldl_cons] at h
    obtain ⟨hm, hall⟩ := ih _ h
    cases e with
    | enq w c it =>
      simp only [Mon.step] at hm
      refine ⟨hm, ?_⟩
      intro w' it' hmem
      apply hall w' it'
      rcases hmem with hmem | hmem <;> simp at hmem
      · left; exact hmem
      · right; exact hmem
    | start w it =>
      simp only [Mon.step, Bool.or_eq_false_iff, bne_eq_false_iff_eq] at hm
      refine ⟨hm.1, ?_⟩
      intro w' it' hmem
      rcases hmem with hmem | hmem <;> simp at hmem
      · rcases hmem with ⟨rfl, _⟩ | hmem
        · exact hm.2
        · exact hall w' it' (Or.inl hmem)
      · exact hall w' it' (Or.inr hmem)
    | stop w it =>
      simp only [Mon.step, Bool.or_eq_false_iff, bne_eq_false_iff_eq] at hm
      refine ⟨hm.1, ?_⟩
      intro w' it' hmem
      rcases hmem with hmem | hmem <;> simp at hmem
      · exact hall w' it' (Or.inl hmem)
      · rcases hmem with ⟨rfl, _⟩ | hmem
        · exact hm.2
        · exact hall w' it' (Or.inr hmem)

end Cell2v.Loop
