import Cell2v.Model.Ring
/-!
Refinement of the growing ring buffer (`goring.Queue`) and of the sequential
`mpsc.Queue` to a plain FIFO list.

The workhorse is `Rep q l` ("ring `q` represents list `l`"): the structural
facts plus ONE statement about all `mod` slots, read through the position helper
`idx i = (head + 1 + i) % mod`:  `slot q i = l[i]?` for every `i < mod`
(so the `len` live slots hold `l` in order and all the others are `nil`).
All modular index reasoning goes through `mod_cases` (for `a < 2 * m`,
`a % m` is `a` or `a - m`) followed by `omega`.
-/
namespace Cell2v.Ring

/-! ### arithmetic -/

theorem mod_cases (a m : Nat) (h : a < 2 * m) : (a < m ∧ a % m = a) ∨ (m ≤ a ∧ a % m = a - m) := by
  by_cases h1 : a < m
  · exact .inl ⟨h1, Nat.mod_eq_of_lt h1⟩
  · refine .inr ⟨by omega, ?_⟩
    rw [Nat.mod_eq_sub_mod (by omega)]
    exact Nat.mod_eq_of_lt (by omega)

theorem idx_lt (h m i : Nat) (hm : 1 ≤ m) : (h + 1 + i) % m < m := Nat.mod_lt _ (by omega)

/-- `i ↦ (h + 1 + i) % m` is injective on `[0, m)` -/
theorem idx_inj (h m i j : Nat) (hh : h < m) (hi : i < m) (hj : j < m)
    (e : (h + 1 + i) % m = (h + 1 + j) % m) : i = j := by
  rcases mod_cases (h + 1 + i) m (by omega) with ⟨a1, a2⟩ | ⟨a1, a2⟩ <;>
  rcases mod_cases (h + 1 + j) m (by omega) with ⟨b1, b2⟩ | ⟨b1, b2⟩ <;> omega

/-- the slot after `tail = (h + n) % m` is the slot of element number `n` -/
theorem tail_succ (h m n : Nat) (hh : h < m) (hn : n < m) : ((h + n) % m + 1) % m = (h + 1 + n) % m := by
  rcases mod_cases (h + n) m (by omega) with ⟨a1, a2⟩ | ⟨a1, a2⟩ <;>
  rcases mod_cases (h + 1 + n) m (by omega) with ⟨b1, b2⟩ | ⟨b1, b2⟩ <;>
  rcases mod_cases ((h + n) % m + 1) m (by omega) with ⟨c1, c2⟩ | ⟨c1, c2⟩ <;> omega

/-- the ring is full (next tail hits head) exactly when it holds `m - 1` elements -/
theorem full_iff (h m n : Nat) (hh : h < m) (hn : n < m) : (h + 1 + n) % m = h ↔ n + 1 = m := by
  rcases mod_cases (h + 1 + n) m (by omega) with ⟨a1, a2⟩ | ⟨a1, a2⟩ <;> omega

/-- position of element `i` after the head moved forward by `c` -/
theorem idx_shift (h m c i : Nat) (hh : h < m) (hc : c < m) (hi : i < m) :
    ((h + c) % m + 1 + i) % m = (h + 1 + (c + i) % m) % m := by
  rcases mod_cases (h + c) m (by omega) with ⟨a1, a2⟩ | ⟨a1, a2⟩ <;>
  rcases mod_cases (c + i) m (by omega) with ⟨b1, b2⟩ | ⟨b1, b2⟩ <;>
  rcases mod_cases ((h + c) % m + 1 + i) m (by omega) with ⟨c1, c2⟩ | ⟨c1, c2⟩ <;>
  rcases mod_cases (h + 1 + (c + i) % m) m (by omega) with ⟨d1, d2⟩ | ⟨d1, d2⟩ <;> omega

theorem tail_shift (h m c n : Nat) (hh : h < m) (hc : c ≤ n) (hn : n < m) :
    (h + n) % m = ((h + c) % m + (n - c)) % m := by
  rcases mod_cases (h + c) m (by omega) with ⟨a1, a2⟩ | ⟨a1, a2⟩ <;>
  rcases mod_cases (h + n) m (by omega) with ⟨b1, b2⟩ | ⟨b1, b2⟩ <;>
  rcases mod_cases ((h + c) % m + (n - c)) m (by omega) with ⟨c1, c2⟩ | ⟨c1, c2⟩ <;> omega

/-! ### buffer access -/

theorem get_set (b : List (Option Nat)) (p p' : Nat) (v : Option Nat) (hp : p < b.length) :
    get (b.set p v) p' = if p = p' then v else get b p' := by
  unfold get
  rw [List.getElem?_set]
  by_cases e : p = p'
  · subst e; simp [hp]
  · simp [e]

theorem get_replicate_none (n p : Nat) : get (List.replicate n none) p = none := by
  unfold get
  rw [List.getElem?_replicate]
  split <;> rfl


/-! ### the two loops -/

theorem copyLoop_succ (buf : List (Option Nat)) (t m n : Nat) (nb : List (Option Nat)) :
    (List.range (n + 1)).foldl (fun nb i => nb.set i (get buf ((t + i) % m))) nb
      = ((List.range n).foldl (fun nb i => nb.set i (get buf ((t + i) % m))) nb).set n (get buf ((t + n) % m)) := by
  simp [List.range_succ, List.foldl_append]

theorem copyLoop_length (buf : List (Option Nat)) (t m n : Nat) (nb : List (Option Nat)) :
    ((List.range n).foldl (fun nb i => nb.set i (get buf ((t + i) % m))) nb).length = nb.length := by
  induction n with
  | zero => simp
  | succ n ih => rw [copyLoop_succ, List.length_set, ih]

/-- after `n` rounds of the resize loop the first `n` slots are copied, the rest untouched -/
theorem copyLoop_get (buf : List (Option Nat)) (t m n : Nat) (nb : List (Option Nat)) (hn : n ≤ nb.length) (j : Nat) :
    get ((List.range n).foldl (fun nb i => nb.set i (get buf ((t + i) % m))) nb) j
      = if j < n then get buf ((t + j) % m) else get nb j := by
  induction n with
  | zero => simp
  | succ n ih =>
    rw [copyLoop_succ, get_set _ _ _ _ (by rw [copyLoop_length]; omega), ih (by omega)]
    by_cases e : n = j
    · subst e; simp
    · simp only [e, if_false]
      split <;> split <;> first | rfl | omega

theorem popLoop_succ (h m n : Nat) (buf : List (Option Nat)) :
    popLoop h m (n + 1) buf
      = ((popLoop h m n buf).1 ++ [get (popLoop h m n buf).2 ((h + 1 + n) % m)],
         (popLoop h m n buf).2.set ((h + 1 + n) % m) none) := by
  simp [popLoop, List.range_succ, List.foldl_append]

theorem popLoop_length (h m n : Nat) (buf : List (Option Nat)) : (popLoop h m n buf).2.length = buf.length := by
  induction n with
  | zero => simp [popLoop]
  | succ n ih => rw [popLoop_succ]; simp [ih]

/-- after `n ≤ mod` rounds of the `PopMany` loop: the `n` oldest slots were read in
order and cleared, every other slot is untouched -/
theorem popLoop_spec (h m n : Nat) (buf : List (Option Nat)) (hm : 1 ≤ m) (hh : h < m) (hb : buf.length = m) (hn : n ≤ m) :
    (popLoop h m n buf).1 = (List.range n).map (fun i => get buf ((h + 1 + i) % m)) ∧
    ∀ i, i < m → get (popLoop h m n buf).2 ((h + 1 + i) % m) = if i < n then none else get buf ((h + 1 + i) % m) := by
  induction n with
  | zero => simp [popLoop]
  | succ n ih =>
    obtain ⟨ih1, ih2⟩ := ih (by omega)
    rw [popLoop_succ]
    refine ⟨?_, ?_⟩
    · simp only [List.range_succ, List.map_append, List.map_cons, List.map_nil]
      rw [ih1, ih2 n (by omega)]
      simp
    · intro i hi
      simp only
      rw [get_set _ _ _ _ (by rw [popLoop_length, hb]; exact idx_lt h m n hm), ih2 i hi]
      by_cases e : i = n
      · subst e; simp
      · have : (h + 1 + n) % m ≠ (h + 1 + i) % m := fun c => e (idx_inj h m n i hh (by omega) hi c).symm
        simp only [this, if_false]
        split <;> split <;> first | rfl | omega

/-! ### representation relation -/

/-- ring `q` represents the FIFO list `l` -/
def Rep (q : Ring) (l : List Nat) : Prop :=
  1 ≤ q.mod ∧ q.buf.length = q.mod ∧ q.head < q.mod ∧ q.len < q.mod ∧
  q.tail = (q.head + q.len) % q.mod ∧ l.length = q.len ∧
  ∀ i, i < q.mod → slot q i = l[i]?

theorem rep_abs {q : Ring} {l : List Nat} (h : Rep q l) : abs q = l := by
  obtain ⟨_, _, _, hlen, _, hl, hs⟩ := h
  apply List.ext_getElem
  · simp [abs, hl]
  · intro i h1 h2
    simp only [abs, List.getElem_map, List.getElem_range]
    rw [hs i (by omega), List.getElem?_eq_getElem h2]
    rfl

theorem rep_wf {q : Ring} {l : List Nat} (h : Rep q l) : WF q := by
  obtain ⟨h1, h2, h3, h4, h5, hl, hs⟩ := h
  refine ⟨h1, h2, h3, h4, h5, ?_⟩
  intro i hi
  rw [hs i hi, ← hl]
  by_cases c : i < l.length
  · simp [c]
  · simp [c]

theorem wf_rep {q : Ring} (h : WF q) : Rep q (abs q) := by
  obtain ⟨h1, h2, h3, h4, h5, hs⟩ := h
  refine ⟨h1, h2, h3, h4, h5, by simp [abs], ?_⟩
  intro i hi
  have := hs i hi
  by_cases c : i < q.len
  · have hsome := this.mpr c
    simp only [abs, List.getElem?_map, List.getElem?_range c, Option.map_some]
    cases hv : slot q i with
    | none => simp [hv] at hsome
    | some v => rfl
  · have hnone : (slot q i).isSome ≠ true := fun x => c (this.mp x)
    rw [List.getElem?_eq_none (by simp [abs]; omega)]
    cases hv : slot q i with
    | none => rfl
    | some v => simp [hv] at hnone

theorem rep_new (n : Nat) (hn : 1 ≤ n) : Rep (new n) [] := by
  refine ⟨hn, by simp [new], by simp [new]; omega, by simp [new]; omega, by simp [new], rfl, ?_⟩
  intro i _
  simp [slot, new, get_replicate_none]

/-! ### push -/

theorem push_rep {q : Ring} {l : List Nat} (x : Nat) (h : Rep q l) : Rep (push q x) (l ++ [x]) := by
  obtain ⟨h1, h2, h3, h4, h5, hl, hs⟩ := h
  have htl : (q.tail + 1) % q.mod = (q.head + 1 + q.len) % q.mod := by rw [h5]; exact tail_succ _ _ _ h3 h4
  unfold push
  simp only [htl]
  by_cases hf : (q.head + 1 + q.len) % q.mod = q.head
  · -- full: grow
    have hfull : q.len + 1 = q.mod := (full_iff _ _ _ h3 h4).mp hf
    simp only [hf, if_true]
    have hcl := copyLoop_length q.buf q.head q.mod q.mod (List.replicate (q.mod * 2) none)
    refine ⟨by simp only; omega, ?_, by simp only; omega, by simp only; omega, ?_, by simp [hl], ?_⟩
    · simp only [copyLoop, List.length_set, hcl, List.length_replicate]
    · simp only
      rw [Nat.zero_add, hfull]
      exact (Nat.mod_eq_of_lt (by omega)).symm
    · intro i hi
      simp only at hi
      simp only [slot, idx, copyLoop]
      rw [get_set _ _ _ _ (by rw [hcl, List.length_replicate]; omega),
        copyLoop_get _ _ _ _ _ (by rw [List.length_replicate]; omega), get_replicate_none]
      rcases mod_cases (0 + 1 + i) (q.mod * 2) (by omega) with ⟨a1, a2⟩ | ⟨a1, a2⟩
      · rw [a2]
        by_cases e : q.mod = 0 + 1 + i
        · -- the new element
          have : i = l.length := by omega
          subst this
          simp [e]
        · simp only [e, if_false]
          by_cases c : 0 + 1 + i < q.mod
          · -- copied live element
            simp only [c, if_true]
            have := hs i (by omega)
            simp only [slot, idx] at this
            rw [show q.head + (0 + 1 + i) = q.head + 1 + i by omega, this]
            rw [List.getElem?_append_left (by omega)]
          · simp only [c, if_false]
            rw [List.getElem?_eq_none (by simp; omega)]
      · -- i = 2*mod - 1: position 0 receives the (empty) old head slot
        have hi0 : 0 + 1 + i - q.mod * 2 = 0 := by omega
        rw [a2, hi0]
        have e : ¬ q.mod = 0 := by omega
        have c : 0 < q.mod := by omega
        simp only [e, if_false, c, if_true, Nat.add_zero]
        have := hs q.len (by omega)
        simp only [slot, idx, hf] at this
        rw [Nat.mod_eq_of_lt h3, this, List.getElem?_eq_none (by omega), List.getElem?_eq_none (by simp; omega)]
  · -- room left
    have hroom : q.len + 1 ≠ q.mod := fun c => hf ((full_iff _ _ _ h3 h4).mpr c)
    simp only [hf, if_false]
    refine ⟨h1, by simp [h2], h3, by simp only; omega, ?_, by simp [hl], ?_⟩
    · simp only
      rw [show q.head + (q.len + 1) = q.head + 1 + q.len by omega]
    · intro i hi
      simp only at hi
      simp only [slot, idx]
      rw [get_set _ _ _ _ (by rw [h2]; exact idx_lt _ _ _ h1)]
      by_cases e : i = q.len
      · subst e; simp [← hl]
      · have : (q.head + 1 + q.len) % q.mod ≠ (q.head + 1 + i) % q.mod :=
          fun c => e (idx_inj _ _ _ _ h3 h4 hi c).symm
        simp only [this, if_false]
        have := hs i hi
        simp only [slot, idx] at this
        rw [this]
        by_cases c : i < l.length
        · rw [List.getElem?_append_left c]
        · rw [List.getElem?_eq_none (by omega), List.getElem?_eq_none (by simp; omega)]

/-! ### pop -/

theorem pop_rep_nil {q : Ring} (h : Rep q []) : pop q = (none, q) := by
  obtain ⟨_, _, _, _, _, hl, _⟩ := h
  simp [pop, ← hl]

theorem pop_rep_cons {q : Ring} {x : Nat} {r : List Nat} (h : Rep q (x :: r)) :
    (pop q).1 = some (some x) ∧ Rep (pop q).2 r := by
  obtain ⟨h1, h2, h3, h4, h5, hl, hs⟩ := h
  have hpos : q.len ≠ 0 := by rw [← hl]; simp
  have hl' : r.length + 1 = q.len := by simpa using hl
  have h0 := hs 0 (by omega)
  simp only [slot, idx, Nat.add_zero, List.getElem?_cons_zero] at h0
  unfold pop
  simp only [hpos, if_false]
  refine ⟨by rw [h0], h1, by simp [h2], idx_lt _ _ 0 h1, by simp only; omega, ?_, by simp only; omega, ?_⟩
  · simp only
    rw [h5]
    have := tail_shift q.head q.mod 1 q.len h3 (by omega) h4
    simpa using this
  · intro i hi
    simp only at hi
    simp only [slot, idx]
    rw [get_set _ _ _ _ (by rw [h2]; exact idx_lt _ _ 0 h1)]
    have hsh := idx_shift q.head q.mod 1 i h3 (by omega) hi
    rw [hsh]
    rcases mod_cases (1 + i) q.mod (by omega) with ⟨a1, a2⟩ | ⟨a1, a2⟩
    · rw [a2]
      have : (q.head + 1) % q.mod ≠ (q.head + 1 + (1 + i)) % q.mod := by
        intro c
        have := idx_inj q.head q.mod 0 (1 + i) h3 (by omega) a1 (by simpa using c)
        omega
      simp only [this, if_false]
      have := hs (1 + i) a1
      simp only [slot, idx] at this
      rw [this, Nat.add_comm 1 i, List.getElem?_cons_succ]
    · have : 1 + i - q.mod = 0 := by omega
      rw [a2, this]
      simp only [Nat.add_zero, if_true]
      rw [List.getElem?_eq_none (by omega)]

/-! ### popMany -/

theorem popMany_rep_nil {q : Ring} (k : Nat) (h : Rep q []) : popMany q k = (none, q) := by
  obtain ⟨_, _, _, _, _, hl, _⟩ := h
  simp [popMany, ← hl]

theorem popMany_rep {q : Ring} {l : List Nat} (k : Nat) (h : Rep q l) (hne : l ≠ []) :
    (popMany q k).1 = some ((l.take k).map some) ∧ Rep (popMany q k).2 (l.drop k) := by
  obtain ⟨h1, h2, h3, h4, h5, hl, hs⟩ := h
  have hpos : q.len ≠ 0 := by
    rw [← hl]; intro c; exact hne (List.eq_nil_of_length_eq_zero c)
  unfold popMany
  simp only [hpos, if_false]
  generalize hc : (if k ≥ q.len then q.len else k) = c
  have hck : c = min k q.len := by rw [← hc]; split <;> omega
  have hcl : c ≤ q.len := by omega
  obtain ⟨p1, p2⟩ := popLoop_spec q.head q.mod c q.buf h1 h3 h2 (by omega)
  refine ⟨?_, h1, by simp [popLoop_length, h2], Nat.mod_lt _ (by omega), by simp only; omega, ?_, by simp [hl]; omega, ?_⟩
  · -- the returned slice
    rw [p1]
    congr 1
    apply List.ext_getElem?
    intro i
    by_cases ci : i < c
    · have hsi := hs i (by omega)
      simp only [slot, idx] at hsi
      have hik : i < k := by omega
      have hv : l[i]? = some (l[i]'(by omega)) := List.getElem?_eq_getElem (by omega)
      rw [List.getElem?_map, List.getElem?_map, List.getElem?_range ci, List.getElem?_take]
      simp only [hik, if_true, Option.map_some, hsi, hv]
    · rw [List.getElem?_eq_none (by simp; omega), List.getElem?_eq_none (by simp; omega)]
  · simp only
    rw [h5]
    exact tail_shift q.head q.mod c q.len h3 hcl h4
  · intro i hi
    simp only at hi
    simp only [slot, idx]
    rw [idx_shift q.head q.mod c i h3 (by omega) hi]
    have hlt : (c + i) % q.mod < q.mod := Nat.mod_lt _ (by omega)
    rw [p2 _ hlt]
    have hdrop : (l.drop k)[i]? = l[c + i]? := by
      rw [List.getElem?_drop]
      by_cases ck : k ≤ q.len
      · have : c = k := by omega
        rw [this]
      · rw [List.getElem?_eq_none (by omega), List.getElem?_eq_none (by omega)]
    rw [hdrop]
    rcases mod_cases (c + i) q.mod (by omega) with ⟨a1, a2⟩ | ⟨a1, a2⟩
    · rw [a2]
      by_cases ci : c + i < c
      · omega
      · simp only [ci, if_false]
        have := hs (c + i) a1
        simpa only [slot, idx] using this
    · rw [a2]
      have : c + i - q.mod < c := by omega
      simp only [this, if_true]
      rw [List.getElem?_eq_none (by omega)]

/-! ### sequences -/

theorem step_rep {q : Ring} {l : List Nat} (op : Op) (h : Rep q l) :
    (step q op).2 = (specStep l op).2 ∧ Rep (step q op).1 (specStep l op).1 := by
  cases op with
  | push x => exact ⟨rfl, push_rep x h⟩
  | pop =>
    cases l with
    | nil => simp only [step, specStep, pop_rep_nil h]; exact ⟨trivial, h⟩
    | cons x r =>
      obtain ⟨a, b⟩ := pop_rep_cons h
      simp only [step, specStep, a]; exact ⟨trivial, b⟩
  | popMany k =>
    cases l with
    | nil => simp only [step, specStep, popMany_rep_nil k h]; exact ⟨trivial, h⟩
    | cons x r =>
      obtain ⟨a, b⟩ := popMany_rep k h (by simp)
      simp only [step, specStep, a]; exact ⟨trivial, b⟩
  | length => simp only [step, specStep, h.2.2.2.2.2.1]; exact ⟨trivial, h⟩

theorem run_rep_aux (ops : List Op) : ∀ (q : Ring) (l : List Nat) (acc : List Obs), Rep q l →
    (ops.foldl (fun (st : Ring × List Obs) op => let r := step st.1 op; (r.1, st.2 ++ [r.2])) (q, acc)).2
      = (ops.foldl (fun (st : List Nat × List Obs) op => let r := specStep st.1 op; (r.1, st.2 ++ [r.2])) (l, acc)).2 ∧
    Rep (ops.foldl (fun (st : Ring × List Obs) op => let r := step st.1 op; (r.1, st.2 ++ [r.2])) (q, acc)).1
      (ops.foldl (fun (st : List Nat × List Obs) op => let r := specStep st.1 op; (r.1, st.2 ++ [r.2])) (l, acc)).1 := by
  induction ops with
  | nil => intro q l acc h; exact ⟨rfl, h⟩
  | cons op ops ih =>
    intro q l acc h
    obtain ⟨a, b⟩ := step_rep op h
    simp only [List.foldl_cons]
    rw [a]
    exact ih _ _ _ b

theorem run_rep (ops : List Op) (q : Ring) (l : List Nat) (h : Rep q l) :
    (run step q ops).2 = (run specStep l ops).2 ∧ Rep (run step q ops).1 (run specStep l ops).1 :=
  run_rep_aux ops q l [] h

end Cell2v.Ring

/-! ## mpsc (sequential) -/
namespace Cell2v.Mpsc

theorem node_set (h : List Node) (p a : Nat) (v : Node) (hp : p < h.length) :
    node (h.set p v) a = if p = a then v else node h a := by
  unfold node
  rw [List.getElem?_set]
  by_cases e : p = a
  · subst e; simp [hp]
  · simp [e]

theorem node_append_left (h : List Node) (n : Node) (a : Nat) (ha : a < h.length) : node (h ++ [n]) a = node h a := by
  unfold node
  rw [List.getElem?_append_left ha]

theorem node_append_self (h : List Node) (n : Node) : node (h ++ [n]) h.length = n := by
  unfold node
  simp

/-- queue `q` represents the FIFO list `l` -/
def Rep (q : Q) (l : List Nat) : Prop :=
  q.heap.length = q.head + 1 ∧ q.tail ≤ q.head ∧
  (∀ a, a < q.head → (node q.heap a).next = some (a + 1)) ∧
  (node q.heap q.head).next = none ∧
  l.length = q.head - q.tail ∧
  ∀ i, i < q.head - q.tail → (node q.heap (q.tail + 1 + i)).val = l[i]?

theorem rep_new : Rep new [] := by
  refine ⟨rfl, Nat.le_refl _, ?_, rfl, rfl, ?_⟩ <;> intro a ha <;> simp [new] at ha

theorem rep_abs {q : Q} {l : List Nat} (h : Rep q l) : abs q = l := by
  obtain ⟨_, _, _, _, hl, hv⟩ := h
  apply List.ext_getElem
  · simp [abs, hl]
  · intro i h1 h2
    simp only [abs, List.getElem_map, List.getElem_range]
    rw [hv i (by omega), List.getElem?_eq_getElem h2]
    rfl

theorem rep_wf {q : Q} {l : List Nat} (h : Rep q l) : WF q := by
  obtain ⟨h1, h2, h3, h4, hl, hv⟩ := h
  refine ⟨h1, h2, h3, h4, ?_⟩
  intro a ha hb
  have := hv (a - q.tail - 1) (by omega)
  rw [show q.tail + 1 + (a - q.tail - 1) = a by omega] at this
  rw [this, List.getElem?_eq_getElem (by omega)]
  rfl

theorem wf_rep {q : Q} (h : WF q) : Rep q (abs q) := by
  obtain ⟨h1, h2, h3, h4, hv⟩ := h
  refine ⟨h1, h2, h3, h4, by simp [abs], ?_⟩
  intro i hi
  have hsome := hv (q.tail + 1 + i) (by omega) (by omega)
  simp only [abs, List.getElem?_map, List.getElem?_range hi, Option.map_some]
  cases hval : (node q.heap (q.tail + 1 + i)).val with
  | none => simp [hval] at hsome
  | some v => rfl

theorem push_next {q : Q} (x : Nat) (h1 : q.heap.length = q.head + 1) (a : Nat) :
    (node (push q x).heap a).next
      = if a = q.head then some (q.head + 1) else if a = q.head + 1 then none else (node q.heap a).next := by
  unfold push
  simp only
  rw [node_set _ _ _ _ (by simp; omega)]
  by_cases e : q.head = a
  · subst e; simp [Node.withNext, h1]
  · have e' : ¬ a = q.head := fun c => e c.symm
    simp only [e, e', if_false]
    by_cases e2 : a = q.head + 1
    · subst e2; simp only [if_true]; rw [← h1, node_append_self]
    · simp only [e2, if_false]
      by_cases c : a < q.heap.length
      · rw [node_append_left _ _ _ c]
      · unfold node
        rw [List.getElem?_eq_none (by simp; omega), List.getElem?_eq_none (by omega)]

theorem push_val {q : Q} (x : Nat) (h1 : q.heap.length = q.head + 1) (a : Nat) :
    (node (push q x).heap a).val = if a = q.head + 1 then some x else (node q.heap a).val := by
  unfold push
  simp only
  rw [node_set _ _ _ _ (by simp; omega)]
  by_cases e : q.head = a
  · subst e
    have : ¬ q.head = q.head + 1 := by omega
    simp only [if_true, this, if_false, Node.withNext]
    rw [node_append_left _ _ _ (by omega)]
  · simp only [e, if_false]
    by_cases e2 : a = q.head + 1
    · subst e2; simp only [if_true]; rw [← h1, node_append_self]
    · simp only [e2, if_false]
      by_cases c : a < q.heap.length
      · rw [node_append_left _ _ _ c]
      · unfold node
        rw [List.getElem?_eq_none (by simp; omega), List.getElem?_eq_none (by omega)]

theorem push_rep {q : Q} {l : List Nat} (x : Nat) (h : Rep q l) : Rep (push q x) (l ++ [x]) := by
  obtain ⟨h1, h2, h3, h4, hl, hv⟩ := h
  have hh : (push q x).head = q.head + 1 := by simp [push, h1]
  have ht : (push q x).tail = q.tail := rfl
  refine ⟨by simp [push, h1], by rw [hh, ht]; omega, ?_, ?_, by rw [hh, ht]; simp [hl]; omega, ?_⟩
  · intro a ha
    rw [hh] at ha
    rw [push_next x h1]
    by_cases e : a = q.head
    · simp [e]
    · have : ¬ a = q.head + 1 := by omega
      simp only [e, this, if_false]
      exact h3 a (by omega)
  · rw [hh, push_next x h1]
    simp
  · intro i hi
    rw [hh, ht] at hi
    rw [ht, push_val x h1]
    by_cases e2 : q.tail + 1 + i = q.head + 1
    · simp only [e2, if_true]
      have : i = l.length := by omega
      subst this
      simp
    · simp only [e2, if_false]
      rw [hv i (by omega), List.getElem?_append_left (by omega)]

theorem pop_rep_nil {q : Q} (h : Rep q []) : pop q = (none, q) ∧ empty q = true := by
  obtain ⟨_, h2, _, h4, hl, _⟩ := h
  have : q.tail = q.head := by simp at hl; omega
  simp [pop, empty, this, h4]

theorem pop_rep_cons {q : Q} {x : Nat} {r : List Nat} (h : Rep q (x :: r)) :
    (pop q).1 = some x ∧ Rep (pop q).2 r ∧ empty q = false := by
  obtain ⟨h1, h2, h3, h4, hl, hv⟩ := h
  have hlt : q.tail < q.head := by simp at hl; omega
  have hn := h3 q.tail hlt
  have h0 := hv 0 (by omega)
  simp only [Nat.add_zero, List.getElem?_cons_zero] at h0
  have hnext : ∀ a, (node (q.heap.set (q.tail + 1) (node q.heap (q.tail + 1)).clearVal) a).next = (node q.heap a).next := by
    intro a
    rw [node_set _ _ _ _ (by omega)]
    split
    · next e => subst e; rfl
    · rfl
  have hval : ∀ a, ¬ q.tail + 1 = a →
      (node (q.heap.set (q.tail + 1) (node q.heap (q.tail + 1)).clearVal) a).val = (node q.heap a).val := by
    intro a e
    rw [node_set _ _ _ _ (by omega)]
    simp only [e, if_false]
  unfold pop empty
  simp only [hn]
  refine ⟨h0, ⟨by simp [h1], by simp only; omega, ?_, ?_, by simp at hl; simp only; omega, ?_⟩, by simp⟩
  · intro a ha
    simp only [hnext]
    exact h3 a ha
  · simp only [hnext]
    exact h4
  · intro i hi
    simp only at hi
    simp only
    rw [hval _ (by omega)]
    have := hv (i + 1) (by omega)
    rw [show q.tail + 1 + 1 + i = q.tail + 1 + (i + 1) by omega, this, List.getElem?_cons_succ]

end Cell2v.Mpsc
