import Cell2v.Lemmas.SceneM
/-!
Lemmas about the scene manager as a system (`Sys`: manager + allocation requests in flight +
cluster view; `SpawnScene`, the keeper's `trySpawnScene`, the reply callback).

* `SysInv` is an inductive invariant of *every* history of system events (no hypothesis on the
  history): the world invariant, and the id discipline (ids in flight are pairwise distinct, nonzero,
  below the counter and not live; live ids are nonzero and below the counter).
* every system history is an admissible `Mgr` history (`sys_run_embeds`), so everything proved for
  `Reachable` managers holds for it unconditionally.
* every live scene and every request in flight was placed by a `SpawnScene`/keeper event of the
  history (`origin_run`).
-/
namespace Cell2v.SceneM

/-! ### `SpawnScene` case by case -/

theorem spawn_cases (s : Sys) (cfg : Nat) (order : List (Nat × Stat)) :
    (findIdle satKey order = none ∧ s.spawn cfg order = (s, .noService)) ∨
    (∃ k, findIdle satKey order = some k ∧ s.routable.contains k = true ∧
      s.spawn cfg order = ({ s with m := { s.m with nextId := s.m.nextId + 1 },
                                    pending := s.pending ++ [⟨s.m.nextId, cfg, k⟩] }, .sent s.m.nextId k)) ∨
    (∃ k, findIdle satKey order = some k ∧ s.routable.contains k = false ∧
      s.spawn cfg order = ({ s with m := { s.m with nextId := s.m.nextId + 1 } }, .noRoute s.m.nextId k)) := by
  unfold Sys.spawn Mgr.alloc
  cases h : findIdle satKey order with
  | none => exact Or.inl ⟨rfl, rfl⟩
  | some k =>
    by_cases hr : s.routable.contains k = true
    · exact Or.inr (Or.inl ⟨k, rfl, hr, by simp only [hr]; rfl⟩)
    · have hr' : s.routable.contains k = false := by simpa using hr
      exact Or.inr (Or.inr ⟨k, rfl, hr', by simp only [hr']; rfl⟩)

theorem keeper_fst (s : Sys) (cfg n : Nat) (order : List (Nat × Stat)) :
    ((s.m.world.lines cfg).length ≥ n ∧ (s.keeper cfg n order).1 = s) ∨
    ((s.m.world.lines cfg).length < n ∧ (s.keeper cfg n order).1 = (s.spawn cfg order).1) := by
  unfold Sys.keeper
  by_cases h : (s.m.world.lines cfg).length ≥ n
  · exact Or.inl ⟨h, by simp [h]⟩
  · refine Or.inr ⟨by omega, ?_⟩
    simp only [h, if_false]
    rcases spawn_cases s cfg order with ⟨_, e⟩ | ⟨k, _, _, e⟩ | ⟨k, _, _, e⟩ <;> rw [e]

theorem halloc_fst (s : Sys) (cfg : Nat) (order : List (Nat × Stat)) :
    ∃ w, (s.halloc cfg order).1 = { (s.spawn cfg order).1 with waiting := w } := by
  unfold Sys.halloc
  rcases spawn_cases s cfg order with ⟨_, e⟩ | ⟨k, _, _, e⟩ | ⟨k, _, _, e⟩ <;> rw [e]
  · exact ⟨s.waiting, rfl⟩
  · exact ⟨_, rfl⟩
  · exact ⟨s.waiting, rfl⟩

/-! ### events that only remove scenes -/

def Ev.shrinking : Ev → Bool
  | .create _ _ _ => false
  | .alloc => false
  | _ => true

theorem step_nextId {m : Mgr} {e : Ev} (h : e.shrinking = true) : (m.step e).nextId = m.nextId := by
  cases e <;> simp [Ev.shrinking] at h <;> simp [Mgr.step, refresh_nextId, Mgr.tick, Mgr.lost]

theorem step_scenes_sub {m : Mgr} {e : Ev} (h : e.shrinking = true) :
    ∀ o ∈ (m.step e).world.scenes, o ∈ m.world.scenes := by
  cases e with
  | create sid cfg svc => simp [Ev.shrinking] at h
  | alloc => simp [Ev.shrinking] at h
  | endScene sid => exact onSceneEnd_scenes_sub _ _
  | refresh svc n => simp [Mgr.step, refresh_world]
  | adv ms => exact fun _ ho => ho
  | tick => simp only [Mgr.step, tick_world]; exact foldl_lost_scenes_sub _ _
  | lost svc => exact onServiceLost_scenes_sub _ _
  | wlost svc => exact onServiceLost_scenes_sub _ _
  | req => exact fun _ ho => ho

theorem step_worldInv_shrinking {m : Mgr} {e : Ev} (hw : WorldInv m.world) (h : e.shrinking = true) :
    WorldInv (m.step e).world := by
  apply worldInv_step hw
  cases e <;> first | trivial | simp [Ev.shrinking] at h

/-! ### the invariant -/

structure SysInv (s : Sys) : Prop where
  world : WorldInv s.m.world
  pnodup : s.pending.Pairwise (fun a b => a.sid ≠ b.sid)
  pIds : ∀ p ∈ s.pending, 0 < p.sid ∧ p.sid < s.m.nextId
  liveIds : ∀ o ∈ s.m.world.scenes, 0 < o.sid ∧ o.sid < s.m.nextId
  liveNotPending : ∀ o ∈ s.m.world.scenes, ∀ p ∈ s.pending, o.sid ≠ p.sid
  nextPos : 0 < s.m.nextId

theorem sysInv_init : SysInv Sys.init where
  world := worldInv_empty
  pnodup := List.Pairwise.nil
  pIds := fun _ h => by simp [Sys.init] at h
  liveIds := fun _ h => by simp [Sys.init, Mgr.init, World.empty] at h
  liveNotPending := fun _ h => by simp [Sys.init, Mgr.init, World.empty] at h
  nextPos := by simp [Sys.init, Mgr.init]

theorem sysInv_waiting {s : Sys} (h : SysInv s) (w : List Nat) : SysInv { s with waiting := w } :=
  ⟨h.world, h.pnodup, h.pIds, h.liveIds, h.liveNotPending, h.nextPos⟩

theorem sysInv_lift {s : Sys} (h : SysInv s) {e : Ev} (he : e.shrinking = true) : SysInv (s.lift e) where
  world := step_worldInv_shrinking h.world he
  pnodup := h.pnodup
  pIds := fun p hp => by
    have := h.pIds p hp
    show 0 < p.sid ∧ p.sid < (s.m.step e).nextId
    rw [step_nextId he]; exact this
  liveIds := fun o ho => by
    have := h.liveIds o (step_scenes_sub he o ho)
    show 0 < o.sid ∧ o.sid < (s.m.step e).nextId
    rw [step_nextId he]; exact this
  liveNotPending := fun o ho p hp => h.liveNotPending o (step_scenes_sub he o ho) p hp
  nextPos := by show 0 < (s.m.step e).nextId; rw [step_nextId he]; exact h.nextPos

theorem sysInv_spawn {s : Sys} (h : SysInv s) (cfg : Nat) (order : List (Nat × Stat)) :
    SysInv (s.spawn cfg order).1 := by
  rcases spawn_cases s cfg order with ⟨_, e⟩ | ⟨k, _, _, e⟩ | ⟨k, _, _, e⟩ <;> rw [e]
  · exact h
  · refine ⟨h.world, ?_, ?_, ?_, ?_, Nat.succ_pos _⟩
    · refine List.pairwise_append.2 ⟨h.pnodup, List.pairwise_singleton _ _, fun a ha b hb => ?_⟩
      have hb' : b = ⟨s.m.nextId, cfg, k⟩ := by simpa using hb
      subst hb'
      exact Nat.ne_of_lt (h.pIds a ha).2
    · intro p hp
      rcases List.mem_append.1 hp with hp | hp
      · exact ⟨(h.pIds p hp).1, Nat.lt_succ_of_lt (h.pIds p hp).2⟩
      · have hp' : p = ⟨s.m.nextId, cfg, k⟩ := by simpa using hp
        subst hp'
        exact ⟨h.nextPos, Nat.lt_succ_self _⟩
    · intro o ho; exact ⟨(h.liveIds o ho).1, Nat.lt_succ_of_lt (h.liveIds o ho).2⟩
    · intro o ho p hp
      rcases List.mem_append.1 hp with hp | hp
      · exact h.liveNotPending o ho p hp
      · have hp' : p = ⟨s.m.nextId, cfg, k⟩ := by simpa using hp
        subst hp'
        exact Nat.ne_of_lt (h.liveIds o ho).2
  · exact ⟨h.world, h.pnodup, fun p hp => ⟨(h.pIds p hp).1, Nat.lt_succ_of_lt (h.pIds p hp).2⟩,
      fun o ho => ⟨(h.liveIds o ho).1, Nat.lt_succ_of_lt (h.liveIds o ho).2⟩, h.liveNotPending, Nat.succ_pos _⟩

theorem find_pending {s : Sys} {sid : Nat} {p : Pend} (hf : s.pending.find? (fun p => p.sid == sid) = some p) :
    p ∈ s.pending ∧ p.sid = sid := by
  refine ⟨List.mem_of_find?_eq_some hf, ?_⟩
  have := List.find?_some hf
  simpa using this

/-- the scene a successful answer registers: exactly the one the request was sent for, on the smallest free line -/
theorem reply_ok_eq {s : Sys} (h : SysInv s) {sid : Nat} {p : Pend}
    (hf : s.pending.find? (fun p => p.sid == sid) = some p) :
    s.reply sid true =
      { s with pending := s.pending.filter (fun q => q.sid != sid)
               waiting := s.waiting.filter (fun w => w != sid)
               m := { s.m with world :=
                 { lines := updLines s.m.world.lines p.cfg
                     (insertLine ⟨p.cfg, p.sid, fineIdle (s.m.world.lines p.cfg)⟩ (s.m.world.lines p.cfg))
                   scenes := ⟨p.sid, p.cfg, fineIdle (s.m.world.lines p.cfg), p.svc⟩ :: s.m.world.scenes } } } := by
  obtain ⟨hp, _⟩ := find_pending hf
  have hfresh : ∀ o ∈ s.m.world.scenes, o.sid ≠ p.sid := fun o ho => h.liveNotPending o ho p hp
  unfold Sys.reply
  simp only [hf, if_true, Mgr.step]
  rw [onCreateSucc_fresh _ _ _ _ hfresh]

theorem sysInv_reply {s : Sys} (h : SysInv s) (sid : Nat) (ok : Bool) : SysInv (s.reply sid ok) := by
  cases hf : s.pending.find? (fun p => p.sid == sid) with
  | none => unfold Sys.reply; rw [hf]; exact h
  | some p =>
    obtain ⟨hp, hsid⟩ := find_pending hf
    have hsub : ∀ q ∈ s.pending.filter (fun q => q.sid != sid), q ∈ s.pending ∧ q.sid ≠ sid := by
      intro q hq
      obtain ⟨a, b⟩ := List.mem_filter.1 hq
      exact ⟨a, by simpa using b⟩
    have hnd : (s.pending.filter (fun q => q.sid != sid)).Pairwise (fun a b => a.sid ≠ b.sid) :=
      h.pnodup.sublist List.filter_sublist
    cases ok with
    | false =>
      have : s.reply sid false = { s with pending := s.pending.filter (fun q => q.sid != sid)
                                          waiting := s.waiting.filter (fun w => w != sid) } := by
        unfold Sys.reply; simp [hf]
      rw [this]
      exact ⟨h.world, hnd, fun q hq => h.pIds q (hsub q hq).1, h.liveIds,
        fun o ho q hq => h.liveNotPending o ho q (hsub q hq).1, h.nextPos⟩
    | true =>
      have hfresh : ∀ o ∈ s.m.world.scenes, o.sid ≠ p.sid := fun o ho => h.liveNotPending o ho p hp
      rw [reply_ok_eq h hf]
      refine ⟨?_, hnd, fun q hq => h.pIds q (hsub q hq).1, ?_, ?_, h.nextPos⟩
      · have := worldInv_create h.world p.sid p.cfg p.svc hfresh
        rw [onCreateSucc_fresh _ _ _ _ hfresh] at this
        exact this
      · intro o ho
        rcases List.mem_cons.1 ho with rfl | ho'
        · exact h.pIds p hp
        · exact h.liveIds o ho'
      · intro o ho q hq
        rcases List.mem_cons.1 ho with rfl | ho'
        · show p.sid ≠ q.sid
          rw [hsid]; exact fun e => (hsub q hq).2 e.symm
        · exact h.liveNotPending o ho' q (hsub q hq).1

theorem sysInv_step {s : Sys} (h : SysInv s) (e : SEv) : SysInv (s.step e) := by
  cases e with
  | route ks => exact ⟨h.world, h.pnodup, h.pIds, h.liveIds, h.liveNotPending, h.nextPos⟩
  | spawn cfg order => exact sysInv_spawn h cfg order
  | keeper cfg n order =>
    show SysInv (s.keeper cfg n order).1
    rcases keeper_fst s cfg n order with ⟨_, e⟩ | ⟨_, e⟩ <;> rw [e]
    · exact h
    · exact sysInv_spawn h cfg order
  | halloc cfg order =>
    show SysInv (s.halloc cfg order).1
    obtain ⟨w, e⟩ := halloc_fst s cfg order
    rw [e]; exact sysInv_waiting (sysInv_spawn h cfg order) w
  | reply sid ok => exact sysInv_reply h sid ok
  | endScene sid => exact sysInv_lift h rfl
  | refresh svc n => exact sysInv_lift h rfl
  | adv ms => exact sysInv_lift h rfl
  | tick => exact sysInv_lift h rfl
  | lost svc => exact sysInv_lift h rfl
  | wlost svc => exact sysInv_lift h rfl

theorem sysInv_run {s : Sys} (h : SysInv s) (evs : List SEv) : SysInv (s.run evs) := by
  induction evs generalizing s with
  | nil => exact h
  | cons e es ih => exact ih (sysInv_step h e)

/-! ### every system history is an admissible manager history -/

theorem mgr_run_append (m : Mgr) (a b : List Ev) : m.run (a ++ b) = (m.run a).run b := by
  simp [Mgr.run, List.foldl_append]

theorem admissibleRun_append {m : Mgr} {a b : List Ev} (ha : AdmissibleRun m a) (hb : AdmissibleRun (m.run a) b) :
    AdmissibleRun m (a ++ b) := by
  induction a generalizing m with
  | nil => exact hb
  | cons x xs ih => exact ⟨ha.1, ih ha.2 hb⟩

theorem spawn_m (s : Sys) (cfg : Nat) (order : List (Nat × Stat)) :
    (s.spawn cfg order).1.m = s.m.run (spawnEvs order) ∧ AdmissibleRun s.m (spawnEvs order) := by
  unfold spawnEvs
  rcases spawn_cases s cfg order with ⟨hk, e⟩ | ⟨k, hk, _, e⟩ | ⟨k, hk, _, e⟩ <;> rw [e, hk]
  · exact ⟨rfl, trivial⟩
  · exact ⟨rfl, trivial, trivial⟩
  · exact ⟨rfl, trivial, trivial⟩

theorem step_embeds {s : Sys} (h : SysInv s) (e : SEv) :
    (s.step e).m = s.m.run (e.evs s) ∧ AdmissibleRun s.m (e.evs s) := by
  cases e with
  | route ks => exact ⟨rfl, trivial⟩
  | spawn cfg order => exact spawn_m s cfg order
  | keeper cfg n order =>
    show (s.keeper cfg n order).1.m = s.m.run (SEv.evs s (.keeper cfg n order)) ∧ _
    simp only [SEv.evs]
    rcases keeper_fst s cfg n order with ⟨hge, e⟩ | ⟨hlt, e⟩ <;> rw [e]
    · simp only [hge, if_true]; exact ⟨rfl, trivial⟩
    · have : ¬ (s.m.world.lines cfg).length ≥ n := by omega
      simp only [this, if_false]; exact spawn_m s cfg order
  | halloc cfg order =>
    show (s.halloc cfg order).1.m = s.m.run (spawnEvs order) ∧ AdmissibleRun s.m (spawnEvs order)
    obtain ⟨w, e⟩ := halloc_fst s cfg order
    rw [e]; exact spawn_m s cfg order
  | reply sid ok =>
    show (s.reply sid ok).m = s.m.run (SEv.evs s (.reply sid ok)) ∧ _
    simp only [SEv.evs, Sys.reply]
    cases hf : s.pending.find? (fun p => p.sid == sid) with
    | none => exact ⟨rfl, trivial⟩
    | some p =>
      obtain ⟨hp, _⟩ := find_pending hf
      cases ok with
      | false => exact ⟨rfl, trivial⟩
      | true => exact ⟨rfl, fun o ho => h.liveNotPending o ho p hp, trivial⟩
  | endScene sid => exact ⟨rfl, trivial, trivial⟩
  | refresh svc n => exact ⟨rfl, trivial, trivial⟩
  | adv ms => exact ⟨rfl, trivial, trivial⟩
  | tick => exact ⟨rfl, trivial, trivial⟩
  | lost svc => exact ⟨rfl, trivial, trivial⟩
  | wlost svc => exact ⟨rfl, trivial, trivial⟩

theorem sys_run_embeds {s : Sys} (h : SysInv s) (evs : List SEv) :
    ∃ mevs, AdmissibleRun s.m mevs ∧ (s.run evs).m = s.m.run mevs := by
  induction evs generalizing s with
  | nil => exact ⟨[], trivial, rfl⟩
  | cons e es ih =>
    obtain ⟨mevs, ha, hr⟩ := ih (sysInv_step h e)
    obtain ⟨h1, h2⟩ := step_embeds h e
    refine ⟨e.evs s ++ mevs, admissibleRun_append h2 (h1 ▸ ha), ?_⟩
    rw [mgr_run_append, ← h1]
    exact hr

/-! ### where scenes come from -/

/-- `e`, executed in state `s`, is a `SpawnScene`/keeper call that placed request `p` -/
def PlacedBy (s : Sys) (e : SEv) (p : Pend) : Prop :=
  ∃ order, e.places p.cfg order ∧ findIdle satKey order = some p.svc ∧ p.sid = s.m.nextId

theorem spawn_pending (s : Sys) (cfg : Nat) (order : List (Nat × Stat)) :
    ∀ p ∈ (s.spawn cfg order).1.pending, p ∈ s.pending ∨
      (p.cfg = cfg ∧ findIdle satKey order = some p.svc ∧ p.sid = s.m.nextId) := by
  intro p hp
  rcases spawn_cases s cfg order with ⟨_, e⟩ | ⟨k, hk, _, e⟩ | ⟨k, _, _, e⟩ <;> rw [e] at hp
  · exact Or.inl hp
  · rcases List.mem_append.1 hp with hp | hp
    · exact Or.inl hp
    · have hp' : p = ⟨s.m.nextId, cfg, k⟩ := by simpa using hp
      subst hp'
      exact Or.inr ⟨rfl, hk, rfl⟩
  · exact Or.inl hp

theorem spawn_scenes (s : Sys) (cfg : Nat) (order : List (Nat × Stat)) :
    (s.spawn cfg order).1.m.world = s.m.world := by
  rcases spawn_cases s cfg order with ⟨_, e⟩ | ⟨k, _, _, e⟩ | ⟨k, _, _, e⟩ <;> rw [e]

/-- one step: a live scene was live before or is the registration of a request that was in flight;
a request in flight was in flight before or was placed by this very event -/
theorem step_origin (s : Sys) (e : SEv) :
    (∀ o ∈ (s.step e).m.world.scenes, o ∈ s.m.world.scenes ∨
        ∃ p ∈ s.pending, p.sid = o.sid ∧ p.cfg = o.cfg ∧ p.svc = o.svc) ∧
    (∀ p ∈ (s.step e).pending, p ∈ s.pending ∨ PlacedBy s e p) := by
  have lifted : ∀ ev : Ev, ev.shrinking = true →
      (∀ o ∈ (s.lift ev).m.world.scenes, o ∈ s.m.world.scenes ∨
        ∃ p ∈ s.pending, p.sid = o.sid ∧ p.cfg = o.cfg ∧ p.svc = o.svc) ∧
      (∀ p ∈ (s.lift ev).pending, p ∈ s.pending ∨ PlacedBy s e p) :=
    fun ev hev => ⟨fun o ho => Or.inl (step_scenes_sub hev o ho), fun p hp => Or.inl hp⟩
  cases e with
  | route ks => exact ⟨fun o ho => Or.inl ho, fun p hp => Or.inl hp⟩
  | spawn cfg order =>
    refine ⟨fun o ho => Or.inl ?_, fun p hp => ?_⟩
    · have : (s.step (.spawn cfg order)).m.world = s.m.world := spawn_scenes s cfg order
      rw [this] at ho; exact ho
    · rcases spawn_pending s cfg order p hp with h | ⟨h1, h2, h3⟩
      · exact Or.inl h
      · exact Or.inr ⟨order, Or.inl (by rw [h1]), h2, h3⟩
  | halloc cfg order =>
    show (∀ o ∈ (s.halloc cfg order).1.m.world.scenes, _) ∧ (∀ p ∈ (s.halloc cfg order).1.pending, _)
    obtain ⟨w, e⟩ := halloc_fst s cfg order
    rw [e]
    refine ⟨fun o ho => Or.inl ?_, fun p hp => ?_⟩
    · have : (s.spawn cfg order).1.m.world = s.m.world := spawn_scenes s cfg order
      have ho' : o ∈ (s.spawn cfg order).1.m.world.scenes := ho
      rw [this] at ho'; exact ho'
    · rcases spawn_pending s cfg order p hp with h | ⟨h1, h2, h3⟩
      · exact Or.inl h
      · exact Or.inr ⟨order, Or.inr (Or.inr (by rw [h1])), h2, h3⟩
  | keeper cfg n order =>
    show (∀ o ∈ (s.keeper cfg n order).1.m.world.scenes, _) ∧ (∀ p ∈ (s.keeper cfg n order).1.pending, _)
    rcases keeper_fst s cfg n order with ⟨_, e⟩ | ⟨_, e⟩ <;> rw [e]
    · exact ⟨fun o ho => Or.inl ho, fun p hp => Or.inl hp⟩
    · refine ⟨fun o ho => Or.inl ?_, fun p hp => ?_⟩
      · rw [spawn_scenes] at ho; exact ho
      · rcases spawn_pending s cfg order p hp with h | ⟨h1, h2, h3⟩
        · exact Or.inl h
        · exact Or.inr ⟨order, Or.inr (Or.inl ⟨n, by rw [h1]⟩), h2, h3⟩
  | reply sid ok =>
    show (∀ o ∈ (s.reply sid ok).m.world.scenes, _) ∧ (∀ p ∈ (s.reply sid ok).pending, _)
    unfold Sys.reply
    cases hf : s.pending.find? (fun p => p.sid == sid) with
    | none => exact ⟨fun o ho => Or.inl ho, fun p hp => Or.inl hp⟩
    | some p =>
      obtain ⟨hp, _⟩ := find_pending hf
      cases ok with
      | false => exact ⟨fun o ho => Or.inl ho, fun q hq => Or.inl (List.mem_filter.1 hq).1⟩
      | true =>
        refine ⟨fun o ho => ?_, fun q hq => Or.inl (List.mem_filter.1 hq).1⟩
        simp only [if_true, Mgr.step, World.onCreateSucc] at ho
        rcases List.mem_cons.1 ho with rfl | ho'
        · exact Or.inr ⟨p, hp, rfl, rfl, rfl⟩
        · exact Or.inl (List.mem_filter.1 ho').1
  | endScene sid => exact lifted _ rfl
  | refresh svc n => exact lifted _ rfl
  | adv ms => exact lifted _ rfl
  | tick => exact lifted _ rfl
  | lost svc => exact lifted _ rfl
  | wlost svc => exact lifted _ rfl

theorem sys_run_append (s : Sys) (a b : List SEv) : s.run (a ++ b) = (s.run a).run b := by
  simp [Sys.run, List.foldl_append]

theorem okRun_snoc {s : Sys} {evs : List SEv} {e : SEv} (h : OkRun s (evs ++ [e])) :
    OkRun s evs ∧ e.Ok (s.run evs) := by
  induction evs generalizing s with
  | nil => exact ⟨trivial, h.1⟩
  | cons x xs ih =>
    obtain ⟨a, b⟩ := ih h.2
    exact ⟨⟨h.1, a⟩, b⟩

theorem snoc_induction {α : Type} {P : List α → Prop} (h0 : P []) (hs : ∀ l a, P l → P (l ++ [a])) :
    ∀ l, P l := by
  intro l
  rw [← List.reverse_reverse l]
  induction l.reverse with
  | nil => exact h0
  | cons a t ih => rw [List.reverse_cons]; exact hs _ _ ih

/-- in the history `evs` (from `NewMgr`), the request `(sid, cfg, svc)` was placed by a `SpawnScene`/keeper/
handler event: at that moment `FindIdleService`, visiting the service map in some order, answered `svc`, and
`sid` was the id counter -/
def PlacedAt (evs : List SEv) (sid cfg svc : Nat) : Prop :=
  ∃ pre post order e, SEv.places e cfg order ∧ evs = pre ++ e :: post ∧
    order.Perm (Sys.init.run pre).m.services ∧ (Sys.init.run pre).m.nextId = sid ∧
    findIdle satKey order = some svc

theorem placedAt_snoc {evs : List SEv} {sid cfg svc : Nat} (x : SEv) (h : PlacedAt evs sid cfg svc) :
    PlacedAt (evs ++ [x]) sid cfg svc := by
  obtain ⟨pre, post, order, e, hpl, rfl, h2⟩ := h
  exact ⟨pre, post ++ [x], order, e, hpl, by simp, h2⟩

theorem origin_run : ∀ evs : List SEv, OkRun Sys.init evs →
    (∀ o ∈ (Sys.init.run evs).m.world.scenes, PlacedAt evs o.sid o.cfg o.svc) ∧
    (∀ p ∈ (Sys.init.run evs).pending, PlacedAt evs p.sid p.cfg p.svc) := by
  apply snoc_induction
  · intro _
    exact ⟨fun o ho => by simp [Sys.run, Sys.init, Mgr.init, World.empty] at ho,
           fun p hp => by simp [Sys.run, Sys.init] at hp⟩
  · intro evs e ih hok
    obtain ⟨hok', heok⟩ := okRun_snoc hok
    obtain ⟨ihS, ihP⟩ := ih hok'
    have hrun : Sys.init.run (evs ++ [e]) = (Sys.init.run evs).step e := by
      rw [sys_run_append]; rfl
    rw [hrun]
    obtain ⟨oS, oP⟩ := step_origin (Sys.init.run evs) e
    have newP : ∀ p, PlacedBy (Sys.init.run evs) e p → PlacedAt (evs ++ [e]) p.sid p.cfg p.svc := by
      rintro p ⟨order, he, hf, hid⟩
      refine ⟨evs, [], order, e, he, rfl, ?_, hid.symm, hf⟩
      rcases he with rfl | ⟨n, rfl⟩ | rfl <;> exact heok
    refine ⟨fun o ho => ?_, fun p hp => ?_⟩
    · rcases oS o ho with h | ⟨p, hp, h1, h2, h3⟩
      · exact placedAt_snoc e (ihS o h)
      · rw [← h1, ← h2, ← h3]; exact placedAt_snoc e (ihP p hp)
    · rcases oP p hp with h | h
      · exact placedAt_snoc e (ihP p h)
      · exact newP p h

end Cell2v.SceneM
