import Cell2v.Model.SceneM
/-!
Lemmas about the scene manager model (C19): the smallest-free-line scan, ordered
insert / removal on sorted line lists, the world invariant `WorldInv` and its
preservation by every event, removal steps as filters (`Shrinks`), the keep-alive
bookkeeping, the `FindIdleService` loop, and scene-id discipline.  Core Lean only.
-/
namespace Cell2v.SceneM

/-! ### generic -/

theorem pw_eq {α : Type} {R : α → α → Prop} {f : α → Nat} (hR : ∀ a b, R a b → f a ≠ f b) :
    ∀ {l : List α}, l.Pairwise R → ∀ {a b}, a ∈ l → b ∈ l → f a = f b → a = b := by
  intro l h
  induction h with
  | nil => intro a b ha; cases ha
  | @cons x xs hx _ ih =>
    intro a b ha hb he
    rcases List.mem_cons.1 ha with rfl | ha' <;> rcases List.mem_cons.1 hb with rfl | hb'
    · rfl
    · exact absurd he (hR _ _ (hx _ hb'))
    · exact absurd he.symm (hR _ _ (hx _ ha'))
    · exact ih ha' hb' he

/-! ### lines -/

def Sorted (ls : List Line) : Prop := ls.Pairwise (fun a b => a.line < b.line)

theorem line_eq_of_lineid_eq {ls : List Line} (h : Sorted ls) {a b : Line} (ha : a ∈ ls) (hb : b ∈ ls)
    (he : a.line = b.line) : a = b :=
  pw_eq (f := Line.line) (fun _ _ h => Nat.ne_of_lt h) h ha hb he

theorem fineIdleFrom_ge (ls : List Line) (i : Nat) : i ≤ fineIdleFrom ls i := by
  induction ls generalizing i with
  | nil => simp [fineIdleFrom]
  | cons l ls ih =>
    unfold fineIdleFrom
    split
    · exact Nat.le_refl _
    · exact Nat.le_trans (Nat.le_succ i) (ih (i + 1))

theorem fineIdleFrom_spec (ls : List Line) (i : Nat) (hs : Sorted ls) (hge : ∀ l ∈ ls, i ≤ l.line) :
    (∀ l ∈ ls, l.line ≠ fineIdleFrom ls i) ∧
    (∀ j, i ≤ j → j < fineIdleFrom ls i → ∃ l ∈ ls, l.line = j) := by
  induction ls generalizing i with
  | nil => simp [fineIdleFrom]
  | cons l ls ih =>
    have hs' := List.pairwise_cons.1 hs
    unfold fineIdleFrom
    by_cases h : l.line = i
    · have hge' : ∀ x ∈ ls, i + 1 ≤ x.line := fun x hx => by have := hs'.1 x hx; omega
      obtain ⟨a, b⟩ := ih (i + 1) hs'.2 hge'
      have ge := fineIdleFrom_ge ls (i + 1)
      simp only [h, bne_self_eq_false, Bool.false_eq_true, if_false]
      constructor
      · intro x hx
        rcases List.mem_cons.1 hx with rfl | hx'
        · omega
        · exact a x hx'
      · intro j h1 h2
        by_cases hj : j = i
        · exact ⟨l, by simp, by omega⟩
        · obtain ⟨x, hx, hxj⟩ := b j (by omega) h2
          exact ⟨x, List.mem_cons_of_mem _ hx, hxj⟩
    · have hne : (l.line != i) = true := by simp [h]
      simp only [hne, if_true]
      constructor
      · intro x hx
        have hl := hge l (by simp)
        rcases List.mem_cons.1 hx with rfl | hx'
        · exact h
        · have := hs'.1 x hx'; omega
      · intro j h1 h2; omega

theorem fineIdle_not_mem {ls : List Line} (hs : Sorted ls) : ∀ l ∈ ls, l.line ≠ fineIdle ls :=
  (fineIdleFrom_spec ls 0 hs (fun _ _ => Nat.zero_le _)).1

theorem fineIdle_below_mem {ls : List Line} (hs : Sorted ls) :
    ∀ j, j < fineIdle ls → ∃ l ∈ ls, l.line = j :=
  fun j hj => (fineIdleFrom_spec ls 0 hs (fun _ _ => Nat.zero_le _)).2 j (Nat.zero_le _) hj

theorem mem_insertLine {x y : Line} {ls : List Line} : y ∈ insertLine x ls ↔ y = x ∨ y ∈ ls := by
  induction ls with
  | nil => simp [insertLine]
  | cons l ls ih =>
    unfold insertLine
    split
    · simp
    · simp only [List.mem_cons, ih]
      constructor
      · rintro (h | h | h) <;> simp [h]
      · rintro (h | h | h) <;> simp [h]

theorem sorted_insertLine {x : Line} {ls : List Line} (hs : Sorted ls) (hne : ∀ l ∈ ls, l.line ≠ x.line) :
    Sorted (insertLine x ls) := by
  induction ls with
  | nil => simp [insertLine, Sorted]
  | cons l ls ih =>
    have hs' := List.pairwise_cons.1 hs
    unfold insertLine
    split
    · rename_i hlt
      refine List.pairwise_cons.2 ⟨?_, hs⟩
      intro y hy
      rcases List.mem_cons.1 hy with rfl | hy'
      · exact hlt
      · exact Nat.lt_trans hlt (hs'.1 y hy')
    · rename_i hlt
      have hl := hne l (by simp)
      refine List.pairwise_cons.2 ⟨?_, ih hs'.2 (fun y hy => hne y (List.mem_cons_of_mem _ hy))⟩
      intro y hy
      rcases mem_insertLine.1 hy with rfl | hy'
      · omega
      · exact hs'.1 y hy'

theorem removeLine_eq_filter {ls : List Line} (hs : Sorted ls) (id : Nat) :
    removeLine id ls = ls.filter (fun l => l.line != id) := by
  unfold removeLine
  induction ls with
  | nil => rfl
  | cons l ls ih =>
    have hs' := List.pairwise_cons.1 hs
    by_cases h : l.line = id
    · have : ls.filter (fun l => l.line != id) = ls := by
        apply List.filter_eq_self.2
        intro a ha
        have := hs'.1 a ha
        simp; omega
      simp [h, this]
    · simp [h, ih hs'.2]


/-! ### scenes -/

def NoDupSid (scs : List SceneObj) : Prop := scs.Pairwise (fun a b => a.sid ≠ b.sid)

theorem scene_eq_of_sid_eq {scs : List SceneObj} (h : NoDupSid scs) {a b : SceneObj} (ha : a ∈ scs) (hb : b ∈ scs)
    (he : a.sid = b.sid) : a = b :=
  pw_eq (f := SceneObj.sid) (fun _ _ h => h) h ha hb he

theorem getScene_some {w : World} {sid : Nat} {o : SceneObj} (h : w.getScene sid = some o) :
    o ∈ w.scenes ∧ o.sid = sid := by
  unfold World.getScene at h
  exact ⟨List.mem_of_find?_eq_some h, by simpa using List.find?_some h⟩

theorem getScene_none {w : World} {sid : Nat} (h : w.getScene sid = none) : ∀ o ∈ w.scenes, o.sid ≠ sid := by
  unfold World.getScene at h
  intro o ho
  have := List.find?_eq_none.1 h o ho
  simpa using this

theorem getScene_of_mem {w : World} (hn : NoDupSid w.scenes) {o : SceneObj} (ho : o ∈ w.scenes) :
    w.getScene o.sid = some o := by
  cases h : w.getScene o.sid with
  | none => exact absurd rfl (getScene_none h o ho)
  | some o' =>
    obtain ⟨h1, h2⟩ := getScene_some h
    rw [scene_eq_of_sid_eq hn h1 ho h2]

theorem filter_sid_ne_of_fresh {scs : List SceneObj} {sid : Nat} (h : ∀ o ∈ scs, o.sid ≠ sid) :
    scs.filter (fun o => o.sid != sid) = scs :=
  List.filter_eq_self.2 (fun o ho => by simpa using h o ho)

/-! ### the invariant -/

/-- `scenes` and `sceneLines` describe the same set, consistently. -/
structure WorldInv (w : World) : Prop where
  nodup : NoDupSid w.scenes
  sorted : ∀ c, Sorted (w.lines c)
  lineScene : ∀ c, ∀ l ∈ w.lines c, l.cfg = c ∧ ∃ o ∈ w.scenes, o.sid = l.sid ∧ o.cfg = c ∧ o.line = l.line
  sceneLine : ∀ o ∈ w.scenes, (⟨o.cfg, o.sid, o.line⟩ : Line) ∈ w.lines o.cfg

theorem worldInv_empty : WorldInv World.empty where
  nodup := List.Pairwise.nil
  sorted := fun _ => List.Pairwise.nil
  lineScene := fun _ l hl => by simp [World.empty] at hl
  sceneLine := fun o ho => by simp [World.empty] at ho

@[simp] theorem updLines_same (f : Nat → List Line) (c : Nat) (v : List Line) : updLines f c v c = v := by
  simp [updLines]

theorem updLines_other (f : Nat → List Line) {c c' : Nat} (v : List Line) (h : c' ≠ c) : updLines f c v c' = f c' := by
  simp [updLines, h]

/-- what `OnSceneCreateSucc` does when the id is fresh -/
theorem onCreateSucc_fresh (w : World) (sid cfg svc : Nat) (hf : ∀ o ∈ w.scenes, o.sid ≠ sid) :
    w.onCreateSucc sid cfg svc =
      { lines := updLines w.lines cfg (insertLine ⟨cfg, sid, fineIdle (w.lines cfg)⟩ (w.lines cfg))
        scenes := ⟨sid, cfg, fineIdle (w.lines cfg), svc⟩ :: w.scenes } := by
  simp [World.onCreateSucc, filter_sid_ne_of_fresh hf]

theorem worldInv_create {w : World} (hw : WorldInv w) (sid cfg svc : Nat) (hf : ∀ o ∈ w.scenes, o.sid ≠ sid) :
    WorldInv (w.onCreateSucc sid cfg svc) := by
  rw [onCreateSucc_fresh w sid cfg svc hf]
  refine ⟨?_, ?_, ?_, ?_⟩
  · exact List.pairwise_cons.2 ⟨fun o ho => (hf o ho).symm, hw.nodup⟩
  · intro c
    by_cases hc : c = cfg
    · subst hc
      simp only [updLines_same]
      exact sorted_insertLine (hw.sorted c) (fun l hl => fineIdle_not_mem (hw.sorted c) l hl)
    · simp only [updLines_other _ _ hc]; exact hw.sorted c
  · intro c l hl
    by_cases hc : c = cfg
    · subst hc
      simp only [updLines_same] at hl
      rcases mem_insertLine.1 hl with rfl | hl'
      · exact ⟨rfl, _, List.mem_cons_self, rfl, rfl, rfl⟩
      · obtain ⟨h1, o, ho, h2⟩ := hw.lineScene c l hl'
        exact ⟨h1, o, List.mem_cons_of_mem _ ho, h2⟩
    · simp only [updLines_other _ _ hc] at hl
      obtain ⟨h1, o, ho, h2⟩ := hw.lineScene c l hl
      exact ⟨h1, o, List.mem_cons_of_mem _ ho, h2⟩
  · intro o ho
    rcases List.mem_cons.1 ho with rfl | ho'
    · simp only [updLines_same]
      exact mem_insertLine.2 (Or.inl rfl)
    · have := hw.sceneLine o ho'
      by_cases hc : o.cfg = cfg
      · simp only [hc, updLines_same]
        exact mem_insertLine.2 (Or.inr (hc ▸ this))
      · simp only [updLines_other _ _ hc]; exact this

/-- Under the invariant, `OnSceneEnd` is a filter on both tables (also for an unknown id). -/
theorem onSceneEnd_char {w : World} (hw : WorldInv w) (sid : Nat) :
    (w.onSceneEnd sid).scenes = w.scenes.filter (fun o => o.sid != sid) ∧
    ∀ c, (w.onSceneEnd sid).lines c = (w.lines c).filter (fun l => l.sid != sid) := by
  unfold World.onSceneEnd
  cases h : w.getScene sid with
  | none =>
    have hf := getScene_none h
    refine ⟨(filter_sid_ne_of_fresh hf).symm, fun c => ?_⟩
    symm
    apply List.filter_eq_self.2
    intro l hl
    obtain ⟨_, o, ho, h2, _⟩ := hw.lineScene c l hl
    have := hf o ho
    simp; omega
  | some o =>
    obtain ⟨ho, hsid⟩ := getScene_some h
    refine ⟨rfl, fun c => ?_⟩
    by_cases hc : c = o.cfg
    · subst hc
      simp only [updLines_same]
      rw [removeLine_eq_filter (hw.sorted _)]
      apply List.filter_congr
      intro l hl
      obtain ⟨_, o', ho', h2, h3, h4⟩ := hw.lineScene _ l hl
      have hol := hw.sceneLine o ho
      by_cases hl2 : l.line = o.line
      · have := line_eq_of_lineid_eq (hw.sorted _) hl hol hl2
        subst this
        simp [hsid]
      · have : l.sid ≠ sid := by
          intro he
          have := scene_eq_of_sid_eq hw.nodup ho' ho (by omega)
          subst this
          exact hl2 h4.symm
        have e1 : (l.line != o.line) = true := by simp [hl2]
        have e2 : (l.sid != sid) = true := by simp [this]
        show (l.line != o.line) = (l.sid != sid)
        rw [e1, e2]
    · simp only [updLines_other _ _ hc]
      symm
      apply List.filter_eq_self.2
      intro l hl
      obtain ⟨_, o', ho', h2, h3, _⟩ := hw.lineScene c l hl
      have : l.sid ≠ sid := by
        intro he
        have := scene_eq_of_sid_eq hw.nodup ho' ho (by omega)
        subst this
        exact hc h3.symm
      simp [this]

theorem worldInv_of_filter {w w' : World} (hw : WorldInv w) (p : Nat → Bool)
    (hs : w'.scenes = w.scenes.filter (fun o => p o.sid))
    (hl : ∀ c, w'.lines c = (w.lines c).filter (fun l => p l.sid)) : WorldInv w' := by
  refine ⟨?_, ?_, ?_, ?_⟩
  · rw [hs]; exact List.Pairwise.filter _ hw.nodup
  · intro c; rw [hl c]; exact List.Pairwise.filter _ (hw.sorted c)
  · intro c l hlm
    rw [hl c] at hlm
    obtain ⟨hm, hp⟩ := List.mem_filter.1 hlm
    obtain ⟨h1, o, ho, h2, h3⟩ := hw.lineScene c l hm
    refine ⟨h1, o, ?_, h2, h3⟩
    rw [hs]; exact List.mem_filter.2 ⟨ho, by simpa [h2] using hp⟩
  · intro o ho
    rw [hs] at ho
    obtain ⟨hm, hp⟩ := List.mem_filter.1 ho
    rw [hl]
    exact List.mem_filter.2 ⟨hw.sceneLine o hm, hp⟩

theorem worldInv_end {w : World} (hw : WorldInv w) (sid : Nat) : WorldInv (w.onSceneEnd sid) :=
  let ⟨h1, h2⟩ := onSceneEnd_char hw sid
  worldInv_of_filter hw (fun s => s != sid) h1 h2

/-- ending a list of scenes, one after the other -/
theorem foldl_end_char {w : World} (hw : WorldInv w) (ids : List Nat) :
    WorldInv (ids.foldl World.onSceneEnd w) ∧
    (ids.foldl World.onSceneEnd w).scenes = w.scenes.filter (fun o => !ids.contains o.sid) ∧
    ∀ c, (ids.foldl World.onSceneEnd w).lines c = (w.lines c).filter (fun l => !ids.contains l.sid) := by
  induction ids generalizing w with
  | nil =>
    exact ⟨hw, (List.filter_eq_self.2 (by simp)).symm, fun c => (List.filter_eq_self.2 (by simp)).symm⟩
  | cons i is ih =>
    obtain ⟨a, b, c⟩ := ih (worldInv_end hw i)
    obtain ⟨h1, h2⟩ := onSceneEnd_char hw i
    refine ⟨a, ?_, fun cc => ?_⟩
    · rw [List.foldl_cons, b, h1, List.filter_filter]
      apply List.filter_congr
      intro o _
      by_cases h : o.sid = i <;> simp [h]
    · rw [List.foldl_cons, c cc, h2 cc, List.filter_filter]
      apply List.filter_congr
      intro l _
      by_cases h : l.sid = i <;> simp [h]

theorem worldInv_lost {w : World} (hw : WorldInv w) (svc : Nat) : WorldInv (w.onServiceLost svc) :=
  (foldl_end_char hw _).1

/-- `OnServiceLost` removes exactly the scenes of that service, and exactly their lines. -/
theorem onServiceLost_char {w : World} (hw : WorldInv w) (svc : Nat) :
    (w.onServiceLost svc).scenes = w.scenes.filter (fun o => o.svc != svc) ∧
    ∀ c, (w.onServiceLost svc).lines c = (w.lines c).filter (fun l => !(w.scenesOf svc).contains l.sid) := by
  obtain ⟨_, b, c⟩ := foldl_end_char hw (w.scenesOf svc)
  refine ⟨?_, c⟩
  unfold World.onServiceLost
  rw [b]
  apply List.filter_congr
  intro o ho
  by_cases h : o.svc = svc
  · have : o.sid ∈ w.scenesOf svc := by
      unfold World.scenesOf
      exact List.mem_map.2 ⟨o, List.mem_filter.2 ⟨ho, by simp [h]⟩, rfl⟩
    simp [h, this]
  · have : o.sid ∉ w.scenesOf svc := by
      unfold World.scenesOf
      intro hm
      obtain ⟨o', ho', he⟩ := List.mem_map.1 hm
      obtain ⟨hm', hp⟩ := List.mem_filter.1 ho'
      have := scene_eq_of_sid_eq hw.nodup hm' ho he
      subst this
      simp at hp; exact h hp
    simp [h, this]


/-! ### "exactly the affected": removal steps as filters -/

def live (scs : List SceneObj) (sid : Nat) : Bool := scs.any (fun o => o.sid == sid)

/-- `w'` is `w` with exactly the scenes failing `p` removed, and exactly their lines freed. -/
structure Shrinks (w w' : World) (p : SceneObj → Bool) : Prop where
  inv : WorldInv w'
  scenes : w'.scenes = w.scenes.filter p
  lines : ∀ c, w'.lines c = (w.lines c).filter (fun l => live w'.scenes l.sid)

theorem live_of_line {w : World} (hw : WorldInv w) {c : Nat} {l : Line} (hl : l ∈ w.lines c) :
    live w.scenes l.sid = true := by
  obtain ⟨_, o, ho, h2, _⟩ := hw.lineScene c l hl
  exact List.any_eq_true.2 ⟨o, ho, by simp [h2]⟩

theorem shrinks_refl {w : World} (hw : WorldInv w) : Shrinks w w (fun _ => true) :=
  ⟨hw, (List.filter_eq_self.2 (by simp)).symm,
   fun c => (List.filter_eq_self.2 (fun l hl => live_of_line hw hl)).symm⟩

/-- a filter of both tables by a predicate on scene ids is a removal step -/
theorem shrinks_of_sidfilter {w w' : World} (hw : WorldInv w) (p : Nat → Bool)
    (hs : w'.scenes = w.scenes.filter (fun o => p o.sid))
    (hl : ∀ c, w'.lines c = (w.lines c).filter (fun l => p l.sid)) : Shrinks w w' (fun o => p o.sid) := by
  refine ⟨worldInv_of_filter hw p hs hl, hs, fun c => ?_⟩
  rw [hl c, hs]
  apply List.filter_congr
  intro l hlm
  obtain ⟨_, o, ho, h2, _⟩ := hw.lineScene c l hlm
  cases hp : p l.sid with
  | true =>
    symm
    exact List.any_eq_true.2 ⟨o, List.mem_filter.2 ⟨ho, by simpa [h2] using hp⟩, by simp [h2]⟩
  | false =>
    symm
    apply Bool.eq_false_iff.2
    intro h
    obtain ⟨o', ho', he⟩ := List.any_eq_true.1 h
    obtain ⟨_, hp'⟩ := List.mem_filter.1 ho'
    have : o'.sid = l.sid := by simpa using he
    rw [this, hp] at hp'
    cases hp'

theorem shrinks_congr {w w' : World} {p q : SceneObj → Bool} (h : Shrinks w w' p)
    (hpq : ∀ o ∈ w.scenes, p o = q o) : Shrinks w w' q :=
  ⟨h.inv, h.scenes.trans (List.filter_congr hpq), h.lines⟩

theorem shrinks_trans {w w' w'' : World} {p q : SceneObj → Bool} (h1 : Shrinks w w' p) (h2 : Shrinks w' w'' q) :
    Shrinks w w'' (fun o => p o && q o) := by
  refine ⟨h2.inv, ?_, fun c => ?_⟩
  · rw [h2.scenes, h1.scenes, List.filter_filter]
    apply List.filter_congr; intro o _; exact Bool.and_comm _ _
  · rw [h2.lines c, h1.lines c, List.filter_filter]
    apply List.filter_congr
    intro l _
    cases h : live w''.scenes l.sid with
    | false => simp
    | true =>
      obtain ⟨o, ho, he⟩ := List.any_eq_true.1 h
      rw [h2.scenes] at ho
      have : live w'.scenes l.sid = true := List.any_eq_true.2 ⟨o, (List.mem_filter.1 ho).1, he⟩
      simp [this]

theorem shrinks_end {w : World} (hw : WorldInv w) (sid : Nat) :
    Shrinks w (w.onSceneEnd sid) (fun o => o.sid != sid) :=
  let ⟨h1, h2⟩ := onSceneEnd_char hw sid
  shrinks_of_sidfilter hw (fun s => s != sid) h1 h2

theorem shrinks_lost {w : World} (hw : WorldInv w) (svc : Nat) :
    Shrinks w (w.onServiceLost svc) (fun o => o.svc != svc) := by
  obtain ⟨_, b, c⟩ := foldl_end_char hw (w.scenesOf svc)
  have := shrinks_of_sidfilter hw (fun s => !(w.scenesOf svc).contains s) b c
  refine shrinks_congr this (fun o ho => ?_)
  have h := (onServiceLost_char hw svc).1
  -- both filters give the same scene list, so they agree on every scene
  by_cases hs : o.svc = svc
  · have : o.sid ∈ w.scenesOf svc := List.mem_map.2 ⟨o, List.mem_filter.2 ⟨ho, by simp [hs]⟩, rfl⟩
    simp [hs, this]
  · have : o.sid ∉ w.scenesOf svc := by
      intro hm
      obtain ⟨o', ho', he⟩ := List.mem_map.1 hm
      obtain ⟨hm', hp⟩ := List.mem_filter.1 ho'
      have := scene_eq_of_sid_eq hw.nodup hm' ho he
      subst this
      simp at hp; exact hs hp
    simp [hs, this]

theorem scenesOf_contains {w : World} (hw : WorldInv w) {o : SceneObj} (ho : o ∈ w.scenes) (svc : Nat) :
    (w.scenesOf svc).contains o.sid = (o.svc == svc) := by
  by_cases hs : o.svc = svc
  · have : o.sid ∈ w.scenesOf svc := List.mem_map.2 ⟨o, List.mem_filter.2 ⟨ho, by simp [hs]⟩, rfl⟩
    simp [hs, this]
  · have : o.sid ∉ w.scenesOf svc := by
      intro hm
      obtain ⟨o', ho', he⟩ := List.mem_map.1 hm
      obtain ⟨hm', hp⟩ := List.mem_filter.1 ho'
      have := scene_eq_of_sid_eq hw.nodup hm' ho he
      subst this
      simp at hp; exact hs hp
    simp [hs, this]

/-- losing several services, one after the other (any order gives the same filter) -/
theorem shrinks_lostMany {w : World} (hw : WorldInv w) (svcs : List Nat) :
    Shrinks w (svcs.foldl World.onServiceLost w) (fun o => !svcs.contains o.svc) := by
  induction svcs generalizing w with
  | nil => exact shrinks_refl hw
  | cons s ss ih =>
    have h1 := shrinks_lost hw s
    have h2 := ih h1.inv
    refine shrinks_congr (shrinks_trans h1 h2) (fun o _ => ?_)
    by_cases h : o.svc = s <;> simp [h]

/-! ### keep-alive -/

def expired (now : Nat) (v : Stat) : Bool := v.working && decide (now ≥ v.last + 3 * keepAlive)

/-- what one run of the periodic check does to one service's stats -/
def tickStat (now : Nat) (v : Stat) : Stat :=
  if expired now v then
    if v.failed + 1 > 3 then { v with failed := v.failed + 1, last := now, working := false }
    else { v with failed := v.failed + 1, last := now }
  else v

/-- the service is declared lost by this run -/
def losesNow (now : Nat) (v : Stat) : Bool := expired now v && decide (v.failed + 1 > 3)

def lostNow (now : Nat) (svcs : List (Nat × Stat)) : List Nat :=
  (svcs.filter (fun e => losesNow now e.2)).map (·.1)

theorem tick_fold (now : Nat) (svcs : List (Nat × Stat)) (acc : List (Nat × Stat) × World) :
    svcs.foldl (tickOne now) acc =
      (acc.1 ++ svcs.map (fun e => (e.1, tickStat now e.2)), (lostNow now svcs).foldl World.onServiceLost acc.2) := by
  induction svcs generalizing acc with
  | nil => simp [lostNow]
  | cons e es ih =>
    obtain ⟨k, v⟩ := e
    rw [List.foldl_cons, ih]
    by_cases h1 : expired now v = true
    · by_cases h2 : v.failed + 1 > 3
      · have hx : v.working = true ∧ v.last + 3 * keepAlive ≤ now := by simpa [expired] using h1
        simp [tickOne, tickStat, lostNow, losesNow, h1, h2, hx.1, hx.2]
      · have hx : v.working = true ∧ v.last + 3 * keepAlive ≤ now := by simpa [expired] using h1
        simp [tickOne, tickStat, lostNow, losesNow, h1, h2, hx.1, hx.2]
    · have hx : ¬ (v.working = true ∧ v.last + 3 * keepAlive ≤ now) := by simpa [expired] using h1
      have hx' : (v.working && decide (now ≥ v.last + 3 * keepAlive)) = false := by simpa [expired] using h1
      simp [tickOne, tickStat, lostNow, losesNow, h1, hx']

theorem tick_services (m : Mgr) : m.tick.services = m.services.map (fun e => (e.1, tickStat m.now e.2)) := by
  simp [Mgr.tick, tick_fold]

theorem tick_world (m : Mgr) : m.tick.world = (lostNow m.now m.services).foldl World.onServiceLost m.world := by
  simp [Mgr.tick, tick_fold]

/-- bookkeeping of one service: failures are ≥ 3 s apart, counted from the last refresh -/
def StatInv (now : Nat) (v : Stat) : Prop :=
  v.last ≤ now ∧ (v.working = true → v.failed ≤ 3 ∧ v.since + 3000 * v.failed ≤ v.last)

theorem statInv_tick {now : Nat} {v : Stat} (h : StatInv now v) : StatInv now (tickStat now v) := by
  unfold tickStat
  by_cases h1 : expired now v = true
  · have hx : v.working = true ∧ v.last + 3 * keepAlive ≤ now := by simpa [expired] using h1
    obtain ⟨ha, hb⟩ := h
    obtain ⟨hc, hd⟩ := hb hx.1
    by_cases h2 : v.failed + 1 > 3
    · simp [h1, h2, StatInv]
    · simp only [h1, h2, if_true, if_false, StatInv]
      refine ⟨Nat.le_refl _, fun _ => ?_⟩
      show v.failed + 1 ≤ 3 ∧ v.since + 3000 * (v.failed + 1) ≤ now
      have := hx.2
      have hk : keepAlive = 1000 := rfl
      rw [hk] at this
      omega
  · simp [h1, h]

/-- a loss is declared only after at least 12 s without a refresh -/
theorem loss_needs_silence {now : Nat} {v : Stat} (h : StatInv now v) (hl : losesNow now v = true) :
    v.working = true ∧ (tickStat now v).working = false ∧ v.since + 12000 ≤ now := by
  have hx : (v.working = true ∧ v.last + 3 * keepAlive ≤ now) ∧ 3 < v.failed + 1 := by
    simpa [losesNow, expired] using hl
  obtain ⟨⟨hw, hlast⟩, hf⟩ := hx
  obtain ⟨hc, hd⟩ := h.2 hw
  have he : expired now v = true := by simp [expired, hw, hlast]
  refine ⟨hw, by simp [tickStat, he, hf], ?_⟩
  have hf3 : v.failed = 3 := by omega
  have hk : keepAlive = 1000 := rfl
  rw [hk] at hlast
  rw [hf3] at hd
  omega

/-- the periodic check changes `working` only by declaring a loss -/
theorem tickStat_working (now : Nat) (v : Stat) :
    (tickStat now v).working = (v.working && !losesNow now v) := by
  unfold tickStat losesNow
  by_cases h1 : expired now v = true
  · have hw : v.working = true := by
      have : v.working = true ∧ v.last + 3 * keepAlive ≤ now := by simpa [expired] using h1
      exact this.1
    by_cases h2 : v.failed + 1 > 3 <;> simp [h1, h2, hw]
  · simp [h1]

/-! ### placement -/

theorem findIdleLoop_none {key : Nat → Nat} {rest : List (Nat × Stat)} {acc : Option (Nat × Nat)}
    (h : findIdleLoop key rest acc = none) : acc = none ∧ ∀ e ∈ rest, e.2.working = false := by
  induction rest generalizing acc with
  | nil => simpa [findIdleLoop] using h
  | cons e es ih =>
    obtain ⟨k, v⟩ := e
    unfold findIdleLoop at h
    cases hw : v.working with
    | false =>
      simp only [hw, Bool.not_false, if_true] at h
      obtain ⟨a, b⟩ := ih h
      refine ⟨a, fun e he => ?_⟩
      rcases List.mem_cons.1 he with rfl | he'
      · exact hw
      · exact b e he'
    | true =>
      simp only [hw, Bool.not_true, Bool.false_eq_true, if_false] at h
      cases acc with
      | none => exact absurd (ih h).1 (by simp)
      | some a =>
        simp only at h
        split at h <;> exact absurd (ih h).1 (by simp)

theorem findIdleLoop_some {key : Nat → Nat} {rest : List (Nat × Stat)} {acc : Option (Nat × Nat)} {k wgt : Nat}
    (h : findIdleLoop key rest acc = some (k, wgt)) :
    (acc = some (k, wgt) ∨ ∃ v, (k, v) ∈ rest ∧ v.working = true ∧ v.busy key = wgt) ∧
    (∀ a, acc = some a → wgt ≤ a.2) ∧
    (∀ e ∈ rest, e.2.working = true → wgt ≤ e.2.busy key) := by
  induction rest generalizing acc with
  | nil =>
    simp only [findIdleLoop] at h
    subst h
    exact ⟨Or.inl rfl, fun a ha => by cases ha; exact Nat.le_refl _, fun e he => by cases he⟩
  | cons e es ih =>
    obtain ⟨k', v⟩ := e
    unfold findIdleLoop at h
    cases hw : v.working with
    | false =>
      simp only [hw, Bool.not_false, if_true] at h
      obtain ⟨a, b, c⟩ := ih h
      refine ⟨?_, b, ?_⟩
      · rcases a with a | ⟨v', hv', h2⟩
        · exact Or.inl a
        · exact Or.inr ⟨v', List.mem_cons_of_mem _ hv', h2⟩
      · intro e he hwe
        rcases List.mem_cons.1 he with rfl | he'
        · simp [hw] at hwe
        · exact c e he' hwe
    | true =>
      simp only [hw, Bool.not_true, Bool.false_eq_true, if_false] at h
      -- the accumulator after visiting (k', v)
      have key1 : ∀ acc', findIdleLoop key es acc' = some (k, wgt) →
          (acc' = some (k', v.busy key) ∧ (∀ a, acc = some a → v.busy key ≤ a.2)) ∨
          (acc' = acc ∧ ∃ a, acc = some a ∧ a.2 ≤ v.busy key) →
          (acc = some (k, wgt) ∨ ∃ v', (k, v') ∈ (k', v) :: es ∧ v'.working = true ∧ v'.busy key = wgt) ∧
          (∀ a, acc = some a → wgt ≤ a.2) ∧
          (∀ e ∈ (k', v) :: es, e.2.working = true → wgt ≤ e.2.busy key) := by
        intro acc' h' hc
        obtain ⟨a, b, c⟩ := ih h'
        rcases hc with ⟨hacc, hle⟩ | ⟨hacc, a0, ha0, hle⟩
        · subst hacc
          have hb := b _ rfl
          refine ⟨?_, fun a ha => Nat.le_trans hb (hle a ha), ?_⟩
          · rcases a with a | ⟨v', hv', h2⟩
            · cases a
              exact Or.inr ⟨v, List.mem_cons_self, hw, rfl⟩
            · exact Or.inr ⟨v', List.mem_cons_of_mem _ hv', h2⟩
          · intro e he hwe
            rcases List.mem_cons.1 he with rfl | he'
            · exact hb
            · exact c e he' hwe
        · subst hacc
          have hb := b _ ha0
          refine ⟨?_, b, ?_⟩
          · rcases a with a | ⟨v', hv', h2⟩
            · exact Or.inl a
            · exact Or.inr ⟨v', List.mem_cons_of_mem _ hv', h2⟩
          · intro e he hwe
            rcases List.mem_cons.1 he with rfl | he'
            · exact Nat.le_trans hb hle
            · exact c e he' hwe
      cases acc with
      | none => exact key1 _ h (Or.inl ⟨rfl, fun a ha => by cases ha⟩)
      | some a0 =>
        simp only at h
        split at h
        · rename_i hlt
          exact key1 _ h (Or.inl ⟨rfl, fun a ha => by cases ha; exact Nat.le_of_lt hlt⟩)
        · rename_i hlt
          exact key1 _ h (Or.inr ⟨rfl, a0, rfl, Nat.le_of_not_lt hlt⟩)

theorem findIdleLoop_keep {key : Nat → Nat} {rest : List (Nat × Stat)} {k wgt : Nat}
    (h : ∀ e ∈ rest, e.2.working = true → wgt ≤ e.2.busy key) :
    findIdleLoop key rest (some (k, wgt)) = some (k, wgt) := by
  induction rest with
  | nil => rfl
  | cons e es ih =>
    obtain ⟨k', v⟩ := e
    unfold findIdleLoop
    cases hw : v.working with
    | false => simpa [hw] using ih (fun e he => h e (List.mem_cons_of_mem _ he))
    | true =>
      have := h (k', v) List.mem_cons_self hw
      simp only [Bool.not_true, Bool.false_eq_true, if_false]
      rw [if_neg (Nat.not_lt.2 this)]
      exact ih (fun e he => h e (List.mem_cons_of_mem _ he))

/-! ### scene ids -/

theorem onSceneEnd_scenes_sub (w : World) (sid : Nat) : ∀ o ∈ (w.onSceneEnd sid).scenes, o ∈ w.scenes := by
  intro o ho
  unfold World.onSceneEnd at ho
  split at ho
  · exact ho
  · exact (List.mem_filter.1 ho).1

theorem foldl_end_scenes_sub (ids : List Nat) (w : World) :
    ∀ o ∈ (ids.foldl World.onSceneEnd w).scenes, o ∈ w.scenes := by
  induction ids generalizing w with
  | nil => intro o ho; exact ho
  | cons i is ih => intro o ho; exact onSceneEnd_scenes_sub w i o (ih _ o ho)

theorem onServiceLost_scenes_sub (w : World) (svc : Nat) : ∀ o ∈ (w.onServiceLost svc).scenes, o ∈ w.scenes :=
  foldl_end_scenes_sub _ w

theorem foldl_lost_scenes_sub (svcs : List Nat) (w : World) :
    ∀ o ∈ (svcs.foldl World.onServiceLost w).scenes, o ∈ w.scenes := by
  induction svcs generalizing w with
  | nil => intro o ho; exact ho
  | cons i is ih => intro o ho; exact onServiceLost_scenes_sub w i o (ih _ o ho)


/-! ### histories -/

theorem refresh_world (m : Mgr) (svc n : Nat) : (m.refresh svc n).world = m.world := by
  unfold Mgr.refresh; split <;> rfl

theorem refresh_now (m : Mgr) (svc n : Nat) : (m.refresh svc n).now = m.now := by
  unfold Mgr.refresh; split <;> rfl

theorem refresh_nextId (m : Mgr) (svc n : Nat) : (m.refresh svc n).nextId = m.nextId := by
  unfold Mgr.refresh; split <;> rfl

theorem worldInv_step {m : Mgr} (hw : WorldInv m.world) (e : Ev) (ha : Admissible m e) :
    WorldInv (m.step e).world := by
  cases e with
  | create sid cfg svc => exact worldInv_create hw sid cfg svc ha
  | endScene sid => exact worldInv_end hw sid
  | refresh svc n => simpa [Mgr.step, refresh_world] using hw
  | adv ms => exact hw
  | tick => simpa [Mgr.step, tick_world] using (shrinks_lostMany hw _).inv
  | lost svc => exact worldInv_lost hw svc
  | wlost svc => exact worldInv_lost hw svc
  | alloc => exact hw
  | req => exact hw

theorem worldInv_run {m : Mgr} (hw : WorldInv m.world) (evs : List Ev) (ha : AdmissibleRun m evs) :
    WorldInv (m.run evs).world := by
  induction evs generalizing m with
  | nil => exact hw
  | cons e es ih => exact ih (worldInv_step hw e ha.1) ha.2

/-- keep-alive bookkeeping of every known service -/
def KeepInv (m : Mgr) : Prop := ∀ e ∈ m.services, StatInv m.now e.2

theorem keepInv_step {m : Mgr} (hk : KeepInv m) (e : Ev) : KeepInv (m.step e) := by
  cases e with
  | create sid cfg svc => exact hk
  | endScene sid => exact hk
  | refresh svc n =>
    intro e he
    have hnew : StatInv m.now { n := n, working := true, last := m.now, failed := 0, since := m.now } :=
      ⟨Nat.le_refl _, fun _ => ⟨Nat.zero_le _, Nat.le_refl _⟩⟩
    simp only [Mgr.step] at he ⊢
    rw [refresh_now]
    unfold Mgr.refresh at he
    split at he
    · obtain ⟨e0, he0, rfl⟩ := List.mem_map.1 he
      split
      · exact hnew
      · exact hk e0 he0
    · rcases List.mem_append.1 he with h | h
      · exact hk e h
      · simp at h; subst h; exact hnew
  | adv ms =>
    intro e he
    obtain ⟨a, b⟩ := hk e he
    exact ⟨Nat.le_trans a (Nat.le_add_right _ _), b⟩
  | tick =>
    intro e he
    simp only [Mgr.step, tick_services] at he
    obtain ⟨e0, he0, rfl⟩ := List.mem_map.1 he
    exact statInv_tick (hk e0 he0)
  | lost svc =>
    intro e he
    simp only [Mgr.step, Mgr.lost] at he
    obtain ⟨e0, he0, rfl⟩ := List.mem_map.1 he
    split
    · exact ⟨(hk e0 he0).1, fun h => by simp at h⟩
    · exact hk e0 he0
  | wlost svc => exact hk
  | alloc => exact hk
  | req => exact hk

theorem keepInv_run {m : Mgr} (hk : KeepInv m) (evs : List Ev) : KeepInv (m.run evs) := by
  induction evs generalizing m with
  | nil => exact hk
  | cons e es ih => exact ih (keepInv_step hk e)

/-- scene ids handed out by `AllocScene` and not yet confirmed by a create-success -/
def Disciplined : Mgr → List Nat → List Ev → Prop
  | _, _, [] => True
  | m, p, .create sid cfg svc :: es => sid ∈ p ∧ Disciplined (m.step (.create sid cfg svc)) (p.erase sid) es
  | m, p, .alloc :: es => Disciplined (m.step .alloc) (m.nextId :: p) es
  | m, p, e :: es => Disciplined (m.step e) p es

/-- all ids in flight or live are below the counter; a live id is never in flight -/
structure IdInv (m : Mgr) (p : List Nat) : Prop where
  nodup : p.Nodup
  pendingLt : ∀ x ∈ p, x < m.nextId
  liveLt : ∀ o ∈ m.world.scenes, o.sid < m.nextId
  liveNotPending : ∀ o ∈ m.world.scenes, o.sid ∉ p

theorem idInv_init : IdInv Mgr.init [] where
  nodup := List.nodup_nil
  pendingLt := fun _ h => by simp at h
  liveLt := fun _ h => by simp [Mgr.init, World.empty] at h
  liveNotPending := fun _ _ h => by simp at h

/-- steps that only remove scenes and leave the id counter alone keep `IdInv` -/
theorem idInv_shrink {m m' : Mgr} {p : List Nat} (h : IdInv m p) (hn : m'.nextId = m.nextId)
    (hs : ∀ o ∈ m'.world.scenes, o ∈ m.world.scenes) : IdInv m' p :=
  ⟨h.nodup, fun x hx => hn ▸ h.pendingLt x hx, fun o ho => hn ▸ h.liveLt o (hs o ho),
   fun o ho => h.liveNotPending o (hs o ho)⟩

theorem disciplined_admissible {m : Mgr} {p : List Nat} (h : IdInv m p) (evs : List Ev)
    (hd : Disciplined m p evs) : AdmissibleRun m evs := by
  induction evs generalizing m p with
  | nil => trivial
  | cons e es ih =>
    cases e with
    | create sid cfg svc =>
      obtain ⟨hp, hd'⟩ := hd
      have hfresh : ∀ o ∈ m.world.scenes, o.sid ≠ sid := fun o ho he => h.liveNotPending o ho (he ▸ hp)
      refine ⟨hfresh, ih ?_ hd'⟩
      have hsc : (m.step (.create sid cfg svc)).world.scenes =
          ⟨sid, cfg, fineIdle (m.world.lines cfg), svc⟩ :: m.world.scenes := by
        simp [Mgr.step, onCreateSucc_fresh _ _ _ _ hfresh]
      refine ⟨h.nodup.erase _, fun x hx => h.pendingLt x (List.mem_of_mem_erase hx), ?_, ?_⟩
      · intro o ho
        rw [hsc] at ho
        rcases List.mem_cons.1 ho with rfl | ho'
        · exact h.pendingLt _ hp
        · exact h.liveLt o ho'
      · intro o ho hm
        rw [hsc] at ho
        rcases List.mem_cons.1 ho with rfl | ho'
        · exact (List.Nodup.mem_erase_iff h.nodup).1 hm |>.1 rfl
        · exact h.liveNotPending o ho' (List.mem_of_mem_erase hm)
    | alloc =>
      refine ⟨trivial, ih ?_ hd⟩
      refine ⟨List.nodup_cons.2 ⟨fun hm => Nat.lt_irrefl _ (h.pendingLt _ hm), h.nodup⟩, ?_, ?_, ?_⟩
      · intro x hx
        show x < m.nextId + 1
        rcases List.mem_cons.1 hx with rfl | hx'
        · exact Nat.lt_succ_self _
        · exact Nat.lt_succ_of_lt (h.pendingLt x hx')
      · intro o ho; exact Nat.lt_succ_of_lt (h.liveLt o ho)
      · intro o ho hm
        rcases List.mem_cons.1 hm with he | hm'
        · exact Nat.lt_irrefl _ (he ▸ h.liveLt o ho)
        · exact h.liveNotPending o ho hm'
    | endScene sid =>
      exact ⟨trivial, ih (idInv_shrink h rfl (onSceneEnd_scenes_sub _ _)) hd⟩
    | refresh svc n =>
      refine ⟨trivial, ih (idInv_shrink h ?_ ?_) hd⟩
      · simp [Mgr.step, refresh_nextId]
      · simp [Mgr.step, refresh_world]
    | adv ms => exact ⟨trivial, ih (idInv_shrink h rfl (fun _ ho => ho)) hd⟩
    | tick =>
      refine ⟨trivial, ih (idInv_shrink h rfl ?_) hd⟩
      simp only [Mgr.step, tick_world]
      exact foldl_lost_scenes_sub _ _
    | lost svc => exact ⟨trivial, ih (idInv_shrink h rfl (onServiceLost_scenes_sub _ _)) hd⟩
    | wlost svc => exact ⟨trivial, ih (idInv_shrink h rfl (onServiceLost_scenes_sub _ _)) hd⟩
    | req => exact ⟨trivial, ih (idInv_shrink h rfl (fun _ ho => ho)) hd⟩

theorem length_filter_sid {scs : List SceneObj} (hn : NoDupSid scs) {o : SceneObj} (ho : o ∈ scs) :
    (scs.filter (fun x => x.sid != o.sid)).length + 1 = scs.length := by
  induction scs with
  | nil => cases ho
  | cons x xs ih =>
    have hn' := List.pairwise_cons.1 hn
    by_cases hx : x.sid = o.sid
    · have : xs.filter (fun y => y.sid != o.sid) = xs :=
        filter_sid_ne_of_fresh (fun y hy => by have := hn'.1 y hy; omega)
      simp [hx, this]
    · rcases List.mem_cons.1 ho with rfl | ho'
      · exact absurd rfl hx
      · have := ih hn'.2 ho'
        simp [hx, this]

end Cell2v.SceneM
