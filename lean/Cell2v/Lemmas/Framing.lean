import Cell2v.Model.Framing
/-! Lemmas about the TCP framing model: what is read depends on the bytes of the stream only, not on their segmentation. -/
namespace Cell2v.Framing

theorem readAllLimit_spec (cs : List (List Nat)) : ∀ n : Nat,
    (readAllLimit n cs).1 = cs.flatten.take n ∧ (readAllLimit n cs).2.flatten = cs.flatten.drop n := by
  induction cs with
  | nil => intro n; simp [readAllLimit]
  | cons c cs ih =>
    intro n
    unfold readAllLimit
    by_cases h0 : n = 0
    · subst h0; simp
    · simp only [h0, if_false]
      by_cases hl : c.length ≤ n
      · simp only [hl, if_true]
        obtain ⟨h1, h2⟩ := ih (n - c.length)
        rw [h1, h2]
        simp only [List.flatten_cons]
        constructor
        · rw [List.take_append]
          rw [List.take_of_length_le hl]
        · rw [List.drop_append]
          rw [List.drop_of_length_le hl]; simp
      · simp only [hl, if_false, List.flatten_cons]
        have hl' : n ≤ c.length := by omega
        constructor
        · rw [List.take_append]
          have : n - c.length = 0 := by omega
          simp [this]
        · rw [List.drop_append]
          have : n - c.length = 0 := by omega
          simp [this]

/-- what `readAllLimit` returns, and the bytes it leaves, are functions of the byte stream -/
theorem readAllLimit_flat (n : Nat) (cs cs' : List (List Nat)) (h : cs.flatten = cs'.flatten) :
    (readAllLimit n cs).1 = (readAllLimit n cs').1 ∧ (readAllLimit n cs).2.flatten = (readAllLimit n cs').2.flatten := by
  obtain ⟨a1, a2⟩ := readAllLimit_spec cs n
  obtain ⟨b1, b2⟩ := readAllLimit_spec cs' n
  rw [a1, a2, b1, b2, h]; exact ⟨rfl, rfl⟩

theorem getNext_flat (cs cs' : List (List Nat)) (h : cs.flatten = cs'.flatten) :
    (getNext cs).1 = (getNext cs').1 ∧ (getNext cs).2.flatten = (getNext cs').2.flatten := by
  obtain ⟨h1, h2⟩ := readAllLimit_flat headLen cs cs' h
  unfold getNext getNextWith
  simp only [h1]
  by_cases he : (readAllLimit headLen cs').1 = []
  · simp [he, h2]
  · simp only [he, if_false]
    cases hp : parseHeader (readAllLimit headLen cs').1 with
    | none => simp [h2]
    | some size =>
      obtain ⟨g1, g2⟩ := readAllLimit_flat size _ _ h2
      simp only [g1]
      by_cases hs : (readAllLimit size (readAllLimit headLen cs').2).1.length < size
      · simp [hs, g2]
      · simp [hs, g2]

theorem framesOf_flat : ∀ (k : Nat) (cs cs' : List (List Nat)), cs.flatten = cs'.flatten → framesOf k cs = framesOf k cs' := by
  intro k
  induction k with
  | zero => intro cs cs' _; simp [framesOf]
  | succ k ih =>
    intro cs cs' h
    obtain ⟨h1, h2⟩ := getNext_flat cs cs' h
    unfold framesOf
    cases ha : getNext cs with
    | mk a ra =>
      cases hb : getNext cs' with
      | mk b rb =>
        rw [ha, hb] at h1 h2
        simp only at h1 h2
        subst h1
        cases a with
        | msg bytes => simp only; rw [ih ra rb h2]
        | closed => rfl
        | err => rfl

theorem bytesToInt_len3 (L : Nat) (hL : L < 16777216) :
    bytesToInt [L / 65536 % 256, L / 256 % 256, L % 256] = L := by
  simp [bytesToInt]; omega

theorem encode_length (t : Nat) (body : List Nat) : (encode t body).length = 4 + body.length := by
  simp [encode]; omega

/-- a complete packet at the head of the stream is returned whole, whatever the segmentation, and exactly its bytes are consumed -/
theorem getNext_encode (cs : List (List Nat)) (t : Nat) (body rest : List Nat) (ht : 1 ≤ t ∧ t ≤ 5)
    (hb : body.length < 16777216) (h : cs.flatten = encode t body ++ rest) :
    (getNext cs).1 = .msg (encode t body) ∧ (getNext cs).2.flatten = rest := by
  obtain ⟨h1, h2⟩ := readAllLimit_spec cs headLen
  have hhead : (readAllLimit headLen cs).1 = [t, body.length / 65536 % 256, body.length / 256 % 256, body.length % 256] := by
    rw [h1, h]; simp [encode, headLen]
  have hrest : (readAllLimit headLen cs).2.flatten = body ++ rest := by
    rw [h2, h]; simp [encode, headLen]
  have hparse : parseHeader [t, body.length / 65536 % 256, body.length / 256 % 256, body.length % 256] = some body.length := by
    unfold parseHeader
    have := bytesToInt_len3 body.length hb
    simp [headLen, maxPacket, this]
    omega
  obtain ⟨g1, g2⟩ := readAllLimit_spec (readAllLimit headLen cs).2 body.length
  unfold getNext getNextWith
  simp only [hhead, hparse]
  rw [g1, hrest]
  simp [g2, hrest, encode]

/-- websocket: a message holding exactly one packet is returned whole; anything after the packet makes it an error -/
theorem wsNext_encode (t : Nat) (body extra : List Nat) (ht : 1 ≤ t ∧ t ≤ 5) (hb : body.length < 16777216) :
    wsNext (encode t body ++ extra) = if extra = [] then .msg (encode t body) else .err := by
  have hparse : parseHeader [t, body.length / 65536 % 256, body.length / 256 % 256, body.length % 256] = some body.length := by
    unfold parseHeader
    have := bytesToInt_len3 body.length hb
    simp [headLen, maxPacket, this]
    omega
  unfold wsNext
  have hlen : (encode t body ++ extra).length = 4 + body.length + extra.length := by simp [encode]; omega
  have htake : (encode t body ++ extra).take headLen = [t, body.length / 65536 % 256, body.length / 256 % 256, body.length % 256] := by
    simp [encode, headLen]
  rw [htake, hparse, hlen]
  cases extra with
  | nil => simp [headLen]
  | cons e r => simp [headLen]; omega

/-- the stream `p₁ ++ p₂ ++ … ++ pₙ` of complete packets -/
def encodeAll : List (Nat × List Nat) → List Nat
  | [] => []
  | (t, b) :: r => encode t b ++ encodeAll r

def WellFormed (ps : List (Nat × List Nat)) : Prop := ∀ p ∈ ps, (1 ≤ p.1 ∧ p.1 ≤ 5) ∧ p.2.length < 16777216

theorem getNext_empty (cs : List (List Nat)) (h : cs.flatten = []) : (getNext cs).1 = .closed := by
  obtain ⟨h1, _⟩ := readAllLimit_spec cs headLen
  unfold getNext getNextWith
  simp [h1, h]

theorem framesOf_packets : ∀ (ps : List (Nat × List Nat)) (k : Nat) (cs : List (List Nat)), WellFormed ps → ps.length < k →
    cs.flatten = encodeAll ps → framesOf k cs = (ps.map fun p => encode p.1 p.2, .closed) := by
  intro ps
  induction ps with
  | nil =>
    intro k cs _ hk h
    cases k with
    | zero => simp at hk
    | succ k =>
      have := getNext_empty cs (by simpa [encodeAll] using h)
      unfold framesOf
      cases hg : getNext cs with
      | mk a r => rw [hg] at this; simp only at this; subst this; rfl
  | cons p ps ih =>
    intro k cs hw hk h
    cases k with
    | zero => simp at hk
    | succ k =>
      obtain ⟨t, b⟩ := p
      have hp := hw (t, b) (by simp)
      obtain ⟨g1, g2⟩ := getNext_encode cs t b (encodeAll ps) hp.1 hp.2 (by simpa [encodeAll] using h)
      have hw' : WellFormed ps := fun q hq => hw q (by simp [hq])
      unfold framesOf
      cases hg : getNext cs with
      | mk a r =>
        rw [hg] at g1 g2; simp only at g1 g2; subst g1
        simp only
        rw [ih k r hw' (by simp at hk; omega) g2]
        simp

theorem cutAt_flat (os : List Nat) : ∀ (bytes : List Nat) (at0 : Nat), (cutAt bytes at0 os).flatten = bytes := by
  induction os with
  | nil => intro bytes at0; simp [cutAt]
  | cons o os ih =>
    intro bytes at0
    unfold cutAt
    split
    · exact ih bytes at0
    · simp [ih]

/-! ### open streams -/

theorem parseHeader_short (h : List Nat) (hl : h.length ≠ headLen) : parseHeader h = none := by
  unfold parseHeader; simp [hl]

/-- one `GetNextMessage`: on an open stream it returns a message exactly when it does on the same stream followed by FIN,
and then the same message and the same rest -/
theorem getNextOpen_msg (cs : List (List Nat)) :
    (∀ b rest, getNextOpen cs = (.msg b, rest) ↔ getNext cs = (.msg b, rest)) := by
  intro b rest
  unfold getNextOpen getNext getNextWith readAllLimitOpen
  by_cases hh : (readAllLimit headLen cs).1.length < headLen
  · have hp : parseHeader (readAllLimit headLen cs).1 = none := parseHeader_short _ (by omega)
    simp only [hh, if_true, hp]
    by_cases he : (readAllLimit headLen cs).1 = []
    · simp [he]
    · simp [he]
  · have he : (readAllLimit headLen cs).1 ≠ [] := by
      intro h; rw [h] at hh; simp [headLen] at hh
    simp only [hh, if_false, he]
    cases hp : parseHeader (readAllLimit headLen cs).1 with
    | none => simp
    | some size =>
      by_cases hs : (readAllLimit size (readAllLimit headLen cs).2).1.length < size
      · simp [hs]
      · simp [hs]

/-- **the messages do not depend on whether the client half-closes**: an open stream gives the read loop the same
messages as the same bytes followed by FIN -/
theorem framesOpen_msgs : ∀ (k : Nat) (cs : List (List Nat)), (framesOpen k cs).1 = (framesOf k cs).1 := by
  intro k
  induction k with
  | zero => intro cs; simp [framesOpen, framesOf]
  | succ k ih =>
    intro cs
    unfold framesOpen framesOf
    have hm := getNextOpen_msg cs
    cases ho : getNextOpen cs with
    | mk e rest =>
      cases e with
      | msg b =>
        have hc := (hm b rest).mp ho
        simp only [hc, ih rest]
      | err =>
        cases hc : getNext cs with
        | mk e' rest' =>
          cases e' with
          | msg b' => have := (hm b' rest').mpr hc; rw [ho] at this; cases this
          | closed => simp
          | err => simp
      | pending =>
        cases hc : getNext cs with
        | mk e' rest' =>
          cases e' with
          | msg b' => have := (hm b' rest').mpr hc; rw [ho] at this; cases this
          | closed => simp
          | err => simp

end Cell2v.Framing
