import Cell2v.Model.ApiMap
/-!
Helper lemmas for C13 (API mapper): the shape predicate, the overwrite loop of
`suitableHandlerMethods`, the first-wins fold of `Build`, `strings.Split`.
-/
namespace Cell2v.ApiMap

/-! ### shape predicate -/

theorem handlerShapedB_eq_isValid (m : Method) : handlerShapedB m = isValidMethod m := by
  obtain ⟨name, id, exp, val, ins⟩ := m
  match ins with
  | [] => cases exp <;> simp [handlerShapedB, isValidMethod, isValidRequest, isValidNotify]
  | [a] => cases exp <;> simp [handlerShapedB, isValidMethod, isValidRequest, isValidNotify]
  | [a, b] => cases exp <;> simp [handlerShapedB, isValidMethod, isValidRequest, isValidNotify]
  | [a, b, c] =>
    cases exp <;> simp [handlerShapedB, isValidMethod, isValidRequest, isValidNotify]
    cases hb : b.implCtx <;> cases hk : b.kind <;> cases hc : c.kind <;> simp
  | [a, b, c, d] =>
    cases exp <;> simp [handlerShapedB, isValidMethod, isValidRequest, isValidNotify]
    cases hb : b.implCtx <;> cases hk : b.kind <;> cases hc : c.kind <;> cases hd : d.kind <;> simp
  | a :: b :: c :: d :: e :: r =>
    cases exp <;> simp [handlerShapedB, isValidMethod, isValidRequest, isValidNotify]

theorem handlerShapedB_iff (m : Method) : handlerShapedB m = true ↔ HandlerShaped m := by
  obtain ⟨name, id, exp, val, ins⟩ := m
  constructor
  · intro h
    match ins with
    | [] => simp [handlerShapedB] at h
    | [a] => simp [handlerShapedB] at h
    | [a, b] => simp [handlerShapedB] at h
    | [a, b, c] =>
      simp [handlerShapedB] at h
      exact ⟨h.1, a, b, c, h.2.1.1, h.2.1.2, h.2.2, Or.inl rfl⟩
    | [a, b, c, d] =>
      simp [handlerShapedB] at h
      exact ⟨h.1, a, b, c, h.2.1.1.1, h.2.1.1.2, h.2.1.2, Or.inr ⟨d, h.2.2, rfl⟩⟩
    | a :: b :: c :: d :: e :: r => simp [handlerShapedB] at h
  · rintro ⟨he, recv, ctx, msg, hk, hi, hm, h | ⟨cb, hcb, h⟩⟩
    · simp only at h he; subst h; simp [handlerShapedB, he, hk, hi, hm]
    · simp only at h he; subst h; simp [handlerShapedB, he, hk, hi, hm, hcb]

theorem isValid_iff_handlerShaped (m : Method) : isValidMethod m = true ↔ HandlerShaped m := by
  rw [← handlerShapedB_eq_isValid]; exact handlerShapedB_iff m

/-! ### `lastSuch` -/

theorem lastSuch_some {α : Type} {p : α → Bool} {l : List α} {x : α} (h : lastSuch p l = some x) :
    x ∈ l ∧ p x = true := by
  induction l with
  | nil => simp [lastSuch] at h
  | cons a r ih =>
    simp only [lastSuch] at h
    split at h
    · next y hy => cases h; exact ⟨List.mem_cons_of_mem _ (ih hy).1, (ih hy).2⟩
    · split at h
      · next hp => cases h; exact ⟨List.mem_cons_self, hp⟩
      · cases h

theorem lastSuch_none {α : Type} {p : α → Bool} {l : List α} : lastSuch p l = none ↔ ∀ x ∈ l, p x = false := by
  induction l with
  | nil => simp [lastSuch]
  | cons a r ih =>
    simp only [lastSuch]
    constructor
    · intro h
      split at h
      · cases h
      · next hn =>
        split at h
        · cases h
        · next hp =>
          intro x hx
          rcases List.mem_cons.1 hx with rfl | hx
          · simpa using hp
          · exact ih.1 hn x hx
    · intro h
      have hr := ih.2 (fun x hx => h x (List.mem_cons_of_mem _ hx))
      have ha := h a List.mem_cons_self
      simp [hr, ha]

theorem lastSuch_isSome_iff {α : Type} {p : α → Bool} {l : List α} : (lastSuch p l).isSome = l.any p := by
  cases h : lastSuch p l with
  | none =>
    have := lastSuch_none.1 h
    simp only [Option.isSome_none]
    symm; simp only [List.any_eq_false]; intro x hx; simp [this x hx]
  | some x =>
    have := lastSuch_some h
    simp only [Option.isSome_some]
    symm; exact List.any_eq_true.2 ⟨x, this.1, this.2⟩

theorem lastSuch_congr {α : Type} {p q : α → Bool} {l : List α} (h : ∀ x ∈ l, p x = q x) : lastSuch p l = lastSuch q l := by
  induction l with
  | nil => rfl
  | cons a r ih =>
    simp only [lastSuch]
    rw [ih (fun x hx => h x (List.mem_cons_of_mem _ hx)), h a List.mem_cons_self]

/-! ### the loop of `suitableHandlerMethods` -/

theorem lookup_suitableAux (f : Bool) (nf : Option (Bytes → Bytes)) (eid : Nat) (ms : List Method)
    (acc : List (Bytes × Handler)) (k : Bytes) :
    lookup (suitableAux f nf eid acc ms) k =
      match lastSuch (fun m => f && isValidMethod m && applyNF nf m.name == k) ms with
      | some m => some (mkHandler eid m)
      | none => lookup acc k := by
  induction ms generalizing acc with
  | nil => simp [suitableAux, lastSuch]
  | cons m ms ih =>
    simp only [suitableAux, lastSuch]
    by_cases hv : (f && isValidMethod m) = true
    · simp only [hv, if_true]
      rw [ih]
      cases hl : lastSuch (fun m => f && isValidMethod m && applyNF nf m.name == k) ms with
      | some x => simp
      | none =>
        simp only [lookup, Bool.true_and]
        by_cases hk : applyNF nf m.name = k
        · simp [hk]
        · simp [hk]
    · rw [if_neg hv, ih]
      have hv' : (f && isValidMethod m) = false := by simpa using hv
      cases hl : lastSuch (fun m => f && isValidMethod m && applyNF nf m.name == k) ms with
      | some x => simp
      | none => simp [hv']

theorem lookup_suitable (f : Bool) (nf : Option (Bytes → Bytes)) (eid : Nat) (ms : List Method) (k : Bytes) :
    lookup (suitable f nf eid ms) k =
      (lastSuch (fun m => f && isValidMethod m && applyNF nf m.name == k) ms).map (mkHandler eid) := by
  rw [suitable, lookup_suitableAux]
  cases lastSuch (fun m => f && isValidMethod m && applyNF nf m.name == k) ms <;> simp [lookup]

/-- every pair in the table comes from a valid method of the list, under its renamed name -/
theorem mem_suitableAux {f : Bool} {nf : Option (Bytes → Bytes)} {eid : Nat} {ms : List Method}
    {acc : List (Bytes × Handler)} {k : Bytes} {h : Handler} (hm : (k, h) ∈ suitableAux f nf eid acc ms) :
    (k, h) ∈ acc ∨ ∃ m ∈ ms, f = true ∧ isValidMethod m = true ∧ k = applyNF nf m.name ∧ h = mkHandler eid m := by
  induction ms generalizing acc with
  | nil => exact Or.inl hm
  | cons m ms ih =>
    simp only [suitableAux] at hm
    split at hm
    · next hv =>
      rcases ih hm with h1 | ⟨x, hx, hh⟩
      · rcases List.mem_cons.1 h1 with heq | h1
        · simp only [Bool.and_eq_true] at hv
          injection heq with h1 h2
          exact Or.inr ⟨m, List.mem_cons_self, hv.1, hv.2, h1, h2⟩
        · exact Or.inl h1
      · exact Or.inr ⟨x, List.mem_cons_of_mem _ hx, hh⟩
    · rcases ih hm with h1 | ⟨x, hx, hh⟩
      · exact Or.inl h1
      · exact Or.inr ⟨x, List.mem_cons_of_mem _ hx, hh⟩

theorem suitableAux_isEmpty (f : Bool) (nf : Option (Bytes → Bytes)) (eid : Nat) (ms : List Method)
    (acc : List (Bytes × Handler)) :
    (suitableAux f nf eid acc ms).isEmpty = (acc.isEmpty && !(ms.any (fun m => f && isValidMethod m))) := by
  induction ms generalizing acc with
  | nil => simp [suitableAux]
  | cons m ms ih =>
    simp only [suitableAux]
    by_cases hv : (f && isValidMethod m) = true
    · simp only [hv, if_true]; rw [ih]; simp [hv]
    · have hv' : (f && isValidMethod m) = false := by simpa using hv
      rw [if_neg hv, ih]; simp [hv']

/-! ### `ExtractHandler` and `Build` -/

theorem extractHandler_isSome (f : Bool) (e : Entry) : (extractHandler f e).isSome = eligible f e := by
  unfold extractHandler eligible
  by_cases h1 : e.typeName = []
  · simp [h1]
  · by_cases h2 : isExportedName e.typeName = true
    · simp only [h1, if_false, h2, Bool.not_true, suitable, suitableAux_isEmpty]
      have : (methodSet e).any (fun m => f && isValidMethod m) = (f && (methodSet e).any handlerShapedB) := by
        cases f
        · simp
        · simp only [Bool.true_and]; congr 1; funext m; exact (handlerShapedB_eq_isValid m).symm
      rw [this]
      cases f && (methodSet e).any handlerShapedB <;> simp [h1]
    · have h2' : isExportedName e.typeName = false := by simpa using h2
      simp [h1, h2']

theorem extractHandler_some {f : Bool} {e : Entry} {c : Container} (h : extractHandler f e = some c) :
    c.name = containerName e ∧ c.handlers = suitable f e.nameFunc e.eid (methodSet e) := by
  unfold extractHandler at h
  split at h
  · cases h
  · split at h
    · cases h
    · simp only at h
      split at h
      · cases h
      · cases h; exact ⟨rfl, rfl⟩

theorem findC_append (col : Collection) (c : Container) (g : Bytes) :
    findC (col ++ [c]) g = match findC col g with
      | some x => some x
      | none => if c.name = g then some c else none := by
  unfold findC
  rw [List.find?_append]
  cases h : List.find? (fun c => decide (c.name = g)) col with
  | some x => simp
  | none =>
    by_cases hc : c.name = g
    · simp [hc]
    · simp [hc]

/-- the fold of `Build`: a group already in the table stays; otherwise the first
eligible entry of that name provides the container -/
theorem findC_foldl (f : Bool) (es : List Entry) (col : Collection) (g : Bytes) :
    findC (es.foldl (newService f) col) g =
      match findC col g with
      | some c => some c
      | none => (owner f es g).bind (extractHandler f) := by
  induction es generalizing col with
  | nil => simp [owner]; cases findC col g <;> rfl
  | cons e es ih =>
    simp only [List.foldl_cons]
    rw [ih]
    unfold newService
    by_cases hn : containerName e = g
    · subst hn
      cases hc : findC col (containerName e) with
      | some c => simp [hc]
      | none =>
        simp only []
        cases hx : extractHandler f e with
        | none =>
          have : eligible f e = false := by rw [← extractHandler_isSome, hx]; rfl
          simp [hc, owner, this]
        | some c =>
          have he : eligible f e = true := by rw [← extractHandler_isSome, hx]; rfl
          have hname := (extractHandler_some hx).1
          simp [findC_append, hc, hname, owner, he, hx]
    · have hown : owner f (e :: es) g = owner f es g := by
        simp [owner, hn]
      rw [hown]
      cases hc : findC col (containerName e) with
      | some c => simp
      | none =>
        simp only []
        cases hx : extractHandler f e with
        | none => simp
        | some c =>
          have hname := (extractHandler_some hx).1
          simp only [findC_append, hname, hn, if_false]
          cases findC col g <;> rfl

theorem findC_build (f : Bool) (es : List Entry) (g : Bytes) :
    findC (build f es) g = (owner f es g).bind (extractHandler f) := by
  unfold build
  rw [findC_foldl]
  simp [findC]

theorem owner_some {f : Bool} {es : List Entry} {g : Bytes} {e : Entry} (h : owner f es g = some e) :
    e ∈ es ∧ containerName e = g ∧ eligible f e = true := by
  unfold owner at h
  have h1 := List.find?_some h
  have h2 := List.mem_of_find?_eq_some h
  simp only [Bool.and_eq_true, beq_iff_eq] at h1
  exact ⟨h2, h1.1, h1.2⟩

/-- **the route table equals its declarative description** -/
theorem lookupRoute_build (f : Bool) (es : List Entry) (g m : Bytes) :
    lookupRoute (build f es) g m = specHandler f es g m := by
  unfold lookupRoute specHandler
  rw [findC_build]
  cases ho : owner f es g with
  | none => rfl
  | some e =>
    simp only [Option.bind_some]
    have hel := (owner_some ho).2.2
    cases hx : extractHandler f e with
    | none => rw [← extractHandler_isSome, hx] at hel; cases hel
    | some c =>
      simp only [Option.bind_some]
      rw [(extractHandler_some hx).2, lookup_suitable]
      have hf : f = true := by
        unfold eligible at hel
        simp only [Bool.and_eq_true] at hel
        exact hel.2.1
      subst hf
      congr 1
      apply lastSuch_congr
      intro x _
      simp [handlerShapedB_eq_isValid]

/-! ### `strings.Split` on one byte -/

theorem splitOn_ne_nil (s : Nat) (r : Bytes) : splitOn s r ≠ [] := by
  induction r with
  | nil => simp [splitOn]
  | cons c r ih =>
    simp only [splitOn]
    split
    · simp
    · split <;> simp

theorem splitOn_length (s : Nat) (r : Bytes) : (splitOn s r).length = r.count s + 1 := by
  induction r with
  | nil => simp [splitOn]
  | cons c r ih =>
    simp only [splitOn]
    by_cases hc : c = s
    · subst hc; simp [ih]
    · rw [if_neg hc]
      have hne := splitOn_ne_nil s r
      cases hs : splitOn s r with
      | nil => exact absurd hs hne
      | cons p ps =>
        rw [hs] at ih
        simp only [List.length_cons] at ih ⊢
        rw [List.count_cons_of_ne (fun h => hc h)]
        omega

theorem splitOn_no_sep {s : Nat} {r : Bytes} (h : s ∉ r) : splitOn s r = [r] := by
  induction r with
  | nil => rfl
  | cons c r ih =>
    have hc : c ≠ s := fun e => h (e ▸ List.mem_cons_self)
    have hr : s ∉ r := fun e => h (List.mem_cons_of_mem _ e)
    simp [splitOn, hc, ih hr]

theorem splitOn_append_sep {s : Nat} {a : Bytes} (b : Bytes) (h : s ∉ a) :
    splitOn s (a ++ s :: b) = a :: splitOn s b := by
  induction a with
  | nil => simp [splitOn]
  | cons c a ih =>
    have hc : c ≠ s := fun e => h (e ▸ List.mem_cons_self)
    have hr : s ∉ a := fun e => h (List.mem_cons_of_mem _ e)
    simp [splitOn, hc, ih hr]

/-- `group.method` addresses exactly that group and method -/
theorem splitRoute_group_method {g m : Bytes} (hg : 46 ∉ g) (hm : 46 ∉ m) :
    splitRoute (g ++ 46 :: m) = some (g, m) := by
  simp [splitRoute, splitOn_append_sep m hg, splitOn_no_sep hm]

/-- a route without a dot addresses the inner group "_" -/
theorem splitRoute_single {m : Bytes} (hm : 46 ∉ m) : splitRoute m = some ([95], m) := by
  simp [splitRoute, splitOn_no_sep hm]

/-- a route is rejected iff it has more than two segments -/
theorem splitRoute_none_iff (r : Bytes) : splitRoute r = none ↔ 2 ≤ r.count 46 := by
  have hl := splitOn_length 46 r
  unfold splitRoute
  cases hs : splitOn 46 r with
  | nil => exact absurd hs (splitOn_ne_nil _ _)
  | cons a t =>
    rw [hs] at hl
    match t, hl with
    | [], hl => simp at hl ⊢; omega
    | [b], hl => simp at hl ⊢; omega
    | b :: c :: t', hl => simp at hl ⊢; omega

/-! ### handlers of a built collection are well formed -/

theorem getHandler_build {f : Bool} {es : List Entry} {route : Bytes} {h : Handler}
    (hh : getHandler (build f es) route = some h) :
    ∃ g m e x, splitRoute route = some (g, m) ∧ owner f es g = some e ∧ x ∈ methodSet e ∧
      isValidMethod x = true ∧ applyNF e.nameFunc x.name = m ∧ h = mkHandler e.eid x := by
  unfold getHandler at hh
  cases hs : splitRoute route with
  | none => simp [hs] at hh
  | some gm =>
    obtain ⟨g, m⟩ := gm
    simp only [hs, Option.bind_some] at hh
    rw [lookupRoute_build] at hh
    unfold specHandler at hh
    cases ho : owner f es g with
    | none => simp [ho] at hh
    | some e =>
      simp only [ho, Option.bind_some] at hh
      cases hl : lastSuch (fun x => handlerShapedB x && applyNF e.nameFunc x.name == m) (methodSet e) with
      | none => simp [hl] at hh
      | some x =>
        simp only [hl, Option.map_some] at hh
        have := lastSuch_some hl
        simp only [Bool.and_eq_true, beq_iff_eq] at this
        refine ⟨g, m, e, x, rfl, ho, this.1, ?_, this.2.2, ?_⟩
        · rw [← handlerShapedB_eq_isValid]; exact this.2.1
        · cases hh; rfl

theorem valid_argT_ptr {x : Method} (eid : Nat) (hv : isValidMethod x = true) :
    (mkHandler eid x).argT.kind = .ptr ∧ (mkHandler eid x).ctxT.kind = .ptr ∧ (mkHandler eid x).ctxT.implCtx = true := by
  rw [← handlerShapedB_eq_isValid] at hv
  obtain ⟨name, id, exp, val, ins⟩ := x
  match ins with
  | [] => simp [handlerShapedB] at hv
  | [a] => simp [handlerShapedB] at hv
  | [a, b] => simp [handlerShapedB] at hv
  | [a, b, c] => simp [handlerShapedB] at hv; simp [mkHandler, hv]
  | [a, b, c, d] => simp [handlerShapedB] at hv; simp [mkHandler, hv]
  | a :: b :: c :: d :: e :: r => simp [handlerShapedB] at hv

theorem valid_len {x : Method} (hv : isValidMethod x = true) :
    x.ins.length = (if x.ins.length == 4 then 4 else 3) := by
  rw [← handlerShapedB_eq_isValid] at hv
  obtain ⟨name, id, exp, val, ins⟩ := x
  match ins with
  | [] => simp [handlerShapedB] at hv
  | [a] => simp [handlerShapedB] at hv
  | [a, b] => simp [handlerShapedB] at hv
  | [a, b, c] => simp
  | [a, b, c, d] => simp
  | a :: b :: c :: d :: e :: r => simp [handlerShapedB] at hv

/-! ### outcomes -/

theorem callMethod_ne_escaped (c : Container) (m : Bytes) (ctx : CtxArg) (arg : ArgV) (hasCb : Bool) :
    callMethod c m ctx arg hasCb ≠ .escaped := by
  unfold callMethod safeCall
  intro h
  repeat' split at h
  all_goals cases h

theorem call_ne_escaped (col : Collection) (route : Bytes) (ctx : CtxArg) (arg : ArgV) (hasCb : Bool) :
    call col route ctx arg hasCb ≠ .escaped := by
  unfold call
  intro h
  split at h
  · cases h
  · split at h
    · cases h
    · exact callMethod_ne_escaped _ _ _ _ _ h

/-- `call` in terms of the handler the route names -/
theorem call_eq (col : Collection) (route : Bytes) (ctx : CtxArg) (arg : ArgV) (hasCb : Bool) :
    call col route ctx arg hasCb =
      match getHandler col route with
      | none => .fwErr
      | some h =>
        if h.isRequest then safeCall h ctx arg true
        else if hasCb then .nothing
        else safeCall h ctx arg false := by
  unfold call getHandler lookupRoute
  cases hs : splitRoute route with
  | none => rfl
  | some gm =>
    obtain ⟨g, m⟩ := gm
    simp only [Option.bind_some]
    cases hc : findC col g with
    | none => rfl
    | some c =>
      simp only [Option.bind_some, callMethod]
      cases lookup c.handlers m <;> rfl

/-- on a built collection `CallWithSerialize` never reaches `argType.Elem()` with a non-pointer -/
theorem callWithSerialize_build (f : Bool) (es : List Entry) (ser : Option Decoder) (route data : Bytes)
    (ctx : CtxArg) (hasCb : Bool) :
    callWithSerialize (build f es) ser route ctx data hasCb =
      match ser with
      | none => .fwErr
      | some dec =>
        match getHandler (build f es) route with
        | none => .fwErr
        | some h =>
          match dec h.argT.id data with
          | none => .fwErr
          | some v => call (build f es) route ctx (.val h.argT.builtId v) hasCb := by
  unfold callWithSerialize getArgType
  cases ser with
  | none => rfl
  | some dec =>
    simp only []
    cases hh : getHandler (build f es) route with
    | none => rfl
    | some h =>
      obtain ⟨_, _, e, x, _, _, _, hv, _, hx⟩ := getHandler_build hh
      have hptr : h.argT.kind = .ptr := by rw [hx]; exact (valid_argT_ptr e.eid hv).1
      simp only [Option.map_some, hptr, Kind.hasElem, Bool.not_true, Bool.false_eq_true, if_false]
      cases dec h.argT.id data <;> rfl

end Cell2v.ApiMap
