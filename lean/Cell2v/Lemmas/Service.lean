import Cell2v.Model.Service
/-
C01 — lemmas for the request/response model (`Model/Service.lean`).

The reachable-state invariant `WF` is split in four groups, each a predicate on
the components it talks about, with one lemma per elementary table/log
operation; the transitions are compositions of those operations.
  Qa  table structure: no duplicate keys, timer armed while non-empty, the ids the
      expiry scan still has to do exist
  Qb  instance bookkeeping: every instance's callback count is ≤ 1, 0 for
      instances not yet issued and for every pending entry
  Qc  deadlines: entries carry `issue time + 30000`; every timeout callback came
      strictly after that; ids scheduled by the scan are overdue
  Qd  registered = issued minus removed
-/
namespace Cell2v.Service

theorem mem_del {id : Nat} {l : List (Nat × Wait)} {x : Nat × Wait} :
    x ∈ del id l ↔ x ∈ l ∧ x.1 ≠ id := by simp [del]

theorem find_some_mem {id : Nat} {l : List (Nat × Wait)} {w : Wait} (h : find id l = some w) : (id, w) ∈ l := by
  induction l with
  | nil => simp [find] at h
  | cons a t ih =>
    obtain ⟨k, v⟩ := a
    simp only [find] at h
    split at h
    · simp_all
    · simp [ih h]

theorem find_none_iff {id : Nat} {l : List (Nat × Wait)} : find id l = none ↔ ∀ w, (id, w) ∉ l := by
  induction l with
  | nil => simp [find]
  | cons a t ih =>
    obtain ⟨k, v⟩ := a
    simp only [find]
    split
    · rename_i h; subst h
      simp only [reduceCtorEq, false_iff]
      intro h
      exact h v (List.mem_cons_self ..)
    · rename_i hne
      rw [ih]
      constructor
      · intro h w hw
        simp only [List.mem_cons, Prod.mk.injEq] at hw
        rcases hw with ⟨h1, _⟩ | hw
        · exact hne h1.symm
        · exact h w hw
      · intro h w hw
        exact h w (List.mem_cons_of_mem _ hw)

theorem find_some_of_mem {id : Nat} {l : List (Nat × Wait)} {w : Wait} (hn : (keys l).Nodup) (h : (id, w) ∈ l) :
    find id l = some w := by
  induction l with
  | nil => simp at h
  | cons a t ih =>
    obtain ⟨k, v⟩ := a
    simp only [keys, List.map_cons, List.nodup_cons, List.mem_map, not_exists, not_and] at hn
    simp only [List.mem_cons, Prod.mk.injEq] at h
    simp only [find]
    rcases h with ⟨h1, h2⟩ | h
    · simp [h1, h2]
    · have : k ≠ id := by
        intro hk; subst hk
        exact hn.1 (k, w) h rfl
      simp [this]
      exact ih hn.2 h

theorem nodup_del {id : Nat} {l : List (Nat × Wait)} (h : (keys l).Nodup) : (keys (del id l)).Nodup := by
  unfold keys del
  exact h.sublist (List.Sublist.map _ List.filter_sublist)

theorem mem_keys {id : Nat} {l : List (Nat × Wait)} : id ∈ keys l ↔ ∃ w, (id, w) ∈ l := by
  simp [keys]

theorem hasKey_false {id : Nat} {l : List (Nat × Wait)} : hasKey id l = false ↔ ∀ w, (id, w) ∉ l := by
  simp [hasKey, find_none_iff]

theorem mem_unique {id : Nat} {l : List (Nat × Wait)} {w w' : Wait} (hn : (keys l).Nodup)
    (h : (id, w) ∈ l) (h' : (id, w') ∈ l) : w = w' := by
  have a := find_some_of_mem hn h
  have b := find_some_of_mem hn h'
  simp_all

theorem del_fresh {id : Nat} {l : List (Nat × Wait)} (h : ∀ w, (id, w) ∉ l) : del id l = l := by
  unfold del
  rw [List.filter_eq_self]
  intro a ha
  obtain ⟨k, v⟩ := a
  simp only [bne_iff_ne, ne_eq]
  intro hk; subst hk
  exact h v ha

def isCbOf (i : Nat) : Ev → Bool
  | .cb j _ _ _ => j == i
  | _ => false

def cbCount (log : List Ev) (i : Nat) : Nat := log.countP (isCbOf i)

theorem cbCount_cons (e : Ev) (log : List Ev) (i : Nat) :
    cbCount (e :: log) i = cbCount log i + if isCbOf i e then 1 else 0 := by
  simp [cbCount, List.countP_cons]

structure Qb (p : List (Nat × Wait)) (log : List Ev) (n : Nat) : Prop where
  instLt : ∀ id w, (id, w) ∈ p → w.inst < n
  instInj : ∀ id w id' w', (id, w) ∈ p → (id', w') ∈ p → w.inst = w'.inst → id = id'
  cbFresh : ∀ i, n ≤ i → cbCount log i = 0
  cbOnce : ∀ i, cbCount log i ≤ 1
  cbPend : ∀ id w, (id, w) ∈ p → cbCount log w.inst = 0

theorem Qb.log {p log n} (h : Qb p log n) (e : Ev) (he : ∀ i, isCbOf i e = false) : Qb p (e :: log) n := by
  constructor
  · exact h.instLt
  · exact h.instInj
  · intro i hi; simp [cbCount_cons, he, h.cbFresh i hi]
  · intro i; simp [cbCount_cons, he, h.cbOnce i]
  · intro id w hm; simp [cbCount_cons, he, h.cbPend id w hm]

theorem Qb.erase {p log n} (h : Qb p log n) (id : Nat) : Qb (del id p) log n := by
  constructor
  · intro id' w hm; exact h.instLt id' w (mem_del.1 hm).1
  · intro a w b w' h1 h2; exact h.instInj a w b w' (mem_del.1 h1).1 (mem_del.1 h2).1
  · exact h.cbFresh
  · exact h.cbOnce
  · intro id' w hm; exact h.cbPend id' w (mem_del.1 hm).1

theorem Qb.skip {p log n} (h : Qb p log n) : Qb p log (n + 1) := by
  constructor
  · intro id w hm; have := h.instLt id w hm; omega
  · exact h.instInj
  · intro i hi; exact h.cbFresh i (by omega)
  · exact h.cbOnce
  · exact h.cbPend

theorem Qb.ins {p log n} (h : Qb p log n) (id d a : Nat) (c : Bool) (hf : ∀ w, (id, w) ∉ p) :
    Qb ((id, ⟨d, c, n, a⟩) :: p) log (n + 1) := by
  constructor
  · intro id' w hm
    simp only [List.mem_cons, Prod.mk.injEq] at hm
    rcases hm with ⟨_, rfl⟩ | hm
    · simp
    · have := h.instLt id' w hm; omega
  · intro x w y w' h1 h2 he
    simp only [List.mem_cons, Prod.mk.injEq] at h1 h2
    rcases h1 with ⟨rfl, rfl⟩ | h1 <;> rcases h2 with ⟨rfl, rfl⟩ | h2
    · rfl
    · have := h.instLt y w' h2; simp at he; omega
    · have := h.instLt x w h1; simp at he; omega
    · exact h.instInj x w y w' h1 h2 he
  · intro i hi; exact h.cbFresh i (by omega)
  · exact h.cbOnce
  · intro id' w hm
    simp only [List.mem_cons, Prod.mk.injEq] at hm
    rcases hm with ⟨rfl, rfl⟩ | hm
    · exact h.cbFresh n (Nat.le_refl _)
    · exact h.cbPend id' w hm

/-- the entry `(id, w)` has just been removed; its callback is invoked -/
theorem Qb.complete {p log n id w} (h : Qb p log n) (hn : (keys p).Nodup) (hm : (id, w) ∈ p) (o : Outcome) (t : Nat) :
    Qb (del id p) (.cb w.inst id o t :: .done w.inst id :: log) n := by
  have h0 := h.cbPend id w hm
  have hlt := h.instLt id w hm
  have h1 := (h.erase id).log (.done w.inst id) (by intro i; rfl)
  have hcnt : cbCount (.done w.inst id :: log) w.inst = 0 := by simp [cbCount_cons, isCbOf, h0]
  constructor
  · exact h1.instLt
  · exact h1.instInj
  · intro i hi
    have hne : w.inst ≠ i := by omega
    simp [cbCount_cons, isCbOf, hne, h.cbFresh i hi]
  · intro i
    have := h1.cbOnce i
    simp only [cbCount_cons (.cb w.inst id o t), isCbOf, beq_iff_eq]
    split
    · rename_i e; subst e; omega
    · omega
  · intro id' w' hm'
    obtain ⟨hm1, hne⟩ := mem_del.1 hm'
    have : w.inst ≠ w'.inst := fun e3 => hne (h.instInj id w id' w' hm hm1 e3).symm
    have h2 := h1.cbPend id' w' hm'
    simp only [cbCount_cons (.cb w.inst id o t), isCbOf, beq_iff_eq, this, ↓reduceIte]
    omega

theorem Qb.cbFreshInst {p log n} (h : Qb p log n) (id : Nat) (o : Outcome) (t : Nat) :
    Qb p (.cb n id o t :: log) (n + 1) := by
  constructor
  · intro id' w hm; have := h.instLt id' w hm; omega
  · exact h.instInj
  · intro i hi
    have hne : n ≠ i := by omega
    simp [cbCount_cons, isCbOf, hne, h.cbFresh i (by omega)]
  · intro i
    simp only [cbCount_cons, isCbOf, beq_iff_eq]
    split
    · rename_i e; subst e; have := h.cbFresh n (Nat.le_refl _); omega
    · have := h.cbOnce i; omega
  · intro id' w hm
    have := h.instLt id' w hm
    have hne : n ≠ w.inst := by omega
    simp [cbCount_cons, isCbOf, hne, h.cbPend id' w hm]

/-! ### group A: table structure, timer, the ids the scan in progress still has to do -/

structure Qa (p : List (Nat × Wait)) (armed : Bool) (rest : List Nat) : Prop where
  nodup : (keys p).Nodup
  armedP : p ≠ [] → armed = true
  restKeys : ∀ r, r ∈ rest → r ∈ keys p
  restNodup : rest.Nodup

theorem Qa.ins {p armed rest} (h : Qa p armed rest) (id : Nat) (w : Wait) (hf : ∀ w, (id, w) ∉ p) :
    Qa ((id, w) :: p) true rest := by
  constructor
  · simp only [keys, List.map_cons, List.nodup_cons]
    refine ⟨?_, h.nodup⟩
    intro hm
    obtain ⟨w', hw'⟩ := mem_keys.1 hm
    exact hf w' hw'
  · intro _; rfl
  · intro r hr; simp only [keys, List.map_cons, List.mem_cons]; exact Or.inr (h.restKeys r hr)
  · exact h.restNodup

theorem mem_keys_del {id r : Nat} {p : List (Nat × Wait)} (h : r ∈ keys p) (hne : r ≠ id) : r ∈ keys (del id p) := by
  obtain ⟨w, hw⟩ := mem_keys.1 h
  exact mem_keys.2 ⟨w, mem_del.2 ⟨hw, hne⟩⟩

theorem del_ne_nil {id : Nat} {p : List (Nat × Wait)} (h : del id p ≠ []) : p ≠ [] := by
  intro e; subst e; simp [del] at h

theorem Qa.erase {p armed rest} (h : Qa p armed rest) (id : Nat) (hr : id ∉ rest) : Qa (del id p) armed rest := by
  constructor
  · exact nodup_del h.nodup
  · intro hne; exact h.armedP (del_ne_nil hne)
  · intro r hr'; exact mem_keys_del (h.restKeys r hr') (by intro e; subst e; exact hr hr')
  · exact h.restNodup

theorem Qa.setRest {p armed rest} (h : Qa p armed []) (hk : ∀ r, r ∈ rest → r ∈ keys p) (hn : rest.Nodup) :
    Qa p armed rest := ⟨h.nodup, h.armedP, hk, hn⟩

theorem Qa.tail {p armed id rest} (h : Qa p armed (id :: rest)) : Qa p armed rest :=
  ⟨h.nodup, h.armedP, fun r hr => h.restKeys r (List.mem_cons_of_mem _ hr), (List.nodup_cons.1 h.restNodup).2⟩

theorem Qa.nil {p armed rest} (h : Qa p armed rest) : Qa p armed [] := by
  refine ⟨h.nodup, h.armedP, ?_, List.nodup_nil⟩
  intro _ hr; cases hr

/-! ### group C: deadlines -/

structure Qc (p : List (Nat × Wait)) (log : List Ev) (now : Nat) (rest : List Nat) : Prop where
  issuedP : ∀ id w, (id, w) ∈ p → ∃ t0, w.deadline = t0 + reqTimeout ∧ Ev.issued w.inst id t0 ∈ log
  cbEv : ∀ i id o t, Ev.cb i id o t ∈ log →
    ∃ t0, Ev.issued i id t0 ∈ log ∧ (o = .timeout → t0 + reqTimeout < t)
  restDue : ∀ r, r ∈ rest → ∀ w, (r, w) ∈ p → w.deadline < now

theorem Qc.log {p log now rest} (h : Qc p log now rest) (e : Ev) (he : ∀ i id o t, e ≠ .cb i id o t) :
    Qc p (e :: log) now rest := by
  constructor
  · intro id w hm
    obtain ⟨t0, h1, h2⟩ := h.issuedP id w hm
    exact ⟨t0, h1, List.mem_cons_of_mem _ h2⟩
  · intro i id o t hm
    simp only [List.mem_cons] at hm
    rcases hm with hm | hm
    · exact absurd hm.symm (he i id o t)
    · obtain ⟨t0, h1, h2⟩ := h.cbEv i id o t hm
      exact ⟨t0, List.mem_cons_of_mem _ h1, h2⟩
  · exact h.restDue

theorem Qc.erase {p log now rest} (h : Qc p log now rest) (id : Nat) : Qc (del id p) log now rest :=
  ⟨fun id' w hm => h.issuedP id' w (mem_del.1 hm).1, h.cbEv, fun r hr w hm => h.restDue r hr w (mem_del.1 hm).1⟩

theorem Qc.ins {p log now rest} (h : Qc p log now rest) (id n a : Nat) (c : Bool) (hr : id ∉ rest) :
    Qc ((id, ⟨now + reqTimeout, c, n, a⟩) :: p) (.issued n id now :: log) now rest := by
  have h' := h.log (.issued n id now) (by intro _ _ _ _ e; cases e)
  constructor
  · intro id' w hm
    simp only [List.mem_cons, Prod.mk.injEq] at hm
    rcases hm with ⟨rfl, rfl⟩ | hm
    · exact ⟨now, rfl, List.mem_cons_self ..⟩
    · exact h'.issuedP id' w hm
  · exact h'.cbEv
  · intro r hr' w hm
    simp only [List.mem_cons, Prod.mk.injEq] at hm
    rcases hm with ⟨rfl, _⟩ | hm
    · exact absurd hr' hr
    · exact h.restDue r hr' w hm

theorem Qc.now {p log now rest} (h : Qc p log now rest) (now' : Nat) (hle : now ≤ now') : Qc p log now' rest :=
  ⟨h.issuedP, h.cbEv, fun r hr w hm => Nat.lt_of_lt_of_le (h.restDue r hr w hm) hle⟩

theorem Qc.cb {p log now rest} (h : Qc p log now rest) (i id : Nat) (o : Outcome) (t : Nat)
    (hev : ∃ t0, Ev.issued i id t0 ∈ log ∧ (o = .timeout → t0 + reqTimeout < t)) :
    Qc p (.cb i id o t :: log) now rest := by
  constructor
  · intro id' w' hm'
    obtain ⟨t0, h1, h2⟩ := h.issuedP id' w' hm'
    exact ⟨t0, h1, List.mem_cons_of_mem _ h2⟩
  · intro i' id' o' t' hm'
    simp only [List.mem_cons] at hm'
    rcases hm' with hm' | hm'
    · injection hm' with e1 e2 e3 e4
      subst e1 e2 e3 e4
      obtain ⟨t0, h1, h2⟩ := hev
      exact ⟨t0, List.mem_cons_of_mem _ h1, h2⟩
    · obtain ⟨t0, h1, h2⟩ := h.cbEv i' id' o' t' hm'
      exact ⟨t0, List.mem_cons_of_mem _ h1, h2⟩
  · exact h.restDue

theorem Qc.cbPending {p log now rest id w} (h : Qc p log now rest) (hm : (id, w) ∈ p) (o : Outcome) (t : Nat)
    (ht : o = .timeout → w.deadline < t) : Qc p (.cb w.inst id o t :: log) now rest := by
  obtain ⟨t0, h1, h2⟩ := h.issuedP id w hm
  exact h.cb _ _ _ _ ⟨t0, h2, fun e => by have := ht e; omega⟩

theorem Qc.sub {p log now rest rest'} (h : Qc p log now rest) (hs : ∀ r, r ∈ rest' → r ∈ rest) : Qc p log now rest' :=
  ⟨h.issuedP, h.cbEv, fun r hr => h.restDue r (hs r hr)⟩

/-! ### group D: registered = issued minus removed -/

structure Qd (p : List (Nat × Wait)) (log : List Ev) (n : Nat) : Prop where
  notDone : ∀ id w, (id, w) ∈ p → ∀ id', Ev.done w.inst id' ∉ log
  tracked : ∀ i id t, Ev.issued i id t ∈ log → (∃ w, (id, w) ∈ p ∧ w.inst = i) ∨ Ev.done i id ∈ log
  evFresh : ∀ i, n ≤ i → (∀ id, Ev.done i id ∉ log) ∧ (∀ id t, Ev.issued i id t ∉ log)

theorem Qd.log {p log n} (h : Qd p log n) (e : Ev) (h1 : ∀ i id, e ≠ .done i id) (h2 : ∀ i id t, e ≠ .issued i id t) :
    Qd p (e :: log) n := by
  constructor
  · intro id w hm id' hc
    simp only [List.mem_cons] at hc
    rcases hc with hc | hc
    · exact h1 _ _ hc.symm
    · exact h.notDone id w hm id' hc
  · intro i id t hm
    simp only [List.mem_cons] at hm
    rcases hm with hm | hm
    · exact absurd hm.symm (h2 i id t)
    · rcases h.tracked i id t hm with ⟨w, hw⟩ | hd
      · exact Or.inl ⟨w, hw⟩
      · exact Or.inr (List.mem_cons_of_mem _ hd)
  · intro i hi
    obtain ⟨a, b⟩ := h.evFresh i hi
    refine ⟨fun id hc => ?_, fun id t hc => ?_⟩
    · simp only [List.mem_cons] at hc
      rcases hc with hc | hc
      · exact h1 _ _ hc.symm
      · exact a id hc
    · simp only [List.mem_cons] at hc
      rcases hc with hc | hc
      · exact h2 _ _ _ hc.symm
      · exact b id t hc

theorem Qd.skip {p log n} (h : Qd p log n) : Qd p log (n + 1) :=
  ⟨h.notDone, h.tracked, fun i hi => h.evFresh i (by omega)⟩

theorem Qd.ins {p log n} (h : Qd p log n) (hlt : ∀ id w, (id, w) ∈ p → w.inst < n) (id d a t : Nat) (c : Bool) :
    Qd ((id, ⟨d, c, n, a⟩) :: p) (.issued n id t :: log) (n + 1) := by
  constructor
  · intro id' w hm id'' hc
    simp only [List.mem_cons, reduceCtorEq, false_or] at hc
    simp only [List.mem_cons, Prod.mk.injEq] at hm
    rcases hm with ⟨rfl, rfl⟩ | hm
    · exact (h.evFresh n (Nat.le_refl _)).1 id'' hc
    · exact h.notDone id' w hm id'' hc
  · intro i id' t' hm
    simp only [List.mem_cons] at hm
    rcases hm with hm | hm
    · injection hm with e1 e2 e3
      subst e1 e2 e3
      exact Or.inl ⟨_, List.mem_cons_self .., rfl⟩
    · rcases h.tracked i id' t' hm with ⟨w, hw, hi⟩ | hd
      · exact Or.inl ⟨w, List.mem_cons_of_mem _ hw, hi⟩
      · exact Or.inr (List.mem_cons_of_mem _ hd)
  · intro i hi
    obtain ⟨a', b⟩ := h.evFresh i (by omega)
    refine ⟨fun id' hc => ?_, fun id' t' hc => ?_⟩
    · simp only [List.mem_cons, reduceCtorEq, false_or] at hc
      exact a' id' hc
    · simp only [List.mem_cons] at hc
      rcases hc with hc | hc
      · injection hc with e1; omega
      · exact b id' t' hc

theorem Qd.serFail {p log n} (h : Qd p log n) (hlt : ∀ id w, (id, w) ∈ p → w.inst < n) (id t : Nat) :
    Qd p (.done n id :: .issued n id t :: log) (n + 1) := by
  constructor
  · intro id' w hm id'' hc
    simp only [List.mem_cons, reduceCtorEq, false_or] at hc
    rcases hc with hc | hc
    · injection hc with e1; have := hlt id' w hm; omega
    · exact h.notDone id' w hm id'' hc
  · intro i id' t' hm
    simp only [List.mem_cons, reduceCtorEq, false_or] at hm
    rcases hm with hm | hm
    · injection hm with e1 e2 e3
      subst e1 e2 e3
      exact Or.inr (List.mem_cons_self ..)
    · rcases h.tracked i id' t' hm with ⟨w, hw, hi⟩ | hd
      · exact Or.inl ⟨w, hw, hi⟩
      · exact Or.inr (List.mem_cons_of_mem _ (List.mem_cons_of_mem _ hd))
  · intro i hi
    obtain ⟨a', b⟩ := h.evFresh i (by omega)
    refine ⟨fun id' hc => ?_, fun id' t' hc => ?_⟩
    · simp only [List.mem_cons, reduceCtorEq, false_or] at hc
      rcases hc with hc | hc
      · injection hc with e1; omega
      · exact a' id' hc
    · simp only [List.mem_cons, reduceCtorEq, false_or] at hc
      rcases hc with hc | hc
      · injection hc with e1; omega
      · exact b id' t' hc

theorem Qd.finish {p log n id w} (h : Qd p log n) (hn : (keys p).Nodup)
    (hinj : ∀ id w id' w', (id, w) ∈ p → (id', w') ∈ p → w.inst = w'.inst → id = id')
    (hlt : ∀ id w, (id, w) ∈ p → w.inst < n) (hm : (id, w) ∈ p) :
    Qd (del id p) (.done w.inst id :: log) n := by
  constructor
  · intro id' w' hm' id'' hc
    obtain ⟨hm1, hne⟩ := mem_del.1 hm'
    simp only [List.mem_cons] at hc
    rcases hc with hc | hc
    · injection hc with e1 e2
      exact hne (hinj id' w' id w hm1 hm e1)
    · exact h.notDone id' w' hm1 id'' hc
  · intro i id' t hm'
    simp only [List.mem_cons, reduceCtorEq, false_or] at hm'
    rcases h.tracked i id' t hm' with ⟨w', hw', hi⟩ | hd
    · by_cases e : id' = id
      · subst e
        have := mem_unique hn hw' hm
        subst this
        subst hi
        exact Or.inr (List.mem_cons_self ..)
      · exact Or.inl ⟨w', mem_del.2 ⟨hw', e⟩, hi⟩
    · exact Or.inr (List.mem_cons_of_mem _ hd)
  · intro i hi
    obtain ⟨a, b⟩ := h.evFresh i hi
    refine ⟨fun id' hc => ?_, fun id' t hc => b id' t (by simpa using hc)⟩
    simp only [List.mem_cons] at hc
    rcases hc with hc | hc
    · injection hc with e1 e2
      have := hlt id w hm
      omega
    · exact a id' hc


/-! ### group F: the entry is removed before its callback runs -/

structure Qf (log : List Ev) : Prop where
  cbDone : ∀ i id o t, Ev.cb i id o t ∈ log → Ev.done i id ∈ log

theorem Qf.log {log} (h : Qf log) (e : Ev) (he : ∀ i id o t, e ≠ .cb i id o t) : Qf (e :: log) := by
  constructor
  intro i id o t hm
  simp only [List.mem_cons] at hm
  rcases hm with hm | hm
  · exact absurd hm.symm (he i id o t)
  · exact List.mem_cons_of_mem _ (h.cbDone i id o t hm)

theorem Qf.cb {log} (h : Qf log) (i id : Nat) (o : Outcome) (t : Nat) (hd : Ev.done i id ∈ log) :
    Qf (.cb i id o t :: log) := by
  constructor
  intro i' id' o' t' hm
  simp only [List.mem_cons] at hm
  rcases hm with hm | hm
  · injection hm with e1 e2 _ _
    subst e1 e2
    exact List.mem_cons_of_mem _ hd
  · exact List.mem_cons_of_mem _ (h.cbDone i' id' o' t' hm)

/-! ### the invariant -/

def restOf (s : State) : List Nat :=
  match s.base with
  | .inTick _ rest => rest
  | _ => []

structure WFx (s : State) (rest : List Nat) : Prop where
  a : Qa s.pending s.armed rest
  b : Qb s.pending s.log s.ninst
  c : Qc s.pending s.log s.now rest
  d : Qd s.pending s.log s.ninst
  f : Qf s.log

def WF (s : State) : Prop := WFx s (restOf s)

theorem finish_eq {s : State} {id : Nat} {w : Wait} (h : find id s.pending = some w) :
    finish s id = { s with pending := del id s.pending, log := .done w.inst id :: s.log } := by
  simp [finish, h]

theorem finish_collided (s : State) (id : Nat) : (finish s id).collided = s.collided := by
  unfold finish; split <;> rfl

theorem WFx.tail {s : State} {id : Nat} {rest : List Nat} (h : WFx s (id :: rest)) : WFx s rest :=
  ⟨h.a.tail, h.b, h.c.sub (fun r hr => List.mem_cons_of_mem _ hr), h.d, h.f⟩

theorem WFx.nil {s : State} {rest : List Nat} (h : WFx s rest) : WFx s [] :=
  ⟨h.a.nil, h.b, h.c.sub (by intro _ hr; cases hr), h.d, h.f⟩

theorem WFx.finish {s : State} {rest : List Nat} {id : Nat} {w : Wait}
    (h : WFx s rest) (hf : find id s.pending = some w) (hr : id ∉ rest) : WFx (finish s id) rest := by
  have hm := find_some_mem hf
  rw [finish_eq hf]
  exact ⟨h.a.erase id hr, (h.b.erase id).log _ (by intro i; rfl),
    (h.c.erase id).log _ (by intro _ _ _ _ e; cases e), h.d.finish h.a.nodup h.b.instInj h.b.instLt hm,
    h.f.log _ (by intro _ _ _ _ e; cases e)⟩

/-- `delete`, then the callback -/
theorem WFx.complete {s : State} {rest : List Nat} {id : Nat} {w : Wait} (h : WFx s rest)
    (hf : find id s.pending = some w) (hr : id ∉ rest) (o : Outcome) (t : Nat) (b : Base) (n : Nat)
    (ht : o = .timeout → w.deadline < t) :
    WFx { s with pending := del id s.pending, base := b, nest := n,
                 log := .cb w.inst id o t :: .done w.inst id :: s.log } rest := by
  have hm := find_some_mem hf
  obtain ⟨t0, hd, hiss⟩ := h.c.issuedP id w hm
  refine ⟨h.a.erase id hr, h.b.complete h.a.nodup hm o t, ?_, ?_, ?_⟩
  · exact ((h.c.erase id).log _ (by intro _ _ _ _ e; cases e)).cb _ _ _ _
      ⟨t0, List.mem_cons_of_mem _ hiss, fun e => by have := ht e; omega⟩
  · exact (h.d.finish h.a.nodup h.b.instInj h.b.instLt hm).log _ (by intro _ _ e; injection e)
      (by intro _ _ _ e; injection e)
  · exact (h.f.log _ (by intro _ _ _ _ e; cases e)).cb _ _ _ _ (List.mem_cons_self ..)

theorem tickLoop_cons_none {s : State} {id : Nat} {rest : List Nat} (h : find id s.pending = none) :
    tickLoop s (id :: rest) = { s with base := .idle, collided := true } := by
  simp [tickLoop, h]

theorem tickLoop_cons_cb {s : State} {id : Nat} {rest : List Nat} {w : Wait} (h : find id s.pending = some w)
    (hc : w.hasCb = true) :
    tickLoop s (id :: rest) =
      { s with pending := del id s.pending, base := .inTick w.inst rest, nest := s.nest,
               log := .cb w.inst id .timeout s.now :: .done w.inst id :: s.log } := by
  simp [tickLoop, h, hc, finish_eq h]

theorem tickLoop_cons_nocb {s : State} {id : Nat} {rest : List Nat} {w : Wait} (h : find id s.pending = some w)
    (hc : w.hasCb = false) : tickLoop s (id :: rest) = tickLoop (finish s id) rest := by
  simp [tickLoop, h, hc]

theorem tickLoop_WF : ∀ (rest : List Nat) (s : State), WFx s rest →
    (tickLoop s rest).collided = false → WF (tickLoop s rest) := by
  intro rest
  induction rest with
  | nil =>
    intro s h _
    exact ⟨h.a, h.b, h.c, h.d, h.f⟩
  | cons id rest ih =>
    intro s h hc
    cases hf : find id s.pending with
    | none => rw [tickLoop_cons_none hf] at hc; simp at hc
    | some w =>
      have hm := find_some_mem hf
      have hnr : id ∉ rest := (List.nodup_cons.1 h.a.restNodup).1
      cases hcb : w.hasCb with
      | true =>
        rw [tickLoop_cons_cb hf hcb]
        have hd := h.c.restDue id (List.mem_cons_self ..) w hm
        exact h.tail.complete hf hnr .timeout s.now _ _ (fun _ => hd)
      | false =>
        rw [tickLoop_cons_nocb hf hcb] at hc ⊢
        exact ih _ (h.tail.finish hf hnr) hc

/-! ### pickOrder / dueIds -/

theorem pickOrder_perm : ∀ (order due : List Nat), (pickOrder order due).Perm due := by
  intro order
  induction order with
  | nil => intro due; exact List.Perm.refl _
  | cons o os ih =>
    intro due
    unfold pickOrder
    split
    · rename_i hm
      exact ((ih (due.erase o)).cons o).trans (List.perm_cons_erase hm).symm
    · exact ih due

theorem mem_dueIds {now r : Nat} {p : List (Nat × Wait)} : r ∈ dueIds now p ↔ ∃ w, (r, w) ∈ p ∧ w.deadline < now := by
  simp [dueIds]

theorem nodup_dueIds {now : Nat} {p : List (Nat × Wait)} (h : (keys p).Nodup) : (dueIds now p).Nodup := by
  unfold dueIds
  exact h.sublist (List.Sublist.map _ List.filter_sublist)

/-! ### equations for `issue` -/

theorem issue_notify (s : State) (o c : Bool) :
    issue s false o c = if o then { s with ninst := s.ninst + 1, log := .sent s.ninst 0 :: s.log }
                        else { s with ninst := s.ninst + 1 } := by
  cases o <;> simp [issue]

theorem issue_req_collided (s : State) (o c : Bool) :
    (issue s true o c).collided = (s.collided || hasKey (allocId s.M s.nextId) s.pending) := by
  cases o <;> cases c <;> cases h : s.armed <;> simp [issue, h]

def newWait (s : State) (c : Bool) : Wait := ⟨s.now + reqTimeout, c, s.ninst, s.nalloc + 1⟩

theorem issue_req_ok (s : State) (c : Bool) (hf : ∀ w, (allocId s.M s.nextId, w) ∉ s.pending) :
    issue s true true c =
      { s with ninst := s.ninst + 1, nextId := allocId s.M s.nextId, nalloc := s.nalloc + 1,
               collided := s.collided || hasKey (allocId s.M s.nextId) s.pending,
               pending := (allocId s.M s.nextId, newWait s c) :: s.pending, armed := true,
               log := (if s.armed then [] else [Ev.armed]) ++
                      .sent s.ninst (allocId s.M s.nextId) :: .issued s.ninst (allocId s.M s.nextId) s.now :: s.log } := by
  cases h : s.armed <;> simp [issue, h, del_fresh hf, newWait]

theorem issue_req_fail (s : State) (c : Bool) (hf : ∀ w, (allocId s.M s.nextId, w) ∉ s.pending) :
    issue s true false c =
      { s with ninst := s.ninst + 1, nextId := allocId s.M s.nextId, nalloc := s.nalloc + 1,
               collided := s.collided || hasKey (allocId s.M s.nextId) s.pending,
               nest := if c then s.nest + 1 else s.nest,
               log := (if c then [Ev.cb s.ninst (allocId s.M s.nextId) .serErr s.now] else []) ++
                      .done s.ninst (allocId s.M s.nextId) :: .issued s.ninst (allocId s.M s.nextId) s.now :: s.log } := by
  have hd : del (allocId s.M s.nextId) ((allocId s.M s.nextId, newWait s c) :: s.pending) = s.pending := by
    simp [del]
    have := del_fresh hf
    simpa [del] using this
  cases c <;> simp [issue, del_fresh hf] <;> simpa [newWait] using hd


theorem noroute_cb (s : State) :
    noroute s true true =
      { s with ninst := s.ninst + 1, nest := s.nest + 1,
               log := .cb s.ninst 0 .noService s.now :: .done s.ninst 0 :: .issued s.ninst 0 s.now :: s.log } := rfl

theorem noroute_nocb (s : State) (r c : Bool) (h : (r && c) = false) :
    noroute s r c = { s with ninst := s.ninst + 1 } := by
  simp [noroute, h]

/-! ### every transition preserves the invariant -/

theorem WF.of_idle {s : State} (hb : s.base = .idle) (h : WFx s []) : WF s := by
  unfold WF restOf; rw [hb]; exact h

theorem WF.idle {s : State} (h : WF s) (hb : s.base = .idle) : WFx s [] := by
  unfold WF restOf at h; rw [hb] at h; exact h

theorem WF.toNil {s : State} (h : WF s) : WFx s [] := WFx.nil h

theorem finish_base (s : State) (id : Nat) : (finish s id).base = s.base := by
  unfold finish; split <;> rfl

theorem free_iff {s : State} : free s = true ↔ s.nest = 0 ∧ s.base = .idle := by
  simp [free]

theorem decode_ne_timeout (p : Payload) : decode p ≠ .timeout := by cases p <;> simp [decode]
theorem decode_ne_serErr (p : Payload) : decode p ≠ .serErr := by cases p <;> simp [decode]

theorem Qc.setRest {p log now} (h : Qc p log now []) (hn : (keys p).Nodup) (rest : List Nat)
    (hr : ∀ r, r ∈ rest → r ∈ dueIds now p) : Qc p log now rest := by
  refine ⟨h.issuedP, h.cbEv, ?_⟩
  intro r hr' w hm
  obtain ⟨w0, h0, hd⟩ := mem_dueIds.1 (hr r hr')
  have := mem_unique hn hm h0
  subst this
  exact hd

theorem issue_WF {s : State} (h : WF s) (r o c : Bool) (hc : (issue s r o c).collided = false) :
    WF (issue s r o c) := by
  cases r with
  | false =>
    rw [issue_notify]
    cases o with
    | true =>
      exact ⟨h.a, h.b.skip.log _ (by intro i; rfl), h.c.log _ (by intro _ _ _ _ e; injection e),
        h.d.skip.log _ (by intro _ _ e; injection e) (by intro _ _ _ e; injection e),
        h.f.log _ (by intro _ _ _ _ e; injection e)⟩
    | false => exact ⟨h.a, h.b.skip, h.c, h.d.skip, h.f⟩
  | true =>
    rw [issue_req_collided] at hc
    simp only [Bool.or_eq_false_iff] at hc
    have hf := hasKey_false.1 hc.2
    have hrest : allocId s.M s.nextId ∉ restOf s := by
      intro e
      obtain ⟨w, hw⟩ := mem_keys.1 (h.a.restKeys _ e)
      exact hf w hw
    cases o with
    | true =>
      rw [issue_req_ok s c hf]
      have a := h.a.ins _ (newWait s c) hf
      have b := (h.b.ins _ (s.now + reqTimeout) (s.nalloc + 1) c hf).log (.issued s.ninst (allocId s.M s.nextId) s.now) (by intro i; rfl)
      have c' := h.c.ins _ s.ninst (s.nalloc + 1) c hrest
      have d := h.d.ins h.b.instLt (allocId s.M s.nextId) (s.now + reqTimeout) (s.nalloc + 1) s.now c
      have f := (h.f.log (.issued s.ninst (allocId s.M s.nextId) s.now) (by intro _ _ _ _ e; injection e)).log
        (.sent s.ninst (allocId s.M s.nextId)) (by intro _ _ _ _ e; injection e)
      have b2 := b.log (.sent s.ninst (allocId s.M s.nextId)) (by intro i; rfl)
      have c2 := c'.log (.sent s.ninst (allocId s.M s.nextId)) (by intro _ _ _ _ e; injection e)
      have d2 := d.log (.sent s.ninst (allocId s.M s.nextId)) (by intro _ _ e; injection e) (by intro _ _ _ e; injection e)
      cases ha : s.armed with
      | true => exact ⟨a, b2, c2, d2, f⟩
      | false =>
        exact ⟨a, b2.log _ (by intro i; rfl), c2.log _ (by intro _ _ _ _ e; injection e),
          d2.log _ (by intro _ _ e; injection e) (by intro _ _ _ e; injection e),
          f.log _ (by intro _ _ _ _ e; injection e)⟩
    | false =>
      rw [issue_req_fail s c hf]
      have b := ((h.b.log (.issued s.ninst (allocId s.M s.nextId) s.now) (by intro i; rfl)).log
        (.done s.ninst (allocId s.M s.nextId)) (by intro i; rfl))
      have c' := ((h.c.log (.issued s.ninst (allocId s.M s.nextId) s.now) (by intro _ _ _ _ e; injection e)).log
        (.done s.ninst (allocId s.M s.nextId)) (by intro _ _ _ _ e; injection e))
      have d := h.d.serFail h.b.instLt (allocId s.M s.nextId) s.now
      have f := (h.f.log (.issued s.ninst (allocId s.M s.nextId) s.now) (by intro _ _ _ _ e; injection e)).log
        (.done s.ninst (allocId s.M s.nextId)) (by intro _ _ _ _ e; injection e)
      cases c with
      | false => exact ⟨h.a, b.skip, c', d, f⟩
      | true =>
        exact ⟨h.a, b.cbFreshInst _ _ _, c'.cb _ _ _ _ ⟨s.now, by simp, by intro e; cases e⟩,
          d.log _ (by intro _ _ e; injection e) (by intro _ _ _ e; injection e),
          f.cb _ _ _ _ (List.mem_cons_self ..)⟩

theorem noroute_WF {s : State} (h : WF s) (r c : Bool) : WF (noroute s r c) := by
  cases hrc : (r && c) with
  | false => rw [noroute_nocb s r c hrc]; exact ⟨h.a, h.b.skip, h.c, h.d.skip, h.f⟩
  | true =>
    simp only [Bool.and_eq_true] at hrc
    obtain ⟨rfl, rfl⟩ := hrc
    rw [noroute_cb]
    have b := ((h.b.log (.issued s.ninst 0 s.now) (by intro i; rfl)).log (.done s.ninst 0) (by intro i; rfl))
    have c' := ((h.c.log (.issued s.ninst 0 s.now) (by intro _ _ _ _ e; injection e)).log
      (.done s.ninst 0) (by intro _ _ _ _ e; injection e))
    have d := h.d.serFail h.b.instLt 0 s.now
    have f := (h.f.log (.issued s.ninst 0 s.now) (by intro _ _ _ _ e; injection e)).log
      (.done s.ninst 0) (by intro _ _ _ _ e; injection e)
    exact ⟨h.a, b.cbFreshInst _ _ _, c'.cb _ _ _ _ ⟨s.now, by simp, by intro e; cases e⟩,
      d.log _ (by intro _ _ e; injection e) (by intro _ _ _ e; injection e),
      f.cb _ _ _ _ (List.mem_cons_self ..)⟩

theorem noroute_collided (s : State) (r c : Bool) : (noroute s r c).collided = s.collided := by
  unfold noroute; split <;> rfl

theorem noroute_pending (s : State) (r c : Bool) : (noroute s r c).pending = s.pending := by
  unfold noroute; split <;> rfl

theorem noroute_base (s : State) (r c : Bool) : (noroute s r c).base = s.base := by
  unfold noroute; split <;> rfl

theorem noroute_log_mono {s : State} (r c : Bool) {e : Ev} (h : e ∈ s.log) : e ∈ (noroute s r c).log := by
  unfold noroute; split
  · exact List.mem_cons_of_mem _ (List.mem_cons_of_mem _ (List.mem_cons_of_mem _ h))
  · exact h

theorem response_busy {s : State} (h : free s = false) (id : Nat) (p : Payload) : response s id p = s := by
  simp [response, h]

theorem response_miss {s : State} (h : free s = true) {id : Nat} (hf : find id s.pending = none) (p : Payload) :
    response s id p = { s with log := .dropped id :: s.log } := by
  simp [response, h, hf]

theorem response_cb {s : State} (h : free s = true) {id : Nat} {w : Wait} (hf : find id s.pending = some w)
    (hc : w.hasCb = true) (p : Payload) :
    response s id p =
      { s with pending := del id s.pending, base := .inResp w.inst, nest := s.nest,
               log := .cb w.inst id (decode p) s.now :: .done w.inst id :: s.log } := by
  simp [response, h, hf, hc, finish_eq hf]

theorem response_nocb {s : State} (h : free s = true) {id : Nat} {w : Wait} (hf : find id s.pending = some w)
    (hc : w.hasCb = false) (p : Payload) : response s id p = finish s id := by
  simp [response, h, hf, hc]

theorem response_WF {s : State} (h : WF s) (id : Nat) (p : Payload) : WF (response s id p) := by
  cases hfree : free s with
  | false => rw [response_busy hfree]; exact h
  | true =>
    obtain ⟨hn, hb⟩ := free_iff.1 hfree
    have h0 := h.idle hb
    cases hf : find id s.pending with
    | none =>
      rw [response_miss hfree hf]
      exact WF.of_idle hb ⟨h0.a, h0.b.log _ (by intro i; rfl), h0.c.log _ (by intro _ _ _ _ e; injection e),
        h0.d.log _ (by intro _ _ e; injection e) (by intro _ _ _ e; injection e),
        h0.f.log _ (by intro _ _ _ _ e; injection e)⟩
    | some w =>
      cases hcb : w.hasCb with
      | true =>
        rw [response_cb hfree hf hcb]
        exact h0.complete hf (by simp) _ _ _ _ (fun e => absurd e (decode_ne_timeout p))
      | false =>
        rw [response_nocb hfree hf hcb]
        exact WF.of_idle (by rw [finish_base]; exact hb) (h0.finish hf (by simp))

theorem tick_WF {s : State} (h : WF s) (order : List Nat) (hc : (tick s order).collided = false) :
    WF (tick s order) := by
  unfold tick at hc ⊢
  by_cases hg : (!free s || !s.armed) = true
  · simpa [hg] using h
  · simp only [hg, Bool.false_eq_true, ↓reduceIte] at hc ⊢
    simp only [Bool.or_eq_true, Bool.not_eq_eq_eq_not, Bool.not_true, not_or, Bool.not_eq_false] at hg
    obtain ⟨hn, hb⟩ := free_iff.1 hg.1
    have h0 := h.idle hb
    by_cases he : s.pending.isEmpty = true
    · simp only [he, ↓reduceIte]
      have hp : s.pending = [] := List.isEmpty_iff.1 he
      refine WF.of_idle hb ⟨?_, h0.b.log _ (by intro i; rfl), h0.c.log _ (by intro _ _ _ _ e; injection e),
        h0.d.log _ (by intro _ _ e; injection e) (by intro _ _ _ e; injection e),
        h0.f.log _ (by intro _ _ _ _ e; injection e)⟩
      exact ⟨h0.a.nodup, fun hne => absurd hp hne, h0.a.restKeys, h0.a.restNodup⟩
    · simp only [he, Bool.false_eq_true, ↓reduceIte] at hc ⊢
      have hperm := pickOrder_perm order (dueIds s.now s.pending)
      apply tickLoop_WF _ _ _ hc
      refine ⟨h0.a.setRest ?_ ?_, h0.b, h0.c.setRest h0.a.nodup _ ?_, h0.d, h0.f⟩
      · intro r hr
        obtain ⟨w, hw, _⟩ := mem_dueIds.1 (hperm.mem_iff.1 hr)
        exact mem_keys.2 ⟨w, hw⟩
      · exact hperm.nodup_iff.2 (nodup_dueIds h0.a.nodup)
      · intro r hr; exact hperm.mem_iff.1 hr

theorem ret_WF {s : State} (h : WF s) (hc : (ret s).collided = false) : WF (ret s) := by
  unfold ret at hc ⊢
  by_cases hn : s.nest > 0
  · simp only [hn, ↓reduceIte]; exact ⟨h.a, h.b, h.c, h.d, h.f⟩
  · simp only [hn, ↓reduceIte] at hc ⊢
    cases hb : s.base with
    | idle => exact h
    | inResp i =>
      have h1 := h.toNil
      exact WF.of_idle rfl ⟨h1.a, h1.b, h1.c, h1.d, h1.f⟩
    | inTick i rest =>
      simp only [hb] at hc ⊢
      have h1 : WFx s rest := by unfold WF restOf at h; rw [hb] at h; exact h
      exact tickLoop_WF _ _ h1 hc

theorem panicScan_WF {s : State} (h : WF s) : WF (panicScan s) := by
  unfold panicScan
  cases hb : s.base with
  | idle => exact h
  | inResp i => exact h
  | inTick i rest =>
    have h1 := h.toNil
    exact WF.of_idle rfl ⟨h1.a, h1.b, h1.c, h1.d, h1.f⟩

theorem step_WF {s : State} (h : WF s) (op : Op) (hc : (step s op).collided = false) : WF (step s op) := by
  cases op with
  | issue r o c => exact issue_WF h r o c hc
  | noroute r c => exact noroute_WF h r c
  | response id p => exact response_WF h id p
  | tick order => exact tick_WF h order hc
  | ret => exact ret_WF h hc
  | panic => exact panicScan_WF h
  | advance dt => exact ⟨h.a, h.b, h.c.now _ (Nat.le_add_right ..), h.d, h.f⟩


/-! ### reachability -/

theorem init_WF (M n0 : Nat) : WF (init M n0) := by
  refine WF.of_idle rfl ⟨?_, ?_, ?_, ?_, ?_⟩
  · refine ⟨List.nodup_nil, fun h => absurd rfl h, ?_, List.nodup_nil⟩
    intro _ h; cases h
  · refine ⟨?_, ?_, ?_, ?_, ?_⟩
    · intro _ _ h; cases h
    · intro _ _ _ _ h; cases h
    · intro _ _; rfl
    · intro _; exact Nat.zero_le _
    · intro _ _ h; cases h
  · refine ⟨?_, ?_, ?_⟩
    · intro _ _ h; cases h
    · intro _ _ _ _ h; cases h
    · intro _ h; cases h
  · refine ⟨?_, ?_, ?_⟩
    · intro _ _ h; cases h
    · intro _ _ _ h; cases h
    · intro _ _
      constructor
      · intro _ h; cases h
      · intro _ _ h; cases h
  · constructor
    intro _ _ _ _ h; cases h

theorem tickLoop_collided : ∀ (rest : List Nat) (s : State), s.collided = true → (tickLoop s rest).collided = true := by
  intro rest
  induction rest with
  | nil => intro s h; exact h
  | cons id rest ih =>
    intro s h
    cases hf : find id s.pending with
    | none => rw [tickLoop_cons_none hf]
    | some w =>
      cases hcb : w.hasCb with
      | true => rw [tickLoop_cons_cb hf hcb]; exact h
      | false => rw [tickLoop_cons_nocb hf hcb]; exact ih _ (by rw [finish_collided]; exact h)

theorem panicScan_collided (s : State) : (panicScan s).collided = s.collided := by
  unfold panicScan; split <;> rfl

theorem step_collided {s : State} (op : Op) (h : s.collided = true) : (step s op).collided = true := by
  cases op with
  | issue r o c =>
    cases r with
    | false => simp only [step]; rw [issue_notify]; cases o <;> exact h
    | true => simp only [step]; rw [issue_req_collided, h]; rfl
  | noroute r c => simp only [step]; rw [noroute_collided]; exact h
  | response id p =>
    simp only [step]
    cases hfree : free s with
    | false => rw [response_busy hfree]; exact h
    | true =>
      cases hf : find id s.pending with
      | none => rw [response_miss hfree hf]; exact h
      | some w =>
        cases hcb : w.hasCb with
        | true => rw [response_cb hfree hf hcb]; exact h
        | false => rw [response_nocb hfree hf hcb, finish_collided]; exact h
  | tick order =>
    simp only [step, tick]
    split
    · exact h
    · split
      · exact h
      · exact tickLoop_collided _ _ h
  | ret =>
    simp only [step, ret]
    split
    · exact h
    · split
      · exact h
      · exact h
      · exact tickLoop_collided _ _ h
  | panic => simp only [step]; rw [panicScan_collided]; exact h
  | advance dt => exact h

theorem run_collided : ∀ (ops : List Op) (s : State), s.collided = true → (run s ops).collided = true := by
  intro ops
  induction ops with
  | nil => intro s h; exact h
  | cons op ops ih => intro s h; exact ih _ (step_collided op h)

theorem run_cons (s : State) (op : Op) (ops : List Op) : run s (op :: ops) = run (step s op) ops := rfl

theorem run_append (s : State) (a b : List Op) : run s (a ++ b) = run (run s a) b := by
  simp [run, List.foldl_append]

theorem not_collided_of_run {s : State} {ops : List Op} (h : (run s ops).collided = false) : s.collided = false := by
  cases hc : s.collided with
  | false => rfl
  | true => rw [run_collided ops s hc] at h; cases h

theorem run_WF : ∀ (ops : List Op) (s : State), WF s → (run s ops).collided = false → WF (run s ops) := by
  intro ops
  induction ops with
  | nil => intro s h _; exact h
  | cons op ops ih =>
    intro s h hc
    rw [run_cons] at hc ⊢
    exact ih _ (step_WF h op (not_collided_of_run hc)) hc

/-- states reachable from the initial one without an id collision -/
def Reach (s : State) : Prop := ∃ M n0 ops, s = run (init M n0) ops ∧ s.collided = false

theorem Reach.wf {s : State} (h : Reach s) : WF s := by
  obtain ⟨M, n0, ops, rfl, hc⟩ := h
  exact run_WF ops _ (init_WF M n0) hc


/-! ### what a transition adds to the log -/

theorem finish_mem {s : State} {id : Nat} {e : Ev} (h : e ∈ (finish s id).log) :
    e ∈ s.log ∨ ∃ i, e = .done i id := by
  unfold finish at h
  split at h
  · simp only [List.mem_cons] at h
    rcases h with h | h
    · exact Or.inr ⟨_, h⟩
    · exact Or.inl h
  · exact Or.inl h

theorem finish_log_mono {s : State} {id : Nat} {e : Ev} (h : e ∈ s.log) : e ∈ (finish s id).log := by
  unfold finish
  split
  · exact List.mem_cons_of_mem _ h
  · exact h

theorem tickLoop_mem : ∀ (rest : List Nat) (s : State) (e : Ev), e ∈ (tickLoop s rest).log →
    e ∈ s.log ∨ (∃ i id, e = .done i id) ∨ (∃ i id, e = .cb i id .timeout s.now) := by
  intro rest
  induction rest with
  | nil => intro s e h; exact Or.inl h
  | cons id rest ih =>
    intro s e h
    cases hf : find id s.pending with
    | none => rw [tickLoop_cons_none hf] at h; exact Or.inl h
    | some w =>
      cases hcb : w.hasCb with
      | true =>
        rw [tickLoop_cons_cb hf hcb] at h
        simp only [List.mem_cons] at h
        rcases h with h | h | h
        · exact Or.inr (Or.inr ⟨_, _, h⟩)
        · exact Or.inr (Or.inl ⟨_, _, h⟩)
        · exact Or.inl h
      | false =>
        rw [tickLoop_cons_nocb hf hcb] at h
        rcases ih _ e h with h | h | h
        · rcases finish_mem h with h | ⟨i, h⟩
          · exact Or.inl h
          · exact Or.inr (Or.inl ⟨_, _, h⟩)
        · exact Or.inr (Or.inl h)
        · have : (finish s id).now = s.now := by unfold finish; split <;> rfl
          rw [this] at h
          exact Or.inr (Or.inr h)

theorem tickLoop_log_mono : ∀ (rest : List Nat) (s : State) (e : Ev), e ∈ s.log → e ∈ (tickLoop s rest).log := by
  intro rest
  induction rest with
  | nil => intro s e h; exact h
  | cons id rest ih =>
    intro s e h
    cases hf : find id s.pending with
    | none => rw [tickLoop_cons_none hf]; exact h
    | some w =>
      cases hcb : w.hasCb with
      | true => rw [tickLoop_cons_cb hf hcb]; exact List.mem_cons_of_mem _ (List.mem_cons_of_mem _ h)
      | false => rw [tickLoop_cons_nocb hf hcb]; exact ih _ e (finish_log_mono h)

theorem step_log_mono {s : State} (op : Op) {e : Ev} (h : e ∈ s.log) : e ∈ (step s op).log := by
  cases op with
  | issue r o c =>
    simp only [step]
    unfold issue
    simp only
    repeat' split
    all_goals simp [h]
  | noroute r c => exact noroute_log_mono r c h
  | response id p =>
    simp only [step]
    cases hfree : free s with
    | false => rw [response_busy hfree]; exact h
    | true =>
      cases hf : find id s.pending with
      | none => rw [response_miss hfree hf]; exact List.mem_cons_of_mem _ h
      | some w =>
        cases hcb : w.hasCb with
        | true => rw [response_cb hfree hf hcb]; exact List.mem_cons_of_mem _ (List.mem_cons_of_mem _ h)
        | false => rw [response_nocb hfree hf hcb]; exact finish_log_mono h
  | tick order =>
    simp only [step, tick]
    split
    · exact h
    · split
      · exact List.mem_cons_of_mem _ h
      · exact tickLoop_log_mono _ _ _ h
  | ret =>
    simp only [step, ret]
    split
    · exact h
    · split
      · exact h
      · exact h
      · exact tickLoop_log_mono _ _ _ h
  | panic => simp only [step, panicScan]; split <;> exact h
  | advance dt => exact h

theorem run_log_mono : ∀ (ops : List Op) (s : State) (e : Ev), e ∈ s.log → e ∈ (run s ops).log := by
  intro ops
  induction ops with
  | nil => intro s e h; exact h
  | cons op ops ih => intro s e h; exact ih _ e (step_log_mono op h)

/-- every callback invocation a step adds is of one of three kinds; the reply kind
only comes from `handleResponse` finding the entry registered under the id the
response carries -/
theorem step_new_cb {s : State} {op : Op} {i id : Nat} {o : Outcome} {t : Nat}
    (hin : Ev.cb i id o t ∈ (step s op).log) (hnew : Ev.cb i id o t ∉ s.log) :
    (o = .timeout ∧ t = s.now ∧ (∃ order, op = .tick order) ∨ op = .ret ∧ o = .timeout ∧ t = s.now) ∨
    (o = .serErr ∧ i = s.ninst ∧ ∃ c, op = .issue true false c) ∨
    (∃ p w, op = .response id p ∧ o = decode p ∧ free s = true ∧ find id s.pending = some w ∧
            w.inst = i ∧ w.hasCb = true ∧ t = s.now) ∨
    (o = .noService ∧ i = s.ninst ∧ id = 0 ∧ t = s.now ∧ op = .noroute true true) := by
  cases op with
  | issue r ok c =>
    simp only [step] at hin
    cases r with
    | false =>
      rw [issue_notify] at hin
      cases ok <;> simp at hin <;> exact absurd hin hnew
    | true =>
      unfold issue at hin
      cases ok <;> cases c <;> cases ha : s.armed <;> simp [ha] at hin
      all_goals first
        | exact absurd hin hnew
        | (rcases hin with ⟨e1, _, e3, e4⟩ | hin
           · exact Or.inr (Or.inl ⟨e3, e1, _, rfl⟩)
           · exact absurd hin hnew)
  | noroute r c =>
    simp only [step] at hin
    cases hrc : (r && c) with
    | false => rw [noroute_nocb s r c hrc] at hin; exact absurd hin hnew
    | true =>
      simp only [Bool.and_eq_true] at hrc
      obtain ⟨rfl, rfl⟩ := hrc
      rw [noroute_cb] at hin
      simp only [List.mem_cons, reduceCtorEq, false_or] at hin
      rcases hin with hin | hin
      · injection hin with e1 e2 e3 e4
        exact Or.inr (Or.inr (Or.inr ⟨e3, e1, e2, e4, rfl⟩))
      · exact absurd hin hnew
  | response id' p =>
    simp only [step] at hin
    cases hfree : free s with
    | false => rw [response_busy hfree] at hin; exact absurd hin hnew
    | true =>
      cases hf : find id' s.pending with
      | none =>
        rw [response_miss hfree hf] at hin
        simp at hin; exact absurd hin hnew
      | some w =>
        cases hcb : w.hasCb with
        | true =>
          rw [response_cb hfree hf hcb] at hin
          simp only [List.mem_cons, reduceCtorEq, false_or] at hin
          rcases hin with hin | hin
          · injection hin with e1 e2 e3 e4
            subst e1 e2 e3 e4
            exact Or.inr (Or.inr (Or.inl ⟨p, w, rfl, rfl, rfl, hf, rfl, hcb, rfl⟩))
          · exact absurd hin hnew
        | false =>
          rw [response_nocb hfree hf hcb] at hin
          rcases finish_mem hin with h | ⟨_, h⟩
          · exact absurd h hnew
          · cases h
  | tick order =>
    simp only [step, tick] at hin
    split at hin
    · exact absurd hin hnew
    · split at hin
      · simp at hin; exact absurd hin hnew
      · rcases tickLoop_mem _ _ _ hin with h | ⟨_, _, h⟩ | ⟨_, _, h⟩
        · exact absurd h hnew
        · cases h
        · injection h with _ _ e3 e4
          exact Or.inl (Or.inl ⟨e3, e4, order, rfl⟩)
  | ret =>
    simp only [step, ret] at hin
    split at hin
    · exact absurd hin hnew
    · split at hin
      · exact absurd hin hnew
      · exact absurd hin hnew
      · rcases tickLoop_mem _ _ _ hin with h | ⟨_, _, h⟩ | ⟨_, _, h⟩
        · exact absurd h hnew
        · cases h
        · injection h with _ _ e3 e4
          exact Or.inl (Or.inr ⟨rfl, e3, e4⟩)
  | panic =>
    simp only [step, panicScan] at hin
    split at hin <;> exact absurd hin hnew
  | advance dt => exact absurd hin hnew



/-! ### group E: the id allocator walks a cycle of length `M` -/

/-- the id `j` allocations after `x` -/
def cyc (M x j : Nat) : Nat := (x - 1 + j) % M + 1

theorem cyc_zero {M x : Nat} (h1 : 1 ≤ x) (h2 : x ≤ M) : cyc M x 0 = x := by
  unfold cyc
  rw [Nat.add_zero, Nat.mod_eq_of_lt (by omega)]
  omega

theorem succ_mod_cases (M a : Nat) (hM : 1 ≤ M) :
    (a + 1) % M = if a % M + 1 = M then 0 else a % M + 1 := by
  have hr : a % M < M := Nat.mod_lt _ hM
  have hd := Nat.div_add_mod a M
  split
  · rename_i he
    have : a + 1 = M * (a / M + 1) := by rw [Nat.mul_add, Nat.mul_one]; omega
    rw [this, Nat.mul_mod_right]
  · rename_i hne
    have : a + 1 = M * (a / M) + (a % M + 1) := by omega
    rw [this, Nat.mul_add_mod, Nat.mod_eq_of_lt (by omega)]

theorem cyc_succ {M x j : Nat} (hM : 1 ≤ M) : allocId M (cyc M x j) = cyc M x (j + 1) := by
  unfold cyc allocId
  have hr : (x - 1 + j) % M < M := Nat.mod_lt _ hM
  have := succ_mod_cases M (x - 1 + j) hM
  rw [← Nat.add_assoc, this]
  split <;> split <;> omega

theorem cyc_ne {M x j : Nat} (h1 : 1 ≤ x) (h2 : x ≤ M) (hj : 0 < j) (hjM : j < M) : cyc M x j ≠ x := by
  unfold cyc
  intro h
  by_cases hlt : x - 1 + j < M
  · rw [Nat.mod_eq_of_lt hlt] at h; omega
  · rw [Nat.mod_eq_sub_mod (by omega), Nat.mod_eq_of_lt (by omega)] at h; omega

theorem allocId_range {M n : Nat} (hM : 1 ≤ M) : 1 ≤ allocId M n ∧ allocId M n ≤ M := by
  unfold allocId; split <;> omega

structure Qe (M nextId nalloc : Nat) (p : List (Nat × Wait)) : Prop where
  range : ∀ id w, (id, w) ∈ p → 1 ≤ id ∧ id ≤ M
  le : ∀ id w, (id, w) ∈ p → w.allocNo ≤ nalloc
  pos : ∀ id w, (id, w) ∈ p → cyc M id (nalloc - w.allocNo) = nextId

theorem Qe.sub {M nextId nalloc p p'} (h : Qe M nextId nalloc p) (hs : ∀ x, x ∈ p' → x ∈ p) : Qe M nextId nalloc p' :=
  ⟨fun id w hm => h.range id w (hs _ hm), fun id w hm => h.le id w (hs _ hm), fun id w hm => h.pos id w (hs _ hm)⟩

theorem Qe.alloc {M nextId nalloc p} (h : Qe M nextId nalloc p) (hM : 1 ≤ M) (d : Nat) (c : Bool) (n : Nat) :
    Qe M (allocId M nextId) (nalloc + 1) ((allocId M nextId, ⟨d, c, n, nalloc + 1⟩) :: p) := by
  have hr := @allocId_range M nextId hM
  constructor
  · intro id w hm
    simp only [List.mem_cons, Prod.mk.injEq] at hm
    rcases hm with ⟨rfl, _⟩ | hm
    · exact hr
    · exact h.range id w hm
  · intro id w hm
    simp only [List.mem_cons, Prod.mk.injEq] at hm
    rcases hm with ⟨_, rfl⟩ | hm
    · exact Nat.le_refl _
    · have := h.le id w hm; omega
  · intro id w hm
    simp only [List.mem_cons, Prod.mk.injEq] at hm
    rcases hm with ⟨rfl, rfl⟩ | hm
    · simp only [Nat.sub_self]
      exact cyc_zero hr.1 hr.2
    · have hle := h.le id w hm
      have : nalloc + 1 - w.allocNo = (nalloc - w.allocNo) + 1 := by omega
      rw [this, ← cyc_succ hM, h.pos id w hm]

/-- **the id guard holds by counting**: if every pending entry has seen fewer than
`M - 1` allocations since it was stored, the next allocated id is not pending -/
theorem Qe.fresh {M nextId nalloc p} (h : Qe M nextId nalloc p) (hM : 1 ≤ M)
    (hfew : ∀ id w, (id, w) ∈ p → nalloc - w.allocNo + 1 < M) : ∀ w, (allocId M nextId, w) ∉ p := by
  intro w hm
  have hr := h.range _ w hm
  have hp := h.pos _ w hm
  have hs := @cyc_succ M (allocId M nextId) (nalloc - w.allocNo) hM
  rw [hp] at hs
  exact cyc_ne hr.1 hr.2 (Nat.succ_pos _) (hfew _ w hm) hs.symm

/-! pending only shrinks, allocator state is untouched, except in `issue` of a request -/

theorem finish_sub (s : State) (id : Nat) : ∀ x, x ∈ (finish s id).pending → x ∈ s.pending := by
  intro x hx
  unfold finish at hx
  split at hx
  · exact (mem_del.1 hx).1
  · exact hx

theorem finish_alloc (s : State) (id : Nat) :
    (finish s id).M = s.M ∧ (finish s id).nextId = s.nextId ∧ (finish s id).nalloc = s.nalloc := by
  unfold finish; split <;> exact ⟨rfl, rfl, rfl⟩

theorem tickLoop_sub : ∀ (rest : List Nat) (s : State), (∀ x, x ∈ (tickLoop s rest).pending → x ∈ s.pending) ∧
    (tickLoop s rest).M = s.M ∧ (tickLoop s rest).nextId = s.nextId ∧ (tickLoop s rest).nalloc = s.nalloc := by
  intro rest
  induction rest with
  | nil => intro s; exact ⟨fun _ h => h, rfl, rfl, rfl⟩
  | cons id rest ih =>
    intro s
    cases hf : find id s.pending with
    | none => rw [tickLoop_cons_none hf]; exact ⟨fun _ h => h, rfl, rfl, rfl⟩
    | some w =>
      cases hcb : w.hasCb with
      | true => rw [tickLoop_cons_cb hf hcb]; exact ⟨fun _ h => (mem_del.1 h).1, rfl, rfl, rfl⟩
      | false =>
        rw [tickLoop_cons_nocb hf hcb]
        obtain ⟨a, b, c, d⟩ := ih (finish s id)
        obtain ⟨b', c', d'⟩ := finish_alloc s id
        exact ⟨fun x hx => finish_sub s id x (a x hx), b.trans b', c.trans c', d.trans d'⟩

def AllocInv (s : State) : Prop := Qe s.M s.nextId s.nalloc s.pending

theorem step_AllocInv {s : State} (hM : 1 ≤ s.M) (h : AllocInv s) (op : Op) :
    AllocInv (step s op) ∧ (step s op).M = s.M := by
  cases op with
  | issue r o c =>
    cases r with
    | false => simp only [step]; rw [issue_notify]; cases o <;> exact ⟨h, rfl⟩
    | true =>
      have hq := Qe.alloc h hM (s.now + reqTimeout) c s.ninst
      have hsub1 : ∀ x, x ∈ (allocId s.M s.nextId, newWait s c) :: del (allocId s.M s.nextId) s.pending →
          x ∈ (allocId s.M s.nextId, newWait s c) :: s.pending := by
        intro x hx
        simp only [List.mem_cons] at hx ⊢
        rcases hx with hx | hx
        · exact Or.inl hx
        · exact Or.inr (mem_del.1 hx).1
      simp only [step]
      unfold issue
      cases o <;> cases c <;> cases s.armed <;> refine ⟨?_, rfl⟩
      all_goals first
        | exact hq.sub hsub1
        | exact hq.sub (fun x hx => hsub1 x (mem_del.1 hx).1)
  | noroute r c => simp only [step]; unfold noroute; split <;> exact ⟨h, rfl⟩
  | response id p =>
    simp only [step]
    cases hfree : free s with
    | false => rw [response_busy hfree]; exact ⟨h, rfl⟩
    | true =>
      cases hf : find id s.pending with
      | none => rw [response_miss hfree hf]; exact ⟨h, rfl⟩
      | some w =>
        cases hcb : w.hasCb with
        | true => rw [response_cb hfree hf hcb]; exact ⟨Qe.sub h (fun _ hx => (mem_del.1 hx).1), rfl⟩
        | false =>
          rw [response_nocb hfree hf hcb]
          obtain ⟨a, b, c⟩ := finish_alloc s id
          unfold AllocInv; rw [a, b, c]
          exact ⟨Qe.sub h (finish_sub s id), rfl⟩
  | tick order =>
    simp only [step, tick]
    split
    · exact ⟨h, rfl⟩
    · split
      · exact ⟨h, rfl⟩
      · obtain ⟨a, b, c, d⟩ := tickLoop_sub (pickOrder order (dueIds s.now s.pending)) s
        unfold AllocInv; rw [b, c, d]
        exact ⟨Qe.sub h a, rfl⟩
  | ret =>
    simp only [step, ret]
    split
    · exact ⟨h, rfl⟩
    · split
      · exact ⟨h, rfl⟩
      · exact ⟨h, rfl⟩
      · rename_i i rest _
        obtain ⟨a, b, c, d⟩ := tickLoop_sub rest s
        unfold AllocInv; rw [b, c, d]
        exact ⟨Qe.sub h a, rfl⟩
  | panic => simp only [step, panicScan]; split <;> exact ⟨h, rfl⟩
  | advance dt => exact ⟨h, rfl⟩

theorem run_AllocInv : ∀ (ops : List Op) (s : State), 1 ≤ s.M → AllocInv s → AllocInv (run s ops) ∧ (run s ops).M = s.M := by
  intro ops
  induction ops with
  | nil => intro s _ h; exact ⟨h, rfl⟩
  | cons op ops ih =>
    intro s hM h
    obtain ⟨h1, h2⟩ := step_AllocInv hM h op
    obtain ⟨h3, h4⟩ := ih (step s op) (by rw [h2]; exact hM) h1
    exact ⟨h3, h4.trans h2⟩




/-! ### progress of the expiry scan -/

/-- the entry `(id, w)` has been dealt with by the scan -/
def Handled (s : State) (id : Nat) (w : Wait) : Prop :=
  (w.hasCb = true → ∃ t, Ev.cb w.inst id .timeout t ∈ s.log) ∧ Ev.done w.inst id ∈ s.log

/-- the scan in progress still has `(id, w)` on its list -/
def Sched (s : State) (id : Nat) (w : Wait) : Prop :=
  ∃ cur rest, s.base = .inTick cur rest ∧ id ∈ rest ∧ (id, w) ∈ s.pending

theorem Handled.mono {s s' : State} {id : Nat} {w : Wait} (h : Handled s id w)
    (hm : ∀ e, e ∈ s.log → e ∈ s'.log) : Handled s' id w :=
  ⟨fun hc => let ⟨t, ht⟩ := h.1 hc; ⟨t, hm _ ht⟩, hm _ h.2⟩

theorem finish_mem_ne {s : State} {id r : Nat} {w : Wait} (hm : (id, w) ∈ s.pending) (hne : id ≠ r) :
    (id, w) ∈ (finish s r).pending := by
  unfold finish
  split
  · exact mem_del.2 ⟨hm, hne⟩
  · exact hm

theorem finish_nodup {s : State} (r : Nat) (h : (keys s.pending).Nodup) : (keys (finish s r).pending).Nodup := by
  unfold finish
  split
  · exact nodup_del h
  · exact h

theorem tickLoop_progress : ∀ (rest : List Nat) (s : State) (id : Nat) (w : Wait),
    (keys s.pending).Nodup → id ∈ rest → (id, w) ∈ s.pending → (tickLoop s rest).collided = false →
    Handled (tickLoop s rest) id w ∨ Sched (tickLoop s rest) id w := by
  intro rest
  induction rest with
  | nil => intro s id w _ h; cases h
  | cons r rest ih =>
    intro s id w hn hin hm hc
    cases hf : find r s.pending with
    | none => rw [tickLoop_cons_none hf] at hc; simp at hc
    | some w' =>
      by_cases e : id = r
      · subst e
        have hw := find_some_of_mem hn hm
        rw [hf] at hw
        injection hw with hw; subst hw
        cases hcb : w'.hasCb with
        | true =>
          rw [tickLoop_cons_cb hf hcb]
          exact Or.inl ⟨fun _ => ⟨_, List.mem_cons_self ..⟩, List.mem_cons_of_mem _ (List.mem_cons_self ..)⟩
        | false =>
          rw [tickLoop_cons_nocb hf hcb]
          refine Or.inl ⟨fun h => ?_, ?_⟩
          · rw [hcb] at h; cases h
          apply tickLoop_log_mono
          rw [finish_eq hf]
          exact List.mem_cons_self ..
      · have hin' : id ∈ rest := by
          simp only [List.mem_cons] at hin
          rcases hin with h | h
          · exact absurd h e
          · exact h
        cases hcb : w'.hasCb with
        | true =>
          rw [tickLoop_cons_cb hf hcb]
          exact Or.inr ⟨w'.inst, rest, rfl, hin', mem_del.2 ⟨hm, e⟩⟩
        | false =>
          rw [tickLoop_cons_nocb hf hcb] at hc ⊢
          exact ih _ id w (finish_nodup r hn) hin' (finish_mem_ne hm e) hc

theorem step_progress {s : State} (hwf : WF s) {id : Nat} {w : Wait} (op : Op) (hnp : op ≠ .panic)
    (h : Handled s id w ∨ Sched s id w) (hc : (step s op).collided = false) :
    Handled (step s op) id w ∨ Sched (step s op) id w := by
  rcases h with h | ⟨cur, rest, hb, hin, hm⟩
  · exact Or.inl (h.mono (fun e he => step_log_mono op he))
  · have hnf : free s = false := by simp [free, hb]
    cases op with
    | issue r o c =>
      refine Or.inr ⟨cur, rest, ?_, hin, ?_⟩
      · simp only [step]; unfold issue; simp only; repeat' split
        all_goals exact hb
      · cases r with
        | false => simp only [step]; rw [issue_notify]; cases o <;> exact hm
        | true =>
          simp only [step] at hc ⊢
          rw [issue_req_collided] at hc
          simp only [Bool.or_eq_false_iff] at hc
          have hf := hasKey_false.1 hc.2
          cases o with
          | true => rw [issue_req_ok s c hf]; exact List.mem_cons_of_mem _ hm
          | false => rw [issue_req_fail s c hf]; exact hm
    | noroute r c =>
      refine Or.inr ⟨cur, rest, ?_, hin, ?_⟩
      · simp only [step]; rw [noroute_base]; exact hb
      · simp only [step]; rw [noroute_pending]; exact hm
    | response id' p => simp only [step]; rw [response_busy hnf]; exact Or.inr ⟨cur, rest, hb, hin, hm⟩
    | tick order =>
      have : tick s order = s := by simp [tick, hnf]
      simp only [step]; rw [this]; exact Or.inr ⟨cur, rest, hb, hin, hm⟩
    | advance dt => exact Or.inr ⟨cur, rest, hb, hin, hm⟩
    | panic => exact absurd rfl hnp
    | ret =>
      simp only [step] at hc ⊢
      unfold ret at hc ⊢
      by_cases hn : s.nest > 0
      · simp only [hn, ↓reduceIte]; exact Or.inr ⟨cur, rest, hb, hin, hm⟩
      · simp only [hn, ↓reduceIte, hb] at hc ⊢
        exact tickLoop_progress rest _ id w hwf.a.nodup hin hm hc

theorem run_progress : ∀ (ops : List Op) (s : State) (id : Nat) (w : Wait), WF s → (∀ op, op ∈ ops → op ≠ .panic) →
    (Handled s id w ∨ Sched s id w) → (run s ops).collided = false →
    Handled (run s ops) id w ∨ Sched (run s ops) id w := by
  intro ops
  induction ops with
  | nil => intro s id w _ _ h _; exact h
  | cons op ops ih =>
    intro s id w hwf hnp h hc
    rw [run_cons] at hc ⊢
    have hc1 := not_collided_of_run hc
    exact ih _ id w (step_WF hwf op hc1) (fun o ho => hnp o (List.mem_cons_of_mem _ ho))
      (step_progress hwf op (hnp op (List.mem_cons_self ..)) h hc1) hc

theorem tick_progress {s : State} (hwf : WF s) (hfree : free s = true) (harm : s.armed = true) {id : Nat} {w : Wait}
    (hm : (id, w) ∈ s.pending) (hdue : w.deadline < s.now) (order : List Nat)
    (hc : (tick s order).collided = false) :
    Handled (tick s order) id w ∨ Sched (tick s order) id w := by
  obtain ⟨_, hb⟩ := free_iff.1 hfree
  have h0 := hwf.idle hb
  have hne : s.pending.isEmpty = false := by
    cases hp : s.pending with
    | nil => rw [hp] at hm; cases hm
    | cons _ _ => rfl
  have : tick s order = tickLoop s (pickOrder order (dueIds s.now s.pending)) := by
    simp [tick, hfree, harm, hne]
  rw [this] at hc ⊢
  apply tickLoop_progress _ _ id w h0.a.nodup _ hm hc
  exact (pickOrder_perm _ _).mem_iff.2 (mem_dueIds.2 ⟨w, hm, hdue⟩)

/-- a scan that finds something due removes at least one entry, whatever its callback does afterwards -/
theorem length_del_lt {id : Nat} {p : List (Nat × Wait)} {w : Wait} (hm : (id, w) ∈ p) : (del id p).length < p.length := by
  unfold del
  induction p with
  | nil => cases hm
  | cons a t ih =>
    simp only [List.mem_cons] at hm
    simp only [List.filter_cons]
    rcases hm with hm | hm
    · subst hm
      simp only [bne_self_eq_false, Bool.false_eq_true, ↓reduceIte, List.length_cons]
      exact Nat.lt_succ_of_le (List.length_filter_le _ _)
    · split
      · simp only [List.length_cons]; exact Nat.succ_lt_succ (ih hm)
      · simp only [List.length_cons]; exact Nat.lt_succ_of_lt (ih hm)

theorem tickLoop_length_le : ∀ (rest : List Nat) (s : State), (tickLoop s rest).pending.length ≤ s.pending.length := by
  intro rest
  induction rest with
  | nil => intro s; exact Nat.le_refl _
  | cons id rest ih =>
    intro s
    cases hf : find id s.pending with
    | none => rw [tickLoop_cons_none hf]; exact Nat.le_refl _
    | some w =>
      cases hcb : w.hasCb with
      | true => rw [tickLoop_cons_cb hf hcb]; exact Nat.le_of_lt (length_del_lt (find_some_mem hf))
      | false =>
        rw [tickLoop_cons_nocb hf hcb]
        refine Nat.le_trans (ih _) ?_
        rw [finish_eq hf]; exact Nat.le_of_lt (length_del_lt (find_some_mem hf))

theorem tickLoop_cons_length_lt {s : State} {id : Nat} {rest : List Nat} {w : Wait} (hf : find id s.pending = some w) :
    (tickLoop s (id :: rest)).pending.length < s.pending.length := by
  have hlt := length_del_lt (find_some_mem hf)
  cases hcb : w.hasCb with
  | true => rw [tickLoop_cons_cb hf hcb]; exact hlt
  | false =>
    rw [tickLoop_cons_nocb hf hcb]
    refine Nat.lt_of_le_of_lt (tickLoop_length_le _ _) ?_
    rw [finish_eq hf]; exact hlt

/-! ### the id guard, stated op by op, implies the `collided` flag stays down -/

def guardOkB (s : State) : Op → Bool
  | .issue true _ _ => !hasKey (allocId s.M s.nextId) s.pending
  | _ => true

def guardedB : State → List Op → Bool
  | _, [] => true
  | s, op :: ops => guardOkB s op && guardedB (step s op) ops

/-- the id about to be allocated (if `op` issues a request) is not currently pending -/
def GuardOk (s : State) (op : Op) : Prop := guardOkB s op = true

/-- `GuardOk` holds at every op of the list, each in the state it is applied to -/
def Guarded (s : State) (ops : List Op) : Prop := guardedB s ops = true

instance (s : State) (op : Op) : Decidable (GuardOk s op) := by unfold GuardOk; infer_instance
instance (s : State) (ops : List Op) : Decidable (Guarded s ops) := by unfold Guarded; infer_instance

theorem tickLoop_no_collide : ∀ (rest : List Nat) (s : State), (∀ r, r ∈ rest → r ∈ keys s.pending) → rest.Nodup →
    s.collided = false → (tickLoop s rest).collided = false := by
  intro rest
  induction rest with
  | nil => intro s _ _ h; exact h
  | cons r rest ih =>
    intro s hk hn hc
    obtain ⟨w, hw⟩ := mem_keys.1 (hk r (List.mem_cons_self ..))
    cases hf : find r s.pending with
    | none => exact absurd hw (find_none_iff.1 hf w)
    | some w' =>
      cases hcb : w'.hasCb with
      | true => rw [tickLoop_cons_cb hf hcb]; exact hc
      | false =>
        rw [tickLoop_cons_nocb hf hcb]
        have hnd := List.nodup_cons.1 hn
        refine ih _ ?_ hnd.2 (by rw [finish_collided]; exact hc)
        intro r' hr'
        rw [finish_eq hf]
        exact mem_keys_del (hk r' (List.mem_cons_of_mem _ hr')) (by intro e; subst e; exact hnd.1 hr')

theorem step_no_collide {s : State} (hwf : WF s) (hc : s.collided = false) (op : Op) (hg : GuardOk s op) :
    (step s op).collided = false := by
  cases op with
  | issue r o c =>
    cases r with
    | false => simp only [step]; rw [issue_notify]; cases o <;> exact hc
    | true =>
      simp only [GuardOk, guardOkB, Bool.not_eq_eq_eq_not, Bool.not_true] at hg
      simp only [step]; rw [issue_req_collided, hc, hg]; rfl
  | noroute r c => simp only [step]; rw [noroute_collided]; exact hc
  | response id p =>
    simp only [step]
    cases hfree : free s with
    | false => rw [response_busy hfree]; exact hc
    | true =>
      cases hf : find id s.pending with
      | none => rw [response_miss hfree hf]; exact hc
      | some w =>
        cases hcb : w.hasCb with
        | true => rw [response_cb hfree hf hcb]; exact hc
        | false => rw [response_nocb hfree hf hcb, finish_collided]; exact hc
  | tick order =>
    simp only [step, tick]
    split
    · exact hc
    · split
      · exact hc
      · have hperm := pickOrder_perm order (dueIds s.now s.pending)
        apply tickLoop_no_collide _ _ _ _ hc
        · intro r hr
          obtain ⟨w, hw, _⟩ := mem_dueIds.1 (hperm.mem_iff.1 hr)
          exact mem_keys.2 ⟨w, hw⟩
        · exact hperm.nodup_iff.2 (nodup_dueIds hwf.a.nodup)
  | ret =>
    simp only [step, ret]
    split
    · exact hc
    · split
      · exact hc
      · exact hc
      · rename_i i rest hb
        have h1 : WFx s rest := by unfold WF restOf at hwf; rw [hb] at hwf; exact hwf
        exact tickLoop_no_collide _ _ h1.a.restKeys h1.a.restNodup hc
  | panic => simp only [step]; rw [panicScan_collided]; exact hc
  | advance dt => exact hc

theorem guarded_not_collided : ∀ (ops : List Op) (s : State), WF s → s.collided = false → Guarded s ops →
    (run s ops).collided = false := by
  intro ops
  induction ops with
  | nil => intro s _ h _; exact h
  | cons op ops ih =>
    intro s hwf hc hg
    simp only [Guarded, guardedB, Bool.and_eq_true] at hg
    have h1 := step_no_collide hwf hc op hg.1
    rw [run_cons]
    exact ih _ (step_WF hwf op h1) h1 hg.2

theorem cb_mem_count {log : List Ev} {i id : Nat} {o : Outcome} {t : Nat} (h : Ev.cb i id o t ∈ log) :
    1 ≤ cbCount log i := by
  unfold cbCount
  exact List.countP_pos_iff.2 ⟨_, h, by simp [isCbOf]⟩

end Cell2v.Service
