import Cell2v.Model.CloseFine
/-! Lemmas about the statement-level Close model: `FInv` is an inductive invariant. -/
namespace Cell2v.CloseFine

theorem finv_init : FInv {} := by
  simp [FInv]

theorem finv_step (s s' : St) (l : Lbl) (h : FInv s) (hf : fire s l = some s') : FInv s' := by
  obtain ⟨ph, waiting, returned, sc, cc, cs, cp, nc, nr, pin, sq, rc, rf⟩ := s
  cases l <;> cases ph <;> simp only [fire, FInv] at * <;> (repeat' split at hf) <;> simp_all <;>
    (try subst hf) <;> simp_all <;> (try omega) <;> (try grind)

theorem finv_run : ∀ (ls : List Lbl) (s s' : St), FInv s → runL s ls = some s' → FInv s' := by
  intro ls
  induction ls with
  | nil => intro s s' h hr; simp [runL] at hr; subst hr; exact h
  | cons l ls ih =>
    intro s s' h hr
    simp only [runL] at hr
    cases hf : fire s l with
    | none => simp [hf] at hr
    | some s1 => simp only [hf] at hr; exact ih s1 s' (finv_step s s1 l h hf) hr

/-- a call of Close() that has returned implies the whole body has run (by this caller or another) -/
def RInv (s : St) : Prop := FInv s ∧ (s.returned > 0 → s.removes = 1 ∧ s.connCloses = 1)

theorem rinv_step (s s' : St) (l : Lbl) (h : RInv s) (hf : fire s l = some s') : RInv s' := by
  refine ⟨finv_step s s' l h.1 hf, ?_⟩
  obtain ⟨h1, h2⟩ := h
  obtain ⟨ph, waiting, returned, sc, cc, cs, cp, nc, nr, pin, sq, rc, rf⟩ := s
  cases l <;> cases ph <;> simp only [fire, FInv] at * <;> (repeat' split at hf) <;> simp_all <;>
    (try subst hf) <;> simp_all <;> (try omega) <;> (try grind)

theorem rinv_run : ∀ (ls : List Lbl) (s s' : St), RInv s → runL s ls = some s' → RInv s' := by
  intro ls
  induction ls with
  | nil => intro s s' h hr; simp [runL] at hr; subst hr; exact h
  | cons l ls ih =>
    intro s s' h hr
    simp only [runL] at hr
    cases hf : fire s l with
    | none => simp [hf] at hr
    | some s1 => simp only [hf] at hr; exact ih s1 s' (rinv_step s s1 l h hf) hr

theorem rinv_init : RInv {} := by
  simp [RInv, FInv]

/-- once `chSend` is closed nothing is enqueued any more -/
theorem sendq_frozen (s s' : St) (l : Lbl) (hf : fire s l = some s') (hc : s.chSend = true) : s'.sendq = s.sendq ∧ s'.chSend = true := by
  obtain ⟨ph, waiting, returned, sc, cc, cs, cp, nc, nr, pin, sq, rc, rf⟩ := s
  cases l <;> simp only [fire] at * <;> (repeat' split at hf) <;> simp_all <;> (try subst hf) <;> simp_all

/-- every step of a caller strictly decreases `work`: no fairness needed, Close never spins -/
theorem work_decreases (s s' : St) (l : Lbl) (hl : l ∈ internal) (hf : fire s l = some s') : work s' < work s := by
  obtain ⟨ph, waiting, returned, sc, cc, cs, cp, nc, nr, pin, sq, rc, rf⟩ := s
  simp only [internal, List.mem_cons, List.mem_nil_iff, or_false] at hl
  rcases hl with rfl | rfl | rfl | rfl | rfl | rfl | rfl <;> cases ph <;> simp only [fire, work] at * <;>
    (repeat' split at hf) <;> simp_all <;> (try subst hf) <;> simp_all <;> (try omega)

/-- when no caller can move, nobody is inside Close and nobody waits for the mutex -/
theorem stuck_idle (s : St) (h : stuck s = true) : s.ph = .none ∧ s.waiting = 0 := by
  obtain ⟨ph, waiting, returned, sc, cc, cs, cp, nc, nr, pin, sq, rc, rf⟩ := s
  cases ph <;> simp [stuck, internal, fire] at * <;> (try omega) <;> (try (split at h <;> simp_all))

end Cell2v.CloseFine
