import Cell2v.Model.MailboxX
import Cell2v.Lemmas.MailboxDrain
import Cell2v.Lemmas.MailboxAF
/-! helper lemmas for C09 (4): the extended model `FineX` (throughput counter, panicking
handlers, the `MaxMsgNumToSmooth` branch) keeps every invariant of `Fine`. -/
namespace Cell2v.Mailbox
namespace FineX

theorem wrap_s (x : St) : (wrap x).s = x.s := by unfold wrap; split <;> rfl
theorem wrap_t (x : St) : (wrap x).t = x.t := by unfold wrap; split <;> rfl
theorem wrap_escU (x : St) : (wrap x).escU = x.escU := by unfold wrap; split <;> rfl
theorem wrap_escS (x : St) : (wrap x).escS = x.escS := by unfold wrap; split <;> rfl

theorem count_s (x : St) (l : Fine.Lbl) (x' : St) : (count x l x').s = x'.s := by
  cases l <;> simp only [count] <;> (try split) <;> simp [wrap_s]
theorem count_t (x : St) (l : Fine.Lbl) (x' : St) : (count x l x').t = x'.t := by
  cases l <;> simp only [count] <;> (try split) <;> simp [wrap_t]
theorem count_escU (x : St) (l : Fine.Lbl) (x' : St) : (count x l x').escU = x'.escU := by
  cases l <;> simp only [count] <;> (try split) <;> simp [wrap_escU]
theorem count_escS (x : St) (l : Fine.Lbl) (x' : St) : (count x l x').escS = x'.escS := by
  cases l <;> simp only [count] <;> (try split) <;> simp [wrap_escS]

/-- a base step of `FineX` is the same step of `Fine` on the wrapped state -/
theorem fire_base (x x' : St) (l : Fine.Lbl) (h : fire x (.base l) = some x') :
    Fine.fire x.s l = some x'.s ∧ x'.escU = x.escU ∧ x'.escS = x.escS ∧ x'.t = x.t := by
  simp only [fire] at h
  split at h
  · cases h
  · cases hf : Fine.fire x.s l with
    | none => simp [hf] at h
    | some s' =>
      simp only [hf, Option.some.injEq] at h
      subst h
      simp [count_s, count_escU, count_escS, count_t]

/-- ... and every step `Fine` can do, `FineX` can do (except starting a pause at >= 100000 queued) -/
theorem fire_base_of (x : St) (l : Fine.Lbl) (s' : Fine.St) (h : Fine.fire x.s l = some s')
    (hg : l ≠ .iterOver) : ∃ x', fire x (.base l) = some x' ∧ x'.s = s' := by
  refine ⟨count x l { x with s := s' }, ?_, by simp [count_s]⟩
  simp [fire, hg, h]

/-- `run()` returning early (here: after a recovered panic) keeps the invariants -/
theorem allinv_return (s : Fine.St) (h : Fine.AllInv s) (hc : Fine.absPc s.c = .run) :
    Fine.AllInv { s with c := .a1 } := by
  obtain ⟨hm, _, hd⟩ := h
  refine ⟨?_, ?_, ?_⟩
  · have : Abs.fire (Fine.abs s) .endRun = some (Fine.abs { s with c := .a1 }) := by
      simp only [Abs.fire, Fine.abs, hc]; simp [Fine.absPc]
    exact Abs.inv_step _ _ _ hm this
  · simp [Fine.FInv]
  · simpa [Fine.DInv] using hd

theorem popU_cons (s s' : Fine.St) (id : Nat) (rest : List Nat) (hq : s.uq = id :: rest) (hf : Fine.fire s .popU = some s') :
    s' = { s with uq := rest, um := s.um - 1, dlvU := s.dlvU ++ [id], c := .iter } := by
  simp only [Fine.fire] at hf
  split at hf
  · simp only [hq, Option.some.injEq] at hf; exact hf.symm
  · cases hf

theorem popS_cons (s s' : Fine.St) (k : Fine.SK) (id : Nat) (rest : List (Fine.SK × Nat)) (hq : s.sq = (k, id) :: rest)
    (hf : Fine.fire s .popS = some s') : s'.c = .iter ∧ s'.dlvS = s.dlvS ++ [(k, id)] ∧ s'.dlvU = s.dlvU := by
  simp only [Fine.fire] at hf
  split at hf
  · simp only [hq, Option.some.injEq] at hf; subst hf; simp
  · cases hf

/-- **every step of the extended model keeps the invariants of the wake-up protocol and of delivery** -/
theorem allinv_step (x x' : St) (l : Lbl) (h : Fine.AllInv x.s) (hf : fire x l = some x') : Fine.AllInv x'.s := by
  cases l with
  | base l => exact Fine.allinv_step _ _ l h (fire_base x x' l hf).1
  | iterGosched =>
    simp only [fire] at hf
    split at hf
    · cases h1 : Fine.fire x.s .iterOk with
      | none => simp [h1] at hf
      | some s' =>
        simp only [h1, Option.some.injEq] at hf; subst hf
        exact Fine.allinv_step _ _ _ h h1
    · cases hf
  | popUPanic =>
    simp only [fire] at hf
    cases hq : x.s.uq with
    | nil => simp [hq] at hf
    | cons id rest =>
      simp only [hq] at hf
      cases h1 : Fine.fire x.s .popU with
      | none => simp [h1] at hf
      | some s' =>
        simp only [h1, Option.some.injEq] at hf; subst hf
        have hs' := popU_cons _ _ id rest hq h1
        have := Fine.allinv_step _ _ _ h h1
        exact allinv_return s' this (by rw [hs']; rfl)
  | popSPanic =>
    simp only [fire] at hf
    cases hq : x.s.sq with
    | nil => simp [hq] at hf
    | cons a rest =>
      obtain ⟨k, id⟩ := a
      cases k with
      | normal =>
        simp only [hq] at hf
        cases h1 : Fine.fire x.s .popS with
        | none => simp [h1] at hf
        | some s' =>
          simp only [h1, Option.some.injEq] at hf; subst hf
          have hs' := popS_cons _ _ .normal id rest hq h1
          have := Fine.allinv_step _ _ _ h h1
          exact allinv_return s' this (by rw [hs'.1]; rfl)
      | suspend => simp [hq] at hf
      | resume => simp [hq] at hf

theorem allinv_run (ls : List Lbl) : ∀ (x x' : St), Fine.AllInv x.s → runL x ls = some x' → Fine.AllInv x'.s := by
  induction ls with
  | nil => intro x x' h hr; simp [runL] at hr; subst hr; exact h
  | cons l ls ih =>
    intro x x' h hr
    simp only [runL] at hr
    cases hf : fire x l with
    | none => simp [hf] at hr
    | some x1 => simp only [hf] at hr; exact ih x1 x' (allinv_step x x1 l h hf) hr

theorem runL_append (a b : List Lbl) : ∀ (s s1 s2 : St), runL s a = some s1 → runL s1 b = some s2 → runL s (a ++ b) = some s2 := by
  induction a with
  | nil => intro s s1 s2 h1 h2; simp [runL] at h1; subst h1; simpa using h2
  | cons l a ih =>
    intro s s1 s2 h1 h2
    simp only [runL, List.cons_append] at *
    cases hf : fire s l with
    | none => simp [hf] at h1
    | some s' => simp only [hf] at h1 ⊢; exact ih s' s1 s2 h1 h2

/-- the drain scheduler never declares the frame budget exhausted -/
theorem next_ne_iterOver (s : Fine.St) (l : Fine.Lbl) (h : Fine.next s = some l) : l ≠ .iterOver := by
  intro hl; subst hl
  unfold Fine.next at h
  repeat' split at h
  all_goals simp at h

/-- `Fine.drain` lifted: the threads that exist can always finish, in the extended model too (the drain schedule
uses base steps only: no panic, no exhausted budget) -/
theorem drain (n : Nat) : ∀ x : St, Fine.Phi x.s ≤ n → Fine.AllInv x.s →
    ∃ (ls : List Fine.Lbl) (x' : St), (∀ l ∈ ls, Fine.isInternal l = true) ∧ runL x (ls.map .base) = some x' ∧ Fine.AllInv x'.s ∧
      Abs.Quiescent (Fine.abs x'.s) ∧ x'.s.pushedU = x.s.pushedU ∧ x'.s.pushedS = x.s.pushedS := by
  induction n with
  | zero =>
    intro x hp hi
    cases hn : Fine.next x.s with
    | none => exact ⟨[], x, by simp, rfl, hi, Fine.next_none_quiescent x.s hn, rfl, rfl⟩
    | some l =>
      obtain ⟨s', _, hlt, _⟩ := Fine.step_decreases x.s l hi.1.1.1 hi.1.1.2 hn
      omega
  | succ n ih =>
    intro x hp hi
    cases hn : Fine.next x.s with
    | none => exact ⟨[], x, by simp, rfl, hi, Fine.next_none_quiescent x.s hn, rfl, rfl⟩
    | some l =>
      obtain ⟨s', hf, hlt, hint⟩ := Fine.step_decreases x.s l hi.1.1.1 hi.1.1.2 hn
      obtain ⟨x1, hx1, hs1⟩ := fire_base_of x l s' hf (next_ne_iterOver x.s l hn)
      subst hs1
      obtain ⟨ls, x2, h1, h2, h3, h4, h5, h6⟩ := ih x1 (by omega) (Fine.allinv_step x.s x1.s l hi hf)
      obtain ⟨p1, p2⟩ := Fine.internal_keeps_pushed x.s x1.s l hf hint
      refine ⟨l :: ls, x2, ?_, ?_, h3, h4, h5.trans p1, h6.trans p2⟩
      · intro y hy
        simp only [List.mem_cons] at hy
        rcases hy with hy | hy
        · rw [hy]; exact hint
        · exact h1 y hy
      · simp [runL, hx1, h2]

/-- what was handed over only grows -/
theorem dlv_mono (s s' : Fine.St) (l : Fine.Lbl) (hf : Fine.fire s l = some s') :
    (∃ a, s'.dlvU = s.dlvU ++ a) ∧ (∃ b, s'.dlvS = s.dlvS ++ b) := by
  obtain ⟨uq, sq, um, sm, run, paused, susp, hs, nUp, nSp, nL, nK, nD, dq, c, ls, lu, lp, pU, pS, dU, dS⟩ := s
  cases l <;> simp only [Fine.fire] at hf <;> (repeat' split at hf) <;> simp_all <;> (try subst hf) <;> simp_all

/-- escalated messages were handed to the service (they are in the delivery log) -/
def EInv (x : St) : Prop := (∀ id ∈ x.escU, id ∈ x.s.dlvU) ∧ (∀ m ∈ x.escS, m ∈ x.s.dlvS)

theorem einv_step (x x' : St) (l : Lbl) (h : EInv x) (hf : fire x l = some x') : EInv x' := by
  obtain ⟨hU, hS⟩ := h
  cases l with
  | base l =>
    obtain ⟨h1, h2, h3, _⟩ := fire_base x x' l hf
    obtain ⟨⟨a, ha⟩, ⟨b, hb⟩⟩ := dlv_mono _ _ l h1
    refine ⟨?_, ?_⟩
    · intro id hid; rw [h2] at hid; rw [ha]; exact List.mem_append_left _ (hU id hid)
    · intro m hm; rw [h3] at hm; rw [hb]; exact List.mem_append_left _ (hS m hm)
  | iterGosched =>
    simp only [fire] at hf
    split at hf
    · cases h1 : Fine.fire x.s .iterOk with
      | none => simp [h1] at hf
      | some s' =>
        simp only [h1, Option.some.injEq] at hf; subst hf
        obtain ⟨⟨a, ha⟩, ⟨b, hb⟩⟩ := dlv_mono _ _ _ h1
        refine ⟨?_, ?_⟩
        · intro id hid; simp only at hid ⊢; rw [ha]; exact List.mem_append_left _ (hU id hid)
        · intro m hm; simp only at hm ⊢; rw [hb]; exact List.mem_append_left _ (hS m hm)
    · cases hf
  | popUPanic =>
    simp only [fire] at hf
    cases hq : x.s.uq with
    | nil => simp [hq] at hf
    | cons id rest =>
      simp only [hq] at hf
      cases h1 : Fine.fire x.s .popU with
      | none => simp [h1] at hf
      | some s' =>
        simp only [h1, Option.some.injEq] at hf; subst hf
        have hs' := popU_cons _ _ id rest hq h1
        subst hs'
        refine ⟨?_, ?_⟩
        · intro j hj
          simp only [List.mem_append, List.mem_singleton] at hj ⊢
          rcases hj with hj | hj
          · exact Or.inl (hU j hj)
          · exact Or.inr hj
        · intro m hm; exact hS m hm
  | popSPanic =>
    simp only [fire] at hf
    cases hq : x.s.sq with
    | nil => simp [hq] at hf
    | cons a rest =>
      obtain ⟨k, id⟩ := a
      cases k with
      | normal =>
        simp only [hq] at hf
        cases h1 : Fine.fire x.s .popS with
        | none => simp [h1] at hf
        | some s' =>
          simp only [h1, Option.some.injEq] at hf; subst hf
          obtain ⟨_, hd, hu⟩ := popS_cons _ _ .normal id rest hq h1
          refine ⟨?_, ?_⟩
          · intro j hj; simp only at hj ⊢; rw [hu]; exact hU j hj
          · intro m hm
            simp only [List.mem_append, List.mem_singleton] at hm
            simp only [hd, List.mem_append, List.mem_singleton]
            rcases hm with hm | hm
            · exact Or.inl (hS m hm)
            · exact Or.inr hm
      | suspend => simp [hq] at hf
      | resume => simp [hq] at hf

theorem einv_run (ls : List Lbl) : ∀ (x x' : St), EInv x → runL x ls = some x' → EInv x' := by
  induction ls with
  | nil => intro x x' h hr; simp [runL] at hr; subst hr; exact h
  | cons l ls ih =>
    intro x x' h hr
    simp only [runL] at hr
    cases hf : fire x l with
    | none => simp [hf] at hr
    | some x1 => simp only [hf] at hr; exact ih x1 x' (einv_step x x1 l h hf) hr

/-- the loop counter, the throughput and the wrap count never influence anything else: the step relation on
(mailbox state, escalation logs) is the same whatever their values -/
theorem counter_inert (x : St) (i t w : Nat) (l : Lbl) :
    (fire { x with i := i, t := t, wraps := w } l).map (fun y => (y.s, y.escU, y.escS)) =
    (fire x l).map (fun y => (y.s, y.escU, y.escS)) := by
  cases l with
  | base l =>
    simp only [fire]
    split
    · simp
    · cases Fine.fire x.s l with
      | none => simp
      | some s' => simp [count_s, count_escU, count_escS]
  | iterGosched =>
    simp only [fire]
    split
    · cases Fine.fire x.s .iterOk <;> simp
    · simp
  | popUPanic =>
    simp only [fire]
    cases x.s.uq with
    | nil => simp
    | cons id rest => cases Fine.fire x.s .popU <;> simp
  | popSPanic =>
    simp only [fire]
    cases x.s.sq with
    | nil => simp
    | cons a rest =>
      obtain ⟨k, id⟩ := a
      cases k <;> simp
      cases Fine.fire x.s .popS <;> simp

/-! ### system messages first, along a whole schedule -/

theorem wrap_sysSeen (x : St) : (wrap x).sysSeen = x.sysSeen := by unfold wrap; split <;> rfl

theorem count_sysSeen (x : St) (l : Fine.Lbl) (x' : St) :
    (count x l x').sysSeen = if l = .popS then x.s.pushedS.length else x'.sysSeen := by
  cases l
  case popS => simp only [count, if_true]; split <;> simp [wrap_sysSeen]
  case popU => simp only [count]; split <;> simp [wrap_sysSeen]
  all_goals simp [count]

/-- while the consumer is past an EMPTY system pop of the current iteration ("run.lsusp", "run.popu"), everything that
had been pushed to the system queue when it popped has been handed over -/
def SFInv (x : St) : Prop := (x.s.c = .lsusp ∨ x.s.c = .popu) → x.sysSeen ≤ x.s.dlvS.length

theorem popS_nil (s s' : Fine.St) (hq : s.sq = []) (hf : Fine.fire s .popS = some s') :
    s'.c = .lsusp ∧ s'.dlvS = s.dlvS := by
  simp only [Fine.fire] at hf
  split at hf
  · simp only [hq, Option.some.injEq] at hf; subst hf; exact ⟨rfl, rfl⟩
  · cases hf

theorem sfinv_step (x x' : St) (l : Lbl) (hd : Fine.DInv x.s) (h : SFInv x) (hf : fire x l = some x') : SFInv x' := by
  cases l with
  | base l =>
    have hb := (fire_base x x' l hf).1
    have hss : x'.sysSeen = if l = .popS then x.s.pushedS.length else x.sysSeen := by
      simp only [fire] at hf
      split at hf
      · cases hf
      · cases h1 : Fine.fire x.s l with
        | none => simp [h1] at hf
        | some s' =>
          simp only [h1, Option.some.injEq] at hf; subst hf
          rw [count_sysSeen]
    by_cases hl : l = .popS
    · subst hl
      simp only [if_true] at hss
      intro hc
      cases hq : x.s.sq with
      | nil =>
        have := (popS_nil _ _ hq hb).2
        rw [hss, this]
        have h2 := hd.2
        rw [hq] at h2
        simp only [List.append_nil] at h2
        simp [← h2]
      | cons a rest =>
        obtain ⟨k, id⟩ := a
        have := (popS_cons _ _ k id rest hq hb).1
        rw [this] at hc
        rcases hc with hc | hc <;> cases hc
    · simp only [hl, if_false] at hss
      intro hc
      have hpre : x.s.c = .lsusp ∨ x.s.c = .popu := by
        rcases hc with hc | hc
        · rcases Fine.enter_lsusp _ _ l hb hc with h1 | ⟨h1, _, _⟩
          · exact Or.inl h1
          · exact absurd h1 hl
        · rcases Fine.enter_popu _ _ l hb hc with h1 | ⟨_, h1, _⟩
          · exact Or.inr h1
          · exact Or.inl h1
      obtain ⟨_, ⟨b, hb2⟩⟩ := dlv_mono _ _ l hb
      have := h hpre
      rw [hss, hb2, List.length_append]
      omega
  | iterGosched =>
    simp only [fire] at hf
    split at hf
    · cases h1 : Fine.fire x.s .iterOk with
      | none => simp [h1] at hf
      | some s' =>
        simp only [h1, Option.some.injEq] at hf; subst hf
        intro hc
        simp only at hc
        have hpre : x.s.c = .lsusp ∨ x.s.c = .popu := by
          rcases hc with hc | hc
          · rcases Fine.enter_lsusp _ _ _ h1 hc with h2 | ⟨h2, _, _⟩
            · exact Or.inl h2
            · cases h2
          · rcases Fine.enter_popu _ _ _ h1 hc with h2 | ⟨h2, _, _⟩
            · exact Or.inr h2
            · cases h2
        obtain ⟨_, ⟨b, hb2⟩⟩ := dlv_mono _ _ _ h1
        have := h hpre
        simp only [hb2, List.length_append]
        omega
    · cases hf
  | popUPanic =>
    simp only [fire] at hf
    cases hq : x.s.uq with
    | nil => simp [hq] at hf
    | cons id rest =>
      simp only [hq] at hf
      cases h1 : Fine.fire x.s .popU with
      | none => simp [h1] at hf
      | some s' =>
        simp only [h1, Option.some.injEq] at hf; subst hf
        intro hc
        simp at hc
  | popSPanic =>
    simp only [fire] at hf
    cases hq : x.s.sq with
    | nil => simp [hq] at hf
    | cons a rest =>
      obtain ⟨k, id⟩ := a
      cases k with
      | normal =>
        simp only [hq] at hf
        cases h1 : Fine.fire x.s .popS with
        | none => simp [h1] at hf
        | some s' =>
          simp only [h1, Option.some.injEq] at hf; subst hf
          intro hc
          simp at hc
      | suspend => simp [hq] at hf
      | resume => simp [hq] at hf

theorem sfinv_run (ls : List Lbl) : ∀ (x x' : St), Fine.AllInv x.s → SFInv x → runL x ls = some x' → SFInv x' := by
  induction ls with
  | nil => intro x x' _ h hr; simp [runL] at hr; subst hr; exact h
  | cons l ls ih =>
    intro x x' hi h hr
    simp only [runL] at hr
    cases hf : fire x l with
    | none => simp [hf] at hr
    | some x1 => simp only [hf] at hr; exact ih x1 x' (allinv_step x x1 l hi hf) (sfinv_step x x1 l hi.2.2 h hf) hr

/-! ### every schedule of existing threads is bounded (no fairness needed) -/

/-- a step of an existing thread other than "the frame budget is exhausted below the 100000 bound" (which starts a
smoothing pause): posters finishing, the helper waking, every consumer step incl. panicking handlers and the Gosched branch -/
def isProgress : Lbl → Bool
  | .base l => Fine.isProgress l
  | _ => true

theorem dec_popUPanic (s : Fine.St) (id : Nat) (rest : List Nat) (hq : s.uq = id :: rest) :
    Fine.Phi { s with uq := rest, um := s.um - 1, dlvU := s.dlvU ++ [id], c := .a1 } < Fine.Phi s := by
  have h1 : Fine.R { s with uq := rest, um := s.um - 1, dlvU := s.dlvU ++ [id], c := .a1 }
      = Fine.Rr0 { s with uq := rest, um := s.um - 1, dlvU := s.dlvU ++ [id], c := .a1 } + 1 := rfl
  have h2 := Fine.Rr0_le { s with uq := rest, um := s.um - 1, dlvU := s.dlvU ++ [id], c := .a1 }
  unfold Fine.Phi; simp only [hq, List.length_cons]; omega

theorem dec_popSPanic (s s' : Fine.St) (k : Fine.SK) (id : Nat) (rest : List (Fine.SK × Nat)) (hq : s.sq = (k, id) :: rest)
    (hf : Fine.fire s .popS = some s') : Fine.Phi { s' with c := .a1 } < Fine.Phi s := by
  have hR := Fine.R_le_small { s' with c := .a1 } (by simp)
  have hfields : s'.sq = rest ∧ s'.uq = s.uq ∧ s'.nUp = s.nUp ∧ s'.nSp = s.nSp ∧ s'.nL = s.nL ∧ s'.nK = s.nK ∧ s'.nD = s.nD ∧
      s'.hs = s.hs ∧ s'.dq = s.dq := by
    simp only [Fine.fire] at hf
    split at hf
    · simp only [hq, Option.some.injEq] at hf; subst hf; simp
    · cases hf
  obtain ⟨f1, f2, f3, f4, f5, f6, f7, f8, f9⟩ := hfields
  unfold Fine.Phi
  generalize Fine.R { s' with c := .a1 } = r at hR ⊢
  simp only [f1, f2, f3, f4, f5, f6, f7, f8, f9, hq, List.length_cons]
  omega

theorem any_step_decreases (x x' : St) (l : Lbl) (hi : Fine.AllInv x.s) (hf : fire x l = some x') (hp : isProgress l = true) :
    Fine.Phi x'.s < Fine.Phi x.s ∧ x'.s.pushedU = x.s.pushedU ∧ x'.s.pushedS = x.s.pushedS := by
  cases l with
  | base l =>
    have hb := (fire_base x x' l hf).1
    obtain ⟨p1, p2⟩ := Fine.internal_keeps_pushed _ _ l hb (Fine.isProgress_internal l hp)
    exact ⟨Fine.any_step_decreases _ _ l hi hb hp, p1, p2⟩
  | iterGosched =>
    simp only [fire] at hf
    split at hf
    · cases h1 : Fine.fire x.s .iterOk with
      | none => simp [h1] at hf
      | some s' =>
        simp only [h1, Option.some.injEq] at hf; subst hf
        obtain ⟨p1, p2⟩ := Fine.internal_keeps_pushed _ _ _ h1 rfl
        exact ⟨Fine.any_step_decreases _ _ _ hi h1 rfl, p1, p2⟩
    · cases hf
  | popUPanic =>
    simp only [fire] at hf
    cases hq : x.s.uq with
    | nil => simp [hq] at hf
    | cons id rest =>
      simp only [hq] at hf
      cases h1 : Fine.fire x.s .popU with
      | none => simp [h1] at hf
      | some s' =>
        simp only [h1, Option.some.injEq] at hf; subst hf
        have hs' := popU_cons _ _ id rest hq h1
        subst hs'
        exact ⟨dec_popUPanic x.s id rest hq, rfl, rfl⟩
  | popSPanic =>
    simp only [fire] at hf
    cases hq : x.s.sq with
    | nil => simp [hq] at hf
    | cons a rest =>
      obtain ⟨k, id⟩ := a
      cases k with
      | normal =>
        simp only [hq] at hf
        cases h1 : Fine.fire x.s .popS with
        | none => simp [h1] at hf
        | some s' =>
          simp only [h1, Option.some.injEq] at hf; subst hf
          obtain ⟨p1, p2⟩ := Fine.internal_keeps_pushed _ _ _ h1 rfl
          exact ⟨dec_popSPanic _ _ .normal id rest hq h1, p1, p2⟩
      | suspend => simp [hq] at hf
      | resume => simp [hq] at hf

theorem progress_run_bounded (ls : List Lbl) : ∀ (x x' : St), Fine.AllInv x.s → (∀ l ∈ ls, isProgress l = true) →
    runL x ls = some x' →
    ls.length + Fine.Phi x'.s ≤ Fine.Phi x.s ∧ x'.s.pushedU = x.s.pushedU ∧ x'.s.pushedS = x.s.pushedS := by
  induction ls with
  | nil => intro x x' _ _ hr; simp [runL] at hr; subst hr; simp
  | cons l ls ih =>
    intro x x' hi hp hr
    simp only [runL] at hr
    cases hf : fire x l with
    | none => simp [hf] at hr
    | some x1 =>
      simp only [hf] at hr
      obtain ⟨h1, a1, a2⟩ := any_step_decreases x x1 l hi hf (hp l (by simp))
      obtain ⟨h2, b1, b2⟩ := ih x1 x' (allinv_step x x1 l hi hf) (fun y hy => hp y (by simp [hy])) hr
      simp only [List.length_cons]
      exact ⟨by omega, b1.trans a1, b2.trans a2⟩

/-- a state of the extended model in which no progress step is enabled is quiescent -/
theorem no_progress_step_quiescent (x : St) (hi : Fine.AllInv x.s)
    (h : ∀ l, isProgress l = true → fire x l = none) : Abs.Quiescent (Fine.abs x.s) := by
  apply Fine.no_progress_step_quiescent x.s hi
  intro l hl
  cases hf : Fine.fire x.s l with
  | none => rfl
  | some s' =>
    have hne : l ≠ .iterOver := by
      intro e; subst e; simp [Fine.isProgress] at hl
    obtain ⟨x', hx', _⟩ := fire_base_of x l s' hf hne
    rw [h (.base l) hl] at hx'
    cases hx'

end FineX
end Cell2v.Mailbox
