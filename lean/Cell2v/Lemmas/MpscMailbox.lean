import Cell2v.Lemmas.MpscConc
import Cell2v.Lemmas.MailboxAbs
/-!
C09 — the wake-up protocol of the mailbox (`Mailbox.Abs`, counter abstraction)
composed with the CONCURRENT system queue (`MpscConc`).

`PostSystemMessage` is `systemMailbox.Push(m); atomic.AddInt32(&sysMessages, 1); schedule()`.
In `Mailbox.Abs`/`Mailbox.Fine` the `Push` is the single step `pushS`.  Here it is
split into its two shared-memory steps; the counter increment comes after BOTH:

    swapS p x   producer p: swap of head        (Abs: pushS — the message is "in the queue", sq+1, nSp+1)
    linkS p     producer p: prev.next = n       (Abs: nothing; p has returned from Push)
    incrS p     producer p: sysMessages++       (Abs: incrS, only for a producer that has linked)
    popS k      consumer in run(): Pop()        (Abs: popS/popSsusp/popSres if a message came out,
                                                 nothing if Pop returned nil — also when that nil is
                                                 due to a missing link although `sq > 0`)
    other l     every other step of the protocol, unchanged

`a.sq` is read as "swapped in and not yet popped" (`head - tail`).
-/
namespace Cell2v.MpscMailbox
open Cell2v.Mailbox Cell2v.MpscConc

structure Sys where
  a : Abs.St
  q : St
  ret : List Nat     -- system posters that returned from `Push` and have not yet incremented `sysMessages`

inductive SLbl
  | swapS (p x : Nat) | linkS (p : Nat) | incrS (p : Nat) | popS (k : Fine.SK) | other (l : Abs.Lbl)

/-- the steps of `Abs` that touch the system queue (replaced by the four labels above) -/
def isSysQ : Abs.Lbl → Bool
  | .pushS | .incrS | .popS | .popSsusp | .popSres => true
  | _ => false

def popLbl : Fine.SK → Abs.Lbl
  | .normal => .popS | .suspend => .popSsusp | .resume => .popSres

def init : Sys := { a := Abs.init, q := MpscConc.init, ret := [] }

def fire (s : Sys) : SLbl → Option Sys
  | .swapS p x =>
    if s.ret.contains p then none      -- p is sequential: it increments before it pushes again
    else
      match MpscConc.fire s.q (.swap p x), Abs.fire s.a .pushS with
      | some (q', _), some a' => some { s with a := a', q := q' }
      | _, _ => none
  | .linkS p =>
    match MpscConc.fire s.q (.link p) with
    | some (q', _) => some { s with q := q', ret := p :: s.ret }
    | none => none
  | .incrS p =>
    if s.ret.contains p then
      match Abs.fire s.a .incrS with
      | some a' => some { s with a := a', ret := s.ret.erase p }
      | none => none
    else none
  | .popS k =>
    if s.a.c = .run then
      match MpscConc.fire s.q .pop with
      | some (q', .popped (some _)) =>
        (match Abs.fire s.a (popLbl k) with
         | some a' => some { s with a := a', q := q' }
         | none => none)
      | some (q', _) => some { s with q := q' }
      | none => none
    else none
  | .other l =>
    if isSysQ l then none
    else match Abs.fire s.a l with
      | some a' => some { s with a := a' }
      | none => none

def runL (s : Sys) : List SLbl → Option Sys
  | [] => some s
  | l :: ls => match fire s l with
    | none => none
    | some s' => runL s' ls

/-- the wake-up invariant, the chain invariant, `sq` = pending, and every producer
that has swapped but not yet incremented the counter is accounted for in `nSp` -/
structure SInv (s : Sys) : Prop where
  m : Abs.MInv s.a
  c : CInv s.q
  sq : s.a.sq = ((s.q.head - s.q.tail : Nat) : Int)
  np : s.q.fl.length + s.ret.length ≤ s.a.nSp

theorem sinv_init : SInv init := ⟨Abs.inv_init, cinv_init, by simp [init, Abs.init, MpscConc.init], by simp [init, Abs.init, MpscConc.init]⟩

theorem other_keeps (a a' : Abs.St) (l : Abs.Lbl) (hl : isSysQ l = false) (hf : Abs.fire a l = some a') :
    a'.sq = a.sq ∧ a'.nSp = a.nSp := by
  cases l <;> simp only [isSysQ] at hl <;> (try cases hl) <;> simp only [Abs.fire] at hf <;>
    (repeat' split at hf) <;> (try cases hf) <;> simp_all <;> (subst hf; simp)

theorem pop_abs (a a' : Abs.St) (k : Fine.SK) (ha : Abs.fire a (popLbl k) = some a') :
    a'.sq = a.sq - 1 ∧ a'.nSp = a.nSp := by
  cases k <;> simp only [popLbl, Abs.fire] at ha <;> split at ha <;> (try cases ha) <;> simp

theorem filter_lt (fl : List Flight) (p : Nat) (f : Flight) (hf : f ∈ fl) (hp : f.p = p) :
    (fl.filter (·.p != p)).length < fl.length := by
  induction fl with
  | nil => cases hf
  | cons g rest ih =>
    by_cases hg : g.p = p
    · have : (List.filter (fun x => x.p != p) (g :: rest)) = List.filter (fun x => x.p != p) rest := by
        simp [List.filter, hg]
      rw [this]
      have := List.length_filter_le (fun x : Flight => x.p != p) rest
      simp only [List.length_cons]; omega
    · have hne : g ≠ f := fun e => hg (e ▸ hp)
      have hfr : f ∈ rest := by
        rcases List.mem_cons.mp hf with e | e
        · exact absurd e.symm hne
        · exact e
      have := ih hfr
      have e : (List.filter (fun x => x.p != p) (g :: rest)) = g :: List.filter (fun x => x.p != p) rest := by
        simp [hg]
      rw [e]; simp only [List.length_cons]; omega

theorem sinv_step (s s' : Sys) (l : SLbl) (h : SInv s) (hf : fire s l = some s') : SInv s' := by
  obtain ⟨hm, hc, hsq, hnp⟩ := h
  cases l with
  | swapS p x =>
    simp only [fire] at hf
    split at hf
    · cases hf
    · split at hf
      · rename_i q' o a' hq ha
        simp only [Option.some.injEq] at hf
        subst hf
        have hc' := cinv_step _ _ _ _ hc hq
        have hm' := Abs.inv_step _ _ _ hm ha
        simp only [MpscConc.fire] at hq
        split at hq
        · cases hq
        · simp only [Option.some.injEq, Prod.mk.injEq] at hq
          simp only [Abs.fire, Option.some.injEq] at ha
          refine ⟨hm', hc', ?_, ?_⟩
          · show a'.sq = ((q'.head - q'.tail : Nat) : Int)
            rw [← ha, ← hq.1]
            simp only [hsq, hc.len]
            have := hc.tl; omega
          · show q'.fl.length + s.ret.length ≤ a'.nSp
            rw [← ha, ← hq.1]
            simp only [List.length_append, List.length_singleton]; omega
      · cases hf
  | linkS p =>
    simp only [fire] at hf
    split at hf
    · rename_i q' o hq
      simp only [Option.some.injEq] at hf
      subst hf
      have hc' := cinv_step _ _ _ _ hc hq
      simp only [MpscConc.fire] at hq
      split at hq
      · cases hq
      · rename_i f hfind
        simp only [Option.some.injEq, Prod.mk.injEq] at hq
        have hfm : f ∈ s.q.fl := List.mem_of_find?_eq_some hfind
        have hfp : f.p = p := by have := List.find?_some hfind; simpa using this
        have hlt := filter_lt s.q.fl p f hfm hfp
        refine ⟨hm, hc', ?_, ?_⟩
        · show s.a.sq = ((q'.head - q'.tail : Nat) : Int)
          rw [← hq.1]; exact hsq
        · show q'.fl.length + (p :: s.ret).length ≤ s.a.nSp
          rw [← hq.1]; simp only [List.length_cons]; omega
    · cases hf
  | incrS p =>
    simp only [fire] at hf
    split at hf
    · rename_i hmem
      split at hf
      · rename_i a' ha
        simp only [Option.some.injEq] at hf
        subst hf
        have hm' := Abs.inv_step _ _ _ hm ha
        have hmem' : p ∈ s.ret := by simpa using hmem
        have hlen := List.length_erase_of_mem hmem'
        have hpos : 0 < s.ret.length := List.length_pos_of_mem hmem'
        simp only [Abs.fire] at ha
        split at ha
        · simp only [Option.some.injEq] at ha
          refine ⟨hm', hc, ?_, ?_⟩
          · show a'.sq = _
            rw [← ha]; exact hsq
          · show s.q.fl.length + (s.ret.erase p).length ≤ a'.nSp
            rw [← ha, hlen]; simp only; omega
        · cases ha
      · cases hf
    · cases hf
  | popS k =>
    simp only [fire] at hf
    split at hf
    · rcases pop_cases s.q hc with ⟨hn, _⟩ | ⟨x, hn, hlt, _, hv, hx⟩
      · have hq : MpscConc.fire s.q .pop = some (s.q, .popped none) := by simp [MpscConc.fire, hn]
        rw [hq] at hf
        simp only [Option.some.injEq] at hf
        subst hf
        exact ⟨hm, hc, hsq, hnp⟩
      · have hq : MpscConc.fire s.q .pop =
            some ({ s.q with tail := s.q.tail + 1, heap := clearVal s.q.heap (s.q.tail + 1), dlv := s.q.dlv ++ [x] }, .popped (some x)) := by
          simp [MpscConc.fire, hn, hv]
        have hc' := cinv_step _ _ _ _ hc hq
        rw [hq] at hf
        simp only at hf
        split at hf
        · rename_i a' ha
          simp only [Option.some.injEq] at hf
          subst hf
          have hm' := Abs.inv_step _ _ _ hm ha
          refine ⟨hm', hc', ?_, ?_⟩
          · show a'.sq = ((s.q.head - (s.q.tail + 1) : Nat) : Int)
            rw [(pop_abs _ _ _ ha).1, hsq]; omega
          · show s.q.fl.length + s.ret.length ≤ a'.nSp
            rw [(pop_abs _ _ _ ha).2]; exact hnp
        · cases hf
    · cases hf
  | other l =>
    simp only [fire] at hf
    split at hf
    · cases hf
    · rename_i hl
      split at hf
      · rename_i a' ha
        simp only [Option.some.injEq] at hf
        subst hf
        obtain ⟨e1, e2⟩ := other_keeps _ _ _ (by simpa using hl) ha
        exact ⟨Abs.inv_step _ _ _ hm ha, hc, by show a'.sq = _; rw [e1]; exact hsq, by show _ ≤ a'.nSp; rw [e2]; exact hnp⟩
      · cases hf

theorem sinv_run (ls : List SLbl) (s s' : Sys) (h : SInv s) (hr : runL s ls = some s') : SInv s' := by
  induction ls generalizing s with
  | nil => simp only [runL, Option.some.injEq] at hr; rw [← hr]; exact h
  | cons l ls ih =>
    simp only [runL] at hr
    split at hr
    · cases hr
    · rename_i s1 hf
      exact ih s1 (sinv_step s s1 l h hf) hr

/-- the consumer's `Pop` step is always enabled while `run()` executes (the composition does not
remove behaviour: `fire` never answers `none` because `Abs.popS` wanted `sq > 0`) -/
theorem pop_enabled (s : Sys) (k : Fine.SK) (h : SInv s) (hc : s.a.c = .run) : (fire s (.popS k)).isSome = true := by
  rcases pop_cases s.q h.c with ⟨hn, _⟩ | ⟨x, hn, hlt, _, hv, _⟩
  · have hq : MpscConc.fire s.q .pop = some (s.q, .popped none) := by simp [MpscConc.fire, hn]
    simp [fire, hc, hq]
  · have hq : MpscConc.fire s.q .pop =
        some ({ s.q with tail := s.q.tail + 1, heap := clearVal s.q.heap (s.q.tail + 1), dlv := s.q.dlv ++ [x] }, .popped (some x)) := by
      simp [MpscConc.fire, hn, hv]
    have hpos : s.a.sq > 0 := by rw [h.sq]; omega
    cases k <;> simp [fire, hc, hq, popLbl, Abs.fire, hpos]

end Cell2v.MpscMailbox
