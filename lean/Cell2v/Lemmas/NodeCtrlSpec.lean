import Cell2v.Lemmas.NodeCtrl
import Cell2v.Spec.C12
/-!
C12 — the monitor of `Spec/C12` never flags the model: a simulation between the monitor's
bookkeeping and the model state (`Sim`), preserved by every step on which, in addition, no
clause fires.
-/
namespace Cell2v.Spec.C12
open Cell2v.NodeCtrl
set_option linter.unusedSimpArgs false

/-! ### projections of event lists -/

@[simp] theorem pubsOf_nil : pubsOf [] = [] := rfl
@[simp] theorem pubsOf_pub (x : NS) (es : List Evt) : pubsOf (.pub x :: es) = x :: pubsOf es := rfl
@[simp] theorem pubsOf_stop (es : List Evt) : pubsOf (.stopNode :: es) = pubsOf es := rfl
@[simp] theorem pubsOf_send (i : Nat) (c : SCmd) (es : List Evt) : pubsOf (.send i c :: es) = pubsOf es := rfl
@[simp] theorem pubsOf_reply (r : Reply) (es : List Evt) : pubsOf (.reply r :: es) = pubsOf es := rfl
@[simp] theorem pubsOf_append (a b : List Evt) : pubsOf (a ++ b) = pubsOf a ++ pubsOf b := by
  simp [pubsOf, List.filterMap_append]

@[simp] theorem sentOf_nil : sentOf [] = [] := rfl
@[simp] theorem sentOf_pub (x : NS) (es : List Evt) : sentOf (.pub x :: es) = sentOf es := rfl
@[simp] theorem sentOf_stop (es : List Evt) : sentOf (.stopNode :: es) = sentOf es := rfl
@[simp] theorem sentOf_send (i : Nat) (c : SCmd) (es : List Evt) : sentOf (.send i c :: es) = (i, c) :: sentOf es := rfl
@[simp] theorem sentOf_reply (r : Reply) (es : List Evt) : sentOf (.reply r :: es) = sentOf es := rfl
@[simp] theorem sentOf_append (a b : List Evt) : sentOf (a ++ b) = sentOf a ++ sentOf b := by
  simp [sentOf, List.filterMap_append]

@[simp] theorem replyOf_nil : replyOf [] = none := rfl
@[simp] theorem replyOf_pub (x : NS) (es : List Evt) : replyOf (.pub x :: es) = replyOf es := rfl
@[simp] theorem replyOf_stop (es : List Evt) : replyOf (.stopNode :: es) = replyOf es := rfl
@[simp] theorem replyOf_send (i : Nat) (c : SCmd) (es : List Evt) : replyOf (.send i c :: es) = replyOf es := rfl
@[simp] theorem replyOf_reply (r : Reply) (es : List Evt) : replyOf (.reply r :: es) = some r := rfl

theorem tellAll_eq_map (c : SCmd) (n : Nat) (u : List Nat) :
    tellAll c n u = ((List.range n).filter (fun i => !u.contains i)).map (fun i => Evt.send i c) := rfl

@[simp] theorem pubsOf_sends (c : SCmd) (l : List Nat) : pubsOf (l.map (fun i => Evt.send i c)) = [] := by
  induction l with
  | nil => rfl
  | cons a l ih => simpa using ih

@[simp] theorem sentOf_sends (c : SCmd) (l : List Nat) :
    sentOf (l.map (fun i => Evt.send i c)) = l.map (fun i => (i, c)) := by
  induction l with
  | nil => rfl
  | cons a l ih => simpa using ih

@[simp] theorem replyOf_sends_append (c : SCmd) (l : List Nat) (es : List Evt) :
    replyOf (l.map (fun i => Evt.send i c) ++ es) = replyOf es := by
  induction l with
  | nil => rfl
  | cons a l ih => simpa using ih

theorem allIn_iff (n : Nat) (l : List Nat) : allIn n l = true ↔ ∀ i, i < n → i ∈ l := by
  simp [allIn, List.all_eq_true]

/-! ### the cluster provider (App.UpdateNodeState ignores its error) -/

@[simp] theorem delivered_nil_right (sc : List Bool) : delivered sc [] = [] := by cases sc <;> rfl
@[simp] theorem lostOf_nil_right (sc : List Bool) : lostOf sc [] = [] := by cases sc <;> rfl

@[simp] theorem delivered_nil_script (l : List NS) : delivered [] l = l := by
  induction l with
  | nil => rfl
  | cons a l ih => simp [delivered, ih]

@[simp] theorem lostOf_nil_script (l : List NS) : lostOf [] l = [] := by
  induction l with
  | nil => rfl
  | cons a l ih => simp [lostOf, ih]

/-- what the provider accepted is an order-preserving selection of what the node published -/
theorem delivered_sublist (sc : List Bool) (l : List NS) : (delivered sc l).Sublist l := by
  induction l generalizing sc with
  | nil => simp
  | cons a l ih =>
    cases sc with
    | nil => simp
    | cons b sc => cases b <;> simp [delivered, ih]

theorem lostOf_sublist (sc : List Bool) (l : List NS) : (lostOf sc l).Sublist l := by
  induction l generalizing sc with
  | nil => simp
  | cons a l ih =>
    cases sc with
    | nil => simp
    | cons b sc => cases b <;> simp [lostOf, ih]

/-- every publication reaches the provider exactly once: accepted or refused, never both, never again -/
theorem delivered_length_add_lost (sc : List Bool) (l : List NS) :
    (delivered sc l).length + (lostOf sc l).length = l.length := by
  induction l generalizing sc with
  | nil => simp
  | cons a l ih =>
    cases sc with
    | nil => simp
    | cons b sc => cases b <;> simp [delivered, lostOf] <;> have := ih sc <;> omega

/-- nothing refused: the provider saw exactly what the node published -/
theorem delivered_of_no_loss (sc : List Bool) (l : List NS) (h : lostOf sc l = []) : delivered sc l = l := by
  induction l generalizing sc with
  | nil => simp
  | cons a l ih =>
    cases sc with
    | nil => simp
    | cons b sc => cases b <;> simp_all [delivered, lostOf]

theorem delivered_append (sc : List Bool) (a b : List NS) :
    delivered sc (a ++ b) = delivered sc a ++ delivered (scriptAfter sc a.length) b := by
  induction a generalizing sc with
  | nil => simp [scriptAfter]
  | cons x a ih =>
    cases sc with
    | nil => simp [scriptAfter]
    | cons f sc => cases f <;> simp [delivered, scriptAfter, ih]

theorem isMerge_deliver (sc : List Bool) (l : List NS) : isMerge l (delivered sc l) (lostOf sc l) = true := by
  induction l generalizing sc with
  | nil => simp [isMerge]
  | cons a l ih =>
    cases sc with
    | nil => have := ih []; simp_all [isMerge]
    | cons b sc => cases b <;> have := ih sc <;> simp_all [delivered, lostOf, isMerge]

/-- with nothing refused the clause is the old `pubs = upd` -/
theorem isMerge_no_loss (u p : List NS) : isMerge u p [] = true ↔ p = u := by
  induction u generalizing p with
  | nil => cases p <;> simp [isMerge]
  | cons a u ih =>
    cases p with
    | nil => simp [isMerge]
    | cons x p =>
      simp only [isMerge, Bool.or_false, Bool.and_eq_true, beq_iff_eq, ih, List.cons.injEq]

theorem monotoneFrom_weaken {r r' : Nat} (h : r' ≤ r) (l : List NS) (hm : monotoneFrom r l = true) :
    monotoneFrom r' l = true := by
  cases l with
  | nil => rfl
  | cons a l =>
    simp only [monotoneFrom, Bool.and_eq_true, decide_eq_true_eq] at hm ⊢
    exact ⟨by omega, hm.2⟩

theorem monotoneFrom_sublist {l' l : List NS} (hs : l'.Sublist l) (r : Nat) (hm : monotoneFrom r l = true) :
    monotoneFrom r l' = true := by
  induction hs generalizing r with
  | slnil => rfl
  | cons a _ ih =>
    simp only [monotoneFrom, Bool.and_eq_true, decide_eq_true_eq] at hm
    exact ih r (monotoneFrom_weaken hm.1 _ hm.2)
  | cons_cons a _ ih =>
    simp only [monotoneFrom, Bool.and_eq_true, decide_eq_true_eq] at hm ⊢
    exact ⟨hm.1, ih _ hm.2⟩

/-! ### per-step facts about what the model shows -/

/-- a step publishes nothing and keeps the state, or publishes exactly the new state, or (exit
with an inline successful stop) publishes exiting, exited from retired -/
theorem step_pubsOf (s : St) (o : Op) :
    (pubsOf (step true s o).2 = [] ∧ (step true s o).1.st = s.st) ∨
    pubsOf (step true s o).2 = [(step true s o).1.st] ∨
    (pubsOf (step true s o).2 = [.exiting, .exited] ∧ (step true s o).1.st = .exited ∧ s.st = .retired) := by
  cases o with
  | cmd c => cases c <;> nc_unfold <;> (repeat' split) <;> simp_all [tellAll_eq_map]
  | qack i ok => nc_unfold; (repeat' split) <;> simp
  | svcRetired i => nc_unfold; (repeat' split) <;> simp
  | svcOther i => simp [step]
  | stopDone b => nc_unfold; (repeat' split) <;> simp
  | tick => simp [step]
  | setRes i up => simp [step]

/-- a successful completion is delivered during `o`: an explicit one for an outstanding
StopNode, or a StopNode call in the inline-success regime -/
def succNow (s : St) (o : Op) : Prop :=
  (o = .stopDone true ∧ 0 < s.stopPend) ∨ (s.stopMode = .inlineOk ∧ 0 < stops (step true s o).2)

/-- the only way into `exited` is a successful completion -/
theorem step_exited (s : St) (o : Op) (h : (step true s o).1.st = .exited) : s.st = .exited ∨ succNow s o := by
  obtain ⟨st, kinds, qpend, support, retired, allSup, stopPend, stopMode, unres⟩ := s
  unfold succNow
  cases o with
  | cmd c => cases c <;> cases st <;> revert h <;> nc_unfold <;> (repeat' split) <;> simp_all
  | qack i ok => revert h; nc_unfold; (repeat' split) <;> simp
  | svcRetired i => cases st <;> revert h <;> nc_unfold <;> (repeat' split) <;> simp
  | svcOther i => left; simpa [step] using h
  | stopDone b =>
    revert h; nc_unfold; (repeat' split) <;> simp_all
    omega
  | tick => left; simpa [step] using h
  | setRes i up => left; simpa [step] using h

/-- ... and a successful completion always leads there -/
theorem succNow_exited (s : St) (o : Op) (h : succNow s o) : (step true s o).1.st = .exited := by
  obtain ⟨st, kinds, qpend, support, retired, allSup, stopPend, stopMode, unres⟩ := s
  rcases h with ⟨rfl, hp⟩ | ⟨hm, hs⟩
  · simp only at hp
    have : stopPend ≠ 0 := by omega
    simp [step, stopDone, this]
  · simp only at hm
    subst hm
    cases o with
    | cmd c => cases c <;> cases st <;> revert hs <;> nc_unfold <;> (repeat' split) <;> simp_all
    | qack i ok => revert hs; nc_unfold; (repeat' split) <;> simp
    | svcRetired i => revert hs; nc_unfold; (repeat' split) <;> simp
    | svcOther i => simp [step] at hs
    | stopDone b => revert hs; nc_unfold; (repeat' split) <;> simp
    | tick => simp [step] at hs
    | setRes i up => simp [step] at hs

/-! ### simulation between the monitor's bookkeeping and the model state -/

structure Sim (m : Mon) (s : St) : Prop where
  n : m.n = s.kinds.length
  decl : ∀ i, i ∈ s.support → i ∈ m.declared
  rep : ∀ i, i ∈ m.reported ↔ i ∈ s.retired
  cur : m.cur = s.st
  stops : m.stopsTotal ≤ stopBudget s
  stopOk : s.st = .exited → m.stopOk = true
  inl : m.inlineStop = inlineOf s.stopMode
  unr : m.unres = s.unres

/-- the monitor's "a successful completion happens now" is the model's -/
theorem stopSucceedsNow_iff (m1 : Mon) (s : St) (o : Op) (hi : m1.inlineStop = inlineOf s.stopMode) :
    stopSucceedsNow m1 (mopOf s o) (obsOf (step true s o).1 (step true s o).2) = true ↔ succNow s o := by
  have hinl : (m1.inlineStop == some true) = true ↔ s.stopMode = .inlineOk := by
    rw [hi]; cases s.stopMode <;> simp [inlineOf]
  have hfirst : isStopDoneOk (mopOf s o) = true ↔ (o = .stopDone true ∧ 0 < s.stopPend) := by
    cases o with
    | cmd c => simp [mopOf, isStopDoneOk]
    | qack i ok => simp only [mopOf]; split <;> simp [isStopDoneOk]
    | svcRetired i => simp [mopOf, isStopDoneOk]
    | svcOther i => simp [mopOf, isStopDoneOk]
    | stopDone b =>
      by_cases hp : 0 < s.stopPend <;> cases b <;> simp [mopOf, hp, isStopDoneOk]
    | tick => simp [mopOf, isStopDoneOk]
    | setRes i up => simp [mopOf, isStopDoneOk]
  unfold stopSucceedsNow succNow
  rw [Bool.or_eq_true, Bool.and_eq_true, hfirst, hinl, decide_eq_true_eq]
  exact Iff.rfl

/-- `learn` tracks which services the node cannot resolve exactly as the model does -/
theorem learn_unres {m : Mon} {s : St} (o : Op) (h : m.unres = s.unres) :
    (m.learn (mopOf s o)).unres = (step true s o).1.unres := by
  cases o with
  | cmd c => cases c <;> nc_unfold <;> (repeat' split) <;> exact h
  | qack i ok =>
    simp only [mopOf, step, queryAck]
    by_cases hq : i ∈ s.qpend
    · cases ok <;> simp [hq, Mon.learn, h]
    · simp [hq, Mon.learn, h]
  | svcRetired i => simp only [mopOf, step, serviceRetired, Mon.learn]; (repeat' split) <;> exact h
  | svcOther i => exact h
  | stopDone b =>
    have : ∀ a, (m.learn (.stopDone a b)).unres = m.unres := by
      intro a; cases a <;> cases b <;> rfl
    simp only [mopOf, this, step, stopDone]; (repeat' split) <;> exact h
  | tick => exact h
  | setRes i up => simp [mopOf, Mon.learn, step, h]

/-- `learn` keeps the bookkeeping in step with the model -/
theorem learn_sim {m : Mon} {s : St} (o : Op) (hS : Sim m s) :
    (m.learn (mopOf s o)).n = m.n ∧ (m.learn (mopOf s o)).cur = m.cur ∧
    (m.learn (mopOf s o)).stopsTotal = m.stopsTotal ∧
    (∀ i, i ∈ (step true s o).1.support → i ∈ (m.learn (mopOf s o)).declared) ∧
    (∀ i, i ∈ (m.learn (mopOf s o)).reported ↔ i ∈ (step true s o).1.retired) ∧
    (m.stopOk = true → (m.learn (mopOf s o)).stopOk = true) ∧
    (m.learn (mopOf s o)).inlineStop = m.inlineStop := by
  obtain ⟨hn, hd, hr, hc, hst, hok, hinl, hunr⟩ := hS
  cases o with
  | cmd c =>
    refine ⟨rfl, rfl, rfl, ?_, ?_, id, rfl⟩
    · cases c <;> nc_unfold <;> (repeat' split) <;> exact hd
    · cases c <;> nc_unfold <;> (repeat' split) <;> exact hr
  | qack i ok =>
    by_cases hq0 : s.qpend.contains i = true
    · have hq : i ∈ s.qpend := by simpa using hq0
      cases ok
      · have hm : m.learn (mopOf s (.qack i false)) = m := by simp [mopOf, hq, Mon.learn]
        have hs : (step true s (.qack i false)).1.support = s.support ∧
            (step true s (.qack i false)).1.retired = s.retired := by simp [step, queryAck, hq]
        rw [hm, hs.1, hs.2]
        exact ⟨rfl, rfl, rfl, hd, hr, id, rfl⟩
      · have hm : m.learn (mopOf s (.qack i true)) = { m with declared := i :: m.declared } := by
          simp [mopOf, hq, Mon.learn]
        have hs : (step true s (.qack i true)).1.support = i :: s.support ∧
            (step true s (.qack i true)).1.retired = s.retired := by simp [step, queryAck, hq]
        rw [hm, hs.1, hs.2]
        refine ⟨rfl, rfl, rfl, ?_, hr, id, rfl⟩
        intro j hj
        rcases List.mem_cons.mp hj with rfl | hj
        · exact List.mem_cons_self
        · exact List.mem_cons_of_mem _ (hd j hj)
    · have hq' : i ∉ s.qpend := by simpa using hq0
      have hm : m.learn (mopOf s (.qack i ok)) = m := by simp [mopOf, hq', Mon.learn]
      have hs : (step true s (.qack i ok)).1 = s := by simp [step, queryAck, hq']
      rw [hm, hs]
      exact ⟨rfl, rfl, rfl, hd, hr, id, rfl⟩
  | svcRetired i =>
    by_cases hi : i < s.kinds.length
    · have hm : m.learn (mopOf s (.svcRetired i)) = { m with reported := i :: m.reported } := by
        simp [mopOf, Mon.learn, hn, hi]
      have hs : (step true s (.svcRetired i)).1.support = s.support ∧
          (step true s (.svcRetired i)).1.retired = i :: s.retired := by
        simp only [step, serviceRetired, hi, ↓reduceIte]; split <;> exact ⟨rfl, rfl⟩
      rw [hm, hs.1, hs.2]
      refine ⟨rfl, rfl, rfl, hd, ?_, id, rfl⟩
      intro j; simp only [List.mem_cons]; rw [hr j]
    · have hm : m.learn (mopOf s (.svcRetired i)) = m := by simp [mopOf, Mon.learn, hn, hi]
      have hs : (step true s (.svcRetired i)).1 = s := by simp [step, serviceRetired, hi]
      rw [hm, hs]
      exact ⟨rfl, rfl, rfl, hd, hr, id, rfl⟩
  | svcOther i => exact ⟨rfl, rfl, rfl, hd, hr, id, rfl⟩
  | stopDone b =>
    have hl : ∀ a, (m.learn (.stopDone a b)).n = m.n ∧ (m.learn (.stopDone a b)).cur = m.cur ∧
        (m.learn (.stopDone a b)).stopsTotal = m.stopsTotal ∧ (m.learn (.stopDone a b)).declared = m.declared ∧
        (m.learn (.stopDone a b)).reported = m.reported ∧
        (m.stopOk = true → (m.learn (.stopDone a b)).stopOk = true) ∧
        (m.learn (.stopDone a b)).inlineStop = m.inlineStop := by
      intro a; cases a <;> cases b <;> simp [Mon.learn]
    have hs : (step true s (.stopDone b)).1.support = s.support ∧
        (step true s (.stopDone b)).1.retired = s.retired := by
      simp only [step, stopDone]; (repeat' split) <;> exact ⟨rfl, rfl⟩
    obtain ⟨l1, l2, l3, l4, l5, l6, l7⟩ := hl (decide (0 < s.stopPend))
    simp only [mopOf]
    rw [l1, l2, l3, l4, l5, l7, hs.1, hs.2]
    exact ⟨rfl, rfl, rfl, hd, hr, l6, rfl⟩
  | tick => exact ⟨rfl, rfl, rfl, hd, hr, id, rfl⟩
  | setRes i up => exact ⟨rfl, rfl, rfl, hd, hr, id, rfl⟩

/-! ### the command-specific clauses -/

structure CmdOk (m1 : Mon) (op : MOp) (ob : Obs) : Prop where
  retire : retireAccepted op ob = true →
    (m1.cur = .working ∨ m1.cur = .retiring) ∧ allIn m1.n m1.declared = true ∧
    (List.range m1.n).all (fun i => m1.unres.contains i || ob.sent.contains (i, SCmd.retire)) = true ∧
    ob.st = .retiring
  exit : exitAccepted op ob = true → m1.cur = .retired ∧ ob.stops = 1 ∧ 4 ≤ ob.st.rank
  stopOnlyExit : 0 < ob.stops → exitAccepted op ob = true
  sendOnlyRetire : ob.sent.any (fun p => p.2 == SCmd.retire) = true → retireAccepted op ob = true
  refused : isCmdOp op = true → accepted ob = false →
    ob.pubs = [] ∧ ob.stops = 0 ∧ ob.sent = [] ∧ ob.st = m1.cur
  answered : isCmdOp op = true → ob.reply ≠ none

theorem noncmd_flags (s : St) (o : Op) (ob : Obs) (h : ∀ c, o ≠ .cmd c) :
    retireAccepted (mopOf s o) ob = false ∧ exitAccepted (mopOf s o) ob = false ∧ isCmdOp (mopOf s o) = false := by
  cases o with
  | cmd c => exact absurd rfl (h c)
  | qack i ok => simp only [mopOf]; split <;> exact ⟨rfl, rfl, rfl⟩
  | svcRetired i => exact ⟨rfl, rfl, rfl⟩
  | svcOther i => exact ⟨rfl, rfl, rfl⟩
  | stopDone b => exact ⟨rfl, rfl, rfl⟩
  | tick => exact ⟨rfl, rfl, rfl⟩
  | setRes i up => exact ⟨rfl, rfl, rfl⟩

theorem noncmd_quiet (s : St) (o : Op) (h : ∀ c, o ≠ .cmd c) :
    stops (step true s o).2 = 0 ∧ (sentOf (step true s o).2).any (fun p => p.2 == SCmd.retire) = false := by
  cases o with
  | cmd c => exact absurd rfl (h c)
  | qack i ok => nc_unfold; (repeat' split) <;> simp
  | svcRetired i => nc_unfold; (repeat' split) <;> simp
  | svcOther i => simp [step]
  | stopDone b => nc_unfold; (repeat' split) <;> simp
  | tick => simp [step]
  | setRes i up => simp [step]

/-- the observation of an accepted retire -/
theorem retire_obs (s : St) (h1 : s.st = .working ∨ s.st = .retiring) (h2 : s.allSup = true) :
    retireCmd s = ({ s with st := .retiring },
      [.pub .retiring] ++ tellAll .retire s.kinds.length s.unres ++ [.reply .ok]) := by
  unfold retireCmd
  have : ¬(s.st ≠ .working ∧ s.st ≠ .retiring) := by rcases h1 with h | h <;> simp [h]
  simp [this, h2]

theorem retire_refused (s : St) (h : ¬((s.st = .working ∨ s.st = .retiring) ∧ s.allSup = true)) :
    retireCmd s = (s, [.reply .refused]) := by
  unfold retireCmd
  by_cases h1 : s.st ≠ .working ∧ s.st ≠ .retiring
  · simp [h1]
  · have h1' : s.st = .working ∨ s.st = .retiring := by
      by_cases hw : s.st = .working
      · exact Or.inl hw
      · by_cases hr : s.st = .retiring
        · exact Or.inr hr
        · exact absurd ⟨hw, hr⟩ h1
    have h2 : s.allSup = false := by
      cases hs : s.allSup
      · rfl
      · exact absurd ⟨h1', hs⟩ h
    simp [h1, h2]

theorem cmdOk_retire {hist : List Op} {s : St} (m1 : Mon) (c : Cmd) (hcr : c = .retire ∨ c = .webRetire)
    (hI : RInv hist s) (hn : m1.n = s.kinds.length) (hc : m1.cur = s.st)
    (hd : ∀ i, i ∈ s.support → i ∈ m1.declared) (hu : m1.unres = s.unres) :
    CmdOk m1 (.cmd c) (obsOf (step true s (.cmd c)).1 (step true s (.cmd c)).2) := by
  have hstep : step true s (.cmd c) = retireCmd s := by rcases hcr with rfl | rfl <;> rfl
  have hra : ∀ ob, retireAccepted (.cmd c) ob = accepted ob := by
    intro ob; rcases hcr with rfl | rfl <;> simp [retireAccepted, isRetireCmd]
  have hea : ∀ ob, exitAccepted (.cmd c) ob = false := by
    intro ob; rcases hcr with rfl | rfl <;> simp [exitAccepted, isExitCmd]
  rw [hstep]
  by_cases hacc : (s.st = .working ∨ s.st = .retiring) ∧ s.allSup = true
  · obtain ⟨h1, h2⟩ := hacc
    rw [retire_obs s h1 h2]
    have hall := hI.sup_all h2
    refine ⟨?_, ?_, ?_, ?_, ?_, ?_⟩
    · intro _
      refine ⟨by rw [hc]; exact h1, ?_, ?_, rfl⟩
      · rw [allIn_iff]; intro i hi; exact hd i (hall i (by rw [← hn]; exact hi))
      · rw [List.all_eq_true]
        intro i hi
        have hi' : i < s.kinds.length := by rw [← hn]; exact List.mem_range.mp hi
        rw [hu]
        by_cases hr : i ∈ s.unres
        · simp [hr]
        · simp only [Bool.or_eq_true, List.contains_iff_mem]
          right
          simp only [obsOf, tellAll_eq_map, sentOf_append, sentOf_pub, sentOf_nil, sentOf_sends, sentOf_reply,
            List.nil_append, List.append_nil, List.mem_map, List.mem_filter, List.mem_range]
          exact ⟨i, ⟨hi', by simpa using hr⟩, rfl⟩
    · intro h; rw [hea] at h; cases h
    · intro h; simp [obsOf] at h
    · intro _; rw [hra]; simp [accepted, obsOf, tellAll_eq_map]
    · intro _ h; simp [accepted, obsOf, tellAll_eq_map] at h
    · intro _; simp [obsOf, tellAll_eq_map]
  · rw [retire_refused s hacc]
    refine ⟨?_, ?_, ?_, ?_, ?_, ?_⟩
    · intro h; rw [hra] at h; simp [accepted, obsOf] at h
    · intro h; rw [hea] at h; cases h
    · intro h; simp [obsOf] at h
    · intro h; simp [obsOf] at h
    · intro _ _; simp [obsOf, hc]
    · intro _; simp [obsOf]

theorem cmdOk_exit {s : St} (m1 : Mon) (c : Cmd) (hce : c = .exit ∨ c = .webExit) (hc : m1.cur = s.st) :
    CmdOk m1 (.cmd c) (obsOf (step true s (.cmd c)).1 (step true s (.cmd c)).2) := by
  have hstep : step true s (.cmd c) = exitCmd s := by rcases hce with rfl | rfl <;> rfl
  have hea : ∀ ob, exitAccepted (.cmd c) ob = accepted ob := by
    intro ob; rcases hce with rfl | rfl <;> simp [exitAccepted, isExitCmd]
  have hra : ∀ ob, retireAccepted (.cmd c) ob = false := by
    intro ob; rcases hce with rfl | rfl <;> simp [retireAccepted, isRetireCmd]
  rw [hstep]
  unfold exitCmd
  by_cases h : s.st = .retired
  · simp only [h, ne_eq, not_true_eq_false, ↓reduceIte]
    cases s.stopMode <;>
    (refine ⟨?_, ?_, ?_, ?_, ?_, ?_⟩
     · intro h'; rw [hra] at h'; cases h'
     · intro _; exact ⟨by rw [hc]; exact h, by simp [obsOf], by simp [obsOf, NS.rank]⟩
     · intro _; rw [hea]; simp [accepted, obsOf]
     · intro h'; simp [obsOf] at h'
     · intro _ h'; simp [accepted, obsOf] at h'
     · intro _; simp [obsOf])
  · simp only [ne_eq, h, not_false_eq_true, ↓reduceIte]
    refine ⟨?_, ?_, ?_, ?_, ?_, ?_⟩
    · intro h'; rw [hra] at h'; cases h'
    · intro h'; rw [hea] at h'; simp [accepted, obsOf] at h'
    · intro h'; simp [obsOf] at h'
    · intro h'; simp [obsOf] at h'
    · intro _ _; simp [obsOf, hc]
    · intro _; simp [obsOf]

theorem cmdOk_step {hist : List Op} {s : St} (m1 : Mon) (o : Op)
    (hI : RInv hist s) (hn : m1.n = s.kinds.length) (hc : m1.cur = s.st)
    (hd : ∀ i, i ∈ (step true s o).1.support → i ∈ m1.declared)
    (hu : (∃ c, o = .cmd c) → m1.unres = s.unres) :
    CmdOk m1 (mopOf s o) (obsOf (step true s o).1 (step true s o).2) := by
  by_cases hcmd : ∃ c, o = .cmd c
  · have hu := hu hcmd
    obtain ⟨c, rfl⟩ := hcmd
    have info : ∀ r : Reply, r ≠ .ok →
        CmdOk m1 (.cmd c) (obsOf s [.reply r]) := by
      intro r hr
      have hacc : accepted (obsOf s [.reply r]) = false := by
        cases r <;> simp_all [accepted, obsOf]
      refine ⟨?_, ?_, ?_, ?_, ?_, ?_⟩
      · intro h; simp [retireAccepted, hacc] at h
      · intro h; simp [exitAccepted, hacc] at h
      · intro h; simp [obsOf] at h
      · intro h; simp [obsOf] at h
      · intro _ _; simp [obsOf, hc]
      · intro _; simp [obsOf]
    cases c with
    | stat => exact info _ (by simp)
    | webNodes => exact info _ (by simp)
    | other => exact info _ (by simp)
    | retire =>
      exact cmdOk_retire m1 .retire (Or.inl rfl) hI hn hc (by
        intro i hi; apply hd
        simp only [step, retireCmd]; (repeat' split) <;> exact hi) (hu ⟨_, rfl⟩)
    | webRetire =>
      exact cmdOk_retire m1 .webRetire (Or.inr rfl) hI hn hc (by
        intro i hi; apply hd
        simp only [step, webRetireCmd]; (repeat' split) <;> exact hi) (hu ⟨_, rfl⟩)
    | exit => exact cmdOk_exit m1 .exit (Or.inl rfl) hc
    | webExit => exact cmdOk_exit m1 .webExit (Or.inr rfl) hc
  · have hne : ∀ c, o ≠ .cmd c := fun c h => hcmd ⟨c, h⟩
    obtain ⟨f1, f2, f3⟩ := noncmd_flags s o (obsOf (step true s o).1 (step true s o).2) hne
    obtain ⟨q1, q2⟩ := noncmd_quiet s o hne
    refine ⟨?_, ?_, ?_, ?_, ?_, ?_⟩
    · intro h; rw [f1] at h; cases h
    · intro h; rw [f2] at h; cases h
    · intro h; simp [obsOf, q1] at h
    · intro h; simp only [obsOf] at h; rw [q2] at h; cases h
    · intro h; rw [f3] at h; cases h
    · intro h; rw [f3] at h; cases h


/-! ### no clause fires -/

theorem clauses_none (m1 : Mon) (op : MOp) (ob : Obs) (hC : CmdOk m1 op ob)
    (g3 : monotoneFrom m1.cur.rank ob.pubs = true)
    (g4 : lastOr m1.cur (if ob.lost.isEmpty then ob.pubs else ob.upd) = ob.st)
    (g4b : isMerge ob.upd ob.pubs ob.lost = true)
    (g5 : m1.stopsTotal + ob.stops ≤ 1)
    (g11 : 3 ≤ ob.st.rank → allIn m1.n m1.reported = true)
    (g12 : 0 < m1.n → allIn m1.n m1.reported = true → 3 ≤ ob.st.rank)
    (g15 : ob.st = .exited → (m1.stopOk || stopSucceedsNow m1 op ob) = true)
    (g16 : stopSucceedsNow m1 op ob = true → ob.st = .exited) :
    m1.check op ob = none := by
  obtain ⟨cr, ce, cs, cn, cf, ca⟩ := hC
  unfold Mon.check
  rw [Option.map_eq_none_iff, List.find?_eq_none]
  intro x hx
  simp only [Mon.clauses, List.mem_cons, List.not_mem_nil, or_false] at hx
  rcases hx with rfl | rfl | rfl | rfl | rfl | rfl | rfl | rfl | rfl | rfl | rfl | rfl | rfl | rfl | rfl | rfl | rfl | rfl | rfl
  · -- retire accepted in a wrong state
    cases h : retireAccepted op ob
    · simp
    · rcases (cr h).1 with h1 | h1 <;> simp [h1]
  · cases h : exitAccepted op ob
    · simp
    · simp [(ce h).1]
  · simp [g3]
  · simpa using g4
  · simp [g4b]
  · simp; omega
  · cases h : exitAccepted op ob
    · have : ¬ 0 < ob.stops := fun hp => by rw [cs hp] at h; cases h
      simp; omega
    · simp
  · cases h : retireAccepted op ob
    · have : ob.sent.any (fun p => p.2 == SCmd.retire) = false := by
        cases h2 : ob.sent.any (fun p => p.2 == SCmd.retire)
        · rfl
        · rw [cn h2] at h; cases h
      simp only [this]; simp
    · simp
  · cases h : retireAccepted op ob
    · simp
    · simp [(cr h).2.1]
  · cases h : retireAccepted op ob
    · simp
    · have := (cr h).2.2.1
      rw [this]; simp
  · cases h : retireAccepted op ob
    · simp
    · simp [(cr h).2.2.2]
  · by_cases h : 3 ≤ ob.st.rank
    · simp [g11 h]
    · simp [h]
  · by_cases h1 : 0 < m1.n
    · cases h2 : allIn m1.n m1.reported
      · simp
      · have := g12 h1 h2
        simp; intro _; omega
    · simp [h1]
  · cases h : exitAccepted op ob
    · simp
    · simp [(ce h).2.1]
  · cases h : exitAccepted op ob
    · simp
    · have := (ce h).2.2
      simp; omega
  · by_cases h : ob.st = .exited
    · have := g15 h
      simp only [this]; simp
    · simp [h]
  · cases h : stopSucceedsNow m1 op ob
    · simp
    · simp [g16 h]
  · cases h1 : isCmdOp op
    · simp
    · cases h2 : accepted ob
      · obtain ⟨a, b, c, d⟩ := cf h1 h2
        simp [a, b, c, d]
      · simp
  · cases h1 : isCmdOp op
    · simp
    · have := ca h1
      cases h2 : ob.reply
      · exact absurd h2 this
      · simp

/-- the clauses about commands do not look at what the provider did with the publications -/
theorem CmdOk.lossy {m1 : Mon} {op : MOp} {s' : St} {es : List Evt} (sc : List Bool)
    (h : CmdOk m1 op (obsOf s' es)) : CmdOk m1 op (obsOfL sc s' es) := by
  obtain ⟨cr, ce, cs, cn, cf, ca⟩ := h
  refine ⟨cr, ce, cs, cn, ?_, ca⟩
  intro a b
  obtain ⟨h1, h2, h3, h4⟩ := cf a b
  refine ⟨?_, h2, h3, h4⟩
  have h1' : pubsOf es = [] := h1
  simp [obsOfL, h1']

/-- one step of the model under the monitor, the cluster provider following any fault script:
nothing is flagged and the simulation continues -/
theorem check_stepL {hist : List Op} {s : St} {m : Mon} (sc : List Bool) (o : Op) (hI : RInv hist s) (hS : Sim m s) :
    (m.step (mopOf s o) (obsOfL sc (step true s o).1 (step true s o).2)).2 = none ∧
    Sim (m.step (mopOf s o) (obsOfL sc (step true s o).1 (step true s o).2)).1 (step true s o).1 := by
  have hI' := hI.step o
  have hk := step_kinds true s o
  obtain ⟨ln, lc, lt, ldecl, lrep, lok, linl⟩ := learn_sim o hS
  have hn1 : (m.learn (mopOf s o)).n = s.kinds.length := ln.trans hS.n
  have hc1 : (m.learn (mopOf s o)).cur = s.st := lc.trans hS.cur
  have hi1 : (m.learn (mopOf s o)).inlineStop = inlineOf s.stopMode := linl.trans hS.inl
  have hu1 := learn_unres o hS.unr
  have hu0 : (∃ c, o = .cmd c) → (m.learn (mopOf s o)).unres = s.unres := by
    rintro ⟨c, rfl⟩; exact hS.unr
  have hnow0 := stopSucceedsNow_iff (m.learn (mopOf s o)) s o hi1
  have hnow : stopSucceedsNow (m.learn (mopOf s o)) (mopOf s o) (obsOfL sc (step true s o).1 (step true s o).2) = true ↔
      succNow s o := hnow0
  have hst := step_stops s o
  have hb : stopBudget (step true s o).1 ≤ 1 := by unfold stopBudget; split <;> omega
  have hSs := hS.stops
  have hexit : (step true s o).1.st = .exited →
      ((m.learn (mopOf s o)).stopOk ||
        stopSucceedsNow (m.learn (mopOf s o)) (mopOf s o) (obsOfL sc (step true s o).1 (step true s o).2)) = true := by
    intro h
    rcases step_exited s o h with h | h
    · simp [lok (hS.stopOk h)]
    · simp [hnow.mpr h]
  have hmono : monotoneFrom s.st.rank (pubsOf (step true s o).2) = true := by
    have hle := step_rank_le s o
    rcases step_pubsOf s o with ⟨hp, _⟩ | hp | ⟨hp, _, hs⟩
    · simp [hp, monotoneFrom]
    · simp [hp, monotoneFrom, hle]
    · simp [hp, monotoneFrom, hs, NS.rank]
  have hlast : lastOr s.st (pubsOf (step true s o).2) = (step true s o).1.st := by
    rcases step_pubsOf s o with ⟨hp, he⟩ | hp | ⟨hp, he, _⟩
    · simp [hp, lastOr, he]
    · simp [hp, lastOr]
    · simp [hp, lastOr, he]
  refine ⟨?_, ?_⟩
  · simp only [Mon.step]
    apply clauses_none _ _ _ ((cmdOk_step _ o hI hn1 hc1 ldecl hu0).lossy sc)
    · -- published states move forward
      rw [hc1]
      exact monotoneFrom_sublist (delivered_sublist sc _) _ hmono
    · rw [hc1]
      show lastOr s.st (if (lostOf sc (pubsOf (step true s o).2)).isEmpty then
        delivered sc (pubsOf (step true s o).2) else pubsOf (step true s o).2) = (step true s o).1.st
      cases hl : (lostOf sc (pubsOf (step true s o).2)).isEmpty
      · simpa using hlast
      · have := delivered_of_no_loss sc _ (List.isEmpty_iff.mp hl)
        simp only [↓reduceIte, this]; exact hlast
    · exact isMerge_deliver sc _
    · rw [lt]; simp only [obsOfL, obsOf]; omega
    · intro h
      rw [allIn_iff, hn1]
      intro i hi
      exact (lrep i).mpr (hI'.st_ret h i (by rw [hk]; exact hi))
    · intro hpos hall
      rw [allIn_iff, hn1] at hall
      rw [hn1] at hpos
      apply hI'.ret_st (by rw [hk]; exact hpos)
      intro i hi
      rw [hk] at hi
      exact (lrep i).mp (hall i hi)
    · exact hexit
    · intro h; exact succNow_exited s o (hnow.mp h)
  · simp only [Mon.step]
    exact ⟨hn1.trans (by rw [hk]), ldecl, lrep, rfl, by simp only [obsOfL, obsOf]; rw [lt]; omega, hexit,
      hi1.trans (by rw [step_mode]), hu1⟩

theorem obsOfL_nil (s' : St) (es : List Evt) : obsOfL [] s' es = obsOf s' es := by
  simp [obsOfL, obsOf]

theorem traceOfL_nil (s : St) (ops : List Op) : traceOfL [] s ops = traceOf s ops := by
  induction ops generalizing s with
  | nil => rfl
  | cons o os ih => simp [traceOfL, traceOf, obsOfL_nil, scriptAfter, ih]

/-- one step of the model under the monitor: nothing is flagged and the simulation continues -/
theorem check_step {hist : List Op} {s : St} {m : Mon} (o : Op) (hI : RInv hist s) (hS : Sim m s) :
    (m.step (mopOf s o) (obsOf (step true s o).1 (step true s o).2)).2 = none ∧
    Sim (m.step (mopOf s o) (obsOf (step true s o).1 (step true s o).2)).1 (step true s o).1 := by
  have := check_stepL [] o hI hS
  rwa [obsOfL_nil] at this

/-- the monitor accepts the whole observable trace of the model — whatever the cluster provider
refuses — from any state that satisfies the invariant and is in step with the monitor -/
theorem runAll_noneL {hist : List Op} {s : St} {m : Mon} (sc : List Bool) (ops : List Op) (hI : RInv hist s) (hS : Sim m s) :
    m.runAll (traceOfL sc s ops) = none := by
  induction ops generalizing hist s m sc with
  | nil => rfl
  | cons o os ih =>
    obtain ⟨h1, h2⟩ := check_stepL sc o hI hS
    simp only [traceOfL, Mon.runAll, h1]
    exact ih _ (hI.step o) h2

/-- the monitor accepts the whole observable trace of the model from any state that
satisfies the invariant and is in step with the monitor -/
theorem runAll_none {hist : List Op} {s : St} {m : Mon} (ops : List Op) (hI : RInv hist s) (hS : Sim m s) :
    m.runAll (traceOf s ops) = none := by
  rw [← traceOfL_nil]; exact runAll_noneL [] ops hI hS


/-! ### the start of a case -/

theorem autoAcks_qack (k : List Kind) (off : Nat) (o : Op) (h : o ∈ autoAcks off k) : ∃ i b, o = .qack i b := by
  induction k generalizing off with
  | nil => simp [autoAcks] at h
  | cons a rest ih =>
    simp only [autoAcks, List.mem_append] at h
    rcases h with h | h
    · cases a <;> simp at h <;> exact ⟨_, _, h⟩
    · exact ih _ h

theorem autoAcks_ok (k : List Kind) (off i : Nat) (h : Op.qack i true ∈ autoAcks off k) :
    off ≤ i ∧ k[i - off]? = some Kind.nodeOk := by
  induction k generalizing off with
  | nil => simp [autoAcks] at h
  | cons a rest ih =>
    simp only [autoAcks, List.mem_append] at h
    rcases h with h | h
    · cases a <;> simp at h
      subst h; simp
    · obtain ⟨h1, h2⟩ := ih _ h
      refine ⟨by omega, ?_⟩
      have : i - off = (i - (off + 1)) + 1 := by omega
      rw [this, List.getElem?_cons_succ]; exact h2

/-- support answers emit nothing and touch neither the state, the reports nor the pending stops -/
theorem run_qacks (f : Bool) (s : St) (ops : List Op) (h : ∀ o, o ∈ ops → ∃ i b, o = .qack i b) :
    (run f s ops).2 = [] ∧ (run f s ops).1.st = s.st ∧ (run f s ops).1.retired = s.retired ∧
    (run f s ops).1.unres = s.unres := by
  induction ops generalizing s with
  | nil => exact ⟨rfl, rfl, rfl, rfl⟩
  | cons o os ih =>
    obtain ⟨i, b, rfl⟩ := h o List.mem_cons_self
    have hstep : (step f s (.qack i b)).2 = [] ∧ (step f s (.qack i b)).1.st = s.st ∧
        (step f s (.qack i b)).1.retired = s.retired ∧ (step f s (.qack i b)).1.unres = s.unres := by
      simp only [step, queryAck]; (repeat' split) <;> exact ⟨rfl, rfl, rfl, rfl⟩
    obtain ⟨a1, a2, a3, a4⟩ := ih (step f s (.qack i b)).1 (fun o ho => h o (List.mem_cons_of_mem _ ho))
    simp only [run]
    exact ⟨by rw [hstep.1, a1]; rfl, a2.trans hstep.2.1, a3.trans hstep.2.2.1, a4.trans hstep.2.2.2⟩

/-- the services the start-up probe reaches -/
def probeList (kinds : List Kind) : List Nat :=
  (List.range kinds.length).filter (fun i => !((List.range kinds.length).filter (fun i => !reachableAt kinds i)).contains i)

theorem mem_probeList (kinds : List Kind) (i : Nat) :
    i ∈ probeList kinds ↔ i < kinds.length ∧ reachableAt kinds i = true := by
  simp only [probeList, List.mem_filter, List.mem_range, List.contains_iff_mem, Bool.not_eq_true',
    decide_eq_false_iff_not, not_and, Bool.not_eq_false, Bool.not_eq_eq_eq_not, Bool.not_true]
  constructor
  · rintro ⟨h1, h2⟩
    refine ⟨h1, ?_⟩
    cases hr : reachableAt kinds i
    · simp [hr] at h2; exact absurd h1 (by omega)
    · rfl
  · rintro ⟨h1, h2⟩; exact ⟨h1, by simp [h2]⟩

theorem boot_facts (kinds : List Kind) (mode : StopMode) :
    (boot true kinds mode).2 = (probeList kinds).map (fun i => Evt.send i .queryretire) ∧
    (boot true kinds mode).1.st = .working ∧ (boot true kinds mode).1.retired = [] ∧
    (boot true kinds mode).1.unres = (List.range kinds.length).filter (fun i => !reachableAt kinds i) := by
  have h := run_qacks true (start kinds mode) (history kinds []) (by
    intro o ho; simp only [history, List.append_nil] at ho; exact autoAcks_qack kinds 0 o ho)
  simp only [boot, exec]
  exact ⟨by rw [h.1]; simp [tellAll_eq_map, probeList, start], h.2.1, h.2.2.1, h.2.2.2⟩

/-- the probe observation of the model is accepted, and the monitor is then in step with the model -/
theorem reset_ok (kinds : List Kind) (mode : StopMode) :
    (Mon.reset kinds (obsOf (boot true kinds mode).1 (boot true kinds mode).2) (inlineOf mode)).2 = none ∧
    Sim (Mon.reset kinds (obsOf (boot true kinds mode).1 (boot true kinds mode).2) (inlineOf mode)).1
      (boot true kinds mode).1 := by
  obtain ⟨be, bs, br, bu⟩ := boot_facts kinds mode
  have hI : RInv (history kinds []) (boot true kinds mode).1 := RInv.exec kinds [] mode
  have hk : (boot true kinds mode).1.kinds = kinds := exec_kinds true kinds [] mode
  have hm : (boot true kinds mode).1.stopMode = mode := exec_mode true kinds [] mode
  have hobs : obsOf (boot true kinds mode).1 (boot true kinds mode).2 =
      { reply := none, pubs := [], upd := [], stops := 0,
        sent := (probeList kinds).map (fun i => (i, SCmd.queryretire)), st := .working } := by
    have e1 : replyOf ((probeList kinds).map (fun i => Evt.send i SCmd.queryretire)) = none := by
      have := replyOf_sends_append SCmd.queryretire (probeList kinds) []
      simpa using this
    have e3 : stops ((probeList kinds).map (fun i => Evt.send i SCmd.queryretire)) = 0 := by
      induction probeList kinds with
      | nil => rfl
      | cons a l ih => simpa using ih
    simp only [obsOf, be, bs, e1, e3, pubsOf_sends, sentOf_sends]
  rw [hobs]
  have hsent : ∀ i, ((probeList kinds).map (fun i => (i, SCmd.queryretire))).contains (i, SCmd.queryretire) = true ↔
      (i < kinds.length ∧ reachableAt kinds i = true) := by
    intro i
    rw [List.contains_iff_mem, ← mem_probeList]
    simp
  have hprobed : ((List.range kinds.length).all fun i =>
      !probedAt kinds i ||
        ((probeList kinds).map (fun i => (i, SCmd.queryretire))).contains (i, SCmd.queryretire)) = true := by
    rw [List.all_eq_true]
    intro i hi
    have hi' := List.mem_range.mp hi
    cases hp : probedAt kinds i
    · simp
    · have : reachableAt kinds i = true := by
        unfold probedAt at hp
        unfold reachableAt
        cases hk : kinds[i]? with
        | none => simp [hk] at hp
        | some k => simp only [hk] at hp ⊢; cases k <;> simp_all [probedKind, Kind.reachable]
      have hc := (hsent i).mpr ⟨hi', this⟩
      rw [hc]; simp
  simp only [Mon.reset, hprobed, ↓reduceIte]
  refine ⟨?_, ?_⟩
  · simp only [Mon.step, Mon.learn]
    apply clauses_none
    · refine ⟨?_, ?_, ?_, ?_, ?_, ?_⟩
      · intro h; cases h
      · intro h; cases h
      · intro h; cases h
      · intro h
        simp only [List.any_map, List.any_eq_true] at h
        obtain ⟨_, _, h⟩ := h
        simp at h
      · intro h; cases h
      · intro h; cases h
    · rfl
    · rfl
    · rfl
    · simp [Mon.init]
    · intro h; simp [NS.rank] at h
    · intro hpos hall
      rw [allIn_iff] at hall
      simp only [Mon.init] at hpos hall
      exact absurd (hall 0 hpos) (by simp)
    · intro h; cases h
    · intro h; simp [stopSucceedsNow, isStopDoneOk] at h
  · simp only [Mon.step, Mon.learn, Mon.init]
    refine ⟨by rw [hk], ?_, ?_, bs.symm, Nat.zero_le _, (by rw [bs]; intro h; cases h), (by rw [hm]), bu.symm⟩
    · intro i hi
      have h1 := hI.sup_decl i hi
      simp only [history, List.append_nil] at h1
      obtain ⟨_, h2⟩ := autoAcks_ok kinds 0 i h1
      simp only [Nat.sub_zero] at h2
      have hlt : i < kinds.length := (List.getElem?_eq_some_iff.mp h2).1
      simp only [List.mem_filter, List.mem_range, Bool.and_eq_true, beq_iff_eq]
      exact ⟨hlt, h2, (hsent i).mpr ⟨hlt, by simp [reachableAt, h2, Kind.reachable]⟩⟩
    · intro i; rw [br]

end Cell2v.Spec.C12
