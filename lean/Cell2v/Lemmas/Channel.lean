import Cell2v.Model.Channel
/-!
Helper lemmas for C16: association-list laws, `removeGo = erase`, the
well-formedness invariant of reachable states, and the per-step simulation
between the concrete state and the abstract folds.
-/
namespace Cell2v.Channel

/-! ### association lists -/

theorem aget_aset_same {α : Type} (m : AL α) (k : String) (v : α) : aget (aset m k v) k = some v := by
  induction m with
  | nil => simp [aset, aget]
  | cons e m ih =>
    obtain ⟨k', v'⟩ := e
    by_cases h : k' = k <;> simp [aset, aget, h, ih]

theorem aget_aset_other {α : Type} (m : AL α) (k k' : String) (v : α) (h : k ≠ k') :
    aget (aset m k v) k' = aget m k' := by
  induction m with
  | nil => simp [aset, aget, h]
  | cons e m ih =>
    obtain ⟨k₀, v₀⟩ := e
    by_cases h1 : k₀ = k
    · subst h1; simp [aset, aget, h]
    · by_cases h2 : k₀ = k'
      · subst h2; simp [aset, aget, h1]
      · simp [aset, aget, h1, h2, ih]

theorem aset_self {α : Type} (m : AL α) (k : String) (v : α) (h : aget m k = some v) : aset m k v = m := by
  induction m with
  | nil => simp [aget] at h
  | cons e m ih =>
    obtain ⟨k₀, v₀⟩ := e
    by_cases h1 : k₀ = k
    · simp [aget, h1] at h; simp [aset, h1, h]
    · simp [aget, h1] at h; simp [aset, h1, ih h]

theorem adel_cons {α : Type} (k₀ : String) (v₀ : α) (m : AL α) (k : String) :
    adel ((k₀, v₀) :: m) k = if k₀ = k then adel m k else (k₀, v₀) :: adel m k := by
  by_cases h : k₀ = k <;> simp [adel, h]

theorem aget_adel_same {α : Type} (m : AL α) (k : String) : aget (adel m k) k = none := by
  induction m with
  | nil => simp [adel, aget]
  | cons e m ih =>
    obtain ⟨k₀, v₀⟩ := e
    rw [adel_cons]
    by_cases h1 : k₀ = k
    · simp [h1, ih]
    · simp [h1, aget, ih]

theorem aget_adel_other {α : Type} (m : AL α) (k k' : String) (h : k ≠ k') :
    aget (adel m k) k' = aget m k' := by
  induction m with
  | nil => simp [adel, aget]
  | cons e m ih =>
    obtain ⟨k₀, v₀⟩ := e
    rw [adel_cons]
    by_cases h1 : k₀ = k
    · subst h1; simp [aget, h, ih]
    · by_cases h2 : k₀ = k'
      · subst h2; simp [h1, aget]
      · simp [h1, h2, aget, ih]

theorem mem_aset {α : Type} (m : AL α) (k : String) (v : α) (e : String × α) (h : e ∈ aset m k v) :
    e ∈ m ∨ e.2 = v := by
  induction m with
  | nil => simp [aset] at h; right; simp [h]
  | cons e₀ m ih =>
    obtain ⟨k₀, v₀⟩ := e₀
    by_cases h1 : k₀ = k
    · simp [aset, h1] at h
      rcases h with h | h
      · right; simp [h]
      · left; simp [h]
    · simp [aset, h1] at h
      rcases h with h | h
      · left; simp [h]
      · rcases ih h with h' | h'
        · left; simp [h']
        · right; exact h'

theorem mem_adel {α : Type} (m : AL α) (k : String) (e : String × α) (h : e ∈ adel m k) : e ∈ m := by
  simp [adel] at h; exact h.1

theorem akeys_aset {α : Type} (m : AL α) (k : String) (v : α) :
    akeys (aset m k v) = if k ∈ akeys m then akeys m else akeys m ++ [k] := by
  induction m with
  | nil => simp [aset, akeys]
  | cons e m ih =>
    obtain ⟨k₀, v₀⟩ := e
    by_cases h1 : k₀ = k
    · subst h1; simp [aset, akeys]
    · have h1' : ¬ k = k₀ := fun h => h1 h.symm
      simp only [akeys] at ih
      by_cases h2 : k ∈ List.map (fun x => x.1) m <;> simp [aset, akeys, h1, h1', h2, ih]

theorem akeys_aset_nodup {α : Type} (m : AL α) (k : String) (v : α) (h : (akeys m).Nodup) :
    (akeys (aset m k v)).Nodup := by
  rw [akeys_aset]
  by_cases h2 : k ∈ akeys m
  · simp [h2, h]
  · simp only [h2, if_false]
    rw [List.nodup_append]
    refine ⟨h, by simp, ?_⟩
    intro a ha b hb
    simp at hb; subst hb
    intro hab; subst hab; exact h2 ha

theorem aget_none_of_not_mem_keys {α : Type} (m : AL α) (k : String) (h : k ∉ akeys m) : aget m k = none := by
  induction m with
  | nil => simp [aget]
  | cons e m ih =>
    obtain ⟨k₀, v₀⟩ := e
    simp [akeys] at h
    have h1 : ¬ k₀ = k := fun hh => h.1 hh.symm
    simp [aget, h1]
    apply ih
    simpa [akeys] using h.2

theorem mem_keys_of_aget {α : Type} (m : AL α) (k : String) (v : α) (h : aget m k = some v) : k ∈ akeys m := by
  by_cases hk : k ∈ akeys m
  · exact hk
  · rw [aget_none_of_not_mem_keys m k hk] at h; cases h

theorem aget_some_of_mem_keys {α : Type} (m : AL α) (k : String) (h : k ∈ akeys m) : ∃ v, aget m k = some v := by
  induction m with
  | nil => simp [akeys] at h
  | cons e m ih =>
    obtain ⟨k₀, v₀⟩ := e
    by_cases h0 : k₀ = k
    · exact ⟨v₀, by simp [aget, h0]⟩
    · simp [akeys] at h
      rcases h with h | h
      · exact absurd h.symm h0
      · obtain ⟨v, hv⟩ := ih (by simpa [akeys] using h)
        exact ⟨v, by simp [aget, h0, hv]⟩

/-- with distinct keys, the entries of key `k` are exactly what `aget` finds -/
theorem filter_key {α : Type} (m : AL α) (k : String) (hn : (akeys m).Nodup) :
    m.filter (fun e => decide (e.1 = k)) = match aget m k with | none => [] | some v => [(k, v)] := by
  induction m with
  | nil => simp [aget]
  | cons e m ih =>
    obtain ⟨k₀, v₀⟩ := e
    simp [akeys] at hn
    have hn2 : (akeys m).Nodup := by simpa [akeys] using hn.2
    by_cases h1 : k₀ = k
    · subst h1
      have : aget m k₀ = none := aget_none_of_not_mem_keys m k₀ (by simpa [akeys] using hn.1)
      have ih' := ih hn2
      rw [this] at ih'
      simp [aget, List.filter, ih']
    · simp [aget, List.filter, h1, ih hn2]

/-! ### FrontGroup.Remove deletes the first occurrence -/

theorem findIndex_none (l : List Nat) (x : Nat) (h : findIndex l x = none) : x ∉ l := by
  induction l with
  | nil => simp
  | cons y l ih =>
    by_cases hxy : x = y
    · simp [findIndex, hxy] at h
    · simp [findIndex, hxy] at h
      simp [hxy, ih h]

theorem findIndex_some (l : List Nat) (x i : Nat) (h : findIndex l x = some i) :
    i < l.length ∧ l.erase x = l.take i ++ l.drop (i + 1) := by
  induction l generalizing i with
  | nil => simp [findIndex] at h
  | cons y l ih =>
    by_cases hxy : x = y
    · simp [findIndex, hxy] at h
      subst h; subst hxy; simp
    · simp [findIndex, hxy] at h
      obtain ⟨j, hj, rfl⟩ := h
      have := ih j hj
      have hyx : ¬ y = x := fun hh => hxy hh.symm
      refine ⟨by simp; omega, ?_⟩
      simp [hyx, this.2]

/-- all three slice cases of `FrontGroup.Remove` (first / last / middle) together
are "erase the first occurrence, if any" -/
theorem removeGo_eq_erase (l : List Nat) (x : Nat) : removeGo l x = l.erase x := by
  unfold removeGo
  cases h : findIndex l x with
  | none => simp [List.erase_of_not_mem (findIndex_none l x h)]
  | some i =>
    obtain ⟨hi, he⟩ := findIndex_some l x i h
    simp only
    by_cases h0 : i = 0
    · subst h0; simp [he]
    · by_cases h1 : i = l.length - 1
      · have : l.drop (i + 1) = [] := by apply List.drop_eq_nil_of_le; omega
        simp [h0, h1.symm, he, this]
      · simp [h0, h1, he]

/-! ### well-formed (reachable) service states -/

/-- the front keys of every channel are distinct, channel identities are distinct and
not larger than the creation counter -/
structure WF (s : Svc) : Prop where
  groups : ∀ e ∈ s.chans, (akeys e.2.groups).Nodup
  uids : ∀ e ∈ s.chans, e.2.uid ≤ s.created

theorem Chan.add_keys_nodup (c : Chan) (f : String) (x : Nat) (h : (akeys c.groups).Nodup) :
    (akeys (c.add f x).groups).Nodup := by
  unfold Chan.add
  split <;> exact akeys_aset_nodup _ _ _ h

theorem Chan.leave_keys_nodup (c : Chan) (f : String) (x : Nat) (h : (akeys c.groups).Nodup) :
    (akeys (c.leave f x).groups).Nodup := by
  unfold Chan.leave
  split
  · exact akeys_aset_nodup _ _ _ h
  · exact h

theorem Chan.add_uid (c : Chan) (f : String) (x : Nat) : (c.add f x).uid = c.uid := by
  unfold Chan.add; split <;> rfl

theorem Chan.leave_uid (c : Chan) (f : String) (x : Nat) : (c.leave f x).uid = c.uid := by
  unfold Chan.leave; split <;> rfl

theorem mem_of_aget {α : Type} (m : AL α) (k : String) (v : α) (h : aget m k = some v) : ∃ k', (k', v) ∈ m := by
  induction m with
  | nil => simp [aget] at h
  | cons e m ih =>
    obtain ⟨k₀, v₀⟩ := e
    by_cases h1 : k₀ = k
    · simp [aget, h1] at h; exact ⟨k₀, by simp [h]⟩
    · simp [aget, h1] at h
      obtain ⟨k', hk'⟩ := ih h
      exact ⟨k', by simp [hk']⟩

theorem WF.init : WF ⟨[], 0⟩ := ⟨by simp, by simp⟩

theorem WF.addChannel {s : Svc} (h : WF s) (n : String) :
    WF (s.addChannel n).1 ∧ (akeys (s.addChannel n).2.groups).Nodup ∧ (s.addChannel n).2.uid ≤ (s.addChannel n).1.created := by
  unfold Svc.addChannel
  cases hg : aget s.chans n with
  | some c =>
    obtain ⟨k', hk'⟩ := mem_of_aget _ _ _ hg
    exact ⟨h, h.groups _ hk', h.uids _ hk'⟩
  | none =>
    refine ⟨⟨?_, ?_⟩, by simp [akeys], by simp⟩
    · intro e he
      rcases mem_aset _ _ _ _ he with h1 | h1
      · exact h.groups e h1
      · simp [h1, akeys]
    · intro e he
      rcases mem_aset _ _ _ _ he with h1 | h1
      · exact Nat.le_succ_of_le (h.uids e h1)
      · rw [h1]; exact Nat.le_refl _

theorem WF.deleteChannel {s : Svc} (h : WF s) (n : String) : WF (s.deleteChannel n) :=
  ⟨fun e he => h.groups e (mem_adel _ _ _ he), fun e he => h.uids e (mem_adel _ _ _ he)⟩

theorem WF.addToChannel {s : Svc} (h : WF s) (n f : String) (x : Nat) : WF (s.addToChannel n f x).1 := by
  obtain ⟨h1, h2, h3⟩ := h.addChannel n
  unfold Svc.addToChannel
  refine ⟨?_, ?_⟩
  · intro e he
    rcases mem_aset _ _ _ _ he with h4 | h4
    · exact h1.groups e h4
    · rw [h4]; exact Chan.add_keys_nodup _ _ _ h2
  · intro e he
    rcases mem_aset _ _ _ _ he with h4 | h4
    · exact h1.uids e h4
    · rw [h4, Chan.add_uid]; exact h3

theorem WF.leaveFromChannel {s : Svc} (h : WF s) (n f : String) (x : Nat) : WF (s.leaveFromChannel n f x) := by
  unfold Svc.leaveFromChannel Svc.getChannel
  cases hg : aget s.chans n with
  | none => exact h
  | some c =>
    obtain ⟨k', hk'⟩ := mem_of_aget _ _ _ hg
    refine ⟨?_, ?_⟩
    · intro e he
      rcases mem_aset _ _ _ _ he with h4 | h4
      · exact h.groups e h4
      · rw [h4]; exact Chan.leave_keys_nodup _ _ _ (h.groups _ hk')
    · intro e he
      rcases mem_aset _ _ _ _ he with h4 | h4
      · exact h.uids e h4
      · rw [h4, Chan.leave_uid]; exact h.uids _ hk'

theorem WF.step (ser : String → List Nat) {s : St} (h : WF s.svc) (op : Op) : WF (step ser s op).1.svc := by
  cases op with
  | addch c => exact (h.addChannel c).1
  | getch c => exact h
  | delch c => exact h.deleteChannel c
  | join c f x => exact h.addToChannel c f x
  | leave c f x => exact h.leaveFromChannel c f x
  | bcast c r m => exact h
  | sadd => exact h
  | sdel id => exact h
  | spush ids r d => exact h
  | sclose id => exact h

theorem WF.run (ser : String → List Nat) (ops : List Op) {s : St} (h : WF s.svc) : WF (run ser s ops).svc := by
  induction ops generalizing s with
  | nil => exact h
  | cons op ops ih => exact ih (h.step ser op)

/-! ### simulation: concrete state vs. the folds over the history -/

theorem view_addChannel (s : Svc) (n c f : String) :
    view (s.addChannel n).1 c f = view s c f := by
  unfold Svc.addChannel view
  cases hg : aget s.chans n with
  | some ch => rfl
  | none =>
    by_cases h : n = c
    · subst h; simp [aget_aset_same, hg, aget]
    · simp [aget_aset_other _ _ _ _ h]

theorem addChannel_get (s : Svc) (n : String) : aget (s.addChannel n).1.chans n = some (s.addChannel n).2 := by
  unfold Svc.addChannel
  cases hg : aget s.chans n with
  | some ch => simp [hg]
  | none => simp [aget_aset_same]

theorem view_step (ser : String → List Nat) (s : St) (op : Op) (c f : String) :
    view (step ser s op).1.svc c f = stepView c f (view s.svc c f) op := by
  cases op with
  | addch n => simp [step, stepView, view_addChannel]
  | getch n => rfl
  | delch n =>
    simp only [step, stepView, Svc.deleteChannel, view]
    by_cases h : n = c
    · subst h; simp [aget_adel_same]
    · simp [aget_adel_other _ _ _ h, h]
  | join n f' x =>
    simp only [step, stepView, Svc.addToChannel]
    have hget := addChannel_get s.svc n
    have hv := view_addChannel s.svc n
    by_cases hc : n = c
    · subst hc
      unfold view at hv ⊢
      simp only [aget_aset_same, Option.bind]
      have hv' := hv n
      rw [hget] at hv'
      simp only [Option.bind] at hv'
      by_cases hf : f' = f
      · subst hf
        rw [← hv' f']
        unfold Chan.add
        cases hg : aget (s.svc.addChannel n).2.groups f' <;> simp [aget_aset_same]
      · rw [← hv' f]
        unfold Chan.add
        cases hg : aget (s.svc.addChannel n).2.groups f' <;> simp [aget_aset_other _ _ _ _ hf, hf]
    · have := hv c f
      unfold view at this ⊢
      simp [aget_aset_other _ _ _ _ hc, hc, this]
  | leave n f' x =>
    simp only [step, stepView, Svc.leaveFromChannel, Svc.getChannel]
    by_cases hc : n = c
    · subst hc
      unfold view
      cases hg : aget s.svc.chans n with
      | none => simp [hg]
      | some ch =>
        simp only [aget_aset_same, Option.bind]
        unfold Chan.leave
        by_cases hf : f' = f
        · subst hf
          cases hg2 : aget ch.groups f' <;> simp [hg2, aget_aset_same, removeGo_eq_erase]
        · cases hg2 : aget ch.groups f' <;> simp [aget_aset_other _ _ _ _ hf, hf]
    · unfold view
      cases hg : aget s.svc.chans n <;> simp [aget_aset_other _ _ _ _ hc, hc]
  | bcast n r m => rfl
  | sadd => rfl
  | sdel id => rfl
  | spush ids r d => rfl
  | sclose id => rfl

theorem view_run (ser : String → List Nat) (s : St) (ops : List Op) (c f : String) :
    view (run ser s ops).svc c f = ops.foldl (stepView c f) (view s.svc c f) := by
  induction ops generalizing s with
  | nil => rfl
  | cons op ops ih => simp only [run, List.foldl_cons] at ih ⊢; rw [ih, view_step]

theorem exists_step (ser : String → List Nat) (s : St) (op : Op) (c : String) :
    (aget (step ser s op).1.svc.chans c).isSome = stepExists c (aget s.svc.chans c).isSome op := by
  cases op with
  | addch n =>
    simp only [step, stepExists]
    by_cases h : n = c
    · subst h; simp [addChannel_get]
    · unfold Svc.addChannel
      cases hg : aget s.svc.chans n <;> simp [h, aget_aset_other _ _ _ _ h]
  | getch n => rfl
  | delch n =>
    simp only [step, stepExists, Svc.deleteChannel]
    by_cases h : n = c
    · subst h; simp [aget_adel_same]
    · simp [h, aget_adel_other _ _ _ h]
  | join n f x =>
    simp only [step, stepExists, Svc.addToChannel]
    by_cases h : n = c
    · subst h; simp [aget_aset_same]
    · simp only [h, if_false, aget_aset_other _ _ _ _ h]
      unfold Svc.addChannel
      cases hg : aget s.svc.chans n <;> simp [aget_aset_other _ _ _ _ h]
  | leave n f x =>
    simp only [step, stepExists, Svc.leaveFromChannel, Svc.getChannel]
    cases hg : aget s.svc.chans n with
    | none => simp
    | some ch =>
      by_cases h : n = c
      · subst h; simp [aget_aset_same, hg]
      · simp [aget_aset_other _ _ _ _ h]
  | bcast n r m => rfl
  | sadd => rfl
  | sdel id => rfl
  | spush ids r d => rfl
  | sclose id => rfl

theorem exists_run (ser : String → List Nat) (s : St) (ops : List Op) (c : String) :
    (aget (run ser s ops).svc.chans c).isSome = ops.foldl (stepExists c) (aget s.svc.chans c).isSome := by
  induction ops generalizing s with
  | nil => rfl
  | cons op ops ih => simp only [run, List.foldl_cons] at ih ⊢; rw [ih, exists_step]

theorem front_step_chan (ser : String → List Nat) (s : St) (op : Op)
    (h : match op with | .sadd => False | .sdel _ => False | .sclose _ => False | _ => True) :
    (step ser s op).1.front = s.front ∧ (step ser s op).1.localFront = s.localFront := by
  cases op <;> simp_all [step]

theorem localFront_step (ser : String → List Nat) (s : St) (op : Op) :
    (step ser s op).1.localFront = s.localFront := by
  cases op <;> rfl

theorem localFront_run (ser : String → List Nat) (s : St) (ops : List Op) :
    (run ser s ops).localFront = s.localFront := by
  induction ops generalizing s with
  | nil => rfl
  | cons op ops ih => simp only [run, List.foldl_cons] at ih ⊢; rw [ih, localFront_step]

/-! ### reachable states -/

theorem view_init (lf c f : String) : view (init lf).svc c f = none := rfl

theorem reach_view (ser : String → List Nat) (lf : String) (ops : List Op) (c f : String) :
    view (run ser (init lf) ops).svc c f = members ops c f := by
  rw [view_run, view_init]; rfl

theorem reach_exists (ser : String → List Nat) (lf : String) (ops : List Op) (c : String) :
    (aget (run ser (init lf) ops).svc.chans c).isSome = chanExists ops c := by
  rw [exists_run]; rfl

theorem reach_wf (ser : String → List Nat) (lf : String) (ops : List Op) : WF (run ser (init lf) ops).svc :=
  WF.run ser ops WF.init

/-! ### fold invariants: count and order -/

theorem tally_step (c f : String) (x : Nat) (v : Option (List Nat)) (t : Tally) (op : Op)
    (h : (v.getD []).count x = t.adds - t.left ∧ t.left ≤ t.adds) :
    ((stepView c f v op).getD []).count x = (stepTally c f x t op).adds - (stepTally c f x t op).left ∧
    (stepTally c f x t op).left ≤ (stepTally c f x t op).adds := by
  obtain ⟨h1, h2⟩ := h
  cases op with
  | join c' f' y =>
    simp only [stepView, stepTally]
    by_cases hcf : c' = c ∧ f' = f
    · by_cases hy : y = x
      · subst hy; simp [hcf, List.count_append, h1]; omega
      · have : ¬ (c' = c ∧ f' = f ∧ y = x) := fun hh => hy hh.2.2
        simp [hcf, List.count_append, h1, h2, hy]
    · have : ¬ (c' = c ∧ f' = f ∧ y = x) := fun hh => hcf ⟨hh.1, hh.2.1⟩
      simp [hcf, this, h1, h2]
  | leave c' f' y =>
    simp only [stepView, stepTally]
    by_cases hcf : c' = c ∧ f' = f
    · by_cases hy : y = x
      · subst hy
        cases v with
        | none =>
          simp at h1
          have : ¬ t.left < t.adds := by omega
          simp [hcf, this]; omega
        | some l =>
          simp at h1
          by_cases hlt : t.left < t.adds
          · simp [hcf, hlt, List.count_erase_self, h1]; omega
          · have hz : l.count y = 0 := by omega
            have : y ∉ l := by simpa [List.count_eq_zero] using hz
            simp [hcf, hlt, List.erase_of_not_mem this, h1, h2]
      · have hxy : x ≠ y := fun hh => hy hh.symm
        cases v with
        | none => simp at h1; simp [hcf, hy, h2, h1]
        | some l => simp at h1; simp [hcf, hy, h2, List.count_erase_of_ne hxy, h1]
    · have : ¬ (c' = c ∧ f' = f ∧ y = x ∧ t.left < t.adds) := fun hh => hcf ⟨hh.1, hh.2.1⟩
      simp [hcf, this, h1, h2]
  | delch c' =>
    simp only [stepView, stepTally]
    by_cases hc : c' = c <;> simp [hc, h1, h2]
  | addch _ => exact ⟨h1, h2⟩
  | getch _ => exact ⟨h1, h2⟩
  | bcast _ _ _ => exact ⟨h1, h2⟩
  | sadd => exact ⟨h1, h2⟩
  | sdel _ => exact ⟨h1, h2⟩
  | spush _ _ _ => exact ⟨h1, h2⟩
  | sclose _ => exact ⟨h1, h2⟩

theorem tally_fold (c f : String) (x : Nat) (ops : List Op) (v : Option (List Nat)) (t : Tally)
    (h : (v.getD []).count x = t.adds - t.left ∧ t.left ≤ t.adds) :
    ((ops.foldl (stepView c f) v).getD []).count x
        = (ops.foldl (stepTally c f x) t).adds - (ops.foldl (stepTally c f x) t).left ∧
    (ops.foldl (stepTally c f x) t).left ≤ (ops.foldl (stepTally c f x) t).adds := by
  induction ops generalizing v t with
  | nil => exact h
  | cons op ops ih => exact ih _ _ (tally_step c f x v t op h)

theorem joinSeq_step (c f : String) (v : Option (List Nat)) (j : List Nat) (op : Op)
    (h : (v.getD []).Sublist j) : ((stepView c f v op).getD []).Sublist (stepJoinSeq c f j op) := by
  cases op with
  | join c' f' y =>
    simp only [stepView, stepJoinSeq]
    by_cases hcf : c' = c ∧ f' = f
    · simp only [hcf, and_self, if_true, Option.getD_some]
      exact List.Sublist.append h (List.Sublist.refl _)
    · simp [hcf, h]
  | leave c' f' y =>
    simp only [stepView, stepJoinSeq]
    by_cases hcf : c' = c ∧ f' = f
    · cases v with
      | none => simp [hcf]
      | some l => simp only [hcf, and_self, if_true, Option.map_some, Option.getD_some] at h ⊢
                  exact List.Sublist.trans List.erase_sublist h
    · simp [hcf, h]
  | delch c' =>
    simp only [stepView, stepJoinSeq]
    by_cases hc : c' = c <;> simp [hc, h]
  | addch _ => exact h
  | getch _ => exact h
  | bcast _ _ _ => exact h
  | sadd => exact h
  | sdel _ => exact h
  | spush _ _ _ => exact h
  | sclose _ => exact h

theorem joinSeq_fold (c f : String) (ops : List Op) (v : Option (List Nat)) (j : List Nat)
    (h : (v.getD []).Sublist j) :
    ((ops.foldl (stepView c f) v).getD []).Sublist (ops.foldl (stepJoinSeq c f) j) := by
  induction ops generalizing v j with
  | nil => exact h
  | cons op ops ih => exact ih _ _ (joinSeq_step c f v j op h)

/-- a group exists exactly when a join addressed it since the channel was last deleted -/
def stepHasGroup (c f : String) (b : Bool) : Op → Bool
  | .join c' f' _ => if c' = c ∧ f' = f then true else b
  | .delch c' => if c' = c then false else b
  | _ => b

theorem hasGroup_fold (c f : String) (ops : List Op) (v : Option (List Nat)) (b : Bool) (h : v.isSome = b) :
    (ops.foldl (stepView c f) v).isSome = ops.foldl (stepHasGroup c f) b := by
  induction ops generalizing v b with
  | nil => exact h
  | cons op ops ih =>
    apply ih
    cases op <;> simp only [stepView, stepHasGroup] <;> (try exact h)
    · split <;> simp_all
    · split <;> simp_all
    · split <;> simp_all

/-! ### front-end fan-out -/

theorem addSession_mem (fr : Front) : fr.addSession.2 ∈ fr.addSession.1.live := by
  unfold Front.addSession
  by_cases h : (allocId fr.nextId).1 ∈ fr.live <;> simp [h]

theorem addSession_nodup (fr : Front) (h : fr.live.Nodup) : fr.addSession.1.live.Nodup := by
  unfold Front.addSession
  by_cases hm : (allocId fr.nextId).1 ∈ fr.live
  · simp [hm, h]
  · simp only [hm, if_false]
    rw [List.nodup_append]
    refine ⟨h, by simp, ?_⟩
    intro a ha b hb
    simp at hb; subst hb
    intro hab; subst hab; exact hm ha

theorem removeSession_nodup (fr : Front) (id : Nat) (h : fr.live.Nodup) : (fr.removeSession id).1.live.Nodup := by
  unfold Front.removeSession
  by_cases hm : id ∈ fr.live
  · simp only [hm, if_true]; exact h.erase id
  · simp [hm, h]

theorem live_nodup_step (ser : String → List Nat) (s : St) (op : Op) (h : s.front.live.Nodup) :
    (step ser s op).1.front.live.Nodup := by
  cases op with
  | sadd => exact addSession_nodup _ h
  | sdel id => exact removeSession_nodup _ id h
  | sclose id =>
    show (s.front.closeSession id).1.live.Nodup
    unfold Front.closeSession
    by_cases hm : id ∈ s.front.live <;> simp [hm, h]
  | _ => exact h

theorem live_nodup_run (ser : String → List Nat) (s : St) (ops : List Op) (h : s.front.live.Nodup) :
    (run ser s ops).front.live.Nodup := by
  induction ops generalizing s with
  | nil => exact h
  | cons op ops ih => exact ih _ (live_nodup_step ser s op h)


theorem pushMsg_ids (live ids : List Nat) (route : String) (data : List Nat) :
    (pushMsg live ids route data).map (·.id) = ids.filter (fun i => decide (i ∈ live)) := by
  simp [pushMsg, List.map_map, Function.comp_def]

theorem filter_front_of_filter (ps : List Push) (f : String) (g : String → Bool) :
    (ps.filter (fun p => g p.front)).filter (fun p => decide (p.front = f))
      = if g f then ps.filter (fun p => decide (p.front = f)) else [] := by
  induction ps with
  | nil => simp
  | cons p ps ih =>
    by_cases hp : p.front = f
    · subst hp
      cases hg : g p.front <;> simp_all
    · cases hg : g p.front <;> cases hgf : g f <;> simp_all

theorem flatMap_front (ps : List Push) (b : String) (k : Push → List Delivery) :
    (ps.flatMap fun p => if p.front = b then k p else [])
      = (ps.filter (fun p => decide (p.front = b))).flatMap k := by
  induction ps with
  | nil => rfl
  | cons p ps ih => by_cases hp : p.front = b <;> simp [List.flatMap_cons, hp, ih]

/-! ### the "sessions" component flag and the independence of the channel map from the sessions -/

theorem noSessions_step (ser : String → List Nat) (s : St) (op : Op) : (step ser s op).1.noSessions = s.noSessions := by
  cases op <;> rfl

theorem noSessions_run (ser : String → List Nat) (s : St) (ops : List Op) : (run ser s ops).noSessions = s.noSessions := by
  induction ops generalizing s with
  | nil => rfl
  | cons op ops ih => simp only [run, List.foldl_cons] at ih ⊢; rw [ih, noSessions_step]

/-- the channel map evolves the same whatever the sessions, the local name and the component flag are -/
theorem svc_step_indep (ser : String → List Nat) (s₁ s₂ : St) (op : Op) (h : s₁.svc = s₂.svc) :
    (step ser s₁ op).1.svc = (step ser s₂ op).1.svc := by
  cases op <;> simp [step, h]

theorem svc_run_indep (ser : String → List Nat) (s₁ s₂ : St) (ops : List Op) (h : s₁.svc = s₂.svc) :
    (run ser s₁ ops).svc = (run ser s₂ ops).svc := by
  induction ops generalizing s₁ s₂ with
  | nil => exact h
  | cons op ops ih => simp only [run, List.foldl_cons] at ih ⊢; exact ih _ _ (svc_step_indep ser s₁ s₂ op h)

/-! ### session ids before the 32-bit counter wraps -/

def isSadd : Op → Bool
  | .sadd => true
  | _ => false

theorem fresh_step (ser : String → List Nat) (s : St) (op : Op) (h : s.front.nextId + 1 < 2 ^ 32)
    (hb : ∀ x ∈ s.front.live, x ≤ s.front.nextId) :
    (step ser s op).1.front.nextId = s.front.nextId + (if isSadd op then 1 else 0) ∧
    ∀ x ∈ (step ser s op).1.front.live, x ≤ (step ser s op).1.front.nextId := by
  cases op with
  | sadd =>
    have hmod : (s.front.nextId + 1) % 2 ^ 32 = s.front.nextId + 1 := Nat.mod_eq_of_lt h
    have hnz : ¬ (s.front.nextId + 1 = 0) := by omega
    simp only [step, Front.addSession, allocId, hmod, if_neg hnz, isSadd, if_true]
    refine ⟨by simp, fun x hx => ?_⟩
    split at hx
    · have := hb x hx; omega
    · simp only [List.mem_append, List.mem_singleton] at hx
      rcases hx with hx | hx
      · have := hb x hx; omega
      · omega
  | sdel id =>
    simp only [step, Front.removeSession, isSadd]
    by_cases hm : id ∈ s.front.live
    · simp only [hm, if_true]
      exact ⟨by simp, fun x hx => hb x (List.mem_of_mem_erase hx)⟩
    · simp only [hm, if_false]; exact ⟨by simp, hb⟩
  | sclose id =>
    simp only [step, Front.closeSession, isSadd]
    by_cases hm : id ∈ s.front.live
    · simp only [hm, if_true]; exact ⟨by simp, hb⟩
    · simp only [hm, if_false]; exact ⟨by simp, hb⟩
  | addch c => exact ⟨by simp [step, isSadd], hb⟩
  | getch c => exact ⟨by simp [step, isSadd], hb⟩
  | delch c => exact ⟨by simp [step, isSadd], hb⟩
  | join c f x => exact ⟨by simp [step, isSadd], hb⟩
  | leave c f x => exact ⟨by simp [step, isSadd], hb⟩
  | bcast c r m => exact ⟨by simp [step, isSadd], hb⟩
  | spush ids r d => exact ⟨by simp [step, isSadd], hb⟩

theorem fresh_run (ser : String → List Nat) (ops : List Op) (s : St)
    (h : s.front.nextId + ops.countP isSadd + 1 < 2 ^ 32) (hb : ∀ x ∈ s.front.live, x ≤ s.front.nextId) :
    (run ser s ops).front.nextId = s.front.nextId + ops.countP isSadd ∧
    ∀ x ∈ (run ser s ops).front.live, x ≤ (run ser s ops).front.nextId := by
  induction ops generalizing s with
  | nil => exact ⟨by simp [run], hb⟩
  | cons op ops ih =>
    rw [List.countP_cons] at h ⊢
    obtain ⟨h1, h2⟩ := fresh_step ser s op (by omega) hb
    have := ih (step ser s op).1 (by rw [h1]; omega) h2
    simp only [run, List.foldl_cons] at this ⊢
    rw [h1] at this
    exact ⟨by rw [this.1]; omega, this.2⟩

end Cell2v.Channel
