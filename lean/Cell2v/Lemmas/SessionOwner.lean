import Cell2v.Lemmas.Session
/-! helper lemmas for C05 (2): the owner's view of the posted events, and the id allocator. -/
namespace Cell2v.Session

/-! ### owner view -/

theorem adds_prefix {p r : List Ev} (hp : p <+: r) (h : adds r = 0) : adds p = 0 := by
  obtain ⟨t, rfl⟩ := hp
  rw [adds_append] at h; omega

theorem msgsOf_prefix {p r : List Ev} (hp : p <+: r) : List.Sublist (msgsOf p) (msgsOf r) := by
  obtain ⟨t, rfl⟩ := hp
  rw [msgsOf_append]; exact List.sublist_append_left _ _

/-- a guarded owner whose session is not in the map shows nothing to the handler -/
theorem view_dead (r : List Ev) (h : adds r = 0) : view true false r = [] := by
  induction r with
  | nil => rfl
  | cons e r ih =>
    cases e with
    | add => simp [adds] at h
    | msg k => simp only [adds] at h; simp [view, ih h]
    | remove => simp only [adds] at h; simp [view, ih h]

/-- a guarded owner with the session in the map: messages in order, then at most one remove, then nothing -/
theorem view_live (r : List Ev) (h : adds r = 0) :
    ∃ ks, (view true true r = ks.map OEv.msg ∨ view true true r = ks.map OEv.msg ++ [OEv.remove]) ∧
          List.Sublist ks (msgsOf r) := by
  induction r with
  | nil => exact ⟨[], Or.inl rfl, List.Sublist.refl _⟩
  | cons e r ih =>
    cases e with
    | add => simp [adds] at h
    | msg k =>
      simp only [adds] at h
      obtain ⟨ks, hv, hs⟩ := ih h
      refine ⟨k :: ks, ?_, ?_⟩
      · rcases hv with hv | hv
        · left; simp [view, hv]
        · right; simp [view, hv]
      · simpa [msgsOf] using hs
    | remove =>
      simp only [adds] at h
      refine ⟨[], Or.inr ?_, List.nil_sublist _⟩
      simp [view, view_dead r h]

/-- … and if a remove was posted it is what the owner saw last -/
theorem view_live_remove (r : List Ev) (h0 : adds r = 0) (h1 : removes r = 1) :
    ∃ ks : List Nat, view true true r = ks.map OEv.msg ++ [OEv.remove] := by
  induction r with
  | nil => simp [removes] at h1
  | cons e r ih =>
    cases e with
    | add => simp [adds] at h0
    | msg k =>
      simp only [adds] at h0; simp only [removes] at h1
      obtain ⟨ks, hk⟩ := ih h0 h1
      exact ⟨k :: ks, by simp [view, hk]⟩
    | remove =>
      simp only [adds] at h0
      exact ⟨[], by simp [view, view_dead r h0]⟩

/-- the unguarded owner (before commit 6c4aee4) hands a message that follows the remove to the handler, with a nil session -/
theorem view_unguarded_after_remove (k : Nat) (r : List Ev) :
    view false true (.remove :: .msg k :: r) = .remove :: .msgNil k :: view false false r := by
  simp [view]

/-! ### id allocator -/

theorem succ_mod (n P : Nat) (hP : 1 < P) : (n + 1) % P = if n % P + 1 = P then 0 else n % P + 1 := by
  have h := Nat.mod_lt n (by omega : P > 0)
  rw [Nat.add_mod, Nat.mod_eq_of_lt hP]
  split
  · rename_i h1; rw [h1, Nat.mod_self]
  · exact Nat.mod_eq_of_lt (by omega)

/-- closed form of the counter: it cycles through 1 … M-1 -/
theorem counterAfter_eq (M : Nat) (hM : 3 ≤ M) (n : Nat) : counterAfter M n = n % (M - 1) + 1 := by
  induction n with
  | zero => simp [counterAfter]
  | succ n ih =>
    have hlt := Nat.mod_lt n (by omega : M - 1 > 0)
    simp only [counterAfter, allocId, ih]
    rw [succ_mod n (M - 1) (by omega)]
    generalize n % (M - 1) = r at hlt ⊢
    by_cases hc : r + 1 = M - 1
    · have h0 : (r + 1 + 1) % M = 0 := by
        have : r + 1 + 1 = M := by omega
        rw [this, Nat.mod_self]
      rw [if_pos h0, if_pos hc]
    · have hv : (r + 1 + 1) % M = r + 1 + 1 := Nat.mod_eq_of_lt (by omega)
      rw [hv, if_neg (by omega), if_neg hc]

theorem idAt_eq (M : Nat) (hM : 3 ≤ M) (n : Nat) : idAt M n = (n + 1) % (M - 1) + 1 := by
  have h := counterAfter_eq M hM (n + 1)
  simp only [counterAfter] at h
  simp only [idAt, allocId] at h ⊢
  split at h <;> rename_i hc <;> simp [hc] at h ⊢ <;> exact h

/-! ### the sessions map -/

/-- every entry of the map is stored under the id its connection holds (`SetId` before the store) -/
def Own.Agree (o : Own) (idOf : Nat → Nat) : Prop := ∀ p ∈ o.live, idOf p.2 = p.1

theorem Own.lookup_some {o : Own} {id k : Nat} (h : o.lookup id = some k) : (id, k) ∈ o.live := by
  simp only [Own.lookup, Option.map_eq_some_iff] at h
  obtain ⟨p, hp, hk⟩ := h
  have h1 := List.mem_of_find?_eq_some hp
  have h2 := List.find?_some hp
  simp only [beq_iff_eq] at h2
  obtain ⟨a, b⟩ := p
  simp only at h2 hk; subst h2; subst hk; exact h1

theorem Own.lookup_none {o : Own} {id : Nat} (h : o.lookup id = none) : ∀ k, (id, k) ∉ o.live := by
  intro k hm
  simp only [Own.lookup, Option.map_eq_none_iff, List.find?_eq_none] at h
  have := h (id, k) hm
  simp at this

/-- a lookup under a connection's id finds that connection's own session or nothing — provided ids are not shared -/
theorem Own.lookup_own (o : Own) (idOf : Nat → Nat) (ha : o.Agree idOf) (hinj : ∀ k k', idOf k = idOf k' → k = k') (k : Nat) :
    o.lookup (idOf k) = none ∨ o.lookup (idOf k) = some k := by
  cases h : o.lookup (idOf k) with
  | none => left; rfl
  | some k' =>
    right
    have := ha _ (Own.lookup_some h)
    simp only at this
    rw [hinj k' k this]

theorem Own.agree_add (M : Nat) (o : Own) (idOf : Nat → Nat) (k : Nat) (ha : o.Agree idOf) (hk : ∀ p ∈ o.live, p.2 ≠ k) :
    (o.add M k).1.Agree (fun j => if j = k then (o.add M k).2 else idOf j) := by
  intro p hp
  simp only [Own.add, List.mem_cons, List.mem_filter] at hp
  rcases hp with rfl | ⟨hp, _⟩
  · simp [Own.add]
  · have := hk p hp
    simp only [this, if_false]
    exact ha p hp

theorem Own.agree_remove (o : Own) (idOf : Nat → Nat) (id : Nat) (ha : o.Agree idOf) : (o.remove id).1.Agree idOf := by
  intro p hp
  simp only [Own.remove] at hp
  cases h : o.lookup id with
  | none => rw [h] at hp; exact ha p hp
  | some k => rw [h] at hp; simp only [List.mem_filter] at hp; exact ha p hp.1

/-- a remove under a connection's own id deletes exactly that entry and hands the handler that connection's session -/
theorem Own.remove_own (o : Own) (idOf : Nat → Nat) (ha : o.Agree idOf) (hinj : ∀ k k', idOf k = idOf k' → k = k') (k : Nat)
    (hl : (idOf k, k) ∈ o.live) :
    (o.remove (idOf k)).2 = some k ∧ ∀ p, p ∈ (o.remove (idOf k)).1.live ↔ (p ∈ o.live ∧ p.2 ≠ k) := by
  have hlk : o.lookup (idOf k) = some k := by
    rcases Own.lookup_own o idOf ha hinj k with h | h
    · exact absurd hl (Own.lookup_none h k)
    · exact h
  simp only [Own.remove, hlk, true_and]
  intro p
  simp only [List.mem_filter, bne_iff_ne, ne_eq]
  constructor
  · rintro ⟨hp, hne⟩
    refine ⟨hp, ?_⟩
    intro hk; apply hne; rw [← hk]; exact (ha p hp).symm
  · rintro ⟨hp, hne⟩
    refine ⟨hp, ?_⟩
    intro hid; apply hne
    exact hinj _ _ ((ha p hp).trans hid)

/-- after `AddSession` a lookup under the new id finds the new connection -/
theorem Own.lookup_add (M : Nat) (o : Own) (k : Nat) : (o.add M k).1.lookup (o.add M k).2 = some k := by
  simp [Own.add, Own.lookup]

/-- after the remove of connection `k` a lookup under its id finds nothing -/
theorem Own.lookup_after_remove (o : Own) (idOf : Nat → Nat) (ha : o.Agree idOf) (hinj : ∀ k k', idOf k = idOf k' → k = k') (k : Nat)
    (hl : (idOf k, k) ∈ o.live) : (o.remove (idOf k)).1.lookup (idOf k) = none := by
  obtain ⟨_, hmem⟩ := Own.remove_own o idOf ha hinj k hl
  rcases Own.lookup_own (o.remove (idOf k)).1 idOf (Own.agree_remove o idOf _ ha) hinj k with h | h
  · exact h
  · exact absurd rfl ((hmem _).mp (Own.lookup_some h)).2

/-! ### the handler's close callbacks -/

theorem Hnd.lookup_register (h : Hnd) (id cb : Nat) : (h.register id cb).lookup id = some cb := by
  simp [Hnd.register, Hnd.lookup]

theorem Hnd.find_filter_other (l : List (Nat × Nat)) (id id' : Nat) (hne : id' ≠ id) :
    (l.filter (fun q => q.1 != id)).find? (fun p => p.1 == id') = l.find? (fun p => p.1 == id') := by
  induction l with
  | nil => rfl
  | cons p l ih =>
    rw [List.filter_cons]
    by_cases hp : p.1 = id
    · have h2 : (p.1 == id') = false := by
        rw [hp]; exact beq_false_of_ne (fun e => hne e.symm)
      have h3 : (id == id') = false := by rw [← hp]; exact h2
      simp only [hp, bne_self_eq_false, Bool.false_eq_true, if_false, List.find?_cons, h3, ih]
    · have h1 : (p.1 != id) = true := bne_iff_ne.mpr hp
      simp only [h1, if_true, List.find?_cons, ih]

theorem Hnd.lookup_register_other (h : Hnd) (id id' cb : Nat) (hne : id' ≠ id) : (h.register id cb).lookup id' = h.lookup id' := by
  simp only [Hnd.register, Hnd.lookup]
  have h1 : (id == id') = false := beq_false_of_ne (fun e => hne e.symm)
  rw [List.find?_cons, h1, Hnd.find_filter_other _ _ _ hne]

theorem Hnd.lookup_filter_self (l : List (Nat × Nat)) (id : Nat) :
    (l.filter (fun q => q.1 != id)).find? (fun p => p.1 == id) = none := by
  rw [List.find?_eq_none]
  intro p hp
  rw [List.mem_filter] at hp
  simpa using hp.2

/-- after the callback ran (without panicking) nothing is registered under the id any more -/
theorem Hnd.onRemove_clears (h : Hnd) (id : Nat) : ((h.onRemove id false).1).lookup id = none := by
  unfold Hnd.onRemove
  cases hl : h.lookup id with
  | none => simp [hl]
  | some cb => simp only [Bool.false_eq_true, if_false, Hnd.lookup, Hnd.lookup_filter_self, Option.map_none]

end Cell2v.Session
