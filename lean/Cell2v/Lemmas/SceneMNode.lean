import Cell2v.Model.SceneMNode
import Cell2v.Lemmas.SceneMSys
/-!
Lemmas about the node-level model (Model/SceneMNode.lean): every node event is a list of system
events on the `Sys` component (so node histories are system histories), a keeper round
(`PublicScenes.Update`) characterised for every visiting order, the public-scene table has
distinct keys, the keeper's timer is armed exactly when the first scene service has reported,
and a timer that ran is not on the queue again before a full period has passed.
-/
namespace Cell2v.SceneM

/-! ### the literal `FindIdleService` loop against the model's -/

def idleRel : Option (Nat × Nat) → Nat × Nat → Prop
  | none, g => g.1 = 0
  | some a, g => g = a ∧ a.1 ≠ 0

theorem findIdleGoLoop_rel (key : Nat → Nat) (order : List (Nat × Stat)) (h : ∀ e ∈ order, e.1 ≠ 0) :
    ∀ (acc : Option (Nat × Nat)) (g : Nat × Nat), idleRel acc g →
      idleRel (findIdleLoop key order acc) (findIdleGoLoop key order g) := by
  induction order with
  | nil => intro acc g hr; exact hr
  | cons e rest ih =>
    obtain ⟨k, v⟩ := e
    have hk : k ≠ 0 := h (k, v) List.mem_cons_self
    have ih' := ih (fun e he => h e (List.mem_cons_of_mem _ he))
    intro acc g hr
    unfold findIdleLoop findIdleGoLoop
    by_cases hw : v.working = true
    · simp only [hw, Bool.not_true, Bool.false_eq_true, if_false]
      cases acc with
      | none =>
        have hg : g.1 = 0 := hr
        simp only [hg, beq_self_eq_true, Bool.true_or, if_true]
        exact ih' _ _ ⟨rfl, hk⟩
      | some a =>
        obtain ⟨hg, ha⟩ := hr
        rw [hg]
        obtain ⟨ak, aw⟩ := a
        have ha' : (ak == 0) = false := by simpa using ha
        simp only [ha', Bool.false_or, decide_eq_true_eq]
        by_cases hlt : v.busy key < aw
        · simp only [hlt, if_true]; exact ih' _ _ ⟨rfl, hk⟩
        · simp only [hlt, if_false]; exact ih' _ _ ⟨rfl, ha⟩
    · have hw' : v.working = false := by simpa using hw
      simp only [hw', Bool.not_false, if_true]
      exact ih' _ _ hr

/-- **When no service is registered under the empty id the code's loop is the model's**: the theorems about
`findIdle` (working, least busy, every least-busy service possible) are theorems about `FindIdleService`. -/
theorem findIdleGo_eq (key : Nat → Nat) (order : List (Nat × Stat)) (h : ∀ e ∈ order, e.1 ≠ 0) :
    findIdleGo key order = findIdle key order := by
  have hr := findIdleGoLoop_rel key order h none (0, 0) rfl
  unfold findIdleGo findIdle
  cases hl : findIdleLoop key order none with
  | none =>
    rw [hl] at hr
    have : (findIdleGoLoop key order (0, 0)).1 = 0 := hr
    simp [this]
  | some a =>
    rw [hl] at hr
    obtain ⟨hg, ha⟩ := hr
    simp [hg, ha]

theorem okRun_append : ∀ (s : Sys) (a b : List SEv), OkRun s a → OkRun (s.run a) b → OkRun s (a ++ b) := by
  intro s a
  induction a generalizing s with
  | nil => intro b _ h; exact h
  | cons x xs ih => intro b h1 h2; exact ⟨h1.1, ih _ b h1.2 h2⟩

/-- the system events of one `Update` -/
def visitEvs (visits : List Visit) : List SEv := visits.map (fun v => SEv.keeper v.1.1 v.1.2 v.2)

theorem runVisits_eq_run (s : Sys) (visits : List Visit) : runVisits s visits = s.run (visitEvs visits) := by
  induction visits generalizing s with
  | nil => rfl
  | cons v vs ih => exact ih _

/-- one `trySpawnScene`: world, services, cluster view and clock untouched; at most one request is added,
for that configuration, and only when it has fewer confirmed lines than required -/
theorem keeper_step_char (s : Sys) (cfg k : Nat) (o : List (Nat × Stat)) :
    (s.keeper cfg k o).1.m.world = s.m.world ∧ (s.keeper cfg k o).1.m.services = s.m.services ∧
    (s.keeper cfg k o).1.routable = s.routable ∧ (s.keeper cfg k o).1.m.now = s.m.now ∧
    s.m.nextId ≤ (s.keeper cfg k o).1.m.nextId ∧
    ((s.keeper cfg k o).1.pending = s.pending ∨
      ((s.m.world.lines cfg).length < k ∧ ∃ svc, (s.keeper cfg k o).1.pending = s.pending ++ [⟨s.m.nextId, cfg, svc⟩])) := by
  rcases keeper_fst s cfg k o with ⟨_, e⟩ | ⟨h, e⟩
  · rw [e]; exact ⟨rfl, rfl, rfl, rfl, Nat.le_refl _, Or.inl rfl⟩
  · rw [e]
    rcases spawn_cases s cfg o with ⟨_, e2⟩ | ⟨svc, _, _, e2⟩ | ⟨svc, _, _, e2⟩ <;> rw [e2]
    · exact ⟨rfl, rfl, rfl, rfl, Nat.le_refl _, Or.inl rfl⟩
    · exact ⟨rfl, rfl, rfl, rfl, Nat.le_succ _, Or.inr ⟨h, svc, rfl⟩⟩
    · exact ⟨rfl, rfl, rfl, rfl, Nat.le_succ _, Or.inl rfl⟩

/-- a whole round, for every order of the table and of the service map -/
theorem runVisits_char (s : Sys) (visits : List Visit) :
    (runVisits s visits).m.world = s.m.world ∧ (runVisits s visits).m.services = s.m.services ∧
    (runVisits s visits).routable = s.routable ∧ (runVisits s visits).m.now = s.m.now ∧
    s.m.nextId ≤ (runVisits s visits).m.nextId ∧
    ∃ added : List Pend, (runVisits s visits).pending = s.pending ++ added ∧
      (added.map (·.cfg)).Sublist (visits.map (·.1.1)) ∧
      (∀ p ∈ added, ∃ v ∈ visits, v.1.1 = p.cfg ∧ (s.m.world.lines p.cfg).length < v.1.2) ∧
      (∀ p ∈ added, s.m.nextId ≤ p.sid ∧ p.sid < (runVisits s visits).m.nextId) := by
  induction visits generalizing s with
  | nil => exact ⟨rfl, rfl, rfl, rfl, Nat.le_refl _, [], by simp [runVisits], List.Sublist.refl _, by simp, by simp⟩
  | cons v vs ih =>
    obtain ⟨w1, s1, r1, n1, i1, hp⟩ := keeper_step_char s v.1.1 v.1.2 v.2
    obtain ⟨w2, s2, r2, n2, i2, added, hp2, hsub, hneed, hids⟩ := ih (s.keeper v.1.1 v.1.2 v.2).1
    have hrun : runVisits s (v :: vs) = runVisits (s.keeper v.1.1 v.1.2 v.2).1 vs := rfl
    rw [hrun]
    refine ⟨w2.trans w1, s2.trans s1, r2.trans r1, n2.trans n1, Nat.le_trans i1 i2, ?_⟩
    rcases hp with hp | ⟨hlt, svc, hp⟩
    · refine ⟨added, by rw [hp2, hp], ?_, ?_, ?_⟩
      · simpa using hsub.cons _
      · intro p hpm
        obtain ⟨v', hv', a, b⟩ := hneed p hpm
        exact ⟨v', List.mem_cons_of_mem _ hv', a, by rw [w1] at b; exact b⟩
      · intro p hpm
        exact ⟨Nat.le_trans i1 (hids p hpm).1, (hids p hpm).2⟩
    · refine ⟨⟨s.m.nextId, v.1.1, svc⟩ :: added, by rw [hp2, hp]; simp, ?_, ?_, ?_⟩
      · simpa using hsub.cons_cons v.1.1
      · intro p hpm
        rcases List.mem_cons.1 hpm with rfl | hpm
        · exact ⟨v, List.mem_cons_self, rfl, hlt⟩
        · obtain ⟨v', hv', a, b⟩ := hneed p hpm
          exact ⟨v', List.mem_cons_of_mem _ hv', a, by rw [w1] at b; exact b⟩
      · intro p hpm
        rcases List.mem_cons.1 hpm with rfl | hpm
        · refine ⟨Nat.le_refl _, ?_⟩
          have : s.m.nextId < (s.keeper v.1.1 v.1.2 v.2).1.m.nextId := by
            have hlen : (s.keeper v.1.1 v.1.2 v.2).1.pending ≠ s.pending := by rw [hp]; simp
            rcases keeper_fst s v.1.1 v.1.2 v.2 with ⟨_, e⟩ | ⟨_, e⟩
            · rw [e] at hlen; exact absurd rfl hlen
            · rw [e] at hlen ⊢
              rcases spawn_cases s v.1.1 v.2 with ⟨_, e2⟩ | ⟨_, _, _, e2⟩ | ⟨_, _, _, e2⟩ <;> rw [e2] at hlen ⊢
              · exact absurd rfl hlen
              · exact Nat.lt_succ_self _
              · exact Nat.lt_succ_self _
          exact Nat.lt_of_lt_of_le this i2
        · exact ⟨Nat.le_trans i1 (hids p hpm).1, (hids p hpm).2⟩

theorem okRun_visits (s : Sys) (visits : List Visit) (h : ∀ v ∈ visits, v.2.Perm s.m.services) :
    OkRun s (visitEvs visits) := by
  induction visits generalizing s with
  | nil => trivial
  | cons v vs ih =>
    refine ⟨h v List.mem_cons_self, ih _ (fun v' hv' => ?_)⟩
    have : (s.step (.keeper v.1.1 v.1.2 v.2)).m.services = s.m.services := (keeper_step_char s v.1.1 v.1.2 v.2).2.1
    rw [this]
    exact h v' (List.mem_cons_of_mem _ hv')

/-! ### node events as system events -/

@[simp] theorem withSys_sys (n : Node) (s' : Sys) : (n.withSys s').sys = s' := rfl
@[simp] theorem withSys_table (n : Node) (s' : Sys) : (n.withSys s').table = n.table := rfl
@[simp] theorem withSys_keeperDue (n : Node) (s' : Sys) : (n.withSys s').keeperDue = n.keeperDue := rfl
@[simp] theorem withSys_tickDue (n : Node) (s' : Sys) : (n.withSys s').tickDue = n.tickDue := rfl

def Node.tickEvs (n : Node) : List SEv := if n.sys.m.now ≥ n.tickDue then [.tick] else []

def Node.keeperEvs (n : Node) (visits : List Visit) : List SEv := if n.keeperQueued then visitEvs visits else []

/-- the expiry check as system events: a failed answer for every request past its deadline -/
def Node.expiryEvs (n : Node) : List SEv :=
  if n.expiryQueued then (if n.sys.pending.isEmpty then [] else n.expired.map (fun p => SEv.reply p.sid false)) else []

def Node.fireEvs (visits : List Visit) (n : Node) : TK → List SEv
  | .tick => n.tickEvs
  | .keeper => n.keeperEvs visits
  | .expiry => n.expiryEvs

def timersEvs (visits : List Visit) : Node → List TK → List SEv
  | _, [] => []
  | n, k :: ks => n.fireEvs visits k ++ timersEvs visits (n.fire visits k) ks

def NEv.sevs (n : Node) : NEv → List SEv
  | .sys e => [e]
  | .addPublic _ _ => []
  | .setOne _ _ => []
  | .update visits => visitEvs visits
  | .timers order visits => timersEvs visits n order

theorem startKeeper_sys (n : Node) : n.startKeeper.sys = n.sys := by
  unfold Node.startKeeper; split <;> rfl

theorem startKeeper_table (n : Node) : n.startKeeper.table = n.table := by
  unfold Node.startKeeper; split <;> rfl

theorem update_sys (n : Node) (visits : List Visit) : (n.update visits).sys = n.sys.run (visitEvs visits) :=
  runVisits_eq_run n.sys visits

theorem fireTick_sys (n : Node) : n.fireTick.sys = n.sys.run n.tickEvs := by
  unfold Node.fireTick Node.tickEvs; split <;> rfl

theorem fireKeeper_sys (n : Node) (visits : List Visit) : (n.fireKeeper visits).sys = n.sys.run (n.keeperEvs visits) := by
  unfold Node.fireKeeper Node.keeperEvs
  split
  · exact update_sys n visits
  · rfl

theorem foldl_reply_eq_run (s : Sys) (ps : List Pend) :
    ps.foldl (fun s p => s.reply p.sid false) s = s.run (ps.map (fun p => SEv.reply p.sid false)) := by
  induction ps generalizing s with
  | nil => rfl
  | cons p ps ih => exact ih _

theorem fireExpiry_sys (n : Node) : n.fireExpiry.sys = n.sys.run n.expiryEvs := by
  unfold Node.fireExpiry Node.expiryEvs
  split
  · split
    · rfl
    · exact foldl_reply_eq_run _ _
  · rfl

theorem fire_sys (visits : List Visit) (n : Node) (k : TK) : (n.fire visits k).sys = n.sys.run (n.fireEvs visits k) := by
  cases k
  · exact fireTick_sys n
  · exact fireKeeper_sys n visits
  · exact fireExpiry_sys n

theorem timers_sys (visits : List Visit) (n : Node) (order : List TK) :
    (n.timers order visits).sys = n.sys.run (timersEvs visits n order) := by
  induction order generalizing n with
  | nil => rfl
  | cons k ks ih =>
    show ((n.fire visits k).timers ks visits).sys = _
    rw [ih, fire_sys]
    simp [timersEvs, sys_run_append]

theorem node_step_sys (n : Node) (e : NEv) : (n.step e).sys = n.sys.run (e.sevs n) := by
  cases e with
  | sys e => cases e <;> first | rfl | exact startKeeper_sys _
  | addPublic _ _ => rfl
  | setOne _ _ => rfl
  | update visits => exact update_sys n visits
  | timers order visits => exact timers_sys visits n order

theorem fireTick_keeperQueued (n : Node) : n.fireTick.keeperQueued = n.keeperQueued := by
  unfold Node.fireTick; split <;> rfl

theorem fireTick_table (n : Node) : n.fireTick.table = n.table := by
  unfold Node.fireTick; split <;> rfl

theorem failed_reply_m (s : Sys) (sid : Nat) : (s.reply sid false).m = s.m := by
  unfold Sys.reply
  cases s.pending.find? (fun p => p.sid == sid) <;> rfl

theorem fireExpiry_now (n : Node) : n.fireExpiry.sys.m.now = n.sys.m.now := by
  rw [fireExpiry_sys]
  unfold Node.expiryEvs
  have key : ∀ (ps : List Pend) (s : Sys), (s.run (ps.map (fun p => SEv.reply p.sid false))).m.now = s.m.now := by
    intro ps
    induction ps with
    | nil => intro s; rfl
    | cons p ps ih =>
      intro s
      show ((s.step (.reply p.sid false)).run _).m.now = _
      rw [ih]
      show (s.reply p.sid false).m.now = _
      rw [(failed_reply_m s p.sid)]
  split
  · split
    · rfl
    · exact key _ _
  · rfl

theorem fireExpiry_keeperQueued (n : Node) : n.fireExpiry.keeperQueued = n.keeperQueued := by
  have h1 : n.fireExpiry.keeperDue = n.keeperDue := by
    unfold Node.fireExpiry; split
    · split <;> rfl
    · rfl
  unfold Node.keeperQueued
  rw [h1, fireExpiry_now]

/-- an event that is well-formed in every state -/
def SEv.AlwaysOk : SEv → Prop
  | .spawn _ _ => False
  | .keeper _ _ _ => False
  | .halloc _ _ => False
  | _ => True

theorem okRun_of_alwaysOk (s : Sys) (evs : List SEv) (h : ∀ e ∈ evs, e.AlwaysOk) : OkRun s evs := by
  induction evs generalizing s with
  | nil => trivial
  | cons e es ih =>
    refine ⟨?_, ih _ (fun e' he' => h e' (List.mem_cons_of_mem _ he'))⟩
    have := h e List.mem_cons_self
    cases e <;> first | trivial | exact this.elim

theorem tickEvs_alwaysOk (n : Node) : ∀ e ∈ n.tickEvs, e.AlwaysOk := by
  intro e he
  unfold Node.tickEvs at he
  split at he
  · simp at he; subst he; trivial
  · cases he

theorem expiryEvs_alwaysOk (n : Node) : ∀ e ∈ n.expiryEvs, e.AlwaysOk := by
  intro e he
  unfold Node.expiryEvs at he
  split at he
  · split at he
    · cases he
    · obtain ⟨p, _, rfl⟩ := List.mem_map.1 he; trivial
  · cases he

/-- serving the rest of the queue once the keeper has run (or when it is not on the queue) -/
theorem okRun_timers_noKeeper (visits : List Visit) (order : List TK) (hk : TK.keeper ∉ order) (n : Node) :
    OkRun n.sys (timersEvs visits n order) := by
  induction order generalizing n with
  | nil => trivial
  | cons k ks ih =>
    have hk' : TK.keeper ∉ ks := fun h => hk (List.mem_cons_of_mem _ h)
    refine okRun_append _ _ _ ?_ (by rw [← fire_sys]; exact ih hk' _)
    cases k
    · exact okRun_of_alwaysOk _ _ (tickEvs_alwaysOk n)
    · exact absurd List.mem_cons_self hk
    · exact okRun_of_alwaysOk _ _ (expiryEvs_alwaysOk n)

theorem okRun_timers (visits : List Visit) (order : List TK) (hnd : order.Nodup) (n : Node)
    (hv : n.keeperQueued = true → ∀ v ∈ visits, v.2.Perm (n.beforeKeeper order).sys.m.services) :
    OkRun n.sys (timersEvs visits n order) := by
  induction order generalizing n with
  | nil => trivial
  | cons k ks ih =>
    obtain ⟨hk, hnd'⟩ := List.nodup_cons.1 hnd
    cases k
    · refine okRun_append _ _ _ (okRun_of_alwaysOk _ _ (tickEvs_alwaysOk n)) ?_
      rw [← fire_sys]
      refine ih hnd' _ (fun hq => ?_)
      have hq' : n.keeperQueued = true := by rw [← fireTick_keeperQueued]; exact hq
      exact hv hq'
    · refine okRun_append _ _ _ ?_ (by rw [← fire_sys]; exact okRun_timers_noKeeper visits ks hk _)
      show OkRun n.sys (n.keeperEvs visits)
      unfold Node.keeperEvs
      split
      · rename_i hq; exact okRun_visits _ _ (hv hq)
      · trivial
    · refine okRun_append _ _ _ (okRun_of_alwaysOk _ _ (expiryEvs_alwaysOk n)) ?_
      rw [← fire_sys]
      refine ih hnd' _ (fun hq => ?_)
      have hq' : n.keeperQueued = true := by rw [← fireExpiry_keeperQueued]; exact hq
      exact hv hq'

/-- a well-formed node event is a well-formed list of system events -/
theorem node_step_ok (n : Node) (e : NEv) (h : e.Ok n) : OkRun n.sys (e.sevs n) := by
  cases e with
  | sys e => exact ⟨h, trivial⟩
  | addPublic _ _ => trivial
  | setOne _ _ => trivial
  | update visits => exact okRun_visits _ _ h.2
  | timers order visits =>
    obtain ⟨hp, _, hv⟩ := h
    have hnd : order.Nodup := hp.nodup_iff.2 (by decide)
    exact okRun_timers visits order hnd n (fun hq => (hv hq).2)

/-- **Node histories are system histories**: the `Sys` component after a node history is the result of a
list of system events, well-formed when the node history is. -/
theorem node_run_sys (n : Node) (evs : List NEv) :
    ∃ sevs, (n.run evs).sys = n.sys.run sevs ∧ (NOkRun n evs → OkRun n.sys sevs) := by
  induction evs generalizing n with
  | nil => exact ⟨[], rfl, fun _ => trivial⟩
  | cons e es ih =>
    obtain ⟨sevs, h1, h2⟩ := ih (n.step e)
    refine ⟨e.sevs n ++ sevs, ?_, fun hok => ?_⟩
    · show ((n.step e).run es).sys = _
      rw [h1, node_step_sys, sys_run_append]
    · refine okRun_append _ _ _ (node_step_ok n e hok.1) ?_
      rw [← node_step_sys]
      exact h2 hok.2

/-! ### the public-scene table -/

theorem addPublic_keys (t : List (Nat × Nat)) (cfg k : Nat) (h : (t.map (·.1)).Nodup) :
    ((addPublic t cfg k).map (·.1)).Nodup := by
  unfold addPublic
  split
  · exact h
  · rename_i hn
    rw [List.map_append, List.nodup_append]
    refine ⟨h, by simp, ?_⟩
    intro a ha b hb
    simp only [List.map_cons, List.map_nil, List.mem_singleton] at hb
    subst hb
    obtain ⟨e, he, rfl⟩ := List.mem_map.1 ha
    intro heq
    exact hn (List.any_eq_true.2 ⟨e, he, by simp [heq]⟩)

/-- `addPublicScene` keeps an existing entry: the first registration of a configuration wins -/
theorem addPublic_first_wins (t : List (Nat × Nat)) (cfg k k' : Nat) (h : (cfg, k) ∈ t) :
    addPublic t cfg k' = t := by
  unfold addPublic
  rw [if_pos (List.any_eq_true.2 ⟨(cfg, k), h, by simp⟩)]

theorem addPublic_new (t : List (Nat × Nat)) (cfg k : Nat) (h : ∀ e ∈ t, e.1 ≠ cfg) :
    addPublic t cfg k = t ++ [(cfg, k)] := by
  unfold addPublic
  rw [if_neg]
  intro hc
  obtain ⟨e, he, heq⟩ := List.any_eq_true.1 hc
  exact h e he (by simpa using heq)

theorem addPublics_keys (t es : List (Nat × Nat)) (h : (t.map (·.1)).Nodup) :
    ((addPublics t es).map (·.1)).Nodup := by
  unfold addPublics
  induction es generalizing t with
  | nil => exact h
  | cons e es ih => exact ih _ (addPublic_keys t e.1 e.2 h)

theorem initTable_keys (perf pub : Bool) : ((initTable perf pub).map (·.1)).Nodup := by
  cases perf <;> cases pub <;> decide

/-! ### invariant of node histories -/

structure NodeInv (n : Node) : Prop where
  keys : (n.table.map (·.1)).Nodup
  /-- the keeper's timer is armed exactly when some scene service has reported -/
  started : n.keeperDue = none ↔ n.sys.m.services = []

theorem nodeInv_init (perf pub : Bool) : NodeInv (Node.init perf pub) :=
  ⟨initTable_keys perf pub, by simp [Node.init, Sys.init, Mgr.init]⟩

theorem tick_services_nil (m : Mgr) : m.tick.services = [] ↔ m.services = [] := by
  rw [tick_services]; simp

theorem reply_services (s : Sys) (sid : Nat) (ok : Bool) : (s.reply sid ok).m.services = s.m.services := by
  unfold Sys.reply
  split
  · rfl
  · cases ok <;> rfl

theorem sev_services_nil (s : Sys) (e : SEv) (hne : ∀ svc k, e ≠ .refresh svc k) :
    (s.step e).m.services = [] ↔ s.m.services = [] := by
  cases e with
  | route ks => exact Iff.rfl
  | spawn cfg o =>
    have : (s.step (.spawn cfg o)).m.services = s.m.services := by
      show (s.spawn cfg o).1.m.services = _
      rcases spawn_cases s cfg o with ⟨_, e⟩ | ⟨_, _, _, e⟩ | ⟨_, _, _, e⟩ <;> rw [e]
    rw [this]
  | keeper cfg k o => rw [show (s.step (.keeper cfg k o)).m.services = s.m.services from (keeper_step_char s cfg k o).2.1]
  | halloc cfg o =>
    have : (s.step (.halloc cfg o)).m.services = s.m.services := by
      show (s.halloc cfg o).1.m.services = _
      unfold Sys.halloc
      rcases spawn_cases s cfg o with ⟨_, e⟩ | ⟨_, _, _, e⟩ | ⟨_, _, _, e⟩ <;> rw [e]
    rw [this]
  | reply sid ok => rw [show (s.step (.reply sid ok)).m.services = s.m.services from reply_services s sid ok]
  | endScene sid => exact Iff.rfl
  | refresh svc k => exact absurd rfl (hne svc k)
  | adv ms => exact Iff.rfl
  | tick => exact tick_services_nil s.m
  | lost svc => show (s.m.lost svc).services = [] ↔ _; simp [Mgr.lost]
  | wlost svc => exact Iff.rfl

theorem run_services_nil (s : Sys) (evs : List SEv) (hne : ∀ e ∈ evs, ∀ svc k, e ≠ .refresh svc k) :
    (s.run evs).m.services = [] ↔ s.m.services = [] := by
  induction evs generalizing s with
  | nil => exact Iff.rfl
  | cons e es ih =>
    show ((s.step e).run es).m.services = [] ↔ _
    rw [ih _ (fun e' he' => hne e' (List.mem_cons_of_mem _ he')), sev_services_nil s e (hne e List.mem_cons_self)]

theorem refresh_services_ne_nil (m : Mgr) (svc k : Nat) : (m.refresh svc k).services ≠ [] := by
  unfold Mgr.refresh
  split
  · rename_i h
    intro hc
    have := List.map_eq_nil_iff.1 hc
    rw [this] at h
    simp at h
  · simp

theorem visitEvs_no_refresh (visits : List Visit) : ∀ e ∈ visitEvs visits, ∀ svc k, e ≠ SEv.refresh svc k := by
  intro e he svc k heq
  obtain ⟨v, _, rfl⟩ := List.mem_map.1 he
  cases heq

theorem tickEvs_no_refresh (n : Node) : ∀ e ∈ n.tickEvs, ∀ svc k, e ≠ SEv.refresh svc k := by
  intro e he svc k heq
  unfold Node.tickEvs at he
  split at he
  · simp at he; subst he; cases heq
  · cases he

theorem keeperEvs_no_refresh (n : Node) (visits : List Visit) : ∀ e ∈ n.keeperEvs visits, ∀ svc k, e ≠ SEv.refresh svc k := by
  intro e he
  unfold Node.keeperEvs at he
  split at he
  · exact visitEvs_no_refresh visits e he
  · cases he

theorem fireTick_keeperDue (n : Node) : n.fireTick.keeperDue = n.keeperDue := by
  unfold Node.fireTick; split <;> rfl

theorem fireKeeper_table (n : Node) (visits : List Visit) : (n.fireKeeper visits).table = n.table := by
  unfold Node.fireKeeper; split <;> rfl

theorem fireKeeper_keeperDue_none (n : Node) (visits : List Visit) :
    (n.fireKeeper visits).keeperDue = none ↔ n.keeperDue = none := by
  unfold Node.fireKeeper
  split
  · rename_i hq
    unfold Node.keeperQueued dueNow at hq
    split at hq
    · rename_i d hd; simp [hd]
    · cases hq
  · exact Iff.rfl

theorem fireExpiry_table (n : Node) : n.fireExpiry.table = n.table := by
  unfold Node.fireExpiry; split
  · split <;> rfl
  · rfl

theorem fireExpiry_keeperDue (n : Node) : n.fireExpiry.keeperDue = n.keeperDue := by
  unfold Node.fireExpiry; split
  · split <;> rfl
  · rfl

theorem expiryEvs_no_refresh (n : Node) : ∀ e ∈ n.expiryEvs, ∀ svc k, e ≠ SEv.refresh svc k := by
  intro e he svc k heq
  unfold Node.expiryEvs at he
  split at he
  · split at he
    · cases he
    · obtain ⟨p, _, rfl⟩ := List.mem_map.1 he; cases heq
  · cases he

theorem fireTick_inv {n : Node} (h : NodeInv n) : NodeInv n.fireTick :=
  ⟨by rw [fireTick_table]; exact h.keys,
   by rw [fireTick_keeperDue, fireTick_sys, run_services_nil _ _ (tickEvs_no_refresh n)]; exact h.started⟩

theorem fireKeeper_inv {n : Node} (h : NodeInv n) (visits : List Visit) : NodeInv (n.fireKeeper visits) :=
  ⟨by rw [fireKeeper_table]; exact h.keys,
   by rw [fireKeeper_keeperDue_none, fireKeeper_sys, run_services_nil _ _ (keeperEvs_no_refresh n visits)]; exact h.started⟩

theorem fireExpiry_inv {n : Node} (h : NodeInv n) : NodeInv n.fireExpiry :=
  ⟨by rw [fireExpiry_table]; exact h.keys,
   by rw [fireExpiry_keeperDue, fireExpiry_sys, run_services_nil _ _ (expiryEvs_no_refresh n)]; exact h.started⟩

theorem fire_inv {n : Node} (h : NodeInv n) (visits : List Visit) (k : TK) : NodeInv (n.fire visits k) := by
  cases k
  · exact fireTick_inv h
  · exact fireKeeper_inv h visits
  · exact fireExpiry_inv h

theorem timers_inv (visits : List Visit) (order : List TK) {n : Node} (h : NodeInv n) : NodeInv (n.timers order visits) := by
  induction order generalizing n with
  | nil => exact h
  | cons k ks ih => exact ih (fire_inv h visits k)

theorem nodeInv_step {n : Node} (h : NodeInv n) (e : NEv) : NodeInv (n.step e) := by
  cases e with
  | sys e =>
    by_cases hr : ∃ svc k, e = .refresh svc k
    · obtain ⟨svc, k, rfl⟩ := hr
      refine ⟨by show (Node.startKeeper _).table.map _ |>.Nodup; rw [startKeeper_table]; exact h.keys, ?_⟩
      show (Node.startKeeper _).keeperDue = none ↔ (Node.startKeeper _).sys.m.services = []
      rw [startKeeper_sys]
      have hne : (n.sys.step (.refresh svc k)).m.services ≠ [] := refresh_services_ne_nil n.sys.m svc k
      constructor
      · intro hk
        unfold Node.startKeeper at hk
        split at hk <;> simp_all
      · intro hk; exact absurd hk hne
    · have hne : ∀ svc k, e ≠ .refresh svc k := fun svc k he => hr ⟨svc, k, he⟩
      have hs : n.step (.sys e) = n.withSys (n.sys.step e) := by
        cases e <;> first | rfl | exact absurd rfl (hne _ _)
      rw [hs]
      exact ⟨h.keys, by show n.keeperDue = none ↔ (n.sys.step e).m.services = []; rw [sev_services_nil n.sys e hne]; exact h.started⟩
  | addPublic cfg k => exact ⟨addPublic_keys _ _ _ h.keys, h.started⟩
  | setOne cfg k => exact ⟨by simp [Node.step], h.started⟩
  | update visits =>
    refine ⟨h.keys, ?_⟩
    show n.keeperDue = none ↔ (n.update visits).sys.m.services = []
    rw [update_sys, run_services_nil _ _ (visitEvs_no_refresh visits)]
    exact h.started
  | timers order visits => exact timers_inv visits order h

theorem nodeInv_run {n : Node} (h : NodeInv n) (evs : List NEv) : NodeInv (n.run evs) := by
  induction evs generalizing n with
  | nil => exact h
  | cons e es ih => exact ih (nodeInv_step h e)

/-! ### timers -/

theorem fireTick_now (n : Node) : n.fireTick.sys.m.now = n.sys.m.now := by
  unfold Node.fireTick
  split
  · show (n.sys.m.tick).now = _; rfl
  · rfl

theorem update_now (n : Node) (visits : List Visit) : (n.update visits).sys.m.now = n.sys.m.now :=
  (runVisits_char n.sys visits).2.2.2.1

theorem fireKeeper_now (n : Node) (visits : List Visit) : (n.fireKeeper visits).sys.m.now = n.sys.m.now := by
  unfold Node.fireKeeper
  split
  · exact update_now n visits
  · rfl

theorem fire_now (visits : List Visit) (n : Node) (k : TK) : (n.fire visits k).sys.m.now = n.sys.m.now := by
  cases k
  · exact fireTick_now n
  · exact fireKeeper_now n visits
  · exact fireExpiry_now n

/-- nothing of the three timers is on the queue -/
structure Node.Idle (n : Node) : Prop where
  tick : n.sys.m.now < n.tickDue
  keeper : n.keeperQueued = false
  expiry : n.expiryQueued = false

theorem dueNow_later (now : Nat) : dueNow now (some (now + timerPeriod)) = false := by
  simp [dueNow, timerPeriod]

theorem fireTick_due (n : Node) : n.fireTick.sys.m.now < n.fireTick.tickDue := by
  unfold Node.fireTick
  split
  · show n.sys.m.now < n.sys.m.now + timerPeriod
    unfold timerPeriod; omega
  · omega

theorem fireTick_noop (n : Node) (h : n.sys.m.now < n.tickDue) : n.fireTick = n := by
  unfold Node.fireTick; rw [if_neg (by omega)]

theorem fireKeeper_notQueued (n : Node) (visits : List Visit) : (n.fireKeeper visits).keeperQueued = false := by
  unfold Node.fireKeeper
  split
  · show dueNow (n.update visits).sys.m.now (some (n.sys.m.now + timerPeriod)) = false
    rw [update_now]; exact dueNow_later _
  · rename_i h; simpa using h

theorem fireKeeper_noop (n : Node) (visits : List Visit) (h : n.keeperQueued = false) : n.fireKeeper visits = n := by
  unfold Node.fireKeeper; rw [if_neg (by simp [h])]

theorem fireKeeper_tickDue (n : Node) (visits : List Visit) : (n.fireKeeper visits).tickDue = n.tickDue := by
  unfold Node.fireKeeper; split <;> rfl

theorem fireExpiry_tickDue (n : Node) : n.fireExpiry.tickDue = n.tickDue := by
  unfold Node.fireExpiry; split
  · split <;> rfl
  · rfl

theorem fireExpiry_notQueued (n : Node) : n.fireExpiry.expiryQueued = false := by
  unfold Node.expiryQueued
  rw [fireExpiry_now]
  unfold Node.fireExpiry
  split
  · split
    · rfl
    · exact dueNow_later _
  · rename_i h; simpa [Node.expiryQueued] using h

theorem fireExpiry_noop (n : Node) (h : n.expiryQueued = false) : n.fireExpiry = n := by
  unfold Node.fireExpiry; rw [if_neg (by simp [h])]

theorem fireTick_expiryQueued (n : Node) : n.fireTick.expiryQueued = n.expiryQueued := by
  unfold Node.fireTick; split <;> rfl

/-- sending requests arms the expiry check a full period ahead: it does not put it on the queue -/
theorem withSys_expiryQueued (n : Node) (s' : Sys) (h : s'.m.now = n.sys.m.now) :
    (n.withSys s').expiryQueued = n.expiryQueued := by
  unfold Node.expiryQueued
  show dueNow s'.m.now (n.withSys s').expiryDue = _
  rw [h]
  unfold Node.withSys
  simp only
  split
  · rfl
  · cases hd : n.expiryDue with
    | some d => rfl
    | none => simp [dueNow, timerPeriod]

theorem fireKeeper_expiryQueued (n : Node) (visits : List Visit) : (n.fireKeeper visits).expiryQueued = n.expiryQueued := by
  unfold Node.fireKeeper
  split
  · show dueNow (n.update visits).sys.m.now (n.update visits).expiryDue = _
    exact withSys_expiryQueued n _ (update_now n visits)
  · rfl

theorem fire_tickIdle (visits : List Visit) (n : Node) (k : TK) (h : n.sys.m.now < n.tickDue) :
    (n.fire visits k).sys.m.now < (n.fire visits k).tickDue := by
  cases k
  · exact fireTick_due n
  · show (n.fireKeeper visits).sys.m.now < (n.fireKeeper visits).tickDue
    rw [fireKeeper_now, fireKeeper_tickDue]; exact h
  · show n.fireExpiry.sys.m.now < n.fireExpiry.tickDue
    rw [fireExpiry_now, fireExpiry_tickDue]; exact h

theorem fire_keeperIdle (visits : List Visit) (n : Node) (k : TK) (h : n.keeperQueued = false) :
    (n.fire visits k).keeperQueued = false := by
  cases k
  · show n.fireTick.keeperQueued = false; rw [fireTick_keeperQueued]; exact h
  · exact fireKeeper_notQueued n visits
  · show n.fireExpiry.keeperQueued = false; rw [fireExpiry_keeperQueued]; exact h

theorem fire_expiryIdle (visits : List Visit) (n : Node) (k : TK) (h : n.expiryQueued = false) :
    (n.fire visits k).expiryQueued = false := by
  cases k
  · show n.fireTick.expiryQueued = false; rw [fireTick_expiryQueued]; exact h
  · show (n.fireKeeper visits).expiryQueued = false; rw [fireKeeper_expiryQueued]; exact h
  · exact fireExpiry_notQueued n

theorem foldl_fire_prop (visits : List Visit) (P : Node → Prop) (k : TK) (hk : ∀ n : Node, P (n.fire visits k))
    (hp : ∀ (n : Node) (k' : TK), P n → P (n.fire visits k')) :
    ∀ (order : List TK) (n : Node), (k ∈ order ∨ P n) → P (order.foldl (Node.fire visits) n) := by
  intro order
  induction order with
  | nil => intro n h; rcases h with h | h; cases h; exact h
  | cons a as ih =>
    intro n h
    refine ih _ ?_
    rcases h with h | h
    · rcases List.mem_cons.1 h with rfl | h
      · exact Or.inr (hk n)
      · exact Or.inl h
    · exact Or.inr (hp n a h)

/-- after the queue was served (every timer that was on it ran) nothing is on it -/
theorem timers_idle_after (n : Node) (order : List TK) (visits : List Visit)
    (h : TK.tick ∈ order ∧ TK.keeper ∈ order ∧ TK.expiry ∈ order) : (n.timers order visits).Idle :=
  ⟨foldl_fire_prop visits (fun n => n.sys.m.now < n.tickDue) .tick (fun n => fireTick_due n)
      (fun n k hn => fire_tickIdle visits n k hn) order n (Or.inl h.1),
   foldl_fire_prop visits (fun n => n.keeperQueued = false) .keeper (fun n => fireKeeper_notQueued n visits)
      (fun n k hn => fire_keeperIdle visits n k hn) order n (Or.inl h.2.1),
   foldl_fire_prop visits (fun n => n.expiryQueued = false) .expiry (fun n => fireExpiry_notQueued n)
      (fun n k hn => fire_expiryIdle visits n k hn) order n (Or.inl h.2.2)⟩

/-- … so serving it again before the clock has moved does nothing -/
theorem timers_noop_of_idle (n : Node) (order : List TK) (visits : List Visit) (h : n.Idle) :
    n.timers order visits = n := by
  unfold Node.timers
  induction order with
  | nil => rfl
  | cons k ks ih =>
    have : n.fire visits k = n := by
      cases k
      · exact fireTick_noop n h.tick
      · exact fireKeeper_noop n visits h.keeper
      · exact fireExpiry_noop n h.expiry
    rw [List.foldl_cons, this]; exact ih

end Cell2v.SceneM
