import Cell2v.Model.Space
/-!
Lemmas for C20 (zoned spatial index): the coordinate-to-zone function (repaired
code = floor + clamp, monotone, in bounds; equal to the pre-fix code inside the
int64 range), the visited rectangle, the entity map as a finite map, the index
invariant `WF` and its preservation by every operation, coverage, and the
refinement of the plain id ↦ position map.  Core Lean only.
-/
namespace Cell2v.Space

def clampI (x lo hi : Int) : Int := if x < lo then lo else if x > hi then hi else x

theorem zoneN_eq_floor_clamp (n b step : Int) (mx : Nat) (hs : 0 < step) (hm : 1 ≤ mx) :
    (zoneN n b step mx : Int) = clampI ((n - b) / step) 0 ((mx : Int) - 1) := by
  unfold zoneN clampI
  simp only []
  by_cases h1 : 0 < n - b
  · simp only [h1, not_true_eq_false, if_false]
    by_cases h2 : (mx : Int) * step ≤ n - b
    · have : (mx : Int) ≤ (n - b) / step := Int.le_ediv_of_mul_le hs h2
      simp only [h2, if_true]
      split
      · omega
      · split <;> omega
    · have hlt : (n - b) / step < mx := Int.ediv_lt_of_lt_mul hs (by omega)
      have hge : 0 ≤ (n - b) / step := Int.ediv_nonneg (by omega) (by omega)
      simp only [h2, if_false]
      rw [Int.tdiv_eq_ediv_of_nonneg (by omega), Int.toNat_of_nonneg hge]
      split
      · omega
      · split <;> omega
  · have hle : (n - b) / step ≤ 0 := by
      have := Int.ediv_le_ediv hs (show n - b ≤ 0 by omega)
      simpa using this
    simp only [h1, not_false_eq_true, if_true]
    split
    · omega
    · split <;> omega

theorem zoneN_lt (n b step : Int) (mx : Nat) (hm : 1 ≤ mx) : zoneN n b step mx < mx := by
  unfold zoneN
  simp only []
  split
  · omega
  · split
    · omega
    · rename_i h1 h2
      have h0 : 0 ≤ n - b := by omega
      by_cases hs : 0 < step
      · have hlt : (n - b) / step < mx := Int.ediv_lt_of_lt_mul hs (by omega)
        have hge : 0 ≤ (n - b) / step := Int.ediv_nonneg (by omega) (by omega)
        rw [Int.tdiv_eq_ediv_of_nonneg h0]
        omega
      · -- step ≤ 0 : mx*step ≤ 0 < d contradicts h2
        exfalso
        have : (mx : Int) * step ≤ 0 := Int.mul_nonpos_of_nonneg_of_nonpos (by omega) (by omega)
        omega

theorem zoneN_mono (n n' b step : Int) (mx : Nat) (hs : 0 < step) (hm : 1 ≤ mx) (h : n ≤ n') :
    zoneN n b step mx ≤ zoneN n' b step mx := by
  have e1 := zoneN_eq_floor_clamp n b step mx hs hm
  have e2 := zoneN_eq_floor_clamp n' b step mx hs hm
  have : (n - b) / step ≤ (n' - b) / step := Int.ediv_le_ediv hs (by omega)
  unfold clampI at e1 e2
  have : (zoneN n b step mx : Int) ≤ zoneN n' b step mx := by
    rw [e1, e2]
    split <;> split <;> (try split) <;> (try split) <;> omega
  omega

/-- in the int64 range the pre-fix code computes the same index (the repair changes
nothing there): truncation and floor differ only on negative quotients, which clamp to 0 -/
theorem zoneNOld_eq_zoneN (n b step : Int) (mx : Nat) (hs : 0 < step) (hm : 1 ≤ mx)
    (hlo : -(2 ^ 63) * step < n - b) (hhi : n - b < 2 ^ 63 * step) :
    zoneNOld n b step mx = zoneN n b step mx := by
  unfold zoneNOld zoneN goInt
  simp only []
  by_cases h1 : 0 < n - b
  · have h0 : 0 ≤ n - b := by omega
    have hge : 0 ≤ (n - b) / step := Int.ediv_nonneg h0 (by omega)
    have hlt : (n - b) / step < 2 ^ 63 := Int.ediv_lt_of_lt_mul hs hhi
    rw [Int.tdiv_eq_ediv_of_nonneg h0]
    have hno : ¬ ((n - b) / step < -(2 ^ 63) ∨ 2 ^ 63 ≤ (n - b) / step) := by omega
    simp only [hno, if_false, h1, not_true_eq_false]
    have hneg : ¬ ((n - b) / step < 0) := by omega
    simp only [hneg, if_false]
    by_cases h2 : (mx : Int) * step ≤ n - b
    · have : (mx : Int) ≤ (n - b) / step := Int.le_ediv_of_mul_le hs h2
      simp [h2, this]
    · have : (n - b) / step < mx := Int.ediv_lt_of_lt_mul hs (by omega)
      have h3 : ¬ ((mx : Int) ≤ (n - b) / step) := by omega
      simp [h2, h3]
  · simp only [h1, not_false_eq_true, if_true]
    have hle : Int.tdiv (n - b) step ≤ 0 := by
      have h0 : 0 ≤ Int.tdiv (-(n - b)) step := Int.tdiv_nonneg (by omega) (by omega)
      rw [Int.neg_tdiv] at h0; omega
    have hge : -(2 ^ 63) < Int.tdiv (n - b) step := by
      have h0 : Int.tdiv (-(n - b)) step < 2 ^ 63 := by
        rw [Int.tdiv_eq_ediv_of_nonneg (by omega)]
        exact Int.ediv_lt_of_lt_mul hs (by omega)
      rw [Int.neg_tdiv] at h0; omega
    have hno : ¬ (Int.tdiv (n - b) step < -(2 ^ 63) ∨ 2 ^ 63 ≤ Int.tdiv (n - b) step) := by omega
    simp only [hno, if_false]
    split
    · rfl
    · have : Int.tdiv (n - b) step = 0 := by omega
      rw [this]
      have h5 : ¬ ((mx : Int) ≤ 0) := by omega
      simp only [h5, if_false]
      rfl


/-! ### geometry of the index and of the visited rectangle -/

theorem Geo.zx_lt (g : Geo) (hg : g.Ok) (x : Int) : g.zx x < g.w := zoneN_lt _ _ _ _ hg.2.1
theorem Geo.zz_lt (g : Geo) (hg : g.Ok) (z : Int) : g.zz z < g.h := zoneN_lt _ _ _ _ hg.2.2

theorem idx_lt {w h x z : Nat} (hx : x < w) (hz : z < h) : z * w + x < w * h := by
  have h1 : (z + 1) * w ≤ h * w := Nat.mul_le_mul_right w hz
  rw [Nat.succ_mul] at h1
  rw [Nat.mul_comm w h]
  omega

theorem Geo.index_lt (g : Geo) (hg : g.Ok) (x z : Int) : g.index x z < g.w * g.h :=
  idx_lt (g.zx_lt hg x) (g.zz_lt hg z)

theorem idx_inj {w x x' z z' : Nat} (hx : x < w) (hx' : x' < w) (h : z * w + x = z' * w + x') :
    z = z' ∧ x = x' := by
  have hw : 0 < w := by omega
  have d1 : (w * z + x) / w = z := by rw [Nat.mul_add_div hw, Nat.div_eq_of_lt hx]; rfl
  have d2 : (w * z' + x') / w = z' := by rw [Nat.mul_add_div hw, Nat.div_eq_of_lt hx']; rfl
  rw [Nat.mul_comm z w, Nat.mul_comm z' w] at h
  have hz : z = z' := by rw [← d1, ← d2, h]
  subst hz
  exact ⟨rfl, by omega⟩

theorem mem_visitedG (zf : Int → Int → Int → Nat → Nat) (g : Geo) (q : Pos) (r : Int) (i : Nat) :
    i ∈ visitedG zf g q r ↔
      ∃ z x, (zf (q.z - r) g.bz g.step g.h ≤ z ∧ z ≤ zf (q.z + r) g.bz g.step g.h) ∧
             (zf (q.x - r) g.bx g.step g.w ≤ x ∧ x ≤ zf (q.x + r) g.bx g.step g.w) ∧ i = z * g.w + x := by
  simp only [visitedG, List.mem_flatMap, List.mem_map, List.mem_range'_1]
  constructor
  · rintro ⟨z, hz, x, hx, rfl⟩
    exact ⟨z, x, by omega, by omega, rfl⟩
  · rintro ⟨z, x, hz, hx, rfl⟩
    exact ⟨z, by omega, x, by omega, rfl⟩

theorem visited_nodup (g : Geo) (hg : g.Ok) (q : Pos) (r : Int) : (visited g q r).Nodup := by
  unfold visited visitedG
  simp only []
  rw [List.Nodup, List.pairwise_flatMap]
  constructor
  · intro z _
    rw [List.pairwise_map]
    refine List.Pairwise.imp ?_ (List.nodup_range' (s := _) (n := _))
    intro a b hab h
    omega
  · have hx1 : zoneN (q.x + r) g.bx g.step g.w < g.w := zoneN_lt _ _ _ _ hg.2.1
    refine List.Pairwise.imp ?_ (List.nodup_range' (s := _) (n := _))
    intro a b hab i hi j hj hij
    simp only [List.mem_map, List.mem_range'_1] at hi hj
    obtain ⟨x, hx, rfl⟩ := hi
    obtain ⟨x', hx', rfl⟩ := hj
    exact hab (idx_inj (by omega) (by omega) hij).1

theorem visited_lt (g : Geo) (hg : g.Ok) (q : Pos) (r : Int) (i : Nat) (hi : i ∈ visited g q r) :
    i < g.w * g.h := by
  rw [visited, mem_visitedG] at hi
  obtain ⟨z, x, hz, hx, rfl⟩ := hi
  have hx1 : zoneN (q.x + r) g.bx g.step g.w < g.w := zoneN_lt _ _ _ _ hg.2.1
  have hz1 : zoneN (q.z + r) g.bz g.step g.h < g.h := zoneN_lt _ _ _ _ hg.2.2
  exact idx_lt (by omega) (by omega)

/-! ### the entity map as a finite map (`find`) -/

def findE (ents : List Ent) (id : Nat) : Option Ent := ents.find? (fun e => e.id == id)

theorem findE_some {ents : List Ent} {id : Nat} {e : Ent} (h : findE ents id = some e) : e.id = id ∧ e ∈ ents := by
  unfold findE at h
  have h1 := List.find?_some h
  have h2 := List.mem_of_find?_eq_some h
  simp at h1
  exact ⟨h1, h2⟩

theorem findE_none {ents : List Ent} {id : Nat} : findE ents id = none ↔ id ∉ ents.map (·.id) := by
  unfold findE
  simp [List.find?_eq_none]

theorem findE_append (a b : List Ent) (id : Nat) : findE (a ++ b) id = (findE a id).or (findE b id) := by
  unfold findE; exact List.find?_append

theorem findE_filter_ne (ents : List Ent) (id id' : Nat) :
    findE (ents.filter (fun e => e.id != id)) id' = if id' = id then none else findE ents id' := by
  unfold findE
  rw [List.find?_filter]
  by_cases h : id' = id
  · subst h
    simp [List.find?_eq_none]
  · simp only [h, if_false]
    congr 1
    funext a
    by_cases h3 : a.id = id'
    · simp [h3]
      omega
    · simp [h3]

theorem findE_setEnt (ents : List Ent) (id : Nat) (p : Pos) (zi : Nat) (id' : Nat) :
    findE (setEnt ents id p zi) id' =
      if id' = id then (findE ents id).map (fun e => { e with pos := p, zi := zi }) else findE ents id' := by
  have key : findE (setEnt ents id p zi) id' =
      (findE ents id').map (fun e => if e.id == id then { e with pos := p, zi := zi } else e) := by
    unfold findE setEnt
    rw [List.find?_map]
    congr 2
    funext e
    simp only [Function.comp]
    split <;> rfl
  rw [key]
  by_cases h : id' = id
  · subst h
    simp only [if_true]
    cases hf : findE ents id' with
    | none => rfl
    | some e =>
      have := (findE_some hf).1
      simp [this]
  · simp only [h, if_false]
    cases hf : findE ents id' with
    | none => rfl
    | some e =>
      have := (findE_some hf).1
      have h2 : ¬ e.id = id := by omega
      simp [h2]

theorem setEnt_ids (ents : List Ent) (id : Nat) (p : Pos) (zi : Nat) :
    (setEnt ents id p zi).map (·.id) = ents.map (·.id) := by
  unfold setEnt
  rw [List.map_map]
  apply List.map_congr_left
  intro e _
  simp only [Function.comp]
  split <;> rfl

theorem mem_iff_findE {ents : List Ent} (hn : (ents.map (·.id)).Nodup) (e : Ent) :
    e ∈ ents ↔ findE ents e.id = some e := by
  constructor
  · intro he
    induction ents with
    | nil => cases he
    | cons a l ih =>
      simp only [List.map_cons, List.nodup_cons] at hn
      unfold findE
      rw [List.find?_cons]
      by_cases h : a = e
      · subst h; simp
      · have hel : e ∈ l := by
          cases he with
          | head => exact absurd rfl h
          | tail _ h' => exact h'
        have : a.id ≠ e.id := by
          intro heq
          apply hn.1
          rw [heq]
          exact List.mem_map_of_mem hel
        have hb : (a.id == e.id) = false := by simpa using this
        rw [hb]
        exact ih hn.2 hel
  · intro h; exact (findE_some h).2


/-! ### the index invariant -/

/-- every live entity sits in the zone slice of its current position — exactly once,
and in no other slice; no slice holds anything else -/
structure WF (s : Space) : Prop where
  geo : s.geo.Ok
  ids : (s.ents.map (·.id)).Nodup
  zi : ∀ id e, findE s.ents id = some e → e.zi = s.geo.index e.pos.x e.pos.z
  sn : s.slots.Nodup
  sm : ∀ i id, (i, id) ∈ s.slots ↔ ∃ e, findE s.ents id = some e ∧ e.zi = i

theorem find_eq (s : Space) (id : Nat) : s.find id = findE s.ents id := rfl

theorem WF.init (g : Geo) (hg : g.Ok) : WF (Space.init g) :=
  ⟨hg, by simp [Space.init], by simp [Space.init, findE], by simp [Space.init], by simp [Space.init, findE]⟩

theorem findE_single (e : Ent) (id : Nat) : findE [e] id = if e.id = id then some e else none := by
  unfold findE
  by_cases h : e.id = id <;> simp [h]

theorem WF.add {s : Space} (h : WF s) (id : Nat) (p : Pos) : WF (s.add id p) := by
  unfold Space.add
  rw [find_eq]
  cases hf : findE s.ents id with
  | some e => exact h
  | none =>
    have hnot := findE_none.mp hf
    refine ⟨h.geo, ?_, ?_, ?_, ?_⟩
    · simp only [List.map_append, List.map_cons, List.map_nil]
      rw [List.nodup_append]
      refine ⟨h.ids, by simp, ?_⟩
      intro a ha b hb
      simp at hb
      subst hb
      intro hab
      subst hab
      exact hnot ha
    · intro id' e he
      simp only [findE_append, findE_single] at he
      cases hf' : findE s.ents id' with
      | some e' =>
        rw [hf'] at he
        simp at he
        subst he
        exact h.zi id' e' hf'
      | none =>
        rw [hf'] at he
        simp at he
        obtain ⟨_, rfl⟩ := he
        rfl
    · simp only []
      rw [List.nodup_append]
      refine ⟨h.sn, by simp, ?_⟩
      intro a ha b hb
      simp at hb
      subst hb
      intro hab
      subst hab
      obtain ⟨e, he, _⟩ := (h.sm _ _).mp ha
      rw [hf] at he
      cases he
    · intro i id'
      simp only [List.mem_append, List.mem_singleton, Prod.mk.injEq, findE_append, findE_single]
      rw [h.sm i id']
      by_cases hid : id' = id
      · subst hid
        simp [hf]
        exact eq_comm
      · have hid2 : ¬ id = id' := by omega
        simp [hid, hid2]


theorem WF.del {s : Space} (h : WF s) (id : Nat) : WF (s.del id) := by
  unfold Space.del
  rw [find_eq]
  cases hf : findE s.ents id with
  | none => exact h
  | some e =>
    refine ⟨h.geo, ?_, ?_, ?_, ?_⟩
    · simp only []
      refine List.Nodup.sublist ?_ h.ids
      exact List.Sublist.map _ List.filter_sublist
    · intro id' e' he'
      simp only [findE_filter_ne] at he'
      split at he'
      · cases he'
      · exact h.zi id' e' he'
    · exact h.sn.erase _
    · intro i id'
      simp only [findE_filter_ne]
      rw [h.sn.mem_erase_iff, h.sm i id']
      by_cases hid : id' = id
      · subst hid
        simp only [if_true, ne_eq, Prod.mk.injEq, and_true, hf, Option.some.injEq]
        constructor
        · rintro ⟨hne, e', rfl, rfl⟩
          exact absurd rfl hne
        · rintro ⟨e', he', _⟩
          cases he'
      · simp [hid]

theorem WF.mov {s : Space} (h : WF s) (id : Nat) (p : Pos) : ∃ s', s.mov id p = some s' ∧ WF s' := by
  unfold Space.mov
  rw [find_eq]
  cases hf : findE s.ents id with
  | none => exact ⟨s, rfl, h⟩
  | some e =>
    simp only []
    have hslot : (e.zi, id) ∈ s.slots := (h.sm _ _).mpr ⟨e, hf, rfl⟩
    by_cases hsame : e.zi = s.geo.index p.x p.z
    · simp only [hsame, if_true]
      refine ⟨_, rfl, h.geo, ?_, ?_, h.sn, ?_⟩
      · simp only [setEnt_ids]; exact h.ids
      · intro id' e' he'
        simp only [findE_setEnt] at he'
        split at he'
        · rw [hf] at he'
          simp at he'
          subst he'
          rfl
        · exact h.zi id' e' he'
      · intro i id'
        simp only [findE_setEnt]
        rw [h.sm i id']
        by_cases hid : id' = id
        · subst hid
          simp [hf, hsame]
        · simp [hid]
    · simp only [hsame, if_false, hslot, if_true]
      refine ⟨_, rfl, h.geo, ?_, ?_, ?_, ?_⟩
      · simp only [setEnt_ids]; exact h.ids
      · intro id' e' he'
        simp only [findE_setEnt] at he'
        split at he'
        · rw [hf] at he'
          simp at he'
          subst he'
          rfl
        · exact h.zi id' e' he'
      · simp only []
        rw [List.nodup_append]
        refine ⟨h.sn.erase _, by simp, ?_⟩
        intro a ha b hb
        simp at hb
        subst hb
        intro hab
        subst hab
        rw [h.sn.mem_erase_iff] at ha
        obtain ⟨hne, hin⟩ := ha
        obtain ⟨e', he', hz⟩ := (h.sm _ _).mp hin
        rw [hf] at he'
        cases he'
        exact hne (by rw [hz])
      · intro i id'
        simp only [List.mem_append, List.mem_singleton, Prod.mk.injEq, findE_setEnt]
        rw [h.sn.mem_erase_iff, h.sm i id']
        by_cases hid : id' = id
        · subst hid
          simp only [hf, if_true, Option.map_some, Option.some.injEq, ne_eq, Prod.mk.injEq, and_true]
          constructor
          · rintro (⟨hne, e', rfl, rfl⟩ | ⟨rfl, _⟩)
            · exact absurd rfl hne
            · exact ⟨_, rfl, rfl⟩
          · rintro ⟨e', rfl, rfl⟩
            exact Or.inr (by simp)
        · simp [hid]

theorem WF.step {s : Space} (h : WF s) (op : Op) : ∃ s', s.step op = some s' ∧ WF s' := by
  cases op with
  | add id p => exact ⟨_, rfl, h.add id p⟩
  | mov id p => exact h.mov id p
  | del id => exact ⟨_, rfl, h.del id⟩

theorem WF.run {s : Space} (h : WF s) (ops : List Op) : ∃ s', s.run ops = some s' ∧ WF s' := by
  induction ops generalizing s with
  | nil => exact ⟨s, rfl, h⟩
  | cons op ops ih =>
    obtain ⟨s1, h1, w1⟩ := h.step op
    obtain ⟨s2, h2, w2⟩ := ih w1
    exact ⟨s2, by simp [Space.run, h1, h2], w2⟩


/-! ### distance: |dx| ≤ r from the squared 3-D test -/

theorem axis_le_of_sq (dx dy dz r : Int) (hr : 0 ≤ r) (h : dx * dx + dy * dy + dz * dz ≤ r * r) :
    -r ≤ dx ∧ dx ≤ r := by
  have sq_nonneg : ∀ a : Int, 0 ≤ a * a := by
    intro a
    by_cases ha : 0 ≤ a
    · exact Int.mul_nonneg ha ha
    · exact Int.mul_nonneg_of_nonpos_of_nonpos (by omega) (by omega)
  have hy : 0 ≤ dy * dy := sq_nonneg dy
  have hz : 0 ≤ dz * dz := sq_nonneg dz
  have hx : dx * dx ≤ r * r := by omega
  constructor
  · by_cases c : -r ≤ dx
    · exact c
    · exfalso
      have h3 : r < -dx := by omega
      have : r * r < (-dx) * (-dx) := Int.mul_self_lt_mul_self hr h3
      rw [Int.neg_mul_neg] at this; omega
  · by_cases c : dx ≤ r
    · exact c
    · exfalso
      have h3 : r < dx := by omega
      have : r * r < dx * dx := Int.mul_self_lt_mul_self hr h3
      omega

theorem within_axes {q p : Pos} {r : Int} (h : within q r p = true) :
    0 ≤ r ∧ (q.x - r ≤ p.x ∧ p.x ≤ q.x + r) ∧ (q.z - r ≤ p.z ∧ p.z ≤ q.z + r) := by
  unfold within sqDist at h
  simp only [Bool.and_eq_true, decide_eq_true_eq] at h
  obtain ⟨hr, hs⟩ := h
  have hx := axis_le_of_sq (q.x - p.x) (q.y - p.y) (q.z - p.z) r hr hs
  have hz := axis_le_of_sq (q.z - p.z) (q.y - p.y) (q.x - p.x) r hr (by omega)
  exact ⟨hr, by omega, by omega⟩

/-- **coverage**: the zone of any position within range lies in the visited rectangle -/
theorem covered (g : Geo) (hg : g.Ok) {q p : Pos} {r : Int} (h : within q r p = true) :
    g.index p.x p.z ∈ visited g q r := by
  obtain ⟨_, hx, hz⟩ := within_axes h
  rw [visited, mem_visitedG]
  refine ⟨g.zz p.z, g.zx p.x, ⟨?_, ?_⟩, ⟨?_, ?_⟩, rfl⟩
  · exact zoneN_mono _ _ _ _ _ hg.1 hg.2.2 hz.1
  · exact zoneN_mono _ _ _ _ _ hg.1 hg.2.2 hz.2
  · exact zoneN_mono _ _ _ _ _ hg.1 hg.2.1 hx.1
  · exact zoneN_mono _ _ _ _ _ hg.1 hg.2.1 hx.2

/-! ### the query -/

theorem mem_zoneIds (s : Space) (i id : Nat) : id ∈ s.zoneIds i ↔ (i, id) ∈ s.slots := by
  unfold Space.zoneIds
  simp only [List.mem_map, List.mem_filter, beq_iff_eq]
  constructor
  · rintro ⟨⟨a, b⟩, ⟨hm, rfl⟩, rfl⟩; exact hm
  · intro h; exact ⟨(i, id), ⟨h, rfl⟩, rfl⟩

theorem zoneIds_nodup {s : Space} (h : WF s) (i : Nat) : (s.zoneIds i).Nodup := by
  unfold Space.zoneIds
  rw [List.Nodup, List.pairwise_map]
  have hf : (s.slots.filter (fun p => p.1 == i)).Nodup := List.Pairwise.filter _ h.sn
  refine List.Pairwise.imp_of_mem ?_ hf
  intro a b ha hb hab
  simp only [List.mem_filter, beq_iff_eq] at ha hb
  intro h2
  apply hab
  obtain ⟨a1, a2⟩ := a
  obtain ⟨b1, b2⟩ := b
  simp only at ha hb h2
  rw [ha.2, hb.2, h2]

theorem mem_zoneSearch (s : Space) (q : Pos) (r : Int) (i id : Nat) :
    id ∈ s.zoneSearch q r i ↔ (i, id) ∈ s.slots ∧ ∃ e, findE s.ents id = some e ∧ within q r e.pos = true := by
  unfold Space.zoneSearch
  rw [List.mem_filter, mem_zoneIds, find_eq]
  cases findE s.ents id <;> simp

theorem mem_search {s : Space} (h : WF s) (q : Pos) (r : Int) (id : Nat) :
    id ∈ s.search q r ↔ ∃ e, findE s.ents id = some e ∧ within q r e.pos = true := by
  unfold Space.search Space.searchG
  rw [List.mem_flatMap]
  constructor
  · rintro ⟨i, _, hi⟩
    exact ((mem_zoneSearch s q r i id).mp hi).2
  · rintro ⟨e, he, hw⟩
    refine ⟨e.zi, ?_, (mem_zoneSearch s q r e.zi id).mpr ⟨(h.sm _ _).mpr ⟨e, he, rfl⟩, e, he, hw⟩⟩
    rw [h.zi id e he]
    exact covered s.geo h.geo hw

theorem search_nodup {s : Space} (h : WF s) (q : Pos) (r : Int) : (s.search q r).Nodup := by
  unfold Space.search Space.searchG
  rw [List.Nodup, List.pairwise_flatMap]
  constructor
  · intro i _
    exact List.Pairwise.sublist List.filter_sublist (zoneIds_nodup h i)
  · refine List.Pairwise.imp ?_ (visited_nodup s.geo h.geo q r)
    intro i j hij a ha b hb hab
    subst hab
    obtain ⟨e1, he1, hz1⟩ := (h.sm _ _).mp ((mem_zoneSearch s q r i a).mp ha).1
    obtain ⟨e2, he2, hz2⟩ := (h.sm _ _).mp ((mem_zoneSearch s q r j a).mp hb).1
    rw [he1] at he2
    cases he2
    exact hij (hz1.symm.trans hz2)

/-- a negative radius reports nothing, whatever the state -/
theorem search_neg (s : Space) (q : Pos) (r : Int) (hr : r < 0) : s.search q r = [] := by
  unfold Space.search Space.searchG
  rw [List.flatMap_eq_nil_iff]
  intro i _
  unfold Space.zoneSearch
  rw [List.filter_eq_nil_iff]
  intro id _
  have : ¬ (0 ≤ r) := by omega
  cases s.find id <;> simp [within, this]

/-- every slice the query touches exists (`s.zones[index]` is in bounds) -/
theorem search_in_bounds {s : Space} (h : WF s) (q : Pos) (r : Int) :
    ∀ i ∈ visited s.geo q r, i < s.geo.w * s.geo.h := visited_lt s.geo h.geo q r

/-! ### the brute-force reference over the id ↦ position content -/

theorem positions_brute (s : Space) (q : Pos) (r : Int) :
    s.positions.brute q r = (s.ents.filter (fun e => within q r e.pos)).map (·.id) := by
  unfold Ref.brute Space.positions
  rw [List.filter_map, List.map_map]
  rfl

theorem mem_brute {s : Space} (h : WF s) (q : Pos) (r : Int) (id : Nat) :
    id ∈ s.positions.brute q r ↔ ∃ e, findE s.ents id = some e ∧ within q r e.pos = true := by
  rw [positions_brute]
  simp only [List.mem_map, List.mem_filter]
  constructor
  · rintro ⟨e, ⟨he, hw⟩, rfl⟩
    exact ⟨e, (mem_iff_findE h.ids e).mp he, hw⟩
  · rintro ⟨e, he, hw⟩
    exact ⟨e, ⟨(findE_some he).2, hw⟩, (findE_some he).1⟩

theorem brute_nodup {s : Space} (h : WF s) (q : Pos) (r : Int) : (s.positions.brute q r).Nodup := by
  rw [positions_brute]
  exact List.Nodup.sublist (List.Sublist.map _ List.filter_sublist) h.ids

theorem search_perm_brute {s : Space} (h : WF s) (q : Pos) (r : Int) :
    (s.search q r).Perm (s.positions.brute q r) := by
  rw [List.perm_ext_iff_of_nodup (search_nodup h q r) (brute_nodup h q r)]
  intro id
  rw [mem_search h, mem_brute h]

/-! ### the zoned space refines the plain id ↦ position map -/

theorem has_positions (s : Space) (id : Nat) : s.positions.has id = (findE s.ents id).isSome := by
  unfold Ref.has Space.positions findE
  rw [List.any_map]
  induction s.ents with
  | nil => rfl
  | cons a l ih =>
    simp only [List.any_cons, List.find?_cons, Function.comp]
    by_cases h : a.id = id
    · simp [h]
    · have : (a.id == id) = false := by simpa using h
      simp only [this, Bool.false_or]
      exact ih

theorem setEnt_absent {ents : List Ent} {id : Nat} (h : findE ents id = none) (p : Pos) (zi : Nat) :
    setEnt ents id p zi = ents := by
  have hn := findE_none.mp h
  unfold setEnt
  conv => rhs; rw [← List.map_id ents]
  apply List.map_congr_left
  intro e he
  have : e.id ≠ id := by
    intro heq; apply hn; rw [← heq]; exact List.mem_map_of_mem he
  simp [this]

theorem positions_setEnt (ents : List Ent) (id : Nat) (p : Pos) (zi : Nat) :
    (setEnt ents id p zi).map (fun e => (e.id, e.pos)) =
      (ents.map (fun e => (e.id, e.pos))).map (fun ip => if ip.1 == id then (id, p) else ip) := by
  unfold setEnt
  rw [List.map_map, List.map_map]
  apply List.map_congr_left
  intro e _
  simp only [Function.comp]
  by_cases h : e.id = id
  · simp [h]
  · have : (e.id == id) = false := by simpa using h
    simp [this]

theorem positions_step {s s' : Space} {op : Op} (h : s.step op = some s') :
    s'.positions = s.positions.step op := by
  cases op with
  | add id p =>
    simp only [Space.step, Option.some.injEq] at h
    subst h
    unfold Space.add
    simp only [Ref.step]
    rw [has_positions, find_eq]
    cases hf : findE s.ents id with
    | some e => simp
    | none => simp [Space.positions]
  | mov id p =>
    simp only [Space.step] at h
    unfold Space.mov at h
    rw [find_eq] at h
    simp only [Ref.step]
    cases hf : findE s.ents id with
    | none =>
      rw [hf] at h
      simp only [Option.some.injEq] at h
      subst h
      have := positions_setEnt s.ents id p 0
      rw [setEnt_absent hf] at this
      exact this
    | some e =>
      rw [hf] at h
      simp only [] at h
      split at h
      · simp only [Option.some.injEq] at h
        subst h
        exact positions_setEnt _ _ _ _
      · split at h
        · simp only [Option.some.injEq] at h
          subst h
          exact positions_setEnt _ _ _ _
        · cases h
  | del id =>
    simp only [Space.step, Option.some.injEq] at h
    subst h
    unfold Space.del
    simp only [Ref.step]
    rw [find_eq]
    cases hf : findE s.ents id with
    | none =>
      simp only []
      symm
      rw [List.filter_eq_self]
      intro ip hip
      have hn := findE_none.mp hf
      simp only [Space.positions, List.mem_map] at hip
      obtain ⟨e, he, rfl⟩ := hip
      have : e.id ≠ id := by
        intro heq; apply hn; rw [← heq]; exact List.mem_map_of_mem he
      simpa using this
    | some e =>
      simp only [Space.positions]
      rw [List.filter_map]
      rfl

theorem positions_run {s s' : Space} {ops : List Op} (h : s.run ops = some s') :
    s'.positions = s.positions.run ops := by
  induction ops generalizing s with
  | nil =>
    simp only [Space.run, Option.some.injEq] at h
    subst h; rfl
  | cons op ops ih =>
    simp only [Space.run] at h
    cases h1 : s.step op with
    | none => rw [h1] at h; cases h
    | some s1 =>
      rw [h1] at h
      simp only [Option.bind_some] at h
      rw [ih h, positions_step h1]
      rfl

/-! ### `del` really removes, until the next `add` -/

theorem Ref.run_append (m : Ref) (a b : List Op) : m.run (a ++ b) = (m.run a).run b := by
  induction a generalizing m with
  | nil => rfl
  | cons op a ih => exact ih _

theorem Ref.step_absent (m : Ref) (id : Nat) (op : Op) (hop : ∀ p, op ≠ .add id p) (h : m.has id = false) :
    (m.step op).has id = false := by
  unfold Ref.has at h ⊢
  rw [Bool.eq_false_iff, ne_eq, List.any_eq_true] at h ⊢
  intro ⟨ip, hip, hid⟩
  apply h
  cases op with
  | add id' p =>
    simp only [Ref.step] at hip
    split at hip
    · exact ⟨ip, hip, hid⟩
    · rw [List.mem_append, List.mem_singleton] at hip
      cases hip with
      | inl hl => exact ⟨ip, hl, hid⟩
      | inr hr =>
        subst hr
        simp only [beq_iff_eq] at hid
        subst hid
        exact absurd rfl (hop p)
  | mov id' p =>
    simp only [Ref.step, List.mem_map] at hip
    obtain ⟨ip0, h0, rfl⟩ := hip
    refine ⟨ip0, h0, ?_⟩
    split at hid
    · rename_i hc
      simp only [beq_iff_eq] at hid hc ⊢
      omega
    · exact hid
  | del id' =>
    simp only [Ref.step, List.mem_filter] at hip
    exact ⟨ip, hip.1, hid⟩

theorem Ref.del_absent (m : Ref) (id : Nat) : (m.step (.del id)).has id = false := by
  unfold Ref.has Ref.step
  rw [Bool.eq_false_iff, ne_eq, List.any_eq_true]
  rintro ⟨ip, hip, hid⟩
  simp only [List.mem_filter, bne_iff_ne, ne_eq] at hip
  simp only [beq_iff_eq] at hid
  exact hip.2 hid

theorem Ref.run_absent (m : Ref) (id : Nat) (ops : List Op) (hops : ∀ p, Op.add id p ∉ ops)
    (h : m.has id = false) : (m.run ops).has id = false := by
  induction ops generalizing m with
  | nil => exact h
  | cons op ops ih =>
    apply ih
    · intro p hp; exact hops p (List.mem_cons_of_mem _ hp)
    · apply Ref.step_absent _ _ _ _ h
      intro p heq
      exact hops p (by rw [heq]; exact List.mem_cons_self)

theorem not_mem_brute_of_absent (m : Ref) (id : Nat) (q : Pos) (r : Int) (h : m.has id = false) :
    id ∉ m.brute q r := by
  unfold Ref.has at h
  rw [Bool.eq_false_iff, ne_eq, List.any_eq_true] at h
  unfold Ref.brute
  simp only [List.mem_map, List.mem_filter]
  rintro ⟨ip, ⟨hip, _⟩, rfl⟩
  exact h ⟨ip, hip, by simp⟩


theorem geo_step {s s' : Space} {op : Op} (h : s.step op = some s') : s'.geo = s.geo := by
  cases op with
  | add id p =>
    simp only [Space.step, Option.some.injEq] at h
    subst h
    unfold Space.add
    split <;> rfl
  | mov id p =>
    simp only [Space.step] at h
    unfold Space.mov at h
    split at h
    · simp only [Option.some.injEq] at h; subst h; rfl
    · simp only [] at h
      split at h
      · simp only [Option.some.injEq] at h; subst h; rfl
      · split at h
        · simp only [Option.some.injEq] at h; subst h; rfl
        · cases h
  | del id =>
    simp only [Space.step, Option.some.injEq] at h
    subst h
    unfold Space.del
    split <;> rfl

theorem geo_run {s s' : Space} {ops : List Op} (h : s.run ops = some s') : s'.geo = s.geo := by
  induction ops generalizing s with
  | nil =>
    simp only [Space.run, Option.some.injEq] at h
    subst h; rfl
  | cons op ops ih =>
    simp only [Space.run] at h
    cases h1 : s.step op with
    | none => rw [h1] at h; cases h
    | some s1 =>
      rw [h1] at h
      simp only [Option.bind_some] at h
      rw [ih h, geo_step h1]

theorem mem_positions {s : Space} (h : WF s) (id : Nat) (p : Pos) :
    (id, p) ∈ s.positions ↔ ∃ e, findE s.ents id = some e ∧ e.pos = p := by
  unfold Space.positions
  simp only [List.mem_map, Prod.mk.injEq]
  constructor
  · rintro ⟨e, he, rfl, rfl⟩
    exact ⟨e, (mem_iff_findE h.ids e).mp he, rfl⟩
  · rintro ⟨e, he, rfl⟩
    exact ⟨e, (findE_some he).2, (findE_some he).1, rfl⟩

theorem positions_ids (s : Space) : s.positions.map (·.1) = s.ents.map (·.id) := by
  unfold Space.positions
  rw [List.map_map]
  rfl

end Cell2v.Space
